(* A small deep-embedded language for the SYNCHRONOUS methods of goodwe/protocol.py (the event-loop callbacks and the helpers
   they call) and its interpreter over the state of Model/Proto.v.  tools/cb2v.py translates the current source of those
   methods into this language (Gen/CallbackGen.v, regenerated on every run, fail-closed); Proofs/CallbackRefine.v proves that
   the interpretation of the generated programs IS the hand-written model function, for every state and input.  What stays
   trusted is the meaning given here to each primitive statement (an attribute assignment, a Future / TimerHandle / transport
   method call), not the control structure of the methods. *)
From Coq Require Import List Bool Arith.
From RecordUpdate Require Import RecordSet.
From GW Require Import Proto.
Import ListNotations RecordSetNotations.

(* Python exceptions that occur inside these methods *)
Inductive pyexn := PAttributeError | PInvalidState | PPartial (expected : nat) | PRejected (code : nat) | PRuntimeError.
Inductive exn_class := KPartial | KInvalidState | KRejected | KRuntimeError.
Definition catches (c : exn_class) (e : pyexn) : bool :=
  match c, e with
  | KPartial, PPartial _ | KInvalidState, PInvalidState | KRejected, PRejected _ | KRuntimeError, PRuntimeError => true
  | _, _ => false end.

Inductive expr :=
| ETimer | ETransport | EFut              (* truthiness of self._timer / self._transport / self.response_future *)
| EFutDone                                (* self.response_future.done() *)
| ENot (e : expr) | EAnd (a b : expr)     (* `and` is short-circuit *)
| EPartialMatch                           (* self._partial_data and self._partial_missing == len(data) *)
| EValidator                              (* self.command.validator(data) *)
| ELogOnly.                               (* a condition that only selects between log messages (self._retry > 0, exc) *)

(* which exception object is stored into the future *)
Inductive stored := StArg | StCaught | StRejectedEmpty | StMaxRetries.

Inductive meth := MCloseTransport.

Inductive stmt :=
| SPass                                   (* pass, logging, pure local assignments *)
| STimerCancel | STimerNone | STimerArm   (* self._timer.cancel() / self._timer = None / self._timer = loop.call_later(self.timeout, self._timeout_mechanism) *)
| SCallSoonTimeout                        (* loop.call_soon(self._timeout_mechanism) *)
| SSetTransport | STransportClose | STransportNone
| SFutSetResult | SFutSetException (x : stored) | SFutCancel | SFutNew
| SRetryZero
| SPartialJoin                            (* data = self._partial_data + data *)
| SPartialDataNone | SPartialMissingZero | SPartialStoreData | SPartialStoreMissing
| SSetCommand | SSetFuture | SSend
| SCall (m : meth)
| SIf (c : expr) (a b : list stmt)
| STry (body : list stmt) (handlers : list (exn_class * list stmt))
| SReturn.

(* local variables of a method invocation *)
Record locals := mkLocals {
  l_data : tok; l_dlen : nat;             (* `data` and len(data) *)
  l_verdict : verdict;                    (* what self.command.validator answers on the data it is given *)
  l_arg : exn;                            (* the `exc` argument of error_received *)
  l_caught : option pyexn;                (* the exception bound by `except ... as ex` *)
  l_transport : nat;                      (* the `transport` argument of connection_made / the transport used by _send_request *)
  l_fut : nat;                            (* the `response_future` argument of _send_request *)
  l_task : nat;                           (* ghost: the caller task of _send_request *)
}.
#[export] Instance eta_locals : Settable _ := settable! mkLocals <l_data; l_dlen; l_verdict; l_arg; l_caught; l_transport; l_fut; l_task>.

Inductive outcome_x := XNormal | XReturn | XRaise (e : pyexn).
Definition res := (st * locals * list action * outcome_x)%type.

Definition the_fut (s : st) : option nat := s_fut s.

Fixpoint eval (e : expr) (s : st) (l : locals) : bool + pyexn :=
  match e with
  | ETimer => inl (match s_timer s with Some _ => true | None => false end)
  | ETransport => inl (match s_transport s with Some _ => true | None => false end)
  | EFut => inl (match s_fut s with Some _ => true | None => false end)
  | EFutDone => match s_fut s with Some f => inl (negb (pending s f)) | None => inr PAttributeError end
  | ENot a => match eval a s l with inl b => inl (negb b) | inr x => inr x end
  | EAnd a b => match eval a s l with inl true => eval b s l | inl false => inl false | inr x => inr x end
  | EPartialMatch => inl (match s_partial s with Some (_, plen, miss) => Nat.eqb miss (l_dlen l) && negb (Nat.eqb plen 0) | None => false end)
  | EValidator =>
      if negb (s_cmd s) then inr PAttributeError else
      match l_verdict l with
      | VAccept => inl true | VRefuse => inl false | VPartial e => inr (PPartial e) | VRejected c => inr (PRejected c) end
  | ELogOnly => inl true
  end.

(* ghost of the model: the data on which the validator answered "accept" *)
Definition ghost (e : expr) (s : st) (l : locals) : st :=
  match e with EValidator => s <| s_accepted := l_data l :: s_accepted s |> | _ => s end.

Definition stored_exn (x : stored) (l : locals) : exn :=
  match x with
  | StArg => l_arg l
  | StCaught => match l_caught l with Some (PRejected c) => XRejected c | _ => XRejectedEmpty end
  | StRejectedEmpty => XRejectedEmpty
  | StMaxRetries => XMaxRetries end.

(* Future.set_result / set_exception: AttributeError on None, InvalidStateError on a done future *)
Definition fut_set (s : st) (l : locals) (v : fstat) : res :=
  match s_fut s with
  | None => (s, l, [], XRaise PAttributeError)
  | Some f => if pending s f then (complete s f v, l, [], XNormal) else (s, l, [], XRaise PInvalidState) end.

(* transport.sendto / write: the ghosts of the model, the oracle for the outcome of the send, what a failing send does
   (UDP: error_received(exc) synchronously -- passed in as [err]; TCP: the transport closes itself) *)
Definition do_sendto (err : st -> st * list action) (s : st) (l : locals) : st * list action :=
  let t := l_transport l in
  let s := s <| s_sent := t :: s_sent s |> <| s_nsend := S (s_nsend s) |> in
  let '(ok, s) := match s_sends s with b :: tl => (b, s <| s_sends := tl |>) | [] => (true, s) end in
  if ok then (s, [ASend t (l_task l) (l_fut l)])
  else match s_kind s with
       | UDP => let '(s', a) := err s in (s', ASend t (l_task l) (l_fut l) :: a)
       | TCP => (tr_close s t, [ASend t (l_task l) (l_fut l)])
       end.

Section Exec.
  (* the methods called with self.m(): interpreted by the functions of the hand model (each proved to be refined by its own program) *)
  Variable callee : meth -> st -> st.
  Variable err : st -> st * list action.

  Definition prim (c : stmt) (s : st) (l : locals) : res :=
    match c with
    | SPass => (s, l, [], XNormal)
    | STimerCancel => (cancel_timer s, l, [], XNormal)
    | STimerNone => (s <| s_timer := None |>, l, [], XNormal)
    | STimerArm => (arm_timer s, l, [], XNormal)
    | SCallSoonTimeout => (push s CbSoon, l, [], XNormal)
    | SSetTransport => (s <| s_transport := Some (l_transport l) |>, l, [], XNormal)
    | STransportClose => (match s_transport s with Some t => tr_close s t | None => s end, l, [],
                          match s_transport s with Some _ => XNormal | None => XRaise PAttributeError end)
    | STransportNone => (s <| s_transport := None |>, l, [], XNormal)
    | SFutSetResult => fut_set s l (FResult (l_data l))
    | SFutSetException x => fut_set s l (FExc (stored_exn x l))
    | SFutCancel => match s_fut s with
                    | None => (s, l, [], XRaise PAttributeError)
                    | Some f => ((if pending s f then complete s f FCancelled else s), l, [], XNormal) end
    | SFutNew => (s <| s_futs := s_futs s ++ [FPending] |> <| s_fut := Some (length (s_futs s)) |>, l, [], XNormal)
    | SRetryZero => (s <| s_retry := 0 |>, l, [], XNormal)
    | SPartialJoin => (s, match s_partial s with
                          | Some (p, plen, _) => l <| l_data := p ++ l_data l |> <| l_dlen := plen + l_dlen l |>
                          | None => l end, [], match s_partial s with Some _ => XNormal | None => XRaise PAttributeError end)
    | SPartialDataNone => (s <| s_partial := None |>, l, [], XNormal)
    | SPartialMissingZero => (match s_partial s with Some (p, plen, _) => s <| s_partial := Some (p, plen, 0) |> | None => s end, l, [], XNormal)
    | SPartialStoreData => (s <| s_partial := Some (l_data l, l_dlen l, match s_partial s with Some (_, _, m) => m | None => 0 end) |>, l, [], XNormal)
    | SPartialStoreMissing =>
        (match s_partial s, l_caught l with
         | Some (p, plen, _), Some (PPartial e) => s <| s_partial := Some (p, plen, e - l_dlen l) |>
         | _, _ => s end, l, [], XNormal)
    | SSetCommand => (s <| s_cmd := true |>, l, [], XNormal)
    | SSetFuture => (s <| s_fut := Some (l_fut l) |>, l, [], XNormal)
    | SSend => let '(s', a) := do_sendto err s l in (s', l, a, XNormal)
    | SCall m => (callee m s, l, [], XNormal)
    | SReturn => (s, l, [], XReturn)
    | SIf _ _ _ | STry _ _ => (s, l, [], XNormal)      (* structured statements: see [exec] *)
    end.

  Fixpoint find_handler (hs : list (exn_class * list stmt)) (e : pyexn) : option (list stmt) :=
    match hs with [] => None | (c, h) :: tl => if catches c e then Some h else find_handler tl e end.

  (* structural recursion on the program: [exec_list] runs a block, stopping at the first exception / return *)
  Fixpoint exec (c : stmt) (s : st) (l : locals) {struct c} : res :=
    let fix exec_list (cs : list stmt) (s : st) (l : locals) {struct cs} : res :=
      match cs with
      | [] => (s, l, [], XNormal)
      | c :: tl => match exec c s l with
                   | (s', l', a, XNormal) => let '(s'', l'', a', o) := exec_list tl s' l' in (s'', l'', a ++ a', o)
                   | r => r end
      end in
    let fix exec_handlers (hs : list (exn_class * list stmt)) (e : pyexn) (s : st) (l : locals) {struct hs} : option res :=
      match hs with
      | [] => None
      | (k, h) :: tl => if catches k e then Some (exec_list h s (l <| l_caught := Some e |>)) else exec_handlers tl e s l
      end in
    match c with
    | SIf e a b => match eval e s l with
                   | inl true => exec_list a (ghost e s l) l
                   | inl false => exec_list b s l
                   | inr x => (s, l, [], XRaise x) end
    | STry body hs =>
        match exec_list body s l with
        | (s', l', a, XRaise e) =>
            match exec_handlers hs e s' l' with
            | Some (s'', l'', a', o) => (s'', l'', a ++ a', o)
            | None => (s', l', a, XRaise e) end
        | r => r end
    | _ => prim c s l
    end.

  Fixpoint exec_block (cs : list stmt) (s : st) (l : locals) : res :=
    match cs with
    | [] => (s, l, [], XNormal)
    | c :: tl => match exec c s l with
                 | (s', l', a, XNormal) => let '(s'', l'', a', o) := exec_block tl s' l' in (s'', l'', a ++ a', o)
                 | r => r end
    end.

  (* a method invoked as an event-loop callback: an exception that escapes is left in the loop *)
  Definition run_method (body : list stmt) (s : st) (l : locals) : st * list action :=
    match exec_block body s l with
    | (s', _, a, XRaise _) => (s', a ++ [ALoopExc])
    | (s', _, a, _) => (s', a) end.
End Exec.

Definition locals0 : locals := mkLocals [] 0 VAccept XOSError None 0 0 0.

(* Shapes of the coroutines of goodwe/protocol.py (send_request, execute, close, _ensure_lock) as emitted by tools/co2v.py, and the
   meaning of the steps that occur in their except / finally clauses over the state of Model/Proto.v.  Proofs/CoroutineRefine.v derives the
   hand-written model functions (sr_exception, sr_finally, exec_finish, ensure_lock, the close paths) from the generated shapes. *)
From Coq Require Import List Bool Arith.
From RecordUpdate Require Import RecordSet.
From GW Require Import Proto.
Import ListNotations RecordSetNotations.

Inductive fstep :=
| FIncRetry                (* self._retry += 1 *)
| FReleaseIfLocked         (* if self._lock and self._lock.locked(): self._lock.release() *)
| FCloseTransport          (* self._close_transport() *)
| FCloseIfNotKA            (* if not self.keep_alive: self._close_transport() *)
| FRetryZero               (* protocol._retry = 0 *)
| FAwaitCloseIfNotKA       (* if not protocol.keep_alive: await protocol.close() *)
| FNewLock | FSetLoop      (* self._lock = asyncio.Lock() / self._running_loop = asyncio.get_event_loop() *)
| FLog.

Inductive xclass := XcCancelled | XcConnectionRefused | XcTimeout | XcOSError.

Record sr_shape := mkSr { sh_wait_for : bool; sh_clauses : list (list xclass * list fstep); sh_finally : list fstep }.
Record ex_shape := mkEx { ex_caught : list xclass; ex_finally : list fstep }.
Record cl_shape := mkCl { cl_lock : bool; cl_body : list fstep; cl_finally : list fstep }.

Definition run_step (c : fstep) (s : st) : st :=
  match c with
  | FIncRetry => s <| s_retry := S (s_retry s) |>
  | FReleaseIfLocked => release_if_locked s
  | FCloseTransport => close_transport s
  | FCloseIfNotKA => if s_ka s then s else close_transport s
  | FRetryZero => s <| s_retry := 0 |>
  | FNewLock => s <| s_haslock := true |> <| s_lock := false |> <| s_waiters := [] |>
  | FSetLoop => s <| s_lockloop := s_loop s |>
  | FAwaitCloseIfNotKA | FLog => s      (* the await is part of the coroutine skeleton *)
  end.

Fixpoint run_steps (cs : list fstep) (s : st) : st :=
  match cs with [] => s | c :: tl => run_steps tl (run_step c s) end.

(* isinstance(e, class) for the exceptions of the model (TimeoutError is an OSError since Python 3.3/3.11 for asyncio's) *)
Definition isinstance (e : exn) (c : xclass) : bool :=
  match e, c with
  | XCancelled, XcCancelled => true
  | XOSError, XcOSError => true
  | XTimeoutErr, XcTimeout | XTimeoutErr, XcOSError => true
  | _, _ => false end.

Fixpoint find_clause (cls : list (list xclass * list fstep)) (e : exn) : option (list fstep) :=
  match cls with
  | [] => None
  | (cs, steps) :: tl => if existsb (isinstance e) cs then Some steps else find_clause tl e end.

Fixpoint iter_l {A} (n : nat) (f : A -> A) (x : A) : A := match n with O => x | S n' => iter_l n' f (f x) end.

Section Generic.
  Variable again : st -> nat -> nat -> st * list action.

  (* an exception inside the try block of send_request, given the shape of its except clauses *)
  Definition g_sr_exception (sh : sr_shape) (s : st) (k depth : nat) (e : exn) : st * list action :=
    match find_clause (sh_clauses sh) e with
    | Some steps =>
        if Nat.ltb (s_retry s) (s_retries s) then again (run_steps steps s) k (S depth)
        else let '(s, f) := max_retries s in sr_unwind s k depth (RFut f)
    | None => sr_unwind s k depth (RRaise e)
    end.
End Generic.

(* the finally clauses of (depth + 1) nested send_request frames *)
Definition g_sr_finally (sh : sr_shape) (n : nat) (s : st) : st := iter_l n (run_steps (sh_finally sh)) s.

Definition has_await_close (cs : list fstep) : bool := existsb (fun c => match c with FAwaitCloseIfNotKA => true | _ => false end) cs.

(* execute(): outcome, then the finally clause (synchronous steps; `await protocol.close()` unless keep-alive) *)
Definition g_exec_finish (sh : ex_shape) (s : st) (k : nat) (r : sr_result) : st * list action :=
  let o := outcome_of s r in
  let s := run_steps (ex_finally sh) s in
  if negb (has_await_close (ex_finally sh)) || s_ka s then (set_pc s k PcDone, [ADone k o])
  else match s_kind s with
       | UDP => (set_pc (close_transport s) k PcDone, [ADone k o])
       | TCP =>
           let s := ensure_lock s in
           if negb (s_lock s) && match s_waiters s with [] => true | _ => false end
           then (set_pc (lock_release (close_transport (s <| s_lock := true |> <| s_owner := Some k |>))) k PcDone, [ADone k o])
           else let w := s_nextw s in
                (set_pc (s <| s_waiters := s_waiters s ++ [(w, false)] |> <| s_nextw := S w |>) k (PcCloseLockWait w r), [])
       end.

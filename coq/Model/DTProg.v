(* DT.read_runtime_data / DT.sensors (goodwe/dt.py): statement language for the translated method (tools/dt2v.py -> Gen/DTGen.v), its
   interpreter, and the capability model it is proved equal to (Proofs/DTRefine.v).  The only capability of a DT is _has_meter: set in
   __init__, cleared by read_runtime_data when the meter block cannot be read. *)
From Coq Require Import List Bool.
Import ListNotations.

(* what _read_from_socket raised *)
Inductive dexn := DxRejected | DxFailed | DxMaxRetries | DxInverterError | DxForeign.
Inductive dclass := DcRejected | DcFailed | DcMaxRetries | DcInverterError.
Definition dcatches (c : dclass) (e : dexn) : bool :=
  match c, e with
  | DcRejected, DxRejected | DcFailed, DxFailed | DcMaxRetries, DxMaxRetries => true
  | DcInverterError, DxForeign => false
  | DcInverterError, _ => true
  | _, _ => false end.

Inductive dstmt :=
| DRead (meter : bool)            (* response = await self._read_from_socket(self._READ_RUNNING_DATA / self._READ_METER_DATA) *)
| DMapNew                         (* data = self._map_response(response, self._sensors) *)
| DMapUpdateMeter                 (* data.update(self._map_response(response, self._sensors_meter)) *)
| DIfMeter (body : list dstmt)    (* if self._has_meter: *)
| DTry (body : list dstmt) (classes : list dclass) (handler : list dstmt)
| DMeterOff                       (* self._has_meter = False *)
| DReturn.                        (* return data *)

(* which lists the returned dictionary was filled from *)
Record ddata := mkD { dd_running : bool; dd_meter : bool }.
Inductive dout := DGoOn | DReturned (d : option ddata) | DRaised (e : dexn).

Record dst := mkDst {
  ds_has_meter : bool;
  ds_resp : option bool;          (* the block the last response came from (false = running data, true = meter data) *)
  ds_data : option ddata;
  ds_reads : list bool            (* requests transmitted, in order *)
}.

Section Run.
  (* outcome of the two read requests *)
  Variable o_running o_meter : option dexn.

  Fixpoint exec_d (c : dstmt) (s : dst) {struct c} : dst * dout :=
    let fix exec_l (cs : list dstmt) (s : dst) {struct cs} : dst * dout :=
      match cs with
      | [] => (s, DGoOn)
      | c :: tl => match exec_d c s with (s', DGoOn) => exec_l tl s' | r => r end
      end in
    match c with
    | DRead m =>
        let s := mkDst (ds_has_meter s) (ds_resp s) (ds_data s) (ds_reads s ++ [m]) in
        match (if m then o_meter else o_running) with
        | None => (mkDst (ds_has_meter s) (Some m) (ds_data s) (ds_reads s), DGoOn)
        | Some e => (s, DRaised e) end
    | DMapNew => (mkDst (ds_has_meter s) (ds_resp s) (Some (mkD (match ds_resp s with Some false => true | _ => false end) false)) (ds_reads s), DGoOn)
    | DMapUpdateMeter =>
        (mkDst (ds_has_meter s) (ds_resp s)
               (match ds_data s with Some d => Some (mkD (dd_running d) (match ds_resp s with Some true => true | _ => dd_meter d end)) | None => None end)
               (ds_reads s), DGoOn)
    | DIfMeter body => if ds_has_meter s then exec_l body s else (s, DGoOn)
    | DTry body classes handler =>
        match exec_l body s with
        | (s', DRaised e) => if existsb (fun k => dcatches k e) classes then exec_l handler s' else (s', DRaised e)
        | r => r end
    | DMeterOff => (mkDst false (ds_resp s) (ds_data s) (ds_reads s), DGoOn)
    | DReturn => (s, DReturned (ds_data s))
    end.

  Fixpoint exec_block_d (cs : list dstmt) (s : dst) : dst * dout :=
    match cs with
    | [] => (s, DGoOn)
    | c :: tl => match exec_d c s with (s', DGoOn) => exec_block_d tl s' | r => r end
    end.

  (* one call of the translated method: new capability, requests transmitted, outcome *)
  Definition run_dt (prog : list dstmt) (has_meter : bool) : bool * list bool * dout :=
    let '(s, o) := exec_block_d prog (mkDst has_meter None None []) in (ds_has_meter s, ds_reads s, o).

  (* the capability model: running data always; the meter block while _has_meter; a rejected or failed meter read clears the capability
     and the call still succeeds with the running data alone; anything else propagates *)
  Definition dt_read_runtime_data (has_meter : bool) : bool * list bool * dout :=
    match o_running with
    | Some e => (has_meter, [false], DRaised e)
    | None =>
        if has_meter then
          match o_meter with
          | None => (true, [false; true], DReturned (Some (mkD true true)))
          | Some e => match e with
                      | DxRejected | DxFailed => (false, [false; true], DReturned (Some (mkD true false)))
                      | _ => (true, [false; true], DRaised e) end
          end
        else (false, [false], DReturned (Some (mkD true false)))
    end.
End Run.

(* sensors(): _sensors, plus _sensors_meter while _has_meter *)
Definition dt_sensors (has_meter : bool) : ddata := mkD true has_meter.

(* canonical encoding for the correspondence cases (not used by theorems) *)
Definition enc_dt (x : bool * list bool * dout) : list nat :=
  let '(hm, reads, o) := x in
  (if hm then 1 else 0) :: List.length reads :: map (fun b : bool => if b then 1 else 0) reads ++
  match o with
  | DReturned (Some d) => [1; if dd_running d then 1 else 0; if dd_meter d then 1 else 0]
  | DReturned None => [2] | DRaised _ => [0] | DGoOn => [3] end.

(* The dispatcher ES.set_operation_mode (goodwe/es.py) as data: tools/om2v.py translates the if/elif chain into one step list per mode
   (Gen/ModesGen.v: es_set_mode) and reads, from each mode helper (_set_general_mode, ...), the work mode its LAST statement commands
   (es_helper_final).  The language has no conditional: a dispatcher that branches on anything but the requested mode (firmware version,
   earlier state) is refused by the translator.  What the helpers send before their last statement is NOT modelled (monitor: DESIGN section 12). *)
From Coq Require Import ZArith List String.
From GW Require Import Modes.
Import ListNotations.

Inductive eshelper := HGeneral | HOffGrid | HBackup | HEco.

Inductive esstep :=
| EsHelper (h : eshelper)             (* await self._set_<h>_mode(): ends with await self._set_work_mode(OperationMode.<es_helper_final h>) *)
| EsUnsupported                       (* raise InverterError("Operation not supported.") *)
| EsCheckRange                        (* eco_mode_power, eco_mode_soc outside 0..100 -> ValueError *)
| EsEcoGroup (charge : bool)          (* read eco_mode_1, set_schedule_type(ECO_MODE, False), write eco_mode_1 := encode_charge / encode_discharge *)
| EsWrite (id : string) (v : Z).      (* await self.write_setting(id, v) *)

(* the work mode a program leaves behind: the one commanded by its last step, when that is a mode helper *)
Definition es_final (final : eshelper -> mode) (p : list esstep) : option mode :=
  match rev p with EsHelper h :: _ => Some (final h) | _ => None end.

(* what get_operation_mode reads back from the work-mode register alone: the emulated modes are ECO + the content of group 1 *)
Definition es_expected (m : mode) : mode := match m with MEcoCharge | MEcoDischarge => MEco | _ => m end.

Fixpoint eco_groups (p : list esstep) : list bool :=
  match p with [] => [] | EsEcoGroup b :: tl => b :: eco_groups tl | _ :: tl => eco_groups tl end.

(* Hand model of the capability bookkeeping of ET.read_runtime_data / ET.sensors (goodwe/et.py): which register blocks
   are requested, which optional blocks are dropped on ILLEGAL DATA ADDRESS, and which sensor groups sensors() lists.
   Tied to the code by harness/props/c15.py: request sequence, outcome and flags of the real class against the
   simulated inverter are compared with this model for every configuration. *)
From Coq Require Import List Bool Arith.
Import ListNotations.

Inductive block := BRunning | BBattery | BBattery2 | BMeterExt2 | BMeterExt | BMeterBasic | BMppt.
(* sensor groups of the result / of sensors(): the meter group carries the filter level of _sensors_meter
   (0: all, 1: offset < 36058, 2: offset < 36045) *)
Inductive group := GRunning | GMeter (level : nat) | GBattery | GBattery2 | GMppt.

Record caps := mkCaps { has_battery : bool; has_battery2 : bool; has_ext : bool; has_ext2 : bool; has_mppt : bool; meter_level : nat }.

(* the inverter: which optional blocks it refuses with ILLEGAL DATA ADDRESS, and whether battery_mode reads 0 *)
Record env := mkEnv { r_battery : bool; r_battery2 : bool; r_ext2 : bool; r_ext : bool; r_mppt : bool; bm_zero : bool }.

Definition after_device_info (two_batteries big_or_745 : bool) : caps :=
  mkCaps true two_batteries big_or_745 big_or_745 big_or_745 (if big_or_745 then 0 else 2).

Definition sensors_groups (c : caps) : list group :=
  [GRunning; GMeter (meter_level c)] ++ (if has_battery c then [GBattery] else []) ++ (if has_battery2 c then [GBattery2] else [])
  ++ (if has_mppt c then [GMppt] else []).

(* -> requests made, result (None = the call raised RequestRejectedException), capabilities afterwards *)
Definition read_runtime_data (c : caps) (e : env) : list block * option (list group) * caps :=
  let reqs := [BRunning] in
  let keys := [GRunning] in
  (* battery *)
  let hb := negb (bm_zero e) in
  let '(reqs, keys, hb) :=
    if hb then (if r_battery e then (reqs ++ [BBattery], keys, false) else (reqs ++ [BBattery], keys ++ [GBattery], true)) else (reqs, keys, false) in
  let '(reqs, keys, hb2) :=
    if has_battery2 c then (if r_battery2 e then (reqs ++ [BBattery2], keys, false) else (reqs ++ [BBattery2], keys ++ [GBattery2], true)) else (reqs, keys, false) in
  (* meter *)
  let '(reqs, meter, ext2, ext, lvl) :=
    if has_ext2 c then
      if r_ext2 e then
        let lvl := Nat.max (meter_level c) 1 in
        if r_ext e then (reqs ++ [BMeterExt2; BMeterExt], None, false, has_ext c, lvl)
        else (reqs ++ [BMeterExt2; BMeterExt], Some lvl, false, has_ext c, lvl)
      else (reqs ++ [BMeterExt2], Some (meter_level c), true, has_ext c, meter_level c)
    else if has_ext c then
      if r_ext e then (reqs ++ [BMeterExt; BMeterBasic], Some 2, false, false, 2)
      else (reqs ++ [BMeterExt], Some (meter_level c), false, true, meter_level c)
    else (reqs ++ [BMeterBasic], Some (meter_level c), false, false, meter_level c) in
  match meter with
  | None => (reqs, None, mkCaps hb hb2 ext ext2 (has_mppt c) lvl)
  | Some l =>
      let keys := keys ++ [GMeter l] in
      let '(reqs, keys, mp) :=
        if has_mppt c then (if r_mppt e then (reqs ++ [BMppt], keys, false) else (reqs ++ [BMppt], keys ++ [GMppt], true)) else (reqs, keys, false) in
      (reqs, Some keys, mkCaps hb hb2 ext ext2 mp lvl)
  end.

(* same groups, as sets (the result dictionary is keyed by sensor id) *)
Definition group_eqb (a b : group) : bool :=
  match a, b with
  | GRunning, GRunning | GBattery, GBattery | GBattery2, GBattery2 | GMppt, GMppt => true
  | GMeter x, GMeter y => Nat.eqb x y
  | _, _ => false end.
Definition subset (a b : list group) : bool := forallb (fun x => existsb (group_eqb x) b) a.
Definition same_groups (a b : list group) : bool := subset a b && subset b a.

(* enumeration of the finite spaces *)
Definition bools := [true; false].
Definition all_caps : list caps :=
  flat_map (fun a => flat_map (fun b => flat_map (fun c => flat_map (fun d => flat_map (fun e => map (fun l => mkCaps a b c d e l) [0; 1; 2]) bools) bools) bools) bools) bools.
Definition all_envs : list env :=
  flat_map (fun a => flat_map (fun b => flat_map (fun c => flat_map (fun d => flat_map (fun e => map (fun f => mkEnv a b c d e f) bools) bools) bools) bools) bools) bools.

Definition keys_ok (c : caps) (e : env) : bool :=
  match read_runtime_data c e with
  | (_, Some keys, c') => same_groups keys (sensors_groups c')
  | (_, None, _) => true end.

(* reachable capability sets keep the invariant "extended-2 implies filter level 0 ... " implicitly: the statement below
   is over ALL capability sets, reachable or not *)
Definition second_call_ok (c : caps) (e1 e2 : env) : bool :=
  match read_runtime_data c e1 with
  | (_, Some _, _) => true
  | (_, None, c') => match read_runtime_data c' e2 with (_, Some _, _) => true | _ => false end
  end.

(* the refusal set of an inverter does not change between two calls; battery_mode may *)
Definition same_refusals (a b : env) : bool :=
  Bool.eqb (r_battery a) (r_battery b) && Bool.eqb (r_battery2 a) (r_battery2 b) && Bool.eqb (r_ext2 a) (r_ext2 b)
  && Bool.eqb (r_ext a) (r_ext b) && Bool.eqb (r_mppt a) (r_mppt b).

Definition enc_block (b : block) : nat := match b with BRunning => 0 | BBattery => 1 | BBattery2 => 2 | BMeterExt2 => 3 | BMeterExt => 4 | BMeterBasic => 5 | BMppt => 6 end.
Definition enc_caps (c : caps) : list nat :=
  map (fun b : bool => if b then 1 else 0) [has_battery c; has_battery2 c; has_ext c; has_ext2 c; has_mppt c] ++ [meter_level c].
Definition enc_call (r : list block * option (list group) * caps) : list nat :=
  let '(reqs, res, c) := r in
  [length reqs] ++ map enc_block reqs ++ [match res with Some _ => 1 | None => 0 end] ++ enc_caps c.

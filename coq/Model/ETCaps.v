(* Hand model of the capability bookkeeping of ET.read_runtime_data / ET.sensors (goodwe/et.py): which register blocks
   are requested, which optional blocks are dropped on ILLEGAL DATA ADDRESS, and which sensor groups sensors() lists.
   Tied to the code by harness/props/c15.py: request sequence, outcome and flags of the real class against the
   simulated inverter are compared with this model for every configuration. *)
From Coq Require Import List Bool Arith.
Import ListNotations.

Inductive block := BRunning | BBattery | BBattery2 | BMeterExt2 | BMeterExt | BMeterBasic | BMppt.
(* sensor groups of the result / of sensors(): the meter group carries the filter level of _sensors_meter
   (0: all, 1: offset < 36058, 2: offset < 36045) *)
Inductive group := GRunning | GMeter (level : nat) | GBattery | GBattery2 | GMppt.

Record caps := mkCaps { has_battery : bool; has_battery2 : bool; has_ext : bool; has_ext2 : bool; has_mppt : bool; meter_level : nat }.

(* the inverter: which optional blocks it refuses with ILLEGAL DATA ADDRESS, and whether battery_mode reads 0 *)
Record env := mkEnv { r_battery : bool; r_battery2 : bool; r_ext2 : bool; r_ext : bool; r_mppt : bool; bm_zero : bool }.

Definition after_device_info (two_batteries big_or_745 : bool) : caps :=
  mkCaps true two_batteries big_or_745 big_or_745 big_or_745 (if big_or_745 then 0 else 2).

Definition sensors_groups (c : caps) : list group :=
  [GRunning; GMeter (meter_level c)] ++ (if has_battery c then [GBattery] else []) ++ (if has_battery2 c then [GBattery2] else [])
  ++ (if has_mppt c then [GMppt] else []).

(* One call.  [lose]: the ordinal (0-based, within this call) of a request that gets no answer (RequestFailedException
   propagates out of read_runtime_data with the capability flags as they are at that moment); None: every request is answered.
   -> requests made, result (None = the call raised), capabilities afterwards *)
Definition cres := (list block * option (list group) * caps)%type.
Record pst := mkP { p_reqs : list block; p_keys : list group; p_caps : caps }.
Definition lost (lose : option nat) (reqs : list block) : bool :=
  match lose with Some n => Nat.eqb n (length reqs) | None => false end.
Definition abort (p : pst) (b : block) : cres := (p_reqs p ++ [b], None, p_caps p).

Definition set_battery (c : caps) (v : bool) := mkCaps v (has_battery2 c) (has_ext c) (has_ext2 c) (has_mppt c) (meter_level c).
Definition set_battery2 (c : caps) (v : bool) := mkCaps (has_battery c) v (has_ext c) (has_ext2 c) (has_mppt c) (meter_level c).
Definition set_mppt (c : caps) (v : bool) := mkCaps (has_battery c) (has_battery2 c) (has_ext c) (has_ext2 c) v (meter_level c).
Definition set_ext2_off (c : caps) := mkCaps (has_battery c) (has_battery2 c) (has_ext c) false (has_mppt c) (Nat.max (meter_level c) 1).
Definition set_ext_off (c : caps) := mkCaps (has_battery c) (has_battery2 c) false (has_ext2 c) (has_mppt c) 2.

(* an optional block guarded by a capability flag that is switched off on ILLEGAL DATA ADDRESS *)
Definition opt_block (lose : option nat) (p : pst) (enabled refused : bool) (b : block) (g : group) (off : caps -> caps) : cres + pst :=
  if enabled then
    if lost lose (p_reqs p) then inl (abort p b)
    else if refused then inr (mkP (p_reqs p ++ [b]) (p_keys p) (off (p_caps p)))
    else inr (mkP (p_reqs p ++ [b]) (p_keys p ++ [g]) (p_caps p))
  else inr p.

(* the meter block with its two fallbacks; a refused fallback read re-raises *)
Definition meter_block (lose : option nat) (e : env) (p : pst) : cres + pst :=
  let c := p_caps p in
  let ok (p' : pst) (b : block) := inr (mkP (p_reqs p' ++ [b]) (p_keys p' ++ [GMeter (meter_level (p_caps p'))]) (p_caps p')) in
  if has_ext2 c then
    if lost lose (p_reqs p) then inl (abort p BMeterExt2)
    else if r_ext2 e then
      let p1 := mkP (p_reqs p ++ [BMeterExt2]) (p_keys p) (set_ext2_off c) in
      if lost lose (p_reqs p1) then inl (abort p1 BMeterExt)
      else if r_ext e then inl (abort p1 BMeterExt)
      else ok p1 BMeterExt
    else ok p BMeterExt2
  else if has_ext c then
    if lost lose (p_reqs p) then inl (abort p BMeterExt)
    else if r_ext e then
      let p1 := mkP (p_reqs p ++ [BMeterExt]) (p_keys p) (set_ext_off c) in
      if lost lose (p_reqs p1) then inl (abort p1 BMeterBasic)
      else ok p1 BMeterBasic
    else ok p BMeterExt
  else
    if lost lose (p_reqs p) then inl (abort p BMeterBasic) else ok p BMeterBasic.

Definition read_runtime_data (c : caps) (e : env) (lose : option nat) : cres :=
  if lost lose [] then ([BRunning], None, c) else
  let hb := negb (bm_zero e) in
  let p := mkP [BRunning] [GRunning] (set_battery c hb) in
  match opt_block lose p hb (r_battery e) BBattery GBattery (fun c => set_battery c false) with
  | inl r => r
  | inr p =>
  match opt_block lose p (has_battery2 (p_caps p)) (r_battery2 e) BBattery2 GBattery2 (fun c => set_battery2 c false) with
  | inl r => r
  | inr p =>
  match meter_block lose e p with
  | inl r => r
  | inr p =>
  match opt_block lose p (has_mppt (p_caps p)) (r_mppt e) BMppt GMppt (fun c => set_mppt c false) with
  | inl r => r
  | inr p => (p_reqs p, Some (p_keys p), p_caps p)
  end end end end.

(* the window fetched for the meter block (125 / 58 / 45 registers by the flags) covers the meter sensors listed at the filter level *)
Definition caps_consistent (c : caps) : bool :=
  if has_ext2 c then has_ext c else if has_ext c then Nat.leb 1 (meter_level c) else Nat.eqb (meter_level c) 2.

Definition all_loss : list (option nat) := None :: map Some [0; 1; 2; 3; 4; 5; 6; 7].

(* same groups, as sets (the result dictionary is keyed by sensor id) *)
Definition group_eqb (a b : group) : bool :=
  match a, b with
  | GRunning, GRunning | GBattery, GBattery | GBattery2, GBattery2 | GMppt, GMppt => true
  | GMeter x, GMeter y => Nat.eqb x y
  | _, _ => false end.
Definition subset (a b : list group) : bool := forallb (fun x => existsb (group_eqb x) b) a.
Definition same_groups (a b : list group) : bool := subset a b && subset b a.

(* enumeration of the finite spaces *)
Definition bools := [true; false].
Definition all_caps : list caps :=
  flat_map (fun a => flat_map (fun b => flat_map (fun c => flat_map (fun d => flat_map (fun e => map (fun l => mkCaps a b c d e l) [0; 1; 2]) bools) bools) bools) bools) bools.
Definition all_envs : list env :=
  flat_map (fun a => flat_map (fun b => flat_map (fun c => flat_map (fun d => flat_map (fun e => map (fun f => mkEnv a b c d e f) bools) bools) bools) bools) bools) bools.

Definition keys_ok (c : caps) (e : env) (lose : option nat) : bool :=
  match read_runtime_data c e lose with
  | (_, Some keys, c') => same_groups keys (sensors_groups c')
  | (_, None, _) => true end.

(* reachable capability sets keep the invariant "extended-2 implies filter level 0 ... " implicitly: the statement below
   is over ALL capability sets, reachable or not *)
Definition second_call_ok (c : caps) (e1 e2 : env) : bool :=
  match read_runtime_data c e1 None with
  | (_, Some _, _) => true
  | (_, None, c') => match read_runtime_data c' e2 None with (_, Some _, _) => true | _ => false end
  end.

(* the refusal set of an inverter does not change between two calls; battery_mode may *)
Definition same_refusals (a b : env) : bool :=
  Bool.eqb (r_battery a) (r_battery b) && Bool.eqb (r_battery2 a) (r_battery2 b) && Bool.eqb (r_ext2 a) (r_ext2 b)
  && Bool.eqb (r_ext a) (r_ext b) && Bool.eqb (r_mppt a) (r_mppt b).

Definition enc_block (b : block) : nat := match b with BRunning => 0 | BBattery => 1 | BBattery2 => 2 | BMeterExt2 => 3 | BMeterExt => 4 | BMeterBasic => 5 | BMppt => 6 end.
Definition enc_caps (c : caps) : list nat :=
  map (fun b : bool => if b then 1 else 0) [has_battery c; has_battery2 c; has_ext c; has_ext2 c; has_mppt c] ++ [meter_level c].
Definition enc_call (r : list block * option (list group) * caps) : list nat :=
  let '(reqs, cres, c) := r in
  [length reqs] ++ map enc_block reqs ++ [match cres with Some _ => 1 | None => 0 end] ++ enc_caps c.

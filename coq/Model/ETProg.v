(* Statement language for ET.read_runtime_data / ET.sensors() (goodwe/et.py) as emitted by tools/et2v.py, and its interpreter over the
   capability model Model/ETCaps.v.  Proofs/ETRefine.v proves (by complete enumeration inside Coq) that the interpretation of the generated
   program IS ETCaps.read_runtime_data / sensors_groups. *)
From Coq Require Import List Bool Arith.
From GW Require Import ETCaps.
Import ListNotations.

Inductive flag := FlBattery | FlBattery2 | FlExt | FlExt2 | FlMppt.
Inductive slist := SlRunning | SlMeter | SlBattery | SlBattery2 | SlMppt.     (* self._sensors, self._sensors_meter, ... *)

Inductive rstmt :=
| RRead (b : block)                         (* response = await self._read_from_socket(self._READ_...) *)
| RMapNew (l : slist)                       (* data = self._map_response(response, l) *)
| RMapUpdate (l : slist)                    (* data.update(self._map_response(response, l)) *)
| RSetBatteryFromData                       (* self._has_battery = data.get('battery_mode', 0) != 0 *)
| RFlagOff (f : flag)                       (* self._has_x = False *)
| RFilterMeter (level : nat)                (* self._sensors_meter = tuple(filter(self._not_extended_meter[2], self._sensors_meter)) *)
| RIfFlag (f : flag) (a b : list rstmt)     (* if self._has_x: ... elif/else ... *)
| RTryIllegal (body handler : list rstmt)   (* try: body except RequestRejectedException as ex: if ex.message == ILLEGAL_DATA_ADDRESS: handler else: raise ex *)
| RReturnData.

Definition get_flag (f : flag) (c : caps) : bool :=
  match f with FlBattery => has_battery c | FlBattery2 => has_battery2 c | FlExt => has_ext c | FlExt2 => has_ext2 c | FlMppt => has_mppt c end.
Definition flag_off (f : flag) (c : caps) : caps :=
  match f with
  | FlBattery => mkCaps false (has_battery2 c) (has_ext c) (has_ext2 c) (has_mppt c) (meter_level c)
  | FlBattery2 => mkCaps (has_battery c) false (has_ext c) (has_ext2 c) (has_mppt c) (meter_level c)
  | FlExt => mkCaps (has_battery c) (has_battery2 c) false (has_ext2 c) (has_mppt c) (meter_level c)
  | FlExt2 => mkCaps (has_battery c) (has_battery2 c) (has_ext c) false (has_mppt c) (meter_level c)
  | FlMppt => mkCaps (has_battery c) (has_battery2 c) (has_ext c) (has_ext2 c) false (meter_level c) end.
Definition set_level (c : caps) (l : nat) : caps := mkCaps (has_battery c) (has_battery2 c) (has_ext c) (has_ext2 c) (has_mppt c) (Nat.max (meter_level c) l).
Definition set_battery_flag (c : caps) (v : bool) : caps := mkCaps v (has_battery2 c) (has_ext c) (has_ext2 c) (has_mppt c) (meter_level c).

Definition group_of (l : slist) (c : caps) : group :=
  match l with SlRunning => GRunning | SlMeter => GMeter (meter_level c) | SlBattery => GBattery | SlBattery2 => GBattery2 | SlMppt => GMppt end.

(* does the inverter refuse this block? (the extended-2 window contains the extended one) *)
Definition refused (e : env) (b : block) : bool :=
  match b with
  | BRunning | BMeterBasic => false
  | BBattery => r_battery e | BBattery2 => r_battery2 e | BMeterExt2 => r_ext2 e | BMeterExt => r_ext e | BMppt => r_mppt e end.

Inductive rout := ONormal | OReturn | ORaiseRejected | ORaiseFailed.
Record rst := mkRst { r_reqs : list block; r_keys : list group; r_caps : caps }.

Section Interp.
  Variable e : env.
  Variable lose : option nat.

  Fixpoint rexec (c : rstmt) (s : rst) {struct c} : rst * rout :=
    let fix rexec_list (cs : list rstmt) (s : rst) {struct cs} : rst * rout :=
      match cs with
      | [] => (s, ONormal)
      | c :: tl => match rexec c s with (s', ONormal) => rexec_list tl s' | r => r end
      end in
    match c with
    | RRead b =>
        let s' := mkRst (r_reqs s ++ [b]) (r_keys s) (r_caps s) in
        if lost lose (r_reqs s) then (s', ORaiseFailed)
        else if refused e b then (s', ORaiseRejected) else (s', ONormal)
    | RMapNew l => (mkRst (r_reqs s) [group_of l (r_caps s)] (r_caps s), ONormal)
    | RMapUpdate l => (mkRst (r_reqs s) (r_keys s ++ [group_of l (r_caps s)]) (r_caps s), ONormal)
    | RSetBatteryFromData => (mkRst (r_reqs s) (r_keys s) (set_battery_flag (r_caps s) (negb (bm_zero e))), ONormal)
    | RFlagOff f => (mkRst (r_reqs s) (r_keys s) (flag_off f (r_caps s)), ONormal)
    | RFilterMeter l => (mkRst (r_reqs s) (r_keys s) (set_level (r_caps s) l), ONormal)
    | RIfFlag f a b => if get_flag f (r_caps s) then rexec_list a s else rexec_list b s
    | RTryIllegal body h =>
        match rexec_list body s with
        | (s', ORaiseRejected) => rexec_list h s'
        | r => r end
    | RReturnData => (s, OReturn)
    end.

  Fixpoint rexec_block (cs : list rstmt) (s : rst) : rst * rout :=
    match cs with
    | [] => (s, ONormal)
    | c :: tl => match rexec c s with (s', ONormal) => rexec_block tl s' | r => r end
    end.

  Definition run_rrd (prog : list rstmt) (c : caps) : cres :=
    match rexec_block prog (mkRst [] [] c) with
    | (s, OReturn) => (r_reqs s, Some (r_keys s), r_caps s)
    | (s, _) => (r_reqs s, None, r_caps s) end.
End Interp.

(* sensors(): the always-present lists, then the flag-guarded ones *)
Definition run_sensors (always : list slist) (guarded : list (flag * slist)) (c : caps) : list group :=
  map (fun l => group_of l c) always ++ flat_map (fun p => if get_flag (fst p) c then [group_of (snd p) c] else []) guarded.

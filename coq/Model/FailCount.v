(* Inverter._read_from_socket (goodwe/inverter.py): bookkeeping of consecutive_failures_count.
   Hand model, tied to the code by harness/props/c09.py (all histories up to a length through the real method). *)
From Coq Require Import List Bool Arith Lia.
Import ListNotations.

(* outcome of command.execute(): a response | MaxRetriesException / RequestFailedException | RequestRejectedException *)
Inductive rres := RSucc | RFail | RRej.

(* new counter, and the count carried by the RequestFailedException that is raised (if one is raised) *)
Definition count_step (c : nat) (r : rres) : nat * option nat :=
  match r with
  | RSucc => (0, None)
  | RFail => (S c, Some (S c))
  | RRej => (c, None)          (* neither a failed nor a successful request: re-raised untouched *)
  end.

Fixpoint count_run (c : nat) (h : list rres) : list (option nat) :=
  match h with [] => [] | r :: tl => snd (count_step c r) :: count_run (fst (count_step c r)) tl end.

Definition count_after (c : nat) (h : list rres) : nat := fold_left (fun c r => fst (count_step c r)) h c.

(* specification: failed requests since the last successful one *)
Definition is_succ (r : rres) := match r with RSucc => true | _ => false end.
Definition is_fail (r : rres) := match r with RFail => true | _ => false end.
Fixpoint after_last_succ (h : list rres) : list rres :=
  match h with
  | [] => []
  | x :: tl => if existsb is_succ tl then after_last_succ tl else if is_succ x then tl else x :: tl
  end.
Definition fails_since_success (h : list rres) : nat := length (filter is_fail (after_last_succ h)).

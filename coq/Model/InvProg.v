(* Shape of Inverter._read_from_socket (goodwe/inverter.py) as tools/rf2v.py reads it from the current source
   (Gen/InverterGen.v), and the meaning of that shape: what one call does to _consecutive_failures_count and what it raises,
   as a function of what command.execute() did.  Proofs/InvProgRefine.v proves that, for the generated shape and class
   hierarchy, this IS count_step of Model/FailCount.v. *)
From Coq Require Import List Bool Arith.
Import ListNotations.

(* the exception classes of goodwe/exceptions.py; IOther = anything outside the family *)
Inductive iexn := IInverterError | IRequestFailed | IRequestRejected | IPartial | IMaxRetries | IOther.
Definition iexn_eqb (a b : iexn) : bool :=
  match a, b with
  | IInverterError, IInverterError | IRequestFailed, IRequestFailed | IRequestRejected, IRequestRejected
  | IPartial, IPartial | IMaxRetries, IMaxRetries | IOther, IOther => true
  | _, _ => false end.

Inductive cstep := CZero | CInc.      (* self._consecutive_failures_count = 0  /  += 1 *)
Definition run_cstep (c : nat) (x : cstep) : nat := match x with CZero => 0 | CInc => S c end.
Definition run_csteps (c : nat) (xs : list cstep) : nat := fold_left run_cstep xs c.

(* try: result = await command.execute(self._protocol); <rs_success>; return result
   except <class>: <steps>; raise RequestFailedException(<message>, self._consecutive_failures_count) from None   (in source order) *)
Record rfs_shape := mkRfs { rs_success : list cstep; rs_handlers : list (iexn * list cstep) }.

(* what one call does: the new counter and what the caller sees *)
Inductive rfs_out := RReturn | RRaiseFailed (count : nat) | RPropagate (e : iexn).

Section Run.
  Variable ancestors : iexn -> list iexn.
  (* isinstance(raised, cls) *)
  Definition isinst (raised cls : iexn) : bool := iexn_eqb raised cls || existsb (iexn_eqb cls) (ancestors raised).

  Fixpoint find_handler (hs : list (iexn * list cstep)) (e : iexn) : option (list cstep) :=
    match hs with [] => None | (c, st) :: tl => if isinst e c then Some st else find_handler tl e end.

  (* [r] = None: execute() returned a response; Some e: it raised an exception of class e *)
  Definition rfs_step (sh : rfs_shape) (c : nat) (r : option iexn) : nat * rfs_out :=
    match r with
    | None => (run_csteps c (rs_success sh), RReturn)
    | Some e => match find_handler (rs_handlers sh) e with
                | Some st => let c' := run_csteps c st in (c', RRaiseFailed c')
                | None => (c, RPropagate e) end
    end.
End Run.

(* ---------------------------------------------------------------- Inverter._map_response: which exceptions of sensor.read() become None *)
(* classes of the Python built-in hierarchy that can appear in the except clause *)
Inductive pyclass := PcValueError | PcIndexError | PcOverflowError | PcKeyError | PcZeroDivisionError | PcTypeError | PcNotImplementedError
                   | PcAttributeError | PcArithmeticError | PcLookupError | PcException.
(* the exceptions the sensor model can raise (Prelude.exn without the library's own two), as built-in classes *)
Inductive pyraised := RValue | RIndex | ROverflow | RKey | RZeroDiv | RType | RNotImpl | RAttr.
(* isinstance(raised, cls) in the built-in hierarchy: IndexError, KeyError < LookupError; OverflowError, ZeroDivisionError < ArithmeticError;
   NotImplementedError < RuntimeError; everything < Exception *)
Definition py_isinstance (r : pyraised) (c : pyclass) : bool :=
  match c, r with
  | PcException, _ => true
  | PcValueError, RValue | PcIndexError, RIndex | PcOverflowError, ROverflow | PcKeyError, RKey | PcZeroDivisionError, RZeroDiv
  | PcTypeError, RType | PcNotImplementedError, RNotImpl | PcAttributeError, RAttr => true
  | PcArithmeticError, ROverflow | PcArithmeticError, RZeroDiv | PcLookupError, RIndex | PcLookupError, RKey => true
  | _, _ => false end.
Definition becomes_none (catches : list pyclass) (r : pyraised) : bool := existsb (py_isinstance r) catches.

(* Model/InvProg.v instantiated with the shape generated from the current source (no proofs here). *)
From Coq Require Import List Bool Arith.
From GW Require Import FailCount InvProg InverterGen.
Import ListNotations.

Definition step := rfs_step exn_ancestors read_from_socket_shape.

(* whole histories: what execute() did (RFail: MaxRetriesException if [which], else RequestFailedException) *)
Definition exec_of (r : rres) (which : bool) : option iexn :=
  match r with RSucc => None | RFail => Some (if which then IMaxRetries else IRequestFailed) | RRej => Some IRequestRejected end.

Fixpoint run_calls (c : nat) (h : list (rres * bool)) : list (option nat) :=
  match h with
  | [] => []
  | (r, w) :: tl => let '(c', o) := step c (exec_of r w) in
                    (match o with RRaiseFailed n => Some n | _ => None end) :: run_calls c' tl
  end.

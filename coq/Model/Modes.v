(* Model of ET.set_operation_mode / get_operation_mode (goodwe/et.py) on the register-file model of Model/Settings.v.  The list of steps of
   every operation mode, the registers of _set_offline / _clear_battery_mode_param and the numeric values of OperationMode are emitted from
   the current source by tools/om2v.py (Gen/ModesGen.v); this file gives the steps their meaning. *)
From Coq Require Import ZArith List Bool String.
From GW Require Import Prelude PyStr PyFloat Sensors Settings SchedDef.
Import ListNotations.
Open Scope Z_scope.

Inductive mode := MGeneral | MOffGrid | MBackup | MEco | MPeakShaving | MSelfUse | MEcoCharge | MEcoDischarge.

Inductive mstep :=
| MWrite (id : string) (v : Z)        (* await self.write_setting(id, v) *)
| MSetOffline (b : bool)              (* await self._set_offline(b) *)
| MClearBattery                       (* await self._clear_battery_mode_param() *)
| MCheckRange                         (* 0 <= power <= 100, 0 <= soc <= 100, else ValueError *)
| MEcoGroup (charge : bool).          (* read eco_mode_1 (to detect the schedule type), set_schedule_type(ECO_MODE, is745), write the encoded group *)

Record mctx := mkCtx {
  c_settings : list sensor;           (* the settings dictionary: first match wins *)
  c_shape : ws_shape;
  c_is745 : bool;
  c_prev_ty : Z;                      (* schedule type left in the (shared) eco_mode_1 definition by earlier reads *)
  c_rv : list rvstmt;                 (* Schedule.read_value (generated) *)
  c_power : Z; c_soc : Z;
  c_offline : Z * list Z * list Z;    (* register, bytes for True, bytes for False *)
  c_clear : Z * Z;                    (* register, value *)
}.

Fixpoint lookup (id : string) (l : list sensor) : option sensor :=
  match l with [] => None | s :: tl => if String.eqb (s_id s) id then Some s else lookup id tl end.

Definition set_schedule_type_eco' (cur : Z) (is745 : bool) : Z :=
  if (cur =? 0) || (cur =? 6) then cur else if is745 then 6 else 0.

Definition run_mstep (c : mctx) (st : mstep) (r : rfile) : res rfile :=
  match st with
  | MWrite id v =>
      match lookup id (c_settings c) with
      | Some s => match write_setting (c_shape c) r s (IInt v) with Ok (r', _) => Ok r' | Exc e => Exc e end
      | None => Exc EValue end
  | MSetOffline b =>
      let '(reg, on, off) := c_offline c in Ok (rf_write_bytes r reg (if b then on else off))
  | MClearBattery => let '(reg, v) := c_clear c in Ok (fun x => if x =? reg then v else r x)
  | MCheckRange =>
      if (c_power c <? 0) || (c_power c >? 100) || (c_soc c <? 0) || (c_soc c >? 100) then Exc EValue else Ok r
  | MEcoGroup charge =>
      match lookup "eco_mode_1" (c_settings c) with
      | Some s =>
          (* the type the definition holds after the attempted read of the current group: read_value assigns the detected type before it
             checks the power / SoC ranges, and keeps the previous type when it fails earlier (the ValueError is swallowed) *)
          let cur := d_ty (fst (run_rv (c_rv c) (sdef0 (c_prev_ty c) None) (rf_bytes r (s_offset s) 6) 0)) in
          let ty := set_schedule_type_eco' cur (c_is745 c) in
          let raw := if charge then sched_encode_charge ty (c_power c) (c_soc c) else sched_encode_discharge ty (c_power c) in
          Ok (rf_write_bytes r (s_offset s) raw)
      | None => Exc EValue end
  end.

Fixpoint run_msteps (c : mctx) (l : list mstep) (r : rfile) : res rfile :=
  match l with [] => Ok r | st :: tl => match run_mstep c st r with Ok r' => run_msteps c tl r' | Exc e => Exc e end end.

(* get_operation_mode: work_mode, and for ECO the first eco-mode group *)
Definition get_operation_mode (values : list (mode * Z)) (settings : list sensor) (r : rfile) : res (option mode) :=
  match lookup "work_mode" settings, lookup "eco_mode_1" settings with
  | Some wm, Some eco =>
      match read_setting r wm with
      | Ok (VInt w) =>
          match find (fun p => snd p =? w) values with
          | None => Ok None
          | Some (MEco, _) =>
              match read_setting r eco with
              | Ok (VSched x) => Ok (Some (if sched_is_charge x then MEcoCharge else if sched_is_discharge x then MEcoDischarge else MEco))
              | Ok _ => Exc ENotImpl
              | Exc e => Exc e end
          | Some (m, _) => Ok (Some m) end
      | Ok _ => Ok None
      | Exc e => Exc e end
  | _, _ => Exc EValue end.

(* ---------------------------------------------------------------- guarded setters: set_grid_export_limit, set_ongrid_battery_dod *)
(* `if <lo> <= x [<= <hi>]: await self.write_setting(id, [c -] x)`; getter `return [c -] await self.read_setting(id)` (generated) *)
Record gsetter := mkGS { gs_id : string; gs_lo : option Z; gs_hi : option Z; gs_compl : option Z }.

Definition gs_accepts (g : gsetter) (x : Z) : bool :=
  (match gs_lo g with Some lo => lo <=? x | None => true end) && (match gs_hi g with Some hi => x <=? hi | None => true end).
Definition gs_tr (g : gsetter) (x : Z) : Z := match gs_compl g with Some c => c - x | None => x end.

(* the new register file and the write requests transmitted (first register, count) *)
Definition run_gsetter (settings : list sensor) (sh : ws_shape) (g : gsetter) (x : Z) (r : rfile) : res (rfile * list (Z * Z)) :=
  if gs_accepts g x then
    match lookup (gs_id g) settings with
    | Some s => match write_setting sh r s (IInt (gs_tr g x)) with Ok (r', w) => Ok (r', [w]) | Exc e => Exc e end
    | None => Exc EValue end
  else Ok (r, []).

Definition run_ggetter (settings : list sensor) (g : gsetter) (r : rfile) : res (option Z) :=
  match lookup (gs_id g) settings with
  | Some s => match read_setting r s with
              | Ok (VInt v) => Ok (Some (gs_tr g v))
              | Ok VNone => match gs_compl g with None => Ok None | Some _ => Exc EType end     (* `100 - None` *)
              | Ok _ => Exc EType
              | Exc e => Exc e end
  | None => Exc EValue end.

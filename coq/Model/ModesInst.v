(* Model/Modes.v instantiated with what the translators read from the current source (no proofs here: the correspondence stages evaluate
   these definitions also when a proof no longer checks). *)
From Coq Require Import ZArith List Bool String.
From GW Require Import Prelude PyStr PyFloat Sensors Settings TablesGen SettingsGen SchedDef SharedGen Modes ModesGen.
Import ListNotations.
Open Scope Z_scope.

(* the settings dictionary of an ET with ARM firmware >= 22: later updates win *)
Definition et_settings : list sensor := ET_settings_arm_fw_22 ++ ET_settings_arm_fw_19 ++ ET_all_settings.

Definition ctx (is745 : bool) (prev p soc : Z) : mctx := mkCtx et_settings et_ws is745 prev schedule_read_value p soc om_offline om_clear.

(* the settings dictionaries of a DT: all settings, then the single-phase or the three-phase ones (later updates win) *)
Definition dt_settings (three_phase : bool) : list sensor := (if three_phase then DT_settings_three_phase else DT_settings_single_phase) ++ DT_all_settings.

(* Executable model of goodwe/protocol.py: InverterProtocol / UdpInverterProtocol / TcpInverterProtocol /
   ProtocolCommand.execute, together with the fragment of asyncio they run on (FIFO ready queue,
   futures, asyncio.Lock of CPython 3.12, call_soon / call_later handles, selector transports,
   wait_for(.., 5)).  Hand-written; tied to the code by trace validation (harness/prototrace.py):
   the real classes run under a virtual-time loop, every loop callback that touches the protocol
   object is logged with a projection of the object's state, and [check_trace] below must replay
   exactly the same sequence.

   Granularity: one transition per event-loop callback.  One field per Python attribute
   (_transport _retry _timer response_future _partial_* keep_alive _lock) + loop state + ghosts. *)
From Coq Require Import List Bool Arith Lia.
From RecordUpdate Require Import RecordSet.
Import ListNotations RecordSetNotations.

Inductive kind := UDP | TCP.
Inductive verdict := VAccept | VRefuse | VPartial (expected : nat) | VRejected (code : nat).
Inductive exn := XRejected (code : nat) | XRejectedEmpty | XOSError | XMaxRetries | XCancelled | XTimeoutErr.
(* a received chunk: identity given by the environment, length, and the validator's verdict on the data
   that the protocol object actually validates when this chunk arrives (alone / appended to the stored fragment) *)
Definition tok := list nat.
Inductive fstat := FPending | FResult (t : tok) | FExc (e : exn) | FCancelled.
Inductive outcome := OResp (t : tok) | ORejected (code : nat) | ORejectedEmpty | OFailed | OMaxRetries | OOther (e : exn).
Inductive io := IoData (id len : nat) (v : verdict) | IoEof.
Inductive conn_outcome := COk | CRefused | CHang.

Inductive cb :=
| CbTask (k : nat) | CbConnMade (t : nat) | CbAddReader (t : nat) | CbWaiter (k : nat) (t : nat)
| CbRead (t : nat) (i : io) | CbSoon | CbTimer (h : nat) | CbConnLost (t : nat)
| CbErr (t : nat) | CbFatal (t : nat) | CbWfTimeout (k : nat).

Inductive tstate := TNew | TUp | TClosing | TGone | TOrphan.

Inductive sr_result := RFut (f : nat) | RRaise (e : exn).

Inductive pc :=
| PcStart | PcLockWait (w : nat) | PcConnWait (t : nat) | PcConnHang | PcAwait (f : nat)
| PcCloseLockWait (w : nat) (r : sr_result) | PcCloseStart | PcCloseOnlyWait (w : nat) | PcDone.

Record task := mkTask { t_pc : pc; t_depth : nat; t_wf : bool; t_cancelled : bool }.
#[export] Instance eta_task : Settable _ := settable! mkTask <t_pc; t_depth; t_wf; t_cancelled>.

Inductive action :=
| AOpen (t : nat) | AClose (t : nat) | ASend (t : nat) (k : nat) (f : nat) | ADone (k : nat) (o : outcome)
| ALoopExc | ACloseDone (k : nat).

Record st := mkSt {
  s_kind : kind; s_ka : bool; s_retries : nat;
  s_transport : option nat; s_retry : nat; s_timer : option nat;
  s_fut : option nat; s_cmd : bool; s_partial : option (tok * nat * nat);   (* fragment, its length, missing *)
  s_lock : bool; s_haslock : bool; s_lockloop : nat; s_waiters : list (nat * bool); s_nextw : nat;
  s_loop : nat;
  s_ready : list cb;
  s_handles : list nat; s_nexth : nat;
  s_futs : list fstat;
  s_tr : list tstate;               (* transport table: index = transport id *)
  s_sent : list nat;                (* ghost: transports on which something was sent *)
  s_tasks : list (nat * task);
  s_conns : list conn_outcome; s_sends : list bool;   (* oracles: outcome of the next endpoint creations / sendto calls *)
  s_owner : option nat;             (* ghost: task that completed lock.acquire() and has not released *)
  s_accepted : list tok;            (* ghost: data on which the validator answered 'accept' *)
  s_nsend : nat;                    (* ghost: transmissions since the last EvCall *)
}.
#[export] Instance eta_st : Settable _ := settable! mkSt
  <s_kind; s_ka; s_retries; s_transport; s_retry; s_timer; s_fut; s_cmd; s_partial; s_lock; s_haslock; s_lockloop;
   s_waiters; s_nextw; s_loop; s_ready; s_handles; s_nexth; s_futs; s_tr; s_sent; s_tasks; s_conns; s_sends; s_owner; s_accepted; s_nsend>.

Definition init (k : kind) (ka : bool) (retries : nat) : st :=
  mkSt k ka retries None 0 None None false None false false 0 [] 0 0 [] [] 0 [] [] [] [] [] [] None [] 0.

(* ---------------------------------------------------------------- small helpers *)
Fixpoint set_nth {A} (n : nat) (v : A) (l : list A) : list A :=
  match l, n with [], _ => [] | _ :: tl, O => v :: tl | x :: tl, S n' => x :: set_nth n' v tl end.
Definition fstat_of (s : st) (f : nat) : fstat := nth f (s_futs s) FCancelled.
Definition tstate_of (s : st) (t : nat) : tstate := nth t (s_tr s) TGone.
Definition pending (s : st) (f : nat) : bool := match fstat_of s f with FPending => true | _ => false end.
Definition is_closing (s : st) (t : nat) : bool := match tstate_of s t with TClosing | TGone | TOrphan => true | _ => false end.
Fixpoint remove_nat (x : nat) (l : list nat) : list nat :=
  match l with [] => [] | y :: tl => if Nat.eqb x y then remove_nat x tl else y :: remove_nat x tl end.
Fixpoint mem_nat (x : nat) (l : list nat) : bool :=
  match l with [] => false | y :: tl => Nat.eqb x y || mem_nat x tl end.
Fixpoint get_task (k : nat) (l : list (nat * task)) : option task :=
  match l with [] => None | (k', t) :: tl => if Nat.eqb k k' then Some t else get_task k tl end.
Fixpoint put_task (k : nat) (t : task) (l : list (nat * task)) : list (nat * task) :=
  match l with [] => [(k, t)] | (k', t') :: tl => if Nat.eqb k k' then (k, t) :: tl else (k', t') :: put_task k t tl end.
Definition set_pc (s : st) (k : nat) (p : pc) : st :=
  match get_task k (s_tasks s) with
  | Some t => s <| s_tasks := put_task k (t <| t_pc := p |>) (s_tasks s) |>
  | None => s end.
Definition upd_task (s : st) (k : nat) (f : task -> task) : st :=
  match get_task k (s_tasks s) with
  | Some t => s <| s_tasks := put_task k (f t) (s_tasks s) |>
  | None => s end.
(* the task awaiting future f, if any *)
Fixpoint awaiting (f : nat) (l : list (nat * task)) : option nat :=
  match l with
  | [] => None
  | (k, t) :: tl => match t_pc t with PcAwait f' => if Nat.eqb f f' then Some k else awaiting f tl | _ => awaiting f tl end
  end.
Definition push (s : st) (c : cb) : st := s <| s_ready := s_ready s ++ [c] |>.
(* the future of lock waiter w has been completed by release() (and the waiter has not run yet) *)
Definition woken (s : st) (w : nat) : bool := existsb (fun p => Nat.eqb (fst p) w && snd p) (s_waiters s).
(* the waiter future of task k's connection attempt t has not been completed yet (its set_result handle is still queued) *)
Definition has_waiter (k t : nat) (l : list cb) : bool :=
  existsb (fun c => match c with CbWaiter k' t' => Nat.eqb k k' && Nat.eqb t t' | _ => false end) l.
(* a wake-up of task k is already scheduled *)
Definition has_task (k : nat) (l : list cb) : bool := existsb (fun c => match c with CbTask k' => Nat.eqb k k' | _ => false end) l.

(* completing a future schedules the wake-up of the task awaiting it *)
Definition complete (s : st) (f : nat) (v : fstat) : st :=
  let s := s <| s_futs := set_nth f v (s_futs s) |> in
  match awaiting f (s_tasks s) with Some k => push s (CbTask k) | None => s end.

Definition cancel_timer (s : st) : st :=
  match s_timer s with
  | Some h => s <| s_handles := remove_nat h (s_handles s) |>
  | None => s end.
Definition arm_timer (s : st) : st :=
  let h := s_nexth s in
  s <| s_handles := s_handles s ++ [h] |> <| s_nexth := S h |> <| s_timer := Some h |>.

(* transport.close() *)
Definition tr_close (s : st) (t : nat) : st :=
  match tstate_of s t with
  | TNew | TUp => push (s <| s_tr := set_nth t TClosing (s_tr s) |>) (CbConnLost t)
  | _ => s end.

(* InverterProtocol._close_transport *)
Definition close_transport (s : st) : st :=
  let s := match s_transport s with
           | Some t => (tr_close s t) <| s_transport := None |>
           | None => s end in
  match s_fut s with
  | Some f => if pending s f then complete s f FCancelled else s
  | None => s end.

(* asyncio.Lock (CPython 3.12) *)
Definition lock_release (s : st) : st :=
  let s := s <| s_lock := false |> <| s_owner := None |> in
  match s_waiters s with
  | (w, false) :: tl =>
      (* first waiter not yet done: set_result wakes the task waiting on it *)
      let s := s <| s_waiters := (w, true) :: tl |> in
      let fix find (l : list (nat * task)) : option nat :=
        match l with
        | [] => None
        | (k, t) :: tl' => match t_pc t with
                           | PcLockWait w' | PcCloseLockWait w' _ | PcCloseOnlyWait w' => if Nat.eqb w w' then Some k else find tl'
                           | _ => find tl' end
        end in
      match find (s_tasks s) with Some k => push s (CbTask k) | None => s end
  | _ => s end.
Definition release_if_locked (s : st) : st := if s_haslock s && s_lock s then lock_release s else s.

(* _ensure_lock: a new lock (and a forgotten transport) when the object is used from another loop *)
Definition ensure_lock (s : st) : st :=
  if s_haslock s && Nat.eqb (s_lockloop s) (s_loop s) then s
  else close_transport (s <| s_haslock := true |> <| s_lock := false |> <| s_waiters := [] |> <| s_lockloop := s_loop s |>).

Definition classify (e : exn) : outcome :=
  match e with
  | XRejected c => ORejected c | XRejectedEmpty => ORejectedEmpty
  | XOSError | XCancelled | XTimeoutErr => OFailed
  | XMaxRetries => OMaxRetries
  end.

(* UdpInverterProtocol.error_received / TcpInverterProtocol.error_received *)
Definition error_received (s : st) : st * list action :=
  match s_fut s with
  | Some f => (close_transport (if pending s f then complete s f (FExc XOSError) else s), [])
  | None => (s, [ALoopExc])      (* AttributeError: 'NoneType' object has no attribute 'set_exception' -- escapes before _close_transport() *)
  end.

(* ---------------------------------------------------------------- the coroutines *)
(* execute(): after send_request returned / raised: outcome, then `finally: _retry = 0; if not keep_alive: await close()` *)
Definition outcome_of (s : st) (r : sr_result) : outcome :=
  match r with
  | RFut f => match fstat_of s f with
              | FResult t => OResp t | FExc e => classify e | FCancelled => OFailed | FPending => OOther XCancelled end
  | RRaise e => classify e end.

Definition exec_finish (s : st) (k : nat) (r : sr_result) : st * list action :=
  let o := outcome_of s r in
  let s := s <| s_retry := 0 |> in
  if s_ka s then (set_pc s k PcDone, [ADone k o])
  else match s_kind s with
       | UDP => (set_pc (close_transport s) k PcDone, [ADone k o])
       | TCP =>
           let s := ensure_lock s in
           if negb (s_lock s) && match s_waiters s with [] => true | _ => false end
           then (set_pc (lock_release (close_transport (s <| s_lock := true |> <| s_owner := Some k |>))) k PcDone, [ADone k o])
           else let w := s_nextw s in
                (set_pc (s <| s_waiters := s_waiters s ++ [(w, false)] |> <| s_nextw := S w |>) k (PcCloseLockWait w r), [])
       end.

(* the `finally` clauses of the (depth + 1) nested send_request frames, innermost first *)
Fixpoint sr_finally (n : nat) (s : st) : st :=
  match n with
  | O => s
  | S n' =>
      let s := release_if_locked s in
      let s := match s_kind s with UDP => if s_ka s then s else close_transport s | TCP => s end in
      sr_finally n' s
  end.

Definition sr_unwind (s : st) (k : nat) (depth : nat) (r : sr_result) : st * list action :=
  exec_finish (sr_finally (S depth) s) k r.

Definition max_retries (s : st) : st * nat :=
  let s := close_transport s in
  let f := length (s_futs s) in
  (s <| s_futs := s_futs s ++ [FExc XMaxRetries] |> <| s_fut := Some f |>, f).

(* _send_request + `await response_future` *)
Definition do_send (s : st) (k : nat) (depth : nat) (t : nat) : st * list action * option sr_result :=
  let f := length (s_futs s) in
  let s := s <| s_futs := s_futs s ++ [FPending] |> <| s_fut := Some f |> <| s_cmd := true |> <| s_partial := None |> in
  let s := s <| s_sent := t :: s_sent s |> <| s_nsend := S (s_nsend s) |> in
  let '(ok, s) := match s_sends s with b :: tl => (b, s <| s_sends := tl |>) | [] => (true, s) end in
  let '(s, acts) := if ok then (s, [ASend t k f])
                    else match s_kind s with
                         | UDP => let '(s', a) := error_received s in (s', ASend t k f :: a)   (* sendto: error_received(exc), synchronously *)
                         | TCP => (tr_close s t, [ASend t k f])                                (* write: _fatal_error -> _force_close *)
                         end in
  let s := arm_timer (cancel_timer s) in
  match fstat_of s f with
  | FPending => (set_pc (upd_task s k (fun tk => tk <| t_depth := depth |>)) k (PcAwait f), acts, None)
  | FExc e => (s, acts, Some (RRaise e))
  | FCancelled => (s, acts, Some (RRaise XCancelled))
  | FResult _ => (s, acts, Some (RFut f))
  end.

(* one attempt of send_request; [again] is the recursive `return await self.send_request(command)` *)
Section Attempt.
  Variable again : st -> nat -> nat -> st * list action.

  (* an exception inside the try block of send_request *)
  Definition sr_exception (s : st) (k : nat) (depth : nat) (e : exn) : st * list action :=
    let retry_branch (close : bool) :=
      if Nat.ltb (s_retry s) (s_retries s) then
        let s := s <| s_retry := S (s_retry s) |> in
        let s := release_if_locked s in
        let s := if close then close_transport s else s in
        again s k (S depth)
      else let '(s, f) := max_retries s in sr_unwind s k depth (RFut f) in
    match e, s_kind s with
    | XCancelled, UDP => retry_branch (negb (s_ka s))
    | XCancelled, TCP => retry_branch true
    | (XOSError | XTimeoutErr), TCP => retry_branch false
    | _, _ => sr_unwind s k depth (RRaise e)
    end.

  Definition sr_after_send (r : st * list action * option sr_result) (k : nat) (depth : nat) : st * list action :=
    let '(s, acts, res) := r in
    match res with
    | None => (s, acts)
    | Some (RFut f) => let '(s', a) := sr_unwind s k depth (RFut f) in (s', acts ++ a)
    | Some (RRaise e) => let '(s', a) := sr_exception s k depth e in (s', acts ++ a)
    end.

  (* lock held: _connect (TCP: inside wait_for(.., 5)), then send *)
  Definition sr_locked (s : st) (k : nat) (depth : nat) : st * list action :=
    let s := match s_kind s with TCP => upd_task s k (fun tk => tk <| t_wf := true |>) | UDP => s end in
    match match s_transport s with Some t => if is_closing s t then None else Some t | None => None end with
    | Some t =>
        let s := upd_task s k (fun tk => tk <| t_wf := false |>) in
        sr_after_send (do_send s k depth t) k depth
    | None =>
        let '(c, s) := match s_conns s with c :: tl => (c, s <| s_conns := tl |>) | [] => (COk, s) end in
        match c with
        | COk => let t := length (s_tr s) in
                 let s := s <| s_tr := s_tr s ++ [TNew] |> in
                 let s := push (push (push s (CbConnMade t)) (CbAddReader t)) (CbWaiter k t) in
                 (set_pc (upd_task s k (fun tk => tk <| t_depth := depth |>)) k (PcConnWait t), [AOpen t])
        | CRefused =>
            let s := upd_task s k (fun tk => tk <| t_wf := false |>) in
            sr_exception s k depth XOSError
        | CHang =>
            match s_kind s with
            | TCP => (set_pc (upd_task s k (fun tk => tk <| t_depth := depth |>)) k PcConnHang, [])
            | UDP => sr_exception s k depth XOSError
            end
        end
    end.

  Definition sr_attempt_body (s : st) (k : nat) (depth : nat) : st * list action :=
    let s := ensure_lock s in
    if negb (s_lock s) && match s_waiters s with [] => true | _ => false end
    then sr_locked (s <| s_lock := true |> <| s_owner := Some k |>) k depth
    else let w := s_nextw s in
         (set_pc (upd_task (s <| s_waiters := s_waiters s ++ [(w, false)] |> <| s_nextw := S w |>) k
                           (fun tk => tk <| t_depth := depth |>)) k (PcLockWait w), []).
End Attempt.

Fixpoint sr_attempt (fuel : nat) (s : st) (k : nat) (depth : nat) {struct fuel} : st * list action :=
  match fuel with
  | O => (* out of fuel -- unreachable (fuel = retries + 2, each recursive call increments _retry <= retries); flagged as an
            exception in the loop so that it can never pass for a normal outcome *)
         let '(s', a) := exec_finish s k (RRaise XCancelled) in (s', ALoopExc :: a)
  | S fuel' => sr_attempt_body (sr_attempt fuel') s k depth
  end.

Definition fuel_of (s : st) : nat := S (S (s_retries s)).

(* resuming a task (one loop step of the coroutine) *)
Definition task_step (s : st) (k : nat) : st * list action :=
  match get_task k (s_tasks s) with
  | None => (s, [])
  | Some tk =>
      let depth := t_depth tk in
      match t_pc tk with
      | PcStart => sr_attempt (S (fuel_of s)) s k 0
      | PcLockWait w =>
          (* `await fut` inside Lock.acquire() only returns once release() has completed this waiter's future *)
          if negb (woken s w) then (s, []) else
          let s := s <| s_waiters := filter (fun p => negb (Nat.eqb (fst p) w)) (s_waiters s) |> <| s_lock := true |> <| s_owner := Some k |> in
          sr_locked (sr_attempt (fuel_of s)) s k depth
      | PcConnWait t =>
          if t_cancelled tk then
            (* wait_for timed out: the half-made transport is closed, TimeoutError *)
            let s := upd_task s k (fun x => x <| t_cancelled := false |> <| t_wf := false |>) in
            sr_exception (sr_attempt (fuel_of s)) (tr_close s t) k depth XTimeoutErr
          else if has_waiter k t (s_ready s) then (s, [])     (* `await waiter` only returns once the waiter future is done *)
          else
            let s := upd_task s k (fun x => x <| t_wf := false |>) in
            let s := s <| s_transport := Some t |> in
            sr_after_send (sr_attempt (fuel_of s)) (do_send s k depth t) k depth
      | PcConnHang =>
          let s := upd_task s k (fun x => x <| t_cancelled := false |> <| t_wf := false |>) in
          sr_exception (sr_attempt (fuel_of s)) s k depth XTimeoutErr
      | PcAwait f =>
          match fstat_of s f with
          | FPending => (s, [])       (* spurious wake-up: not produced by the model *)
          | FResult _ => sr_unwind s k depth (RFut f)
          | FCancelled => sr_exception (sr_attempt (fuel_of s)) s k depth XCancelled
          | FExc e => sr_exception (sr_attempt (fuel_of s)) s k depth e
          end
      | PcCloseLockWait w r =>
          (* the value was computed before the `finally`; completed futures never change, so reading it now is the same *)
          if negb (woken s w) then (s, []) else
          let o := outcome_of s r in
          let s := s <| s_waiters := filter (fun p => negb (Nat.eqb (fst p) w)) (s_waiters s) |> <| s_lock := true |> <| s_owner := Some k |> in
          (set_pc (lock_release (close_transport s)) k PcDone, [ADone k o])
      | PcCloseStart =>
          match s_kind s with
          | UDP => (set_pc (close_transport s) k PcDone, [ACloseDone k])
          | TCP =>
              let s := ensure_lock s in
              if negb (s_lock s) && match s_waiters s with [] => true | _ => false end
              then (set_pc (lock_release (close_transport (s <| s_lock := true |> <| s_owner := Some k |>))) k PcDone, [ACloseDone k])
              else let w := s_nextw s in
                   (set_pc (s <| s_waiters := s_waiters s ++ [(w, false)] |> <| s_nextw := S w |>) k (PcCloseOnlyWait w), [])
          end
      | PcCloseOnlyWait w =>
          if negb (woken s w) then (s, []) else
          let s := s <| s_waiters := filter (fun p => negb (Nat.eqb (fst p) w)) (s_waiters s) |> <| s_lock := true |> <| s_owner := Some k |> in
          (set_pc (lock_release (close_transport s)) k PcDone, [ACloseDone k])
      | PcDone => (s, [])
      end
  end.

(* _timeout_mechanism *)
Definition timeout_mechanism (s : st) : st * list action :=
  match s_kind s, s_fut s with
  | UDP, Some f => if pending s f then (complete (s <| s_timer := None |>) f FCancelled, []) else (s, [])
  | UDP, None => (s <| s_timer := None |>, [])
  | TCP, Some f => if pending s f then (close_transport (s <| s_timer := None |>), []) else (s, [])
  | TCP, None => (s, [ALoopExc])
  end.

(* datagram_received / data_received *)
Definition received (s : st) (id len : nat) (v : verdict) : st * list action :=
  if negb (s_cmd s) then (match s_kind s with UDP => (cancel_timer s) <| s_timer := None |> | TCP => cancel_timer s end, [ALoopExc])
  else
  let s := match s_kind s with UDP => (cancel_timer s) <| s_timer := None |> | TCP => cancel_timer s end in
  let '(data, dlen, s) :=
    match s_partial s with
    | Some (p, plen, miss) => if Nat.eqb miss len && negb (Nat.eqb plen 0) then (p ++ [id], plen + len, s <| s_partial := None |>) else ([id], len, s)
    | None => ([id], len, s) end in
  match v with
  | VAccept =>
      let s := s <| s_accepted := data :: s_accepted s |> in
      match s_fut s with
      | Some f => if pending s f then ((complete s f (FResult data)) <| s_retry := 0 |>, []) else (s, [])
      | None => (s, [ALoopExc]) end
  | VRefuse =>
      match s_kind s with
      | UDP => (push s CbSoon, [])
      | TCP => match s_fut s with
               | Some f => if pending s f then (close_transport (complete s f (FExc XRejectedEmpty)), []) else (s, [])
               | None => (s, [ALoopExc]) end
      end
  | VPartial e => (arm_timer (s <| s_partial := Some (data, dlen, e - dlen) |>), [])
  | VRejected c =>
      let s := match s_fut s with Some f => if pending s f then complete s f (FExc (XRejected c)) else s | None => s end in
      (match s_kind s with UDP => close_transport s | TCP => s end, [])
  end.

Definition run_cb (s : st) (c : cb) : st * list action :=
  match c with
  | CbTask k => task_step s k
  | CbConnMade t =>
      let s := match tstate_of s t with TNew => s <| s_tr := set_nth t TUp (s_tr s) |> | _ => s end in
      (match s_kind s with UDP => s <| s_transport := Some t |> | TCP => s end, [])
  | CbAddReader _ => (s, [])
  | CbWaiter k t =>
      (* futures._set_result_unless_cancelled(waiter) of connection attempt t *)
      match get_task k (s_tasks s) with
      | Some tk => match t_pc tk with
                   | PcConnWait t' => if negb (Nat.eqb t t') || t_cancelled tk then (s, []) else (push s (CbTask k), [])
                   | _ => (s, []) end
      | None => (s, []) end
  | CbRead t i =>
      match tstate_of s t with
      | TUp =>
          match i with
          | IoData id len v => received s id len v
          | IoEof => (tr_close (close_transport s) t, [])     (* eof_received -> _close_transport; then transport.close() *)
          end
      | _ => (s, [])     (* the reader was removed by close(): the handle is cancelled *)
      end
  | CbSoon => timeout_mechanism s
  | CbTimer h => if mem_nat h (s_handles s)
                 then timeout_mechanism (s <| s_handles := remove_nat h (s_handles s) |>) else (s, [])
  | CbConnLost t =>
      match tstate_of s t with
      | TClosing => (close_transport (s <| s_tr := set_nth t TGone (s_tr s) |>), [AClose t])
      | _ => (s, []) end
  | CbErr t => match tstate_of s t with TUp => error_received s | _ => (s, []) end
  | CbFatal t => (tr_close s t, [])
  | CbWfTimeout k =>
      match get_task k (s_tasks s) with
      | Some tk => if t_wf tk then
                     match t_pc tk with
                     | PcConnWait _ | PcConnHang =>
                         (* Task.cancel(): cancels the awaited future (which schedules the task) unless that future is already
                            done and the wake-up already scheduled -- then only the must-cancel flag is set *)
                         let s' := upd_task s k (fun x => x <| t_cancelled := true |> <| t_wf := false |>) in
                         (if has_task k (s_ready s) then s' else push s' (CbTask k), [])
                     | _ => (s, []) end
                   else (s, [])
      | None => (s, []) end
  end.

(* ---------------------------------------------------------------- environment events *)
Inductive event :=
| EvPop                                   (* the loop runs the next ready callback *)
| EvIO (t : nat) (i : io)                 (* the selector reports transport t readable *)
| EvDue (h : nat)                         (* timer handle h is due *)
| EvDueWf (k : nat)                       (* the 5 s wait_for handle of task k is due *)
| EvErr (t : nat) | EvFatal (t : nat)     (* the OS reports an error on transport t (UDP: error_received, TCP: _force_close) *)
| EvCall (k : nat)                        (* a caller task starts command.execute(protocol) *)
| EvCloseCall (k : nat)                   (* a caller task starts protocol.close() *)
| EvSetKA (b : bool)
| EvOracle (conns : list conn_outcome) (sends : list bool)
| EvNewLoop.

Definition quiescent (s : st) : bool :=
  forallb (fun p => match t_pc (snd p) with PcDone => true | _ => false end) (s_tasks s).

Definition step (s : st) (e : event) : option (st * list action) :=
  match e with
  | EvPop => match s_ready s with
             | c :: tl => Some (run_cb (s <| s_ready := tl |>) c)
             | [] => None end
  | EvIO t i => match tstate_of s t with
                | TUp => if mem_nat t (s_sent s) || match i with IoEof => true | _ => false end
                         then Some (push s (CbRead t i), []) else None
                | _ => None end
  | EvDue h => if mem_nat h (s_handles s) then Some (push s (CbTimer h), []) else None
  | EvDueWf k => match get_task k (s_tasks s) with
                 | Some tk => if t_wf tk then Some (push s (CbWfTimeout k), []) else None
                 | None => None end
  | EvErr t => match tstate_of s t, s_kind s with
               | TUp, UDP => if mem_nat t (s_sent s) then Some (push s (CbErr t), []) else None
               | _, _ => None end
  | EvFatal t => match tstate_of s t, s_kind s with TUp, TCP => Some (push s (CbFatal t), []) | _, _ => None end
  | EvCall k => match get_task k (s_tasks s) with
                | None => Some (push (s <| s_tasks := s_tasks s ++ [(k, mkTask PcStart 0 false false)] |> <| s_nsend := 0 |>) (CbTask k), [])
                | Some _ => None end
  | EvCloseCall k => match get_task k (s_tasks s) with
                     | None => Some (push (s <| s_tasks := s_tasks s ++ [(k, mkTask PcCloseStart 0 false false)] |>) (CbTask k), [])
                     | Some _ => None end
  | EvSetKA b => Some (s <| s_ka := b |>, [])
  | EvOracle c sd => Some (s <| s_conns := s_conns s ++ c |> <| s_sends := s_sends s ++ sd |>, [])
  | EvNewLoop =>
      if quiescent s then
        Some (s <| s_loop := S (s_loop s) |> <| s_ready := [] |> <| s_handles := [] |>
                <| s_tr := map (fun x => match x with TNew | TUp | TClosing => TOrphan | y => y end) (s_tr s) |>, [])
      else None
  end.

Fixpoint run (s : st) (es : list event) : option (st * list action) :=
  match es with
  | [] => Some (s, [])
  | e :: tl => match step s e with
               | None => None
               | Some (s', a) => match run s' tl with
                                 | None => None
                                 | Some (s'', a') => Some (s'', a ++ a') end
               end
  end.

(* ---------------------------------------------------------------- trace validation (used by the correspondence cases) *)
Inductive label :=
| LTask (k : nat) | LConnMade (t : nat) | LAddReader (t : nat) | LWaiter (k : nat) | LRead (t : nat) (i : io) | LSoon
| LTimer (h : nat) | LConnLost (t : nat) | LErr (t : nat) | LFatal (t : nat) | LWf (k : nat).

Definition io_eqb (a b : io) : bool :=
  match a, b with
  | IoEof, IoEof => true
  | IoData i l v, IoData i' l' v' =>
      Nat.eqb i i' && Nat.eqb l l' &&
      match v, v' with
      | VAccept, VAccept | VRefuse, VRefuse => true
      | VPartial a, VPartial b => Nat.eqb a b
      | VRejected a, VRejected b => Nat.eqb a b
      | _, _ => false end
  | _, _ => false end.

Definition label_matches (c : cb) (l : label) : bool :=
  match c, l with
  | CbTask k, LTask k' => Nat.eqb k k'
  | CbConnMade t, LConnMade t' | CbAddReader t, LAddReader t' | CbConnLost t, LConnLost t'
  | CbErr t, LErr t' | CbFatal t, LFatal t' => Nat.eqb t t'
  | CbWaiter k _, LWaiter k' | CbWfTimeout k, LWf k' => Nat.eqb k k'
  | CbRead t i, LRead t' i' => Nat.eqb t t' && io_eqb i i'
  | CbSoon, LSoon => true
  | CbTimer h, LTimer h' => Nat.eqb h h'
  | _, _ => false end.

(* handles the real loop skips silently because they were cancelled *)
Definition dead (s : st) (c : cb) : bool :=
  match c with
  | CbRead t _ => match tstate_of s t with TUp => false | _ => true end
  | CbTimer h => negb (mem_nat h (s_handles s))
  | CbWfTimeout k => match get_task k (s_tasks s) with Some tk => negb (t_wf tk) | None => true end
  | _ => false end.

Fixpoint skip_dead (fuel : nat) (s : st) : st :=
  match fuel with
  | O => s
  | S n => match s_ready s with
           | c :: tl => if dead s c then skip_dead n (s <| s_ready := tl |>) else s
           | [] => s end
  end.

Definition enc_outcome (o : outcome) : list nat :=
  match o with
  | OResp t => 1 :: t | ORejected c => [2; c] | ORejectedEmpty => [3] | OFailed => [4] | OMaxRetries => [5] | OOther _ => [6] end.
Definition enc_action (a : action) : list nat :=
  match a with
  | AOpen t => [1; t] | AClose t => [2; t] | ASend t k _ => [3; t; k] | ADone k o => 4 :: k :: enc_outcome o
  | ALoopExc => [5] | ACloseDone k => [6; k] end.

Definition fut_code (s : st) : nat :=
  match s_fut s with
  | None => 0
  | Some f => match fstat_of s f with FPending => 1 | FResult _ => 2 | FExc _ => 3 | FCancelled => 4 end end.

(* white-box projection compared after every step: _retry, _transport is None, _timer is None, live timeout handles,
   response_future status, _partial_missing, lock.locked(), number of lock waiters, sockets open *)
Definition proj (s : st) : list nat :=
  [ s_retry s; (if s_transport s then 0 else 1); (if s_timer s then 0 else 1); length (s_handles s); fut_code s;
    match s_partial s with Some (_, _, m) => m | None => 0 end;
    (if s_lock s then 1 else 0); length (s_waiters s);
    length (filter (fun x => match x with TNew | TUp | TClosing => true | _ => false end) (s_tr s)) ].

Inductive tev := TEv (e : event) | TPop (l : label).

Fixpoint list_nat_eqb (a b : list nat) : bool :=
  match a, b with [], [] => true | x :: a', y :: b' => Nat.eqb x y && list_nat_eqb a' b' | _, _ => false end.

(* result: None = the whole trace was replayed; Some (i, why, model projection, model actions) = first disagreement *)
Fixpoint check_trace (i : nat) (s : st) (tr : list (tev * list nat * list nat)) : option (nat * nat * list nat * list nat) :=
  match tr with
  | [] => None
  | (te, p, acts) :: tl =>
      let r := match te with
               | TEv e => match step s e with Some x => inl x | None => inr 1 end
               | TPop l =>
                   let s := skip_dead 50 s in
                   match s_ready s with
                   | c :: _ => if label_matches c l then match step s EvPop with Some x => inl x | None => inr 1 end else inr 2
                   | [] => inr 3 end
               end in
      match r with
      | inr why => Some (i, why, proj s, [])
      | inl (s', a) =>
          let ea := concat (map enc_action a) in
          if negb (list_nat_eqb (proj s') p) then Some (i, 4, proj s', ea)
          else if negb (list_nat_eqb ea acts) then Some (i, 5, proj s', ea)
          else check_trace (S i) s' tl
      end
  end.

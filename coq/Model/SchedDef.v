(* The MUTABLE sensor definitions of goodwe/sensor.py: EcoModeV1 and Schedule (EcoModeV2, PeakShavingMode) objects keep the fields of the last
   group they decoded as attributes of the definition object itself; read_value assigns them one by one and returns self, so a read that fails
   half-way leaves the fields assigned so far.  The definition objects sit in class-level tuples and are shared by all inverter objects of a
   process (tools/sv2v.py re-establishes on every run which classes mutate themselves and which table rows are instances of them).

   [rvstmt] is the statement language of the two read_value bodies (translated from the current source into Gen/SharedGen.v); [run_rv] its
   interpreter over a definition's attributes and a read cursor.  Proofs/SchedDefRefine.v: a run that succeeds computes exactly the value of
   the hand models read_schedule / read_eco_v1 of Model/Sensors.v (which the exhaustive sensor correspondence compares with the code). *)
From Coq Require Import ZArith List Bool String.
From GW Require Import Prelude PyStr PyFloat Sensors.
Import ListNotations.
Open Scope Z_scope.

Inductive field := FStartH | FStartM | FEndH | FEndM | FOnOff | FDayBits | FPower | FSoc | FMonthBits.

(* attributes of a definition object (None = still the None of __init__) *)
Record sdef := mkSdef {
  d_start_h : option Z; d_start_m : option Z; d_end_h : option Z; d_end_m : option Z; d_on_off : option Z; d_day_bits : option Z;
  d_power : option Z; d_soc : option Z; d_month_bits : option Z;
  d_days : option string; d_months : option (option string);     (* months: None = never assigned; Some None = assigned None *)
  d_ty : Z }.

Definition sdef0 (ty : Z) (soc : option Z) : sdef := mkSdef None None None None None None None soc None None None ty.

Definition get_f (d : sdef) (f : field) : option Z :=
  match f with FStartH => d_start_h d | FStartM => d_start_m d | FEndH => d_end_h d | FEndM => d_end_m d | FOnOff => d_on_off d
             | FDayBits => d_day_bits d | FPower => d_power d | FSoc => d_soc d | FMonthBits => d_month_bits d end.
Definition set_f (d : sdef) (f : field) (v : Z) : sdef :=
  let '(mkSdef a b c e g h i j k l m t) := d in
  match f with
  | FStartH => mkSdef (Some v) b c e g h i j k l m t | FStartM => mkSdef a (Some v) c e g h i j k l m t
  | FEndH => mkSdef a b (Some v) e g h i j k l m t | FEndM => mkSdef a b c (Some v) g h i j k l m t
  | FOnOff => mkSdef a b c e (Some v) h i j k l m t | FDayBits => mkSdef a b c e g (Some v) i j k l m t
  | FPower => mkSdef a b c e g h (Some v) j k l m t | FSoc => mkSdef a b c e g h i (Some v) k l m t
  | FMonthBits => mkSdef a b c e g h i j (Some v) l m t end.
Definition set_days (d : sdef) (s : string) : sdef :=
  let '(mkSdef a b c e g h i j k _ m t) := d in mkSdef a b c e g h i j k (Some s) m t.
Definition set_months (d : sdef) (s : option string) : sdef :=
  let '(mkSdef a b c e g h i j k l _ t) := d in mkSdef a b c e g h i j k l (Some s) t.
Definition set_ty (d : sdef) (ty : Z) : sdef :=
  let '(mkSdef a b c e g h i j k l m _) := d in mkSdef a b c e g h i j k l m ty.

(* the conditions guarding `raise ValueError(...)` *)
Inductive rvcond :=
| CHourV2 (f : field)      (* (self.f < 0 or self.f > 23) and self.f != 48 and self.f != -1 *)
| CMinuteV2 (f : field)    (* (self.f < 0 or self.f > 59) and self.f != -1 *)
| CHourV1 (f : field)      (* (self.f < 0 or self.f > 23) and self.f != 48 *)
| CMinuteV1 (f : field)    (* self.f < 0 or self.f > 59 *)
| CPowerV1                 (* self.power < -100 or self.power > 100 *)
| COnOffV1                 (* self.on_off not in (0, -1) *)
| CPowerRange              (* not self.schedule_type.is_in_range(self.power) *)
| CSoc.                    (* self.soc < 0 or self.soc > 100 *)

Inductive rvstmt :=
| RvByte (f : field)       (* self.f = read_byte(data) *)
| RvInt2S (f : field)      (* self.f = read_bytes2_signed(data) *)
| RvRaiseIf (c : rvcond)   (* if c: raise ValueError(...) *)
| RvDetectType             (* self.schedule_type = ScheduleType.detect_schedule_type(self.on_off) *)
| RvDays                   (* self.days = decode_day_of_week(self.day_bits) *)
| RvMonths                 (* self.months = decode_months(self.month_bits) *)
| RvReturnSelf.

Definition fz (d : sdef) (f : field) : Z := match get_f d f with Some v => v | None => 0 end.

Definition eval_cond (c : rvcond) (d : sdef) : bool :=
  match c with
  | CHourV2 f => let v := fz d f in ((v <? 0) || (v >? 23)) && negb (v =? 48) && negb (v =? -1)
  | CMinuteV2 f => let v := fz d f in ((v <? 0) || (v >? 59)) && negb (v =? -1)
  | CHourV1 f => let v := fz d f in ((v <? 0) || (v >? 23)) && negb (v =? 48)
  | CMinuteV1 f => let v := fz d f in (v <? 0) || (v >? 59)
  | CPowerV1 => let v := fz d FPower in (v <? -100) || (v >? 100)
  | COnOffV1 => let v := fz d FOnOff in negb ((v =? 0) || (v =? -1))
  | CPowerRange => negb (sched_in_range (d_ty d) (fz d FPower))
  | CSoc => let v := fz d FSoc in (v <? 0) || (v >? 100)
  end.

(* one statement: new attributes, new cursor, and whether the method goes on (None), raised (Some (Exc e)) or returned self (Some (Ok tt)) *)
Definition run_rvstmt (st : rvstmt) (d : sdef) (data : list Z) (pos : Z) : sdef * Z * option (res unit) :=
  match st with
  | RvByte f => (set_f d f (s_at data pos 1), pos + 1, None)
  | RvInt2S f => (set_f d f (s_at data pos 2), pos + 2, None)
  | RvRaiseIf c => (d, pos, if eval_cond c d then Some (Exc EValue) else None)
  | RvDetectType => match detect_schedule_type (fz d FOnOff) with Ok ty => (set_ty d ty, pos, None) | Exc e => (d, pos, Some (Exc e)) end
  | RvDays => match decode_day_of_week (fz d FDayBits) with Ok s => (set_days d s, pos, None) | Exc e => (d, pos, Some (Exc e)) end
  | RvMonths => match decode_months (fz d FMonthBits) with Ok s => (set_months d s, pos, None) | Exc e => (d, pos, Some (Exc e)) end
  | RvReturnSelf => (d, pos, Some (Ok tt))
  end.

(* falling off the end = `return None`: not what read_value may do (the translator requires the final `return self`) *)
Fixpoint run_rv (prog : list rvstmt) (d : sdef) (data : list Z) (pos : Z) : sdef * res unit :=
  match prog with
  | [] => (d, Exc ENotImpl)
  | st :: tl => match run_rvstmt st d data pos with
                | (d', _, Some r) => (d', r)
                | (d', pos', None) => run_rv tl d' data pos' end
  end.

(* the value a caller sees when it looks at the (returned) definition object *)
Definition sched_of (d : sdef) : sched :=
  mkSched (fz d FStartH) (fz d FStartM) (fz d FEndH) (fz d FEndM) (fz d FPower) (fz d FOnOff) (fz d FDayBits)
          (match d_days d with Some s => s | None => "" end) (fz d FSoc) (fz d FMonthBits)
          (match d_months d with Some m => m | None => None end) (d_ty d).

(* Schedule.set_schedule_type(ScheduleType.ECO_MODE, is745) *)
Definition set_schedule_type_eco (d : sdef) (is745 : bool) : sdef :=
  if (d_ty d =? 0) || (d_ty d =? 6) then d else set_ty d (if is745 then 6 else 0).

(* Hand-written executable model of goodwe/sensor.py (decoding and encoding of every Sensor class, the helper
   functions read_X / decode_X / encode_X) and of ProtocolResponse.seek/read (protocol.py) + Sensor.read (inverter.py).
   Tied to the code by the sensor correspondence (harness/sensorcorr.py): every class is run on the same register
   contents in CPython and here (exhaustively over 2-byte fields). *)
From Coq Require Import ZArith List Bool String Ascii PrimFloat.
From GW Require Import Prelude PyStr PyFloat.
Import ListNotations.
Open Scope Z_scope.

(* ---------------------------------------------------------------- values *)
Record sched := mkSched {
  sc_start_h : Z; sc_start_m : Z; sc_end_h : Z; sc_end_m : Z; sc_power : Z; sc_on_off : Z; sc_day_bits : Z; sc_days : string;
  sc_soc : Z; sc_month_bits : Z; sc_months : option string; sc_type : Z }.

Inductive val :=
| VNone | VInt (z : Z) | VFloat (f : float) | VStr (s : string)
| VDate (y mo d h mi s : Z) | VSched (x : sched).

(* ---------------------------------------------------------------- ProtocolResponse: io.BytesIO over response_data() *)
(* reading n bytes at position pos: a short read is allowed (and int.from_bytes(b'') = 0) *)
Definition rd (data : list Z) (pos n : Z) : list Z :=
  if pos <? 0 then [] else firstn (Z.to_nat n) (skipn (Z.to_nat pos) data).
Definition u_at (data : list Z) (pos n : Z) : Z := be_unsigned (rd data pos n).
Definition s_at (data : list Z) (pos n : Z) : Z := be_signed (rd data pos n).

(* ---------------------------------------------------------------- helper functions of sensor.py *)
Definition DAY_NAMES : list string := ["Sun"; "Mon"; "Tue"; "Wed"; "Thu"; "Fri"; "Sat"]%string.
Definition MONTH_NAMES : list string := ["Jan"; "Feb"; "Mar"; "Apr"; "May"; "Jun"; "Jul"; "Aug"; "Sep"; "Oct"; "Nov"; "Dec"]%string.

(* the walk over bin(data)[2:][::-1][:len(names)]: names[0] is read (IndexError on an empty list) then popped *)
Fixpoint name_walk (bits : list string) (names : list string) (acc : string) : res string :=
  match bits with
  | [] => Ok acc
  | b :: tl =>
      if String.eqb b "1" then
        match names with
        | [] => Exc EIndex
        | n :: ntl => name_walk tl ntl (if String.eqb acc "" then n else (acc ++ "," ++ n)%string)
        end
      else match names with
           | [] => Exc EIndex                     (* list.pop(0) on an empty list *)
           | _ :: ntl => name_walk tl ntl acc end
  end.

Definition bits_of (data : Z) (n : nat) : list string :=
  firstn n (str_chars (str_rev (str_slice (py_bin data) (Some 2) None))).

Definition decode_day_of_week (data : Z) : res string :=
  if data =? -1 then Ok "Mon-Sun"%string
  else if data =? 0 then Ok ""%string
  else name_walk (bits_of data (List.length DAY_NAMES)) DAY_NAMES "".

Definition decode_months (data : Z) : res (option string) :=
  if (data <=? 0) || (data =? 4095) then Ok None
  else match name_walk (bits_of data (List.length MONTH_NAMES)) MONTH_NAMES "" with
       | Ok s => Ok (Some s) | Exc e => Exc e end.

Fixpoint dict_get_s (d : list (Z * string)) (k : Z) : option string :=
  match d with [] => None | (k', v) :: tl => if k =? k' then Some v else dict_get_s tl k end.

(* decode_bitmap: bits 0..31, label (or 'err<i>') of every set bit whose label is not empty, joined by ", " *)
Definition decode_bitmap (value : Z) (bitmap : list (Z * string)) : string :=
  str_join ", " (flat_map (fun i =>
     if Z.testbit value i then
       let l := match dict_get_s bitmap i with Some s => s | None => ("err" ++ Z_to_str i)%string end in
       if String.eqb l "" then [] else [l]
     else []) (py_range 0 32)).

Definition read_grid_mode (data : list Z) (pos : Z) : Z :=
  let v := s_at data pos 2 in if v <? -90 then 2 else if v >=? 90 then 1 else 0.

(* datetime(year, month, day, hour, minute, second): ValueError unless a valid Gregorian date / time *)
Definition is_leap (y : Z) : bool := ((y mod 4 =? 0) && negb (y mod 100 =? 0)) || (y mod 400 =? 0).
Definition days_in_month (y m : Z) : Z :=
  if m =? 2 then (if is_leap y then 29 else 28)
  else if (m =? 4) || (m =? 6) || (m =? 9) || (m =? 11) then 30 else 31.
Definition py_datetime (y mo d h mi s : Z) : res val :=
  if (1 <=? y) && (y <=? 9999) && (1 <=? mo) && (mo <=? 12) && (1 <=? d) && (d <=? days_in_month y mo)
     && (0 <=? h) && (h <=? 23) && (0 <=? mi) && (mi <=? 59) && (0 <=? s) && (s <=? 59)
  then Ok (VDate y mo d h mi s) else Exc EValue.

(* ScheduleType *)
Definition detect_schedule_type (v : Z) : res Z :=
  if (v =? 0) || (v =? -1) then Ok 0 else if (v =? 1) || (v =? -2) then Ok 1 else if (v =? 2) || (v =? -3) then Ok 2
  else if (v =? 3) || (v =? -4) then Ok 3 else if (v =? 4) || (v =? -5) then Ok 4 else if (v =? 5) || (v =? -6) then Ok 5
  else if (v =? 6) || (v =? -7) then Ok 6 else if v =? 85 then Ok 85 else Exc EValue.
Definition sched_in_range (ty v : Z) : bool :=
  if ty =? 0 then (-100 <=? v) && (v <=? 100) else if ty =? 6 then (-1000 <=? v) && (v <=? 1000) else true.
Definition sched_encode_power (ty v : Z) : Z :=
  if ty =? 0 then v
  else if ty =? 3 then match py_int (PrimFloat.div (float_of_Z v) (float_of_Z 10)) with Some z => z | None => 0 end
  else if ty =? 6 then v * 10 else v.
Definition sched_decode_power (ty v : Z) : Z :=
  let div10 := match py_int (PrimFloat.div (float_of_Z v) (float_of_Z 10)) with Some z => z | None => 0 end in
  if ty =? 3 then v * 10 else if ty =? 6 then div10
  else if ty =? 85 then (if (-100 <=? v) && (v <=? 100) then v else div10) else v.

(* ---------------------------------------------------------------- sensor kinds *)
Inductive cexpr :=          (* bodies of the Calculated / EnumCalculated lambdas (generated from their ASTs) *)
| CInt (z : Z) | CRead2 (off : Z) (undef0 : bool) | CRead2S (off : Z) | CRead4 (off : Z) (undef0 : bool) | CRead4S (off : Z)
| CReadByte (off : Z) | CVolt (off : Z) | CCurr (off : Z) | CGridMode (off : Z)
| CAdd (a b : cexpr) | CSub (a b : cexpr) | CMul (a b : cexpr) | CMax (a b : cexpr) | CAbs (a : cexpr) | CRound (a : cexpr)
| CIfEq (a b t e : cexpr).

Inductive skind :=
| KVoltage | KCurrent | KCurrentS | KFrequency | KPower | KPowerS | KPower4 | KPower4S | KEnergy | KEnergy4 | KEnergy4W | KEnergy8
| KApparent | KApparent4 | KReactive | KReactive4 | KTemp | KCellVoltage | KByte | KByteH | KByteL | KInteger | KIntegerS | KLong | KLongS
| KDecimal (scale : Z) | KFloat (scale : Z) | KTimestamp
| KEnum (labels : list (Z * string)) | KEnumH (labels : list (Z * string)) | KEnumL (labels : list (Z * string)) | KEnum2 (labels : list (Z * string))
| KEnumBitmap4 (labels : list (Z * string)) | KEnumBitmap22 (offL : Z) (labels : list (Z * string))
| KEnumCalculated (getter : cexpr) (labels : list (Z * string)) | KCalculated (getter : cexpr)
| KEcoModeV1 | KSchedule (ty : Z).

Record sensor := mkS { s_id : string; s_offset : Z; s_size : Z; s_kind : skind }.

(* number of bytes the decoder of a kind reads at its own position *)
Definition width (k : skind) : Z :=
  match k with
  | KVoltage | KCurrent | KCurrentS | KFrequency | KPower | KPowerS | KEnergy | KApparent | KReactive | KTemp | KCellVoltage
  | KInteger | KIntegerS | KDecimal _ | KEnum2 _ | KByteL | KEnumL _ => 2
  | KPower4 | KPower4S | KEnergy4 | KEnergy4W | KApparent4 | KReactive4 | KLong | KLongS | KFloat _ | KEnumBitmap4 _ => 4
  | KEnergy8 | KEcoModeV1 => 8
  | KByte | KByteH | KEnum _ | KEnumH _ => 1
  | KTimestamp => 6
  | KSchedule _ => 12
  | KEnumBitmap22 _ _ => 2
  | KEnumCalculated _ _ | KCalculated _ => 0
  end.

Definition fdivZ (v d : Z) : val := VFloat (PrimFloat.div (float_of_Z v) (float_of_Z d)).

(* arithmetic of the lambdas: ints and floats mixed as in Python *)
Inductive num := NInt (z : Z) | NFloat (f : float) | NNone.
Definition num_float (n : num) : float := match n with NInt z => float_of_Z z | NFloat f => f | NNone => nan end.
Definition num_bin (fz : Z -> Z -> Z) (ff : float -> float -> float) (a b : num) : res num :=
  match a, b with
  | NNone, _ | _, NNone => Exc EType
  | NInt x, NInt y => Ok (NInt (fz x y))
  | _, _ => Ok (NFloat (ff (num_float a) (num_float b)))
  end.

(* get_offset(address) of the command the response belongs to: (address - first) * 2 for Modbus, the plain offset for AA55 / none *)
Definition posfn := Z -> Z.

Fixpoint ceval (data : list Z) (pos : posfn) (e : cexpr) : res num :=
  match e with
  | CInt z => Ok (NInt z)
  | CRead2 off u0 => let v := u_at data (pos off) 2 in Ok (if v =? 65535 then (if u0 then NInt 0 else NNone) else NInt v)
  | CRead2S off => Ok (NInt (s_at data (pos off) 2))
  | CRead4 off u0 => let v := u_at data (pos off) 4 in Ok (if v =? 4294967295 then (if u0 then NInt 0 else NNone) else NInt v)
  | CRead4S off => Ok (NInt (s_at data (pos off) 4))
  | CReadByte off => Ok (NInt (s_at data (pos off) 1))
  | CVolt off | CCurr off => let v := u_at data (pos off) 2 in
                             Ok (if v =? 65535 then NInt 0 else NFloat (PrimFloat.div (float_of_Z v) (float_of_Z 10)))
  | CGridMode off => Ok (NInt (read_grid_mode data (pos off)))
  | CAdd a b => x <- ceval data pos a ;; y <- ceval data pos b ;; num_bin Z.add PrimFloat.add x y
  | CSub a b => x <- ceval data pos a ;; y <- ceval data pos b ;; num_bin Z.sub PrimFloat.sub x y
  | CMul a b => x <- ceval data pos a ;; y <- ceval data pos b ;; num_bin Z.mul PrimFloat.mul x y
  | CMax a b => x <- ceval data pos a ;; y <- ceval data pos b ;;
                match x, y with
                | NInt p, NInt q => Ok (NInt (Z.max p q))
                | _, _ => Exc EType end
  | CAbs a => x <- ceval data pos a ;;
              match x with NInt p => Ok (NInt (Z.abs p)) | NFloat f => Ok (NFloat (PrimFloat.abs f)) | NNone => Exc EType end
  | CRound a => x <- ceval data pos a ;;
                match x with
                | NInt p => Ok (NInt p)
                | NFloat f => match py_round f with Some z => Ok (NInt z) | None => Exc EValue end
                | NNone => Exc EType end
  | CIfEq a b t e => x <- ceval data pos a ;; y <- ceval data pos b ;;
                     match x, y with
                     | NInt p, NInt q => if p =? q then ceval data pos t else ceval data pos e
                     | _, _ => ceval data pos e end
  end.

Definition val_of_num (n : num) : val := match n with NInt z => VInt z | NFloat f => VFloat f | NNone => VNone end.

Definition label_val (labels : list (Z * string)) (k : Z) : val :=
  match dict_get_s labels k with Some s => VStr s | None => VNone end.

(* EcoModeV1.read_value: 8 bytes at p *)
Definition read_eco_v1 (data : list Z) (p : Z) : res val :=
  let start_h := s_at data p 1 in
  if ((start_h <? 0) || (start_h >? 23)) && negb (start_h =? 48) then Exc EValue else
  let start_m := s_at data (p + 1) 1 in
  if (start_m <? 0) || (start_m >? 59) then Exc EValue else
  let end_h := s_at data (p + 2) 1 in
  if ((end_h <? 0) || (end_h >? 23)) && negb (end_h =? 48) then Exc EValue else
  let end_m := s_at data (p + 3) 1 in
  if (end_m <? 0) || (end_m >? 59) then Exc EValue else
  let power := s_at data (p + 4) 2 in
  if (power <? -100) || (power >? 100) then Exc EValue else
  let on_off := s_at data (p + 6) 1 in
  if negb ((on_off =? 0) || (on_off =? -1)) then Exc EValue else
  let day_bits := s_at data (p + 7) 1 in
  days <- decode_day_of_week day_bits ;;
  Ok (VSched (mkSched start_h start_m end_h end_m power on_off day_bits days 100 0 None 0)).

(* Schedule.read_value: 12 bytes at p *)
Definition read_schedule (data : list Z) (p : Z) : res val :=
  let start_h := s_at data p 1 in
  if ((start_h <? 0) || (start_h >? 23)) && negb (start_h =? 48) && negb (start_h =? -1) then Exc EValue else
  let start_m := s_at data (p + 1) 1 in
  if ((start_m <? 0) || (start_m >? 59)) && negb (start_m =? -1) then Exc EValue else
  let end_h := s_at data (p + 2) 1 in
  if ((end_h <? 0) || (end_h >? 23)) && negb (end_h =? 48) && negb (end_h =? -1) then Exc EValue else
  let end_m := s_at data (p + 3) 1 in
  if ((end_m <? 0) || (end_m >? 59)) && negb (end_m =? -1) then Exc EValue else
  let on_off := s_at data (p + 4) 1 in
  ty <- detect_schedule_type on_off ;;
  let day_bits := s_at data (p + 5) 1 in
  days <- decode_day_of_week day_bits ;;
  let power := s_at data (p + 6) 2 in
  if negb (sched_in_range ty power) then Exc EValue else
  let soc := s_at data (p + 8) 2 in
  if (soc <? 0) || (soc >? 100) then Exc EValue else
  let month_bits := s_at data (p + 10) 2 in
  months <- decode_months month_bits ;;
  Ok (VSched (mkSched start_h start_m end_h end_m power on_off day_bits days soc month_bits months ty)).

(* Sensor.read(response): seek(get_offset(offset)) then read_value; the Calculated / bitmap classes override read() *)
Definition sensor_read (data : list Z) (pos : posfn) (s : sensor) : res val :=
  let p := pos (s_offset s) in
  match s_kind s with
  | KVoltage | KCurrent => let v := u_at data p 2 in Ok (if v =? 65535 then VInt 0 else fdivZ v 10)
  | KCurrentS => Ok (fdivZ (s_at data p 2) 10)
  | KFrequency => Ok (fdivZ (s_at data p 2) 100)
  | KPower => let v := u_at data p 2 in Ok (if v =? 65535 then VNone else VInt v)
  | KPowerS | KApparent | KReactive | KIntegerS => Ok (VInt (s_at data p 2))
  | KPower4 => let v := u_at data p 4 in Ok (if v =? 4294967295 then VNone else VInt v)
  | KPower4S | KApparent4 | KReactive4 | KLongS => Ok (VInt (s_at data p 4))
  | KEnergy => let v := u_at data p 2 in Ok (if v =? 65535 then VNone else fdivZ v 10)
  | KEnergy4 => let v := u_at data p 4 in Ok (if v =? 4294967295 then VNone else fdivZ v 10)
  | KEnergy4W => let v := u_at data p 4 in Ok (if v =? 4294967295 then VNone else fdivZ v 1000)
  | KEnergy8 => let v := u_at data p 8 in Ok (if v =? 18446744073709551615 then VNone else fdivZ v 100)
  | KTemp => let v := s_at data p 2 in Ok (if (v =? -1) || (v =? 32767) then VNone else fdivZ v 10)
  | KCellVoltage => let v := u_at data p 2 in
                    Ok (VFloat (PrimFloat.div (if v =? 65535 then float_of_Z 0 else PrimFloat.div (float_of_Z v) (float_of_Z 10)) (float_of_Z 100)))
  | KByte | KByteH => Ok (VInt (s_at data p 1))
  | KByteL => Ok (VInt (s_at data (p + 1) 1))
  | KInteger => let v := u_at data p 2 in Ok (VInt (if v =? 65535 then 0 else v))
  | KLong => let v := u_at data p 4 in Ok (VInt (if v =? 4294967295 then 0 else v))
  | KDecimal sc => if sc =? 0 then Exc EZeroDiv else Ok (fdivZ (s_at data p 2) sc)
  | KFloat sc =>
      let b := rd data p 4 in
      let x := if blen b =? 4 then unpack_f32 b else zero in
      if sc =? 0 then Exc EZeroDiv else Ok (VFloat (py_round3 (PrimFloat.div x (float_of_Z sc))))
  | KTimestamp =>
      py_datetime (2000 + u_at data p 1) (u_at data (p + 1) 1) (u_at data (p + 2) 1) (u_at data (p + 3) 1) (u_at data (p + 4) 1) (u_at data (p + 5) 1)
  | KEnum l | KEnumH l => Ok (label_val l (s_at data p 1))
  | KEnumL l => Ok (label_val l (s_at data (p + 1) 1))
  | KEnum2 l => let v := u_at data p 2 in Ok (label_val l (if v =? 65535 then 0 else v))
  | KEnumBitmap4 l => let b := s_at data p 4 in Ok (VStr (decode_bitmap (if b =? -1 then 0 else b) l))
  | KEnumBitmap22 offL l =>
      (* read_bytes2(data, offH, 0) << 16 + read_bytes2(data, offL, 0): Python parses this as h << (16 + l) *)
      let h := u_at data p 2 in let h := if h =? 65535 then 0 else h in
      let lo := u_at data (pos offL) 2 in let lo := if lo =? 65535 then 0 else lo in
      Ok (VStr (decode_bitmap (Z.shiftl h (16 + lo)) l))
  | KEnumCalculated g l =>
      n <- ceval data pos g ;;
      match n with NInt z => Ok (label_val l z) | _ => Ok VNone end
  | KCalculated g => n <- ceval data pos g ;; Ok (val_of_num n)
  | KEcoModeV1 => read_eco_v1 data p
  | KSchedule _ => read_schedule data p
  end.

(* Inverter._map_response: ValueError becomes None, anything else propagates *)
Definition map_entry (data : list Z) (pos : posfn) (s : sensor) : res val :=
  match sensor_read data pos s with
  | Ok v => Ok v
  | Exc EValue => Ok VNone
  | Exc e => Exc e end.

(* ---------------------------------------------------------------- encoders (write_setting) *)
Inductive inval := IInt (z : Z) | IFloat (f : float).
Definition in_float (v : inval) : float := match v with IInt z => float_of_Z z | IFloat f => f end.
Definition in_int (v : inval) : res Z := match v with IInt z => Ok z | IFloat f => match py_int f with Some z => Ok z | None => Exc EValue end end.

Definition encode_value (k : skind) (v : inval) (reg : list Z) : res (list Z) :=
  match k with
  | KVoltage | KCurrent =>
      match py_int (PrimFloat.mul (in_float v) (float_of_Z 10)) with Some z => to_bytes_big z 2 false | None => Exc EValue end
  | KCurrentS =>
      match py_int (PrimFloat.mul (in_float v) (float_of_Z 10)) with Some z => to_bytes_big z 2 true | None => Exc EValue end
  | KByteH => z <- in_int v ;; b <- to_bytes_big z 1 true ;;
              match b, reg with [x], [_; lo] => Ok [x; lo] | _, _ => Exc EIndex end
  | KByteL => z <- in_int v ;; b <- to_bytes_big z 1 true ;;
              match b, reg with [x], [hi; _] => Ok [hi; x] | _, _ => Exc EIndex end
  | KInteger => z <- in_int v ;; to_bytes_big z 2 false
  | KIntegerS => z <- in_int v ;; to_bytes_big z 2 true
  | KLong => z <- in_int v ;; to_bytes_big z 4 false
  | KLongS => z <- in_int v ;; to_bytes_big z 4 true
  | KDecimal sc =>
      match py_round (PrimFloat.mul (in_float v) (float_of_Z sc)) with Some z => to_bytes_big z 2 true | None => Exc EValue end
  | _ => Exc ENotImpl
  end.

(* Schedule / EcoModeV1 group encoders used by set_operation_mode *)
Definition hex2 (v : Z) : list Z := [v mod 256].
Definition be2 (v : Z) : list Z := [(v / 256) mod 256; v mod 256].
Definition eco_v1_encode_charge (power : Z) : list Z := [0; 0; 23; 59] ++ be2 (Z.land (- Z.abs power) 65535) ++ [255; 127].
Definition eco_v1_encode_discharge (power : Z) : list Z := [0; 0; 23; 59] ++ be2 (Z.abs power) ++ [255; 127].
Definition sched_encode_charge (ty power soc : Z) : list Z :=
  [0; 0; 23; 59; 255 - ty; 127] ++ be2 (Z.land (- Z.abs (sched_encode_power ty power)) 65535) ++ be2 soc ++ be2 (if ty =? 6 then 4095 else 0).
Definition sched_encode_discharge (ty power : Z) : list Z :=
  [0; 0; 23; 59; 255 - ty; 127] ++ be2 (Z.abs (sched_encode_power ty power)) ++ [0; 100] ++ be2 (if ty =? 6 then 4095 else 0).

Definition sched_is_charge (x : sched) : bool :=
  (sc_start_h x =? 0) && (sc_start_m x =? 0) && (sc_end_h x =? 23) && (sc_end_m x =? 59) && (sc_on_off x =? -1 - sc_type x)
  && (sc_day_bits x =? 127) && (sc_power x <? 0) && ((sc_month_bits x =? 0) || (sc_month_bits x =? 4095)).
Definition sched_is_discharge (x : sched) : bool :=
  (sc_start_h x =? 0) && (sc_start_m x =? 0) && (sc_end_h x =? 23) && (sc_end_m x =? 59) && (sc_on_off x =? -1 - sc_type x)
  && (sc_day_bits x =? 127) && (sc_power x >? 0) && ((sc_month_bits x =? 0) || (sc_month_bits x =? 4095)).
Definition eco_v1_is_charge (x : sched) : bool :=
  (sc_start_h x =? 0) && (sc_start_m x =? 0) && (sc_end_h x =? 23) && (sc_end_m x =? 59) && negb (sc_on_off x =? 0)
  && (sc_day_bits x =? 127) && (sc_power x <? 0).
Definition eco_v1_is_discharge (x : sched) : bool :=
  (sc_start_h x =? 0) && (sc_start_m x =? 0) && (sc_end_h x =? 23) && (sc_end_m x =? 59) && negb (sc_on_off x =? 0)
  && (sc_day_bits x =? 127) && (sc_power x >? 0).

(* ---------------------------------------------------------------- canonical encoding for the correspondence cases *)
Definition enc_str (s : string) : list Z := map (fun c => Z.of_nat (nat_of_ascii c)) (str_to_list s).
Definition enc_lstr (s : string) : list Z := Z.of_nat (String.length s) :: enc_str s.
Definition enc_val (v : val) : list Z :=
  match v with
  | VNone => [0]
  | VInt z => [1; z]
  | VFloat f => 2 :: enc_float f
  | VStr s => 3 :: enc_str s
  | VDate y mo d h mi s => [4; y; mo; d; h; mi; s]
  | VSched x => [5; sc_start_h x; sc_start_m x; sc_end_h x; sc_end_m x; sc_power x; sc_on_off x; sc_day_bits x; sc_soc x; sc_month_bits x; sc_type x]
                ++ enc_lstr (sc_days x) ++ match sc_months x with Some m => 1 :: enc_str m | None => [0] end
  end.
Definition enc_exn_s (e : exn) : list Z :=
  match e with EValue => [4] | EIndex => [3] | EOverflow => [5] | EZeroDiv => [7] | EType => [8] | ENotImpl => [9] | _ => [99] end.
Definition enc_rval (r : res val) : list Z := match r with Ok v => 0 :: enc_val v | Exc e => 1 :: enc_exn_s e end.
Definition enc_rbytes (r : res (list Z)) : list Z := match r with Ok v => 0 :: v | Exc e => 1 :: enc_exn_s e end.

(* Register-file model of the Modbus setting paths of ET / DT (goodwe/et.py, goodwe/dt.py: _write_setting, _read_sensor): the inverter is a
   map register -> 16-bit word; write_setting encodes the value (reading the register first for a one-byte setting), sends ONE write (single
   register when the encoding has at most 2 bytes, multi-register otherwise) to the setting's own offset; read_setting fetches
   (size + size mod 2) / 2 registers from the offset and decodes them from position 0.  The shape parameters (which size triggers the
   read-modify-write, the single-register threshold) are emitted from the source by tools/ws2v.py. *)
From Coq Require Import ZArith List Bool String.
From GW Require Import Prelude PyStr PyFloat Sensors.
Import ListNotations.
Open Scope Z_scope.

Definition rfile := Z -> Z.

Record ws_shape := mkWs { ws_rmw_size : Z; ws_single_max : Z }.

Fixpoint rf_bytes (r : rfile) (a : Z) (n : nat) : list Z :=
  match n with O => [] | S n' => (r a / 256) :: (r a mod 256) :: rf_bytes r (a + 1) n' end.

Fixpoint rf_write_bytes (r : rfile) (a : Z) (bs : list Z) : rfile :=
  match bs with
  | hi :: lo :: tl => rf_write_bytes (fun x => if x =? a then hi * 256 + lo else r x) (a + 1) tl
  | _ => r end.

Definition wf_rfile (r : rfile) : Prop := forall a, 0 <= r a < 65536.

(* one write request: (first register, number of registers) and the new register file *)
Definition write_setting (sh : ws_shape) (r : rfile) (s : sensor) (v : inval) : res (rfile * (Z * Z)) :=
  let reg := if s_size s =? ws_rmw_size sh then rf_bytes r (s_offset s) 1 else [] in
  match encode_value (s_kind s) v reg with
  | Exc e => Exc e
  | Ok raw =>
      if blen raw <=? ws_single_max sh
      then (* value = int.from_bytes(raw, "big", signed=True); the write command stores it as a 16-bit word *)
           Ok (fun x => if x =? s_offset s then be_signed raw mod 65536 else r x, (s_offset s, 1))
      else Ok (rf_write_bytes r (s_offset s) raw, (s_offset s, blen raw / 2))
  end.

Definition read_count (s : sensor) : Z := (s_size s + s_size s mod 2) / 2.

Definition read_setting (r : rfile) (s : sensor) : res val :=
  sensor_read (rf_bytes r (s_offset s) (Z.to_nat (read_count s))) (fun _ => 0) s.

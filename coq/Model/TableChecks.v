(* Decidable checks over sensor tables (run on the generated tables of Gen/TablesGen.v by vm_compute, lifted to
   universally quantified statements by forallb_forall). *)
From Coq Require Import ZArith List Bool String.
From GW Require Import Prelude PyStr PyFloat Sensors.
Import ListNotations.
Open Scope Z_scope.

Fixpoint find_sensor (id : string) (t : list sensor) : option sensor :=
  match t with [] => None | s :: tl => if String.eqb (s_id s) id then Some s else find_sensor id tl end.

Fixpoint labels_eqb (a b : list (Z * string)) : bool :=
  match a, b with
  | [], [] => true
  | (k, v) :: a', (k', v') :: b' => (k =? k') && String.eqb v v' && labels_eqb a' b'
  | _, _ => false end.

Fixpoint cexpr_eqb (a b : cexpr) : bool :=
  match a, b with
  | CInt x, CInt y => x =? y
  | CRead2 o u, CRead2 o' u' | CRead4 o u, CRead4 o' u' => (o =? o') && Bool.eqb u u'
  | CRead2S o, CRead2S o' | CRead4S o, CRead4S o' | CReadByte o, CReadByte o' | CVolt o, CVolt o' | CCurr o, CCurr o'
  | CGridMode o, CGridMode o' => o =? o'
  | CAdd x y, CAdd x' y' | CSub x y, CSub x' y' | CMul x y, CMul x' y' | CMax x y, CMax x' y' => cexpr_eqb x x' && cexpr_eqb y y'
  | CAbs x, CAbs x' | CRound x, CRound x' => cexpr_eqb x x'
  | CIfEq p q r s, CIfEq p' q' r' s' => cexpr_eqb p p' && cexpr_eqb q q' && cexpr_eqb r r' && cexpr_eqb s s'
  | _, _ => false end.

(* ---- C13: every label / bitmap sensor has its code sensor(s) in the same table, at the same registers *)
Definition strip_label (id : string) : option string :=
  let n := String.length id in
  if endswith id "_label" then Some (substring 0 (n - 6) id) else None.

Definition code_kind_matches (lab code : sensor) : bool :=
  match s_kind lab, s_kind code with
  | KEnum2 _, KInteger | KEnum _, KByte | KEnumH _, KByteH | KEnumL _, KByteL => s_offset lab =? s_offset code
  | KEnumBitmap4 _, KLong => s_offset lab =? s_offset code
  | KEnumCalculated g _, KCalculated g' => cexpr_eqb g g'
  | _, _ => false end.

Definition has_kind_at (t : list sensor) (off : Z) (k : skind -> bool) : bool :=
  existsb (fun s => (s_offset s =? off) && k (s_kind s)) t.

Definition label_sensor_ok (t : list sensor) (s : sensor) : bool :=
  match s_kind s with
  | KEnum2 _ | KEnum _ | KEnumH _ | KEnumL _ | KEnumCalculated _ _ =>
      match strip_label (s_id s) with
      | Some base => match find_sensor base t with Some c => code_kind_matches s c | None => false end
      | None => false end
  | KEnumBitmap4 _ => has_kind_at t (s_offset s) (fun k => match k with KLong => true | _ => false end)
  | KEnumBitmap22 offL _ => has_kind_at t (s_offset s) (fun k => match k with KInteger => true | _ => false end)
                            && has_kind_at t offL (fun k => match k with KInteger => true | _ => false end)
  | _ => true end.

(* ---- C14: registers read by a sensor, and windows *)
Fixpoint cexpr_reads (e : cexpr) : list (Z * Z) :=       (* (address, bytes) *)
  match e with
  | CInt _ => []
  | CRead2 o _ | CRead2S o | CVolt o | CCurr o | CGridMode o => [(o, 2)]
  | CRead4 o _ | CRead4S o => [(o, 4)]
  | CReadByte o => [(o, 1)]
  | CAdd a b | CSub a b | CMul a b | CMax a b => cexpr_reads a ++ cexpr_reads b
  | CAbs a | CRound a => cexpr_reads a
  | CIfEq a b t e => cexpr_reads a ++ cexpr_reads b ++ cexpr_reads t ++ cexpr_reads e
  end.

Definition sensor_reads (s : sensor) : list (Z * Z) :=
  match s_kind s with
  | KCalculated g | KEnumCalculated g _ => cexpr_reads g
  | KEnumBitmap22 offL _ => [(s_offset s, 2); (offL, 2)]
  | k => [(s_offset s, width k)] end.

(* Modbus: register address a, n bytes, inside the window of `count` registers starting at `first` *)
Definition in_window (first count : Z) (r : Z * Z) : bool :=
  let '(a, n) := r in (first <=? a) && ((a - first) * 2 + n <=? 2 * count).

Definition sensor_in_window (w : Z * Z) (s : sensor) : bool := forallb (in_window (fst w) (snd w)) (sensor_reads s).

(* ---- C16: the single-sensor read fetches enough registers *)
Definition single_read_covers (s : sensor) : bool :=
  match s_kind s with
  | KCalculated _ | KEnumCalculated _ _ | KEnumBitmap4 _ | KEnumBitmap22 _ _ => true      (* read_value not implemented: see known findings *)
  | k => width k <=? 2 * ((s_size s + s_size s mod 2) / 2) end.

Definition id_in (ids : list string) (s : sensor) : bool := existsb (String.eqb (s_id s)) ids.

(* Two ET inverter objects (ARM firmware >= 22: eco-mode v2 settings) in one process, each talking to its own inverter (its own register file),
   and what they SHARE: the Schedule definition objects of the setting tables (class-level tuples; tools/sv2v.py re-establishes on every run
   that these are the only objects reachable from two inverter objects that any code of the package mutates -- apart from the Modbus/TCP
   transaction counter, which the property exempts).  Every operation returns what the caller gets and the register transactions the
   inverter sees; an operation of one object can influence the other object only through [w_defs]. *)
From Coq Require Import ZArith List Bool String.
From GW Require Import Prelude PyStr PyFloat Sensors Settings SchedDef Modes.
Import ListNotations.
Open Scope Z_scope.

Inductive tx := TxRead (a n : Z) | TxWrite (a : Z) (ws : list Z).

Definition defs := string -> sdef.
Definition upd (ds : defs) (id : string) (d : sdef) : defs := fun k => if String.eqb k id then d else ds k.

Record world := mkW { w_a : rfile; w_b : rfile; w_defs : defs }.
Definition regs (w : world) (who : bool) : rfile := if who then w_b w else w_a w.
Definition set_regs (w : world) (who : bool) (r : rfile) : world := if who then mkW (w_a w) r (w_defs w) else mkW r (w_b w) (w_defs w).
Definition set_defs (w : world) (ds : defs) : world := mkW (w_a w) (w_b w) ds.

(* static context of the model: the settings dictionary, the shapes and programs generated from the source, the platform of each object *)
Record tctx := mkT {
  t_settings : list sensor; t_shape : ws_shape; t_rv : list rvstmt;
  t_offline : Z * list Z * list Z; t_clear : Z * Z; t_values : list (mode * Z); t_steps : mode -> list mstep;
  t_is745 : bool -> bool }.

Inductive op :=
| ORead (id : string)                        (* read_setting(id) *)
| OWrite (id : string) (v : Z)               (* write_setting(id, <int>) *)
| OWriteGroup (id : string) (bs : list Z)    (* write_setting(id, <bytes>) of a schedule setting *)
| OSetMode (m : mode) (p soc : Z)            (* set_operation_mode(m, p, soc) *)
| OGetMode.                                  (* get_operation_mode() *)

Inductive out :=
| OutVal (v : val)                           (* an immutable value *)
| OutRef (id : string) (now : sched)         (* the definition object [id] itself, and what it shows at the moment it is returned *)
| OutMode (m : option mode)
| OutDone
| OutExc (e : exn).

Definition is_sched (s : sensor) : bool := match s_kind s with KSchedule _ => true | _ => false end.
Definition words (r : rfile) (a : Z) (n : Z) : list Z := map (fun i => r (a + Z.of_nat i)) (seq 0 (Z.to_nat n)).

(* _read_sensor on a schedule definition: one read request, read_value on the definition object (which keeps what it assigned) *)
Definition read_group (c : tctx) (r : rfile) (ds : defs) (s : sensor) : defs * res sched * list tx :=
  let '(d', rr) := run_rv (t_rv c) (ds (s_id s)) (rf_bytes r (s_offset s) 6) 0 in
  (upd ds (s_id s) d', match rr with Ok _ => Ok (sched_of d') | Exc e => Exc e end, [TxRead (s_offset s) 6]).

(* write_setting(id, bytes) on a schedule definition: encode_value validates by read_value on the definition object itself *)
Definition write_group (c : tctx) (r : rfile) (ds : defs) (s : sensor) (bs : list Z) : rfile * defs * res unit * list tx :=
  if negb (Nat.eqb (List.length bs) 12) then (r, ds, Exc EValue, []) else
  let '(d', rr) := run_rv (t_rv c) (ds (s_id s)) bs 0 in
  match rr with
  | Ok _ => let r' := rf_write_bytes r (s_offset s) bs in (r', upd ds (s_id s) d', Ok tt, [TxWrite (s_offset s) (words r' (s_offset s) 6)])
  | Exc e => (r, upd ds (s_id s) d', Exc e, [])
  end.

(* write_setting(id, int) *)
Definition write_int (c : tctx) (r : rfile) (id : string) (v : Z) : rfile * res unit * list tx :=
  match lookup id (t_settings c) with
  | None => (r, Exc EValue, [])
  | Some s =>
      if is_sched s then (r, Exc EValue, [])       (* encode_value: not bytes of the right length -> ValueError *)
      else
        let pre := if s_size s =? ws_rmw_size (t_shape c) then [TxRead (s_offset s) 1] else [] in
        match write_setting (t_shape c) r s (IInt v) with
        | Ok (r', (a, n)) => (r', Ok tt, pre ++ [TxWrite a (words r' a n)])
        | Exc e => (r, Exc e, pre)
        end
  end.

Definition is_value_error (e : exn) : bool := match e with EValue => true | _ => false end.

Definition mode_step (c : tctx) (who : bool) (p soc : Z) (st : mstep) (r : rfile) (ds : defs) : rfile * defs * res unit * list tx :=
  match st with
  | MWrite id v => let '(r', rr, t) := write_int c r id v in (r', ds, rr, t)
  | MSetOffline b => let '(reg, on, off) := t_offline c in
                     let r' := rf_write_bytes r reg (if b then on else off) in (r', ds, Ok tt, [TxWrite reg (words r' reg 2)])
  | MClearBattery => let '(reg, v) := t_clear c in ((fun x => if x =? reg then v else r x), ds, Ok tt, [TxWrite reg [v]])
  | MCheckRange => (r, ds, if (p <? 0) || (p >? 100) || (soc <? 0) || (soc >? 100) then Exc EValue else Ok tt, [])
  | MEcoGroup charge =>
      match lookup "eco_mode_1" (t_settings c) with
      | None => (r, ds, Exc EAttr, [])
      | Some s =>
          let '(ds1, rr, t1) := read_group c r ds s in
          match rr with
          | Exc e => if is_value_error e then
                       (* except ValueError: pass *)
                       let d2 := set_schedule_type_eco (ds1 (s_id s)) (t_is745 c who) in
                       let raw := if charge then sched_encode_charge (d_ty d2) p soc else sched_encode_discharge (d_ty d2) p in
                       let '(r', ds3, wr, t2) := write_group c r (upd ds1 (s_id s) d2) s raw in (r', ds3, wr, t1 ++ t2)
                     else (r, ds1, Exc e, t1)
          | Ok _ =>
              let d2 := set_schedule_type_eco (ds1 (s_id s)) (t_is745 c who) in
              let raw := if charge then sched_encode_charge (d_ty d2) p soc else sched_encode_discharge (d_ty d2) p in
              let '(r', ds3, wr, t2) := write_group c r (upd ds1 (s_id s) d2) s raw in (r', ds3, wr, t1 ++ t2)
          end
      end
  end.

Fixpoint mode_steps (c : tctx) (who : bool) (p soc : Z) (l : list mstep) (r : rfile) (ds : defs) : rfile * defs * res unit * list tx :=
  match l with
  | [] => (r, ds, Ok tt, [])
  | st :: tl => let '(r', ds', rr, t) := mode_step c who p soc st r ds in
                match rr with
                | Ok _ => let '(r'', ds'', rr', t') := mode_steps c who p soc tl r' ds' in (r'', ds'', rr', t ++ t')
                | Exc e => (r', ds', Exc e, t) end
  end.

(* one call on object [who] *)
Definition step (c : tctx) (w : world) (who : bool) (o : op) : world * (out * list tx) :=
  let r := regs w who in
  match o with
  | ORead id =>
      match lookup id (t_settings c) with
      | None => (w, (OutExc EValue, []))
      | Some s =>
          if is_sched s then
            let '(ds', rr, t) := read_group c r (w_defs w) s in
            (set_defs w ds', (match rr with Ok x => OutRef id x | Exc e => OutExc e end, t))
          else (w, (match read_setting r s with Ok v => OutVal v | Exc e => OutExc e end, [TxRead (s_offset s) (read_count s)]))
      end
  | OWrite id v => let '(r', rr, t) := write_int c r id v in (set_regs w who r', (match rr with Ok _ => OutDone | Exc e => OutExc e end, t))
  | OWriteGroup id bs =>
      match lookup id (t_settings c) with
      | None => (w, (OutExc EValue, []))
      | Some s =>
          if is_sched s then
            let '(r', ds', rr, t) := write_group c r (w_defs w) s bs in
            (set_defs (set_regs w who r') ds', (match rr with Ok _ => OutDone | Exc e => OutExc e end, t))
          else (w, (OutExc ENotImpl, []))          (* bytes for a scalar setting: outside the model *)
      end
  | OSetMode m p soc =>
      let '(r', ds', rr, t) := mode_steps c who p soc (t_steps c m) r (w_defs w) in
      (set_defs (set_regs w who r') ds', (match rr with Ok _ => OutDone | Exc e => OutExc e end, t))
  | OGetMode =>
      match lookup "work_mode" (t_settings c), lookup "eco_mode_1" (t_settings c) with
      | Some wm, Some eco =>
          let t0 := [TxRead (s_offset wm) (read_count wm)] in
          match read_setting r wm with
          | Ok (VInt v) =>
              match find (fun p => snd p =? v) (t_values c) with
              | None => (w, (OutMode None, t0))
              | Some (MEco, _) =>
                  let '(ds', rr, t) := read_group c r (w_defs w) eco in
                  (set_defs w ds', (match rr with
                                    | Ok x => OutMode (Some (if sched_is_charge x then MEcoCharge else if sched_is_discharge x then MEcoDischarge else MEco))
                                    | Exc e => OutExc e end, t0 ++ t))
              | Some (m, _) => (w, (OutMode (Some m), t0))
              end
          | Ok _ => (w, (OutMode None, t0))
          | Exc e => (w, (OutExc e, t0))
          end
      | _, _ => (w, (OutExc EValue, []))
      end
  end.

(* an interleaving of calls on the two objects; what each call returned and transmitted, in order *)
Fixpoint run (c : tctx) (w : world) (l : list (bool * op)) : world * list (bool * (out * list tx)) :=
  match l with
  | [] => (w, [])
  | (who, o) :: tl => let '(w', x) := step c w who o in let '(w'', xs) := run c w' tl in (w'', (who, x) :: xs)
  end.

Definition mine (who : bool) {A} (l : list (bool * A)) : list A := map snd (filter (fun x => Bool.eqb (fst x) who) l).

(* the calls of one object alone *)
Definition alone (c : tctx) (w : world) (who : bool) (l : list (bool * op)) : list (out * list tx) :=
  mine who (snd (run c w (filter (fun x => Bool.eqb (fst x) who) l))).

(* calls that can change a shared definition object *)
Definition touches (c : tctx) (o : op) : bool :=
  match o with
  | ORead id | OWriteGroup id _ => match lookup id (t_settings c) with Some s => is_sched s | None => false end
  | OWrite _ _ => false
  | OSetMode m _ _ => existsb (fun st => match st with MEcoGroup _ => true | _ => false end) (t_steps c m)
  | OGetMode => true
  end.

(* ---------------------------------------------------------------- canonical encodings for the correspondence cases (not used by theorems) *)
Definition enc_exn' (e : exn) : Z :=
  match e with EPartial _ _ => 1 | ERejected _ => 2 | EIndex => 3 | EValue => 4 | EOverflow => 5 | EKey => 6 | EZeroDiv => 7 | EType => 8 | ENotImpl => 9 | EAttr => 10 end.
Definition enc_sched (x : sched) : list Z :=
  [sc_start_h x; sc_start_m x; sc_end_h x; sc_end_m x; sc_power x; sc_on_off x; sc_day_bits x; sc_soc x; sc_month_bits x; sc_type x].
Definition enc_out (values : list (mode * Z)) (o : out) : list Z :=
  match o with
  | OutVal (VInt z) => [1; z] | OutVal VNone => [2] | OutVal _ => [90]
  | OutRef _ x => 3 :: enc_sched x
  | OutMode None => [4; -1]
  | OutMode (Some m) => [4; match find (fun p => match fst p, m with
                                                  | MGeneral, MGeneral | MOffGrid, MOffGrid | MBackup, MBackup | MEco, MEco | MPeakShaving, MPeakShaving
                                                  | MSelfUse, MSelfUse | MEcoCharge, MEcoCharge | MEcoDischarge, MEcoDischarge => true | _, _ => false end) values
                             with Some (_, v) => v | None => -2 end]
  | OutDone => [5]
  | OutExc e => [6; enc_exn' e]
  end.
Definition enc_tx (t : tx) : list Z :=
  match t with TxRead a n => [7; a; n] | TxWrite a ws => 8 :: a :: Z.of_nat (List.length ws) :: ws end.
Definition enc_call (values : list (mode * Z)) (x : bool * (out * list tx)) : list Z :=
  (if fst x then 1 else 0) :: enc_out values (fst (snd x)) ++ flat_map enc_tx (snd (snd x)) ++ [-9].
Definition enc_opt_z (o : option Z) : list Z := match o with Some v => [1; v] | None => [0] end.
Definition enc_sdef (d : sdef) : list Z :=
  enc_opt_z (d_start_h d) ++ enc_opt_z (d_start_m d) ++ enc_opt_z (d_end_h d) ++ enc_opt_z (d_end_m d) ++ enc_opt_z (d_on_off d) ++
  enc_opt_z (d_day_bits d) ++ enc_opt_z (d_power d) ++ enc_opt_z (d_soc d) ++ enc_opt_z (d_month_bits d) ++ [d_ty d].
Definition enc_run (values : list (mode * Z)) (ids : list string) (x : world * list (bool * (out * list tx))) : list Z :=
  flat_map (enc_call values) (snd x) ++ flat_map (fun id => enc_sdef (w_defs (fst x) id)) ids.

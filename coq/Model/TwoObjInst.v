(* Model/TwoObj.v instantiated with what the translators read from the current source (no proofs here). *)
From Coq Require Import ZArith List Bool String.
From GW Require Import Prelude PyStr PyFloat Sensors Settings TablesGen SettingsGen SchedDef SharedGen Modes ModesGen ModesInst TwoObj.
Import ListNotations.
Open Scope Z_scope.

(* two ET objects with ARM firmware >= 22; [a745] / [b745]: is_745_platform of each *)
Definition et_tctx (a745 b745 : bool) : tctx :=
  mkT et_settings et_ws schedule_read_value om_offline om_clear om_values et_set_mode (fun who => if who then b745 else a745).

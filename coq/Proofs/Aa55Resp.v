(* AA55 response validator (generated from goodwe/protocol.py): C02 acceptance, C01 totality and
   soundness, C07 partial. *)
From Coq Require Import ZArith List Bool Lia String ZifyBool.
From GW Require Import Prelude PyStr PyLemmas Crc16 Frames Responses BitLemmas ModbusGen CrcTable RespLemmas
  HexLemmas C03Aa55 RtuResp ProtoGen.
Import ListNotations.
Open Scope Z_scope.

Lemma py_slice_front2 (d : list Z) : 2 <= blen d ->
  py_slice d None (Some (-2)) = firstn (List.length d - 2) d.
Proof.
  intros H. unfold py_slice, clamp_idx, norm_idx. replace (-2 <? 0) with true by lia.
  replace (Z.max 0 (Z.min (blen d) (-2 + blen d))) with (blen d - 2) by lia.
  cbn [skipn Z.to_nat]. f_equal. unfold blen in *. lia.
Qed.

Lemma skipn_last2 (d : list Z) : (2 <= List.length d)%nat ->
  skipn (List.length d - 2) d = [nth (List.length d - 2) d 0; nth (List.length d - 1) d 0].
Proof.
  induction d as [|x d IH]; intros H; simpl in H. lia.
  destruct d as [|y d]. simpl in H; lia.
  destruct d as [|z d]. reflexivity.
  replace (List.length (x :: y :: z :: d) - 2)%nat with (S (List.length (y :: z :: d) - 2)) by (simpl; lia).
  replace (List.length (x :: y :: z :: d) - 1)%nat with (S (List.length (y :: z :: d) - 1)) by (simpl; lia).
  cbn [skipn nth]. apply IH. simpl; lia.
Qed.

Lemma py_slice_back2 (d : list Z) : 2 <= blen d ->
  py_slice d (Some (-2)) None = [nthZ d (blen d - 2); nthZ d (blen d - 1)].
Proof.
  intros H. unfold py_slice, clamp_idx, norm_idx. replace (-2 <? 0) with true by lia.
  replace (Z.max 0 (Z.min (blen d) (-2 + blen d))) with (blen d - 2) by lia.
  replace (Z.to_nat (blen d - (blen d - 2))) with 2%nat by lia.
  unfold nthZ, blen in *.
  replace (Z.to_nat (Z.of_nat (List.length d) - 2)) with (List.length d - 2)%nat by lia.
  replace (Z.to_nat (Z.of_nat (List.length d) - 1)) with (List.length d - 1)%nat by lia.
  rewrite skipn_last2 by lia. reflexivity.
Qed.

Definition aa55_checks (data : list Z) : bool :=
  Z.land (fold_left (fun c e => c + e) (py_slice data None (Some (-2))) 0) 65535 =?
  from_bytes_big (py_slice data (Some (-2)) None) false.

Lemma aa55_checks_spec data : 2 <= blen data ->
  aa55_checks data = (sum_bytes (firstn (List.length data - 2) data) mod 65536 =?
                      be16 (nthZ data (llen data - 2)) (nthZ data (llen data - 1))).
Proof.
  intros H. unfold aa55_checks. rewrite py_slice_front2, py_slice_back2 by assumption.
  rewrite sum_fold, land_65535. unfold from_bytes_big. rewrite be_unsigned_two. reflexivity.
Qed.

Lemma aa55_unfold data rt :
  Aa55ProtocolCommand__validate_aa55_response data rt =
  if blen data <=? 8 then Ok false else
  t <- py_index data 6 ;;
  if blen data <? t + 9 then (t2 <- py_index data 6 ;; Exc (EPartial (blen data) (t2 + 9))) else
  t3 <- py_index data 6 ;;
  if blen data >? t3 + 9 then Ok false else
  if negb (String.eqb rt "") then
    t5 <- int_of_str rt 16 ;;
    if negb (t5 =? from_bytes_big (py_slice data (Some 4) (Some 6)) true) then Ok false
    else if negb (aa55_checks data) then Ok false else Ok true
  else if negb (aa55_checks data) then Ok false else Ok true.
Proof. reflexivity. Qed.

Lemma aa55_total data rt : bytesP data -> (rt = ""%string \/ exists v, int_of_str rt 16 = Ok v) ->
  documented (Aa55ProtocolCommand__validate_aa55_response data rt).
Proof.
  intros Hb Hrt. rewrite aa55_unfold. pose proof (blen_nonneg data).
  destruct (blen data <=? 8) eqn:E0; [doc_leaf|].
  rewrite !py_index_nthZ by lia. cbn [bind].
  destruct (blen data <? nthZ data 6 + 9) eqn:E1; [doc_leaf|].
  destruct (blen data >? nthZ data 6 + 9) eqn:E2; [doc_leaf|].
  destruct Hrt as [-> | (v & Hv)].
  - cbn [String.eqb negb]. destruct (negb (aa55_checks data)); doc_leaf.
  - rewrite Hv. cbn [bind]. destruct (negb (String.eqb rt "")); repeat match goal with |- context [if ?c then _ else _] => destruct c end; doc_leaf.
Qed.

Lemma aa55_sound data rt rtv : bytesP data -> rt <> ""%string -> int_of_str rt 16 = Ok rtv ->
  Aa55ProtocolCommand__validate_aa55_response data rt = Ok true -> wf_aa55 rtv data.
Proof.
  intros Hb Hne Hrt. rewrite aa55_unfold. pose proof (blen_nonneg data).
  destruct (blen data <=? 8) eqn:E0; [discriminate|].
  rewrite !py_index_nthZ by lia. cbn [bind].
  destruct (blen data <? nthZ data 6 + 9) eqn:E1; [discriminate|].
  destruct (blen data >? nthZ data 6 + 9) eqn:E2; [discriminate|].
  destruct (String.eqb_spec rt ""); [contradiction|]. cbn [negb].
  rewrite Hrt. cbn [bind].
  rewrite py_slice_sub by lia. change 6 with (4 + 2) at 1. rewrite sub_two by (try rewrite <- blen_llen; lia).
  unfold from_bytes_big. rewrite be_signed_two by (apply bytesP_nthZ; assumption).
  destruct (negb (rtv =? _)) eqn:E3; [discriminate|].
  destruct (negb (aa55_checks data)) eqn:E4; [discriminate|]. intros _.
  rewrite aa55_checks_spec in E4 by lia. change (4 + 1) with 5 in E3.
  unfold wf_aa55, llen, blen in *. repeat split; lia.
Qed.

Lemma aa55_frame_len src dst t1 t2 payload : llen (aa55_frame src dst t1 t2 payload) = llen payload + 9.
Proof. unfold aa55_frame. cbv zeta. rewrite !llen_app. unfold llen. simpl List.length. lia. Qed.

Lemma aa55_accept src dst t1 t2 payload rt rtv :
  0 <= t1 < 256 -> 0 <= t2 < 256 -> llen payload <= 255 ->
  rt <> ""%string -> int_of_str rt 16 = Ok rtv -> s16 (be16 t1 t2) = rtv ->
  Aa55ProtocolCommand__validate_aa55_response (aa55_frame src dst t1 t2 payload) rt = Ok true.
Proof.
  intros H1 H2 Hl Hne Hrt Hty. rewrite aa55_unfold.
  pose proof (aa55_frame_len src dst t1 t2 payload) as Hlen. rewrite <- blen_llen in Hlen.
  pose proof (llen_nonneg payload).
  set (f := aa55_frame src dst t1 t2 payload) in *.
  replace (blen f <=? 8) with false by lia.
  rewrite !py_index_nthZ by lia. cbn [bind].
  change (nthZ f 6) with (llen payload).
  replace (blen f <? llen payload + 9) with false by lia.
  replace (blen f >? llen payload + 9) with false by lia.
  destruct (String.eqb_spec rt ""); [contradiction|]. cbn [negb].
  rewrite Hrt. cbn [bind].
  rewrite py_slice_sub by lia. change 6 with (4 + 2) at 1. rewrite sub_two by (try rewrite <- blen_llen; lia).
  change (nthZ f 4) with t1. change (nthZ f (4 + 1)) with t2.
  unfold from_bytes_big. rewrite be_signed_two by assumption. rewrite Hty, Z.eqb_refl. cbn [negb].
  rewrite aa55_checks_spec by lia.
  (* the last two bytes are the sum of everything before them *)
  unfold f, aa55_frame. cbv zeta.
  set (body := [170; 85; src; dst; t1; t2; llen payload] ++ payload).
  set (s := sum_bytes body mod 65536).
  assert (Hs : 0 <= s < 65536) by (apply Z.mod_pos_bound; lia).
  assert (Hbl : List.length (body ++ [s / 256; s mod 256]) = (List.length body + 2)%nat) by (rewrite app_length; reflexivity).
  rewrite Hbl. replace (List.length body + 2 - 2)%nat with (List.length body) by lia.
  rewrite firstn_app, firstn_all, Nat.sub_diag. cbn [firstn]. rewrite app_nil_r.
  unfold llen. rewrite Hbl. unfold nthZ.
  replace (Z.to_nat (Z.of_nat (List.length body + 2) - 2)) with (List.length body) by lia.
  replace (Z.to_nat (Z.of_nat (List.length body + 2) - 1)) with (S (List.length body)) by lia.
  rewrite !app_nth2 by lia. rewrite Nat.sub_diag. replace (S (List.length body) - List.length body)%nat with 1%nat by lia.
  cbn [nth]. fold s. unfold be16. pose proof (Z.div_mod s 256 ltac:(lia)).
  replace (s =? s / 256 * 256 + s mod 256) with true by lia. reflexivity.
Qed.

Lemma aa55_trim src dst t1 t2 payload :
  py_slice (aa55_frame src dst t1 t2 payload) (Some 7) (Some (-2)) = payload.
Proof.
  pose proof (aa55_frame_len src dst t1 t2 payload) as Hlen. rewrite <- blen_llen in Hlen.
  unfold py_slice, clamp_idx, norm_idx. pose proof (llen_nonneg payload).
  replace (7 <? 0) with false by lia. replace (-2 <? 0) with true by lia. rewrite Hlen.
  replace (Z.max 0 (Z.min (llen payload + 9) 7)) with 7 by lia.
  replace (Z.max 0 (Z.min (llen payload + 9) (-2 + (llen payload + 9)))) with (llen payload + 7) by lia.
  unfold aa55_frame. cbv zeta. change (Z.to_nat 7) with 7%nat. rewrite <- app_assoc. cbn [app skipn].
  replace (Z.to_nat (llen payload + 7 - 7)) with (List.length payload) by (unfold llen; lia).
  rewrite firstn_app, firstn_all, Nat.sub_diag. simpl. apply app_nil_r.
Qed.

Lemma aa55_partial src dst t1 t2 payload rt n :
  llen payload <= 255 -> 9 <= n < llen payload + 9 ->
  Aa55ProtocolCommand__validate_aa55_response (firstn (Z.to_nat n) (aa55_frame src dst t1 t2 payload)) rt
  = Exc (EPartial n (llen payload + 9)).
Proof.
  intros Hl Hn. rewrite aa55_unfold.
  pose proof (aa55_frame_len src dst t1 t2 payload) as HF.
  set (F := aa55_frame src dst t1 t2 payload) in *.
  set (f := firstn (Z.to_nat n) F).
  assert (Hlen : blen f = n) by (unfold f, blen; rewrite firstn_length; unfold llen in *; lia).
  assert (H6 : nthZ f 6 = llen payload).
  { transitivity (nthZ F 6); [|reflexivity]. unfold f, nthZ. rewrite <- (firstn_skipn (Z.to_nat n) F) at 2.
    rewrite app_nth1. reflexivity. rewrite firstn_length. unfold llen in *. lia. }
  replace (blen f <=? 8) with false by lia.
  rewrite !py_index_nthZ by lia. cbn [bind]. rewrite H6.
  replace (blen f <? llen payload + 9) with true by lia. rewrite Hlen. reflexivity.
Qed.

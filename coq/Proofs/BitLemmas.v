From Coq Require Import ZArith List Bool Lia.
From GW Require Import Prelude Crc16.
Import ListNotations.
Open Scope Z_scope.

Lemma land_255 x : Z.land x 255 = x mod 256.
Proof. change 255 with (Z.ones 8). rewrite Z.land_ones by lia. reflexivity. Qed.

Lemma land_255_byte x : is_byte (Z.land x 255) = true.
Proof. rewrite land_255. unfold is_byte. pose proof (Z.mod_pos_bound x 256 ltac:(lia)). lia. Qed.

Lemma shiftr_8 x : Z.shiftr x 8 = x / 256.
Proof. rewrite Z.shiftr_div_pow2 by lia. reflexivity. Qed.

Lemma shiftl_8 x : Z.shiftl x 8 = x * 256.
Proof. rewrite Z.shiftl_mul_pow2 by lia. reflexivity. Qed.

Lemma hi_lo_16 x : 0 <= x < 65536 ->
  Z.land (Z.shiftr x 8) 255 * 256 + Z.land x 255 = x.
Proof. intros H. rewrite !land_255, shiftr_8. 
  assert (x / 256 < 256) by (apply Z.div_lt_upper_bound; lia).
  assert (0 <= x / 256) by (apply Z.div_pos; lia).
  rewrite (Z.mod_small (x/256)) by lia. pose proof (Z.div_mod x 256 ltac:(lia)). lia. Qed.

Lemma hi_lo_16_mod x :
  Z.land (Z.shiftr x 8) 255 * 256 + Z.land x 255 = x mod 65536.
Proof. rewrite !land_255, shiftr_8.
  pose proof (Z.div_mod x 256 ltac:(lia)). pose proof (Z.div_mod (x/256) 256 ltac:(lia)).
  pose proof (Z.mod_pos_bound x 256 ltac:(lia)). pose proof (Z.mod_pos_bound (x/256) 256 ltac:(lia)).
  apply Z.mod_unique_pos with (q := x / 256 / 256); lia. Qed.

(* ---------- xor range ---------- *)
Lemma lxor_lt_pow2 a b n : 0 <= n -> 0 <= a < 2 ^ n -> 0 <= b < 2 ^ n -> 0 <= Z.lxor a b < 2 ^ n.
Proof.
  intros Hn Ha Hb. assert (Hnn: 0 <= Z.lxor a b) by (apply Z.lxor_nonneg; split; lia).
  split. { exact Hnn. }
  destruct (Z.eq_dec (Z.lxor a b) 0) as [->|Hz]. { apply Z.pow_pos_nonneg; lia. }
  assert (0 < Z.lxor a b) by lia.
  assert (0 < n).
  { destruct (Z.eq_dec n 0) as [->|]; [|lia]. change (2^0) with 1 in *.
    assert (a = 0) by lia. assert (b = 0) by lia. subst. simpl in Hz. congruence. }
  apply Z.log2_lt_pow2; [lia|].
  pose proof (Z.log2_lxor a b ltac:(lia) ltac:(lia)).
  assert (Z.log2 a < n). { destruct (Z.eq_dec a 0) as [->|]. simpl; lia. apply Z.log2_lt_pow2; lia. }
  assert (Z.log2 b < n). { destruct (Z.eq_dec b 0) as [->|]. simpl; lia. apply Z.log2_lt_pow2; lia. }
  lia.
Qed.

(* ---------- bitstep algebra ---------- *)
Lemma bitstep_xor a b : bitstep (Z.lxor a b) = Z.lxor (bitstep a) (bitstep b).
Proof.
  unfold bitstep. rewrite <- !Z.bit0_odd, Z.lxor_spec, Z.shiftr_lxor.
  destruct (Z.testbit a 0), (Z.testbit b 0); simpl;
    apply Z.bits_inj'; intros n Hn; rewrite ?Z.lxor_spec;
    repeat match goal with |- context [Z.testbit ?x n] => destruct (Z.testbit x n) end; reflexivity.
Qed.

Lemma iter8_xor a b : iter8 (Z.lxor a b) = Z.lxor (iter8 a) (iter8 b).
Proof. unfold iter8. rewrite !bitstep_xor. reflexivity. Qed.

Lemma bitstep_shl y k : 0 <= k -> bitstep (Z.shiftl y (Z.succ k)) = Z.shiftl y k.
Proof.
  intros Hk. unfold bitstep. rewrite <- Z.bit0_odd, Z.shiftl_spec_low by lia.
  rewrite Z.shiftr_shiftl_l by lia. f_equal. lia.
Qed.

Lemma iter8_shl8 y : iter8 (Z.shiftl y 8) = y.
Proof.
  unfold iter8.
  change 8 with (Z.succ 7). rewrite bitstep_shl by lia.
  change 7 with (Z.succ 6). rewrite bitstep_shl by lia.
  change 6 with (Z.succ 5). rewrite bitstep_shl by lia.
  change 5 with (Z.succ 4). rewrite bitstep_shl by lia.
  change 4 with (Z.succ 3). rewrite bitstep_shl by lia.
  change 3 with (Z.succ 2). rewrite bitstep_shl by lia.
  change 2 with (Z.succ 1). rewrite bitstep_shl by lia.
  change 1 with (Z.succ 0). rewrite bitstep_shl by lia.
  apply Z.shiftl_0_r.
Qed.

Lemma split_hi_lo x : x = Z.lxor (Z.shiftl (Z.shiftr x 8) 8) (Z.land x 255).
Proof.
  apply Z.bits_inj'. intros n Hn. rewrite Z.lxor_spec.
  change 255 with (Z.ones 8).
  destruct (Z.lt_ge_cases n 8) as [Hlt|Hge].
  - rewrite Z.shiftl_spec_low by lia. rewrite Z.land_spec, Z.ones_spec_low by lia.
    rewrite andb_true_r. destruct (Z.testbit x n); reflexivity.
  - rewrite Z.shiftl_spec by lia. rewrite Z.shiftr_spec by lia.
    rewrite Z.land_spec, Z.ones_spec_high by lia. rewrite andb_false_r, xorb_false_r.
    f_equal. lia.
Qed.

Lemma iter8_split x : iter8 x = Z.lxor (Z.shiftr x 8) (iter8 (Z.land x 255)).
Proof. rewrite (split_hi_lo x) at 1. rewrite iter8_xor, iter8_shl8. reflexivity. Qed.

Lemma bitstep_range x : 0 <= x < 65536 -> 0 <= bitstep x < 65536.
Proof.
  intros H. unfold bitstep.
  assert (0 <= Z.shiftr x 1 < 32768).
  { rewrite Z.shiftr_div_pow2 by lia. change (2^1) with 2. split. apply Z.div_pos; lia. apply Z.div_lt_upper_bound; lia. }
  destruct (Z.odd x); [|lia].
  change 65536 with (2^16). apply lxor_lt_pow2; [lia| |]; change (2^16) with 65536; lia.
Qed.

Lemma iter8_range x : 0 <= x < 65536 -> 0 <= iter8 x < 65536.
Proof. intros H. unfold iter8. repeat apply bitstep_range. exact H. Qed.

Lemma crc16_step_range c b : 0 <= c < 65536 -> 0 <= b < 256 -> 0 <= crc16_step c b < 65536.
Proof. intros Hc Hb. unfold crc16_step. apply iter8_range.
  change 65536 with (2^16). apply lxor_lt_pow2; [lia| |]; change (2^16) with 65536; lia. Qed.

Lemma fold_crc_range data c : Forall (fun b => 0 <= b < 256) data -> 0 <= c < 65536 ->
  0 <= fold_left crc16_step data c < 65536.
Proof. revert c. induction data as [|b tl IH]; intros c HF Hc; simpl. exact Hc.
  inversion HF; subst. apply IH; auto. apply crc16_step_range; auto. Qed.

Lemma crc16_range data : Forall (fun b => 0 <= b < 256) data -> 0 <= crc16 data < 65536.
Proof. intros. unfold crc16. apply fold_crc_range; auto. lia. Qed.

(* C03, AA55 part: the string-built AA55 requests parse back with the independent decoder. *)
From Coq Require Import ZArith List Bool Lia String Ascii.
From GW Require Import Prelude PyStr Frames PyLemmas BitLemmas CrcTable PyTac HexLemmas C03Proofs ModbusGen ProtoGen.
Import ListNotations.
Open Scope Z_scope.

Lemma hexstr_ok_header : hexstr_ok "AA55C07F" [170; 85; 192; 127].
Proof. intros rest. cbn. destruct (fromhex_l rest); reflexivity. Qed.

Lemma aa55_checksum_spec data : bytesP data -> blen data <= 257 ->
  Aa55ProtocolCommand__checksum data =
  Ok [fold_right Z.add 0 data / 256; fold_right Z.add 0 data mod 256].
Proof.
  intros H Hl. unfold Aa55ProtocolCommand__checksum. cbv zeta.
  rewrite sum_fold. rewrite Z.add_0_l. pose proof (sum_bound data H).
  rewrite to_bytes_u16 by lia. reflexivity.
Qed.

(* generic shape: header ++ body, checksum appended *)
Lemma aa55_request_shape payload body :
  hexstr_ok payload body -> bytesP body -> blen body <= 253 ->
  let pre := [170; 85; 192; 127] ++ body in
  let s := fold_right Z.add 0 pre in
  (t_1 <- fromhex ("AA55C07F" ++ payload)%string ;;
   t_2 <- Aa55ProtocolCommand__checksum t_1 ;;
   t_3 <- fromhex (("AA55C07F" ++ payload) ++ hex_of_bytes t_2)%string ;; Ok t_3)
  = Ok (pre ++ [s / 256; s mod 256]).
Proof.
  intros Hp Hb Hl pre s.
  assert (Hpre : hexstr_ok ("AA55C07F" ++ payload)%string pre) by (apply hexstr_ok_app; [apply hexstr_ok_header | exact Hp]).
  assert (Hbp : bytesP pre) by (subst pre; bytesP_solve).
  rewrite (hexstr_ok_fromhex _ _ Hpre). cbn [bind].
  rewrite aa55_checksum_spec; [| exact Hbp | subst pre; rewrite blen_app; unfold blen at 1; simpl List.length; lia].
  cbn [bind]. fold s.
  assert (Hs : 0 <= s <= 255 * blen pre) by (apply sum_bound; exact Hbp).
  assert (blen pre <= 257) by (subst pre; rewrite blen_app; unfold blen at 1; simpl List.length; lia).
  assert (Hcs : bytesP [s / 256; s mod 256]).
  { assert (0 <= s / 256 < 256) by (split; [apply Z.div_pos; lia | apply Z.div_lt_upper_bound; lia]).
    pose proof (Z.mod_pos_bound s 256 ltac:(lia)). bytesP_solve. }
  rewrite (hexstr_ok_fromhex _ (pre ++ [s / 256; s mod 256])).
  reflexivity.
  apply hexstr_ok_app; [exact Hpre | apply hexstr_ok_bytes; exact Hcs].
Qed.

Lemma hexstr_ok_lit6 a b c : forall s, s = (fmt_x 2 a ++ fmt_x 2 b ++ fmt_x 2 c)%string ->
  0 <= a < 256 -> 0 <= b < 256 -> 0 <= c < 256 -> hexstr_ok s [a; b; c].
Proof.
  intros s -> Ha Hb Hc. change [a; b; c] with ([a] ++ [b] ++ [c]).
  repeat apply hexstr_ok_app; apply hexstr_ok_byte; assumption.
Qed.

Lemma div_mod_bytes v : 0 <= v < 65536 -> 0 <= v / 256 < 256 /\ 0 <= v mod 256 < 256.
Proof. intros H. split. split; [apply Z.div_pos; lia | apply Z.div_lt_upper_bound; lia]. apply Z.mod_pos_bound; lia. Qed.

Lemma cs_be16 s : 0 <= s < 65536 -> s mod 65536 = be16 (s / 256) (s mod 256).
Proof. intros H. rewrite Z.mod_small by lia. unfold be16. pose proof (Z.div_mod s 256 ltac:(lia)). lia. Qed.


Ltac close_checksum :=
  unfold llen; cbn [List.length];
  match goal with |- context [(?n =? Z.of_nat ?m) && _] => change (n =? Z.of_nat m) with true end;
  cbn [andb sum_bytes fold_right];
  match goal with |- context [?a mod 65536 =? be16 (?s / 256) (?s mod 256)] =>
    let H := fresh in
    assert (H : a = s) by (cbn [fold_right]; lia); rewrite H; clear H;
    let Hb := fresh in
    assert (Hb : 0 <= s < 65536) by (cbn [fold_right]; lia);
    rewrite (cs_be16 s Hb); rewrite Z.eqb_refl; reflexivity
  end.

(* ---- read ---- *)
Lemma aa55_read_parses offset count : 0 <= offset < 65536 -> 0 <= count < 256 ->
  exists f, Aa55ReadCommand_request offset count = Ok f /\
            parse_aa55_req f = Some {| aq_type := 282; aq_payload := [offset / 256; offset mod 256; count] |}.
Proof.
  intros Ho Hc. unfold Aa55ReadCommand_request.
  destruct (div_mod_bytes offset Ho) as [Hh Hl].
  assert (Hp : hexstr_ok ("011A03" ++ fmt_x 4 offset ++ fmt_x 2 count)%string
                         ([1; 26; 3] ++ [offset / 256; offset mod 256] ++ [count])).
  { apply hexstr_ok_app. { intros rest. cbn. destruct (fromhex_l rest); reflexivity. }
    apply hexstr_ok_app. apply hexstr_ok_x4; assumption. apply hexstr_ok_byte; assumption. }
  rewrite (aa55_request_shape _ _ Hp); [| cbn [app]; bytesP_solve | unfold blen; simpl; lia].
  eexists. split. reflexivity.
  cbn [app parse_aa55_req List.length Nat.ltb Nat.leb Nat.sub firstn skipn].
  close_checksum.
Qed.

(* ---- write single ---- *)
Lemma land_65535 v : Z.land v 65535 = v mod 65536.
Proof. change 65535 with (Z.ones 16). rewrite Z.land_ones by lia. reflexivity. Qed.

Lemma aa55_write_parses register value : 0 <= register < 65536 -> -32768 <= value < 65536 ->
  exists f, Aa55WriteCommand_request register value = Ok f /\
            parse_aa55_req f = Some {| aq_type := 569;
              aq_payload := [register / 256; register mod 256; 1; u16 value / 256; u16 value mod 256] |}.
Proof.
  intros Hr Hv. unfold Aa55WriteCommand_request. rewrite !land_65535. fold (u16 value).
  assert (Hu : 0 <= u16 value < 65536) by (unfold u16; apply Z.mod_pos_bound; lia).
  destruct (div_mod_bytes register Hr) as [Hh Hl]. destruct (div_mod_bytes (u16 value) Hu) as [Hvh Hvl].
  assert (Hp : hexstr_ok ("023905" ++ fmt_x 4 register ++ "01" ++ fmt_x 4 (u16 value))%string
                         ([2; 57; 5] ++ [register / 256; register mod 256] ++ [1] ++ [u16 value / 256; u16 value mod 256])).
  { apply hexstr_ok_app. { intros rest. cbn. destruct (fromhex_l rest); reflexivity. }
    apply hexstr_ok_app. apply hexstr_ok_x4; assumption.
    apply hexstr_ok_app. { intros rest. cbn. destruct (fromhex_l rest); reflexivity. }
    apply hexstr_ok_x4; assumption. }
  rewrite (aa55_request_shape _ _ Hp); [| cbn [app]; bytesP_solve | unfold blen; simpl; lia].
  eexists. split. reflexivity.
  cbn [app parse_aa55_req List.length Nat.ltb Nat.leb Nat.sub firstn skipn].
  close_checksum.
Qed.

(* ---- write multi (8 byte groups, the only payload size the library sends over AA55) ---- *)
Lemma aa55_write_multi_parses offset values : 0 <= offset < 65536 -> bytesP values -> blen values = 8 ->
  exists f, Aa55WriteMultiCommand_request offset values = Ok f /\
            parse_aa55_req f = Some {| aq_type := 569; aq_payload := [offset / 256; offset mod 256; 8] ++ values |}.
Proof.
  intros Ho Hv Hl. unfold Aa55WriteMultiCommand_request. rewrite Hl.
  destruct values as [|v1 [|v2 [|v3 [|v4 [|v5 [|v6 [|v7 [|v8 [|]]]]]]]]]; try (unfold blen in Hl; simpl in Hl; lia).
  destruct (div_mod_bytes offset Ho) as [Hh Hlo].
  assert (Hp : hexstr_ok ("02390B" ++ fmt_x 4 offset ++ fmt_x 2 8 ++ hex_of_bytes [v1;v2;v3;v4;v5;v6;v7;v8])%string
                         ([2; 57; 11] ++ [offset / 256; offset mod 256] ++ [8] ++ [v1;v2;v3;v4;v5;v6;v7;v8])).
  { apply hexstr_ok_app. { intros rest. cbn. destruct (fromhex_l rest); reflexivity. }
    apply hexstr_ok_app. apply hexstr_ok_x4; assumption.
    apply hexstr_ok_app. apply hexstr_ok_byte; lia. apply hexstr_ok_bytes; assumption. }
  rewrite (aa55_request_shape _ _ Hp); [| cbn [app]; bytesP_solve; lia | unfold blen; simpl; lia].
  eexists. split. reflexivity.
  cbn [app parse_aa55_req List.length Nat.ltb Nat.leb Nat.sub firstn skipn].
  inversion Hv as [|? ? B1 Hv1]; subst. inversion Hv1 as [|? ? B2 Hv2]; subst. inversion Hv2 as [|? ? B3 Hv3]; subst.
  inversion Hv3 as [|? ? B4 Hv4]; subst. inversion Hv4 as [|? ? B5 Hv5]; subst. inversion Hv5 as [|? ? B6 Hv6]; subst.
  inversion Hv6 as [|? ? B7 Hv7]; subst. inversion Hv7 as [|? ? B8 Hv8]; subst.
  close_checksum.
Qed.

(* C03: requests built by the (generated) builders parse back, with an independent decoder,
   to exactly the intended operation. *)
From Coq Require Import ZArith List Bool Lia String.
From GW Require Import Prelude PyStr Crc16 Frames BitLemmas PyLemmas CrcTable PyTac ModbusGen ProtoGen.
Import ListNotations.
Open Scope Z_scope.

Definition hi8 (x : Z) : Z := Z.land (Z.shiftr x 8) 255.
Definition lo8 (x : Z) : Z := Z.land x 255.

Lemma crc_hi_lo body : bytesP body -> lo8 (crc16 body) + 256 * hi8 (crc16 body) = crc16 body.
Proof. intros H. pose proof (crc16_range body H) as Hc. pose proof (hi_lo_16 _ Hc). unfold hi8, lo8. lia. Qed.

(* ---------- Modbus RTU, single register ---------- *)
Lemma rtu_request_shape a fn reg v :
  is_byte a = true -> is_byte fn = true ->
  create_modbus_rtu_request a fn reg v =
  let body := [a; fn; hi8 reg; lo8 reg; hi8 v; lo8 v] in
  Ok (body ++ [lo8 (crc16 body); hi8 (crc16 body)]).
Proof.
  intros Ha Hf. unfold create_modbus_rtu_request, hi8, lo8. cbv zeta.
  change (bytearray 6) with [0;0;0;0;0;0].
  do 6 py_set.
  rewrite modbus_checksum_spec by (apply is_byte_iff in Ha, Hf; bytesP_solve).
  cbn [bind]. do 2 py_app. reflexivity.
Qed.

Lemma rtu_request_parses a fn reg v :
  is_byte a = true -> is_byte fn = true -> 0 <= reg < 65536 -> -32768 <= v < 65536 ->
  exists f, create_modbus_rtu_request a fn reg v = Ok f /\
            parse_rtu_req f = Some {| rq_addr := a; rq_fn := fn; rq_reg := reg; rq_val := u16 v |}.
Proof.
  intros Ha Hf Hr Hv. rewrite rtu_request_shape by assumption. cbv zeta.
  eexists. split. reflexivity.
  cbn [app parse_rtu_req].
  rewrite crc_hi_lo by (apply is_byte_iff in Ha, Hf; unfold hi8, lo8; bytesP_solve).
  rewrite Z.eqb_refl. unfold be16, u16, hi8, lo8. rewrite hi_lo_16 by lia. rewrite hi_lo_16_mod. reflexivity.
Qed.

(* ---------- Modbus RTU, multiple registers ---------- *)
Lemma firstn_app_exact {A} (a b : list A) n : n = List.length a -> firstn n (a ++ b) = a.
Proof. intros ->. rewrite firstn_app, Nat.sub_diag, firstn_all. simpl. apply app_nil_r. Qed.
Lemma skipn_app_exact {A} (a b : list A) n : n = List.length a -> skipn n (a ++ b) = b.
Proof. intros ->. rewrite skipn_app, Nat.sub_diag, skipn_all. reflexivity. Qed.

Lemma rtu_multi_shape a fn reg values :
  is_byte a = true -> is_byte fn = true -> bytesP values -> blen values < 256 ->
  create_modbus_rtu_multi_request a fn reg values =
  let body := [a; fn; hi8 reg; lo8 reg; 0; blen values / 2; blen values] ++ values in
  Ok (body ++ [lo8 (crc16 body); hi8 (crc16 body)]).
Proof.
  intros Ha Hf Hv Hl. unfold create_modbus_rtu_multi_request, hi8, lo8. cbv zeta.
  change (bytearray 7) with [0;0;0;0;0;0;0].
  pose proof (blen_nonneg values).
  assert (0 <= blen values / 2 < 256) by (split; [apply Z.div_pos; lia | apply Z.div_lt_upper_bound; lia]).
  do 7 py_set.
  rewrite modbus_checksum_spec by (apply is_byte_iff in Ha, Hf; bytesP_solve).
  cbn [bind]. rewrite py_append_ok by byte_side. cbn [bind]. rewrite py_append_ok by byte_side. cbn [bind].
  rewrite <- !app_assoc. reflexivity.
Qed.

Lemma rtu_multi_parses a fn reg values :
  is_byte a = true -> is_byte fn = true -> 0 <= reg < 65536 ->
  bytesP values -> 2 <= blen values <= 246 -> blen values mod 2 = 0 ->
  exists f, create_modbus_rtu_multi_request a fn reg values = Ok f /\
            parse_rtu_multi_req f = Some {| mq_addr := a; mq_fn := fn; mq_reg := reg;
                                            mq_count := blen values / 2; mq_bytecount := blen values;
                                            mq_payload := values |}.
Proof.
  intros Ha Hf Hr Hv Hl He. rewrite rtu_multi_shape by (auto; lia). cbv zeta.
  eexists. split. reflexivity.
  set (crc := crc16 _).
  cbn [app parse_rtu_multi_req].
  rewrite app_length. cbn [List.length].
  replace (Nat.ltb (List.length values + 2) 2) with false by (symmetry; apply Nat.ltb_ge; lia).
  replace (List.length values + 2 - 2)%nat with (List.length values) by lia.
  rewrite firstn_app_exact, skipn_app_exact by reflexivity.
  subst crc. cbn [app].
  assert (0 <= blen values / 2 < 256) by (split; [apply Z.div_pos; lia | apply Z.div_lt_upper_bound; lia]).
  rewrite crc_hi_lo by (apply is_byte_iff in Ha, Hf; unfold hi8, lo8; bytesP_solve).
  rewrite Z.eqb_refl. unfold be16, hi8, lo8. rewrite hi_lo_16 by lia. f_equal.
Qed.

(* ---------- Modbus/TCP ---------- *)
Lemma tcp_request_shape a fn reg v :
  is_byte a = true -> is_byte fn = true ->
  create_modbus_tcp_request a fn reg v = Ok [0; 1; 0; 0; 0; 6; a; fn; hi8 reg; lo8 reg; hi8 v; lo8 v].
Proof.
  intros Ha Hf. unfold create_modbus_tcp_request, hi8, lo8. cbv zeta.
  change (bytearray 12) with [0;0;0;0;0;0;0;0;0;0;0;0].
  do 12 py_set. reflexivity.
Qed.

Lemma tcp_multi_shape a fn reg values :
  is_byte a = true -> is_byte fn = true -> blen values <= 248 ->
  create_modbus_tcp_multi_request a fn reg values =
  Ok ([0; 1; 0; 0; 0; 7 + blen values; a; fn; hi8 reg; lo8 reg; 0; blen values / 2; blen values] ++ values).
Proof.
  intros Ha Hf Hl. unfold create_modbus_tcp_multi_request, hi8, lo8. cbv zeta.
  change (bytearray 13) with [0;0;0;0;0;0;0;0;0;0;0;0;0].
  pose proof (blen_nonneg values).
  assert (0 <= blen values / 2 < 256) by (split; [apply Z.div_pos; lia | apply Z.div_lt_upper_bound; lia]).
  do 13 py_set. reflexivity.
Qed.

(* ---------- transaction identifier ---------- *)
Definition next_id (tx : Z) : Z := if tx + 1 =? 65535 then 1 else tx + 1.

Lemma to_bytes_u16 v : 0 <= v < 65536 -> to_bytes_big v 2 false = Ok [v / 256; v mod 256].
Proof.
  intros H. unfold to_bytes_big. change (2 ^ (8 * 2)) with 65536.
  replace ((0 <=? v) && (v <? 65536)) with true by lia.
  change (Z.to_nat 2) with 2%nat. cbn [be_digits]. change (256 ^ Z.of_nat 1) with 256. change (256 ^ Z.of_nat 0) with 1.
  rewrite Z.div_1_r. rewrite (Z.mod_small (v / 256)). reflexivity.
  split. apply Z.div_pos; lia. apply Z.div_lt_upper_bound; lia.
Qed.

Lemma next_tx_spec tx : 0 <= tx <= 65534 ->
  _next_tx tx = Ok ([next_id tx / 256; next_id tx mod 256], next_id tx) /\
  1 <= next_id tx <= 65534 /\ next_id tx <> tx.
Proof.
  intros H. unfold _next_tx, next_id. cbv zeta.
  destruct (tx + 1 =? 65535) eqn:E.
  - rewrite to_bytes_u16 by lia. cbn [bind]. repeat split; lia.
  - rewrite to_bytes_u16 by lia. cbn [bind]. repeat split; lia.
Qed.

Fixpoint tx_history (n : nat) (tx : Z) : res (list Z) :=
  match n with
  | O => Ok []
  | S k => '(b, tx') <- _next_tx tx ;; r <- tx_history k tx' ;; Ok (be_unsigned b :: r)
  end.

Fixpoint adjacent_distinct (l : list Z) : Prop :=
  match l with
  | a :: ((b :: _) as tl) => a <> b /\ adjacent_distinct tl
  | _ => True
  end.

Lemma tx_history_spec n : forall tx0, 0 <= tx0 <= 65534 ->
  exists l, tx_history n tx0 = Ok l /\ List.length l = n /\
            Forall (fun t => 1 <= t <= 65534) l /\ adjacent_distinct (tx0 :: l).
Proof.
  induction n as [|n IH]; intros tx0 H; cbn [tx_history].
  - exists []. repeat split; constructor.
  - destruct (next_tx_spec tx0 H) as (E & Hr & Hd). rewrite E. cbn [bind].
    destruct (IH (next_id tx0) ltac:(lia)) as (l & El & Hl & HF & HA). rewrite El. cbn [bind].
    eexists. split. reflexivity.
    assert (Hbe : be_unsigned [next_id tx0 / 256; next_id tx0 mod 256] = next_id tx0).
    { unfold be_unsigned. cbn [fold_left]. pose proof (Z.div_mod (next_id tx0) 256 ltac:(lia)). lia. }
    rewrite Hbe. split. simpl; lia. split. constructor; auto. split; auto.
Qed.

Lemma tcp_wire_parses a fn reg v tx :
  is_byte a = true -> is_byte fn = true -> 0 <= reg < 65536 -> -32768 <= v < 65536 -> 0 <= tx <= 65534 ->
  exists f0 wire self',
    create_modbus_tcp_request a fn reg v = Ok f0 /\
    ModbusTcpProtocolCommand_request_bytes (mk_pcmd f0 reg v) tx = Ok (wire, self', next_id tx) /\
    c_request self' = wire /\
    parse_mbap wire = Some {| tq_tx := next_id tx; tq_proto := 0; tq_len := 6;
                              tq_body := [a; fn; hi8 reg; lo8 reg; hi8 v; lo8 v] |} /\
    be16 (hi8 reg) (lo8 reg) = reg /\ be16 (hi8 v) (lo8 v) = u16 v.
Proof.
  intros Ha Hf Hr Hv Ht. rewrite tcp_request_shape by assumption.
  unfold ModbusTcpProtocolCommand_request_bytes.
  destruct (next_tx_spec tx Ht) as (E & Hrg & Hd). rewrite E. cbn [bind c_request].
  do 3 eexists. split. reflexivity. split. reflexivity. split. reflexivity.
  split.
  - unfold py_slice. cbn. unfold be16.
    pose proof (Z.div_mod (next_id tx) 256 ltac:(lia)).
    replace (next_id tx / 256 * 256 + next_id tx mod 256) with (next_id tx) by lia. reflexivity.
  - unfold be16, hi8, lo8, u16. rewrite hi_lo_16 by lia. rewrite hi_lo_16_mod. split; reflexivity.
Qed.

(* C18: reachability over the GENERATED call graph (Gen/CallGen.v): the monitoring API constructs read commands only. *)
From Coq Require Import List String Bool.
From GW Require Import CallGen.
Import ListNotations.

Definition graph := list (string * (list string * list ckind)).

Fixpoint lookup (g : graph) (m : string) : option (list string * list ckind) :=
  match g with [] => None | (n, x) :: tl => if String.eqb n m then Some x else lookup tl m end.

(* methods reachable from a set of methods, by iterating the call relation |g| times *)
Fixpoint reach (fuel : nat) (g : graph) (ms : list string) : list string :=
  match fuel with
  | O => ms
  | S n => reach n g (ms ++ flat_map (fun m => match lookup g m with Some (cs, _) => filter (fun c => negb (existsb (String.eqb c) ms)) cs | None => [] end) ms)
  end.

Definition kinds_reached (g : graph) (m : string) : list ckind :=
  flat_map (fun x => match lookup g x with Some (_, ks) => ks | None => [] end) (reach (List.length g) g [m]).

Definition only_reads (ks : list ckind) : bool := forallb (fun k => match k with CkRead => true | _ => false end) ks.

Definition read_only_api : list string :=
  ["read_device_info"; "read_runtime_data"; "read_sensor"; "read_setting"; "read_settings_data"; "get_grid_export_limit";
   "get_operation_mode"; "get_operation_modes"; "get_ongrid_battery_dod"; "sensors"; "settings"]%string.

Definition api_read_only (g : graph) : bool :=
  forallb (fun m => match lookup g m with Some _ => only_reads (kinds_reached g m) | None => false end) read_only_api.

Lemma monitoring_api_constructs_reads_only : api_read_only ET_graph = true /\ api_read_only DT_graph = true /\ api_read_only ES_graph = true.
Proof. vm_compute. repeat split; reflexivity. Qed.

(* connect / discover only call read_device_info / read_runtime_data and execute read commands *)
Lemma entry_points_read_only :
  forallb (fun m => existsb (String.eqb m) ["read_device_info"; "read_runtime_data"; "execute"]%string) (fst entry_connect ++ fst entry_discover) = true /\
  only_reads (snd entry_connect ++ snd entry_discover) = true.
Proof. vm_compute. split; reflexivity. Qed.

(* non-vacuity: the setters do reach write commands in the same graph *)
Lemma setters_reach_writes :
  existsb (fun k => match k with CkWrite => true | _ => false end) (kinds_reached ET_graph "write_setting") = true /\
  existsb (fun k => match k with CkWrite => true | _ => false end) (kinds_reached ES_graph "set_operation_mode") = true /\
  existsb (fun k => match k with CkWrite => true | _ => false end) (kinds_reached DT_graph "set_grid_export_limit") = true.
Proof. vm_compute. repeat split; reflexivity. Qed.

(* The event-loop callbacks and synchronous helpers of goodwe/protocol.py, as TRANSLATED from the current source
   (Gen/CallbackGen.v, tools/cb2v.py), are exactly the hand-written functions of Model/Proto.v: for every state and every
   input, interpreting the generated program (Model/Callbacks.v) gives the model function's result.  Re-proved on every run. *)
From Coq Require Import List Bool Arith Lia.
From RecordUpdate Require Import RecordSet.
From GW Require Import Proto Callbacks CallbackGen.
Import ListNotations RecordSetNotations.

Definition callee (m : meth) : st -> st := match m with MCloseTransport => close_transport end.
Definition runm := run_method callee error_received.
Definition execb := exec_block callee error_received.

Lemma timer_none_eta s : s_timer s = None -> s <| s_timer := None |> = s.
Proof. destruct s. cbn. intros ->. reflexivity. Qed.

(* ---------------------------------------------------------------- _close_transport *)
Theorem close_transport_refined s l : execb cb_close_transport s l = (close_transport s, l, [], XNormal).
Proof.
  unfold execb, cb_close_transport, close_transport. cbn -[tr_close complete pending].
  destruct (s_transport s) as [t|] eqn:Et; cbn -[tr_close complete pending]; rewrite ?Et; cbn -[tr_close complete pending].
  - destruct (s_fut (tr_close s t)) as [f|] eqn:Ef; cbn -[tr_close complete pending]; rewrite ?Ef; cbn -[tr_close complete pending]; auto.
    destruct (pending _ f) eqn:Ep; cbn -[tr_close complete pending]; rewrite ?Ef, ?Ep; reflexivity.
  - destruct (s_fut s) as [f|] eqn:Ef; cbn -[tr_close complete pending]; rewrite ?Ef; cbn -[tr_close complete pending]; auto.
    destruct (pending s f) eqn:Ep; cbn -[tr_close complete pending]; rewrite ?Ef, ?Ep; reflexivity.
Qed.

Ltac crunch := cbn -[tr_close complete pending close_transport cancel_timer arm_timer push error_received Nat.eqb Nat.sub].

(* ---------------------------------------------------------------- _max_retries_reached *)
Lemma set_nth_snoc {A} (l : list A) x v : set_nth (length l) v (l ++ [x]) = l ++ [v].
Proof. induction l as [|y l IH]; cbn; auto. rewrite IH. reflexivity. Qed.

Lemma nth_snoc_len {A} (l : list A) x d : nth (length l) (l ++ [x]) d = x.
Proof. rewrite app_nth2, Nat.sub_diag by auto. reflexivity. Qed.

(* (no task awaits a future that does not exist yet: true of every reachable state) *)
Theorem max_retries_refined s l :
  awaiting (length (s_futs (close_transport s))) (s_tasks (close_transport s)) = None ->
  execb cb_max_retries_reached s l = (fst (max_retries s), l, [], XReturn).
Proof.
  intros Hfresh. unfold execb, cb_max_retries_reached, max_retries. crunch.
  set (s1 := close_transport s) in *.
  unfold fut_set. crunch. unfold pending, fstat_of. crunch. rewrite nth_snoc_len. crunch.
  unfold complete. crunch. rewrite Hfresh, set_nth_snoc. reflexivity.
Qed.

(* ---------------------------------------------------------------- datagram_received / data_received *)
Definition rx_locals (id len : nat) (v : verdict) : locals := locals0 <| l_data := [id] |> <| l_dlen := len |> <| l_verdict := v |>.

Lemma andb_swap a b : a && b = b && a. Proof. apply andb_comm. Qed.

Ltac crunch2 := cbn -[tr_close complete close_transport error_received remove_nat nth awaiting Nat.eqb Nat.sub Nat.add].

Ltac small x :=
  match x with
  | s_timer _ => idtac | s_partial _ => idtac | s_fut _ => idtac | s_transport _ => idtac | s_kind _ => idtac | s_cmd _ => idtac
  | nth _ _ _ => idtac | Nat.eqb _ _ => idtac | s_sends _ => idtac | andb _ _ => idtac | negb _ => idtac
  | _ => is_var x
  end.

Ltac split_small :=
  match goal with
  | |- context [match ?x with _ => _ end] => small x; let E := fresh "E" in destruct x eqn:E
  | |- context [if ?x then _ else _] => small x; let E := fresh "E" in destruct x eqn:E
  end.

Lemma complete_kind s f v : s_kind (complete s f v) = s_kind s.
Proof. unfold complete. cbv zeta. destruct (awaiting _ _); reflexivity. Qed.
Lemma complete_fut s f v : s_fut (complete s f v) = s_fut s.
Proof. unfold complete. cbv zeta. destruct (awaiting _ _); reflexivity. Qed.
Lemma tr_close_fut s t : s_fut (tr_close s t) = s_fut s.
Proof. unfold tr_close. destruct (tstate_of s t); reflexivity. Qed.
Lemma tr_close_futs s t : s_futs (tr_close s t) = s_futs s.
Proof. unfold tr_close. destruct (tstate_of s t); reflexivity. Qed.

Ltac use_eqs := repeat match goal with H : ?x = _ |- context [?x] => small x; rewrite H end.
Ltac norm := repeat (crunch2; unfold cancel_timer, arm_timer, push, fut_set, pending, fstat_of, ghost, stored_exn, do_sendto; rewrite ?complete_kind, ?complete_fut, ?tr_close_fut, ?tr_close_futs; use_eqs); crunch2.
Ltac solve_refine := repeat (norm; try reflexivity; split_small); norm; try reflexivity; try (exfalso; cbn in *; congruence).

Theorem udp_datagram_received_refined s id len v : s_kind s = UDP -> s_cmd s = true ->
  runm udp_datagram_received s (rx_locals id len v) = received s id len v.
Proof.
  intros Hk Hc. unfold runm, run_method, udp_datagram_received, received, rx_locals, execb, fut_set, pending, fstat_of, cancel_timer, arm_timer, push. rewrite Hc, Hk.
  solve_refine.
  all: try (rewrite timer_none_eta by assumption; solve_refine).
Qed.

Theorem tcp_data_received_refined s id len v : s_kind s = TCP -> s_cmd s = true ->
  runm tcp_data_received s (rx_locals id len v) = received s id len v.
Proof.
  intros Hk Hc. unfold runm, run_method, tcp_data_received, received, rx_locals, execb. rewrite Hc, Hk.
  solve_refine.
Qed.

(* ---------------------------------------------------------------- _timeout_mechanism *)
Theorem udp_timeout_mechanism_refined s l : s_kind s = UDP -> runm udp_timeout_mechanism s l = timeout_mechanism s.
Proof.
  intros Hk. unfold runm, run_method, udp_timeout_mechanism, timeout_mechanism, execb. rewrite Hk.
  solve_refine.
  all: try (rewrite timer_none_eta by assumption; solve_refine).
Qed.

Theorem tcp_timeout_mechanism_refined s l : s_kind s = TCP -> runm tcp_timeout_mechanism s l = timeout_mechanism s.
Proof.
  intros Hk. unfold runm, run_method, tcp_timeout_mechanism, timeout_mechanism, execb. rewrite Hk.
  solve_refine.
  all: try (rewrite timer_none_eta by assumption; solve_refine).
Qed.

(* ---------------------------------------------------------------- error_received *)
Theorem udp_error_received_refined s l : l_arg l = XOSError -> runm udp_error_received s l = error_received s.
Proof.
  intros Ha. unfold runm, run_method, udp_error_received, execb. unfold error_received at 2. destruct l; cbn in Ha; subst.
  solve_refine.
Qed.

Theorem tcp_error_received_refined s l : l_arg l = XOSError -> runm tcp_error_received s l = error_received s.
Proof.
  intros Ha. unfold runm, run_method, tcp_error_received, execb. unfold error_received at 2. destruct l; cbn in Ha; subst.
  solve_refine.
Qed.

(* ---------------------------------------------------------------- connection_made / connection_lost / eof_received *)
Definition conn_made_prog (k : kind) := match k with UDP => udp_connection_made | TCP => tcp_connection_made end.
Definition conn_lost_prog (k : kind) := match k with UDP => udp_connection_lost | TCP => tcp_connection_lost end.

(* run_cb (CbConnMade t) = the transport becomes established, then protocol.connection_made(transport) *)
Theorem connection_made_refined s t l : l_transport l = t ->
  run_cb s (CbConnMade t) =
  runm (conn_made_prog (s_kind s)) (match tstate_of s t with TNew => s <| s_tr := set_nth t TUp (s_tr s) |> | _ => s end) l.
Proof.
  intros Ht. destruct l; cbn in Ht; subst. unfold runm, run_method, conn_made_prog, udp_connection_made, tcp_connection_made, execb. cbn [run_cb].
  destruct (tstate_of s t); solve_refine.
Qed.

(* run_cb (CbConnLost t) = the transport is gone, then protocol.connection_lost(exc) (+ the bookkeeping action AClose) *)
Theorem connection_lost_refined s t l : tstate_of s t = TClosing ->
  run_cb s (CbConnLost t) = (fst (runm (conn_lost_prog (s_kind s)) (s <| s_tr := set_nth t TGone (s_tr s) |>) l), [AClose t]) /\
  snd (runm (conn_lost_prog (s_kind s)) (s <| s_tr := set_nth t TGone (s_tr s) |>) l) = [].
Proof.
  intros Ht. unfold runm, run_method, conn_lost_prog, udp_connection_lost, tcp_connection_lost, execb. cbn [run_cb]. rewrite Ht.
  destruct (s_kind s); split; solve_refine.
Qed.

(* eof on a TCP connection: protocol.eof_received(), then the transport closes itself *)
Theorem eof_received_refined s t l : tstate_of s t = TUp ->
  run_cb s (CbRead t IoEof) = (tr_close (fst (runm tcp_eof_received s l)) t, []) /\ snd (runm tcp_eof_received s l) = [].
Proof.
  intros Ht. unfold runm, run_method, tcp_eof_received, execb. cbn [run_cb]. rewrite Ht. split; solve_refine.
Qed.


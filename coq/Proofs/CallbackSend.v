(* Refinement of the synchronous part of a transmission (continued from CallbackRefine.v). *)
From Coq Require Import List Bool Arith Lia.
From RecordUpdate Require Import RecordSet.
From GW Require Import Proto Callbacks CallbackGen CallbackRefine.
Import ListNotations RecordSetNotations.

(* ---------------------------------------------------------------- _send_request (the synchronous part of a transmission) *)
Definition send_prog (k : kind) := match k with UDP => udp_send_request_sync | TCP => tcp_send_request_sync end.

Lemma send_sync_exec s0 l : execb (send_prog (s_kind s0)) s0 l =
  (arm_timer (cancel_timer (fst (do_sendto error_received (s0 <| s_cmd := true |> <| s_fut := Some (l_fut l) |> <| s_partial := None |>) l))), l,
   snd (do_sendto error_received (s0 <| s_cmd := true |> <| s_fut := Some (l_fut l) |> <| s_partial := None |>) l), XNormal).
Proof.
  unfold execb, send_prog, udp_send_request_sync, tcp_send_request_sync.
  destruct (s_kind s0); cbn -[do_sendto cancel_timer arm_timer];
    destruct (do_sendto error_received _ l) as [s2 a]; cbn -[cancel_timer arm_timer];
    unfold cancel_timer; destruct (s_timer s2); cbn; rewrite ?app_nil_r; reflexivity.
Qed.

Lemma do_send_unfold s k d t :
  do_send s k d t =
  let f := length (s_futs s) in
  let l := locals0 <| l_transport := t |> <| l_fut := f |> <| l_task := k |> in
  let r := do_sendto error_received (s <| s_futs := s_futs s ++ [FPending] |> <| s_fut := Some f |> <| s_cmd := true |> <| s_partial := None |>) l in
  let s4 := arm_timer (cancel_timer (fst r)) in
  match fstat_of s4 f with
  | FPending => (set_pc (upd_task s4 k (fun tk => tk <| t_depth := d |>)) k (PcAwait f), snd r, None)
  | FExc e => (s4, snd r, Some (RRaise e))
  | FCancelled => (s4, snd r, Some (RRaise XCancelled))
  | FResult _ => (s4, snd r, Some (RFut f))
  end.
Proof.
  unfold do_send, do_sendto. cbv zeta. cbn [l_transport l_fut l_task locals0 set eta_locals].
  set (s1 := s <| s_futs := _ |> <| s_fut := _ |> <| s_cmd := true |> <| s_partial := None |>).
  cbn [s_sends s_sent s_nsend set eta_st].
  change (s_sends (s1 <| s_sent := t :: s_sent s1 |> <| s_nsend := S (s_nsend s1) |>)) with (s_sends s1).
  destruct (s_sends s1) as [|[|] tl]; cbn [fst snd]; try reflexivity.
  set (s2 := _ <| s_sends := tl |>). change (s_kind s2) with (s_kind s1).
  destruct (s_kind s1); cbn [fst snd]; try reflexivity.
Qed.

(* do_send = `response_future = loop.create_future()` (in the coroutine), then self._send_request(command, response_future),
   then the coroutine looks at the future *)
Theorem do_send_refined s k d t :
  do_send s k d t =
  let f := length (s_futs s) in
  let l := locals0 <| l_transport := t |> <| l_fut := f |> <| l_task := k |> in
  match execb (send_prog (s_kind s)) (s <| s_futs := s_futs s ++ [FPending] |>) l with
  | (s', _, acts, _) =>
      match fstat_of s' f with
      | FPending => (set_pc (upd_task s' k (fun tk => tk <| t_depth := d |>)) k (PcAwait f), acts, None)
      | FExc e => (s', acts, Some (RRaise e))
      | FCancelled => (s', acts, Some (RRaise XCancelled))
      | FResult _ => (s', acts, Some (RFut f))
      end
  end.
Proof.
  cbv zeta. change (s_kind s) with (s_kind (s <| s_futs := s_futs s ++ [FPending] |>)). rewrite send_sync_exec.
  rewrite do_send_unfold. cbv zeta. reflexivity.
Qed.

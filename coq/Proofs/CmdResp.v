(* The validators of the command classes (constructor flows generated from goodwe/protocol.py):
   every command class hands its own arguments to the right validator, in the right slots. *)
From Coq Require Import ZArith List Bool Lia String ZifyBool.
From GW Require Import Prelude PyStr PyLemmas Crc16 Frames Responses BitLemmas ModbusGen CrcTable RespLemmas
  RtuResp TcpResp Aa55Resp ProtoGen.
Import ListNotations.
Open Scope Z_scope.

Lemma bind_ret {A} (m : res A) : (t <- m ;; Ok t) = m.
Proof. destruct m; reflexivity. Qed.

Lemma rt_019A : int_of_str "019A" 16 = Ok 410. Proof. reflexivity. Qed.
Lemma rt_02B9 : int_of_str "02B9" 16 = Ok 697. Proof. reflexivity. Qed.

Lemma half_count (values : list Z) : 2 <= blen values <= 246 -> 1 <= blen values / 2 <= 125.
Proof. intros H. split. apply Z.div_le_lower_bound; lia. apply Z.div_le_upper_bound; lia. Qed.

(* ---------------- C01: soundness per command class ---------------- *)
Lemma cmd_rtu_read_sound a off cnt d : bytesP d -> 1 <= cnt <= 125 ->
  ModbusRtuReadCommand_validator a off cnt d = Ok true -> wf_rtu_read cnt d.
Proof. unfold ModbusRtuReadCommand_validator. rewrite bind_ret. apply rtu_sound_read. Qed.

Lemma cmd_rtu_write_sound a reg v d : bytesP d ->
  ModbusRtuWriteCommand_validator a reg v d = Ok true -> wf_rtu_write 6 reg v d.
Proof. unfold ModbusRtuWriteCommand_validator. rewrite bind_ret. intros. apply rtu_sound_write; auto. Qed.

Lemma cmd_rtu_write_multi_sound a off values d : bytesP d ->
  ModbusRtuWriteMultiCommand_validator a off values d = Ok true -> wf_rtu_write 16 off (blen values / 2) d.
Proof. unfold ModbusRtuWriteMultiCommand_validator. rewrite bind_ret. intros. apply rtu_sound_write; auto. Qed.

Lemma cmd_tcp_read_sound a off cnt d : bytesP d -> 1 <= cnt <= 125 ->
  ModbusTcpReadCommand_validator a off cnt d = Ok true -> wf_tcp_read cnt d.
Proof. unfold ModbusTcpReadCommand_validator. rewrite bind_ret. apply tcp_sound_read. Qed.

Lemma cmd_tcp_write_sound a reg v d : bytesP d ->
  ModbusTcpWriteCommand_validator a reg v d = Ok true -> wf_tcp_write 6 reg v d.
Proof. unfold ModbusTcpWriteCommand_validator. rewrite bind_ret. intros. apply tcp_sound_write; auto. Qed.

Lemma cmd_tcp_write_multi_sound a off values d : bytesP d ->
  ModbusTcpWriteMultiCommand_validator a off values d = Ok true -> wf_tcp_write 16 off (blen values / 2) d.
Proof. unfold ModbusTcpWriteMultiCommand_validator. rewrite bind_ret. intros. apply tcp_sound_write; auto. Qed.

Lemma cmd_aa55_read_sound off cnt d : bytesP d ->
  Aa55ReadCommand_validator off cnt d = Ok true -> wf_aa55 410 d.
Proof. unfold Aa55ReadCommand_validator. rewrite bind_ret. intros Hb H. apply (aa55_sound d "019A" 410); [exact Hb | discriminate | reflexivity | exact H]. Qed.

Lemma cmd_aa55_write_sound reg v d : bytesP d ->
  Aa55WriteCommand_validator reg v d = Ok true -> wf_aa55 697 d.
Proof. unfold Aa55WriteCommand_validator. rewrite bind_ret. intros Hb H. apply (aa55_sound d "02B9" 697); [exact Hb | discriminate | reflexivity | exact H]. Qed.

Lemma cmd_aa55_write_multi_sound off values d : bytesP d ->
  Aa55WriteMultiCommand_validator off values d = Ok true -> wf_aa55 697 d.
Proof. unfold Aa55WriteMultiCommand_validator. rewrite bind_ret. intros Hb H. apply (aa55_sound d "02B9" 697); [exact Hb | discriminate | reflexivity | exact H]. Qed.

Lemma cmd_aa55_generic_sound payload rt off v rtv d : bytesP d -> rt <> ""%string -> int_of_str rt 16 = Ok rtv ->
  Aa55ProtocolCommand_validator payload rt off v d = Ok true -> wf_aa55 rtv d.
Proof. unfold Aa55ProtocolCommand_validator. rewrite bind_ret. intros. eapply aa55_sound; eauto. Qed.

(* ---------------- C01: totality per command class ---------------- *)
Definition all_validators_documented (d : list Z) : Prop :=
  (forall a off cnt, documented (ModbusRtuReadCommand_validator a off cnt d)) /\
  (forall a reg v, documented (ModbusRtuWriteCommand_validator a reg v d)) /\
  (forall a off vs, documented (ModbusRtuWriteMultiCommand_validator a off vs d)) /\
  (forall a off cnt, documented (ModbusTcpReadCommand_validator a off cnt d)) /\
  (forall a reg v, documented (ModbusTcpWriteCommand_validator a reg v d)) /\
  (forall a off vs, documented (ModbusTcpWriteMultiCommand_validator a off vs d)) /\
  (forall off cnt, documented (Aa55ReadCommand_validator off cnt d)) /\
  (forall reg v, documented (Aa55WriteCommand_validator reg v d)) /\
  (forall off vs, documented (Aa55WriteMultiCommand_validator off vs d)) /\
  (forall payload rt off v, (rt = ""%string \/ exists x, int_of_str rt 16 = Ok x) ->
                            documented (Aa55ProtocolCommand_validator payload rt off v d)).

Lemma cmd_total d : bytesP d -> all_validators_documented d.
Proof.
  intros Hb. unfold all_validators_documented,
    ModbusRtuReadCommand_validator, ModbusRtuWriteCommand_validator, ModbusRtuWriteMultiCommand_validator,
    ModbusTcpReadCommand_validator, ModbusTcpWriteCommand_validator, ModbusTcpWriteMultiCommand_validator,
    Aa55ReadCommand_validator, Aa55WriteCommand_validator, Aa55WriteMultiCommand_validator, Aa55ProtocolCommand_validator.
  repeat split; intros; rewrite bind_ret;
    first [ apply rtu_total; assumption | apply tcp_total; assumption
          | apply aa55_total; [assumption | first [assumption | right; eexists; reflexivity]] ].
Qed.

(* ---------------- C02: acceptance per command class ---------------- *)
Lemma cmd_rtu_read_accept a addr off cnt payload trailing :
  0 <= addr < 256 -> bytesP payload -> llen payload = 2 * cnt -> 1 <= cnt <= 125 ->
  ModbusRtuReadCommand_validator a off cnt (rtu_read_frame addr payload ++ trailing) = Ok true.
Proof. intros. unfold ModbusRtuReadCommand_validator. rewrite bind_ret. apply rtu_read_accept; auto. Qed.

Lemma cmd_rtu_write_accept a addr reg v trailing :
  0 <= addr < 256 -> 0 <= reg < 65536 -> -32768 <= v < 32768 ->
  ModbusRtuWriteCommand_validator a reg v (rtu_write_frame addr 6 reg v ++ trailing) = Ok true.
Proof. intros. unfold ModbusRtuWriteCommand_validator. rewrite bind_ret. apply rtu_write_accept; auto. Qed.

Lemma cmd_rtu_write_multi_accept a addr off values trailing :
  0 <= addr < 256 -> 0 <= off < 65536 -> 2 <= blen values <= 246 ->
  ModbusRtuWriteMultiCommand_validator a off values (rtu_write_frame addr 16 off (blen values / 2) ++ trailing) = Ok true.
Proof.
  intros. unfold ModbusRtuWriteMultiCommand_validator. rewrite bind_ret. pose proof (half_count values ltac:(lia)).
  apply rtu_write_accept; auto; lia.
Qed.

Lemma cmd_tcp_read_accept a tx1 tx2 u off cnt payload trailing :
  llen payload = 2 * cnt -> 1 <= cnt <= 125 ->
  ModbusTcpReadCommand_validator a off cnt (tcp_read_frame tx1 tx2 u payload ++ trailing) = Ok true.
Proof. intros. unfold ModbusTcpReadCommand_validator. rewrite bind_ret. apply tcp_read_accept; auto. Qed.

Lemma cmd_tcp_write_accept a tx1 tx2 u reg v trailing :
  0 <= reg < 65536 -> -32768 <= v < 32768 ->
  ModbusTcpWriteCommand_validator a reg v (tcp_write_frame tx1 tx2 u 6 reg v ++ trailing) = Ok true.
Proof. intros. unfold ModbusTcpWriteCommand_validator. rewrite bind_ret. apply tcp_write_accept; auto. Qed.

Lemma cmd_tcp_write_multi_accept a tx1 tx2 u off values trailing :
  0 <= off < 65536 -> 2 <= blen values <= 246 ->
  ModbusTcpWriteMultiCommand_validator a off values (tcp_write_frame tx1 tx2 u 16 off (blen values / 2) ++ trailing) = Ok true.
Proof.
  intros. unfold ModbusTcpWriteMultiCommand_validator. rewrite bind_ret. pose proof (half_count values ltac:(lia)).
  apply tcp_write_accept; auto; lia.
Qed.

Lemma cmd_aa55_read_accept off cnt src dst payload : llen payload <= 255 ->
  Aa55ReadCommand_validator off cnt (aa55_frame src dst 1 154 payload) = Ok true.
Proof. intros. unfold Aa55ReadCommand_validator. rewrite bind_ret. eapply aa55_accept; [| | eassumption | discriminate | reflexivity | reflexivity]; lia. Qed.

Lemma cmd_aa55_write_accept reg v src dst payload : llen payload <= 255 ->
  Aa55WriteCommand_validator reg v (aa55_frame src dst 2 185 payload) = Ok true.
Proof. intros. unfold Aa55WriteCommand_validator. rewrite bind_ret. eapply aa55_accept; [| | eassumption | discriminate | reflexivity | reflexivity]; lia. Qed.

Lemma cmd_aa55_write_multi_accept off vs src dst payload : llen payload <= 255 ->
  Aa55WriteMultiCommand_validator off vs (aa55_frame src dst 2 185 payload) = Ok true.
Proof. intros. unfold Aa55WriteMultiCommand_validator. rewrite bind_ret. eapply aa55_accept; [| | eassumption | discriminate | reflexivity | reflexivity]; lia. Qed.

Lemma cmd_aa55_generic_accept pl rt off v rtv src dst t1 t2 payload :
  0 <= t1 < 256 -> 0 <= t2 < 256 -> llen payload <= 255 -> rt <> ""%string ->
  int_of_str rt 16 = Ok rtv -> s16 (be16 t1 t2) = rtv ->
  Aa55ProtocolCommand_validator pl rt off v (aa55_frame src dst t1 t2 payload) = Ok true.
Proof. intros. unfold Aa55ProtocolCommand_validator. rewrite bind_ret. eapply aa55_accept; eauto. Qed.

(* ---------------- C07 / C08 per command class ---------------- *)
Lemma cmd_rtu_read_partial a addr off cnt payload n :
  0 <= addr < 256 -> bytesP payload -> llen payload = 2 * cnt -> 1 <= cnt <= 125 -> 5 <= n < 2 * cnt + 7 ->
  ModbusRtuReadCommand_validator a off cnt (firstn (Z.to_nat n) (rtu_read_frame addr payload)) = Exc (EPartial n (2 * cnt + 7)).
Proof. intros. unfold ModbusRtuReadCommand_validator. rewrite rtu_partial by assumption. reflexivity. Qed.

Lemma cmd_tcp_read_partial a tx1 tx2 u off cnt payload n :
  llen payload = 2 * cnt -> 1 <= cnt <= 125 -> 9 <= n < 2 * cnt + 9 ->
  ModbusTcpReadCommand_validator a off cnt (firstn (Z.to_nat n) (tcp_read_frame tx1 tx2 u payload)) = Exc (EPartial n (2 * cnt + 9)).
Proof. intros. unfold ModbusTcpReadCommand_validator. rewrite tcp_partial by assumption. reflexivity. Qed.

Lemma cmd_aa55_partial pl rt off v src dst t1 t2 payload n :
  llen payload <= 255 -> 9 <= n < llen payload + 9 ->
  Aa55ProtocolCommand_validator pl rt off v (firstn (Z.to_nat n) (aa55_frame src dst t1 t2 payload)) = Exc (EPartial n (llen payload + 9)).
Proof. intros. unfold Aa55ProtocolCommand_validator. rewrite aa55_partial by assumption. reflexivity. Qed.

Definition rejects (r : res bool) (code : Z) : Prop := r = Exc (ERejected (modbus_reason code)).

Lemma cmd_rtu_exception a addr off cnt reg v vs code fn :
  0 <= addr < 256 -> fn = 3 \/ fn = 6 \/ fn = 16 -> 0 <= code < 256 ->
  rejects (ModbusRtuReadCommand_validator a off cnt (rtu_exc_frame addr fn code)) code /\
  rejects (ModbusRtuWriteCommand_validator a reg v (rtu_exc_frame addr fn code)) code /\
  rejects (ModbusRtuWriteMultiCommand_validator a off vs (rtu_exc_frame addr fn code)) code.
Proof.
  intros Ha Hf Hc. unfold rejects, ModbusRtuReadCommand_validator, ModbusRtuWriteCommand_validator, ModbusRtuWriteMultiCommand_validator,
    MODBUS_READ_CMD, MODBUS_WRITE_CMD, MODBUS_WRITE_MULTI_CMD.
  rewrite !bind_ret.
  repeat split; rewrite <- (app_nil_r (rtu_exc_frame addr fn code)); apply rtu_exception; auto.
Qed.

Lemma cmd_tcp_exception a tx1 tx2 u off cnt reg v vs code fn :
  fn = 3 \/ fn = 6 \/ fn = 16 ->
  rejects (ModbusTcpReadCommand_validator a off cnt (tcp_exc_frame tx1 tx2 u fn code)) code /\
  rejects (ModbusTcpWriteCommand_validator a reg v (tcp_exc_frame tx1 tx2 u fn code)) code /\
  rejects (ModbusTcpWriteMultiCommand_validator a off vs (tcp_exc_frame tx1 tx2 u fn code)) code.
Proof.
  intros Hf. unfold rejects, ModbusTcpReadCommand_validator, ModbusTcpWriteCommand_validator, ModbusTcpWriteMultiCommand_validator,
    MODBUS_READ_CMD, MODBUS_WRITE_CMD, MODBUS_WRITE_MULTI_CMD.
  rewrite !bind_ret. repeat split; apply tcp_exception; auto.
Qed.

(* C17 / C19: encode-decode round trips of the setting classes of Model/Sensors.v. *)
From Coq Require Import ZArith List Bool String Lia PrimFloat.
From GW Require Import Prelude PyStr PyFloat Sensors SensorProofs.
Import ListNotations.
Open Scope Z_scope.

Lemma to_bytes_u16' v : 0 <= v < 65536 -> to_bytes_big v 2 false = Ok [v / 256; v mod 256].
Proof.
  intros H. unfold to_bytes_big. change (2 ^ (8 * 2)) with 65536.
  replace ((0 <=? v) && (v <? 65536)) with true by lia.
  change (Z.to_nat 2) with 2%nat. cbn [be_digits]. change (256 ^ Z.of_nat 1) with 256. change (256 ^ Z.of_nat 0) with 1.
  rewrite Z.div_1_r. rewrite (Z.mod_small (v / 256)). reflexivity.
  split. apply Z.div_pos; lia. apply Z.div_lt_upper_bound; lia.
Qed.

Lemma u_at_pair a b : u_at [a; b] 0 2 = a * 256 + b.
Proof. rewrite u_at_two. reflexivity. Qed.

(* Integer: every value 0..65534 (0xFFFF is the 'no value' sentinel of the decoder) *)
Theorem integer_roundtrip id v : 0 <= v < 65535 ->
  exists b, encode_value KInteger (IInt v) [] = Ok b /\ sensor_read b (fun _ => 0) (mkS id 0 2 KInteger) = Ok (VInt v).
Proof.
  intros H. unfold encode_value, in_int. cbn [bind]. rewrite to_bytes_u16' by lia. eexists. split. reflexivity.
  unfold sensor_read. cbn [s_kind s_offset]. rewrite u_at_pair.
  pose proof (Z.div_mod v 256 ltac:(lia)). replace (v / 256 * 256 + v mod 256) with v by lia.
  replace (v =? 65535) with false by lia. reflexivity.
Qed.

Lemma to_bytes_s16 v : -32768 <= v < 32768 -> to_bytes_big v 2 true = Ok [(v mod 65536) / 256; (v mod 65536) mod 256].
Proof.
  intros H. unfold to_bytes_big. change (- 2 ^ (8 * 2 - 1)) with (-32768). change (2 ^ (8 * 2 - 1)) with 32768. change (2 ^ (8 * 2)) with 65536.
  replace ((-32768 <=? v) && (v <? 32768)) with true by lia.
  change (Z.to_nat 2) with 2%nat. cbn [be_digits]. change (256 ^ Z.of_nat 1) with 256. change (256 ^ Z.of_nat 0) with 1.
  rewrite Z.div_1_r. pose proof (Z.mod_pos_bound v 65536 ltac:(lia)).
  rewrite (Z.mod_small (v mod 65536 / 256)). reflexivity.
  split. apply Z.div_pos; lia. apply Z.div_lt_upper_bound; lia.
Qed.

(* IntegerS: every signed 16-bit value, negative ones in two's complement *)
Theorem integer_signed_roundtrip id v : -32768 <= v < 32768 ->
  exists b, encode_value KIntegerS (IInt v) [] = Ok b /\ sensor_read b (fun _ => 0) (mkS id 0 2 KIntegerS) = Ok (VInt v).
Proof.
  intros H. unfold encode_value, in_int. cbn [bind]. rewrite to_bytes_s16 by lia. eexists. split. reflexivity.
  unfold sensor_read. cbn [s_kind s_offset].
  set (u := v mod 65536). pose proof (Z.mod_pos_bound v 65536 ltac:(lia)) as Hu. fold u in Hu.
  rewrite s_at_two.
  2: { split. apply Z.div_pos; lia. apply Z.div_lt_upper_bound; lia. }
  2: { apply Z.mod_pos_bound. lia. }
  unfold s16v, w16. pose proof (Z.div_mod u 256 ltac:(lia)). replace (u / 256 * 256 + u mod 256) with u by lia.
  assert (Hv : u = if v <? 0 then v + 65536 else v).
  { unfold u. destruct (v <? 0) eqn:E. symmetry; apply Z.mod_unique with (-1); lia. apply Z.mod_small; lia. }
  destruct (v <? 0) eqn:E; destruct (32768 <=? u) eqn:E2; f_equal; f_equal; lia.
Qed.

(* one-byte settings: the value goes to its half of the register, the other half is kept *)
Lemma to_bytes_s8 v : -128 <= v < 128 -> to_bytes_big v 1 true = Ok [v mod 256].
Proof.
  intros H. unfold to_bytes_big. change (- 2 ^ (8 * 1 - 1)) with (-128). change (2 ^ (8 * 1 - 1)) with 128. change (2 ^ (8 * 1)) with 256.
  replace ((-128 <=? v) && (v <? 128)) with true by lia.
  change (Z.to_nat 1) with 1%nat. cbn [be_digits]. change (256 ^ Z.of_nat 0) with 1.
  rewrite Z.div_1_r, Z.mod_mod by lia. reflexivity.
Qed.

Lemma s_at_one x : 0 <= x < 256 -> s_at [x] 0 1 = if 128 <=? x then x - 256 else x.
Proof.
  intros H. unfold s_at, rd, be_signed, be_unsigned. change (Z.to_nat 1) with 1%nat. cbn [Z.ltb Z.compare firstn skipn Z.to_nat fold_left].
  change (8 * blen [x]) with 8. change (2 ^ (8 - 1)) with 128. change (2 ^ 8) with 256.
  replace (0 * 256 + x) with x by lia. reflexivity.
Qed.

Theorem byte_high_roundtrip id v hi lo : -128 <= v < 128 -> 0 <= lo < 256 ->
  exists b, encode_value KByteH (IInt v) [hi; lo] = Ok b /\ b = [v mod 256; lo] /\
            sensor_read b (fun _ => 0) (mkS id 0 1 KByteH) = Ok (VInt v).
Proof.
  intros H Hl. unfold encode_value, in_int. cbn [bind]. rewrite to_bytes_s8 by lia. cbn [bind]. eexists. split. reflexivity. split. reflexivity.
  unfold sensor_read. cbn [s_kind s_offset].
  assert (E : s_at [v mod 256; lo] 0 1 = s_at [v mod 256] 0 1) by reflexivity. rewrite E.
  pose proof (Z.mod_pos_bound v 256 ltac:(lia)) as Hu. rewrite s_at_one by lia.
  assert (Hv : v mod 256 = if v <? 0 then v + 256 else v).
  { destruct (v <? 0) eqn:E1. symmetry; apply Z.mod_unique with (-1); lia. apply Z.mod_small; lia. }
  destruct (v <? 0) eqn:E1; destruct (128 <=? v mod 256) eqn:E2; f_equal; f_equal; lia.
Qed.

Theorem byte_low_roundtrip id v hi lo : -128 <= v < 128 -> 0 <= hi < 256 ->
  exists b, encode_value KByteL (IInt v) [hi; lo] = Ok b /\ b = [hi; v mod 256] /\
            sensor_read b (fun _ => 0) (mkS id 0 1 KByteL) = Ok (VInt v).
Proof.
  intros H Hl. unfold encode_value, in_int. cbn [bind]. rewrite to_bytes_s8 by lia. cbn [bind]. eexists. split. reflexivity. split. reflexivity.
  unfold sensor_read. cbn [s_kind s_offset].
  assert (E : s_at [hi; v mod 256] (0 + 1) 1 = s_at [v mod 256] 0 1) by reflexivity. rewrite E.
  pose proof (Z.mod_pos_bound v 256 ltac:(lia)) as Hu. rewrite s_at_one by lia.
  assert (Hv : v mod 256 = if v <? 0 then v + 256 else v).
  { destruct (v <? 0) eqn:E1. symmetry; apply Z.mod_unique with (-1); lia. apply Z.mod_small; lia. }
  destruct (v <? 0) eqn:E1; destruct (128 <=? v mod 256) eqn:E2; f_equal; f_equal; lia.
Qed.

(* ---------------------------------------------------------------- scaled settings: finite domains, by computation *)
Definition float_eqb (a b : float) : bool :=
  match enc_float a, enc_float b with x, y => if list_eq_dec Z.eq_dec x y then true else false end.

(* for the multiple k / scale of the resolution: the register receives exactly k, and k / scale is read back *)
Definition scaled_ok (kind : skind) (scale : Z) (signed : bool) (k : Z) : bool :=
  let v := PrimFloat.div (float_of_Z k) (float_of_Z scale) in
  match encode_value kind (IFloat v) [] with
  | Ok b => match to_bytes_big k 2 signed with
            | Ok want => (if list_eq_dec Z.eq_dec b want then true else false) &&
                         match sensor_read b (fun _ => 0) (mkS "" 0 2 kind) with
                         | Ok (VFloat f) => float_eqb f v
                         | Ok (VInt 0) => k =? 0
                         | _ => false end
            | Exc _ => false end
  | Exc _ => false end.

Definition range_z (lo : Z) (n : nat) : list Z := range_up lo n.

Lemma range_up_in lo n k : lo <= k < lo + Z.of_nat n -> In k (range_up lo n).
Proof.
  revert lo. induction n as [|n IH]; intros lo H. cbn in H. lia. cbn [range_up]. rewrite Nat2Z.inj_succ in H.
  destruct (Z.eq_dec k lo) as [->|Hn]. left. reflexivity. right. apply IH. lia.
Qed.

Lemma decimal100_all : forallb (scaled_ok (KDecimal 100) 100 true) (range_up (-32768) (Z.to_nat 65536)) = true.
Proof. vm_compute. reflexivity. Qed.
Lemma decimal1000_all : forallb (scaled_ok (KDecimal 1000) 1000 true) (range_up (-32768) (Z.to_nat 65536)) = true.
Proof. vm_compute. reflexivity. Qed.
Lemma decimal10_all : forallb (scaled_ok (KDecimal 10) 10 true) (range_up (-32768) (Z.to_nat 65536)) = true.
Proof. vm_compute. reflexivity. Qed.

Theorem decimal_roundtrip scale k : scale = 10 \/ scale = 100 \/ scale = 1000 -> -32768 <= k < 32768 ->
  scaled_ok (KDecimal scale) scale true k = true.
Proof.
  intros Hs Hk. assert (Hin : In k (range_up (-32768) (Z.to_nat 65536))) by (apply range_up_in; rewrite Z2Nat.id; lia).
  destruct Hs as [-> | [-> | ->]].
  - pose proof decimal10_all as H. rewrite forallb_forall in H. auto.
  - pose proof decimal100_all as H. rewrite forallb_forall in H. auto.
  - pose proof decimal1000_all as H. rewrite forallb_forall in H. auto.
Qed.

(* ---------------------------------------------------------------- C19: the full-time eco-mode groups *)
Definition charge_ok (ty p soc : Z) : bool :=
  match read_schedule (sched_encode_charge ty p soc) 0 with
  | Ok (VSched x) => (sched_decode_power (sc_type x) (sc_power x) =? - p) && (sc_soc x =? soc) && sched_is_charge x && (sc_type x =? ty)
  | _ => false end.
Definition discharge_ok (ty p : Z) : bool :=
  match read_schedule (sched_encode_discharge ty p) 0 with
  | Ok (VSched x) => (sched_decode_power (sc_type x) (sc_power x) =? p) && (sc_soc x =? 100) && sched_is_discharge x && (sc_type x =? ty)
  | _ => false end.
Definition v1_ok (p : Z) : bool :=
  match read_eco_v1 (eco_v1_encode_charge p) 0, read_eco_v1 (eco_v1_encode_discharge p) 0 with
  | Ok (VSched x), Ok (VSched y) => (sc_power x =? - p) && eco_v1_is_charge x && (sc_power y =? p) && eco_v1_is_discharge y
  | _, _ => false end.

Lemma charge_all : forallb (fun ty => forallb (fun p => forallb (charge_ok ty p) (range_up 0 101)) (range_up 1 100)) [0; 6] = true.
Proof. vm_compute. reflexivity. Qed.
Lemma discharge_all : forallb (fun ty => forallb (discharge_ok ty) (range_up 1 100)) [0; 6] = true.
Proof. vm_compute. reflexivity. Qed.
Lemma v1_all : forallb v1_ok (range_up 1 100) = true.
Proof. vm_compute. reflexivity. Qed.

Theorem eco_charge_roundtrip ty p soc : ty = 0 \/ ty = 6 -> 1 <= p <= 100 -> 0 <= soc <= 100 -> charge_ok ty p soc = true.
Proof.
  intros Ht Hp Hs. pose proof charge_all as H. rewrite forallb_forall in H.
  assert (Hty : In ty [0; 6]) by (destruct Ht as [-> | ->]; cbn; auto).
  specialize (H ty Hty). rewrite forallb_forall in H. specialize (H p (range_up_in 1 100 p ltac:(lia))).
  rewrite forallb_forall in H. apply H. apply range_up_in. lia.
Qed.

Theorem eco_discharge_roundtrip ty p : ty = 0 \/ ty = 6 -> 1 <= p <= 100 -> discharge_ok ty p = true.
Proof.
  intros Ht Hp. pose proof discharge_all as H. rewrite forallb_forall in H.
  assert (Hty : In ty [0; 6]) by (destruct Ht as [-> | ->]; cbn; auto).
  specialize (H ty Hty). rewrite forallb_forall in H. apply H. apply range_up_in. lia.
Qed.

Theorem eco_v1_roundtrip p : 1 <= p <= 100 -> v1_ok p = true.
Proof. intros Hp. pose proof v1_all as H. rewrite forallb_forall in H. apply H. apply range_up_in. lia. Qed.

(* set_schedule_type(ECO_MODE, is745): afterwards the group is encoded as an eco-mode group, whatever type was detected *)
Definition set_schedule_type_eco (cur : Z) (is745 : bool) : Z :=
  if (cur =? 0) || (cur =? 6) then cur else if is745 then 6 else 0.
Theorem schedule_type_after_set cur is745 : set_schedule_type_eco cur is745 = 0 \/ set_schedule_type_eco cur is745 = 6.
Proof. unfold set_schedule_type_eco. destruct (cur =? 0) eqn:E0; destruct (cur =? 6) eqn:E6; destruct is745; cbn; lia. Qed.

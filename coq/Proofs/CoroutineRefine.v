(* The except / finally clauses of the coroutines of goodwe/protocol.py, as emitted from the current source by tools/co2v.py
   (Gen/CoroutineGen.v), determine the corresponding functions of the hand-written model Model/Proto.v.  Re-proved on every run. *)
From Coq Require Import List Bool Arith Lia.
From RecordUpdate Require Import RecordSet.
From GW Require Import Proto Coroutines CoroutineGen.
Import ListNotations RecordSetNotations.

Definition sr_shape_of (k : kind) : sr_shape := match k with UDP => udp_send_request | TCP => tcp_send_request end.
Definition cl_shape_of (k : kind) : cl_shape := match k with UDP => udp_close | TCP => tcp_close end.

Lemma release_if_locked_kind s : s_kind (release_if_locked s) = s_kind s /\ s_ka (release_if_locked s) = s_ka s /\
  s_retry (release_if_locked s) = s_retry s /\ s_retries (release_if_locked s) = s_retries s.
Proof.
  unfold release_if_locked, lock_release. destruct (_ && _); auto. cbv zeta. destruct (s_waiters _) as [|[w [|]] tl]; auto.
  match goal with |- context [match ?x with Some _ => _ | None => _ end] => destruct x end; auto.
Qed.

Lemma complete_kind' s f v : s_kind (complete s f v) = s_kind s /\ s_ka (complete s f v) = s_ka s.
Proof. unfold complete. cbv zeta. destruct (awaiting _ _); auto. Qed.

Lemma close_transport_kind s : s_kind (close_transport s) = s_kind s /\ s_ka (close_transport s) = s_ka s.
Proof.
  unfold close_transport. cbv zeta.
  set (s1 := match s_transport s with Some t => _ | None => s end).
  assert (H : s_kind s1 = s_kind s /\ s_ka s1 = s_ka s).
  { unfold s1. destruct (s_transport s); auto. unfold tr_close. destruct (tstate_of s n); auto. }
  destruct (s_fut s1); auto. destruct (pending s1 n); auto. destruct (complete_kind' s1 n FCancelled). destruct H. split; congruence.
Qed.

(* ---------------------------------------------------------------- send_request: wait_for, except clauses, finally *)
Theorem wait_for_refined s : (match s_kind s with TCP => true | UDP => false end) = sh_wait_for (sr_shape_of (s_kind s)).
Proof. destruct (s_kind s); reflexivity. Qed.

Theorem sr_finally_refined n : forall s, sr_finally n s = g_sr_finally (sr_shape_of (s_kind s)) n s.
Proof.
  induction n as [|n IH]; intros s; cbn [sr_finally g_sr_finally iter_l]. reflexivity.
  cbv zeta. rewrite IH. unfold g_sr_finally.
  destruct (release_if_locked_kind s) as (K & A & _).
  destruct (s_kind s) eqn:Ek; cbn [sr_shape_of udp_send_request tcp_send_request sh_finally run_steps run_step]; rewrite K.
  - destruct (s_ka (release_if_locked s)) eqn:Ea; cbn [sr_shape_of]. rewrite K. reflexivity.
    destruct (close_transport_kind (release_if_locked s)) as [K2 _]. rewrite K2, K. reflexivity.
  - rewrite K. reflexivity.
Qed.

Theorem sr_exception_refined again s k d e :
  sr_exception again s k d e = g_sr_exception again (sr_shape_of (s_kind s)) s k d e.
Proof.
  unfold sr_exception, g_sr_exception. cbv zeta.
  destruct (s_kind s) eqn:Ek; destruct e; cbn [sr_shape_of udp_send_request tcp_send_request sh_clauses find_clause existsb isinstance orb run_steps run_step];
    try reflexivity.
  - (* UDP, CancelledError *)
    destruct (Nat.ltb (s_retry s) (s_retries s)); [|reflexivity].
    destruct (release_if_locked_kind (s <| s_retry := S (s_retry s) |>)) as (_ & A & _). rewrite A. cbn [s_ka set eta_st].
    destruct (s_ka s); reflexivity.
Qed.

(* ---------------------------------------------------------------- execute *)
(* the exceptions execute() converts into RequestFailedException are exactly those its except clause names *)
Theorem execute_catches_refined e : (match classify e with OFailed => true | _ => false end) = existsb (isinstance e) (ex_caught execute_shape).
Proof. destruct e; reflexivity. Qed.

Theorem exec_finish_refined s k r : exec_finish s k r = g_exec_finish execute_shape s k r.
Proof.
  unfold exec_finish, g_exec_finish. cbv zeta.
  cbn [execute_shape ex_finally run_steps run_step has_await_close existsb negb orb].
  reflexivity.
Qed.

(* ---------------------------------------------------------------- _ensure_lock *)
Theorem ensure_lock_refined s :
  ensure_lock s = if s_haslock s && Nat.eqb (s_lockloop s) (s_loop s) then s else run_steps ensure_lock_steps s.
Proof. unfold ensure_lock. destruct (_ && _); reflexivity. Qed.

(* ---------------------------------------------------------------- close() *)
(* UDP: no lock; TCP: under the lock, released in the finally clause *)
Theorem close_lock_refined s : (match s_kind s with TCP => true | UDP => false end) = cl_lock (cl_shape_of (s_kind s)).
Proof. destruct (s_kind s); reflexivity. Qed.

Theorem udp_close_refined s : close_transport s = run_steps (cl_finally udp_close) (run_steps (cl_body udp_close) s).
Proof. reflexivity. Qed.

Lemma close_transport_lockfields s : s_lock (close_transport s) = s_lock s /\ s_haslock (close_transport s) = s_haslock s.
Proof.
  unfold close_transport. cbv zeta.
  set (s1 := match s_transport s with Some t => _ | None => s end).
  assert (H : s_lock s1 = s_lock s /\ s_haslock s1 = s_haslock s).
  { unfold s1. destruct (s_transport s); auto. unfold tr_close. destruct (tstate_of s n); auto. }
  destruct (s_fut s1); auto. destruct (pending s1 n); auto. unfold complete. cbv zeta. destruct (awaiting _ _); cbn; exact H.
Qed.

Theorem tcp_close_refined s : s_lock s = true -> s_haslock s = true ->
  lock_release (close_transport s) = run_steps (cl_finally tcp_close) (run_steps (cl_body tcp_close) s).
Proof.
  intros Hl Hh. cbn [tcp_close cl_body cl_finally run_steps run_step]. unfold release_if_locked.
  destruct (close_transport_lockfields s) as [A B]. rewrite A, B, Hl, Hh. reflexivity.
Qed.

(* The generated table-driven checksum equals the bit-serial specification. *)
From Coq Require Import ZArith List Bool Lia.
From GW Require Import Prelude Crc16 BitLemmas ModbusGen.
Import ListNotations.
Open Scope Z_scope.

Definition bytesP (l : list Z) : Prop := Forall (fun b => 0 <= b < 256) l.

Lemma table_len : blen _CRC_16_TABLE = 256.
Proof. vm_compute. reflexivity. Qed.

Lemma table_is_generated : _create_crc16_table = _CRC_16_TABLE.
Proof. vm_compute. reflexivity. Qed.

Lemma table_spec_b :
  forallb (fun i => nth (Z.to_nat i) _CRC_16_TABLE 0 =? iter8 i) (py_range 0 256) = true.
Proof. vm_compute. reflexivity. Qed.

Lemma in_range_up a n x : a <= x < a + Z.of_nat n -> In x (range_up a n).
Proof. revert a. induction n as [|n IH]; intros a H; simpl. lia.
  destruct (Z.eq_dec a x). now left. right. apply IH. lia. Qed.

Lemma table_spec i : 0 <= i < 256 -> nth (Z.to_nat i) _CRC_16_TABLE 0 = iter8 i.
Proof.
  intros H. pose proof table_spec_b as T. rewrite forallb_forall in T.
  specialize (T i). apply Z.eqb_eq. apply T. unfold py_range. apply in_range_up. simpl. lia.
Qed.

Lemma table_index i : 0 <= i < 256 -> py_index _CRC_16_TABLE i = Ok (iter8 i).
Proof.
  intros H. unfold py_index, norm_idx. rewrite table_len.
  replace (i <? 0) with false by lia. replace ((0 <=? i) && (i <? 256)) with true by lia.
  rewrite table_spec by lia. reflexivity.
Qed.

Lemma table_step crc ch : 0 <= crc -> 0 <= ch < 256 ->
  Z.lxor (Z.shiftr crc 8) (iter8 (Z.land (Z.lxor crc ch) 255)) = crc16_step crc ch.
Proof.
  intros Hc Hb. unfold crc16_step. rewrite (iter8_split (Z.lxor crc ch)).
  rewrite Z.shiftr_lxor. replace (Z.shiftr ch 8) with 0. now rewrite Z.lxor_0_r.
  rewrite shiftr_8. symmetry. apply Z.div_small. lia.
Qed.

Lemma checksum_loop data : forall crc, bytesP data -> 0 <= crc ->
  py_for data (fun ch c => t <- py_index _CRC_16_TABLE (Z.land (Z.lxor c ch) 255) ;;
                           Ok (Z.lxor (Z.shiftr c 8) t)) crc
  = Ok (fold_left crc16_step data crc).
Proof.
  induction data as [|b tl IH]; intros crc HF Hc; simpl. reflexivity.
  inversion HF as [|? ? Hb Htl]; subst.
  rewrite table_index by (rewrite land_255; apply Z.mod_pos_bound; lia).
  simpl. rewrite table_step by lia. apply IH; auto.
  unfold crc16_step.
  assert (0 <= Z.lxor crc b) by (apply Z.lxor_nonneg; split; lia).
  (* non-negativity of iter8 *)
  unfold iter8, bitstep.
  repeat match goal with
  | |- 0 <= (if ?c then _ else _) => destruct c
  | |- 0 <= Z.lxor _ 40961 => apply Z.lxor_nonneg; split; intros; [lia|]
  | |- 0 <= Z.shiftr _ 1 => apply Z.shiftr_nonneg
  end; lia.
Qed.

Theorem modbus_checksum_spec data : bytesP data -> _modbus_checksum data = Ok (crc16 data).
Proof.
  intros H. unfold _modbus_checksum. cbv zeta. rewrite checksum_loop by (auto; lia). reflexivity.
Qed.

(* DT.read_runtime_data as translated from the current source IS the capability model, and the model satisfies C14 / C15 for DT. *)
From Coq Require Import List Bool.
From GW Require Import DTProg DTGen.
Import ListNotations.

Theorem dt_read_runtime_data_refined o_running o_meter hm :
  run_dt o_running o_meter dt_read_runtime_data_prog hm = dt_read_runtime_data o_running o_meter hm.
Proof. destruct hm, o_running as [[]|], o_meter as [[]|]; reflexivity. Qed.

(* C15 for DT: a call that returns, returns the keys of exactly the lists sensors() reports afterwards; a call that raises leaves the
   capability as it was *)
Theorem dt_keys_equal_sensors o_running o_meter hm :
  match dt_read_runtime_data o_running o_meter hm with
  | (hm', _, DReturned d) => d = Some (dt_sensors hm')
  | (hm', _, DRaised _) => hm' = hm
  | (_, _, DGoOn) => False end.
Proof. destruct hm, o_running as [[]|], o_meter as [[]|]; reflexivity. Qed.

(* C14 for DT: a list is decoded only from the answer to its own read request, which was transmitted and answered in this call *)
Theorem dt_decodes_fetched_blocks o_running o_meter hm :
  match dt_read_runtime_data o_running o_meter hm with
  | (_, reads, DReturned (Some d)) => (dd_running d = true -> In false reads /\ o_running = None) /\ (dd_meter d = true -> In true reads /\ o_meter = None)
  | _ => True end.
Proof. destruct hm, o_running as [[]|], o_meter as [[]|]; cbn; auto; repeat split; intros; auto; discriminate. Qed.

(* once cleared, the capability stays cleared and the meter block is never requested again *)
Theorem dt_meter_stays_off o_running o_meter :
  fst (fst (dt_read_runtime_data o_running o_meter false)) = false /\ ~ In true (snd (fst (dt_read_runtime_data o_running o_meter false))).
Proof. destruct o_running as [[]|]; cbn; split; auto; intros [H|[]]; discriminate. Qed.

(* ES.set_operation_mode, dispatcher as generated from the current source (Gen/ModesGen.v: es_set_mode, es_helper_final): every mode the
   dispatcher handles is either refused outright or ends by commanding the work mode that get_operation_mode maps back to the requested
   mode (ECO for the two emulated modes, which differ by the content of eco-mode group 1, written exactly once, before the switch-offs of
   groups 2..4) -- whatever the firmware version or earlier state, since the generated program has no other condition. *)
From Coq Require Import ZArith List String Bool.
From GW Require Import Modes ESModes ModesGen.
Import ListNotations.
Open Scope Z_scope.

Theorem es_modes_end_in_the_requested_work_mode m p : es_set_mode m = Some p ->
  p = [EsUnsupported] \/ es_final es_helper_final p = Some (es_expected m).
Proof. destruct m; cbn; intros H; try discriminate; injection H as <-; auto. Qed.

Theorem es_simple_modes_only_call_their_helper m p : es_expected m = m -> es_set_mode m = Some p ->
  p = [EsUnsupported] \/ exists h, p = [EsHelper h] /\ es_helper_final h = m.
Proof. destruct m; cbn; intros E H; try discriminate; injection H as <-; eauto. Qed.

Theorem es_emulated_modes_write_group_one_once (charge : bool) p :
  es_set_mode (if charge then MEcoCharge else MEcoDischarge) = Some p ->
  hd_error p = Some EsCheckRange /\ eco_groups p = [charge] /\
  (forall id v, In (EsWrite id v) p -> v = 0 /\ In id ["eco_mode_2_switch"; "eco_mode_3_switch"; "eco_mode_4_switch"]%string) /\
  (forall id, In id ["eco_mode_2_switch"; "eco_mode_3_switch"; "eco_mode_4_switch"]%string -> In (EsWrite id 0) p).
Proof.
  destruct charge; cbn; intros H; injection H as <-; (split; [reflexivity|split; [reflexivity|split]]).
  all: cbn; intros; repeat match goal with H : _ \/ _ |- _ => destruct H end; try discriminate; try contradiction;
    try match goal with H : EsWrite _ _ = EsWrite _ _ |- _ => injection H as <- <- end; subst; auto 10.
Qed.

(* non-vacuity: the dispatcher does handle seven of the eight modes *)
Example es_handles : map (fun m => match es_set_mode m with Some _ => true | None => false end)
  [MGeneral; MOffGrid; MBackup; MEco; MPeakShaving; MEcoCharge; MEcoDischarge] = [true; true; true; true; true; true; true].
Proof. reflexivity. Qed.

From Coq Require Import List Bool Arith Lia.
From GW Require Import ETCaps.
Import ListNotations.

Lemma all_caps_complete c : meter_level c <= 2 -> In c all_caps.
Proof.
  destruct c as [a b c d e l]. cbn [meter_level]. intros H.
  assert (Hl : l = 0 \/ l = 1 \/ l = 2) by (destruct l as [|[|[|l]]]; auto; exfalso; repeat apply le_S_n in H; inversion H).
  unfold all_caps. destruct a, b, c, d, e; destruct Hl as [-> | [-> | ->]]; vm_compute; tauto.
Qed.

Lemma all_envs_complete e : In e all_envs.
Proof. destruct e as [a b c d f g]. destruct a, b, c, d, f, g; vm_compute; tauto. Qed.

(* a call makes at most 7 requests: losing "request number n >= 8" is losing nothing *)
Lemma loss_big c e n : read_runtime_data c e (Some (8 + n)) = read_runtime_data c e None.
Proof.
  destruct c as [a b c d f l], e as [r1 r2 r3 r4 r5 z].
  destruct a, b, c, d, f, r1, r2, r3, r4, r5, z; reflexivity.
Qed.

Lemma all_loss_complete c e lose : exists l, In l all_loss /\ read_runtime_data c e lose = read_runtime_data c e l.
Proof.
  destruct lose as [n|]. 2: { exists None. split; [left; reflexivity | reflexivity]. }
  destruct (Nat.lt_ge_cases n 8) as [H|H].
  - exists (Some n). split; [|reflexivity]. right.
    do 8 (destruct n as [|n]; [cbn; tauto|]). lia.
  - exists None. split. left; reflexivity. replace n with (8 + (n - 8)) by lia. apply loss_big.
Qed.

Lemma keys_ok_all : forallb (fun c => forallb (fun e => forallb (keys_ok c e) all_loss) all_envs) all_caps = true.
Proof. vm_compute. reflexivity. Qed.

(* whenever read_runtime_data returns -- whichever request may have been lost --, the groups of its result are exactly the
   groups sensors() lists right after *)
Theorem keys_equal_sensors c e lose reqs keys c' : meter_level c <= 2 ->
  read_runtime_data c e lose = (reqs, Some keys, c') -> same_groups keys (sensors_groups c') = true.
Proof.
  intros Hl H. destruct (all_loss_complete c e lose) as (l & Hin & Heq). rewrite Heq in H.
  pose proof keys_ok_all as K. rewrite forallb_forall in K.
  specialize (K c (all_caps_complete c Hl)). rewrite forallb_forall in K. specialize (K e (all_envs_complete e)).
  rewrite forallb_forall in K. specialize (K l Hin). unfold keys_ok in K. rewrite H in K. exact K.
Qed.

Lemma second_ok_all : forallb (fun c => forallb (fun e1 => forallb (fun e2 => negb (same_refusals e1 e2) || second_call_ok c e1 e2) all_envs) all_envs) all_caps = true.
Proof. vm_compute. reflexivity. Qed.

(* with a fixed set of refused optional blocks (and every request answered), the first or the second call succeeds -- from ANY capability set *)
Theorem succeeds_by_second_call c e1 e2 : meter_level c <= 2 -> same_refusals e1 e2 = true -> second_call_ok c e1 e2 = true.
Proof.
  intros Hl Hs. pose proof second_ok_all as K. rewrite forallb_forall in K.
  specialize (K c (all_caps_complete c Hl)). rewrite forallb_forall in K. specialize (K e1 (all_envs_complete e1)).
  rewrite forallb_forall in K. specialize (K e2 (all_envs_complete e2)). rewrite Hs in K. exact K.
Qed.

(* the filter level never exceeds 2 and only grows *)
Lemma level_monotone c e lose : meter_level c <= 2 -> let '(_, _, c') := read_runtime_data c e lose in meter_level c <= meter_level c' /\ meter_level c' <= 2.
Proof.
  intros Hl. destruct (all_loss_complete c e lose) as (l & Hin & Heq). rewrite Heq.
  pose proof (all_caps_complete c Hl) as Hc. pose proof (all_envs_complete e) as He.
  assert (K : forallb (fun c => forallb (fun e => forallb (fun l => let '(_, _, c') := read_runtime_data c e l in (meter_level c <=? meter_level c') && (meter_level c' <=? 2)) all_loss) all_envs) all_caps = true)
    by (vm_compute; reflexivity).
  rewrite forallb_forall in K. specialize (K c Hc). rewrite forallb_forall in K. specialize (K e He).
  rewrite forallb_forall in K. specialize (K l Hin).
  destruct (read_runtime_data c e l) as [[r k] c']. apply andb_prop in K. destruct K as [K1 K2].
  split; apply Nat.leb_le; assumption.
Qed.

(* C14 at the capability level: the meter window that the flags select always covers the meter sensors kept at the filter
   level -- preserved by every call, whatever is refused and whichever request is lost (exception paths included) *)
Lemma consistent_all : forallb (fun c => negb (caps_consistent c) ||
  forallb (fun e => forallb (fun l => let '(_, _, c') := read_runtime_data c e l in caps_consistent c') all_loss) all_envs) all_caps = true.
Proof. vm_compute. reflexivity. Qed.

Theorem consistent_preserved c e lose : meter_level c <= 2 -> caps_consistent c = true ->
  let '(_, _, c') := read_runtime_data c e lose in caps_consistent c' = true.
Proof.
  intros Hl Hc. destruct (all_loss_complete c e lose) as (l & Hin & Heq). rewrite Heq.
  pose proof consistent_all as K. rewrite forallb_forall in K. specialize (K c (all_caps_complete c Hl)). rewrite Hc in K. cbn [negb orb] in K.
  rewrite forallb_forall in K. specialize (K e (all_envs_complete e)). rewrite forallb_forall in K. specialize (K l Hin).
  destruct (read_runtime_data c e l) as [[r k] c']. exact K.
Qed.

Lemma consistent_initial two big : caps_consistent (after_device_info two big) = true.
Proof. destruct two, big; reflexivity. Qed.

(* every capability set reachable through any history of calls (any refusals, any lost requests) is consistent *)
Fixpoint calls (c : caps) (h : list (env * option nat)) : caps :=
  match h with [] => c | p :: tl => calls (snd (read_runtime_data c (fst p) (snd p))) tl end.

Theorem consistent_always two big h : caps_consistent (calls (after_device_info two big) h) = true /\ meter_level (calls (after_device_info two big) h) <= 2.
Proof.
  assert (G : forall hs c, meter_level c <= 2 -> caps_consistent c = true -> caps_consistent (calls c hs) = true /\ meter_level (calls c hs) <= 2).
  { intros hs. induction hs as [|p hs IH]; intros c Hl Hc; cbn [calls].
    - split; assumption.
    - destruct p as [e l]. cbn [fst snd].
      pose proof (consistent_preserved c e l Hl Hc) as H1. pose proof (level_monotone c e l Hl) as H2.
      destruct (read_runtime_data c e l) as [[r k] c']. cbn [snd]. apply IH; tauto. }
  apply G. destruct two, big; cbn; lia. apply consistent_initial.
Qed.

From Coq Require Import List Bool Arith.
From GW Require Import ETCaps.
Import ListNotations.

Lemma all_caps_complete c : meter_level c <= 2 -> In c all_caps.
Proof.
  destruct c as [a b c d e l]. cbn [meter_level]. intros H.
  assert (Hl : l = 0 \/ l = 1 \/ l = 2) by (destruct l as [|[|[|l]]]; auto; exfalso; repeat apply le_S_n in H; inversion H).
  unfold all_caps. destruct a, b, c, d, e; destruct Hl as [-> | [-> | ->]]; vm_compute; tauto.
Qed.

Lemma all_envs_complete e : In e all_envs.
Proof. destruct e as [a b c d f g]. destruct a, b, c, d, f, g; vm_compute; tauto. Qed.

Lemma keys_ok_all : forallb (fun c => forallb (keys_ok c) all_envs) all_caps = true.
Proof. vm_compute. reflexivity. Qed.

(* whenever read_runtime_data returns, the groups of its result are exactly the groups sensors() lists right after *)
Theorem keys_equal_sensors c e reqs keys c' : meter_level c <= 2 ->
  read_runtime_data c e = (reqs, Some keys, c') -> same_groups keys (sensors_groups c') = true.
Proof.
  intros Hl H. pose proof keys_ok_all as K. rewrite forallb_forall in K.
  specialize (K c (all_caps_complete c Hl)). rewrite forallb_forall in K. specialize (K e (all_envs_complete e)).
  unfold keys_ok in K. rewrite H in K. exact K.
Qed.

Lemma second_ok_all : forallb (fun c => forallb (fun e1 => forallb (fun e2 => negb (same_refusals e1 e2) || second_call_ok c e1 e2) all_envs) all_envs) all_caps = true.
Proof. vm_compute. reflexivity. Qed.

(* with a fixed set of refused optional blocks, the first or the second call succeeds -- from ANY capability set *)
Theorem succeeds_by_second_call c e1 e2 : meter_level c <= 2 -> same_refusals e1 e2 = true -> second_call_ok c e1 e2 = true.
Proof.
  intros Hl Hs. pose proof second_ok_all as K. rewrite forallb_forall in K.
  specialize (K c (all_caps_complete c Hl)). rewrite forallb_forall in K. specialize (K e1 (all_envs_complete e1)).
  rewrite forallb_forall in K. specialize (K e2 (all_envs_complete e2)). rewrite Hs in K. exact K.
Qed.

(* the filter level never exceeds 2 and only grows *)
Lemma level_monotone c e : meter_level c <= 2 -> let '(_, _, c') := read_runtime_data c e in meter_level c <= meter_level c' /\ meter_level c' <= 2.
Proof.
  intros Hl. pose proof (all_caps_complete c Hl) as Hc. pose proof (all_envs_complete e) as He.
  assert (K : forallb (fun c => forallb (fun e => let '(_, _, c') := read_runtime_data c e in (meter_level c <=? meter_level c') && (meter_level c' <=? 2)) all_envs) all_caps = true)
    by (vm_compute; reflexivity).
  rewrite forallb_forall in K. specialize (K c Hc). rewrite forallb_forall in K. specialize (K e He).
  destruct (read_runtime_data c e) as [[r k] c']. apply andb_prop in K. destruct K as [K1 K2].
  split; apply Nat.leb_le; assumption.
Qed.

(* ET.read_runtime_data and ET.sensors() as TRANSLATED from the current source (Gen/ETGen.v, tools/et2v.py) are the capability model
   Model/ETCaps.v: complete enumeration of capability sets x refused blocks x lost request inside Coq, lifted to universally quantified
   statements.  Re-proved on every run; the theorems of C14 / C15 about the model are thereby theorems about the generated program. *)
From Coq Require Import List Bool Arith Lia.
From GW Require Import ETCaps ETCapsProofs ETProg ETGen.
Import ListNotations.

Definition block_eqb (a b : block) : bool := Nat.eqb (enc_block a) (enc_block b).
Fixpoint list_eqb {A} (eqb : A -> A -> bool) (a b : list A) : bool :=
  match a, b with [], [] => true | x :: a', y :: b' => eqb x y && list_eqb eqb a' b' | _, _ => false end.
Definition caps_eqb (a b : caps) : bool :=
  Bool.eqb (has_battery a) (has_battery b) && Bool.eqb (has_battery2 a) (has_battery2 b) && Bool.eqb (has_ext a) (has_ext b) &&
  Bool.eqb (has_ext2 a) (has_ext2 b) && Bool.eqb (has_mppt a) (has_mppt b) && Nat.eqb (meter_level a) (meter_level b).
Definition cres_eqb (a b : cres) : bool :=
  let '(r1, k1, c1) := a in let '(r2, k2, c2) := b in
  list_eqb block_eqb r1 r2 && caps_eqb c1 c2 &&
  match k1, k2 with Some x, Some y => list_eqb group_eqb x y | None, None => true | _, _ => false end.

Lemma block_eqb_eq a b : block_eqb a b = true -> a = b.
Proof. destruct a, b; cbn; intros H; try discriminate; reflexivity. Qed.
Lemma group_eqb_eq a b : group_eqb a b = true -> a = b.
Proof. destruct a, b; cbn; intros H; try discriminate; auto. apply Nat.eqb_eq in H. congruence. Qed.
Lemma list_eqb_eq {A} (eqb : A -> A -> bool) : (forall x y, eqb x y = true -> x = y) -> forall a b, list_eqb eqb a b = true -> a = b.
Proof.
  intros He. induction a as [|x a IH]; intros [|y b] H; cbn in H; try discriminate; auto.
  apply andb_prop in H. destruct H as [H1 H2]. rewrite (He _ _ H1), (IH _ H2). reflexivity.
Qed.
Lemma caps_eqb_eq a b : caps_eqb a b = true -> a = b.
Proof.
  destruct a, b. unfold caps_eqb. cbn. intros H. repeat (apply andb_prop in H; destruct H as [H ?]).
  repeat match goal with H : Bool.eqb _ _ = true |- _ => apply Bool.eqb_prop in H end.
  match goal with H : Nat.eqb _ _ = true |- _ => apply Nat.eqb_eq in H end. congruence.
Qed.
Lemma cres_eqb_eq a b : cres_eqb a b = true -> a = b.
Proof.
  destruct a as [[r1 k1] c1], b as [[r2 k2] c2]. cbn. intros H. apply andb_prop in H. destruct H as [H H3]. apply andb_prop in H. destruct H as [H1 H2].
  rewrite (list_eqb_eq _ block_eqb_eq _ _ H1), (caps_eqb_eq _ _ H2).
  destruct k1, k2; try discriminate; auto. rewrite (list_eqb_eq _ group_eqb_eq _ _ H3). reflexivity.
Qed.

Lemma program_is_model_all :
  forallb (fun c => forallb (fun e => forallb (fun l => cres_eqb (run_rrd e l et_read_runtime_data c) (read_runtime_data c e l)) all_loss) all_envs) all_caps = true.
Proof. vm_compute. reflexivity. Qed.

Lemma program_loss_big c e n : run_rrd e (Some (8 + n)) et_read_runtime_data c = run_rrd e None et_read_runtime_data c.
Proof.
  destruct c as [a b c d f l], e as [r1 r2 r3 r4 r5 z].
  destruct a, b, c, d, f, r1, r2, r3, r4, r5, z; reflexivity.
Qed.

(* the program translated from ET.read_runtime_data IS the capability model, for every capability set, every set of refused blocks, every lost request *)
Theorem read_runtime_data_refined c e lose : meter_level c <= 2 ->
  run_rrd e lose et_read_runtime_data c = read_runtime_data c e lose.
Proof.
  intros Hl.
  assert (Hfin : forall l, In l all_loss -> run_rrd e l et_read_runtime_data c = read_runtime_data c e l).
  { intros l Hin. pose proof program_is_model_all as K. rewrite forallb_forall in K. specialize (K c (all_caps_complete c Hl)).
    rewrite forallb_forall in K. specialize (K e (all_envs_complete e)). rewrite forallb_forall in K. apply cres_eqb_eq. exact (K l Hin). }
  destruct lose as [n|]. 2: { apply Hfin. left. reflexivity. }
  destruct (Nat.lt_ge_cases n 8) as [H|H].
  - apply Hfin. right. do 8 (destruct n as [|n]; [cbn; tauto|]). lia.
  - replace n with (8 + (n - 8)) by lia. rewrite program_loss_big, loss_big. apply Hfin. left. reflexivity.
Qed.

(* sensors() as translated lists exactly the groups of the model *)
Theorem sensors_refined c : run_sensors et_sensors_always et_sensors_guarded c = sensors_groups c.
Proof. destruct c as [a b c d f l]. destruct a, b, f; reflexivity. Qed.

From Coq Require Import List Bool Arith Lia.
From GW Require Import FailCount.
Import ListNotations.

Lemma after_last_succ_app_succ h : after_last_succ (h ++ [RSucc]) = [].
Proof.
  induction h as [|x h IH]; cbn [app after_last_succ]. reflexivity.
  replace (existsb is_succ (h ++ [RSucc])) with true. exact IH.
  symmetry. rewrite existsb_app. cbn. apply orb_true_r.
Qed.

Lemma after_last_succ_app_other h x : is_succ x = false -> after_last_succ (h ++ [x]) = after_last_succ h ++ [x].
Proof.
  intros Hx. induction h as [|y h IH]; cbn [app after_last_succ].
  - cbn. rewrite Hx. reflexivity.
  - rewrite existsb_app. cbn [existsb]. rewrite Hx. rewrite !orb_false_r.
    destruct (existsb is_succ h). exact IH. destruct (is_succ y); reflexivity.
Qed.

Lemma count_after_spec h : count_after 0 h = fails_since_success h.
Proof.
  unfold count_after, fails_since_success. induction h as [|x h IH] using rev_ind. reflexivity.
  rewrite fold_left_app. cbn [fold_left]. rewrite IH. destruct x; cbn [count_step fst].
  - rewrite after_last_succ_app_succ. reflexivity.
  - rewrite after_last_succ_app_other by reflexivity. rewrite filter_app, app_length. cbn. lia.
  - rewrite after_last_succ_app_other by reflexivity. rewrite filter_app, app_length. cbn. lia.
Qed.

Lemma count_run_app c h x : count_run c (h ++ [x]) = count_run c h ++ [snd (count_step (count_after c h) x)].
Proof.
  revert c. induction h as [|y h IH]; intros c; cbn [app count_run]. reflexivity.
  rewrite IH. reflexivity.
Qed.

(* the count carried by the exception of a failing request = number of failed requests since the last success,
   this one included; for every history, of any length *)
Theorem reported_count h :
  last (count_run 0 (h ++ [RFail])) None = Some (S (fails_since_success h)).
Proof. rewrite count_run_app, last_last. cbn. rewrite count_after_spec. reflexivity. Qed.

Theorem first_failure_reports_one h : last (count_run 0 (h ++ [RSucc; RFail])) None = Some 1.
Proof.
  replace (h ++ [RSucc; RFail]) with ((h ++ [RSucc]) ++ [RFail]) by (rewrite <- app_assoc; reflexivity).
  rewrite reported_count. unfold fails_since_success. rewrite after_last_succ_app_succ. reflexivity.
Qed.

(* Facts about the assignment sites listed by tools/flow.py (Gen/FlowGen.v), stated where the string scope is open. *)
From Coq Require Import List String.
From GW Require Import FlowGen.
Import ListNotations.
Open Scope string_scope.

(* the only places in the package that assign an attribute named keep_alive *)
Definition user_keep_alive_sites : list string := ["Inverter.set_keep_alive: self._protocol.keep_alive"; "InverterProtocol.__init__: self.keep_alive"].

Lemma keep_alive_sites_ok : keep_alive_assignments = user_keep_alive_sites.
Proof. reflexivity. Qed.

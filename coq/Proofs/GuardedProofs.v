(* set_grid_export_limit / set_ongrid_battery_dod with their getters (generated guards: Gen/ModesGen.v) on the register-file model:
   an argument outside the guard transmits nothing and changes nothing (C18); an accepted argument is read back by the getter (C19). *)
From Coq Require Import ZArith List Bool String Lia.
From GW Require Import Prelude PyStr PyFloat Sensors SensorProofs CodecProofs Settings TablesGen SettingsGen SettingsProofs SchedDef SharedGen
  Modes ModesGen ModesInst ModesProofs.
Import ListNotations.
Open Scope Z_scope.

Theorem gsetter_rejects settings sh g x r : gs_accepts g x = false -> run_gsetter settings sh g x r = Ok (r, []).
Proof. intros H. unfold run_gsetter. rewrite H. reflexivity. Qed.

Lemma gsetter_accepts_run settings sh g x r s : gs_accepts g x = true -> lookup (gs_id g) settings = Some s ->
  run_gsetter settings sh g x r = match write_setting sh r s (IInt (gs_tr g x)) with Ok (r', w) => Ok (r', [w]) | Exc e => Exc e end.
Proof. intros Ha Hl. unfold run_gsetter. rewrite Ha, Hl. reflexivity. Qed.

Lemma ggetter_run settings g r s : lookup (gs_id g) settings = Some s ->
  run_ggetter settings g r = match read_setting r s with
                            | Ok (VInt v) => Ok (Some (gs_tr g v))
                            | Ok VNone => match gs_compl g with None => Ok None | Some _ => Exc EType end
                            | Ok _ => Exc EType
                            | Exc e => Exc e end.
Proof. intros Hl. unfold run_ggetter. rewrite Hl. reflexivity. Qed.

(* ---------------------------------------------------------------- a 4-byte unsigned setting (Long) written and read back *)
Lemma to_bytes_u32 v : 0 <= v < 4294967296 ->
  to_bytes_big v 4 false = Ok [(v / 16777216) mod 256; (v / 65536) mod 256; (v / 256) mod 256; v mod 256].
Proof.
  intros H. unfold to_bytes_big. change (2 ^ (8 * 4)) with 4294967296.
  replace ((0 <=? v) && (v <? 4294967296)) with true by lia.
  change (Z.to_nat 4) with 4%nat. cbn [be_digits].
  change (256 ^ Z.of_nat 3) with 16777216. change (256 ^ Z.of_nat 2) with 65536. change (256 ^ Z.of_nat 1) with 256. change (256 ^ Z.of_nat 0) with 1.
  rewrite Z.div_1_r. reflexivity.
Qed.

Lemma u_at_four a b c d : u_at [a; b; c; d] 0 4 = ((a * 256 + b) * 256 + c) * 256 + d.
Proof. reflexivity. Qed.

Lemma digits32 v : 0 <= v < 4294967296 ->
  ((((v / 16777216) mod 256) * 256 + (v / 65536) mod 256) * 256 + (v / 256) mod 256) * 256 + v mod 256 = v.
Proof.
  intros H.
  pose proof (Z.div_mod v 256 ltac:(lia)) as H0.
  pose proof (Z.div_mod (v / 256) 256 ltac:(lia)) as H1.
  pose proof (Z.div_mod (v / 256 / 256) 256 ltac:(lia)) as H2.
  rewrite !Z.div_div in * by lia. change (256 * 256) with 65536 in *. change (65536 * 256) with 16777216 in *.
  assert (v / 16777216 < 256) by (apply Z.div_lt_upper_bound; lia). assert (0 <= v / 16777216) by (apply Z.div_pos; lia).
  rewrite (Z.mod_small (v / 16777216)) by lia. lia.
Qed.

Definition shape_ok2 (sh : ws_shape) : Prop := ws_rmw_size sh = 1 /\ ws_single_max sh = 2.

Theorem write_read_long sh r s v : shape_ok2 sh -> s_kind s = KLong -> s_size s = 4 -> 0 <= v < 4294967295 ->
  exists r', write_setting sh r s (IInt v) = Ok (r', (s_offset s, 2)) /\ read_setting r' s = Ok (VInt v) /\
             (forall x, x < s_offset s \/ s_offset s + 2 <= x -> r' x = r x).
Proof.
  intros [Hr Hm] Hk Hs Hv. unfold write_setting. rewrite Hs, Hr, Hk. cbn [Z.eqb Pos.eqb encode_value in_int bind].
  rewrite to_bytes_u32 by lia. cbv beta iota.
  set (bs := [(v / 16777216) mod 256; (v / 65536) mod 256; (v / 256) mod 256; v mod 256]).
  change (blen bs) with 4. rewrite Hm. cbn [Z.leb Z.compare Pos.compare Pos.compare_cont]. change (4 / 2) with 2.
  eexists. split; [reflexivity|]. split.
  - unfold read_setting, read_count. rewrite Hs. change (Z.to_nat ((4 + 4 mod 2) / 2)) with 2%nat.
    assert (Hb : Forall (fun b => 0 <= b < 256) bs) by (unfold bs; repeat constructor; apply Z.mod_pos_bound; lia).
    rewrite (rf_bytes_write_bytes 2 bs r (s_offset s) eq_refl Hb).
    unfold sensor_read. rewrite Hk. cbn [s_offset]. unfold bs. rewrite u_at_four, digits32 by lia.
    replace (v =? 4294967295) with false by lia. reflexivity.
  - intros x Hx. unfold bs. cbn [rf_write_bytes].
    destruct (x =? s_offset s + 1) eqn:E1; [lia|]. destruct (x =? s_offset s) eqn:E0; [lia|]. reflexivity.
Qed.

(* ---------------------------------------------------------------- the generated setters *)
Lemma generated_shapes_ok2 : shape_ok2 et_ws /\ shape_ok2 dt_ws.
Proof. split; split; reflexivity. Qed.

Definition the (o : option gsetter) : gsetter := match o with Some g => g | None => mkGS "" None None None end.

(* ET: export limit *)
Theorem et_export_limit_roundtrip r x : 0 <= x < 65535 ->
  et_export_limit <> None /\
  exists r' w, run_gsetter et_settings et_ws (the et_export_limit) x r = Ok (r', [w]) /\ run_ggetter et_settings (the et_export_limit) r' = Ok (Some x) /\
               (forall a, a <> fst w -> r' a = r a).
Proof.
  intros Hx. split; [discriminate|].
  assert (Ha : gs_accepts (the et_export_limit) x = true) by (unfold the, et_export_limit, gs_accepts; cbn [gs_lo gs_hi]; lia).
  assert (Hl : lookup (gs_id (the et_export_limit)) et_settings = Some (mkS "grid_export_limit" 47510 2 KInteger)) by (vm_compute; reflexivity).
  destruct (write_read_integer et_ws r (mkS "grid_export_limit" 47510 2 KInteger) x (proj1 generated_shapes_ok) eq_refl eq_refl ltac:(lia)) as (r' & W & R & F).
  exists r', (47510, 1). rewrite (gsetter_accepts_run _ _ _ _ _ _ Ha Hl), (ggetter_run _ _ _ _ Hl).
  change (gs_tr (the et_export_limit) x) with (x). rewrite W. split; [reflexivity|]. rewrite R. split; [reflexivity|exact F].
Qed.

Theorem et_export_limit_rejects r x : x < 0 -> run_gsetter et_settings et_ws (the et_export_limit) x r = Ok (r, []).
Proof. intros H. apply gsetter_rejects. unfold the, et_export_limit, gs_accepts. cbn. lia. Qed.

(* ET: depth of discharge *)
Theorem et_dod_roundtrip r x : 0 <= x <= 100 ->
  et_dod <> None /\
  exists r' w, run_gsetter et_settings et_ws (the et_dod) x r = Ok (r', [w]) /\ run_ggetter et_settings (the et_dod) r' = Ok (Some x) /\
               (forall a, a <> fst w -> r' a = r a).
Proof.
  intros Hx. split; [discriminate|].
  assert (Ha : gs_accepts (the et_dod) x = true) by (unfold the, et_dod, gs_accepts; cbn [gs_lo gs_hi]; lia).
  assert (Hl : lookup (gs_id (the et_dod)) et_settings = Some (mkS "battery_discharge_depth" 45356 2 KInteger)) by (vm_compute; reflexivity).
  destruct (write_read_integer et_ws r (mkS "battery_discharge_depth" 45356 2 KInteger) (100 - x) (proj1 generated_shapes_ok) eq_refl eq_refl ltac:(lia)) as (r' & W & R & F).
  exists r', (45356, 1). rewrite (gsetter_accepts_run _ _ _ _ _ _ Ha Hl), (ggetter_run _ _ _ _ Hl).
  change (gs_tr (the et_dod) x) with (100 - x). rewrite W. split; [reflexivity|]. rewrite R. split; [cbn [the et_dod gs_tr gs_compl]; do 2 f_equal; lia|exact F].
Qed.

Theorem et_dod_rejects r x : x < 0 \/ 100 < x -> run_gsetter et_settings et_ws (the et_dod) x r = Ok (r, []).
Proof. intros H. apply gsetter_rejects. unfold the, et_dod, gs_accepts. cbn. lia. Qed.

(* DT: export limit, three-phase (Integer at 40336) and single-phase (Long at 40328) models *)
Theorem dt_export_limit_roundtrip_three_phase r x : 0 <= x < 65535 ->
  dt_export_limit <> None /\
  exists r' w, run_gsetter (dt_settings true) dt_ws (the dt_export_limit) x r = Ok (r', [w]) /\ run_ggetter (dt_settings true) (the dt_export_limit) r' = Ok (Some x) /\
               (forall a, a <> fst w -> r' a = r a).
Proof.
  intros Hx. split; [discriminate|].
  assert (Ha : gs_accepts (the dt_export_limit) x = true) by (unfold the, dt_export_limit, gs_accepts; cbn [gs_lo gs_hi]; lia).
  assert (Hl : lookup (gs_id (the dt_export_limit)) (dt_settings true) = Some (mkS "grid_export_limit" 40336 2 KInteger)) by (vm_compute; reflexivity).
  destruct (write_read_integer dt_ws r (mkS "grid_export_limit" 40336 2 KInteger) x (proj2 generated_shapes_ok) eq_refl eq_refl ltac:(lia)) as (r' & W & R & F).
  exists r', (40336, 1). rewrite (gsetter_accepts_run _ _ _ _ _ _ Ha Hl), (ggetter_run _ _ _ _ Hl).
  change (gs_tr (the dt_export_limit) x) with (x). rewrite W. split; [reflexivity|]. rewrite R. split; [reflexivity|exact F].
Qed.

Theorem dt_export_limit_roundtrip_single_phase r x : 0 <= x < 4294967295 ->
  exists r' w, run_gsetter (dt_settings false) dt_ws (the dt_export_limit) x r = Ok (r', [w]) /\ run_ggetter (dt_settings false) (the dt_export_limit) r' = Ok (Some x) /\
               (forall a, a < fst w \/ fst w + snd w <= a -> r' a = r a).
Proof.
  intros Hx.
  assert (Ha : gs_accepts (the dt_export_limit) x = true) by (unfold the, dt_export_limit, gs_accepts; cbn [gs_lo gs_hi]; lia).
  assert (Hl : lookup (gs_id (the dt_export_limit)) (dt_settings false) = Some (mkS "grid_export_limit" 40328 4 KLong)) by (vm_compute; reflexivity).
  destruct (write_read_long dt_ws r (mkS "grid_export_limit" 40328 4 KLong) x (proj2 generated_shapes_ok2) eq_refl eq_refl ltac:(lia)) as (r' & W & R & F).
  exists r', (40328, 2). rewrite (gsetter_accepts_run _ _ _ _ _ _ Ha Hl), (ggetter_run _ _ _ _ Hl).
  change (gs_tr (the dt_export_limit) x) with (x). rewrite W. split; [reflexivity|]. rewrite R. split; [reflexivity|exact F].
Qed.

Theorem dt_export_limit_rejects tp r x : x < 0 -> run_gsetter (dt_settings tp) dt_ws (the dt_export_limit) x r = Ok (r, []).
Proof. intros H. apply gsetter_rejects. unfold the, dt_export_limit, gs_accepts. cbn. lia. Qed.

(* DT has no battery: both DoD methods raise "Operation not supported" *)
Theorem dt_dod_unsupported : dt_dod = None.
Proof. reflexivity. Qed.

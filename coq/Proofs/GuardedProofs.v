(* set_grid_export_limit / set_ongrid_battery_dod with their getters (generated guards: Gen/ModesGen.v) on the register-file model:
   an argument outside the guard transmits nothing and changes nothing (C18); an accepted argument is read back by the getter (C19). *)
From Coq Require Import ZArith List Bool String Lia.
From GW Require Import Prelude PyStr PyFloat Sensors SensorProofs CodecProofs Settings TablesGen SettingsGen SettingsProofs SchedDef SharedGen
  Modes ModesGen ModesInst ModesProofs.
Import ListNotations.
Open Scope Z_scope.

Theorem gsetter_rejects settings sh g x r : gs_accepts g x = false -> run_gsetter settings sh g x r = Ok (r, []).
Proof. intros H. unfold run_gsetter. rewrite H. reflexivity. Qed.

Lemma gsetter_accepts_run settings sh g x r s : gs_accepts g x = true -> lookup (gs_id g) settings = Some s ->
  run_gsetter settings sh g x r = match write_setting sh r s (IInt (gs_tr g x)) with Ok (r', w) => Ok (r', [w]) | Exc e => Exc e end.
Proof. intros Ha Hl. unfold run_gsetter. rewrite Ha, Hl. reflexivity. Qed.

Lemma ggetter_run settings g r s : lookup (gs_id g) settings = Some s ->
  run_ggetter settings g r = match read_setting r s with
                            | Ok (VInt v) => Ok (Some (gs_tr g v))
                            | Ok VNone => match gs_compl g with None => Ok None | Some _ => Exc EType end
                            | Ok _ => Exc EType
                            | Exc e => Exc e end.
Proof. intros Hl. unfold run_ggetter. rewrite Hl. reflexivity. Qed.











(* ---------------------------------------------------------------- the generated setters *)


Definition the (o : option gsetter) : gsetter := match o with Some g => g | None => mkGS "" None None None end.

(* ET: export limit *)
Theorem et_export_limit_roundtrip r x : 0 <= x < 65535 ->
  et_export_limit <> None /\
  exists r' w, run_gsetter et_settings et_ws (the et_export_limit) x r = Ok (r', [w]) /\ run_ggetter et_settings (the et_export_limit) r' = Ok (Some x) /\
               (forall a, a <> fst w -> r' a = r a).
Proof.
  intros Hx. split; [discriminate|].
  assert (Ha : gs_accepts (the et_export_limit) x = true) by (unfold the, et_export_limit, gs_accepts; cbn [gs_lo gs_hi]; lia).
  assert (Hl : lookup (gs_id (the et_export_limit)) et_settings = Some (mkS "grid_export_limit" 47510 2 KInteger)) by (vm_compute; reflexivity).
  destruct (write_read_integer et_ws r (mkS "grid_export_limit" 47510 2 KInteger) x (proj1 generated_shapes_ok) eq_refl eq_refl ltac:(lia)) as (r' & W & R & F).
  exists r', (47510, 1). rewrite (gsetter_accepts_run _ _ _ _ _ _ Ha Hl), (ggetter_run _ _ _ _ Hl).
  change (gs_tr (the et_export_limit) x) with (x). rewrite W. split; [reflexivity|]. rewrite R. split; [reflexivity|exact F].
Qed.

Theorem et_export_limit_rejects r x : x < 0 -> run_gsetter et_settings et_ws (the et_export_limit) x r = Ok (r, []).
Proof. intros H. apply gsetter_rejects. unfold the, et_export_limit, gs_accepts. cbn. lia. Qed.

(* ET: depth of discharge *)
Theorem et_dod_roundtrip r x : 0 <= x <= 100 ->
  et_dod <> None /\
  exists r' w, run_gsetter et_settings et_ws (the et_dod) x r = Ok (r', [w]) /\ run_ggetter et_settings (the et_dod) r' = Ok (Some x) /\
               (forall a, a <> fst w -> r' a = r a).
Proof.
  intros Hx. split; [discriminate|].
  assert (Ha : gs_accepts (the et_dod) x = true) by (unfold the, et_dod, gs_accepts; cbn [gs_lo gs_hi]; lia).
  assert (Hl : lookup (gs_id (the et_dod)) et_settings = Some (mkS "battery_discharge_depth" 45356 2 KInteger)) by (vm_compute; reflexivity).
  destruct (write_read_integer et_ws r (mkS "battery_discharge_depth" 45356 2 KInteger) (100 - x) (proj1 generated_shapes_ok) eq_refl eq_refl ltac:(lia)) as (r' & W & R & F).
  exists r', (45356, 1). rewrite (gsetter_accepts_run _ _ _ _ _ _ Ha Hl), (ggetter_run _ _ _ _ Hl).
  change (gs_tr (the et_dod) x) with (100 - x). rewrite W. split; [reflexivity|]. rewrite R. split; [cbn [the et_dod gs_tr gs_compl]; do 2 f_equal; lia|exact F].
Qed.

Theorem et_dod_rejects r x : x < 0 \/ 100 < x -> run_gsetter et_settings et_ws (the et_dod) x r = Ok (r, []).
Proof. intros H. apply gsetter_rejects. unfold the, et_dod, gs_accepts. cbn. lia. Qed.

(* DT: export limit, three-phase (Integer at 40336) and single-phase (Long at 40328) models *)
Theorem dt_export_limit_roundtrip_three_phase r x : 0 <= x < 65535 ->
  dt_export_limit <> None /\
  exists r' w, run_gsetter (dt_settings true) dt_ws (the dt_export_limit) x r = Ok (r', [w]) /\ run_ggetter (dt_settings true) (the dt_export_limit) r' = Ok (Some x) /\
               (forall a, a <> fst w -> r' a = r a).
Proof.
  intros Hx. split; [discriminate|].
  assert (Ha : gs_accepts (the dt_export_limit) x = true) by (unfold the, dt_export_limit, gs_accepts; cbn [gs_lo gs_hi]; lia).
  assert (Hl : lookup (gs_id (the dt_export_limit)) (dt_settings true) = Some (mkS "grid_export_limit" 40336 2 KInteger)) by (vm_compute; reflexivity).
  destruct (write_read_integer dt_ws r (mkS "grid_export_limit" 40336 2 KInteger) x (proj2 generated_shapes_ok) eq_refl eq_refl ltac:(lia)) as (r' & W & R & F).
  exists r', (40336, 1). rewrite (gsetter_accepts_run _ _ _ _ _ _ Ha Hl), (ggetter_run _ _ _ _ Hl).
  change (gs_tr (the dt_export_limit) x) with (x). rewrite W. split; [reflexivity|]. rewrite R. split; [reflexivity|exact F].
Qed.

Theorem dt_export_limit_roundtrip_single_phase r x : 0 <= x < 4294967295 ->
  exists r' w, run_gsetter (dt_settings false) dt_ws (the dt_export_limit) x r = Ok (r', [w]) /\ run_ggetter (dt_settings false) (the dt_export_limit) r' = Ok (Some x) /\
               (forall a, a < fst w \/ fst w + snd w <= a -> r' a = r a).
Proof.
  intros Hx.
  assert (Ha : gs_accepts (the dt_export_limit) x = true) by (unfold the, dt_export_limit, gs_accepts; cbn [gs_lo gs_hi]; lia).
  assert (Hl : lookup (gs_id (the dt_export_limit)) (dt_settings false) = Some (mkS "grid_export_limit" 40328 4 KLong)) by (vm_compute; reflexivity).
  destruct (write_read_long dt_ws r (mkS "grid_export_limit" 40328 4 KLong) x (proj2 generated_shapes_ok2) eq_refl eq_refl ltac:(lia)) as (r' & W & R & F).
  exists r', (40328, 2). rewrite (gsetter_accepts_run _ _ _ _ _ _ Ha Hl), (ggetter_run _ _ _ _ Hl).
  change (gs_tr (the dt_export_limit) x) with (x). rewrite W. split; [reflexivity|]. rewrite R. split; [reflexivity|exact F].
Qed.

Theorem dt_export_limit_rejects tp r x : x < 0 -> run_gsetter (dt_settings tp) dt_ws (the dt_export_limit) x r = Ok (r, []).
Proof. intros H. apply gsetter_rejects. unfold the, dt_export_limit, gs_accepts. cbn. lia. Qed.

(* DT has no battery: both DoD methods raise "Operation not supported" *)
Theorem dt_dod_unsupported : dt_dod = None.
Proof. reflexivity. Qed.

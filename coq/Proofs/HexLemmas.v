(* Hex formatting / parsing round trips for the string based AA55 request builders. *)
From Coq Require Import ZArith List Bool Lia String Ascii.
From GW Require Import Prelude PyStr PyLemmas BitLemmas CrcTable PyTac.
Import ListNotations.
Open Scope Z_scope.

Lemma in_py_range a b x : a <= x < b -> In x (py_range a b).
Proof. intros H. unfold py_range. apply in_range_up. rewrite Z2Nat.id by lia. lia. Qed.

(* hexstr_ok s b: s is an even-length hex string without blanks denoting the bytes b *)
Definition hexstr_ok (s : string) (b : list Z) : Prop :=
  forall rest, fromhex_l (str_to_list s ++ rest) = (r <- fromhex_l rest ;; Ok (b ++ r)).

Lemma str_to_list_app a b : str_to_list (a ++ b)%string = str_to_list a ++ str_to_list b.
Proof. induction a as [|c a IH]; simpl; [reflexivity | now rewrite IH]. Qed.

Lemma hexstr_ok_app s1 b1 s2 b2 : hexstr_ok s1 b1 -> hexstr_ok s2 b2 -> hexstr_ok (s1 ++ s2)%string (b1 ++ b2).
Proof.
  intros H1 H2 rest. rewrite str_to_list_app, <- app_assoc, H1, H2.
  destruct (fromhex_l rest); simpl; [now rewrite app_assoc | reflexivity].
Qed.

Lemma hexstr_ok_nil : hexstr_ok EmptyString [].
Proof. intros rest. simpl. destruct (fromhex_l rest); reflexivity. Qed.

Lemma hexstr_ok_fromhex s b : hexstr_ok s b -> fromhex s = Ok b.
Proof. intros H. unfold fromhex. specialize (H []). rewrite app_nil_r in H. rewrite H. simpl. now rewrite app_nil_r. Qed.

(* one byte: finite check lifted *)
Definition byte_pair_ok (v : Z) : bool :=
  match str_to_list (fmt_x 2 v) with
  | [c1; c2] => negb (is_space c1) &&
                match hex_val c1, hex_val c2 with Some h, Some l => h * 16 + l =? v | _, _ => false end
  | _ => false
  end.

Lemma byte_pair_all : forallb byte_pair_ok (py_range 0 256) = true.
Proof. vm_compute. reflexivity. Qed.

Lemma hexstr_ok_byte v : 0 <= v < 256 -> hexstr_ok (fmt_x 2 v) [v].
Proof.
  intros H rest. pose proof byte_pair_all as A. rewrite forallb_forall in A.
  specialize (A v (in_py_range 0 256 v H)). unfold byte_pair_ok in A.
  destruct (str_to_list (fmt_x 2 v)) as [|c1 [|c2 [|]]]; try discriminate.
  apply andb_prop in A. destruct A as [A1 A2].
  cbn [app fromhex_l]. apply negb_true_iff in A1. rewrite A1.
  destruct (hex_val c1); try discriminate. destruct (hex_val c2); try discriminate.
  apply Z.eqb_eq in A2. subst v. destruct (fromhex_l rest); reflexivity.
Qed.

Lemma hexstr_ok_bytes b : bytesP b -> hexstr_ok (hex_of_bytes b) b.
Proof.
  induction b as [|x tl IH]; intros H. apply hexstr_ok_nil.
  inversion H; subst. change (hex_of_bytes (x :: tl)) with (fmt_x 2 x ++ hex_of_bytes tl)%string.
  change (x :: tl) with ([x] ++ tl). apply hexstr_ok_app; [apply hexstr_ok_byte; assumption | apply IH; assumption].
Qed.

(* {:04x} of a 16-bit value is the hex image of its two bytes (65536 cases, computed) *)
Lemma fmt_x4_all :
  forallb (fun v => String.eqb (fmt_x 4 v) (hex_of_bytes [v / 256; v mod 256])) (py_range 0 65536) = true.
Proof. vm_compute. reflexivity. Qed.

Lemma fmt_x4_spec v : 0 <= v < 65536 -> fmt_x 4 v = hex_of_bytes [v / 256; v mod 256].
Proof.
  intros H. pose proof fmt_x4_all as A. rewrite forallb_forall in A.
  apply String.eqb_eq. apply A. apply in_py_range. exact H.
Qed.

Lemma hexstr_ok_x4 v : 0 <= v < 65536 -> hexstr_ok (fmt_x 4 v) [v / 256; v mod 256].
Proof.
  intros H. rewrite fmt_x4_spec by assumption. apply hexstr_ok_bytes.
  assert (0 <= v / 256 < 256) by (split; [apply Z.div_pos; lia | apply Z.div_lt_upper_bound; lia]).
  pose proof (Z.mod_pos_bound v 256 ltac:(lia)). bytesP_solve.
Qed.

Lemma hexstr_ok_lit s b : fromhex_l (str_to_list s) = Ok b ->
  (forall rest, fromhex_l (str_to_list s ++ rest) = (r <- fromhex_l rest ;; Ok (b ++ r))) -> hexstr_ok s b.
Proof. intros _ H. exact H. Qed.

Lemma sum_fold data : forall acc, fold_left (fun c e => c + e) data acc = acc + fold_right Z.add 0 data.
Proof. induction data as [|x tl IH]; intros acc; simpl. lia. rewrite IH. lia. Qed.

Lemma sum_bound data : bytesP data -> 0 <= fold_right Z.add 0 data <= 255 * blen data.
Proof.
  induction data as [|x tl IH]; intros H. unfold blen; simpl; lia.
  inversion H; subst. specialize (IH ltac:(assumption)). rewrite blen_cons. cbn [fold_right]. lia.
Qed.

(* Inverter._read_from_socket as translated from the current source (Gen/InverterGen.v) is count_step of Model/FailCount.v:
   a response resets the counter; MaxRetriesException / RequestFailedException increment it and raise RequestFailedException
   carrying the new value; every other exception -- RequestRejectedException in particular -- passes through and leaves the
   counter alone. *)
From Coq Require Import List Bool Arith.
From GW Require Import FailCount InvProg InverterGen InvProgInst.
Import ListNotations.


(* what command.execute() did, in the vocabulary of FailCount *)
Definition as_exec (r : rres) (e : iexn) : Prop :=
  match r with RSucc => False | RFail => e = IMaxRetries \/ e = IRequestFailed | RRej => e = IRequestRejected end.

Theorem read_from_socket_success c : step c None = (fst (count_step c RSucc), RReturn).
Proof. reflexivity. Qed.

Theorem read_from_socket_failure c e : as_exec RFail e ->
  step c (Some e) = (fst (count_step c RFail), RRaiseFailed (S c)) /\ snd (count_step c RFail) = Some (S c).
Proof. intros [-> | ->]; split; reflexivity. Qed.

Theorem read_from_socket_other c e : e <> IMaxRetries -> e <> IRequestFailed -> step c (Some e) = (c, RPropagate e).
Proof. intros H1 H2. destruct e; try reflexivity; congruence. Qed.

Theorem read_from_socket_rejected c : step c (Some IRequestRejected) = (fst (count_step c RRej), RPropagate IRequestRejected) /\ snd (count_step c RRej) = None.
Proof. split; reflexivity. Qed.

(* whole histories: the counts carried by the raised exceptions are those of count_run *)

Theorem read_from_socket_history h : forall c, run_calls c h = count_run c (map fst h).
Proof.
  induction h as [|[r w] tl IH]; intros c; [reflexivity|].
  cbn [run_calls map fst count_run]. destruct r, w; cbn; rewrite IH; reflexivity.
Qed.

(* the only exceptions that leave _read_from_socket are members of the InverterError family whenever execute() raised one *)
Theorem read_from_socket_stays_in_family c e : e <> IOther ->
  match snd (step c (Some e)) with RReturn => False | RRaiseFailed _ => True | RPropagate e' => e' = e /\ e' <> IOther end.
Proof. intros H. destruct e; cbn; auto; congruence. Qed.

(* ---------------------------------------------------------------- _map_response *)
From Coq Require Import ZArith String.
From GW Require Import Prelude PyStr PyFloat Sensors.

Definition raised_of (e : exn) : option pyraised :=
  match e with EValue => Some RValue | EIndex => Some RIndex | EOverflow => Some ROverflow | EKey => Some RKey | EZeroDiv => Some RZeroDiv
             | EType => Some RType | ENotImpl => Some RNotImpl | EAttr => Some RAttr | EPartial _ _ | ERejected _ => None end.

(* the entry _map_response stores for one sensor, with the except clause as generated from the current source *)
Definition map_entry_gen (data : list Z) (pos : posfn) (s : sensor) : res val :=
  match sensor_read data pos s with
  | Ok v => Ok v
  | Exc e => match raised_of e with
             | Some r => if becomes_none map_response_catches r then Ok VNone else Exc e
             | None => Exc e end
  end.

Theorem map_response_refined data pos s : map_entry_gen data pos s = map_entry data pos s.
Proof. unfold map_entry_gen, map_entry. destruct (sensor_read data pos s) as [v|[]]; reflexivity. Qed.

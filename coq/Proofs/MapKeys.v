(* The key list of Inverter._map_response -- loop and except clause as GENERATED from the current source (tools/rf2v.py, fail-closed on the
   shape `for sensor in sensors: try: result[sensor.id_] = sensor.read(response) except <classes>: result[sensor.id_] = None`) -- is the id
   list of the sensors it was given, WHATEVER the register contents: a value that cannot be decoded changes an entry, never the key set. *)
From Coq Require Import ZArith List Bool String.
From GW Require Import Prelude PyStr PyFloat Sensors InvProg InverterGen InvProgInst InvProgRefine.
Import ListNotations.

Definition map_response_gen (d : list Z) (pos : posfn) (t : list sensor) : res (list (string * val)) :=
  py_for t (fun s acc => v <- map_entry_gen d pos s ;; Ok (acc ++ [(s_id s, v)])) [].

Lemma map_keys_aux (g : sensor -> res val) t : forall acc r,
  py_for t (fun s acc => v <- g s ;; Ok (acc ++ [(s_id s, v)])) acc = Ok r -> map fst r = map fst acc ++ map s_id t.
Proof.
  induction t as [|s t IH]; intros acc r H; cbn [py_for] in H.
  - injection H as <-. rewrite app_nil_r. reflexivity.
  - destruct (g s) as [v|e] eqn:Eg; cbn [bind] in H; [|discriminate].
    apply IH in H. rewrite H, map_app. cbn. rewrite <- app_assoc. reflexivity.
Qed.

(* whenever _map_response returns, its keys are exactly the ids of the sensors, in order *)
Theorem map_response_gen_keys d pos t r : map_response_gen d pos t = Ok r -> map fst r = map s_id t.
Proof. intros H. apply map_keys_aux in H. exact H. Qed.

(* and it does return whenever no decoder raises anything but the exceptions the clause turns into None *)
Theorem map_response_gen_returns d pos t :
  (forall s, In s t -> exists v, map_entry_gen d pos s = Ok v) -> exists r, map_response_gen d pos t = Ok r /\ map fst r = map s_id t.
Proof.
  intros H. unfold map_response_gen.
  assert (G : forall acc, exists r, py_for t (fun s acc => v <- map_entry_gen d pos s ;; Ok (acc ++ [(s_id s, v)])) acc = Ok r).
  { induction t as [|s t IH]; intros acc; cbn [py_for].
    - eexists; reflexivity.
    - destruct (H s (or_introl eq_refl)) as (v & ->). cbn [bind].
      exact (IH (fun s' Hs' => H s' (or_intror Hs')) (acc ++ [(s_id s, v)])). }
  destruct (G []) as (r & Hr). exists r. split; auto. apply map_keys_aux in Hr. exact Hr.
Qed.

(* an undecodable value (ValueError) is reported as None under its id *)
Theorem map_entry_gen_value_error d pos s : sensor_read d pos s = Exc EValue -> map_entry_gen d pos s = Ok VNone.
Proof. intros H. rewrite map_response_refined. unfold map_entry. rewrite H. reflexivity. Qed.

(* C19 on the register-file model: for every operation mode of ET (eco-mode v2 settings), whatever the registers held before, after
   set_operation_mode(m, power, soc) get_operation_mode() returns m; for the emulated ECO_CHARGE / ECO_DISCHARGE the first eco-mode group
   decodes to the requested power / SoC.  Step lists, register numbers and enum values are GENERATED from the current source (Gen/ModesGen.v). *)
From Coq Require Import ZArith List Bool String Lia.
From GW Require Import Prelude PyStr PyFloat Sensors SensorProofs CodecProofs Settings TablesGen SettingsGen SettingsProofs SchedDef SharedGen Modes ModesGen ModesInst.
Import ListNotations.
Open Scope Z_scope.


Definition simple (m : mode) : bool := match m with MGeneral | MOffGrid | MBackup | MPeakShaving | MSelfUse => true | _ => false end.

Theorem simple_modes_roundtrip m r is745 prev p soc : simple m = true ->
  exists r', run_msteps (ctx is745 prev p soc) (et_set_mode m) r = Ok r' /\ get_operation_mode om_values et_settings r' = Ok (Some m).
Proof.
  intros Hs. destruct m; try discriminate; (eexists; split; [vm_compute; reflexivity | vm_compute; reflexivity]).
Qed.

(* what get_operation_mode answers when work_mode says ECO: decided by the first eco-mode group *)
Definition eco_classify (r : rfile) : res (option mode) :=
  match lookup "eco_mode_1" et_settings with
  | Some eco =>
      match read_setting r eco with
      | Ok (VSched x) => Ok (Some (if sched_is_charge x then MEcoCharge else if sched_is_discharge x then MEcoDischarge else MEco))
      | Ok _ => Exc ENotImpl
      | Exc e => Exc e end
  | None => Exc EValue end.

(* ECO: the steps do not touch the eco-mode groups, so the answer is ECO unless the first group already is a full-time charge / discharge
   group (the getter cannot tell these apart: KNOWN FINDING of C19) *)
Definition eco_sensor : sensor := mkS "eco_mode_1"%string 47547 12 (KSchedule 0).
Definition wm_sensor : sensor := mkS "work_mode"%string 47000 2 KInteger.

Lemma lookup_eco : lookup "eco_mode_1" et_settings = Some eco_sensor. Proof. vm_compute. reflexivity. Qed.
Lemma lookup_wm : lookup "work_mode" et_settings = Some wm_sensor. Proof. vm_compute. reflexivity. Qed.

(* get_operation_mode only looks at the work_mode register and (for ECO) at the six registers of the first group *)
Lemma get_mode_depends r r' : r' 47000 = r 47000 -> (forall i, 0 <= i < 6 -> r' (47547 + i) = r (47547 + i)) ->
  get_operation_mode om_values et_settings r' = get_operation_mode om_values et_settings r.
Proof.
  intros H0 H1. unfold get_operation_mode. rewrite lookup_eco, lookup_wm.
  assert (Ew : read_setting r' wm_sensor = read_setting r wm_sensor).
  { unfold read_setting, read_count. cbn [wm_sensor s_size s_offset]. change (Z.to_nat ((2 + 2 mod 2) / 2)) with 1%nat. cbn [rf_bytes]. rewrite H0. reflexivity. }
  assert (Ee : read_setting r' eco_sensor = read_setting r eco_sensor).
  { unfold read_setting, read_count. cbn [eco_sensor s_size s_offset]. change (Z.to_nat ((12 + 12 mod 2) / 2)) with 6%nat. cbn [rf_bytes].
    change (47547 + 1 + 1 + 1 + 1 + 1) with (47547 + 5). change (47547 + 1 + 1 + 1 + 1) with (47547 + 4). change (47547 + 1 + 1 + 1) with (47547 + 3).
    change (47547 + 1 + 1) with (47547 + 2). replace (r' 47547) with (r 47547) by (symmetry; apply (H1 0); lia).
    rewrite (H1 1), (H1 2), (H1 3), (H1 4), (H1 5) by lia. reflexivity. }
  rewrite Ew, Ee. reflexivity.
Qed.

Lemma get_mode_eco r : r 47000 = 3 -> get_operation_mode om_values et_settings r = eco_classify r.
Proof.
  intros H. unfold get_operation_mode, eco_classify. rewrite lookup_eco, lookup_wm.
  assert (Ew : read_setting r wm_sensor = Ok (VInt 3)).
  { unfold read_setting, read_count. cbn [wm_sensor s_size s_offset]. change (Z.to_nat ((2 + 2 mod 2) / 2)) with 1%nat. cbn [rf_bytes]. rewrite H. reflexivity. }
  rewrite Ew. reflexivity.
Qed.

Theorem eco_mode_roundtrip_partial r is745 prev p soc :
  exists r', run_msteps (ctx is745 prev p soc) (et_set_mode MEco) r = Ok r' /\
             get_operation_mode om_values et_settings r' = eco_classify r.
Proof.
  eexists. split. vm_compute. reflexivity.
  rewrite get_mode_eco by reflexivity. unfold eco_classify. rewrite lookup_eco.
  assert (Ee : forall ra rb : rfile, (forall i, 0 <= i < 6 -> ra (47547 + i) = rb (47547 + i)) -> read_setting ra eco_sensor = read_setting rb eco_sensor).
  { intros ra rb H1. unfold read_setting, read_count. cbn [eco_sensor s_size s_offset]. change (Z.to_nat ((12 + 12 mod 2) / 2)) with 6%nat. cbn [rf_bytes].
    change (47547 + 1 + 1 + 1 + 1 + 1) with (47547 + 5). change (47547 + 1 + 1 + 1 + 1) with (47547 + 4). change (47547 + 1 + 1 + 1) with (47547 + 3).
    change (47547 + 1 + 1) with (47547 + 2). replace (ra 47547) with (rb 47547) by (symmetry; apply (H1 0); lia).
    rewrite (H1 1), (H1 2), (H1 3), (H1 4), (H1 5) by lia. reflexivity. }
  erewrite Ee. reflexivity.
  intros i Hi. assert (i = 0 \/ i = 1 \/ i = 2 \/ i = 3 \/ i = 4 \/ i = 5) as [->|[->|[->|[->|[->| ->]]]]] by lia; reflexivity.
Qed.

(* ---------------------------------------------------------------- multi-register writes *)




Lemma be2_bytes v : Forall (fun b => 0 <= b < 256) (be2 v).
Proof. unfold be2. repeat constructor; apply Z.mod_pos_bound; lia. Qed.

Lemma charge_bytes ty p soc : ty = 0 \/ ty = 6 -> Forall (fun b => 0 <= b < 256) (sched_encode_charge ty p soc) /\ List.length (sched_encode_charge ty p soc) = 12%nat.
Proof.
  intros Ht. unfold sched_encode_charge. split.
  - repeat (apply Forall_app; split); try apply be2_bytes. destruct Ht as [-> | ->]; repeat constructor; lia.
  - reflexivity.
Qed.

Lemma discharge_bytes ty p : ty = 0 \/ ty = 6 -> Forall (fun b => 0 <= b < 256) (sched_encode_discharge ty p) /\ List.length (sched_encode_discharge ty p) = 12%nat.
Proof.
  intros Ht. unfold sched_encode_discharge. split.
  - repeat (apply Forall_app; split); try apply be2_bytes. destruct Ht as [-> | ->]; repeat constructor; lia. repeat constructor; lia.
  - reflexivity.
Qed.

(* the steps after the group write: switches of the groups 2-4 off, work_mode = ECO, on-line; they leave the first group alone *)
Definition tail_steps : list mstep :=
  [MWrite "eco_mode_2_switch"%string 0; MWrite "eco_mode_3_switch"%string 0; MWrite "eco_mode_4_switch"%string 0; MWrite "work_mode"%string 3; MSetOffline false].

Definition sw_sensor (n : Z) : sensor := mkS (String.append "eco_mode_" (String.append (match n with 2 => "2" | 3 => "3" | _ => "4" end) "_switch"))%string
                                                (match n with 2 => 47555 | 3 => 47561 | _ => 47567 end) 1 KByteH.
Lemma lookup_sw2 : lookup "eco_mode_2_switch" et_settings = Some (sw_sensor 2). Proof. vm_compute. reflexivity. Qed.
Lemma lookup_sw3 : lookup "eco_mode_3_switch" et_settings = Some (sw_sensor 3). Proof. vm_compute. reflexivity. Qed.
Lemma lookup_sw4 : lookup "eco_mode_4_switch" et_settings = Some (sw_sensor 4). Proof. vm_compute. reflexivity. Qed.

(* writing 0 to a one-byte (high half) setting: one single-register write; the low half goes back as it was read *)
Lemma write_byte_high_zero (r : rfile) s : s_kind s = KByteH -> s_size s = 1 ->
  write_setting et_ws r s (IInt 0) = Ok (fun x => if x =? s_offset s then be_signed [0; r (s_offset s) mod 256] mod 65536 else r x, (s_offset s, 1)).
Proof. intros Hk Hs. unfold write_setting. rewrite Hk, Hs. reflexivity. Qed.

Lemma write_work_mode_eco (r : rfile) : write_setting et_ws r wm_sensor (IInt 3) = Ok (fun x => if x =? 47000 then 3 else r x, (47000, 1)).
Proof. reflexivity. Qed.

Lemma tail_steps_run g is745 prev p soc :
  exists r', run_msteps (ctx is745 prev p soc) tail_steps g = Ok r' /\ r' 47000 = 3 /\ (forall i, 0 <= i < 6 -> r' (47547 + i) = g (47547 + i)).
Proof.
  unfold tail_steps. cbn [run_msteps run_mstep ctx c_settings c_shape c_offline om_offline].
  rewrite lookup_sw2, write_byte_high_zero by reflexivity.
  rewrite lookup_sw3, write_byte_high_zero by reflexivity.
  rewrite lookup_sw4, write_byte_high_zero by reflexivity.
  rewrite lookup_wm, write_work_mode_eco. cbn [rf_write_bytes sw_sensor s_offset].
  eexists. split. reflexivity. split. reflexivity.
  intros i Hi. assert (i = 0 \/ i = 1 \/ i = 2 \/ i = 3 \/ i = 4 \/ i = 5) as [->|[->|[->|[->|[->| ->]]]]] by lia; reflexivity.
Qed.

Lemma read_eco_of_bytes (r : rfile) bs : rf_bytes r 47547 6 = bs -> read_setting r eco_sensor = read_schedule bs 0.
Proof. intros H. unfold read_setting, read_count. cbn [eco_sensor s_size s_offset]. change (Z.to_nat ((12 + 12 mod 2) / 2)) with 6%nat. rewrite H. reflexivity. Qed.

Lemma rf_bytes_ext n : forall (ra rb : rfile) a, (forall i, 0 <= i < Z.of_nat n -> ra (a + i) = rb (a + i)) -> rf_bytes ra a n = rf_bytes rb a n.
Proof.
  induction n as [|n IH]; intros ra rb a H. reflexivity. cbn [rf_bytes].
  replace (ra a) with (rb a) by (specialize (H 0 ltac:(lia)); rewrite Z.add_0_r in H; auto).
  f_equal. f_equal. apply IH. intros i Hi. replace (a + 1 + i) with (a + (1 + i)) by lia. apply H. lia.
Qed.

Theorem eco_charge_roundtrip_rf r is745 prev p soc : 1 <= p <= 100 -> 0 <= soc <= 100 ->
  exists r' x, run_msteps (ctx is745 prev p soc) (et_set_mode MEcoCharge) r = Ok r' /\
               get_operation_mode om_values et_settings r' = Ok (Some MEcoCharge) /\
               read_setting r' eco_sensor = Ok (VSched x) /\ sched_decode_power (sc_type x) (sc_power x) = - p /\ sc_soc x = soc.
Proof.
  intros Hp Hs. unfold et_set_mode. cbn [run_msteps]. unfold run_mstep at 1. cbn [c_power c_soc ctx].
  replace ((p <? 0) || (p >? 100) || (soc <? 0) || (soc >? 100)) with false by lia.
  cbn [run_msteps]. unfold run_mstep at 1. cbn [ctx c_settings]. rewrite lookup_eco.
  cbn [c_prev_ty c_is745 c_power c_soc eco_sensor s_offset].
  change (c_power (ctx is745 prev p soc)) with p. change (c_soc (ctx is745 prev p soc)) with soc.
  match goal with |- context [set_schedule_type_eco' ?c ?b] => set (ty := set_schedule_type_eco' c b); assert (Hty : ty = 0 \/ ty = 6) by (apply schedule_type_after_set); clearbody ty end.
  set (g := rf_write_bytes r 47547 (sched_encode_charge ty p soc)).
  destruct (tail_steps_run g is745 prev p soc) as (r' & Hrun & Hwm & Hgrp).
  change (run_msteps (ctx is745 prev p soc) tail_steps g) with
    (run_msteps (ctx is745 prev p soc) [MWrite "eco_mode_2_switch"%string 0; MWrite "eco_mode_3_switch"%string 0; MWrite "eco_mode_4_switch"%string 0; MWrite "work_mode"%string 3; MSetOffline false] g) in Hrun.
  destruct (charge_bytes ty p soc Hty) as [Hb Hl].
  assert (Hbytes : rf_bytes r' 47547 6 = sched_encode_charge ty p soc).
  { rewrite (rf_bytes_ext 6 r' g 47547) by (intros i Hi; apply Hgrp; cbn in Hi; lia). unfold g. apply rf_bytes_write_bytes; auto. }
  pose proof (eco_charge_roundtrip ty p soc Hty Hp Hs) as Hok. unfold charge_ok in Hok.
  destruct (read_schedule (sched_encode_charge ty p soc) 0) as [[| | | | |s]|] eqn:Hrd; try discriminate.
  repeat (apply andb_prop in Hok; destruct Hok as [Hok ?]).
  exists r', s. split. exact Hrun. split.
  - rewrite get_mode_eco by exact Hwm. unfold eco_classify. rewrite lookup_eco, (read_eco_of_bytes r' _ Hbytes), Hrd.
    match goal with H : sched_is_charge s = true |- _ => rewrite H end. reflexivity.
  - split. rewrite (read_eco_of_bytes r' _ Hbytes). exact Hrd. split; apply Z.eqb_eq; assumption.
Qed.

Theorem eco_discharge_roundtrip_rf r is745 prev p soc : 1 <= p <= 100 -> 0 <= soc <= 100 ->
  exists r' x, run_msteps (ctx is745 prev p soc) (et_set_mode MEcoDischarge) r = Ok r' /\
               get_operation_mode om_values et_settings r' = Ok (Some MEcoDischarge) /\
               read_setting r' eco_sensor = Ok (VSched x) /\ sched_decode_power (sc_type x) (sc_power x) = p /\ sc_soc x = 100.
Proof.
  intros Hp Hs. unfold et_set_mode. cbn [run_msteps]. unfold run_mstep at 1. cbn [c_power c_soc ctx].
  replace ((p <? 0) || (p >? 100) || (soc <? 0) || (soc >? 100)) with false by lia.
  cbn [run_msteps]. unfold run_mstep at 1. cbn [ctx c_settings]. rewrite lookup_eco.
  cbn [c_prev_ty c_is745 c_power c_soc eco_sensor s_offset].
  change (c_power (ctx is745 prev p soc)) with p. change (c_soc (ctx is745 prev p soc)) with soc.
  match goal with |- context [set_schedule_type_eco' ?c ?b] => set (ty := set_schedule_type_eco' c b); assert (Hty : ty = 0 \/ ty = 6) by (apply schedule_type_after_set); clearbody ty end.
  set (g := rf_write_bytes r 47547 (sched_encode_discharge ty p)).
  destruct (tail_steps_run g is745 prev p soc) as (r' & Hrun & Hwm & Hgrp).
  change (run_msteps (ctx is745 prev p soc) tail_steps g) with
    (run_msteps (ctx is745 prev p soc) [MWrite "eco_mode_2_switch"%string 0; MWrite "eco_mode_3_switch"%string 0; MWrite "eco_mode_4_switch"%string 0; MWrite "work_mode"%string 3; MSetOffline false] g) in Hrun.
  destruct (discharge_bytes ty p Hty) as [Hb Hl].
  assert (Hbytes : rf_bytes r' 47547 6 = sched_encode_discharge ty p).
  { rewrite (rf_bytes_ext 6 r' g 47547) by (intros i Hi; apply Hgrp; cbn in Hi; lia). unfold g. apply rf_bytes_write_bytes; auto. }
  pose proof (eco_discharge_roundtrip ty p Hty Hp) as Hok. unfold discharge_ok in Hok.
  destruct (read_schedule (sched_encode_discharge ty p) 0) as [[| | | | |s]|] eqn:Hrd; try discriminate.
  repeat (apply andb_prop in Hok; destruct Hok as [Hok ?]).
  exists r', s. split. exact Hrun. split.
  - rewrite get_mode_eco by exact Hwm. unfold eco_classify. rewrite lookup_eco, (read_eco_of_bytes r' _ Hbytes), Hrd.
    assert (Hnc : sched_is_charge s = false).
    { unfold sched_is_charge, sched_is_discharge in *. repeat (match goal with H : _ && _ = true |- _ => apply andb_prop in H; destruct H end).
      match goal with H : (sc_power s >? 0) = true |- _ => apply Z.gtb_lt in H; replace (sc_power s <? 0) with false by lia end.
      rewrite !andb_false_r. reflexivity. }
    rewrite Hnc. match goal with H : sched_is_discharge s = true |- _ => rewrite H end. reflexivity.
  - split. rewrite (read_eco_of_bytes r' _ Hbytes). exact Hrd. split; apply Z.eqb_eq; assumption.
Qed.

(* the known finding of C19 on the model: a full-time charge group already in the registers, then set_operation_mode(ECO): the getter answers ECO_CHARGE *)
Definition r_full_time_charge : rfile := rf_write_bytes (fun _ => 0) 47547 (sched_encode_charge 0 50 80).
Lemma eco_refuted :
  match run_msteps (ctx false 0 100 100) (et_set_mode MEco) r_full_time_charge with
  | Ok r' => get_operation_mode om_values et_settings r'
  | Exc e => Exc e end = Ok (Some MEcoCharge).
Proof. vm_compute. reflexivity. Qed.

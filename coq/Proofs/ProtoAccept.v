(* C02 / C07 on the protocol model: a frame the validator ACCEPTS while a request is waiting for its answer completes the request's future with
   exactly that data -- alone, or appended to the stored fragment when it is the missing remainder --, disarms the response timer, resets the retry
   counter and wakes the waiting caller; nothing is raised in the event loop.  (That received IS the current source of datagram_received /
   data_received: C07_*_is_the_model.) *)
From Coq Require Import List Bool Arith Lia.
From RecordUpdate Require Import RecordSet.
From GW Require Import Proto.
Import ListNotations RecordSetNotations.

Lemma nth_set_nth_same {A} (l : list A) : forall n v d, n < List.length l -> nth n (set_nth n v l) d = v.
Proof. induction l as [|x l IH]; intros [|n] v d H; cbn in *; try lia; auto. apply IH. lia. Qed.

Lemma remove_nat_not_in x l : ~ In x (remove_nat x l).
Proof.
  induction l as [|y l IH]; cbn; auto. destruct (Nat.eqb x y) eqn:E; auto.
  intros [H|H]; [apply Nat.eqb_neq in E; congruence | auto].
Qed.

Lemma pending_lt s f : pending s f = true -> f < List.length (s_futs s).
Proof.
  unfold pending, fstat_of. intros H. destruct (Nat.lt_ge_cases f (List.length (s_futs s))) as [|Hge]; auto.
  rewrite nth_overflow in H by exact Hge. discriminate.
Qed.

(* the data handed to the validator: the datagram / segment alone, or glued to the stored fragment when it has exactly the missing length *)
Definition delivered (s : st) (id len : nat) : tok :=
  match s_partial s with
  | Some (p, plen, miss) => if Nat.eqb miss len && negb (Nat.eqb plen 0) then p ++ [id] else [id]
  | None => [id] end.

Theorem accepted_answer_completes_the_request s id len f :
  s_cmd s = true -> s_fut s = Some f -> pending s f = true ->
  let s' := fst (received s id len VAccept) in
  snd (received s id len VAccept) = [] /\
  fstat_of s' f = FResult (delivered s id len) /\
  s_retry s' = 0 /\
  (forall h, s_timer s = Some h -> ~ In h (s_handles s')) /\
  (forall k, awaiting f (s_tasks s) = Some k -> In (CbTask k) (s_ready s')).
Proof.
  intros Hc Hf Hp. pose proof (pending_lt _ _ Hp) as Hlt.
  unfold received, delivered. rewrite Hc. cbn [negb].
  assert (Hgen : forall s0 : st, s_fut s0 = Some f -> pending s0 f = true -> s_futs s0 = s_futs s -> s_tasks s0 = s_tasks s ->
            forall data,
            let r := (let s1 := s0 <| s_accepted := data :: s_accepted s0 |> in
                      match s_fut s1 with Some f0 => if pending s1 f0 then ((complete s1 f0 (FResult data)) <| s_retry := 0 |>, []) else (s1, []) | None => (s1, [ALoopExc]) end) in
            snd r = [] /\ fstat_of (fst r) f = FResult data /\ s_retry (fst r) = 0 /\ s_handles (fst r) = s_handles s0 /\
            (forall k, awaiting f (s_tasks s) = Some k -> In (CbTask k) (s_ready (fst r)))).
  { intros s0 Hf0 Hp0 Hfu Hta data. cbv zeta. cbn [s_fut set]. rewrite Hf0.
    assert (Hp1 : pending (s0 <| s_accepted := data :: s_accepted s0 |>) f = true) by exact Hp0. rewrite Hp1.
    cbn [fst snd]. unfold complete. cbv zeta. cbn [s_tasks s_futs set]. rewrite Hta.
    destruct (awaiting f (s_tasks s)) as [k|] eqn:Ea.
    - repeat split; auto.
      + unfold fstat_of, push. cbn. rewrite Hfu. apply nth_set_nth_same. exact Hlt.
      + intros k0 Hk. injection Hk as <-. unfold push. cbn. apply in_or_app. right. left. reflexivity.
    - repeat split; auto.
      + unfold fstat_of. cbn. rewrite Hfu. apply nth_set_nth_same. exact Hlt.
      + intros k0 Hk. discriminate. }
  (* the timer is cancelled first (UDP also clears the handle) *)
  set (s0 := match s_kind s with UDP => (cancel_timer s) <| s_timer := None |> | TCP => cancel_timer s end).
  assert (H0f : s_fut s0 = Some f) by (unfold s0, cancel_timer; destruct (s_kind s), (s_timer s); exact Hf).
  assert (H0u : s_futs s0 = s_futs s) by (unfold s0, cancel_timer; destruct (s_kind s), (s_timer s); reflexivity).
  assert (H0t : s_tasks s0 = s_tasks s) by (unfold s0, cancel_timer; destruct (s_kind s), (s_timer s); reflexivity).
  assert (H0p : pending s0 f = true) by (unfold pending, fstat_of in *; rewrite H0u; exact Hp).
  assert (H0par : s_partial s0 = s_partial s) by (unfold s0, cancel_timer; destruct (s_kind s), (s_timer s); reflexivity).
  assert (H0h : forall h, s_timer s = Some h -> ~ In h (s_handles s0)).
  { intros h Hh. unfold s0, cancel_timer. rewrite Hh. destruct (s_kind s); cbn; apply remove_nat_not_in. }
  rewrite H0par.
  destruct (s_partial s) as [[[p plen] miss]|] eqn:Epar.
  - destruct (Nat.eqb miss len && negb (Nat.eqb plen 0)) eqn:Em.
    + set (s0' := s0 <| s_partial := None |>).
      assert (H1f : s_fut s0' = Some f) by exact H0f.
      assert (H1u : s_futs s0' = s_futs s) by exact H0u.
      assert (H1t : s_tasks s0' = s_tasks s) by exact H0t.
      assert (H1p : pending s0' f = true) by exact H0p.
      assert (H1h : s_handles s0' = s_handles s0) by reflexivity.
      pose proof (Hgen s0' H1f H1p H1u H1t (p ++ [id])) as Hg. cbv zeta in Hg. destruct Hg as (A & B & C & D & E).
      repeat split; auto. intros h Hh Hin. apply (H0h h Hh). rewrite <- H1h, <- D. exact Hin.
    + pose proof (Hgen s0 H0f H0p H0u H0t [id]) as Hg. cbv zeta in Hg. destruct Hg as (A & B & C & D & E).
      repeat split; auto. intros h Hh Hin. apply (H0h h Hh). rewrite <- D. exact Hin.
  - pose proof (Hgen s0 H0f H0p H0u H0t [id]) as Hg. cbv zeta in Hg. destruct Hg as (A & B & C & D & E).
    repeat split; auto. intros h Hh Hin. apply (H0h h Hh). rewrite <- D. exact Hin.
Qed.

(* ---------------------------------------------------------------- C08 on the protocol model *)
From GW Require Import ProtoEvolves.

Lemma close_transport_handles s : s_handles (close_transport s) = s_handles s.
Proof.
  unfold close_transport. destruct (s_transport s) as [t|].
  - cbv zeta. assert (H : forall x, s_handles (tr_close x t) = s_handles x) by (intros x; unfold tr_close; destruct (tstate_of x t); reflexivity).
    match goal with |- context [match s_fut ?X with _ => _ end] => set (s1 := X) end.
    assert (H1 : s_handles s1 = s_handles s) by (unfold s1; cbn; apply H).
    destruct (s_fut s1) as [f|]; [|exact H1]. destruct (pending s1 f); [|exact H1].
    unfold complete. cbv zeta. destruct (awaiting f _); cbn; exact H1.
  - cbv zeta. destruct (s_fut s) as [f|]; [|reflexivity]. destruct (pending s f); [|reflexivity].
    unfold complete. cbv zeta. destruct (awaiting f _); reflexivity.
Qed.

(* a Modbus exception answer that arrives while a request is waiting completes the request's future with RequestRejectedException(code) in the same
   callback: nothing is transmitted again, nothing is raised in the loop, the response timer is disarmed (UDP closes the transport as well) *)
Theorem rejected_answer_fails_the_request_at_once s id len c f :
  s_cmd s = true -> s_fut s = Some f -> pending s f = true ->
  snd (received s id len (VRejected c)) = [] /\
  fstat_of (fst (received s id len (VRejected c))) f = FExc (XRejected c) /\
  (forall h, s_timer s = Some h -> ~ In h (s_handles (fst (received s id len (VRejected c))))).
Proof.
  intros Hc Hf Hp. pose proof (pending_lt _ _ Hp) as Hlt.
  unfold received. rewrite Hc. cbn [negb].
  set (s0 := match s_kind s with UDP => (cancel_timer s) <| s_timer := None |> | TCP => cancel_timer s end).
  assert (H0f : s_fut s0 = Some f) by (unfold s0, cancel_timer; destruct (s_kind s), (s_timer s); exact Hf).
  assert (H0u : s_futs s0 = s_futs s) by (unfold s0, cancel_timer; destruct (s_kind s), (s_timer s); reflexivity).
  assert (H0p : pending s0 f = true) by (unfold pending, fstat_of in *; rewrite H0u; exact Hp).
  assert (H0h : forall h, s_timer s = Some h -> ~ In h (s_handles s0)).
  { intros h Hh. unfold s0, cancel_timer. rewrite Hh. destruct (s_kind s); cbn; apply remove_nat_not_in. }
  (* whatever the fragment bookkeeping did, the state it leaves agrees with s0 on the future table, the current future, the kind and the handles *)
  assert (Hstep : forall s1 : st, s_fut s1 = Some f -> pending s1 f = true -> s_futs s1 = s_futs s -> s_handles s1 = s_handles s0 ->
            let s2 := match s_fut s1 with Some f0 => if pending s1 f0 then complete s1 f0 (FExc (XRejected c)) else s1 | None => s1 end in
            let r := match s_kind s2 with UDP => close_transport s2 | TCP => s2 end in
            fstat_of r f = FExc (XRejected c) /\ s_handles r = s_handles s0).
  { intros s1 H1f H1p H1u H1h. cbv zeta. rewrite H1f, H1p.
    assert (Hd : fstat_of (complete s1 f (FExc (XRejected c))) f = FExc (XRejected c)).
    { unfold complete. cbv zeta. destruct (awaiting f _); unfold fstat_of, push; cbn; rewrite H1u; apply nth_set_nth_same; exact Hlt. }
    assert (Hh2 : s_handles (complete s1 f (FExc (XRejected c))) = s_handles s0).
    { unfold complete. cbv zeta. destruct (awaiting f _); cbn; exact H1h. }
    destruct (s_kind (complete s1 f (FExc (XRejected c)))).
    - split.
      + pose proof (close_transport_evolves (complete s1 f (FExc (XRejected c)))) as Ev.
        rewrite (ev_done _ _ Ev f); [exact Hd| |rewrite Hd; discriminate].
        unfold complete. cbv zeta. destruct (awaiting f _); cbn; rewrite set_nth_length, H1u; exact Hlt.
      + rewrite close_transport_handles. exact Hh2.
    - split; assumption. }
  destruct (s_partial s0) as [[[p plen] miss]|] eqn:Epar.
  - destruct (Nat.eqb miss len && negb (Nat.eqb plen 0)) eqn:Em.
    + set (s0' := s0 <| s_partial := None |>).
      pose proof (Hstep s0' H0f H0p H0u eq_refl) as Hs. cbv zeta in Hs. destruct Hs as [A B].
      repeat split; auto. intros h Hh Hin. apply (H0h h Hh). rewrite <- B. exact Hin.
    + pose proof (Hstep s0 H0f H0p H0u eq_refl) as Hs. cbv zeta in Hs. destruct Hs as [A B].
      repeat split; auto. intros h Hh Hin. apply (H0h h Hh). rewrite <- B. exact Hin.
  - pose proof (Hstep s0 H0f H0p H0u eq_refl) as Hs. cbv zeta in Hs. destruct Hs as [A B].
    repeat split; auto. intros h Hh Hin. apply (H0h h Hh). rewrite <- B. exact Hin.
Qed.

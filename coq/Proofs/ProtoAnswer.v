(* C06, second half: "every caller receives the answer to its own request".
   Invariant of Model/Proto.v over ALL runs: whenever a future is pending, it is the protocol object's current
   response_future and exactly one caller task is awaiting it.  Hence data accepted while a caller waits completes that
   caller's future and nobody else's (the wire protocols carry no correlation id: "own answer" = the data accepted between
   the caller's transmission and the completion of the future that transmission created).
   Built on the lock invariant of ProtoMutex.v. *)
From Coq Require Import List Bool Arith Lia.
From RecordUpdate Require Import RecordSet.
From GW Require Import Proto ProtoEvolves ProtoProps ProtoBound ProtoMutex.
Import ListNotations RecordSetNotations.

Definition nopend (s : st) : Prop := forall f, pending s f = false.

(* futures only get completed, the protocol's response_future stays, tasks stay *)
Record fsame (s s' : st) : Prop := mkFs {
  fs_mono : forall f, pending s' f = true -> pending s f = true;
  fs_fut : s_fut s' = s_fut s;
  fs_has : forall k, pc_of s k <> None -> pc_of s' k <> None;
}.

Lemma fsame_refl s : fsame s s.
Proof. constructor; auto. Qed.

Lemma fsame_trans a b c : fsame a b -> fsame b c -> fsame a c.
Proof. intros [a1 a2 a3] [b1 b2 b3]. constructor; auto. congruence. Qed.

Lemma nopend_fsame s s' : fsame s s' -> nopend s -> nopend s'.
Proof. intros F N f. destruct (pending s' f) eqn:E; auto. pose proof (fs_mono _ _ F f E) as H. rewrite (N f) in H. discriminate. Qed.

(* same futures, same response_future, same task table *)
Lemma fsame_eq s s' : s_futs s' = s_futs s -> s_fut s' = s_fut s -> s_tasks s' = s_tasks s -> fsame s s'.
Proof.
  intros H1 H2 H3. constructor; auto.
  - intros f. unfold pending, fstat_of. rewrite H1. auto.
  - intros k. unfold pc_of. rewrite H3. auto.
Qed.

Ltac fs_eq := apply fsame_eq; cbn; auto.

Lemma push_fs s c : fsame s (push s c). Proof. fs_eq. Qed.
Lemma cancel_timer_fs s : fsame s (cancel_timer s). Proof. unfold cancel_timer. destruct (s_timer s); fs_eq. Qed.
Lemma arm_timer_fs s : fsame s (arm_timer s). Proof. fs_eq. Qed.
Lemma tr_close_fs s t : fsame s (tr_close s t). Proof. unfold tr_close. destruct (tstate_of s t); fs_eq. Qed.

Lemma complete_fs s f v : v <> FPending -> fsame s (complete s f v).
Proof.
  intros Hv.
  assert (H : fsame s (s <| s_futs := set_nth f v (s_futs s) |>)).
  { constructor; cbn; auto. intros g. unfold pending, fstat_of. cbn. destruct (Nat.eq_dec f g) as [->|Hn].
    - destruct (Nat.lt_ge_cases g (length (s_futs s))) as [Hl|Hl].
      + rewrite nth_set_nth_eq by auto. destruct v; congruence.
      + rewrite nth_overflow by (rewrite set_nth_length; lia). discriminate.
    - rewrite nth_set_nth_neq by auto. auto. }
  unfold complete. cbv zeta. destruct (awaiting _ _); auto. eapply fsame_trans. exact H. apply push_fs.
Qed.

Lemma complete_fs_exc s f e : fsame s (complete s f (FExc e)). Proof. apply complete_fs. discriminate. Qed.
Lemma complete_fs_canc s f : fsame s (complete s f FCancelled). Proof. apply complete_fs. discriminate. Qed.
Lemma complete_fs_res s f t : fsame s (complete s f (FResult t)). Proof. apply complete_fs. discriminate. Qed.
Ltac cfs := first [apply complete_fs_exc | apply complete_fs_canc | apply complete_fs_res].

Lemma close_transport_fs s : fsame s (close_transport s).
Proof.
  unfold close_transport. cbv zeta.
  set (s1 := match s_transport s with Some t => _ | None => s end).
  assert (H1 : fsame s s1).
  { unfold s1. destruct (s_transport s). eapply fsame_trans. apply tr_close_fs. fs_eq. apply fsame_refl. }
  eapply fsame_trans. exact H1.
  destruct (s_fut s1) as [f|]; [|apply fsame_refl].
  destruct (pending s1 f); [|apply fsame_refl]. cfs.
Qed.

Lemma error_received_fs s : fsame s (fst (error_received s)).
Proof.
  unfold error_received. destruct (s_fut s) as [f|]; cbn [fst]; [|apply fsame_refl].
  destruct (pending s f).
  - apply fsame_trans with (b := complete s f (FExc XOSError)). cfs. apply close_transport_fs.
  - apply close_transport_fs.
Qed.

Lemma timeout_mechanism_fs s : fsame s (fst (timeout_mechanism s)).
Proof.
  unfold timeout_mechanism. destruct (s_kind s), (s_fut s) as [f|]; cbn [fst]; try (destruct (pending s f)); cbn [fst];
    try apply fsame_refl; try solve [fs_eq].
  - eapply fsame_trans. 2: cfs. fs_eq.
  - eapply fsame_trans. 2: apply close_transport_fs. fs_eq.
Qed.

Lemma received_fs s id len v : fsame s (fst (received s id len v)).
Proof.
  unfold received. destruct (negb (s_cmd s)).
  { cbn [fst]. destruct (s_kind s). eapply fsame_trans. apply cancel_timer_fs. fs_eq. apply cancel_timer_fs. }
  cbv zeta.
  set (s0 := match s_kind s with UDP => _ | TCP => _ end).
  assert (F0 : fsame s s0).
  { unfold s0. destruct (s_kind s). eapply fsame_trans. apply cancel_timer_fs. fs_eq. apply cancel_timer_fs. }
  set (y := match s_partial s0 with Some _ => _ | None => _ end).
  assert (Fy : fsame s0 (snd y)).
  { unfold y. destruct (s_partial s0) as [[[p plen] miss]|]. destruct (_ && _); cbn [snd]. fs_eq. apply fsame_refl. apply fsame_refl. }
  destruct y as [[data dlen] s1]. cbn [snd] in Fy.
  assert (F1 : fsame s s1) by (eapply fsame_trans; eauto).
  destruct v.
  - set (s2 := s1 <| s_accepted := _ |>). assert (F2 : fsame s s2) by (eapply fsame_trans; [exact F1 | fs_eq]).
    destruct (s_fut s2) as [f|]; cbn [fst]; auto. destruct (pending s2 f); cbn [fst]; auto.
    eapply fsame_trans. exact F2. apply fsame_trans with (b := complete s2 f (FResult data)). cfs. fs_eq.
  - destruct (s_kind s1); cbn [fst]. eapply fsame_trans. exact F1. apply push_fs.
    destruct (s_fut s1) as [f|]; cbn [fst]; auto. destruct (pending s1 f); cbn [fst]; auto.
    eapply fsame_trans. exact F1. apply fsame_trans with (b := complete s1 f (FExc XRejectedEmpty)). cfs. apply close_transport_fs.
  - cbn [fst]. eapply fsame_trans. exact F1. eapply fsame_trans. 2: apply arm_timer_fs. fs_eq.
  - cbn [fst]. set (s2 := match s_fut s1 with Some f => _ | None => s1 end).
    assert (F2 : fsame s1 s2).
    { unfold s2. destruct (s_fut s1) as [f|]. destruct (pending s1 f). cfs. apply fsame_refl. apply fsame_refl. }
    eapply fsame_trans. exact F1. eapply fsame_trans. exact F2. destruct (s_kind s2). apply close_transport_fs. apply fsame_refl.
Qed.

Lemma lock_release_fs s : fsame s (lock_release s).
Proof.
  unfold lock_release. cbv zeta. destruct (s_waiters _) as [|[w [|]] tl]; try solve [fs_eq].
  match goal with |- context [match ?x with Some _ => _ | None => _ end] => destruct x end; fs_eq.
Qed.

Lemma release_if_locked_fs s : fsame s (release_if_locked s).
Proof. unfold release_if_locked. destruct (_ && _). apply lock_release_fs. apply fsame_refl. Qed.

Lemma ensure_lock_fs s : fsame s (ensure_lock s).
Proof. unfold ensure_lock. destruct (_ && _). apply fsame_refl. eapply fsame_trans; [|apply close_transport_fs]. fs_eq. Qed.

Lemma pc_of_put s k tk f : get_task k (s_tasks s) = Some tk ->
  forall k', pc_of (s <| s_tasks := put_task k (f tk) (s_tasks s) |>) k' <> None <-> pc_of s k' <> None.
Proof.
  intros Hk k'. unfold pc_of. cbn. destruct (Nat.eq_dec k' k) as [->|Hn].
  - rewrite get_put_same, Hk. cbn. split; discriminate.
  - rewrite get_put_other by auto. tauto.
Qed.

Lemma upd_task_fs s k f : fsame s (upd_task s k f).
Proof.
  unfold upd_task. destruct (get_task k (s_tasks s)) as [tk|] eqn:E; [|apply fsame_refl].
  constructor; cbn; auto. intros k'. apply (pc_of_put s k tk f E).
Qed.

Lemma set_pc_fs s k p : fsame s (set_pc s k p).
Proof.
  unfold set_pc. destruct (get_task k (s_tasks s)) as [tk|] eqn:E; [|apply fsame_refl].
  constructor; cbn; auto. intros k'. apply (pc_of_put s k tk (fun t => t <| t_pc := p |>) E).
Qed.

Lemma sr_finally_fs n : forall s, fsame s (sr_finally n s).
Proof.
  induction n as [|n IH]; intros s; cbn [sr_finally]. apply fsame_refl.
  cbv zeta. eapply fsame_trans. 2: apply IH.
  eapply fsame_trans. apply release_if_locked_fs.
  destruct (s_kind _). destruct (s_ka _). apply fsame_refl. apply close_transport_fs. apply fsame_refl.
Qed.

Lemma pc_of_set_pc_has s k p : pc_of s k <> None -> pc_of (set_pc s k p) k = Some p.
Proof.
  unfold pc_of, set_pc. destruct (get_task k (s_tasks s)) as [tk|] eqn:E. 2: { rewrite E. cbn. congruence. }
  intros _. cbn. rewrite get_put_same. reflexivity.
Qed.

(* ---------------------------------------------------------------- the request path of task k, started with no pending future *)
(* after the callback: the only pending future (if any) is the response_future and k awaits it *)
Definition NF (k : nat) (s : st) : Prop := forall f, pending s f = true -> s_fut s = Some f /\ pc_of s k = Some (PcAwait f).

Lemma nopend_NF k s : nopend s -> NF k s.
Proof. intros N f H. rewrite N in H. discriminate. Qed.

Lemma exec_finish_fs s k r : fsame s (fst (exec_finish s k r)).
Proof.
  unfold exec_finish. cbv zeta.
  set (s1 := s <| s_retry := 0 |>). assert (F1 : fsame s s1) by fs_eq.
  destruct (s_ka s1); cbn [fst]. eapply fsame_trans. exact F1. apply set_pc_fs.
  destruct (s_kind s1); cbn [fst]. eapply fsame_trans. exact F1. eapply fsame_trans. apply close_transport_fs. apply set_pc_fs.
  set (s2 := ensure_lock s1). assert (F2 : fsame s s2) by (eapply fsame_trans; [exact F1 | apply ensure_lock_fs]).
  destruct (_ && _); cbn [fst].
  - eapply fsame_trans. exact F2. eapply fsame_trans. 2: apply set_pc_fs.
    eapply fsame_trans. 2: apply lock_release_fs. eapply fsame_trans. 2: apply close_transport_fs. fs_eq.
  - eapply fsame_trans. exact F2. eapply fsame_trans. 2: apply set_pc_fs. fs_eq.
Qed.

Lemma sr_unwind_fs s k d r : fsame s (fst (sr_unwind s k d r)).
Proof. unfold sr_unwind. eapply fsame_trans. apply sr_finally_fs. apply exec_finish_fs. Qed.

Lemma pending_snoc l v f : nth f (l ++ [v]) FCancelled = if Nat.eqb f (length l) then v else nth f l FCancelled.
Proof.
  destruct (Nat.eqb_spec f (length l)) as [->|Hn].
  - rewrite app_nth2, Nat.sub_diag by lia. reflexivity.
  - destruct (Nat.lt_ge_cases f (length l)). apply app_nth1; auto.
    rewrite (nth_overflow l) by lia. rewrite nth_overflow; auto. rewrite app_length. cbn. lia.
Qed.

Lemma max_retries_nopend s : nopend s -> nopend (fst (max_retries s)) /\ (forall k, pc_of s k <> None -> pc_of (fst (max_retries s)) k <> None).
Proof.
  intros N. unfold max_retries. cbv zeta. cbn [fst].
  pose proof (close_transport_fs s) as F. pose proof (nopend_fsame _ _ F N) as N1. split.
  - intros f. unfold pending, fstat_of. cbn. rewrite pending_snoc. destruct (Nat.eqb f _). reflexivity. apply N1.
  - intros k Hk. apply (fs_has _ _ F) in Hk. exact Hk.
Qed.

Lemma do_send_F s k d t : nopend s -> pc_of s k <> None ->
  match snd (do_send s k d t) with
  | None => NF k (fst (fst (do_send s k d t)))
  | Some _ => nopend (fst (fst (do_send s k d t))) /\ pc_of (fst (fst (do_send s k d t))) k <> None
  end.
Proof.
  intros N Hk. unfold do_send. cbv zeta.
  set (f := length (s_futs s)).
  set (s2 := _ <| s_nsend := _ |>).
  assert (P2 : forall g, pending s2 g = true -> g = f).
  { intros g. unfold pending, fstat_of, s2. cbn. rewrite pending_snoc. fold f. destruct (Nat.eqb_spec g f); auto.
    intros H. specialize (N g). unfold pending, fstat_of in N. rewrite N in H. discriminate. }
  assert (U2 : s_fut s2 = Some f) by reflexivity.
  assert (K2 : pc_of s2 k <> None) by exact Hk.
  set (y := match s_sends s2 with b :: tl => (b, s2 <| s_sends := tl |>) | [] => (true, s2) end).
  assert (Fy : fsame s2 (snd y)) by (unfold y; destruct (s_sends s2); [apply fsame_refl | fs_eq]).
  destruct y as [ok sy]. cbn [snd] in Fy.
  set (z := if ok then _ else _).
  assert (Fz : fsame sy (fst z)).
  { unfold z. destruct ok. apply fsame_refl. destruct (s_kind sy).
    - pose proof (error_received_fs sy) as He. destruct (error_received sy). exact He.
    - apply tr_close_fs. }
  destruct z as [s3 acts]. cbn [fst] in Fz.
  set (s4 := arm_timer (cancel_timer s3)).
  assert (F4 : fsame s2 s4).
  { eapply fsame_trans. exact Fy. eapply fsame_trans. exact Fz. eapply fsame_trans. apply cancel_timer_fs. apply arm_timer_fs. }
  assert (Hdone : fstat_of s4 f <> FPending -> nopend s4 /\ pc_of s4 k <> None).
  { intros Hf. split. 2: apply (fs_has _ _ F4); exact K2.
    intros g. destruct (pending s4 g) eqn:E; auto. pose proof (P2 g (fs_mono _ _ F4 g E)) as ->.
    unfold pending in E. destruct (fstat_of s4 f); congruence. }
  destruct (fstat_of s4 f) eqn:E4; cbn [fst snd]; try (apply Hdone; discriminate).
  set (s5 := upd_task s4 k _).
  assert (F5 : fsame s2 (set_pc s5 k (PcAwait f))).
  { eapply fsame_trans. exact F4. eapply fsame_trans. apply upd_task_fs. apply set_pc_fs. }
  intros g Hg. pose proof (P2 g (fs_mono _ _ F5 g Hg)) as ->. split.
  - rewrite (fs_fut _ _ F5). exact U2.
  - apply pc_of_set_pc_has. apply (fs_has _ _ (fsame_trans _ _ _ F4 (upd_task_fs s4 k _))). exact K2.
Qed.

Section AttemptF.
  Variable again : st -> nat -> nat -> st * list action.
  Variable k : nat.
  Hypothesis again_F : forall s d, nopend s -> pc_of s k <> None -> NF k (fst (again s k d)).

  Lemma sr_unwind_F s d r : nopend s -> NF k (fst (sr_unwind s k d r)).
  Proof. intros N. apply nopend_NF. eapply nopend_fsame. apply sr_unwind_fs. exact N. Qed.

  Lemma sr_exception_F s d e : nopend s -> pc_of s k <> None -> NF k (fst (sr_exception again s k d e)).
  Proof.
    intros N Hk. unfold sr_exception. cbv zeta.
    assert (Hb : forall close : bool,
      NF k (fst (if Nat.ltb (s_retry s) (s_retries s)
              then again (if close then close_transport (release_if_locked (s <| s_retry := S (s_retry s) |>))
                          else release_if_locked (s <| s_retry := S (s_retry s) |>)) k (S d)
              else let '(s1, f) := max_retries s in sr_unwind s1 k d (RFut f)))).
    { intros close. destruct (Nat.ltb (s_retry s) (s_retries s)).
      - set (s1 := s <| s_retry := S (s_retry s) |>). assert (F1 : fsame s s1) by fs_eq.
        assert (F2 : fsame s (if close then close_transport (release_if_locked s1) else release_if_locked s1)).
        { eapply fsame_trans. exact F1. destruct close. eapply fsame_trans. apply release_if_locked_fs. apply close_transport_fs.
          apply release_if_locked_fs. }
        apply again_F. eapply nopend_fsame; eauto. apply (fs_has _ _ F2). exact Hk.
      - destruct (max_retries_nopend s N) as [N1 _]. destruct (max_retries s) as [s1 f]. cbn [fst] in N1. apply sr_unwind_F; auto. }
    destruct e, (s_kind s); try (apply sr_unwind_F; auto);
      first [ exact (Hb (negb (s_ka s))) | exact (Hb true) | exact (Hb false) ].
  Qed.

  Lemma sr_after_send_F s d t : nopend s -> pc_of s k <> None -> NF k (fst (sr_after_send again (do_send s k d t) k d)).
  Proof.
    intros N Hk. pose proof (do_send_F s k d t N Hk) as H.
    destruct (do_send s k d t) as [[s1 acts] res]. cbn [fst snd] in H. unfold sr_after_send.
    destruct res as [[f|e]|].
    - destruct H as [N1 K1]. pose proof (sr_unwind_F s1 d (RFut f) N1) as HQ. destruct (sr_unwind s1 k d (RFut f)). exact HQ.
    - destruct H as [N1 K1]. pose proof (sr_exception_F s1 d e N1 K1) as HQ. destruct (sr_exception again s1 k d e). exact HQ.
    - exact H.
  Qed.

  Lemma sr_locked_F s d : nopend s -> pc_of s k <> None -> NF k (fst (sr_locked again s k d)).
  Proof.
    intros N Hk. unfold sr_locked. cbv zeta.
    set (s1 := match s_kind s with TCP => _ | UDP => s end).
    assert (F1 : fsame s s1) by (unfold s1; destruct (s_kind s); [apply fsame_refl | apply upd_task_fs]).
    pose proof (nopend_fsame _ _ F1 N) as N1. pose proof (fs_has _ _ F1 k Hk) as K1.
    destruct (match s_transport s1 with Some t => _ | None => None end) as [t|].
    - apply sr_after_send_F. eapply nopend_fsame. apply upd_task_fs. exact N1. apply (fs_has _ _ (upd_task_fs s1 k _)). exact K1.
    - assert (Hwait : forall s2 p, fsame s1 s2 -> NF k (set_pc s2 k p)).
      { intros s2 p F2. apply nopend_NF. eapply nopend_fsame. apply set_pc_fs. eapply nopend_fsame; eauto. }
      destruct (s_conns s1) as [|c tl].
      + cbn [fst]. apply Hwait.
        eapply fsame_trans. 2: apply upd_task_fs.
        eapply fsame_trans. 2: apply push_fs. eapply fsame_trans. 2: apply push_fs. eapply fsame_trans. 2: apply push_fs. fs_eq.
      + set (sc := s1 <| s_conns := tl |>). assert (Fc : fsame s1 sc) by fs_eq.
        destruct c.
        * cbn [fst]. apply Hwait.
          eapply fsame_trans. 2: apply upd_task_fs.
          eapply fsame_trans. 2: apply push_fs. eapply fsame_trans. 2: apply push_fs. eapply fsame_trans. 2: apply push_fs.
          eapply fsame_trans. exact Fc. fs_eq.
        * assert (F3 : fsame s1 (upd_task sc k (fun tk => tk <| t_wf := false |>))) by (eapply fsame_trans; [exact Fc | apply upd_task_fs]).
          apply sr_exception_F. eapply nopend_fsame; eauto. apply (fs_has _ _ F3). exact K1.
        * destruct (s_kind sc).
          -- apply sr_exception_F. eapply nopend_fsame; eauto. apply (fs_has _ _ Fc). exact K1.
          -- cbn [fst]. apply Hwait. eapply fsame_trans. exact Fc. apply upd_task_fs.
  Qed.

  Lemma sr_attempt_body_F s d : nopend s -> pc_of s k <> None -> NF k (fst (sr_attempt_body again s k d)).
  Proof.
    intros N Hk. unfold sr_attempt_body. cbv zeta.
    set (s1 := ensure_lock s). assert (F1 : fsame s s1) by apply ensure_lock_fs.
    destruct (_ && _).
    - set (s2 := s1 <| s_lock := true |> <| s_owner := Some k |>).
      assert (F2 : fsame s s2) by (eapply fsame_trans; [exact F1 | fs_eq]).
      apply sr_locked_F. eapply nopend_fsame; eauto. apply (fs_has _ _ F2). exact Hk.
    - cbn [fst]. apply nopend_NF. eapply nopend_fsame. 2: exact N.
      eapply fsame_trans. exact F1. eapply fsame_trans. 2: apply set_pc_fs. eapply fsame_trans. 2: apply upd_task_fs. fs_eq.
  Qed.
End AttemptF.

Lemma sr_attempt_F fuel k : forall s d, nopend s -> pc_of s k <> None -> NF k (fst (sr_attempt fuel s k d)).
Proof.
  induction fuel as [|fuel IH]; intros s d N Hk; cbn [sr_attempt].
  - pose proof (exec_finish_fs s k (RRaise XCancelled)) as F. destruct (exec_finish s k (RRaise XCancelled)) as [s' a]. cbn [fst] in *.
    apply nopend_NF. eapply nopend_fsame; eauto.
  - apply sr_attempt_body_F; auto.
Qed.

(* ---------------------------------------------------------------- the invariant *)
Definition G (s : st) : Prop := forall f, pending s f = true -> s_fut s = Some f /\ exists k, pc_of s k = Some (PcAwait f).

Lemma NF_G k s : NF k s -> G s.
Proof. intros H f Hf. destruct (H f Hf). eauto. Qed.

(* a step that only completes futures and does not move a task that awaits a pending future *)
Lemma G_fsame s s' : G s -> fsame s s' ->
  (forall k f, pc_of s k = Some (PcAwait f) -> pending s f = true -> pc_of s' k = Some (PcAwait f)) -> G s'.
Proof.
  intros HG F Hpc f Hf. pose proof (fs_mono _ _ F f Hf) as Hf0. destruct (HG f Hf0) as [U (k & Hk)].
  split. rewrite (fs_fut _ _ F). exact U. exists k. eauto.
Qed.

(* with the lock invariant: pending future => its waiter is in the critical section *)
Lemma G_nopend_unlocked s : M None s -> G s -> s_lock s = false -> nopend s.
Proof.
  intros HM HG Hl f. destruct (pending s f) eqn:E; auto. destruct (HG f E) as [_ (k & Hk)].
  destruct (m_cs _ _ HM k _ ltac:(discriminate) Hk eq_refl) as [L _]. congruence.
Qed.

Lemma G_nopend_cs s k p : M None s -> G s -> pc_of s k = Some p -> cs p = true ->
  (forall f, p = PcAwait f -> pending s f = false) -> nopend s.
Proof.
  intros HM HG Hp Hc Hno f. destruct (pending s f) eqn:E; auto. destruct (HG f E) as [_ (k' & Hk')].
  destruct (m_cs _ _ HM k _ ltac:(discriminate) Hp Hc) as [_ O1].
  destruct (m_cs _ _ HM k' _ ltac:(discriminate) Hk' eq_refl) as [_ O2].
  assert (k' = k) by congruence. subst k'. rewrite Hp in Hk'. injection Hk' as ->. rewrite (Hno f eq_refl) in E. discriminate.
Qed.

Lemma G_nopend_invalid s : M None s -> G s -> ~ V s -> nopend s.
Proof.
  intros HM HG Hv f. destruct (pending s f) eqn:E; auto. destruct (HG f E) as [_ (k & Hk)].
  exfalso. apply Hv. apply (m_valid _ _ HM k _ ltac:(discriminate) Hk). reflexivity.
Qed.

Lemma task_step_G s k : M None s -> G s -> G (fst (task_step s k)).
Proof.
  intros HM HG. unfold task_step. destruct (get_task k (s_tasks s)) as [tk|] eqn:Hgk; [|exact HG].
  assert (Hpc : pc_of s k = Some (t_pc tk)) by (unfold pc_of; rewrite Hgk; reflexivity).
  assert (Hk : pc_of s k <> None) by congruence.
  (* a step of k that only completes futures: fine as long as k is not the waiter of a pending future *)
  assert (Hfs : forall s', fsame s s' -> (forall f, t_pc tk <> PcAwait f) ->
                (forall k', k' <> k -> pc_of s' k' = pc_of s k') -> G s').
  { intros s' F Hno Hoth. apply (G_fsame s s' HG F). intros k' f Hk' Hf. destruct (Nat.eq_dec k' k) as [->|Hn].
    - rewrite Hpc in Hk'. injection Hk' as Hk'. exfalso. eapply Hno; eauto.
    - rewrite Hoth; auto. }
  assert (Hclose : forall w, (forall f, t_pc tk <> PcAwait f) ->
     G (set_pc (lock_release (close_transport (s <| s_waiters := filter (fun p => negb (Nat.eqb (fst p) w)) (s_waiters s) |>
                                                 <| s_lock := true |> <| s_owner := Some k |>))) k PcDone)).
  { intros w Hno. apply Hfs; auto.
    - eapply fsame_trans. 2: apply set_pc_fs. eapply fsame_trans. 2: apply lock_release_fs.
      eapply fsame_trans. 2: apply close_transport_fs. fs_eq.
    - intros k' Hn. rewrite (ls_pcs _ _ _ (set_pc_ls _ k PcDone)) by congruence.
      destruct (lock_release_fields (close_transport (s <| s_waiters := filter (fun p => negb (Nat.eqb (fst p) w)) (s_waiters s) |>
                                                 <| s_lock := true |> <| s_owner := Some k |>))) as (_ & _ & _ & _ & _ & _ & T & _).
      unfold pc_of at 1. rewrite T. fold (pc_of (close_transport (s <| s_waiters := filter (fun p => negb (Nat.eqb (fst p) w)) (s_waiters s) |>
                                                 <| s_lock := true |> <| s_owner := Some k |>)) k').
      rewrite (ls_pcs _ _ _ (close_transport_ls None _)) by discriminate. reflexivity. }
  destruct (t_pc tk) eqn:E.
  - (* PcStart *)
    destruct (s_lock s) eqn:El.
    2: { eapply NF_G. apply sr_attempt_F; auto. apply G_nopend_unlocked; auto. }
    destruct (V_dec s) as [Hv|Hnv].
    2: { eapply NF_G. apply sr_attempt_F; auto. apply G_nopend_invalid; auto.
         intros [v1 v2]. rewrite v1, v2, Nat.eqb_refl in Hnv. discriminate. }
    (* the lock is taken: the coroutine only queues *)
    cbn [sr_attempt]. unfold sr_attempt_body. cbv zeta. rewrite (ensure_lock_V s Hv), El. cbn [negb andb fst].
    apply Hfs. 2: discriminate.
    + eapply fsame_trans. 2: apply set_pc_fs. eapply fsame_trans. 2: apply upd_task_fs. fs_eq.
    + intros k' Hn. rewrite (ls_pcs _ _ _ (set_pc_ls _ k _)) by congruence. rewrite (ls_pcs _ _ _ (upd_task_ls _ k _)) by congruence. reflexivity.
  - (* PcLockWait *) destruct (woken s w) eqn:Hwk; cbn [negb]; [|exact HG].
    destruct (woken_head _ _ _ (m_wq _ _ HM) Hwk) as (Hl & _).
    eapply NF_G. apply sr_locked_F. intros; apply sr_attempt_F; auto.
    + eapply nopend_fsame. 2: apply (G_nopend_unlocked s HM HG Hl). fs_eq.
    + exact Hk.
  - (* PcConnWait *)
    assert (N : nopend s) by (apply (G_nopend_cs s k _ HM HG Hpc eq_refl); intros; discriminate).
    destruct (t_cancelled tk).
    + set (s1 := upd_task s k _).
      assert (F1 : fsame s (tr_close s1 t)) by (eapply fsame_trans; [apply upd_task_fs | apply tr_close_fs]).
      eapply NF_G. apply sr_exception_F. intros; apply sr_attempt_F; auto. eapply nopend_fsame; eauto. apply (fs_has _ _ F1). exact Hk.
    + destruct (has_waiter k t (s_ready s)); [exact HG|].
      set (s1 := upd_task s k _).
      assert (F1 : fsame s (s1 <| s_transport := Some t |>)) by (apply fsame_trans with (b := s1); [apply upd_task_fs | fs_eq]).
      eapply NF_G. apply sr_after_send_F. intros; apply sr_attempt_F; auto. eapply nopend_fsame; eauto. apply (fs_has _ _ F1). exact Hk.
  - (* PcConnHang *)
    assert (N : nopend s) by (apply (G_nopend_cs s k _ HM HG Hpc eq_refl); intros; discriminate).
    eapply NF_G. apply sr_exception_F. intros; apply sr_attempt_F; auto. eapply nopend_fsame. apply upd_task_fs. exact N.
    apply (fs_has _ _ (upd_task_fs s k _)). exact Hk.
  - (* PcAwait *)
    assert (N : fstat_of s f <> FPending -> nopend s).
    { intros Hf. apply (G_nopend_cs s k _ HM HG Hpc eq_refl). intros f' [= <-]. unfold pending. destruct (fstat_of s f); congruence. }
    destruct (fstat_of s f) eqn:Ef.
    + exact HG.
    + eapply NF_G. apply sr_unwind_F. apply N. discriminate.
    + eapply NF_G. apply sr_exception_F; auto. intros; apply sr_attempt_F; auto. apply N. discriminate.
    + eapply NF_G. apply sr_exception_F; auto. intros; apply sr_attempt_F; auto. apply N. discriminate.
  - (* PcCloseLockWait *) destruct (woken s w); cbn [negb]; [|exact HG]. cbv zeta. cbn [fst]. apply Hclose. discriminate.
  - (* PcCloseStart *) destruct (s_kind s); cbn [fst].
    + apply Hfs. 2: discriminate. eapply fsame_trans. apply close_transport_fs. apply set_pc_fs.
      intros k' Hn. rewrite (ls_pcs _ _ _ (set_pc_ls _ k _)) by congruence. rewrite (ls_pcs _ _ _ (close_transport_ls None _)) by discriminate. reflexivity.
    + set (s1 := ensure_lock s).
      assert (F1 : fsame s s1) by apply ensure_lock_fs.
      assert (T1 : forall k', pc_of s1 k' = pc_of s k').
      { intros k'. unfold s1, ensure_lock. destruct (_ && _); auto.
        rewrite (ls_pcs _ _ _ (close_transport_ls None _)) by discriminate. reflexivity. }
      destruct (_ && _); cbn [fst].
      * apply Hfs. 2: discriminate.
        -- eapply fsame_trans. exact F1. eapply fsame_trans. 2: apply set_pc_fs. eapply fsame_trans. 2: apply lock_release_fs.
           eapply fsame_trans. 2: apply close_transport_fs. fs_eq.
        -- intros k' Hn. rewrite (ls_pcs _ _ _ (set_pc_ls _ k PcDone)) by congruence.
           match goal with |- pc_of (lock_release ?x) k' = _ =>
             destruct (lock_release_fields x) as (_ & _ & _ & _ & _ & _ & T & _); unfold pc_of at 1; rewrite T; fold (pc_of x k') end.
           rewrite (ls_pcs _ _ _ (close_transport_ls None _)) by discriminate. apply T1.
      * apply Hfs. 2: discriminate.
        -- eapply fsame_trans. exact F1. eapply fsame_trans. 2: apply set_pc_fs. fs_eq.
        -- intros k' Hn. rewrite (ls_pcs _ _ _ (set_pc_ls _ k _)) by congruence. apply T1.
  - (* PcCloseOnlyWait *) destruct (woken s w); cbn [negb]; [|exact HG]. cbn [fst]. apply Hclose. discriminate.
  - exact HG.
Qed.

Lemma G_ls s s' : G s -> lsame None s s' -> fsame s s' -> G s'.
Proof. intros HG L F. apply (G_fsame s s' HG F). intros k f Hk _. rewrite (ls_pcs _ _ _ L); auto. discriminate. Qed.

Lemma run_cb_G s c : M None s -> G s -> G (fst (run_cb s c)).
Proof.
  intros HM HG. destruct c; cbn [run_cb].
  - apply task_step_G; auto.
  - cbn [fst]. eapply G_ls; eauto.
    + destruct (tstate_of s t); cbn; destruct (s_kind s); constructor; cbn; auto.
    + destruct (tstate_of s t); cbn; destruct (s_kind s); fs_eq.
  - exact HG.
  - destruct (get_task k (s_tasks s)) as [tk|]; [|exact HG].
    destruct (t_pc tk); try exact HG. destruct (_ || _); [exact HG|]. cbn [fst]. eapply G_ls; eauto. apply push_ls. apply push_fs.
  - destruct (tstate_of s t); try exact HG. destruct i.
    + eapply G_ls; eauto. apply received_ls. apply received_fs.
    + cbn [fst]. eapply G_ls; eauto. eapply lsame_trans. apply close_transport_ls. apply tr_close_ls.
      eapply fsame_trans. apply close_transport_fs. apply tr_close_fs.
  - eapply G_ls; eauto. apply timeout_mechanism_ls. apply timeout_mechanism_fs.
  - destruct (mem_nat h (s_handles s)); [|exact HG].
    set (s1 := s <| s_handles := _ |>).
    assert (L1 : lsame None s s1) by (constructor; cbn; auto). assert (F1 : fsame s s1) by fs_eq.
    eapply G_ls; eauto. eapply lsame_trans. exact L1. apply timeout_mechanism_ls. eapply fsame_trans. exact F1. apply timeout_mechanism_fs.
  - destruct (tstate_of s t); try exact HG. cbn [fst].
    set (s1 := s <| s_tr := _ |>).
    assert (L1 : lsame None s s1) by (constructor; cbn; auto). assert (F1 : fsame s s1) by fs_eq.
    eapply G_ls; eauto. eapply lsame_trans. exact L1. apply close_transport_ls. eapply fsame_trans. exact F1. apply close_transport_fs.
  - destruct (tstate_of s t); try exact HG. eapply G_ls; eauto. apply error_received_ls. apply error_received_fs.
  - cbn [fst]. eapply G_ls; eauto. apply tr_close_ls. apply tr_close_fs.
  - destruct (get_task k (s_tasks s)) as [tk|]; [|exact HG].
    destruct (t_wf tk); [|exact HG].
    destruct (t_pc tk); try exact HG; cbv zeta; cbn [fst];
      (match goal with |- context [upd_task s k ?f] => pose proof (upd_task_ls_all None s k f (fun _ => eq_refl)) as Lu;
                                                         pose proof (upd_task_fs s k f) as Fu end;
       destruct (has_task k (s_ready s));
       [eapply G_ls; eauto | eapply G_ls; [exact HG | eapply lsame_trans; [exact Lu | apply push_ls] | eapply fsame_trans; [exact Fu | apply push_fs]]]).
Qed.

Lemma step_G s e r : M None s -> G s -> step s e = Some r -> G (fst r).
Proof.
  intros HM HG. destruct e; cbn [step]; intros H;
    repeat match type of H with
    | context [match ?x with _ => _ end] => destruct x eqn:?; try discriminate
    end; try (injection H as <-); cbn [fst].
  - (* EvPop *) set (s1 := s <| s_ready := l |>).
    assert (L : lsame None s s1) by (constructor; cbn; auto). assert (F : fsame s s1) by fs_eq.
    apply run_cb_G. eapply M_lsame; eauto. eapply G_ls; eauto.
  - eapply G_ls; eauto. apply push_ls. apply push_fs.
  - eapply G_ls; eauto. apply push_ls. apply push_fs.
  - eapply G_ls; eauto. apply push_ls. apply push_fs.
  - eapply G_ls; eauto. apply push_ls. apply push_fs.
  - eapply G_ls; eauto. apply push_ls. apply push_fs.
  - (* EvCall: a new task table entry *)
    intros f Hf. destruct (HG f Hf) as [U (k0 & Hk0)]. split. exact U. exists k0.
    unfold pc_of. cbn. rewrite (get_task_app_new _ _ _ Heqo). destruct (Nat.eqb_spec k0 k) as [->|Hn]; [|exact Hk0].
    unfold pc_of in Hk0. rewrite Heqo in Hk0. discriminate.
  - intros f Hf. destruct (HG f Hf) as [U (k0 & Hk0)]. split. exact U. exists k0.
    unfold pc_of. cbn. rewrite (get_task_app_new _ _ _ Heqo). destruct (Nat.eqb_spec k0 k) as [->|Hn]; [|exact Hk0].
    unfold pc_of in Hk0. rewrite Heqo in Hk0. discriminate.
  - eapply G_ls; eauto. constructor; cbn; auto. fs_eq.
  - eapply G_ls; eauto. constructor; cbn; auto. fs_eq.
  - (* EvNewLoop *) eapply G_fsame; eauto. fs_eq.
Qed.

Lemma init_G kd ka r : G (init kd ka r).
Proof. intros f H. unfold pending, fstat_of in H. cbn in H. destruct f; discriminate. Qed.

Lemma run_MG es : forall s s' acts, M None s -> G s -> run s es = Some (s', acts) -> M None s' /\ G s'.
Proof.
  induction es as [|e es IH]; intros s s' acts HM HG H; cbn [run] in H.
  - injection H as <- <-. auto.
  - destruct (step s e) as [[s1 a1]|] eqn:Es; try discriminate.
    destruct (run s1 es) as [[s2 a2]|] eqn:Er; try discriminate. injection H as <- <-.
    eapply IH. 3: exact Er. exact (proj1 (step_SQ _ _ _ HM Es)). exact (step_G _ _ _ HM HG Es).
Qed.

(* ---------------------------------------------------------------- the theorems *)
(* in every state of every run: a pending future is the protocol's response_future, and exactly one caller awaits it *)
Theorem pending_future_is_the_awaited_one es kd ka r s acts : run (init kd ka r) es = Some (s, acts) ->
  forall f, pending s f = true ->
    s_fut s = Some f /\ exists k, pc_of s k = Some (PcAwait f) /\ forall k' f', pc_of s k' = Some (PcAwait f') -> k' = k.
Proof.
  intros H f Hf. destruct (run_MG es _ _ _ (init_M kd ka r) (init_G kd ka r) H) as [HM HG].
  destruct (HG f Hf) as [U (k & Hk)]. split; auto. exists k. split; auto.
  intros k' f' Hk'. destruct (m_cs _ _ HM k _ ltac:(discriminate) Hk eq_refl) as [_ O1].
  destruct (m_cs _ _ HM k' _ ltac:(discriminate) Hk' eq_refl) as [_ O2]. congruence.
Qed.

(* a caller that waits for its answer waits on the protocol's current response_future: accepted data goes to this caller *)
Theorem waiting_caller_owns_the_response_future es kd ka r s acts : run (init kd ka r) es = Some (s, acts) ->
  forall k f, pc_of s k = Some (PcAwait f) -> pending s f = true -> s_fut s = Some f.
Proof. intros H k f _ Hf. exact (proj1 (pending_future_is_the_awaited_one _ _ _ _ _ _ H f Hf)). Qed.

(* ---------------------------------------------------------------- non-vacuity *)
Definition two_callers : list event :=
  [EvCall 0; EvCall 1] ++ repeat EvPop 6 ++ [EvIO 0 (IoData 7 10 VAccept)] ++ repeat EvPop 8 ++ [EvIO 1 (IoData 8 10 VAccept)] ++ repeat EvPop 3.

Lemma two_callers_run :
  option_map snd (run (init UDP false 1) two_callers) =
  Some [AOpen 0; ASend 0 0 0; ADone 0 (OResp [7]); AOpen 1; AClose 0; ASend 1 1 1; ADone 1 (OResp [8]); AClose 1].
Proof. vm_compute. reflexivity. Qed.

Lemma second_caller_queues :
  option_map (fun r => (pc_of (fst r) 0, pc_of (fst r) 1, pending (fst r) 0)) (run (init UDP false 1) ([EvCall 0; EvCall 1] ++ repeat EvPop 6)) =
  Some (Some (PcAwait 0), Some (PcLockWait 0), true).
Proof. vm_compute. reflexivity. Qed.

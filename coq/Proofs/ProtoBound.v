(* C04: the number of transmissions of a request is bounded by retries + 1 -- invariant of Model/Proto.v over all runs in
   which the callers use the object one after the other (run_seq). *)
From Coq Require Import List Bool Arith Lia.
From RecordUpdate Require Import RecordSet.
From GW Require Import Proto ProtoEvolves ProtoProps.
Import ListNotations RecordSetNotations.

(* ---------------------------------------------------------------- sequential use *)
Definition step_seq (s : st) (e : event) : option (st * list action) :=
  match e with
  | EvCall _ | EvCloseCall _ => if quiescent s then step s e else None
  | _ => step s e
  end.

Fixpoint run_seq (s : st) (es : list event) : option (st * list action) :=
  match es with
  | [] => Some (s, [])
  | e :: tl => match step_seq s e with
               | None => None
               | Some (s', a) => match run_seq s' tl with
                                 | None => None
                                 | Some (s'', a') => Some (s'', a ++ a') end
               end
  end.

(* ---------------------------------------------------------------- task table lemmas *)
Lemma get_put_same l k t : get_task k (put_task k t l) = Some t.
Proof.
  induction l as [|[k' t'] l IH]; cbn. rewrite Nat.eqb_refl. reflexivity.
  destruct (Nat.eqb_spec k k'); cbn. rewrite Nat.eqb_refl. reflexivity.
  rewrite (proj2 (Nat.eqb_neq k k')) by auto. exact IH.
Qed.

Lemma get_put_other l k k' t : k' <> k -> get_task k' (put_task k t l) = get_task k' l.
Proof.
  intros Hn. induction l as [|[k2 t2] l IH]; cbn.
  - rewrite (proj2 (Nat.eqb_neq k' k)) by auto. reflexivity.
  - destruct (Nat.eqb_spec k k2) as [->|Hk]; cbn.
    + rewrite (proj2 (Nat.eqb_neq k' k2)) by auto. reflexivity.
    + destruct (Nat.eqb_spec k' k2); auto.
Qed.

(* ---------------------------------------------------------------- frame: helpers that neither send, nor retry, nor touch tasks *)
Record frame (s s' : st) : Prop := mkFrame {
  fr_retry : s_retry s' = s_retry s;
  fr_retries : s_retries s' = s_retries s;
  fr_nsend : s_nsend s' = s_nsend s;
  fr_fut : s_fut s' = s_fut s;
  fr_tasks : forall k, option_map t_pc (get_task k (s_tasks s')) = option_map t_pc (get_task k (s_tasks s));
  fr_kind : s_kind s' = s_kind s;
  fr_ka : s_ka s' = s_ka s;
  fr_futs : forall f, fstat_of s' f = fstat_of s f \/
                      (fstat_of s f = FPending /\ (fstat_of s' f = FCancelled \/ exists e, fstat_of s' f = FExc e));
}.

Lemma frame_refl s : frame s s.
Proof. constructor; auto. Qed.

Lemma frame_trans a b c : frame a b -> frame b c -> frame a c.
Proof.
  intros [r1 t1 n1 f1 k1 kd1 ka1 u1] [r2 t2 n2 f2 k2 kd2 ka2 u2]. constructor; try congruence.
  intros f. destruct (u2 f) as [H2|[H2 H2']]; destruct (u1 f) as [H1|[H1 H1']].
  - left. congruence.
  - right. split; auto. destruct H1' as [H|[e H]]; [left|right; exists e]; congruence.
  - right. split. congruence. exact H2'.
  - exfalso. destruct H1' as [H|[e H]]; congruence.
Qed.

Ltac frame_same := constructor; cbn; auto.

Lemma push_frame s c : frame s (push s c). Proof. frame_same. Qed.
Lemma cancel_timer_frame s : frame s (cancel_timer s). Proof. unfold cancel_timer. destruct (s_timer s); frame_same. Qed.
Lemma arm_timer_frame s : frame s (arm_timer s). Proof. frame_same. Qed.
Lemma tr_close_frame s t : frame s (tr_close s t). Proof. unfold tr_close. destruct (tstate_of s t); frame_same. Qed.

Lemma lock_release_frame s : frame s (lock_release s).
Proof.
  unfold lock_release. cbv zeta. destruct (s_waiters _) as [|[w [|]] tl]; try solve [frame_same].
  match goal with |- context [match ?x with Some _ => _ | None => _ end] => destruct x end; frame_same.
Qed.

Lemma release_if_locked_frame s : frame s (release_if_locked s).
Proof. unfold release_if_locked. destruct (_ && _). apply lock_release_frame. apply frame_refl. Qed.

Lemma complete_frame s f v : pending s f = true -> (v = FCancelled \/ exists e, v = FExc e) -> frame s (complete s f v).
Proof.
  intros Hp Hv. unfold pending in Hp. destruct (fstat_of s f) eqn:E; try discriminate.
  pose proof (fstat_pending_lt _ _ E) as Hlt.
  assert (H : frame s (s <| s_futs := set_nth f v (s_futs s) |>)).
  { constructor; cbn; auto. intros g. unfold fstat_of. cbn. destruct (Nat.eq_dec f g) as [->|Hn].
    - right. split. exact E. rewrite nth_set_nth_eq by auto. destruct Hv as [->|[e ->]]; eauto.
    - left. apply nth_set_nth_neq; auto. }
  unfold complete. cbv zeta. destruct (awaiting _ _); auto. eapply frame_trans. exact H. apply push_frame.
Qed.

Lemma close_transport_frame s : frame s (close_transport s).
Proof.
  unfold close_transport. cbv zeta.
  set (s1 := match s_transport s with Some t => _ | None => s end).
  assert (H1 : frame s s1).
  { unfold s1. destruct (s_transport s). eapply frame_trans. apply tr_close_frame. frame_same. apply frame_refl. }
  eapply frame_trans. exact H1.
  destruct (s_fut s1) as [f|]; [|apply frame_refl].
  destruct (pending s1 f) eqn:Hp; [|apply frame_refl]. apply complete_frame; auto.
Qed.

Lemma ensure_lock_frame s : frame s (ensure_lock s).
Proof.
  unfold ensure_lock. destruct (_ && _). apply frame_refl.
  eapply frame_trans; [|apply close_transport_frame]. frame_same.
Qed.

Lemma error_received_frame s : frame s (fst (error_received s)).
Proof.
  unfold error_received. destruct (s_fut s) as [f|]; cbn [fst]; [|apply frame_refl].
  destruct (pending s f) eqn:Hp.
  - apply frame_trans with (b := complete s f (FExc XOSError)). apply complete_frame; eauto. apply close_transport_frame.
  - apply close_transport_frame.
Qed.

Lemma sr_finally_frame n s : frame s (sr_finally n s).
Proof.
  revert s. induction n as [|n IH]; intros s; cbn [sr_finally]. apply frame_refl.
  cbv zeta. eapply frame_trans. 2: apply IH.
  eapply frame_trans. apply release_if_locked_frame.
  destruct (s_kind _). destruct (s_ka _). apply frame_refl. apply close_transport_frame. apply frame_refl.
Qed.

Lemma pc_lookup s s' k tk' : (forall k, option_map t_pc (get_task k (s_tasks s')) = option_map t_pc (get_task k (s_tasks s))) ->
  get_task k (s_tasks s') = Some tk' -> exists tk, get_task k (s_tasks s) = Some tk /\ t_pc tk = t_pc tk'.
Proof.
  intros H Hk. specialize (H k). rewrite Hk in H. cbn in H. destruct (get_task k (s_tasks s)) as [tk|]; [|discriminate].
  cbn in H. injection H as H. eauto.
Qed.

Lemma upd_task_frame s k f : (forall t, t_pc (f t) = t_pc t) -> frame s (upd_task s k f).
Proof.
  intros Hf. unfold upd_task. destruct (get_task k (s_tasks s)) as [tk|] eqn:E; [|apply frame_refl].
  constructor; cbn; auto. intros k'. destruct (Nat.eq_dec k' k) as [->|Hn].
  - rewrite get_put_same, E. cbn. rewrite Hf. reflexivity.
  - rewrite get_put_other by auto. reflexivity.
Qed.

(* ---------------------------------------------------------------- the invariant *)
Definition req_active (p : pc) : bool :=
  match p with PcStart | PcLockWait _ | PcConnWait _ | PcConnHang | PcAwait _ => true | _ => false end.
Definition not_done (p : pc) : bool := match p with PcDone => false | _ => true end.

Definition fut_idle (s : st) : Prop := match s_fut s with Some f => pending s f = false | None => True end.

Definition active_ok (s : st) (p : pc) : Prop :=
  match p with
  | PcStart => s_nsend s = 0 /\ s_retry s = 0 /\ fut_idle s
  | PcLockWait _ | PcConnWait _ | PcConnHang => s_nsend s <= s_retry s /\ fut_idle s
  | PcAwait f => s_fut s = Some f /\ match fstat_of s f with FResult _ => True | _ => s_nsend s <= s_retry s + 1 end
  | _ => fut_idle s
  end.

Record B (s : st) : Prop := mkB {
  b_retry : s_retry s <= s_retries s;
  b_nsend : s_nsend s <= s_retries s + 1;
  b_one : forall k1 t1 k2 t2, get_task k1 (s_tasks s) = Some t1 -> get_task k2 (s_tasks s) = Some t2 ->
                              not_done (t_pc t1) = true -> not_done (t_pc t2) = true -> k1 = k2;
  b_ok : forall k tk, get_task k (s_tasks s) = Some tk -> not_done (t_pc tk) = true -> active_ok s (t_pc tk);
  b_quiet : (forall k tk, get_task k (s_tasks s) = Some tk -> req_active (t_pc tk) = false) -> s_retry s = 0 /\ fut_idle s;
}.

Lemma fut_idle_frame s s' : frame s s' -> fut_idle s -> fut_idle s'.
Proof.
  intros F H. unfold fut_idle in *. rewrite (fr_fut _ _ F). destruct (s_fut s) as [f|]; auto.
  unfold pending in *. destruct (fr_futs _ _ F f) as [E|[E _]]. rewrite E. exact H. rewrite E in H. discriminate.
Qed.

Lemma active_ok_frame s s' p : frame s s' -> active_ok s p -> active_ok s' p.
Proof.
  intros F H. pose proof (fut_idle_frame _ _ F) as HI.
  destruct p; cbn [active_ok] in *; rewrite ?(fr_nsend _ _ F), ?(fr_retry _ _ F), ?(fr_fut _ _ F); try tauto.
  destruct H as [H1 H2]. split; auto.
  destruct (fr_futs _ _ F f) as [E|[E E']]. rewrite E. exact H2.
  rewrite E in H2. destruct E' as [E'|[e E']]; rewrite E'; exact H2.
Qed.

Lemma B_frame s s' : frame s s' -> B s -> B s'.
Proof.
  intros F [b1 b2 b3 b4 b5]. pose proof (fr_tasks _ _ F) as FT.
  constructor; rewrite ?(fr_retry _ _ F), ?(fr_retries _ _ F), ?(fr_nsend _ _ F); auto.
  - intros k1 t1 k2 t2 H1 H2 N1 N2.
    destruct (pc_lookup _ _ _ _ FT H1) as (u1 & U1 & E1). destruct (pc_lookup _ _ _ _ FT H2) as (u2 & U2 & E2).
    eapply b3; eauto; congruence.
  - intros k tk Hk Hn. destruct (pc_lookup _ _ _ _ FT Hk) as (u & U & E). rewrite <- E in *.
    eapply active_ok_frame; eauto.
  - intros H. assert (H' : forall k tk, get_task k (s_tasks s) = Some tk -> req_active (t_pc tk) = false).
    { intros k tk Hk. specialize (FT k). rewrite Hk in FT. cbn in FT.
      destruct (get_task k (s_tasks s')) as [tk'|] eqn:E; [|discriminate]. cbn in FT. injection FT as FT.
      rewrite <- FT. eapply H; eauto. }
    destruct (b5 H') as [H1 H2]. split; auto. eapply fut_idle_frame; eauto.
Qed.

(* ---------------------------------------------------------------- while task k runs synchronous code *)
Record mid (s : st) (k : nat) : Prop := mkMid {
  m_retry : s_retry s <= s_retries s;
  m_nsend : s_nsend s <= s_retries s + 1;
  m_others : forall k' tk', get_task k' (s_tasks s) = Some tk' -> k' <> k -> t_pc tk' = PcDone;
  m_has : exists tk, get_task k (s_tasks s) = Some tk;
}.

Lemma mid_frame s s' k : frame s s' -> mid s k -> mid s' k.
Proof.
  intros F [m1 m2 m3 [tk Hk]]. pose proof (fr_tasks _ _ F) as FT.
  constructor; rewrite ?(fr_retry _ _ F), ?(fr_retries _ _ F), ?(fr_nsend _ _ F); auto.
  - intros k' tk' H Hn. destruct (pc_lookup _ _ _ _ FT H) as (u & U & E). rewrite <- E. eapply m3; eauto.
  - specialize (FT k). rewrite Hk in FT. cbn in FT. destruct (get_task k (s_tasks s')); [eauto|discriminate].
Qed.

(* leaving the synchronous section: the task's program counter is stored *)
Lemma B_of_mid s k p :
  mid s k -> (not_done p = true -> active_ok s p) -> (req_active p = false -> s_retry s = 0 /\ fut_idle s) -> B (set_pc s k p).
Proof.
  intros [m1 m2 m3 [tk Hk]] Hok Hq. unfold set_pc. rewrite Hk.
  set (s' := s <| s_tasks := put_task k (tk <| t_pc := p |>) (s_tasks s) |>).
  assert (Hget : forall k' t', get_task k' (s_tasks s') = Some t' -> (k' = k /\ t_pc t' = p) \/ (k' <> k /\ t_pc t' = PcDone)).
  { intros k' t' H. cbn in H. destruct (Nat.eq_dec k' k) as [->|Hn].
    - rewrite get_put_same in H. injection H as <-. left. auto.
    - rewrite get_put_other in H by auto. right. split; auto. eapply m3; eauto. }
  assert (Hact : forall q, active_ok s' q <-> active_ok s q).
  { intros q. unfold active_ok, fut_idle, pending, fstat_of. cbn. tauto. }
  constructor; cbn; auto.
  - intros k1 t1 k2 t2 H1 H2 N1 N2.
    destruct (Hget _ _ H1) as [[-> _]|[_ E]]; [|rewrite E in N1; discriminate].
    destruct (Hget _ _ H2) as [[-> _]|[_ E]]; [|rewrite E in N2; discriminate]. reflexivity.
  - intros k' t' H N. destruct (Hget _ _ H) as [[-> E]|[_ E]]; rewrite E in *; [|discriminate].
    apply Hact. apply Hok. exact N.
  - intros H. assert (Hp : req_active p = false).
    { specialize (H k (tk <| t_pc := p |>)). cbn in H. rewrite get_put_same in H. apply H. reflexivity. }
    destruct (Hq Hp) as [H1 H2]. split; auto.
Qed.

(* ---------------------------------------------------------------- the coroutine *)
Lemma mid_set_retry s k n : mid s k -> n <= s_retries s -> mid (s <| s_retry := n |>) k.
Proof. intros [m1 m2 m3 m4] H. constructor; cbn; auto. Qed.

Lemma exec_finish_B s k r : mid s k -> fut_idle s -> B (fst (exec_finish s k r)).
Proof.
  intros M I. unfold exec_finish. cbv zeta. set (s0 := s <| s_retry := 0 |>).
  assert (M0 : mid s0 k) by (apply mid_set_retry; auto; lia).
  assert (I0 : fut_idle s0) by exact I.
  assert (R0 : s_retry s0 = 0) by reflexivity.
  assert (Hdone : forall s1, frame s0 s1 -> B (set_pc s1 k PcDone)).
  { intros s1 F. apply B_of_mid. eapply mid_frame; eauto. discriminate.
    intros _. split. rewrite (fr_retry _ _ F). exact R0. eapply fut_idle_frame; eauto. }
  destruct (s_ka s0); cbn [fst]. apply Hdone, frame_refl.
  destruct (s_kind s0); cbn [fst]. apply Hdone, close_transport_frame.
  set (s1 := ensure_lock s0). assert (F1 : frame s0 s1) by apply ensure_lock_frame.
  destruct (_ && _); cbn [fst].
  - apply Hdone. eapply frame_trans. exact F1. eapply frame_trans. 2: apply lock_release_frame.
    eapply frame_trans. 2: apply close_transport_frame. frame_same.
  - set (s2 := s1 <| s_waiters := _ |> <| s_nextw := _ |>).
    assert (F2 : frame s0 s2) by (eapply frame_trans; [exact F1 | frame_same]).
    apply B_of_mid. eapply mid_frame; eauto.
    + intros _. cbn. eapply fut_idle_frame; eauto.
    + intros _. split. rewrite (fr_retry _ _ F2). exact R0. eapply fut_idle_frame; eauto.
Qed.

Lemma sr_unwind_B s k d r : mid s k -> fut_idle s -> B (fst (sr_unwind s k d r)).
Proof.
  intros M I. unfold sr_unwind. pose proof (sr_finally_frame (S d) s) as F.
  apply exec_finish_B. eapply mid_frame; eauto. eapply fut_idle_frame; eauto.
Qed.

Lemma max_retries_spec s k : mid s k -> mid (fst (max_retries s)) k /\ fut_idle (fst (max_retries s)).
Proof.
  intros M. unfold max_retries. cbv zeta. cbn [fst]. pose proof (close_transport_frame s) as F.
  set (s1 := close_transport s) in *. pose proof (mid_frame _ _ _ F M) as [m1 m2 m3 m4].
  split. constructor; cbn; auto.
  unfold fut_idle, pending, fstat_of. cbn. rewrite app_nth2, Nat.sub_diag by lia. reflexivity.
Qed.

(* _send_request + await: either the task is suspended on the fresh future, or the send failed synchronously *)
Lemma do_send_spec s k d t : mid s k -> s_nsend s <= s_retry s ->
  match snd (do_send s k d t) with
  | None => B (fst (fst (do_send s k d t)))
  | Some _ => mid (fst (fst (do_send s k d t))) k /\ fut_idle (fst (fst (do_send s k d t))) /\
              s_nsend (fst (fst (do_send s k d t))) <= s_retry (fst (fst (do_send s k d t))) + 1
  end.
Proof.
  intros M Hn. unfold do_send. cbv zeta.
  set (f := length (s_futs s)).
  set (s2 := _ <| s_nsend := _ |>).
  destruct M as [m1 m2 m3 m4].
  assert (M2 : mid s2 k) by (constructor; cbn; auto; lia).
  assert (P2 : fstat_of s2 f = FPending) by (unfold fstat_of, s2, f; cbn; rewrite app_nth2, Nat.sub_diag by lia; reflexivity).
  assert (U2 : s_fut s2 = Some f) by reflexivity.
  assert (N2 : s_nsend s2 = S (s_nsend s)) by reflexivity.
  assert (R2 : s_retry s2 = s_retry s /\ s_retries s2 = s_retries s) by (split; reflexivity).
  set (y := match s_sends s2 with b :: tl => (b, s2 <| s_sends := tl |>) | [] => (true, s2) end).
  assert (Fy : frame s2 (snd y)) by (unfold y; destruct (s_sends s2); [apply frame_refl | frame_same]).
  destruct y as [ok sy]. cbn [snd] in Fy.
  set (z := if ok then _ else _).
  assert (Fz : frame sy (fst z)).
  { unfold z. destruct ok. apply frame_refl. destruct (s_kind sy).
    - pose proof (error_received_frame sy) as He. destruct (error_received sy). exact He.
    - apply tr_close_frame. }
  destruct z as [s3 acts]. cbn [fst] in Fz.
  set (s4 := arm_timer (cancel_timer s3)).
  assert (F4 : frame s2 s4).
  { eapply frame_trans. exact Fy. eapply frame_trans. exact Fz. eapply frame_trans. apply cancel_timer_frame. apply arm_timer_frame. }
  pose proof (mid_frame _ _ _ F4 M2) as M4.
  assert (U4 : s_fut s4 = Some f) by (rewrite (fr_fut _ _ F4); exact U2).
  assert (N4 : s_nsend s4 <= s_retry s4 + 1) by (rewrite (fr_nsend _ _ F4), (fr_retry _ _ F4), N2; destruct R2; lia).
  assert (Hidle : fstat_of s4 f <> FPending -> fut_idle s4).
  { intros H. unfold fut_idle. rewrite U4. unfold pending. destruct (fstat_of s4 f); auto. congruence. }
  destruct (fstat_of s4 f) eqn:E4; cbn [fst snd].
  - (* suspended *)
    set (s5 := upd_task s4 k _).
    assert (F5 : frame s4 s5) by (apply upd_task_frame; reflexivity).
    apply B_of_mid. eapply mid_frame; eauto.
    + intros _. cbn. split. rewrite (fr_fut _ _ F5). exact U4.
      destruct (fr_futs _ _ F5 f) as [E|[E _]]; rewrite ?E, ?E4.
      * rewrite (fr_nsend _ _ F5), (fr_retry _ _ F5). exact N4.
      * rewrite E4 in E. destruct (fstat_of s5 f); auto; rewrite (fr_nsend _ _ F5), (fr_retry _ _ F5); exact N4.
    + discriminate.
  - split; [exact M4 | split; [apply Hidle; discriminate | exact N4]].
  - split; [exact M4 | split; [apply Hidle; discriminate | exact N4]].
  - split; [exact M4 | split; [apply Hidle; discriminate | exact N4]].
Qed.

Section AttemptB.
  Variable again : st -> nat -> nat -> st * list action.
  Variable k : nat.
  Hypothesis again_B : forall s d, mid s k -> fut_idle s -> s_nsend s <= s_retry s -> B (fst (again s k d)).

  Lemma sr_exception_B s d e : mid s k -> fut_idle s -> s_nsend s <= s_retry s + 1 -> B (fst (sr_exception again s k d e)).
  Proof.
    intros M I Hn. unfold sr_exception. cbv zeta.
    assert (Hb : forall close : bool,
      B (fst (if Nat.ltb (s_retry s) (s_retries s)
              then again (if close then close_transport (release_if_locked (s <| s_retry := S (s_retry s) |>))
                          else release_if_locked (s <| s_retry := S (s_retry s) |>)) k (S d)
              else let '(s1, f) := max_retries s in sr_unwind s1 k d (RFut f)))).
    { intros close. destruct (Nat.ltb_spec (s_retry s) (s_retries s)) as [Hlt|Hge].
      - set (s0 := s <| s_retry := S (s_retry s) |>).
        assert (M0 : mid s0 k) by (apply mid_set_retry; auto).
        assert (I0 : fut_idle s0) by exact I.
        assert (N0 : s_nsend s0 <= s_retry s0) by (cbn; lia).
        set (s1 := release_if_locked s0). assert (F1 : frame s0 s1) by apply release_if_locked_frame.
        assert (F2 : frame s0 (if close then close_transport s1 else s1)).
        { destruct close. eapply frame_trans. exact F1. apply close_transport_frame. exact F1. }
        apply again_B. eapply mid_frame; eauto. eapply fut_idle_frame; eauto.
        rewrite (fr_nsend _ _ F2), (fr_retry _ _ F2). exact N0.
      - destruct (max_retries_spec s k M) as [M1 I1]. destruct (max_retries s) as [s1 f]. cbn [fst] in *.
        apply sr_unwind_B; auto. }
    destruct e, (s_kind s); try (apply sr_unwind_B; auto);
      first [ exact (Hb (negb (s_ka s))) | exact (Hb true) | exact (Hb false) ].
  Qed.

  Lemma sr_after_send_B s d t : mid s k -> s_nsend s <= s_retry s -> B (fst (sr_after_send again (do_send s k d t) k d)).
  Proof.
    intros M Hn. pose proof (do_send_spec s k d t M Hn) as H.
    destruct (do_send s k d t) as [[s1 acts] res]. cbn [fst snd] in H. unfold sr_after_send.
    destruct res as [[f|e]|].
    - destruct H as (M1 & I1 & N1). pose proof (sr_unwind_B s1 k d (RFut f) M1 I1) as HB.
      destruct (sr_unwind s1 k d (RFut f)). exact HB.
    - destruct H as (M1 & I1 & N1). pose proof (sr_exception_B s1 d e M1 I1 N1) as HB.
      destruct (sr_exception again s1 k d e). exact HB.
    - exact H.
  Qed.

  Lemma sr_locked_B s d : mid s k -> fut_idle s -> s_nsend s <= s_retry s -> B (fst (sr_locked again s k d)).
  Proof.
    intros M I Hn. unfold sr_locked. cbv zeta.
    set (s0 := match s_kind s with TCP => _ | UDP => s end).
    assert (F0 : frame s s0) by (unfold s0; destruct (s_kind s); [apply frame_refl | apply upd_task_frame; reflexivity]).
    pose proof (mid_frame _ _ _ F0 M) as M0. pose proof (fut_idle_frame _ _ F0 I) as I0.
    assert (N0 : s_nsend s0 <= s_retry s0) by (rewrite (fr_nsend _ _ F0), (fr_retry _ _ F0); exact Hn).
    destruct (match s_transport s0 with Some t => _ | None => None end) as [t|].
    - set (s1 := upd_task s0 k _). assert (F1 : frame s0 s1) by (apply upd_task_frame; reflexivity).
      apply sr_after_send_B. eapply mid_frame; eauto. rewrite (fr_nsend _ _ F1), (fr_retry _ _ F1). exact N0.
    - assert (Hwait : forall s1 p, frame s0 s1 -> (p = PcConnWait (length (s_tr s0)) \/ p = PcConnHang) -> B (set_pc s1 k p)).
      { intros s1 p F1 Hp. apply B_of_mid. eapply mid_frame; eauto.
        - intros _. assert (Ha : s_nsend s1 <= s_retry s1 /\ fut_idle s1).
          { rewrite (fr_nsend _ _ F1), (fr_retry _ _ F1). split; auto. eapply fut_idle_frame; eauto. }
          destruct Hp as [-> | ->]; exact Ha.
        - destruct Hp as [-> | ->]; discriminate. }
      destruct (s_conns s0) as [|c tl].
      + cbn [fst]. apply Hwait; auto.
        eapply frame_trans. 2: apply upd_task_frame; reflexivity.
        eapply frame_trans. 2: apply push_frame. eapply frame_trans. 2: apply push_frame. eapply frame_trans. 2: apply push_frame. frame_same.
      + set (sc := s0 <| s_conns := tl |>). assert (Fc : frame s0 sc) by frame_same.
        destruct c.
        * cbn [fst]. apply Hwait; auto.
          eapply frame_trans. 2: apply upd_task_frame; reflexivity.
          eapply frame_trans. 2: apply push_frame. eapply frame_trans. 2: apply push_frame. eapply frame_trans. 2: apply push_frame.
          eapply frame_trans. exact Fc. frame_same.
        * set (s1 := upd_task sc k _). assert (F1 : frame s0 s1) by (eapply frame_trans; [exact Fc | apply upd_task_frame; reflexivity]).
          apply sr_exception_B. eapply mid_frame; eauto. eapply fut_idle_frame; eauto.
          rewrite (fr_nsend _ _ F1), (fr_retry _ _ F1). lia.
        * destruct (s_kind sc).
          -- apply sr_exception_B. eapply mid_frame; eauto. eapply fut_idle_frame; eauto.
             rewrite (fr_nsend _ _ Fc), (fr_retry _ _ Fc). lia.
          -- cbn [fst]. apply Hwait; auto. eapply frame_trans. exact Fc. apply upd_task_frame; reflexivity.
  Qed.

  Lemma sr_attempt_body_B s d : mid s k -> fut_idle s -> s_nsend s <= s_retry s -> B (fst (sr_attempt_body again s k d)).
  Proof.
    intros M I Hn. unfold sr_attempt_body. cbv zeta.
    set (s0 := ensure_lock s). assert (F0 : frame s s0) by apply ensure_lock_frame.
    destruct (_ && _).
    - set (s1 := s0 <| s_lock := true |> <| s_owner := Some k |>).
      assert (F1 : frame s s1) by (eapply frame_trans; [exact F0 | frame_same]).
      apply sr_locked_B. eapply mid_frame; eauto. eapply fut_idle_frame; eauto.
      rewrite (fr_nsend _ _ F1), (fr_retry _ _ F1). exact Hn.
    - cbn [fst]. set (s1 := upd_task _ k _).
      assert (F1 : frame s s1).
      { eapply frame_trans. exact F0. eapply frame_trans. 2: apply upd_task_frame; reflexivity. frame_same. }
      apply B_of_mid. eapply mid_frame; eauto.
      + intros _. cbn. rewrite (fr_nsend _ _ F1), (fr_retry _ _ F1). split; auto. eapply fut_idle_frame; eauto.
      + discriminate.
  Qed.
End AttemptB.

Lemma sr_attempt_B fuel k : forall s d, mid s k -> fut_idle s -> s_nsend s <= s_retry s -> B (fst (sr_attempt fuel s k d)).
Proof.
  induction fuel as [|fuel IH]; intros s d M I Hn; cbn [sr_attempt].
  - pose proof (exec_finish_B s k (RRaise XCancelled) M I) as H. destruct (exec_finish s k (RRaise XCancelled)). exact H.
  - apply sr_attempt_body_B; auto.
Qed.

(* ---------------------------------------------------------------- one loop callback *)
Lemma B_mid s k tk : B s -> get_task k (s_tasks s) = Some tk -> not_done (t_pc tk) = true -> mid s k.
Proof.
  intros [b1 b2 b3 b4 b5] Hk Hn. constructor; eauto.
  intros k' tk' H' Hne. destruct (t_pc tk') eqn:E; auto; exfalso; apply Hne; eapply b3; eauto; rewrite E; reflexivity.
Qed.

Lemma B_quiet_of s k tk : B s -> get_task k (s_tasks s) = Some tk -> not_done (t_pc tk) = true -> req_active (t_pc tk) = false ->
  s_retry s = 0 /\ fut_idle s.
Proof.
  intros HB Hk Hn Hr. apply (b_quiet _ HB). intros k' tk' H'.
  destruct (Nat.eq_dec k' k) as [->|Hne]. congruence.
  pose proof (B_mid _ _ _ HB Hk Hn) as M. rewrite (m_others _ _ M _ _ H' Hne). reflexivity.
Qed.

Lemma task_step_B s k : B s -> B (fst (task_step s k)).
Proof.
  intros HB. unfold task_step. destruct (get_task k (s_tasks s)) as [tk|] eqn:Hk; [|exact HB].
  destruct (not_done (t_pc tk)) eqn:Hn. 2: { destruct (t_pc tk); try discriminate. exact HB. }
  pose proof (B_mid _ _ _ HB Hk Hn) as M. pose proof (b_ok _ HB _ _ Hk Hn) as A.
  assert (Hclose : forall w (fin : action), req_active (t_pc tk) = false ->
     B (set_pc (lock_release (close_transport (s <| s_waiters := filter (fun p => negb (Nat.eqb (fst p) w)) (s_waiters s) |>
                                                 <| s_lock := true |> <| s_owner := Some k |>))) k PcDone)).
  { intros w _ Hr. destruct (B_quiet_of _ _ _ HB Hk Hn Hr) as [R0 I0].
    set (s1 := lock_release _).
    assert (F1 : frame s s1).
    { eapply frame_trans. 2: apply lock_release_frame. eapply frame_trans. 2: apply close_transport_frame. frame_same. }
    apply B_of_mid. eapply mid_frame; eauto. discriminate.
    intros _. split. rewrite (fr_retry _ _ F1). exact R0. eapply fut_idle_frame; eauto. }
  pose proof (B_quiet_of _ _ _ HB Hk Hn) as Hq.
  destruct (t_pc tk) eqn:Hpc; cbn [active_ok] in A.
  - (* PcStart *) destruct A as (A1 & A2 & A3). apply sr_attempt_B; auto. lia.
  - (* PcLockWait *) destruct A as (A1 & A2). destruct (negb (woken s w)); [exact HB|].
    set (s1 := s <| s_waiters := _ |> <| s_lock := true |> <| s_owner := Some k |>).
    assert (F1 : frame s s1) by frame_same.
    apply sr_locked_B. intros; apply sr_attempt_B; auto. eapply mid_frame; eauto. eapply fut_idle_frame; eauto. exact A1.
  - (* PcConnWait *) destruct A as (A1 & A2). destruct (t_cancelled tk).
    + set (s0 := upd_task s k _). set (s1 := tr_close s0 t).
      assert (F0 : frame s s0) by (apply upd_task_frame; reflexivity).
      assert (F1 : frame s s1) by (eapply frame_trans; [exact F0 | apply tr_close_frame]).
      apply sr_exception_B. intros; apply sr_attempt_B; auto. eapply mid_frame; eauto. eapply fut_idle_frame; eauto.
      rewrite (fr_nsend _ _ F1), (fr_retry _ _ F1). lia.
    + destruct (has_waiter k t (s_ready s)); [exact HB|].
      set (s0 := upd_task s k _). set (s1 := s0 <| s_transport := Some t |>).
      assert (F0 : frame s s0) by (apply upd_task_frame; reflexivity).
      assert (F1 : frame s s1) by (eapply frame_trans; [exact F0 | frame_same]).
      apply sr_after_send_B. intros; apply sr_attempt_B; auto. eapply mid_frame; eauto.
      rewrite (fr_nsend _ _ F1), (fr_retry _ _ F1). exact A1.
  - (* PcConnHang *) destruct A as (A1 & A2).
    set (s1 := upd_task s k _). assert (F1 : frame s s1) by (apply upd_task_frame; reflexivity).
    apply sr_exception_B. intros; apply sr_attempt_B; auto. eapply mid_frame; eauto. eapply fut_idle_frame; eauto.
    rewrite (fr_nsend _ _ F1), (fr_retry _ _ F1). lia.
  - (* PcAwait *) destruct A as (A1 & A2).
    assert (Hidle : fstat_of s f <> FPending -> fut_idle s).
    { intros H. unfold fut_idle. rewrite A1. unfold pending. destruct (fstat_of s f); auto. congruence. }
    destruct (fstat_of s f) eqn:E; cbn [fst].
    + exact HB.
    + apply sr_unwind_B; auto. apply Hidle. discriminate.
    + apply sr_exception_B; auto. intros; apply sr_attempt_B; auto. apply Hidle. discriminate.
    + apply sr_exception_B; auto. intros; apply sr_attempt_B; auto. apply Hidle. discriminate.
  - (* PcCloseLockWait *) destruct (negb (woken s w)); [exact HB|]. cbv zeta. cbn [fst]. apply (Hclose w ALoopExc). reflexivity.
  - (* PcCloseStart *) destruct (Hq eq_refl) as [R0 I0].
    assert (Hdone : forall s1, frame s s1 -> B (set_pc s1 k PcDone)).
    { intros s1 F1. apply B_of_mid. eapply mid_frame; eauto. discriminate.
      intros _. split. rewrite (fr_retry _ _ F1). exact R0. eapply fut_idle_frame; eauto. }
    destruct (s_kind s); cbn [fst]. apply Hdone, close_transport_frame.
    set (s0 := ensure_lock s). assert (F0 : frame s s0) by apply ensure_lock_frame.
    destruct (_ && _); cbn [fst].
    * apply Hdone. eapply frame_trans. exact F0. eapply frame_trans. 2: apply lock_release_frame.
      eapply frame_trans. 2: apply close_transport_frame. frame_same.
    * set (s1 := s0 <| s_waiters := _ |> <| s_nextw := _ |>).
      assert (F1 : frame s s1) by (eapply frame_trans; [exact F0 | frame_same]).
      apply B_of_mid. eapply mid_frame; eauto.
      -- intros _. cbn. eapply fut_idle_frame; eauto.
      -- intros _. split. rewrite (fr_retry _ _ F1). exact R0. eapply fut_idle_frame; eauto.
  - (* PcCloseOnlyWait *) destruct (negb (woken s w)); [exact HB|]. cbn [fst]. apply (Hclose w ALoopExc). reflexivity.
  - discriminate.
Qed.

Fixpoint scan (all l : list (nat * task)) : option nat :=
  match l with
  | [] => None
  | (k, _) :: tl => match get_task k all with
                    | Some tk => if req_active (t_pc tk) then Some k else scan all tl
                    | None => scan all tl end
  end.

Lemma scan_some all l k : scan all l = Some k -> exists tk, get_task k all = Some tk /\ req_active (t_pc tk) = true.
Proof.
  induction l as [|[k0 t0] l IH]; cbn. discriminate.
  destruct (get_task k0 all) as [tk|] eqn:E; auto. destruct (req_active (t_pc tk)) eqn:R; auto.
  intros [= <-]. eauto.
Qed.

Lemma scan_none all l : scan all l = None ->
  forall k tk, In k (map fst l) -> get_task k all = Some tk -> req_active (t_pc tk) = false.
Proof.
  induction l as [|[k0 t0] l IH]; cbn. intros _ k tk [].
  destruct (get_task k0 all) as [tk0|] eqn:E.
  - destruct (req_active (t_pc tk0)) eqn:R. discriminate.
    intros H k tk [<-|Hin] Hk. congruence. eapply IH; eauto.
  - intros H k tk [<-|Hin] Hk. congruence. eapply IH; eauto.
Qed.

Lemma get_task_key l k tk : get_task k l = Some tk -> In k (map fst l).
Proof.
  induction l as [|[k' t'] l IH]; cbn. discriminate. destruct (Nat.eqb_spec k k').
  - intros _. left. congruence.
  - intros H. right. auto.
Qed.

Lemma classic_active s :
  (exists k tk, get_task k (s_tasks s) = Some tk /\ req_active (t_pc tk) = true) \/
  (forall k tk, get_task k (s_tasks s) = Some tk -> req_active (t_pc tk) = false).
Proof.
  destruct (scan (s_tasks s) (s_tasks s)) as [k|] eqn:E.
  - left. destruct (scan_some _ _ _ E) as (tk & H1 & H2). eauto.
  - right. intros k tk Hk. eapply scan_none; eauto. eapply get_task_key; eauto.
Qed.

(* the accept branch: the budget is restored, and the only task that can still be retrying is the one that just won *)
Lemma accept_B s f data : B s -> s_fut s = Some f -> pending s f = true ->
  B (complete (s <| s_accepted := data :: s_accepted s |>) f (FResult data) <| s_retry := 0 |>).
Proof.
  intros HB Hf Hp.
  assert (Hnot : ~ fut_idle s) by (unfold fut_idle; rewrite Hf, Hp; discriminate).
  (* there is an active task, and it awaits f *)
  assert (Hex : exists k tk, get_task k (s_tasks s) = Some tk /\ t_pc tk = PcAwait f).
  { destruct (classic_active s) as [[k [tk [Hk Hr]]]|Hnone].
    - exists k, tk. split; auto.
      assert (Hn : not_done (t_pc tk) = true) by (destruct (t_pc tk); try discriminate; reflexivity).
      pose proof (b_ok _ HB _ _ Hk Hn) as A.
      destruct (t_pc tk); cbn [active_ok] in A; try discriminate; try (exfalso; apply Hnot; tauto).
      destruct A as [A1 _]. congruence.
    - exfalso. apply Hnot. apply (b_quiet _ HB). exact Hnone. }
  destruct Hex as (k & tk & Hk & Hpc).
  assert (Hn : not_done (t_pc tk) = true) by (rewrite Hpc; reflexivity).
  pose proof (B_mid _ _ _ HB Hk Hn) as M. destruct HB as [b1 b2 b3 b4 b5].
  set (s1 := s <| s_accepted := data :: s_accepted s |>).
  assert (Hlt : f < length (s_futs s)).
  { unfold pending in Hp. destruct (fstat_of s f) eqn:E; try discriminate. eapply fstat_pending_lt; eauto. }
  assert (Htasks : s_tasks (complete s1 f (FResult data)) = s_tasks s) by (unfold complete; cbv zeta; destruct (awaiting _ _); reflexivity).
  assert (Hfut : s_fut (complete s1 f (FResult data)) = Some f) by (unfold complete; cbv zeta; destruct (awaiting _ _); exact Hf).
  assert (Hres : fstat_of (complete s1 f (FResult data)) f = FResult data).
  { unfold complete. cbv zeta. destruct (awaiting _ _); unfold fstat_of; cbn; apply nth_set_nth_eq; auto. }
  assert (Hns : s_nsend (complete s1 f (FResult data)) = s_nsend s /\ s_retries (complete s1 f (FResult data)) = s_retries s)
    by (unfold complete; cbv zeta; destruct (awaiting _ _); split; reflexivity).
  destruct Hns as [Hns Hrs].
  constructor; cbn; rewrite ?Htasks, ?Hns, ?Hrs; auto; try lia.
  - intros k' tk' H' N'. assert (k' = k) by (eapply b3; eauto). subst k'. assert (tk' = tk) by congruence. subst tk'.
    rewrite Hpc. cbn [active_ok]. split. exact Hfut.
    change (fstat_of (complete s1 f (FResult data) <| s_retry := 0 |>) f) with (fstat_of (complete s1 f (FResult data)) f).
    rewrite Hres. exact I.
  - intros H. exfalso. specialize (H k tk Hk). rewrite Hpc in H. discriminate.
Qed.

Lemma timeout_mechanism_B s : B s -> B (fst (timeout_mechanism s)).
Proof.
  intros HB. unfold timeout_mechanism.
  destruct (s_kind s), (s_fut s) as [f|]; cbn [fst]; try exact HB.
  - destruct (pending s f) eqn:Hp; cbn [fst]; [|exact HB].
    eapply B_frame. 2: exact HB. apply frame_trans with (b := s <| s_timer := None |>). frame_same.
    apply complete_frame; auto.
  - eapply B_frame. 2: exact HB. frame_same.
  - destruct (pending s f) eqn:Hp; cbn [fst]; [|exact HB].
    eapply B_frame. 2: exact HB. apply frame_trans with (b := s <| s_timer := None |>). frame_same. apply close_transport_frame.
Qed.

Lemma received_B s id len v : B s -> B (fst (received s id len v)).
Proof.
  intros HB. unfold received.
  assert (Fct : frame s (match s_kind s with UDP => cancel_timer s <| s_timer := None |> | TCP => cancel_timer s end)).
  { destruct (s_kind s). eapply frame_trans. apply cancel_timer_frame. frame_same. apply cancel_timer_frame. }
  destruct (negb (s_cmd s)); cbn [fst]. eapply B_frame; eauto.
  set (s0 := match s_kind s with UDP => _ | TCP => _ end) in *.
  pose proof (B_frame _ _ Fct HB) as B0.
  set (x := match s_partial s0 with Some _ => _ | None => _ end).
  assert (Hx : frame s0 (snd x)).
  { unfold x. destruct (s_partial s0) as [[[p plen] miss]|]. destruct (_ && _). frame_same. apply frame_refl. apply frame_refl. }
  destruct x as [[data dlen] s1]. cbn [snd] in Hx. pose proof (B_frame _ _ Hx B0) as B1.
  destruct v as [| |e|c].
  - (* accept *)
    cbv zeta. destruct (s_fut (s1 <| s_accepted := data :: s_accepted s1 |>)) as [f|] eqn:Ef; cbn [fst].
    + destruct (pending (s1 <| s_accepted := data :: s_accepted s1 |>) f) eqn:Hp; cbn [fst].
      * apply accept_B; auto.
      * eapply B_frame. 2: exact B1. frame_same.
    + eapply B_frame. 2: exact B1. frame_same.
  - destruct (s_kind s1); cbn [fst].
    + eapply B_frame. 2: exact B1. apply push_frame.
    + destruct (s_fut s1) as [f|]; cbn [fst]; [|exact B1].
      destruct (pending s1 f) eqn:Hp; cbn [fst]; [|exact B1].
      eapply B_frame. 2: exact B1. apply frame_trans with (b := complete s1 f (FExc XRejectedEmpty)).
      apply complete_frame; eauto. apply close_transport_frame.
  - cbn [fst]. eapply B_frame. 2: exact B1. eapply frame_trans. 2: apply arm_timer_frame. frame_same.
  - cbv zeta. cbn [fst].
    set (s2 := match s_fut s1 with Some f => _ | None => s1 end).
    assert (F2 : frame s1 s2).
    { unfold s2. destruct (s_fut s1) as [f|]; [|apply frame_refl].
      destruct (pending s1 f) eqn:Hp; [|apply frame_refl]. apply complete_frame; eauto. }
    eapply B_frame. 2: exact B1. eapply frame_trans. exact F2. destruct (s_kind s2). apply close_transport_frame. apply frame_refl.
Qed.

Lemma run_cb_B s c : B s -> B (fst (run_cb s c)).
Proof.
  intros HB. destruct c; cbn [run_cb].
  - apply task_step_B; auto.
  - cbn [fst]. eapply B_frame. 2: exact HB.
    apply frame_trans with (b := match tstate_of s t with TNew => s <| s_tr := set_nth t TUp (s_tr s) |> | _ => s end).
    destruct (tstate_of s t); try apply frame_refl. frame_same.
    destruct (s_kind _). frame_same. apply frame_refl.
  - exact HB.
  - destruct (get_task k (s_tasks s)) as [tk|]; [|exact HB].
    destruct (t_pc tk); try exact HB. destruct (_ || _); cbn [fst]; [exact HB|].
    eapply B_frame. 2: exact HB. apply push_frame.
  - destruct (tstate_of s t); try exact HB. destruct i. apply received_B; auto.
    cbn [fst]. eapply B_frame. 2: exact HB. eapply frame_trans. apply close_transport_frame. apply tr_close_frame.
  - apply timeout_mechanism_B; auto.
  - destruct (mem_nat h (s_handles s)); [|exact HB].
    apply timeout_mechanism_B. eapply B_frame. 2: exact HB. frame_same.
  - destruct (tstate_of s t); try exact HB. cbn [fst].
    eapply B_frame. 2: exact HB. eapply frame_trans. 2: apply close_transport_frame. frame_same.
  - destruct (tstate_of s t); try exact HB. eapply B_frame. 2: exact HB. apply error_received_frame.
  - cbn [fst]. eapply B_frame. 2: exact HB. apply tr_close_frame.
  - destruct (get_task k (s_tasks s)) as [tk|] eqn:Hk; [|exact HB].
    destruct (t_wf tk); [|exact HB].
    assert (Fu : frame s (upd_task s k (fun x => x <| t_cancelled := true |> <| t_wf := false |>))) by (apply upd_task_frame; reflexivity).
    destruct (t_pc tk); try exact HB; cbv zeta; cbn [fst];
      (eapply B_frame; [|exact HB]; destruct (has_task k (s_ready s)); [exact Fu | eapply frame_trans; [exact Fu | apply push_frame]]).
Qed.

Lemma get_task_app_new l k t : get_task k l = None -> forall k', get_task k' (l ++ [(k, t)]) = if Nat.eqb k' k then Some t else get_task k' l.
Proof.
  intros Hn k'. induction l as [|[k0 t0] l IH]; cbn in *. reflexivity.
  destruct (Nat.eqb_spec k k0) as [->|Hne]. discriminate.
  destruct (Nat.eqb_spec k' k0) as [->|Hne'].
  - rewrite (proj2 (Nat.eqb_neq k0 k)) by auto. reflexivity.
  - apply IH. exact Hn.
Qed.

Lemma quiescent_done s : quiescent s = true -> forall k tk, get_task k (s_tasks s) = Some tk -> t_pc tk = PcDone.
Proof.
  unfold quiescent. rewrite forallb_forall. intros H k tk Hk.
  assert (Hin : In (k, tk) (s_tasks s)).
  { clear H. induction (s_tasks s) as [|[k' t'] l IH]; cbn in *. discriminate.
    destruct (Nat.eqb_spec k k'). injection Hk as <-. left. congruence. right. auto. }
  specialize (H _ Hin). cbn in H. destruct (t_pc tk); try discriminate. reflexivity.
Qed.

Lemma new_call_B s k p : B s -> quiescent s = true -> get_task k (s_tasks s) = None ->
  (p = PcStart \/ p = PcCloseStart) ->
  B (push (s <| s_tasks := s_tasks s ++ [(k, mkTask p 0 false false)] |> <| s_nsend := (match p with PcStart => 0 | _ => s_nsend s end) |>) (CbTask k)).
Proof.
  intros HB Hq Hnone Hp. pose proof (quiescent_done _ Hq) as Hd.
  assert (Hquiet : s_retry s = 0 /\ fut_idle s).
  { apply (b_quiet _ HB). intros k' tk' H'. rewrite (Hd _ _ H'). reflexivity. }
  destruct Hquiet as [R0 I0]. destruct HB as [b1 b2 b3 b4 b5].
  assert (Hget : forall k' t', get_task k' (s_tasks s ++ [(k, mkTask p 0 false false)]) = Some t' ->
                 (k' = k /\ t_pc t' = p) \/ t_pc t' = PcDone).
  { intros k' t'. rewrite get_task_app_new by auto. destruct (Nat.eqb_spec k' k).
    - intros [= <-]. left. auto.
    - intros H. right. eapply Hd; eauto. }
  constructor; cbn; auto.
  - destruct Hp as [-> | ->]; lia.
  - intros k1 t1 k2 t2 H1 H2 N1 N2.
    destruct (Hget _ _ H1) as [[-> _]|E]; [|rewrite E in N1; discriminate].
    destruct (Hget _ _ H2) as [[-> _]|E]; [|rewrite E in N2; discriminate]. reflexivity.
  - intros k' t' H N. destruct (Hget _ _ H) as [[-> E]|E]; rewrite E in *; [|discriminate].
    destruct Hp as [-> | ->]; cbn; unfold fut_idle, pending, fstat_of in *; cbn; auto.
Qed.

Lemma step_seq_B s e r : B s -> step_seq s e = Some r -> B (fst r).
Proof.
  intros HB. destruct e; cbn [step_seq step]; intros H.
  - destruct (s_ready s) as [|c tl]; [discriminate|]. injection H as <-.
    apply run_cb_B. eapply B_frame. 2: exact HB. frame_same.
  - destruct (tstate_of s t); try discriminate. destruct (_ || _); [|discriminate]. injection H as <-. cbn [fst].
    eapply B_frame. 2: exact HB. apply push_frame.
  - destruct (mem_nat h (s_handles s)); [|discriminate]. injection H as <-. eapply B_frame. 2: exact HB. apply push_frame.
  - destruct (get_task k (s_tasks s)) as [tk|]; [|discriminate]. destruct (t_wf tk); [|discriminate].
    injection H as <-. eapply B_frame. 2: exact HB. apply push_frame.
  - destruct (tstate_of s t), (s_kind s); try discriminate. destruct (mem_nat t (s_sent s)); [|discriminate].
    injection H as <-. eapply B_frame. 2: exact HB. apply push_frame.
  - destruct (tstate_of s t), (s_kind s); try discriminate. injection H as <-. eapply B_frame. 2: exact HB. apply push_frame.
  - destruct (quiescent s) eqn:Hq; [|discriminate]. destruct (get_task k (s_tasks s)) eqn:Hk; [discriminate|].
    injection H as <-. cbn [fst]. apply (new_call_B s k PcStart); auto.
  - destruct (quiescent s) eqn:Hq; [|discriminate]. destruct (get_task k (s_tasks s)) eqn:Hk; [discriminate|].
    injection H as <-. cbn [fst].
    pose proof (new_call_B s k PcCloseStart HB Hq Hk (or_intror eq_refl)) as HN. cbn in HN.
    eapply B_frame. 2: exact HN. frame_same.
  - injection H as <-. cbn [fst]. destruct HB as [b1 b2 b3 b4 b5]. constructor; cbn; auto.
  - injection H as <-. eapply B_frame. 2: exact HB. frame_same.
  - destruct (quiescent s); [|discriminate]. injection H as <-. eapply B_frame. 2: exact HB. frame_same.
Qed.

Lemma init_B k ka r : B (init k ka r).
Proof.
  constructor; cbn; try lia; try (intros; discriminate); try (intros _; split; reflexivity).
Qed.

Lemma run_seq_B es : forall s s' acts, B s -> run_seq s es = Some (s', acts) -> B s'.
Proof.
  induction es as [|e es IH]; intros s s' acts HB H; cbn [run_seq] in H.
  - injection H as <- _. exact HB.
  - destruct (step_seq s e) as [[s1 a1]|] eqn:E; [|discriminate].
    destruct (run_seq s1 es) as [[s2 a2]|] eqn:E2; [|discriminate]. injection H as <- _.
    eapply IH. 2: exact E2. apply (step_seq_B _ _ _ HB E).
Qed.

(* run_seq is a sub-behaviour of run: sequential runs evolve like any run *)
Lemma run_seq_run es : forall s r, run_seq s es = Some r -> run s es = Some r.
Proof.
  induction es as [|e es IH]; intros s r H; cbn [run_seq run] in *. exact H.
  assert (Hs : forall x, step_seq s e = Some x -> step s e = Some x).
  { intros x. destruct e; cbn [step_seq]; auto; destruct (quiescent s); auto; discriminate. }
  destruct (step_seq s e) as [[s1 a1]|] eqn:E; [|discriminate]. rewrite (Hs _ eq_refl).
  destruct (run_seq s1 es) as [[s2 a2]|] eqn:E2; [|discriminate]. rewrite (IH _ _ E2). exact H.
Qed.

(* THE BOUND *)
Theorem transmissions_bounded es k ka r s acts :
  run_seq (init k ka r) es = Some (s, acts) -> s_nsend s <= r + 1.
Proof.
  intros H. pose proof (run_seq_B _ _ _ _ (init_B k ka r) H) as HB.
  pose proof (retry_bounded _ _ _ _ _ _ (run_seq_run _ _ _ H)) as (_ & Hr & _).
  rewrite <- Hr. apply (b_nsend _ HB).
Qed.

(* ... and every request starts with the full budget: whenever no request is in progress the retry counter is 0 *)
Theorem idle_means_fresh_budget es k ka r s acts :
  run_seq (init k ka r) es = Some (s, acts) ->
  (forall c tk, get_task c (s_tasks s) = Some tk -> req_active (t_pc tk) = false) -> s_retry s = 0.
Proof.
  intros H Hq. pose proof (run_seq_B _ _ _ _ (init_B k ka r) H) as HB. apply (b_quiet _ HB Hq).
Qed.

(* the ghost counter really counts the transmissions of the current request: it is reset by EvCall only and
   incremented exactly where an ASend action is emitted (do_send) *)

(* An observation OUTSIDE the quantifiers of C04 / C05 (both range over one caller at a time): the retry counter belongs to the protocol
   object, not to the request.  When two tasks use the object concurrently, a caller that gives up the lock between two attempts can find the
   counter reset by the other caller's success and transmit more than retries + 1 times for one request.  The model exhibits it (and the real
   classes do: DESIGN.md section 5, C04): retries = 1, task 0 transmits three times. *)
From Coq Require Import List Bool Arith.
From GW Require Import Proto.
Import ListNotations.

Definition budget_witness : list event :=
  [EvCall 0; EvCall 1] ++ repeat EvPop 6 ++           (* task 0 transmits and waits; task 1 queues for the lock *)
  [EvDue 0] ++ repeat EvPop 3 ++                       (* timeout: task 0 counts one retry, releases the lock; task 1 gets it and transmits *)
  [EvIO 0 (IoData 8 10 VAccept)] ++ repeat EvPop 3 ++  (* task 1 is answered: the counter is reset; task 0 gets the lock and transmits again *)
  [EvDue 2] ++ repeat EvPop 2 ++                       (* timeout: the counter is 0, so task 0 retries once more *)
  [EvDue 3] ++ repeat EvPop 3.                         (* timeout: now the budget is exhausted *)

Definition sends_of (k : nat) (acts : list action) : nat :=
  List.length (filter (fun a => match a with ASend _ k' _ => Nat.eqb k k' | _ => false end) acts).

Lemma concurrent_budget_witness :
  option_map snd (run (init UDP true 1) budget_witness) =
  Some [AOpen 0; ASend 0 0 0; ASend 0 1 1; ADone 1 (OResp [8]); ASend 0 0 2; ASend 0 0 3; ADone 0 OMaxRetries; AClose 0].
Proof. vm_compute. reflexivity. Qed.

Theorem bound_concurrent_refuted :
  exists es s acts, run (init UDP true 1) es = Some (s, acts) /\ sends_of 0 acts = 3 /\ In (ADone 0 OMaxRetries) acts.
Proof.
  destruct (run (init UDP true 1) budget_witness) as [[s acts]|] eqn:E.
  - exists budget_witness, s, acts. split; [exact E|]. pose proof concurrent_budget_witness as H. rewrite E in H. cbn [option_map snd] in H.
    injection H as ->. split; [reflexivity|]. cbn. auto 10.
  - pose proof concurrent_budget_witness as H. rewrite E in H. discriminate.
Qed.

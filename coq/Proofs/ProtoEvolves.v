(* Monotone evolution of the future table of Model/Proto.v: futures complete at most once, results are
   only ever produced by the 'accept' branch of datagram_received / data_received.  Basis of
   C01_delivery and of the stability lemmas used by C08 / C09. *)
From Coq Require Import List Bool Arith Lia.
From RecordUpdate Require Import RecordSet.
From GW Require Import Proto.
Import ListNotations RecordSetNotations.

(* ---------------------------------------------------------------- list lemmas *)
Lemma set_nth_length {A} n (v : A) l : length (set_nth n v l) = length l.
Proof. revert n; induction l as [|x l IH]; intros [|n]; simpl; auto. Qed.

Lemma nth_set_nth_eq {A} n (v d : A) l : n < length l -> nth n (set_nth n v l) d = v.
Proof. revert n; induction l as [|x l IH]; intros [|n] H; simpl in *; try lia; auto. apply IH. lia. Qed.

Lemma nth_set_nth_neq {A} n m (v d : A) l : n <> m -> nth m (set_nth n v l) d = nth m l d.
Proof. revert n m; induction l as [|x l IH]; intros [|n] [|m] H; simpl; auto; try congruence. Qed.

Lemma fstat_result_lt s f t : fstat_of s f = FResult t -> f < length (s_futs s).
Proof.
  unfold fstat_of. intros H. destruct (Nat.lt_ge_cases f (length (s_futs s))); auto.
  rewrite nth_overflow in H by lia. discriminate.
Qed.

Lemma fstat_pending_lt s f : fstat_of s f = FPending -> f < length (s_futs s).
Proof.
  unfold fstat_of. intros H. destruct (Nat.lt_ge_cases f (length (s_futs s))); auto.
  rewrite nth_overflow in H by lia. discriminate.
Qed.

(* ---------------------------------------------------------------- the evolution relation *)
Record evolves (s s' : st) : Prop := mkEv {
  ev_len : length (s_futs s) <= length (s_futs s');
  ev_done : forall f, f < length (s_futs s) -> fstat_of s f <> FPending -> fstat_of s' f = fstat_of s f;
  ev_acc : incl (s_accepted s) (s_accepted s');
  ev_res : forall f t, fstat_of s' f = FResult t -> fstat_of s f = FResult t \/ In t (s_accepted s');
  ev_retries : s_retries s' = s_retries s;
  ev_kind : s_kind s' = s_kind s;
  ev_retry : s_retry s <= s_retries s -> s_retry s' <= s_retries s';
}.

Lemma evolves_refl s : evolves s s.
Proof. constructor; auto. apply incl_refl. Qed.

Lemma evolves_trans a b c : evolves a b -> evolves b c -> evolves a c.
Proof.
  intros [l1 d1 a1 r1 t1 k1 b1] [l2 d2 a2 r2 t2 k2 b2]. constructor; try congruence; try lia; auto.
  - intros f Hf Hp. rewrite d2; [apply d1; auto | lia | rewrite d1; auto].
  - eapply incl_tran; eauto.
  - intros f t H. destruct (r2 f t H) as [H'|H']; auto. destruct (r1 f t H') as [H''|H'']; auto.
Qed.

Definition same4 (s s' : st) : Prop :=
  s_futs s' = s_futs s /\ s_accepted s' = s_accepted s /\ s_retries s' = s_retries s /\ s_kind s' = s_kind s /\ s_retry s' = s_retry s.

Lemma same4_evolves s s' : same4 s s' -> evolves s s'.
Proof.
  intros (Hf & Ha & Hr & Hk & Hy). constructor; auto; unfold fstat_of; rewrite ?Hf, ?Ha; auto. apply incl_refl. congruence.
Qed.

Lemma evolves_set_retry s n : n <= s_retries s -> evolves s (s <| s_retry := n |>).
Proof. intros H. constructor; cbn; auto. apply incl_refl. Qed.

Lemma same4_refl s : same4 s s. Proof. repeat split. Qed.
Lemma same4_trans a b c : same4 a b -> same4 b c -> same4 a c.
Proof. unfold same4. intros (?&?&?&?&?) (?&?&?&?&?). repeat split; congruence. Qed.

Ltac same4_tac := unfold same4; repeat split; reflexivity.

Lemma push_same s c : same4 s (push s c). Proof. same4_tac. Qed.
Lemma cancel_timer_same s : same4 s (cancel_timer s). Proof. unfold cancel_timer. destruct (s_timer s); same4_tac. Qed.
Lemma arm_timer_same s : same4 s (arm_timer s). Proof. same4_tac. Qed.
Lemma tr_close_same s t : same4 s (tr_close s t). Proof. unfold tr_close. destruct (tstate_of s t); same4_tac. Qed.
Lemma set_pc_same s k p : same4 s (set_pc s k p). Proof. unfold set_pc. destruct (get_task k (s_tasks s)); same4_tac. Qed.
Lemma upd_task_same s k f : same4 s (upd_task s k f). Proof. unfold upd_task. destruct (get_task k (s_tasks s)); same4_tac. Qed.

Lemma lock_release_same s : same4 s (lock_release s).
Proof.
  unfold lock_release. cbv zeta. destruct (s_waiters _) as [|[w [|]] tl]; try same4_tac.
  match goal with |- context [match ?x with Some _ => _ | None => _ end] => destruct x end; same4_tac.
Qed.

Lemma release_if_locked_same s : same4 s (release_if_locked s).
Proof. unfold release_if_locked. destruct (_ && _). apply lock_release_same. apply same4_refl. Qed.

(* completing a pending future with something that is not a fresh result *)
Lemma complete_evolves s f v :
  pending s f = true -> (forall t, v = FResult t -> In t (s_accepted s)) -> evolves s (complete s f v).
Proof.
  intros Hp Hv. unfold pending in Hp. destruct (fstat_of s f) eqn:E; try discriminate.
  pose proof (fstat_pending_lt _ _ E) as Hlt.
  assert (H : evolves s (s <| s_futs := set_nth f v (s_futs s) |>)).
  { constructor; cbn; auto.
    - rewrite set_nth_length. lia.
    - intros g Hg Hd. unfold fstat_of. cbn. destruct (Nat.eq_dec f g) as [->|Hn].
      + contradiction.
      + apply nth_set_nth_neq; auto.
    - apply incl_refl.
    - intros g t. unfold fstat_of. cbn. destruct (Nat.eq_dec f g) as [->|Hn].
      + rewrite nth_set_nth_eq by auto. intros ->. right. apply Hv. reflexivity.
      + rewrite nth_set_nth_neq by auto. auto. }
  unfold complete. cbv zeta. destruct (awaiting _ _); auto.
  eapply evolves_trans. exact H. apply same4_evolves, push_same.
Qed.

Lemma close_transport_evolves s : evolves s (close_transport s).
Proof.
  unfold close_transport. cbv zeta.
  set (s1 := match s_transport s with Some t => _ | None => s end).
  assert (H1 : same4 s s1).
  { unfold s1. destruct (s_transport s). eapply same4_trans. apply tr_close_same. same4_tac. apply same4_refl. }
  eapply evolves_trans. apply same4_evolves, H1.
  destruct (s_fut s1) as [f|]; [|apply evolves_refl].
  destruct (pending s1 f) eqn:Hp; [|apply evolves_refl].
  apply complete_evolves; auto. discriminate.
Qed.

Lemma ensure_lock_evolves s : evolves s (ensure_lock s).
Proof.
  unfold ensure_lock. destruct (_ && _). apply evolves_refl.
  eapply evolves_trans; [|apply close_transport_evolves]. apply same4_evolves. same4_tac.
Qed.

Lemma error_received_evolves s : evolves s (fst (error_received s)).
Proof.
  unfold error_received. destruct (s_fut s) as [f|]; cbn [fst]; [|apply evolves_refl].
  destruct (pending s f) eqn:Hp.
  - apply evolves_trans with (b := complete s f (FExc XOSError)). apply complete_evolves; auto. discriminate. apply close_transport_evolves.
  - apply close_transport_evolves.
Qed.

(* ---------------------------------------------------------------- actions: a delivered response is a completed future's result *)
Definition acts_ok (s : st) (acts : list action) : Prop :=
  forall k t, In (ADone k (OResp t)) acts -> exists f, fstat_of s f = FResult t.

Lemma acts_ok_nil s : acts_ok s []. Proof. intros k t []. Qed.

Lemma acts_ok_evolves s s' a : evolves s s' -> acts_ok s a -> acts_ok s' a.
Proof.
  intros He H k t Hin. destruct (H k t Hin) as (f & Hf). exists f.
  rewrite (ev_done _ _ He); auto. eapply fstat_result_lt; eauto. congruence.
Qed.

Lemma acts_ok_app s a b : acts_ok s a -> acts_ok s b -> acts_ok s (a ++ b).
Proof. intros Ha Hb k t Hin. apply in_app_or in Hin. destruct Hin; eauto. Qed.

Definition good (s : st) (r : st * list action) : Prop := evolves s (fst r) /\ acts_ok (fst r) (snd r).

Lemma good_trans s s1 r : evolves s s1 -> good s1 r -> good s r.
Proof. intros H [H1 H2]. split; auto. eapply evolves_trans; eauto. Qed.

Lemma classify_not_resp e t : classify e <> OResp t.
Proof. destruct e; discriminate. Qed.

Lemma exec_finish_good s k r : good s (exec_finish s k r).
Proof.
  unfold exec_finish. cbv zeta.
  set (o := outcome_of s r).
  set (s0 := s <| s_retry := 0 |>).
  assert (Ho : forall t, o = OResp t -> exists f, fstat_of s0 f = FResult t).
  { intros t. unfold o, outcome_of. destruct r as [f|e].
    - change (fstat_of s f) with (fstat_of s0 f). destruct (fstat_of s0 f) eqn:E; try discriminate.
      + intros [= ->]. eauto.
      + intros H. exfalso. eapply classify_not_resp; eauto.
    - intros H. exfalso. eapply classify_not_resp; eauto. }
  assert (H0 : evolves s s0) by (apply evolves_set_retry; lia).
  assert (Hdone : forall s1, evolves s0 s1 -> acts_ok s1 [ADone k o]).
  { intros s1 He k' t [H|[]]. injection H as -> Hoo. destruct (Ho t Hoo) as (f & Hf). exists f.
    rewrite (ev_done _ _ He); auto. eapply fstat_result_lt; eauto. congruence. }
  destruct (s_ka s0).
  - split; cbn [fst snd]. eapply evolves_trans. exact H0. apply same4_evolves, set_pc_same.
    apply Hdone. apply same4_evolves, set_pc_same.
  - destruct (s_kind s0).
    + assert (He : evolves s0 (set_pc (close_transport s0) k PcDone)).
      { eapply evolves_trans. apply close_transport_evolves. apply same4_evolves, set_pc_same. }
      split; cbn [fst snd]. eapply evolves_trans; eauto. apply Hdone; auto.
    + set (s1 := ensure_lock s0).
      assert (H1 : evolves s0 s1) by apply ensure_lock_evolves.
      destruct (_ && _).
      * assert (He : evolves s1 (set_pc (lock_release (close_transport (s1 <| s_lock := true |> <| s_owner := Some k |>))) k PcDone)).
        { eapply evolves_trans. 2: apply same4_evolves, set_pc_same.
          eapply evolves_trans. 2: apply same4_evolves, lock_release_same.
          eapply evolves_trans. 2: apply close_transport_evolves. apply same4_evolves. same4_tac. }
        split; cbn [fst snd]. eapply evolves_trans. exact H0. eapply evolves_trans; eauto.
        apply Hdone. eapply evolves_trans; eauto.
      * split; cbn [fst snd]. 2: apply acts_ok_nil.
        eapply evolves_trans. exact H0. eapply evolves_trans. exact H1.
        eapply evolves_trans. 2: apply same4_evolves, set_pc_same. apply same4_evolves. same4_tac.
Qed.

Lemma sr_finally_evolves n s : evolves s (sr_finally n s).
Proof.
  revert s. induction n as [|n IH]; intros s; cbn [sr_finally]. apply evolves_refl.
  cbv zeta. eapply evolves_trans. 2: apply IH.
  eapply evolves_trans. apply same4_evolves, release_if_locked_same.
  destruct (s_kind _). destruct (s_ka _). apply evolves_refl. apply close_transport_evolves. apply evolves_refl.
Qed.

Lemma sr_unwind_good s k d r : good s (sr_unwind s k d r).
Proof. unfold sr_unwind. eapply good_trans. apply sr_finally_evolves. apply exec_finish_good. Qed.

Lemma max_retries_evolves s : evolves s (fst (max_retries s)).
Proof.
  unfold max_retries. cbv zeta. cbn [fst]. eapply evolves_trans. apply close_transport_evolves.
  set (s1 := close_transport s). constructor; cbn; auto.
  - rewrite app_length. lia.
  - intros f Hf Hd. unfold fstat_of. cbn. rewrite app_nth1 by auto. reflexivity.
  - apply incl_refl.
  - intros f t. unfold fstat_of. cbn. destruct (Nat.lt_ge_cases f (length (s_futs s1))).
    + rewrite app_nth1 by auto. auto.
    + destruct (Nat.eq_dec f (length (s_futs s1))) as [->|Hn].
      * rewrite app_nth2, Nat.sub_diag by lia. discriminate.
      * rewrite nth_overflow. discriminate. rewrite app_length. simpl. lia.
Qed.

Lemma do_send_evolves s k d t : evolves s (fst (fst (do_send s k d t))).
Proof.
  unfold do_send. cbv zeta.
  set (f := length (s_futs s)).
  set (s1 := s <| s_futs := s_futs s ++ [FPending] |> <| s_fut := Some f |> <| s_cmd := true |> <| s_partial := None |>).
  assert (H1 : evolves s s1).
  { constructor; cbn; auto.
    - rewrite app_length. lia.
    - intros g Hg Hd. unfold fstat_of. cbn. rewrite app_nth1 by auto. reflexivity.
    - apply incl_refl.
    - intros g u. unfold fstat_of. cbn. destruct (Nat.lt_ge_cases g (length (s_futs s))).
      + rewrite app_nth1 by auto. auto.
      + destruct (Nat.eq_dec g (length (s_futs s))) as [->|Hn].
        * rewrite app_nth2, Nat.sub_diag by lia. discriminate.
        * rewrite nth_overflow. discriminate. rewrite app_length. simpl. lia. }
  set (s2 := s1 <| s_sent := t :: s_sent s1 |> <| s_nsend := S (s_nsend s1) |>).
  assert (H2 : evolves s s2) by (eapply evolves_trans; [exact H1 | apply same4_evolves; same4_tac]).
  destruct (s_sends s2) as [|b tl].
  - (* no oracle entry: the send succeeds *)
    set (s3 := arm_timer (cancel_timer s2)).
    assert (H3 : evolves s s3).
    { eapply evolves_trans. exact H2. apply same4_evolves. eapply same4_trans. apply cancel_timer_same. apply arm_timer_same. }
    destruct (fstat_of s3 f); cbn [fst]; auto.
    eapply evolves_trans. exact H3. apply same4_evolves. eapply same4_trans. apply upd_task_same. apply set_pc_same.
  - set (s2' := s2 <| s_sends := tl |>).
    assert (H2' : evolves s s2') by (eapply evolves_trans; [exact H2 | apply same4_evolves; same4_tac]).
    assert (Hx : exists s3 acts, (if b then (s2', [ASend t k f]) else
                  match s_kind s2' with
                  | UDP => let '(s', a) := error_received s2' in (s', ASend t k f :: a)
                  | TCP => (tr_close s2' t, [ASend t k f]) end) = (s3, acts) /\ evolves s s3).
    { destruct b. eauto. destruct (s_kind s2').
      - pose proof (error_received_evolves s2') as He. destruct (error_received s2') as [s' a]. cbn [fst] in He.
        do 2 eexists. split. reflexivity. eapply evolves_trans; eauto.
      - do 2 eexists. split. reflexivity. eapply evolves_trans. exact H2'. apply same4_evolves, tr_close_same. }
    destruct Hx as (s3 & acts & -> & H3).
    set (s4 := arm_timer (cancel_timer s3)).
    assert (H4 : evolves s s4).
    { eapply evolves_trans. exact H3. apply same4_evolves. eapply same4_trans. apply cancel_timer_same. apply arm_timer_same. }
    destruct (fstat_of s4 f); cbn [fst]; auto.
    eapply evolves_trans. exact H4. apply same4_evolves. eapply same4_trans. apply upd_task_same. apply set_pc_same.
Qed.

Lemma error_received_acts s : forall k o, ~ In (ADone k o) (snd (error_received s)).
Proof. intros k o. unfold error_received. destruct (s_fut s); cbn; intuition discriminate. Qed.

Lemma do_send_acts s k d t : forall k' o, ~ In (ADone k' o) (snd (fst (do_send s k d t))).
Proof.
  intros k' o. unfold do_send. cbv zeta.
  set (f := length (s_futs s)). set (s2 := _ <| s_nsend := _ |>).
  assert (Hx : forall (x : bool * st) , ~ In (ADone k' o)
     (snd (let '(ok, s) := x in if ok then (s, [ASend t k f]) else
           match s_kind s with
           | UDP => let '(s', a) := error_received s in (s', ASend t k f :: a)
           | TCP => (tr_close s t, [ASend t k f]) end))).
  { intros [[|] sx]. cbn; intuition discriminate.
    destruct (s_kind sx). pose proof (error_received_acts sx k' o). destruct (error_received sx). cbn in *. intuition discriminate.
    cbn; intuition discriminate. }
  specialize (Hx (match s_sends s2 with b :: tl => (b, s2 <| s_sends := tl |>) | [] => (true, s2) end)).
  destruct (match s_sends s2 with b :: tl => (b, s2 <| s_sends := tl |>) | [] => (true, s2) end) as [ok sx].
  destruct (if ok then _ else _) as [s3 acts]. cbn [snd] in Hx.
  destruct (fstat_of _ f); cbn [fst snd]; exact Hx.
Qed.

Section AttemptGood.
  Variable again : st -> nat -> nat -> st * list action.
  Hypothesis again_good : forall s k d, good s (again s k d).

  Lemma sr_exception_good s k d e : good s (sr_exception again s k d e).
  Proof.
    unfold sr_exception. cbv zeta.
    assert (Hb : forall close : bool,
      good s (if Nat.ltb (s_retry s) (s_retries s)
              then again (let s1 := release_if_locked (s <| s_retry := S (s_retry s) |>) in if close then close_transport s1 else s1) k (S d)
              else let '(s1, f) := max_retries s in sr_unwind s1 k d (RFut f))).
    { intros close. destruct (Nat.ltb_spec (s_retry s) (s_retries s)) as [Hlt|Hge].
      - eapply good_trans. 2: apply again_good.
        eapply evolves_trans. apply (evolves_set_retry s (S (s_retry s))). lia.
        eapply evolves_trans. apply same4_evolves, release_if_locked_same.
        destruct close. apply close_transport_evolves. apply evolves_refl.
      - pose proof (max_retries_evolves s) as Hm. destruct (max_retries s) as [s1 f]. cbn [fst] in Hm.
        eapply good_trans. exact Hm. apply sr_unwind_good. }
    destruct e, (s_kind s); try apply sr_unwind_good;
      first [ exact (Hb (negb (s_ka s))) | exact (Hb true) | exact (Hb false) ].
  Qed.

  Lemma sr_after_send_good s r k d :
    evolves s (fst (fst r)) -> (forall k' o, ~ In (ADone k' o) (snd (fst r))) -> good s (sr_after_send again r k d).
  Proof.
    destruct r as [[s1 acts] res]. cbn [fst snd]. intros He Ha. unfold sr_after_send.
    assert (Hacts : forall s2, acts_ok s2 acts) by (intros s2 k' t Hin; exfalso; eapply Ha; eauto).
    destruct res as [[f|e]|].
    - pose proof (sr_unwind_good s1 k d (RFut f)) as [H1 H2]. destruct (sr_unwind s1 k d (RFut f)) as [s' a].
      split; cbn [fst snd] in *. eapply evolves_trans; eauto. apply acts_ok_app; auto.
    - pose proof (sr_exception_good s1 k d e) as [H1 H2]. destruct (sr_exception again s1 k d e) as [s' a].
      split; cbn [fst snd] in *. eapply evolves_trans; eauto. apply acts_ok_app; auto.
    - split; cbn [fst snd]; auto.
  Qed.

  Lemma sr_locked_good s k d : good s (sr_locked again s k d).
  Proof.
    unfold sr_locked. cbv zeta.
    set (s0 := match s_kind s with TCP => _ | UDP => s end).
    assert (H0 : evolves s s0) by (unfold s0; destruct (s_kind s); [apply evolves_refl | apply same4_evolves, upd_task_same]).
    eapply good_trans. exact H0.
    destruct (match s_transport s0 with Some t => _ | None => None end) as [t|].
    - set (s1 := upd_task s0 k _).
      eapply good_trans. apply same4_evolves, upd_task_same.
      apply sr_after_send_good. apply do_send_evolves. apply do_send_acts.
    - destruct (s_conns s0) as [|c tl].
      + split; cbn [fst snd]. 2: { intros k' t [H|[]]; discriminate. }
        eapply evolves_trans. 2: apply same4_evolves, set_pc_same.
        eapply evolves_trans. 2: apply same4_evolves, upd_task_same. apply same4_evolves. same4_tac.
      + destruct c.
        * split; cbn [fst snd]. 2: { intros k' t [H|[]]; discriminate. }
          eapply evolves_trans. 2: apply same4_evolves, set_pc_same.
          eapply evolves_trans. 2: apply same4_evolves, upd_task_same. apply same4_evolves. same4_tac.
        * eapply good_trans. 2: apply sr_exception_good.
          eapply evolves_trans. 2: apply same4_evolves, upd_task_same. apply same4_evolves. same4_tac.
        * destruct (s_kind (s0 <| s_conns := tl |>)).
          -- eapply good_trans. 2: apply sr_exception_good. apply same4_evolves. same4_tac.
          -- split; cbn [fst snd]. 2: apply acts_ok_nil.
             eapply evolves_trans. 2: apply same4_evolves, set_pc_same.
             eapply evolves_trans. 2: apply same4_evolves, upd_task_same. apply same4_evolves. same4_tac.
  Qed.

  Lemma sr_attempt_body_good s k d : good s (sr_attempt_body again s k d).
  Proof.
    unfold sr_attempt_body. cbv zeta. eapply good_trans. apply ensure_lock_evolves.
    destruct (_ && _).
    - eapply good_trans. 2: apply sr_locked_good. apply same4_evolves. same4_tac.
    - split; cbn [fst snd]. 2: apply acts_ok_nil.
      eapply evolves_trans. 2: apply same4_evolves, set_pc_same.
      eapply evolves_trans. 2: apply same4_evolves, upd_task_same. apply same4_evolves. same4_tac.
  Qed.
End AttemptGood.

Lemma sr_attempt_good fuel : forall s k d, good s (sr_attempt fuel s k d).
Proof.
  induction fuel as [|fuel IH]; intros s k d; cbn [sr_attempt].
  - pose proof (exec_finish_good s k (RRaise XCancelled)) as [H1 H2]. destruct (exec_finish s k (RRaise XCancelled)) as [s' a].
    split; cbn [fst snd] in *; auto. intros k' t [H|H]. discriminate. eauto.
  - apply sr_attempt_body_good. exact IH.
Qed.

Lemma task_step_good s k : good s (task_step s k).
Proof.
  unfold task_step. destruct (get_task k (s_tasks s)) as [tk|]. 2: { split. apply evolves_refl. apply acts_ok_nil. }
  pose proof sr_attempt_good as HA.
  assert (Hcl : forall s0 w (a : action), (forall k' t, a <> ADone k' (OResp t)) \/ True ->
            evolves s0 (set_pc (lock_release (close_transport (s0 <| s_waiters := filter (fun p => negb (Nat.eqb (fst p) w)) (s_waiters s0) |>
                                                              <| s_lock := true |> <| s_owner := Some k |>))) k PcDone)).
  { intros s0 w a _. eapply evolves_trans. 2: apply same4_evolves, set_pc_same.
    eapply evolves_trans. 2: apply same4_evolves, lock_release_same.
    eapply evolves_trans. 2: apply close_transport_evolves. apply same4_evolves. same4_tac. }
  destruct (t_pc tk).
  - apply HA.
  - destruct (negb (woken s w)). { split. apply evolves_refl. apply acts_ok_nil. }
    eapply good_trans. 2: apply sr_locked_good; auto. apply same4_evolves. same4_tac.
  - destruct (t_cancelled tk).
    + eapply good_trans. 2: apply sr_exception_good; auto.
      eapply evolves_trans. apply same4_evolves, upd_task_same. apply same4_evolves, tr_close_same.
    + destruct (has_waiter k t (s_ready s)). { split. apply evolves_refl. apply acts_ok_nil. }
      eapply good_trans. 2: { apply sr_after_send_good; auto. apply do_send_evolves. apply do_send_acts. }
      eapply evolves_trans. apply same4_evolves, upd_task_same. apply same4_evolves. same4_tac.
  - eapply good_trans. 2: apply sr_exception_good; auto. apply same4_evolves, upd_task_same.
  - destruct (fstat_of s f).
    + split. apply evolves_refl. apply acts_ok_nil.
    + apply sr_unwind_good.
    + apply sr_exception_good; auto.
    + apply sr_exception_good; auto.
  - (* close() inside execute *)
    destruct (negb (woken s w)). { split. apply evolves_refl. apply acts_ok_nil. }
    cbv zeta. set (o := outcome_of s r).
    assert (Ho : forall t, o = OResp t -> exists f, fstat_of s f = FResult t).
    { intros t. unfold o, outcome_of. destruct r as [f|e].
      - destruct (fstat_of s f) eqn:E; try discriminate.
        + intros [= ->]. eauto.
        + intros H. exfalso. eapply classify_not_resp; eauto.
      - intros H. exfalso. eapply classify_not_resp; eauto. }
    pose proof (Hcl s w ALoopExc (or_intror I)) as He.
    split; cbn [fst snd]. exact He.
    intros k' t [H|[]]. injection H as -> Hoo. destruct (Ho t Hoo) as (f & Hf). exists f.
    rewrite (ev_done _ _ He); auto. eapply fstat_result_lt; eauto. congruence.
  - destruct (s_kind s).
    + split; cbn [fst snd]. eapply evolves_trans. apply close_transport_evolves. apply same4_evolves, set_pc_same.
      intros k' t [H|[]]; discriminate.
    + eapply good_trans. apply ensure_lock_evolves. destruct (_ && _).
      * split; cbn [fst snd]. 2: { intros k' t [H|[]]; discriminate. }
        eapply evolves_trans. 2: apply same4_evolves, set_pc_same.
        eapply evolves_trans. 2: apply same4_evolves, lock_release_same.
        eapply evolves_trans. 2: apply close_transport_evolves. apply same4_evolves. same4_tac.
      * split; cbn [fst snd]. 2: apply acts_ok_nil.
        eapply evolves_trans. 2: apply same4_evolves, set_pc_same. apply same4_evolves. same4_tac.
  - destruct (negb (woken s w)). { split. apply evolves_refl. apply acts_ok_nil. }
    split; cbn [fst snd]. apply (Hcl s w ALoopExc); auto. intros k' t [H|[]]; discriminate.
  - split. apply evolves_refl. apply acts_ok_nil.
Qed.

Lemma timeout_mechanism_good s : good s (timeout_mechanism s).
Proof.
  unfold timeout_mechanism.
  destruct (s_kind s), (s_fut s) as [f|].
  - destruct (pending s f) eqn:Hp; split; cbn [fst snd]; try apply acts_ok_nil; try apply evolves_refl.
    apply evolves_trans with (b := s <| s_timer := None |>). apply same4_evolves; same4_tac.
    apply complete_evolves; auto. discriminate.
  - split; cbn [fst snd]. apply same4_evolves; same4_tac. apply acts_ok_nil.
  - destruct (pending s f) eqn:Hp; split; cbn [fst snd]; try apply acts_ok_nil; try apply evolves_refl.
    apply evolves_trans with (b := s <| s_timer := None |>). apply same4_evolves; same4_tac. apply close_transport_evolves.
  - split; cbn [fst snd]. apply evolves_refl. intros k t [H|[]]; discriminate.
Qed.

Lemma no_done_acts_ok s (a : list action) : (forall k o, ~ In (ADone k o) a) -> acts_ok s a.
Proof. intros H k t Hin. exfalso. eapply H; eauto. Qed.

Lemma received_good s id len v : good s (received s id len v).
Proof.
  unfold received.
  destruct (negb (s_cmd s)).
  { split; cbn [fst snd]. 2: { apply no_done_acts_ok. cbn. intuition discriminate. }
    destruct (s_kind s); apply same4_evolves. eapply same4_trans. apply cancel_timer_same. same4_tac. apply cancel_timer_same. }
  set (s0 := match s_kind s with UDP => _ | TCP => _ end).
  assert (H0 : evolves s s0).
  { unfold s0. destruct (s_kind s); apply same4_evolves. eapply same4_trans. apply cancel_timer_same. same4_tac. apply cancel_timer_same. }
  eapply good_trans. exact H0.
  set (x := match s_partial s0 with Some _ => _ | None => _ end).
  assert (Hx : same4 s0 (snd x)).
  { unfold x. destruct (s_partial s0) as [[[p plen] miss]|]. destruct (_ && _). same4_tac. apply same4_refl. apply same4_refl. }
  destruct x as [[data dlen] s1]. cbn [snd] in Hx.
  eapply good_trans. apply same4_evolves. exact Hx.
  destruct v as [| |e|c].
  - (* accept *)
    set (s2 := s1 <| s_accepted := data :: s_accepted s1 |>).
    assert (H2 : evolves s1 s2).
    { constructor; cbn; auto. intros a Ha. right. exact Ha. }
    eapply good_trans. exact H2.
    destruct (s_fut s2) as [f|].
    + destruct (pending s2 f) eqn:Hp; split; cbn [fst snd]; try apply acts_ok_nil; try apply evolves_refl.
      apply evolves_trans with (b := complete s2 f (FResult data)). apply complete_evolves; auto.
      intros t [= <-]. left. reflexivity. apply evolves_set_retry. lia.
    + split; cbn [fst snd]. apply evolves_refl. apply no_done_acts_ok. cbn. intuition discriminate.
  - (* refuse *)
    destruct (s_kind s1).
    + split; cbn [fst snd]. apply same4_evolves, push_same. apply acts_ok_nil.
    + destruct (s_fut s1) as [f|].
      * destruct (pending s1 f) eqn:Hp; split; cbn [fst snd]; try apply acts_ok_nil; try apply evolves_refl.
        apply evolves_trans with (b := complete s1 f (FExc XRejectedEmpty)). apply complete_evolves; auto. discriminate.
        apply close_transport_evolves.
      * split; cbn [fst snd]. apply evolves_refl. apply no_done_acts_ok. cbn. intuition discriminate.
  - split; cbn [fst snd]. 2: apply acts_ok_nil.
    eapply evolves_trans. 2: apply same4_evolves, arm_timer_same. apply same4_evolves. same4_tac.
  - set (s2 := match s_fut s1 with Some f => _ | None => s1 end).
    assert (H2 : evolves s1 s2).
    { unfold s2. destruct (s_fut s1) as [f|]; [|apply evolves_refl].
      destruct (pending s1 f) eqn:Hp; [|apply evolves_refl]. apply complete_evolves; auto. discriminate. }
    split; cbn [fst snd]. 2: apply acts_ok_nil.
    eapply evolves_trans. exact H2. destruct (s_kind s2). apply close_transport_evolves. apply evolves_refl.
Qed.

Lemma run_cb_good s c : good s (run_cb s c).
Proof.
  destruct c; cbn [run_cb].
  - apply task_step_good.
  - split; cbn [fst snd]. 2: apply acts_ok_nil.
    eapply evolves_trans with (b := match tstate_of s t with TNew => s <| s_tr := set_nth t TUp (s_tr s) |> | _ => s end).
    destruct (tstate_of s t); try apply evolves_refl. apply same4_evolves; same4_tac.
    destruct (s_kind _). apply same4_evolves; same4_tac. apply evolves_refl.
  - split. apply evolves_refl. apply acts_ok_nil.
  - destruct (get_task k (s_tasks s)) as [tk|]. 2: { split. apply evolves_refl. apply acts_ok_nil. }
    destruct (t_pc tk); try (split; [apply evolves_refl | apply acts_ok_nil]).
    destruct (_ || _); split; cbn [fst snd]; try apply acts_ok_nil; try apply evolves_refl. apply same4_evolves, push_same.
  - destruct (tstate_of s t); try (split; [apply evolves_refl | apply acts_ok_nil]).
    destruct i. apply received_good.
    split; cbn [fst snd]. 2: apply acts_ok_nil. eapply evolves_trans. apply close_transport_evolves. apply same4_evolves, tr_close_same.
  - apply timeout_mechanism_good.
  - destruct (mem_nat h (s_handles s)). 2: { split. apply evolves_refl. apply acts_ok_nil. }
    eapply good_trans. 2: apply timeout_mechanism_good. apply same4_evolves; same4_tac.
  - destruct (tstate_of s t); try (split; [apply evolves_refl | apply acts_ok_nil]).
    split; cbn [fst snd]. 2: { apply no_done_acts_ok. cbn. intuition discriminate. }
    eapply evolves_trans. 2: apply close_transport_evolves. apply same4_evolves; same4_tac.
  - destruct (tstate_of s t); try (split; [apply evolves_refl | apply acts_ok_nil]).
    split. apply error_received_evolves. apply no_done_acts_ok. apply error_received_acts.
  - split; cbn [fst snd]. apply same4_evolves, tr_close_same. apply acts_ok_nil.
  - destruct (get_task k (s_tasks s)) as [tk|]. 2: { split. apply evolves_refl. apply acts_ok_nil. }
    destruct (t_wf tk). 2: { split. apply evolves_refl. apply acts_ok_nil. }
    destruct (t_pc tk); try (split; [apply evolves_refl | apply acts_ok_nil]);
      (cbv zeta; split; cbn [fst snd]; [|apply acts_ok_nil]; destruct (has_task k (s_ready s));
       [apply same4_evolves, upd_task_same | eapply evolves_trans; [apply same4_evolves, upd_task_same | apply same4_evolves, push_same]]).
Qed.

Lemma step_good s e r : step s e = Some r -> good s r.
Proof.
  destruct e; cbn [step]; intros H;
    repeat match type of H with
    | context [match ?x with _ => _ end] => destruct x eqn:?; try discriminate
    end; try (injection H as <-);
    try (split; cbn [fst snd]; [apply same4_evolves; first [apply push_same | same4_tac] | apply acts_ok_nil]).
  - eapply good_trans. 2: apply run_cb_good. apply same4_evolves; same4_tac.
Qed.

(* ---------------------------------------------------------------- whole runs *)
Lemma run_good es : forall s s' acts, run s es = Some (s', acts) -> evolves s s' /\ acts_ok s' acts.
Proof.
  induction es as [|e es IH]; intros s s' acts H; cbn [run] in H.
  - injection H as <- <-. split. apply evolves_refl. apply acts_ok_nil.
  - destruct (step s e) as [[s1 a1]|] eqn:E; [|discriminate].
    destruct (run s1 es) as [[s2 a2]|] eqn:E2; [|discriminate]. injection H as <- <-.
    destruct (step_good _ _ _ E) as [H1 H1']. cbn [fst snd] in *.
    destruct (IH _ _ _ E2) as [H2 H2'].
    split. eapply evolves_trans; eauto. apply acts_ok_app; auto. eapply acts_ok_evolves; eauto.
Qed.

(* every result ever stored in a future was accepted by the validator *)
Definition results_accepted (s : st) : Prop := forall f t, fstat_of s f = FResult t -> In t (s_accepted s).

Lemma init_results_accepted k ka r : results_accepted (init k ka r).
Proof. intros f t. unfold fstat_of. cbn. destruct f; discriminate. Qed.

Lemma delivery es k ka r s acts :
  run (init k ka r) es = Some (s, acts) ->
  forall c t, In (ADone c (OResp t)) acts -> In t (s_accepted s).
Proof.
  intros H c t Hin. destruct (run_good _ _ _ _ H) as [He Ha].
  destruct (Ha c t Hin) as (f & Hf).
  destruct (ev_res _ _ He f t Hf) as [H0|H0]; auto.
  exfalso. revert H0. unfold fstat_of. cbn. destruct f; discriminate.
Qed.

(* what 'accepted' means: an element enters s_accepted only in the accept branch of datagram_received / data_received *)
Lemma accepted_only_by_verdict s e s' a : step s e = Some (s', a) ->
  forall t, In t (s_accepted s') -> In t (s_accepted s) \/
    exists tr id len, s_ready s = CbRead tr (IoData id len VAccept) :: tl (s_ready s) /\ e = EvPop.
Proof. Abort.

(* a completed future keeps its value for ever *)
Lemma done_stable es s s' acts f :
  run s es = Some (s', acts) -> f < length (s_futs s) -> fstat_of s f <> FPending -> fstat_of s' f = fstat_of s f.
Proof. intros H. destruct (run_good _ _ _ _ H) as [He _]. apply (ev_done _ _ He). Qed.

(* C06: mutual exclusion.  Invariant of Model/Proto.v over ALL runs (any number of concurrent callers, any events):
   a task that is connecting or awaiting an answer (program counters PcConnWait / PcConnHang / PcAwait) holds the
   asyncio.Lock of the protocol object, at most one task does, and a request is only transmitted (action ASend) by a
   task while no other task is connecting or awaiting an answer.  The hand-rolled release-before-retry / release-in-finally
   discipline of send_request and the lock taken by TcpInverterProtocol.close() are all inside the model. *)
From Coq Require Import List Bool Arith Lia.
From RecordUpdate Require Import RecordSet.
From GW Require Import Proto ProtoEvolves ProtoProps ProtoBound.
Import ListNotations RecordSetNotations.

Definition pc_of (s : st) (k : nat) : option pc := option_map t_pc (get_task k (s_tasks s)).

(* critical section: between lock.acquire() and release with an await in between *)
Definition cs (p : pc) : bool := match p with PcConnWait _ | PcConnHang | PcAwait _ => true | _ => false end.
Definition waitid (p : pc) : option nat :=
  match p with PcLockWait w | PcCloseLockWait w _ | PcCloseOnlyWait w => Some w | _ => None end.
Definition lockpc (p : pc) : bool := cs p || match waitid p with Some _ => true | None => false end.

(* the lock object belongs to the running loop (_ensure_lock keeps it) *)
Definition V (s : st) : Prop := s_haslock s = true /\ s_lockloop s = s_loop s.

(* waiter queue of asyncio.Lock: only the first waiter can have been woken, and only while the lock is free *)
Definition wq_ok (lock : bool) (ws : list (nat * bool)) : Prop :=
  match ws with [] => True | (_, b) :: tl => (b = true -> lock = false) /\ Forall (fun p => snd p = false) tl end.

(* [x] = the task whose coroutine is being run (its stored program counter is stale), None between callbacks *)
Record M (x : option nat) (s : st) : Prop := mkM {
  m_valid : forall k p, Some k <> x -> pc_of s k = Some p -> lockpc p = true -> V s;
  m_cs : forall k p, Some k <> x -> pc_of s k = Some p -> cs p = true -> s_lock s = true /\ s_owner s = Some k;
  m_wq : wq_ok (s_lock s) (s_waiters s);
  m_wid : forall k p w, Some k <> x -> pc_of s k = Some p -> waitid p = Some w -> w < s_nextw s;
  m_uniq : forall k k' p p' w, Some k <> x -> Some k' <> x -> pc_of s k = Some p -> pc_of s k' = Some p' ->
           waitid p = Some w -> waitid p' = Some w -> k = k';
}.

Lemma M_weaken x s : M None s -> M x s.
Proof.
  intros [A B C D E]. constructor; intros.
  - eapply A; eauto. discriminate.
  - eapply B; eauto. discriminate.
  - exact C.
  - eapply D; eauto. discriminate.
  - eapply E; eauto; discriminate.
Qed.

(* ---------------------------------------------------------------- helpers that do not touch the lock *)
Record lsame (x : option nat) (s s' : st) : Prop := mkLs {
  ls_lock : s_lock s' = s_lock s;
  ls_owner : s_owner s' = s_owner s;
  ls_waiters : s_waiters s' = s_waiters s;
  ls_nextw : s_nextw s' = s_nextw s;
  ls_haslock : s_haslock s' = s_haslock s;
  ls_lockloop : s_lockloop s' = s_lockloop s;
  ls_loop : s_loop s' = s_loop s;
  ls_pcs : forall k, Some k <> x -> pc_of s' k = pc_of s k;
}.

Lemma lsame_refl x s : lsame x s s.
Proof. constructor; auto. Qed.

Lemma lsame_trans x a b c : lsame x a b -> lsame x b c -> lsame x a c.
Proof.
  intros [a1 a2 a3 a4 a5 a6 a7 a8] [b1 b2 b3 b4 b5 b6 b7 b8]. constructor; try congruence.
  intros k Hk. rewrite b8, a8; auto.
Qed.

Lemma lsame_any x s s' : lsame None s s' -> lsame x s s'.
Proof. intros [a1 a2 a3 a4 a5 a6 a7 a8]. constructor; auto. intros k _. apply a8. discriminate. Qed.

Lemma M_lsame x s s' : lsame x s s' -> M x s -> M x s'.
Proof.
  intros [L1 L2 L3 L4 L5 L6 L7 L8] [A B C D E]. constructor.
  - intros k p Hx Hp Hl. rewrite L8 in Hp by auto. unfold V. rewrite L5, L6, L7. exact (A k p Hx Hp Hl).
  - intros k p Hx Hp Hc. rewrite L8 in Hp by auto. rewrite L1, L2. eauto.
  - rewrite L1, L3. exact C.
  - intros k p w Hx Hp Hw. rewrite L8 in Hp by auto. rewrite L4. eauto.
  - intros k k' p p' w Hx Hx' Hp Hp'. rewrite L8 in Hp, Hp' by auto. eauto.
Qed.

(* same lock fields and the very same task table *)
Ltac ls_same := constructor; cbn; auto.

Lemma push_ls x s c : lsame x s (push s c). Proof. ls_same. Qed.
Lemma cancel_timer_ls x s : lsame x s (cancel_timer s). Proof. unfold cancel_timer. destruct (s_timer s); ls_same. Qed.
Lemma arm_timer_ls x s : lsame x s (arm_timer s). Proof. ls_same. Qed.
Lemma tr_close_ls x s t : lsame x s (tr_close s t). Proof. unfold tr_close. destruct (tstate_of s t); ls_same. Qed.

Lemma complete_ls x s f v : lsame x s (complete s f v).
Proof. unfold complete. cbv zeta. destruct (awaiting _ _); ls_same. Qed.

Lemma close_transport_ls x s : lsame x s (close_transport s).
Proof.
  unfold close_transport. cbv zeta.
  set (s1 := match s_transport s with Some t => _ | None => s end).
  assert (H1 : lsame x s s1).
  { unfold s1. destruct (s_transport s). eapply lsame_trans. apply tr_close_ls. ls_same. apply lsame_refl. }
  eapply lsame_trans. exact H1.
  destruct (s_fut s1) as [f|]; [|apply lsame_refl].
  destruct (pending s1 f); [|apply lsame_refl]. apply complete_ls.
Qed.

Lemma error_received_ls x s : lsame x s (fst (error_received s)).
Proof.
  unfold error_received. destruct (s_fut s) as [f|]; cbn [fst]; [|apply lsame_refl].
  destruct (pending s f).
  - eapply lsame_trans. apply complete_ls. apply close_transport_ls.
  - apply close_transport_ls.
Qed.

Lemma max_retries_ls x s : lsame x s (fst (max_retries s)).
Proof. unfold max_retries. cbv zeta. cbn [fst]. eapply lsame_trans. apply close_transport_ls. ls_same. Qed.

Lemma timeout_mechanism_ls x s : lsame x s (fst (timeout_mechanism s)).
Proof.
  unfold timeout_mechanism. destruct (s_kind s), (s_fut s) as [f|]; cbn [fst]; try (destruct (pending s f)); cbn [fst];
    try apply lsame_refl; try solve [ls_same].
  - eapply lsame_trans. 2: apply complete_ls. ls_same.
  - eapply lsame_trans. 2: apply close_transport_ls. ls_same.
Qed.

Lemma received_ls x s id len v : lsame x s (fst (received s id len v)).
Proof.
  unfold received. destruct (negb (s_cmd s)).
  { cbn [fst]. destruct (s_kind s). eapply lsame_trans. apply cancel_timer_ls. ls_same. apply cancel_timer_ls. }
  cbv zeta.
  set (s0 := match s_kind s with UDP => _ | TCP => _ end).
  assert (F0 : lsame x s s0).
  { unfold s0. destruct (s_kind s). eapply lsame_trans. apply cancel_timer_ls. ls_same. apply cancel_timer_ls. }
  set (y := match s_partial s0 with Some _ => _ | None => _ end).
  assert (Fy : lsame x s0 (snd y)).
  { unfold y. destruct (s_partial s0) as [[[p plen] miss]|]. destruct (_ && _); cbn [snd]. ls_same. apply lsame_refl. apply lsame_refl. }
  destruct y as [[data dlen] s1]. cbn [snd] in Fy.
  assert (F1 : lsame x s s1) by (eapply lsame_trans; eauto).
  destruct v.
  - set (s2 := s1 <| s_accepted := _ |>). assert (F2 : lsame x s s2) by (eapply lsame_trans; [exact F1 | ls_same]).
    destruct (s_fut s2) as [f|]; cbn [fst]; auto. destruct (pending s2 f); cbn [fst]; auto.
    eapply lsame_trans. exact F2. eapply lsame_trans. apply complete_ls. ls_same.
  - destruct (s_kind s1); cbn [fst]. eapply lsame_trans. exact F1. apply push_ls.
    destruct (s_fut s1) as [f|]; cbn [fst]; auto. destruct (pending s1 f); cbn [fst]; auto.
    eapply lsame_trans. exact F1. eapply lsame_trans. apply complete_ls. apply close_transport_ls.
  - cbn [fst]. eapply lsame_trans. exact F1. eapply lsame_trans. 2: apply arm_timer_ls. ls_same.
  - cbn [fst]. set (s2 := match s_fut s1 with Some f => _ | None => s1 end).
    assert (F2 : lsame x s1 s2).
    { unfold s2. destruct (s_fut s1) as [f|]. destruct (pending s1 f). apply complete_ls. apply lsame_refl. apply lsame_refl. }
    eapply lsame_trans. exact F1. eapply lsame_trans. exact F2. destruct (s_kind s2). apply close_transport_ls. apply lsame_refl.
Qed.

(* the task table: only task k changes *)
Lemma pc_of_upd_other s k f k' : k' <> k -> pc_of (upd_task s k f) k' = pc_of s k'.
Proof.
  intros Hn. unfold upd_task, pc_of. destruct (get_task k (s_tasks s)); auto. cbn. rewrite get_put_other by auto. reflexivity.
Qed.

Lemma upd_task_ls s k f : lsame (Some k) s (upd_task s k f).
Proof.
  constructor; try (unfold upd_task; destruct (get_task k (s_tasks s)); reflexivity).
  intros k' Hn. apply pc_of_upd_other. congruence.
Qed.

Lemma upd_task_ls_all x s k f : (forall t, t_pc (f t) = t_pc t) -> lsame x s (upd_task s k f).
Proof.
  intros Hf. constructor; try (unfold upd_task; destruct (get_task k (s_tasks s)); reflexivity).
  intros k' _. destruct (Nat.eq_dec k' k) as [->|Hn]. 2: apply pc_of_upd_other; auto.
  unfold upd_task, pc_of. destruct (get_task k (s_tasks s)) as [tk|] eqn:E; cbn; rewrite ?E; auto.
  rewrite get_put_same. cbn. rewrite Hf. reflexivity.
Qed.

Lemma set_pc_ls s k p : lsame (Some k) s (set_pc s k p).
Proof.
  constructor; try (unfold set_pc; destruct (get_task k (s_tasks s)); reflexivity).
  intros k' Hn. unfold set_pc, pc_of. destruct (get_task k (s_tasks s)); auto. cbn. rewrite get_put_other by congruence. reflexivity.
Qed.

Lemma pc_of_set_pc s k p k1 p1 : pc_of (set_pc s k p) k1 = Some p1 -> (k1 = k /\ p1 = p) \/ (k1 <> k /\ pc_of s k1 = Some p1).
Proof.
  intros H. destruct (Nat.eq_dec k1 k) as [->|Hn].
  - left. split; auto. unfold set_pc, pc_of in H. destruct (get_task k (s_tasks s)) as [tk|] eqn:E.
    + cbn in H. rewrite get_put_same in H. cbn in H. congruence.
    + rewrite E in H. discriminate.
  - right. split; auto. rewrite <- H. symmetry. apply (ls_pcs _ _ _ (set_pc_ls s k p)). congruence.
Qed.

(* ---------------------------------------------------------------- who may hold the lock *)
Definition Hk (k : nat) (s : st) : Prop := V s /\ (s_lock s = true -> s_owner s = Some k).
Definition HkL (k : nat) (s : st) : Prop := V s /\ s_lock s = true /\ s_owner s = Some k.

Lemma HkL_Hk k s : HkL k s -> Hk k s.
Proof. intros (v & l & o). split; auto. Qed.

Lemma Hk_lsame x k s s' : lsame x s s' -> Hk k s -> Hk k s'.
Proof. intros [L1 L2 L3 L4 L5 L6 L7 L8] [[v1 v2] o]. unfold Hk, V. rewrite L1, L2, L5, L6, L7. auto. Qed.

Lemma HkL_lsame x k s s' : lsame x s s' -> HkL k s -> HkL k s'.
Proof. intros [L1 L2 L3 L4 L5 L6 L7 L8] ([v1 v2] & l & o). unfold HkL, V. rewrite L1, L2, L5, L6, L7. auto. Qed.

(* nobody but k is connecting or awaiting an answer *)
Definition ofree (k : nat) (s : st) : Prop := forall k' p, k' <> k -> pc_of s k' = Some p -> cs p = false.

Lemma M_Hk_ofree k s : M (Some k) s -> Hk k s -> ofree k s.
Proof.
  intros HM [_ Ho] k' p Hn Hp. destruct (cs p) eqn:E; auto.
  destruct (m_cs _ _ HM k' p) as [L O]; auto; try congruence. specialize (Ho L). congruence.
Qed.

(* state of the running task k, reached from the state s0 at the beginning of the callback *)
Record P (k : nat) (s0 s : st) : Prop := mkP {
  p_M : M (Some k) s;
  p_same : forall k', k' <> k -> pc_of s k' = pc_of s0 k';
}.

Lemma P_lsame k s0 s s' : lsame (Some k) s s' -> P k s0 s -> P k s0 s'.
Proof.
  intros L [HM Hs]. split. eapply M_lsame; eauto. intros k' Hn. rewrite (ls_pcs _ _ _ L) by congruence. auto.
Qed.

Lemma P_ofree k s0 s : P k s0 s -> Hk k s -> ofree k s0.
Proof.
  intros [HM Hs] H k' p Hn Hp. rewrite <- Hs in Hp by auto. eapply M_Hk_ofree; eauto.
Qed.

(* ---------------------------------------------------------------- the lock primitives *)
Lemma lock_release_fields s :
  s_lock (lock_release s) = false /\ s_owner (lock_release s) = None /\ s_nextw (lock_release s) = s_nextw s /\
  s_haslock (lock_release s) = s_haslock s /\ s_lockloop (lock_release s) = s_lockloop s /\ s_loop (lock_release s) = s_loop s /\
  s_tasks (lock_release s) = s_tasks s /\
  (wq_ok (s_lock s) (s_waiters s) -> wq_ok false (s_waiters (lock_release s))).
Proof.
  unfold lock_release. cbv zeta. destruct (s_waiters s) as [|[w [|]] tl] eqn:E; cbn; rewrite ?E; try (repeat split; cbn; rewrite ?E; cbn; tauto).
  match goal with |- context [match ?x with Some _ => _ | None => _ end] => destruct x end; repeat split; cbn; rewrite ?E; cbn; tauto.
Qed.

Lemma lock_release_P k s0 s : P k s0 s -> Hk k s -> P k s0 (lock_release s) /\ Hk k (lock_release s).
Proof.
  intros HP HH. pose proof (P_ofree _ _ _ HP HH) as Hfree. destruct HP as [HM Hs]. destruct HH as [[v1 v2] Ho].
  destruct (lock_release_fields s) as (F1 & F2 & F3 & F4 & F5 & F6 & F7 & F8).
  assert (Hpc : forall k', pc_of (lock_release s) k' = pc_of s k') by (intros; unfold pc_of; rewrite F7; reflexivity).
  split; [split|].
  - destruct HM as [A B C D E]. constructor.
    + intros k' p Hx Hp Hl. rewrite Hpc in Hp. unfold V. rewrite F4, F5, F6. auto.
    + intros k' p Hx Hp Hc. rewrite Hpc, Hs in Hp by congruence. rewrite (Hfree k' p) in Hc by congruence. discriminate.
    + rewrite F1. exact (F8 C).
    + intros k' p w Hx Hp Hw. rewrite Hpc in Hp. rewrite F3. eauto.
    + intros k1 k2 p p' w Hx Hx' Hp Hp'. rewrite Hpc in Hp, Hp'. eauto.
  - intros k' Hn. rewrite Hpc. auto.
  - split. unfold V. rewrite F4, F5, F6. auto. rewrite F1. discriminate.
Qed.

Lemma release_if_locked_P k s0 s : P k s0 s -> Hk k s -> P k s0 (release_if_locked s) /\ Hk k (release_if_locked s).
Proof. intros HP HH. unfold release_if_locked. destruct (_ && _); auto. apply lock_release_P; auto. Qed.

Lemma V_dec s : {V s} + {s_haslock s && Nat.eqb (s_lockloop s) (s_loop s) = false}.
Proof.
  destruct (s_haslock s && Nat.eqb (s_lockloop s) (s_loop s)) eqn:E; [left|right; auto].
  apply andb_prop in E. destruct E as [E1 E2]. apply Nat.eqb_eq in E2. split; auto.
Qed.

Lemma ensure_lock_V s : V s -> ensure_lock s = s.
Proof. intros [v1 v2]. unfold ensure_lock. rewrite v1, v2, Nat.eqb_refl. reflexivity. Qed.

Lemma ensure_lock_P k s0 s : P k s0 s -> P k s0 (ensure_lock s) /\ V (ensure_lock s).
Proof.
  intros HP. destruct (V_dec s) as [Hv|Hn]. rewrite ensure_lock_V by auto. auto.
  unfold ensure_lock. rewrite Hn.
  set (s1 := s <| s_haslock := true |> <| s_lock := false |> <| s_waiters := [] |> <| s_lockloop := s_loop s |>).
  assert (V1 : V s1) by (split; reflexivity).
  assert (P1 : P k s0 s1).
  { destruct HP as [[A B C D E] Hs]. split; [constructor|]; auto.
    - intros k' p Hx Hp Hc. exfalso. assert (Hl : lockpc p = true) by (unfold lockpc; rewrite Hc; reflexivity).
      destruct (A k' p Hx Hp Hl) as [v1 v2]. rewrite v1, v2, Nat.eqb_refl in Hn. discriminate.
    - cbn. exact I. }
  split. eapply P_lsame. apply close_transport_ls. exact P1.
  destruct V1 as [v1 v2]. pose proof (close_transport_ls None s1) as L. split.
  rewrite (ls_haslock _ _ _ L). exact v1. rewrite (ls_lockloop _ _ _ L), (ls_loop _ _ _ L). exact v2.
Qed.

Lemma acquire_P k s0 s : P k s0 s -> V s -> negb (s_lock s) && match s_waiters s with [] => true | _ => false end = true ->
  P k s0 (s <| s_lock := true |> <| s_owner := Some k |>) /\ HkL k (s <| s_lock := true |> <| s_owner := Some k |>).
Proof.
  intros [[A B C D E] Hs] Hv Hfast. apply andb_prop in Hfast. destruct Hfast as [Hl Hw].
  destruct (s_lock s) eqn:El; try discriminate. destruct (s_waiters s) eqn:Ew; try discriminate.
  split; [split; [constructor|]|]; auto.
  - intros k' p Hx Hp Hc. destruct (B k' p Hx Hp Hc). discriminate.
  - cbn. rewrite Ew. exact I.
  - split; [exact Hv | split; reflexivity].
Qed.

Lemma wq_ok_snoc lock ws w : wq_ok lock ws -> wq_ok lock (ws ++ [(w, false)]).
Proof.
  destruct ws as [|[w0 b] tl]; cbn.
  - intros _. split. discriminate. constructor.
  - intros [H1 H2]. split; auto. apply Forall_app. split; auto.
Qed.

(* queueing behind the lock: the new waiter id is fresh *)
Lemma enqueue_M k s0 s p : P k s0 s -> V s -> waitid p = Some (s_nextw s) -> cs p = false ->
  forall s1, lsame (Some k) (s <| s_waiters := s_waiters s ++ [(s_nextw s, false)] |> <| s_nextw := S (s_nextw s) |>) s1 ->
  M None (set_pc s1 k p).
Proof.
  intros [[A B C D E] Hs] Hv Hw Hc s1 L.
  set (s' := s <| s_waiters := _ |> <| s_nextw := _ |>) in L.
  assert (Hpc : forall k', k' <> k -> pc_of s1 k' = pc_of s k') by (intros k' Hn; rewrite (ls_pcs _ _ _ L) by congruence; reflexivity).
  pose proof (set_pc_ls s1 k p) as L2.
  assert (Hv' : V (set_pc s1 k p)).
  { destruct Hv as [v1 v2]. split.
    rewrite (ls_haslock _ _ _ L2), (ls_haslock _ _ _ L). exact v1.
    rewrite (ls_lockloop _ _ _ L2), (ls_loop _ _ _ L2), (ls_lockloop _ _ _ L), (ls_loop _ _ _ L). exact v2. }
  constructor.
  - intros; exact Hv'.
  - intros k1 p1 _ Hp1 Hc1. destruct (pc_of_set_pc _ _ _ _ _ Hp1) as [[-> ->]|[Hn Hp]]. congruence.
    rewrite Hpc in Hp by auto. rewrite (ls_lock _ _ _ L2), (ls_owner _ _ _ L2), (ls_lock _ _ _ L), (ls_owner _ _ _ L).
    apply (B k1 p1); auto. congruence.
  - rewrite (ls_lock _ _ _ L2), (ls_waiters _ _ _ L2), (ls_lock _ _ _ L), (ls_waiters _ _ _ L). cbn. apply wq_ok_snoc. exact C.
  - intros k1 p1 w _ Hp1 Hw1. rewrite (ls_nextw _ _ _ L2), (ls_nextw _ _ _ L). cbn.
    destruct (pc_of_set_pc _ _ _ _ _ Hp1) as [[-> ->]|[Hn Hp]]. rewrite Hw in Hw1. injection Hw1 as <-. lia.
    rewrite Hpc in Hp by auto. assert (w < s_nextw s) by (eapply D; eauto; congruence). lia.
  - intros k1 k2 p1 p2 w _ _ Hp1 Hp2 Hw1 Hw2.
    destruct (pc_of_set_pc _ _ _ _ _ Hp1) as [[-> ->]|[Hn1 Hq1]]; destruct (pc_of_set_pc _ _ _ _ _ Hp2) as [[-> ->]|[Hn2 Hq2]]; auto.
    + rewrite Hpc in Hq2 by auto. rewrite Hw in Hw1. injection Hw1 as <-.
      assert (s_nextw s < s_nextw s) by (eapply D; eauto; congruence). lia.
    + rewrite Hpc in Hq1 by auto. rewrite Hw in Hw2. injection Hw2 as <-.
      assert (s_nextw s < s_nextw s) by (eapply D; eauto; congruence). lia.
    + rewrite Hpc in Hq1, Hq2 by auto. eapply E; eauto; congruence.
Qed.

(* leaving the coroutine at a program counter that is not a lock wait *)
Lemma set_pc_M k s0 s p : P k s0 s -> waitid p = None -> (cs p = true -> HkL k s) -> M None (set_pc s k p).
Proof.
  intros [[A B C D E] Hs] Hw Hc. pose proof (set_pc_ls s k p) as L2. constructor.
  - intros k1 p1 _ Hp1 Hl1. unfold V. rewrite (ls_haslock _ _ _ L2), (ls_lockloop _ _ _ L2), (ls_loop _ _ _ L2).
    destruct (pc_of_set_pc _ _ _ _ _ Hp1) as [[-> ->]|[Hn Hp]].
    + unfold lockpc in Hl1. rewrite Hw, orb_false_r in Hl1. destruct (Hc Hl1) as (v & _). exact v.
    + eapply A; eauto. congruence.
  - intros k1 p1 _ Hp1 Hc1. rewrite (ls_lock _ _ _ L2), (ls_owner _ _ _ L2).
    destruct (pc_of_set_pc _ _ _ _ _ Hp1) as [[-> ->]|[Hn Hp]].
    + destruct (Hc Hc1) as (_ & l & o). auto.
    + eapply B; eauto. congruence.
  - rewrite (ls_lock _ _ _ L2), (ls_waiters _ _ _ L2). exact C.
  - intros k1 p1 w _ Hp1 Hw1. rewrite (ls_nextw _ _ _ L2).
    destruct (pc_of_set_pc _ _ _ _ _ Hp1) as [[-> ->]|[Hn Hp]]. congruence. eapply D; eauto. congruence.
  - intros k1 k2 p1 p2 w _ _ Hp1 Hp2 Hw1 Hw2.
    destruct (pc_of_set_pc _ _ _ _ _ Hp1) as [[-> ->]|[Hn1 Hq1]]; destruct (pc_of_set_pc _ _ _ _ _ Hp2) as [[-> ->]|[Hn2 Hq2]]; auto; try congruence.
    eapply E; eauto; congruence.
Qed.

(* a woken waiter is the head of the queue and the lock is free *)
Lemma woken_head lock ws w : wq_ok lock ws -> existsb (fun p => Nat.eqb (fst p) w && snd p) ws = true ->
  lock = false /\ exists tl, ws = (w, true) :: tl /\ Forall (fun p => snd p = false) tl.
Proof.
  destruct ws as [|[w0 b] tl]; cbn. discriminate.
  intros [H1 H2] H. apply orb_prop in H. destruct H as [H|H].
  - apply andb_prop in H. destruct H as [Hw Hb]. apply Nat.eqb_eq in Hw. subst. split; auto. eauto.
  - exfalso. apply existsb_exists in H. destruct H as ([w1 b1] & Hin & Hb). rewrite Forall_forall in H2.
    specialize (H2 _ Hin). cbn in *. subst. rewrite andb_false_r in Hb. discriminate.
Qed.

Lemma Forall_filter {A} (P : A -> Prop) f l : Forall P l -> Forall P (filter f l).
Proof. rewrite !Forall_forall. intros H x Hx. apply filter_In in Hx. apply H. tauto. Qed.

Lemma wq_ok_unwoken lock ws : Forall (fun p : nat * bool => snd p = false) ws -> wq_ok lock ws.
Proof.
  destruct ws as [|[w b] tl]; cbn; auto. intros H. inversion H; subst. cbn in *. subst. split; auto. discriminate.
Qed.

Lemma resume_P k s p w : M None s -> pc_of s k = Some p -> waitid p = Some w -> woken s w = true ->
  let s' := s <| s_waiters := filter (fun q => negb (Nat.eqb (fst q) w)) (s_waiters s) |> <| s_lock := true |> <| s_owner := Some k |> in
  P k s s' /\ HkL k s'.
Proof.
  intros HM Hp Hw Hwk s'. destruct HM as [A B C D E].
  destruct (woken_head _ _ _ C Hwk) as (Hl & tl & Hws & Htl).
  assert (Hv : V s). { apply (A k p); auto. discriminate. unfold lockpc. rewrite Hw. apply orb_true_r. }
  split; [split; [constructor|]|].
  - intros; exact Hv.
  - intros k' p' Hx Hp' Hc. destruct (B k' p') as [L _]; auto. discriminate. congruence.
  - cbn. rewrite Hws. cbn. rewrite Nat.eqb_refl. cbn. apply wq_ok_unwoken. apply Forall_filter. exact Htl.
  - intros k' p' w' _ Hp' Hw'. eapply D; eauto. discriminate.
  - intros k1 k2 p1 p2 w' _ _. apply E; discriminate.
  - auto.
  - split; [exact Hv | split; reflexivity].
Qed.

(* ---------------------------------------------------------------- the coroutines *)
(* result of a callback that ran (part of) the coroutine of task k from the state s0 *)
Definition Q (k : nat) (s0 : st) (r : st * list action) : Prop :=
  M None (fst r) /\ forall t k' f, In (ASend t k' f) (snd r) -> k' = k /\ ofree k s0.

Lemma Q_nil k s0 s : M None s -> Q k s0 (s, []).
Proof. intros H. split; auto. intros t k' f []. Qed.

Lemma Q_app k s0 s acts a : (forall t k' f, In (ASend t k' f) acts -> k' = k /\ ofree k s0) -> Q k s0 (s, a) -> Q k s0 (s, acts ++ a).
Proof. intros H [HM Ha]. split; auto. cbn [snd]. intros t k' f Hin. apply in_app_or in Hin. destruct Hin; eauto. Qed.

Lemma sr_finally_P k s0 n : forall s, P k s0 s -> Hk k s -> P k s0 (sr_finally n s) /\ Hk k (sr_finally n s).
Proof.
  induction n as [|n IH]; intros s HP HH; cbn [sr_finally]; auto. cbv zeta.
  destruct (release_if_locked_P _ _ _ HP HH) as [P1 H1]. apply IH.
  - destruct (s_kind _); auto. destruct (s_ka _); auto. eapply P_lsame. apply close_transport_ls. exact P1.
  - destruct (s_kind _); auto. destruct (s_ka _); auto. eapply Hk_lsame. apply (close_transport_ls None). exact H1.
Qed.

Lemma close_and_release_M k s0 s : P k s0 s -> HkL k s -> M None (set_pc (lock_release (close_transport s)) k PcDone).
Proof.
  intros HP HH.
  assert (P1 : P k s0 (close_transport s)) by (eapply P_lsame; [apply close_transport_ls | exact HP]).
  assert (H1 : Hk k (close_transport s)) by (eapply Hk_lsame; [apply (close_transport_ls None) | apply HkL_Hk; exact HH]).
  destruct (lock_release_P _ _ _ P1 H1) as [P2 H2]. eapply set_pc_M; eauto. discriminate.
Qed.

Lemma exec_finish_Q k s0 s r : P k s0 s -> Q k s0 (exec_finish s k r).
Proof.
  intros HP. unfold exec_finish. cbv zeta.
  set (s1 := s <| s_retry := 0 |>).
  assert (L1 : lsame (Some k) s s1) by ls_same.
  assert (P1 : P k s0 s1) by (eapply P_lsame; eauto).
  assert (Hnosend : forall o t k' f, In (ASend t k' f) [ADone k o] -> k' = k /\ ofree k s0).
  { intros o t k' f [H|[]]. discriminate. }
  destruct (s_ka s1).
  { split; cbn [fst snd]; eauto. eapply set_pc_M; eauto. discriminate. }
  destruct (s_kind s1).
  { split; cbn [fst snd]; eauto. eapply set_pc_M. eapply P_lsame. apply close_transport_ls. exact P1. reflexivity. discriminate. }
  destruct (ensure_lock_P _ _ _ P1) as [P2 V2]. set (s2 := ensure_lock s1) in *.
  destruct (negb (s_lock s2) && _) eqn:Hfast.
  - destruct (acquire_P _ _ _ P2 V2 Hfast) as [P3 H3].
    split; cbn [fst snd]; eauto. eapply close_and_release_M; eauto.
  - apply Q_nil. eapply enqueue_M; eauto. apply lsame_refl.
Qed.

Lemma sr_unwind_Q k s0 s d r : P k s0 s -> Hk k s -> Q k s0 (sr_unwind s k d r).
Proof. intros HP HH. unfold sr_unwind. destruct (sr_finally_P k s0 (S d) s HP HH). apply exec_finish_Q; auto. Qed.

Definition nosend (a : list action) : Prop := forall t k f, ~ In (ASend t k f) a.
Lemma nosend_nil : nosend []. Proof. intros t k f []. Qed.
Lemma nosend_one a : (forall t k f, a <> ASend t k f) -> nosend [a].
Proof. intros H t k f [E|[]]. eapply H; eauto. Qed.

Lemma error_received_nosend s : nosend (snd (error_received s)).
Proof. unfold error_received. destruct (s_fut s); cbn [snd]. apply nosend_nil. apply nosend_one. discriminate. Qed.

Lemma do_send_Q s0 s k d t : P k s0 s -> HkL k s ->
  (forall t' k' f', In (ASend t' k' f') (snd (fst (do_send s k d t))) -> k' = k /\ ofree k s0) /\
  match snd (do_send s k d t) with
  | None => M None (fst (fst (do_send s k d t)))
  | Some _ => P k s0 (fst (fst (do_send s k d t))) /\ HkL k (fst (fst (do_send s k d t)))
  end.
Proof.
  intros HP HH. pose proof (P_ofree _ _ _ HP (HkL_Hk _ _ HH)) as Hfree. unfold do_send. cbv zeta.
  set (f := length (s_futs s)).
  set (s2 := _ <| s_nsend := _ |>).
  assert (L2 : lsame (Some k) s s2) by ls_same.
  set (y := match s_sends s2 with b :: tl => (b, s2 <| s_sends := tl |>) | [] => (true, s2) end).
  assert (Fy : lsame (Some k) s2 (snd y)) by (unfold y; destruct (s_sends s2); [apply lsame_refl | ls_same]).
  destruct y as [ok sy]. cbn [snd] in Fy.
  set (z := if ok then _ else _).
  assert (Fz : lsame (Some k) sy (fst z)).
  { unfold z. destruct ok. apply lsame_refl. destruct (s_kind sy).
    - pose proof (error_received_ls (Some k) sy) as He. destruct (error_received sy). exact He.
    - apply tr_close_ls. }
  assert (Az : forall t' k' f', In (ASend t' k' f') (snd z) -> k' = k).
  { unfold z. destruct ok. intros t' k' f' [H|[]]. congruence. destruct (s_kind sy).
    - pose proof (error_received_nosend sy) as He. destruct (error_received sy) as [se ae]. cbn [snd] in *.
      intros t' k' f' [H|H]. congruence. exfalso. eapply He; eauto.
    - intros t' k' f' [H|[]]. congruence. }
  destruct z as [s3 acts]. cbn [fst snd] in Fz, Az.
  set (s4 := arm_timer (cancel_timer s3)).
  assert (F4 : lsame (Some k) s s4).
  { eapply lsame_trans. exact L2. eapply lsame_trans. exact Fy. eapply lsame_trans. exact Fz.
    eapply lsame_trans. apply cancel_timer_ls. apply arm_timer_ls. }
  pose proof (P_lsame _ _ _ _ F4 HP) as P4. pose proof (HkL_lsame _ _ _ _ F4 HH) as H4.
  destruct (fstat_of s4 f) eqn:E4; cbn [fst snd]; (split; [intros t' k' f' Hin; split; [eapply Az; eauto | exact Hfree] |]); auto.
  eapply set_pc_M. eapply P_lsame. apply upd_task_ls. exact P4. reflexivity.
  intros _. eapply HkL_lsame. apply upd_task_ls. exact H4.
Qed.

Section AttemptM.
  Variable again : st -> nat -> nat -> st * list action.
  Variable k : nat.
  Variable s0 : st.
  Hypothesis again_Q : forall s d, P k s0 s -> Q k s0 (again s k d).

  Lemma sr_exception_Q s d e : P k s0 s -> Hk k s -> Q k s0 (sr_exception again s k d e).
  Proof.
    intros HP HH. unfold sr_exception. cbv zeta.
    assert (Hb : forall close : bool,
      Q k s0 (if Nat.ltb (s_retry s) (s_retries s)
              then again (if close then close_transport (release_if_locked (s <| s_retry := S (s_retry s) |>))
                          else release_if_locked (s <| s_retry := S (s_retry s) |>)) k (S d)
              else let '(s1, f) := max_retries s in sr_unwind s1 k d (RFut f))).
    { intros close. destruct (Nat.ltb (s_retry s) (s_retries s)).
      - set (s1 := s <| s_retry := S (s_retry s) |>).
        assert (L1 : lsame (Some k) s s1) by ls_same.
        destruct (release_if_locked_P k s0 s1 (P_lsame _ _ _ _ L1 HP) (Hk_lsame _ _ _ _ L1 HH)) as [P2 H2].
        apply again_Q. destruct close; auto. eapply P_lsame. apply close_transport_ls. exact P2.
      - pose proof (max_retries_ls (Some k) s) as Lm. destruct (max_retries s) as [s1 f]. cbn [fst] in Lm.
        apply sr_unwind_Q. eapply P_lsame; eauto. eapply Hk_lsame; eauto. }
    destruct e, (s_kind s); try (apply sr_unwind_Q; auto);
      first [ exact (Hb (negb (s_ka s))) | exact (Hb true) | exact (Hb false) ].
  Qed.

  Lemma sr_after_send_Q s d t : P k s0 s -> HkL k s -> Q k s0 (sr_after_send again (do_send s k d t) k d).
  Proof.
    intros HP HH. destruct (do_send_Q s0 s k d t HP HH) as [Ha H].
    destruct (do_send s k d t) as [[s1 acts] res]. cbn [fst snd] in *. unfold sr_after_send.
    destruct res as [[f|e]|].
    - destruct H as [P1 H1]. pose proof (sr_unwind_Q k s0 s1 d (RFut f) P1 (HkL_Hk _ _ H1)) as HQ.
      destruct (sr_unwind s1 k d (RFut f)). apply Q_app; auto.
    - destruct H as [P1 H1]. pose proof (sr_exception_Q s1 d e P1 (HkL_Hk _ _ H1)) as HQ.
      destruct (sr_exception again s1 k d e). apply Q_app; auto.
    - split; auto.
  Qed.

  Lemma sr_locked_Q s d : P k s0 s -> HkL k s -> Q k s0 (sr_locked again s k d).
  Proof.
    intros HP HH. unfold sr_locked. cbv zeta.
    set (s1 := match s_kind s with TCP => _ | UDP => s end).
    assert (L1 : lsame (Some k) s s1) by (unfold s1; destruct (s_kind s); [apply lsame_refl | apply upd_task_ls]).
    pose proof (P_lsame _ _ _ _ L1 HP) as P1. pose proof (HkL_lsame _ _ _ _ L1 HH) as H1.
    destruct (match s_transport s1 with Some t => _ | None => None end) as [t|].
    - apply sr_after_send_Q. eapply P_lsame. apply upd_task_ls. exact P1. eapply HkL_lsame. apply upd_task_ls. exact H1.
    - assert (Hwait : forall s2 p, lsame (Some k) s1 s2 -> cs p = true -> waitid p = None -> M None (set_pc s2 k p)).
      { intros s2 p L2 Hc Hw. eapply set_pc_M; eauto. eapply P_lsame; eauto. intros _. eapply HkL_lsame; eauto. }
      destruct (s_conns s1) as [|c tl].
      + split; cbn [fst snd]. 2: { intros t k' f [H|[]]. discriminate. }
        apply Hwait; auto.
        eapply lsame_trans. 2: apply upd_task_ls.
        eapply lsame_trans. 2: apply push_ls. eapply lsame_trans. 2: apply push_ls. eapply lsame_trans. 2: apply push_ls. ls_same.
      + set (sc := s1 <| s_conns := tl |>). assert (Lc : lsame (Some k) s1 sc) by ls_same.
        destruct c.
        * split; cbn [fst snd]. 2: { intros t k' f [H|[]]. discriminate. }
          apply Hwait; auto.
          eapply lsame_trans. 2: apply upd_task_ls.
          eapply lsame_trans. 2: apply push_ls. eapply lsame_trans. 2: apply push_ls. eapply lsame_trans. 2: apply push_ls.
          eapply lsame_trans. exact Lc. ls_same.
        * assert (L3 : lsame (Some k) s1 (upd_task sc k (fun tk => tk <| t_wf := false |>))) by (eapply lsame_trans; [exact Lc | apply upd_task_ls]).
          apply sr_exception_Q. eapply P_lsame; eauto. eapply Hk_lsame; eauto. apply HkL_Hk; auto.
        * destruct (s_kind sc).
          -- apply sr_exception_Q. eapply P_lsame; eauto. eapply Hk_lsame; eauto. apply HkL_Hk; auto.
          -- apply Q_nil. apply Hwait; auto. eapply lsame_trans. exact Lc. apply upd_task_ls.
  Qed.

  Lemma sr_attempt_body_Q s d : P k s0 s -> Q k s0 (sr_attempt_body again s k d).
  Proof.
    intros HP. unfold sr_attempt_body. cbv zeta.
    destruct (ensure_lock_P _ _ _ HP) as [P1 V1]. set (s1 := ensure_lock s) in *.
    destruct (negb (s_lock s1) && _) eqn:Hfast.
    - destruct (acquire_P _ _ _ P1 V1 Hfast) as [P2 H2]. apply sr_locked_Q; auto.
    - apply Q_nil. eapply enqueue_M; eauto. apply upd_task_ls.
  Qed.
End AttemptM.

Lemma sr_attempt_Q fuel k s0 : forall s d, P k s0 s -> Q k s0 (sr_attempt fuel s k d).
Proof.
  induction fuel as [|fuel IH]; intros s d HP; cbn [sr_attempt].
  - pose proof (exec_finish_Q k s0 s (RRaise XCancelled) HP) as [H1 H2]. destruct (exec_finish s k (RRaise XCancelled)) as [s' a].
    split; cbn [fst snd] in *; auto. intros t k' f [H|H]. discriminate. eauto.
  - apply sr_attempt_body_Q; auto.
Qed.

Lemma P_init k s : M None s -> P k s s.
Proof. intros H. split; auto. apply M_weaken; auto. Qed.

Lemma task_step_Q s k : M None s -> Q k s (task_step s k).
Proof.
  intros HM. unfold task_step. destruct (get_task k (s_tasks s)) as [tk|] eqn:Hgk. 2: apply Q_nil; auto.
  assert (Hpc : pc_of s k = Some (t_pc tk)) by (unfold pc_of; rewrite Hgk; reflexivity).
  pose proof (P_init k s HM) as HP.
  assert (Hcs : cs (t_pc tk) = true -> HkL k s).
  { intros Hc. destruct (m_cs _ _ HM k _ ltac:(discriminate) Hpc Hc) as [L O]. split; auto.
    apply (m_valid _ _ HM k _ ltac:(discriminate) Hpc). unfold lockpc. rewrite Hc. reflexivity. }
  assert (Hclose : forall w, waitid (t_pc tk) = Some w -> woken s w = true ->
     M None (set_pc (lock_release (close_transport (s <| s_waiters := filter (fun p => negb (Nat.eqb (fst p) w)) (s_waiters s) |>
                                                 <| s_lock := true |> <| s_owner := Some k |>))) k PcDone)).
  { intros w Hw Hwk. destruct (resume_P k s _ w HM Hpc Hw Hwk) as [P1 H1]. eapply close_and_release_M; eauto. }
  assert (Hnosend : forall (a : action) t k' f, (forall t k f, a <> ASend t k f) -> In (ASend t k' f) [a] -> k' = k /\ ofree k s).
  { intros a t k' f Ha [H|[]]. exfalso. eapply Ha; eauto. }
  destruct (t_pc tk) eqn:E.
  - (* PcStart *) apply sr_attempt_Q; auto.
  - (* PcLockWait *) destruct (woken s w) eqn:Hwk; cbn [negb]. 2: apply Q_nil; auto.
    destruct (resume_P k s _ w HM Hpc eq_refl Hwk) as [P1 H1]. apply sr_locked_Q; auto. intros; apply sr_attempt_Q; auto.
  - (* PcConnWait *) pose proof (Hcs eq_refl) as HH. destruct (t_cancelled tk).
    + set (s1 := upd_task s k _).
      assert (L1 : lsame (Some k) s (tr_close s1 t)) by (eapply lsame_trans; [apply upd_task_ls | apply tr_close_ls]).
      apply sr_exception_Q. intros; apply sr_attempt_Q; auto. eapply P_lsame; eauto. eapply Hk_lsame; eauto. apply HkL_Hk; auto.
    + destruct (has_waiter k t (s_ready s)). apply Q_nil; auto.
      set (s1 := upd_task s k _).
      assert (L1 : lsame (Some k) s (s1 <| s_transport := Some t |>)) by (apply lsame_trans with (b := s1); [apply upd_task_ls | ls_same]).
      apply sr_after_send_Q. intros; apply sr_attempt_Q; auto. eapply P_lsame; eauto. eapply HkL_lsame; eauto.
  - (* PcConnHang *) pose proof (Hcs eq_refl) as HH.
    apply sr_exception_Q. intros; apply sr_attempt_Q; auto. eapply P_lsame. apply upd_task_ls. auto.
    eapply Hk_lsame. apply upd_task_ls. apply HkL_Hk; auto.
  - (* PcAwait *) pose proof (HkL_Hk _ _ (Hcs eq_refl)) as HH. destruct (fstat_of s f).
    + apply Q_nil; auto.
    + apply sr_unwind_Q; auto.
    + apply sr_exception_Q; auto. intros; apply sr_attempt_Q; auto.
    + apply sr_exception_Q; auto. intros; apply sr_attempt_Q; auto.
  - (* PcCloseLockWait *) destruct (woken s w) eqn:Hwk; cbn [negb]. 2: apply Q_nil; auto.
    cbv zeta. split; cbn [fst snd]. apply Hclose; auto. intros t k' f. apply Hnosend. discriminate.
  - (* PcCloseStart *) destruct (s_kind s).
    + split; cbn [fst snd]. eapply set_pc_M. eapply P_lsame. apply close_transport_ls. exact HP. reflexivity. discriminate.
      intros t k' f. apply Hnosend. discriminate.
    + destruct (ensure_lock_P _ _ _ HP) as [P1 V1]. set (s1 := ensure_lock s) in *.
      destruct (negb (s_lock s1) && _) eqn:Hfast.
      * destruct (acquire_P _ _ _ P1 V1 Hfast) as [P2 H2]. split; cbn [fst snd]. eapply close_and_release_M; eauto.
        intros t k' f. apply Hnosend. discriminate.
      * apply Q_nil. eapply enqueue_M; eauto. apply lsame_refl.
  - (* PcCloseOnlyWait *) destruct (woken s w) eqn:Hwk; cbn [negb]. 2: apply Q_nil; auto.
    split; cbn [fst snd]. apply Hclose; auto. intros t k' f. apply Hnosend. discriminate.
  - apply Q_nil; auto.
Qed.

(* ---------------------------------------------------------------- all callbacks, all events *)
(* result of one event from the state s: the invariant, and nobody else was connecting / awaiting an answer if something was sent *)
Definition SQ (s : st) (r : st * list action) : Prop :=
  M None (fst r) /\ forall t k f, In (ASend t k f) (snd r) -> ofree k s.

Lemma SQ_ls s r : lsame None s (fst r) -> nosend (snd r) -> M None s -> SQ s r.
Proof. intros L N HM. split. eapply M_lsame; eauto. intros t k f H. exfalso. eapply N; eauto. Qed.

Lemma timeout_mechanism_nosend s : nosend (snd (timeout_mechanism s)).
Proof.
  unfold timeout_mechanism. destruct (s_kind s), (s_fut s) as [f|]; try destruct (pending s f); cbn [snd];
    try apply nosend_nil; apply nosend_one; discriminate.
Qed.

Lemma received_nosend s id len v : nosend (snd (received s id len v)).
Proof.
  unfold received. destruct (negb (s_cmd s)). apply nosend_one; discriminate. cbv zeta.
  destruct (match s_partial _ with Some _ => _ | None => _ end) as [[data dlen] s1].
  destruct v.
  - destruct (s_fut _) as [f|]. destruct (pending _ f); apply nosend_nil. apply nosend_one; discriminate.
  - destruct (s_kind s1). apply nosend_nil. destruct (s_fut s1) as [f|]. destruct (pending s1 f); apply nosend_nil. apply nosend_one; discriminate.
  - apply nosend_nil.
  - apply nosend_nil.
Qed.

Lemma ofree_lsame k s s' : lsame None s s' -> ofree k s' -> ofree k s.
Proof. intros L H k' p Hn Hp. apply (H k' p Hn). rewrite (ls_pcs _ _ _ L); auto. discriminate. Qed.

Lemma run_cb_SQ s c : M None s -> SQ s (run_cb s c).
Proof.
  intros HM. destruct c; cbn [run_cb].
  - destruct (task_step_Q s k HM) as [H1 H2]. split; auto. intros t k' f Hin. destruct (H2 _ _ _ Hin) as [-> Hf]. exact Hf.
  - apply SQ_ls; auto; cbn [fst snd]. 2: apply nosend_nil.
    destruct (tstate_of s t); cbn; destruct (s_kind s); ls_same.
  - apply SQ_ls; auto. apply lsame_refl. apply nosend_nil.
  - destruct (get_task k (s_tasks s)) as [tk|]. 2: { apply SQ_ls; auto. apply lsame_refl. apply nosend_nil. }
    destruct (t_pc tk); try (apply SQ_ls; auto; [apply lsame_refl | apply nosend_nil]).
    destruct (_ || _); apply SQ_ls; auto; try apply nosend_nil. apply lsame_refl. apply push_ls.
  - destruct (tstate_of s t); try (apply SQ_ls; auto; [apply lsame_refl | apply nosend_nil]).
    destruct i.
    + apply SQ_ls; auto. apply received_ls. apply received_nosend.
    + apply SQ_ls; auto. cbn [fst]. eapply lsame_trans. apply close_transport_ls. apply tr_close_ls. apply nosend_nil.
  - apply SQ_ls; auto. apply timeout_mechanism_ls. apply timeout_mechanism_nosend.
  - destruct (mem_nat h (s_handles s)). 2: { apply SQ_ls; auto. apply lsame_refl. apply nosend_nil. }
    apply SQ_ls; auto. eapply lsame_trans. 2: apply timeout_mechanism_ls. ls_same. apply timeout_mechanism_nosend.
  - destruct (tstate_of s t); try (apply SQ_ls; auto; [apply lsame_refl | apply nosend_nil]).
    apply SQ_ls; auto; cbn [fst snd]. eapply lsame_trans. 2: apply close_transport_ls. ls_same. apply nosend_one; discriminate.
  - destruct (tstate_of s t); try (apply SQ_ls; auto; [apply lsame_refl | apply nosend_nil]).
    apply SQ_ls; auto. apply error_received_ls. apply error_received_nosend.
  - apply SQ_ls; auto. apply tr_close_ls. apply nosend_nil.
  - destruct (get_task k (s_tasks s)) as [tk|]. 2: { apply SQ_ls; auto. apply lsame_refl. apply nosend_nil. }
    destruct (t_wf tk). 2: { apply SQ_ls; auto. apply lsame_refl. apply nosend_nil. }
    destruct (t_pc tk); try (apply SQ_ls; auto; [apply lsame_refl | apply nosend_nil]);
      (cbv zeta; apply SQ_ls; auto; cbn [fst snd]; [|apply nosend_nil];
       match goal with |- context [upd_task s k ?f] => pose proof (upd_task_ls_all None s k f (fun _ => eq_refl)) as Lu end;
       destruct (has_task k (s_ready s)); [exact Lu | eapply lsame_trans; [exact Lu | apply push_ls]]).
Qed.

Lemma pc_of_new_task s k tk : get_task k (s_tasks s) = None ->
  forall k', option_map t_pc (get_task k' (s_tasks s ++ [(k, tk)])) = if Nat.eqb k' k then Some (t_pc tk) else pc_of s k'.
Proof. intros Hk k'. rewrite (get_task_app_new _ _ _ Hk). unfold pc_of. destruct (Nat.eqb k' k); reflexivity. Qed.

(* a new caller: its coroutine has not started, it takes no part in the lock yet *)
Lemma new_task_M s k p s' : M None s -> get_task k (s_tasks s) = None -> lockpc p = false ->
  s_lock s' = s_lock s -> s_owner s' = s_owner s -> s_waiters s' = s_waiters s -> s_nextw s' = s_nextw s ->
  s_haslock s' = s_haslock s -> s_lockloop s' = s_lockloop s -> s_loop s' = s_loop s ->
  (forall k', pc_of s' k' = if Nat.eqb k' k then Some p else pc_of s k') -> M None s'.
Proof.
  intros [A B C D E] Hk Hl L1 L2 L3 L4 L5 L6 L7 L8.
  assert (Hcs : cs p = false) by (unfold lockpc in Hl; apply orb_false_elim in Hl; tauto).
  assert (Hw : waitid p = None) by (unfold lockpc in Hl; apply orb_false_elim in Hl; destruct (waitid p); [destruct Hl; discriminate | auto]).
  assert (Hold : forall k1 p1, pc_of s' k1 = Some p1 -> (k1 = k /\ p1 = p) \/ pc_of s k1 = Some p1).
  { intros k1 p1 H. rewrite L8 in H. destruct (Nat.eqb_spec k1 k). left. split; congruence. right. exact H. }
  constructor.
  - intros k1 p1 _ Hp1 Hl1. unfold V. rewrite L5, L6, L7. destruct (Hold _ _ Hp1) as [[-> ->]|Hp]. congruence. eapply A; eauto; discriminate.
  - intros k1 p1 _ Hp1 Hc1. rewrite L1, L2. destruct (Hold _ _ Hp1) as [[-> ->]|Hp]. congruence. eapply B; eauto; discriminate.
  - rewrite L1, L3. exact C.
  - intros k1 p1 w _ Hp1 Hw1. rewrite L4. destruct (Hold _ _ Hp1) as [[-> ->]|Hp]. congruence. eapply D; eauto; discriminate.
  - intros k1 k2 p1 p2 w _ _ Hp1 Hp2 Hw1 Hw2.
    destruct (Hold _ _ Hp1) as [[-> ->]|Hq1]. congruence. destruct (Hold _ _ Hp2) as [[-> ->]|Hq2]. congruence.
    eapply E; eauto; discriminate.
Qed.

Lemma step_SQ s e r : M None s -> step s e = Some r -> SQ s r.
Proof.
  intros HM. destruct e; cbn [step]; intros H;
    repeat match type of H with
    | context [match ?x with _ => _ end] => destruct x eqn:?; try discriminate
    end; try (injection H as <-).
  - (* EvPop *) set (s1 := s <| s_ready := l |>). assert (L : lsame None s s1) by ls_same.
    destruct (run_cb_SQ s1 c (M_lsame _ _ _ L HM)) as [H1 H2]. split; [exact H1|].
    intros t k f Hin. eapply ofree_lsame; eauto.
  - apply SQ_ls; auto. apply push_ls. apply nosend_nil.
  - apply SQ_ls; auto. apply push_ls. apply nosend_nil.
  - apply SQ_ls; auto. apply push_ls. apply nosend_nil.
  - apply SQ_ls; auto. apply push_ls. apply nosend_nil.
  - apply SQ_ls; auto. apply push_ls. apply nosend_nil.
  - (* EvCall *) split; cbn [fst snd]. 2: intros t0 k0 f [].
    eapply new_task_M with (k := k) (p := PcStart); eauto; try reflexivity.
    intros k'. unfold pc_of at 1. cbn. apply pc_of_new_task; auto.
  - split; cbn [fst snd]. 2: intros t0 k0 f [].
    eapply new_task_M with (k := k) (p := PcCloseStart); eauto; try reflexivity.
    intros k'. unfold pc_of at 1. cbn. apply pc_of_new_task; auto.
  - apply SQ_ls; auto. ls_same. apply nosend_nil.
  - apply SQ_ls; auto. ls_same. apply nosend_nil.
  - (* EvNewLoop: only when every coroutine has finished *)
    split; cbn [fst snd]. 2: intros t0 k0 f [].
    pose proof (quiescent_done _ Heqb) as Hd. destruct HM as [A B C D E].
    assert (Hpc : forall k p, pc_of s k = Some p -> p = PcDone).
    { intros k p Hp. unfold pc_of in Hp. destruct (get_task k (s_tasks s)) as [tk|] eqn:Ek; try discriminate.
      cbn in Hp. injection Hp as <-. eapply Hd; eauto. }
    constructor; cbn.
    + intros k p _ Hp Hl. rewrite (Hpc _ _ Hp) in Hl. discriminate.
    + intros k p _ Hp Hl. rewrite (Hpc _ _ Hp) in Hl. discriminate.
    + exact C.
    + intros k p w _ Hp Hl. rewrite (Hpc _ _ Hp) in Hl. discriminate.
    + intros k k' p p' w _ _ Hp _ Hl. rewrite (Hpc _ _ Hp) in Hl. discriminate.
Qed.

Lemma init_M kd ka r : M None (init kd ka r).
Proof. constructor; cbn; auto; intros; discriminate. Qed.

Lemma run_M es : forall s s' acts, M None s -> run s es = Some (s', acts) -> M None s'.
Proof.
  induction es as [|e es IH]; intros s s' acts HM H; cbn [run] in H.
  - injection H as <- <-. exact HM.
  - destruct (step s e) as [[s1 a1]|] eqn:Es; try discriminate.
    destruct (run s1 es) as [[s2 a2]|] eqn:Er; try discriminate. injection H as <- <-.
    eapply IH. 2: exact Er. exact (proj1 (step_SQ _ _ _ HM Es)).
Qed.

(* ---------------------------------------------------------------- the theorems *)
(* every state of every run: a task between lock.acquire() and release holds the lock, the lock object is current,
   and waiter ids identify their tasks *)
Theorem lock_invariant es kd ka r s acts : run (init kd ka r) es = Some (s, acts) -> M None s.
Proof. intros H. eapply run_M. apply init_M. exact H. Qed.

(* at most one task is connecting or awaiting an answer *)
Theorem one_request_in_flight es kd ka r s acts : run (init kd ka r) es = Some (s, acts) ->
  forall k k' p p', pc_of s k = Some p -> pc_of s k' = Some p' -> cs p = true -> cs p' = true -> k = k'.
Proof.
  intros H k k' p p' Hp Hp' Hc Hc'. pose proof (lock_invariant _ _ _ _ _ _ H) as HM.
  destruct (m_cs _ _ HM k p ltac:(discriminate) Hp Hc) as [_ O1].
  destruct (m_cs _ _ HM k' p' ltac:(discriminate) Hp' Hc') as [_ O2]. congruence.
Qed.

(* a request is never put on the wire while another caller's request is connecting or awaiting its answer *)
Theorem transmit_only_when_nobody_else_waits es kd ka r s acts e s' acts' :
  run (init kd ka r) es = Some (s, acts) -> step s e = Some (s', acts') ->
  forall t k f, In (ASend t k f) acts' ->
  forall k' p, k' <> k -> pc_of s k' = Some p -> cs p = false.
Proof.
  intros H Hs t k f Hin. pose proof (lock_invariant _ _ _ _ _ _ H) as HM.
  exact (proj2 (step_SQ _ _ _ HM Hs) t k f Hin).
Qed.

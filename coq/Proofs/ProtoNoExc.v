(* C09: "no exception is left unhandled in an event-loop callback".
   In Model/Proto.v an exception escaping a loop callback is the action ALoopExc; it is produced where the code would dereference
   a response_future / command that does not exist yet (error_received, data_received, _timeout_mechanism before the first
   request) and by the out-of-fuel branch of the retry recursion.  Theorem: no run of the model, whatever the events, contains
   ALoopExc.  Invariant: callbacks that need the command/future are only scheduled after the first transmission, and the retry
   recursion never runs out of fuel (fuel = retries + 2 > retries - _retry). *)
From Coq Require Import List Bool Arith Lia.
From RecordUpdate Require Import RecordSet.
From GW Require Import Proto ProtoEvolves ProtoProps ProtoBound.
Import ListNotations RecordSetNotations.

Definition needs_cmd (c : cb) : bool :=
  match c with CbSoon | CbErr _ => true | CbRead _ (IoData _ _ _) => true | _ => false end.

Record J (s : st) : Prop := mkJ {
  j_fut : s_cmd s = true -> s_fut s <> None;
  j_sent : s_sent s <> [] -> s_cmd s = true;
  j_handles : s_handles s <> [] -> s_cmd s = true;
  j_ready : s_cmd s = false -> forall c, In c (s_ready s) -> needs_cmd c = false;
}.

Record jrel (s s' : st) : Prop := mkJr {
  jr_cmd : s_cmd s = true -> s_cmd s' = true;
  jr_cmd' : s_cmd s' = true -> s_cmd s = true \/ s_fut s' <> None;
  jr_fut : s_fut s <> None -> s_fut s' <> None;
  jr_sent : s_sent s' <> [] -> s_sent s <> [] \/ s_cmd s' = true;
  jr_handles : s_handles s' <> [] -> s_handles s <> [] \/ s_cmd s' = true;
  jr_ready : forall c, In c (s_ready s') -> In c (s_ready s) \/ needs_cmd c = false \/ s_cmd s' = true;
}.

Lemma jrel_refl s : jrel s s.
Proof. constructor; auto. Qed.

Lemma jrel_trans a b c : jrel a b -> jrel b c -> jrel a c.
Proof.
  intros [a1 a2 a3 a4 a5 a6] [b1 b2 b3 b4 b5 b6]. constructor; auto.
  - intros H. destruct (b2 H) as [H1|H1]; auto. destruct (a2 H1) as [H2|H2]; auto.
  - intros H. destruct (b4 H) as [H1|H1]; auto. destruct (a4 H1) as [H2|H2]; auto.
  - intros H. destruct (b5 H) as [H1|H1]; auto. destruct (a5 H1) as [H2|H2]; auto.
  - intros x H. destruct (b6 x H) as [H1|[H1|H1]]; auto. destruct (a6 x H1) as [H2|[H2|H2]]; auto.
Qed.

Lemma J_jrel s s' : jrel s s' -> J s -> J s'.
Proof.
  intros [r1 r2 r3 r4 r5 r6] [j1 j2 j3 j4]. constructor.
  - intros H. destruct (r2 H) as [H1|H1]; auto.
  - intros H. destruct (r4 H) as [H1|H1]; auto.
  - intros H. destruct (r5 H) as [H1|H1]; auto.
  - intros H c Hc. destruct (r6 c Hc) as [H1|[H1|H1]]; auto; [|congruence].
    apply j4; auto. destruct (s_cmd s) eqn:E; auto. rewrite r1 in H by reflexivity. discriminate.
Qed.

(* nothing but the listed fields changes *)
Ltac jr_same := constructor; cbn; intros; auto; try tauto.

Lemma jrel_ready s s' : s_cmd s' = s_cmd s -> s_fut s' = s_fut s -> s_sent s' = s_sent s -> s_handles s' = s_handles s ->
  (forall c, In c (s_ready s') -> In c (s_ready s) \/ needs_cmd c = false \/ s_cmd s' = true) -> jrel s s'.
Proof.
  intros H1 H2 H3 H4 H5. constructor.
  - rewrite H1; auto.
  - rewrite H1; auto.
  - rewrite H2; auto.
  - rewrite H3; auto.
  - rewrite H4; auto.
  - exact H5.
Qed.

Lemma push_jr s c : needs_cmd c = false \/ s_cmd s = true -> jrel s (push s c).
Proof.
  intros H. apply jrel_ready; auto. intros x Hx. cbn in Hx. apply in_app_or in Hx. destruct Hx as [Hx|[<-|[]]]; auto; destruct H; auto.
Qed.

Lemma remove_nat_nonempty x l : remove_nat x l <> [] -> l <> [].
Proof. destruct l; cbn; auto. discriminate. Qed.

Lemma cancel_timer_jr s : jrel s (cancel_timer s).
Proof.
  unfold cancel_timer. destruct (s_timer s); [|apply jrel_refl]. constructor; cbn; intros; auto; try tauto.
  left. eapply remove_nat_nonempty; eauto.
Qed.

Lemma arm_timer_jr s : s_cmd s = true -> jrel s (arm_timer s).
Proof. intros H. constructor; cbn; auto. Qed.

Lemma tr_close_jr s t : jrel s (tr_close s t).
Proof.
  unfold tr_close. destruct (tstate_of s t); try apply jrel_refl.
  - eapply jrel_trans. 2: apply push_jr; auto. jr_same.
  - eapply jrel_trans. 2: apply push_jr; auto. jr_same.
Qed.

Lemma complete_jr s f v : jrel s (complete s f v).
Proof.
  unfold complete. cbv zeta. destruct (awaiting _ _). 2: jr_same.
  eapply jrel_trans. 2: apply push_jr; auto. jr_same.
Qed.

Lemma close_transport_jr s : jrel s (close_transport s).
Proof.
  unfold close_transport. cbv zeta.
  set (s1 := match s_transport s with Some t => _ | None => s end).
  assert (H1 : jrel s s1).
  { unfold s1. destruct (s_transport s) as [t0|]. apply jrel_trans with (b := tr_close s t0). apply tr_close_jr. jr_same. apply jrel_refl. }
  eapply jrel_trans. exact H1.
  destruct (s_fut s1) as [f|]; [|apply jrel_refl].
  destruct (pending s1 f); [|apply jrel_refl]. apply complete_jr.
Qed.

Lemma lock_release_jr s : jrel s (lock_release s).
Proof.
  unfold lock_release. cbv zeta. destruct (s_waiters _) as [|[w [|]] tl]; try solve [jr_same].
  match goal with |- context [match ?x with Some _ => _ | None => _ end] => destruct x end. 2: jr_same.
  eapply jrel_trans. 2: apply push_jr; auto. jr_same.
Qed.

Lemma release_if_locked_jr s : jrel s (release_if_locked s).
Proof. unfold release_if_locked. destruct (_ && _). apply lock_release_jr. apply jrel_refl. Qed.

Lemma ensure_lock_jr s : jrel s (ensure_lock s).
Proof. unfold ensure_lock. destruct (_ && _). apply jrel_refl. eapply jrel_trans; [|apply close_transport_jr]. jr_same. Qed.

Lemma upd_task_jr s k f : jrel s (upd_task s k f).
Proof. unfold upd_task. destruct (get_task k (s_tasks s)); [|apply jrel_refl]. jr_same. Qed.

Lemma set_pc_jr s k p : jrel s (set_pc s k p).
Proof. unfold set_pc. destruct (get_task k (s_tasks s)); [|apply jrel_refl]. jr_same. Qed.

Lemma sr_finally_jr n : forall s, jrel s (sr_finally n s).
Proof.
  induction n as [|n IH]; intros s; cbn [sr_finally]. apply jrel_refl.
  cbv zeta. eapply jrel_trans. 2: apply IH.
  eapply jrel_trans. apply release_if_locked_jr.
  destruct (s_kind _). destruct (s_ka _). apply jrel_refl. apply close_transport_jr. apply jrel_refl.
Qed.

Lemma max_retries_jr s : jrel s (fst (max_retries s)).
Proof.
  unfold max_retries. cbv zeta. cbn [fst]. eapply jrel_trans. apply close_transport_jr.
  constructor; cbn; intros; auto; try tauto; try discriminate; try (right; discriminate).
Qed.

(* ---------------------------------------------------------------- retry counter and budget do not change *)
Definition rs (s s' : st) : Prop := s_retry s' = s_retry s /\ s_retries s' = s_retries s.
Lemma rs_refl s : rs s s. Proof. split; reflexivity. Qed.
Lemma rs_trans a b c : rs a b -> rs b c -> rs a c. Proof. intros [a1 a2] [b1 b2]. split; congruence. Qed.
Lemma rs_frame s s' : frame s s' -> rs s s'. Proof. intros F. split. apply (fr_retry _ _ F). apply (fr_retries _ _ F). Qed.

Definition mu (s : st) : nat := s_retries s - s_retry s.
Lemma mu_rs s s' : rs s s' -> mu s' = mu s. Proof. intros [H1 H2]. unfold mu. rewrite H1, H2. reflexivity. Qed.

(* ---------------------------------------------------------------- actions *)
Definition noexc (a : list action) : Prop := ~ In ALoopExc a.
Lemma noexc_nil : noexc []. Proof. intros []. Qed.
Lemma noexc_one a : a <> ALoopExc -> noexc [a]. Proof. intros H [E|[]]. congruence. Qed.
Lemma noexc_app a b : noexc a -> noexc b -> noexc (a ++ b).
Proof. unfold noexc. intros Ha Hb H. apply in_app_or in H. tauto. Qed.

Definition X (r : st * list action) : Prop := J (fst r) /\ noexc (snd r).
Lemma X_of s s' a : J s -> jrel s s' -> noexc a -> X (s', a).
Proof. intros HJ R N. split; auto. eapply J_jrel; eauto. Qed.

Lemma error_received_X s : J s -> s_cmd s = true -> jrel s (fst (error_received s)) /\ noexc (snd (error_received s)).
Proof.
  intros HJ Hc. pose proof (j_fut _ HJ Hc) as Hf. unfold error_received. destruct (s_fut s) as [f|]; [|congruence]. cbn [fst snd].
  split. 2: apply noexc_nil. destruct (pending s f). apply jrel_trans with (b := complete s f (FExc XOSError)). apply complete_jr. apply close_transport_jr. apply close_transport_jr.
Qed.

Lemma timeout_mechanism_X s : J s -> s_cmd s = true -> jrel s (fst (timeout_mechanism s)) /\ noexc (snd (timeout_mechanism s)).
Proof.
  intros HJ Hc. pose proof (j_fut _ HJ Hc) as Hf. unfold timeout_mechanism.
  destruct (s_kind s), (s_fut s) as [f|]; try congruence; destruct (pending s f); cbn [fst snd]; split; try apply noexc_nil; try apply jrel_refl.
  - apply jrel_trans with (b := s <| s_timer := None |>). jr_same. apply complete_jr.
  - apply jrel_trans with (b := s <| s_timer := None |>). jr_same. apply close_transport_jr.
Qed.

Lemma received_X s id len v : J s -> s_cmd s = true -> jrel s (fst (received s id len v)) /\ noexc (snd (received s id len v)).
Proof.
  intros HJ Hc. pose proof (j_fut _ HJ Hc) as Hf. unfold received. rewrite Hc. cbn [negb]. cbv zeta.
  set (s0 := match s_kind s with UDP => _ | TCP => _ end).
  assert (F0 : jrel s s0).
  { unfold s0. destruct (s_kind s). eapply jrel_trans. apply cancel_timer_jr. jr_same. apply cancel_timer_jr. }
  set (y := match s_partial s0 with Some _ => _ | None => _ end).
  assert (Fy : jrel s0 (snd y)).
  { unfold y. destruct (s_partial s0) as [[[p plen] miss]|]. destruct (_ && _); cbn [snd]. jr_same. apply jrel_refl. apply jrel_refl. }
  destruct y as [[data dlen] s1]. cbn [snd] in Fy.
  assert (F1 : jrel s s1) by (eapply jrel_trans; eauto).
  assert (C1 : s_cmd s1 = true) by (apply (jr_cmd _ _ F1); exact Hc).
  assert (U1 : s_fut s1 <> None) by (apply (jr_fut _ _ F1); exact Hf).
  destruct v.
  - set (s2 := s1 <| s_accepted := _ |>). assert (F2 : jrel s s2) by (eapply jrel_trans; [exact F1 | jr_same]).
    assert (U2 : s_fut s2 <> None) by exact U1.
    destruct (s_fut s2) as [f|]; [|congruence]. destruct (pending s2 f); cbn [fst snd]; split; try apply noexc_nil; auto.
    eapply jrel_trans. exact F2. apply jrel_trans with (b := complete s2 f (FResult data)). apply complete_jr. jr_same.
  - destruct (s_kind s1); cbn [fst snd].
    + split. 2: apply noexc_nil. eapply jrel_trans. exact F1. apply push_jr. auto.
    + destruct (s_fut s1) as [f|]; [|congruence]. destruct (pending s1 f); cbn [fst snd]; split; try apply noexc_nil; auto.
      eapply jrel_trans. exact F1. apply jrel_trans with (b := complete s1 f (FExc XRejectedEmpty)). apply complete_jr. apply close_transport_jr.
  - cbn [fst snd]. split. 2: apply noexc_nil. eapply jrel_trans. exact F1.
    eapply jrel_trans with (b := s1 <| s_partial := Some (data, dlen, expected - dlen) |>). jr_same. apply arm_timer_jr. exact C1.
  - cbn [fst snd]. split. 2: apply noexc_nil. set (s2 := match s_fut s1 with Some f => _ | None => s1 end).
    assert (F2 : jrel s1 s2).
    { unfold s2. destruct (s_fut s1) as [f|]. destruct (pending s1 f). apply complete_jr. apply jrel_refl. apply jrel_refl. }
    eapply jrel_trans. exact F1. eapply jrel_trans. exact F2. destruct (s_kind s2). apply close_transport_jr. apply jrel_refl.
Qed.

(* ---------------------------------------------------------------- the coroutines *)
Lemma exec_finish_X s k r : jrel s (fst (exec_finish s k r)) /\ noexc (snd (exec_finish s k r)).
Proof.
  unfold exec_finish. cbv zeta.
  set (s1 := s <| s_retry := 0 |>). assert (F1 : jrel s s1) by jr_same.
  destruct (s_ka s1); cbn [fst snd]. { split. eapply jrel_trans. exact F1. apply set_pc_jr. apply noexc_one. discriminate. }
  destruct (s_kind s1); cbn [fst snd].
  { split. eapply jrel_trans. exact F1. eapply jrel_trans. apply close_transport_jr. apply set_pc_jr. apply noexc_one. discriminate. }
  set (s2 := ensure_lock s1). assert (F2 : jrel s s2) by (eapply jrel_trans; [exact F1 | apply ensure_lock_jr]).
  destruct (_ && _); cbn [fst snd].
  - split. 2: apply noexc_one; discriminate. eapply jrel_trans. exact F2. eapply jrel_trans. 2: apply set_pc_jr.
    eapply jrel_trans. 2: apply lock_release_jr. eapply jrel_trans. 2: apply close_transport_jr. jr_same.
  - split. 2: apply noexc_nil. eapply jrel_trans. exact F2. eapply jrel_trans. 2: apply set_pc_jr. jr_same.
Qed.

Lemma sr_unwind_X s k d r : J s -> X (sr_unwind s k d r).
Proof.
  intros HJ. unfold sr_unwind. destruct (exec_finish_X (sr_finally (S d) s) k r) as [R N].
  split; auto. eapply J_jrel. exact R. eapply J_jrel. apply sr_finally_jr. exact HJ.
Qed.

Lemma release_if_locked_rs s : rs s (release_if_locked s). Proof. apply rs_frame, release_if_locked_frame. Qed.
Lemma close_transport_rs s : rs s (close_transport s). Proof. apply rs_frame, close_transport_frame. Qed.
Lemma ensure_lock_rs s : rs s (ensure_lock s). Proof. apply rs_frame, ensure_lock_frame. Qed.
Lemma upd_task_rs s k f : rs s (upd_task s k f).
Proof. unfold upd_task. destruct (get_task k (s_tasks s)); split; reflexivity. Qed.

Lemma do_send_X s k d t : J s ->
  J (fst (fst (do_send s k d t))) /\ noexc (snd (fst (do_send s k d t))) /\ rs s (fst (fst (do_send s k d t))).
Proof.
  intros HJ. unfold do_send. cbv zeta.
  set (f := length (s_futs s)).
  set (s2 := _ <| s_nsend := _ |>).
  assert (J2 : J s2).
  { destruct HJ as [j1 j2 j3 j4]. constructor; cbn; auto; try discriminate. }
  assert (C2 : s_cmd s2 = true) by reflexivity.
  assert (R2 : rs s s2) by (split; reflexivity).
  set (y := match s_sends s2 with b :: tl => (b, s2 <| s_sends := tl |>) | [] => (true, s2) end).
  assert (Fy : jrel s2 (snd y) /\ rs s2 (snd y)) by (unfold y; destruct (s_sends s2); cbn [snd]; split; try apply jrel_refl; try apply rs_refl; try jr_same; split; reflexivity).
  destruct y as [ok sy]. cbn [snd] in Fy. destruct Fy as [Fy Ry].
  assert (Jy : J sy) by (eapply J_jrel; eauto).
  assert (Cy : s_cmd sy = true) by (apply (jr_cmd _ _ Fy); exact C2).
  set (z := if ok then _ else _).
  assert (Fz : jrel sy (fst z) /\ noexc (snd z) /\ rs sy (fst z)).
  { unfold z. destruct ok. cbn [fst snd]. split. apply jrel_refl. split. apply noexc_one; discriminate. apply rs_refl.
    destruct (s_kind sy).
    - destruct (error_received_X sy Jy Cy) as [Re Ne]. pose proof (rs_frame _ _ (error_received_frame sy)) as Rr.
      destruct (error_received sy) as [se ae]. cbn [fst snd] in *.
      split; auto. split; auto. intros [H|H]. discriminate. exact (Ne H).
    - cbn [fst snd]. split. apply tr_close_jr. split. apply noexc_one; discriminate. apply rs_frame, tr_close_frame. }
  destruct z as [s3 acts]. cbn [fst snd] in Fz. destruct Fz as (Fz & Nz & Rz).
  assert (J3 : J s3) by (eapply J_jrel; eauto).
  assert (C3 : s_cmd s3 = true) by (apply (jr_cmd _ _ Fz); exact Cy).
  set (s4 := arm_timer (cancel_timer s3)).
  assert (F4 : jrel s3 s4).
  { eapply jrel_trans. apply cancel_timer_jr. apply arm_timer_jr. apply (jr_cmd _ _ (cancel_timer_jr s3)). exact C3. }
  assert (R4 : rs s s4).
  { eapply rs_trans. exact R2. eapply rs_trans. exact Ry. eapply rs_trans. exact Rz.
    eapply rs_trans. apply rs_frame, cancel_timer_frame. apply rs_frame, arm_timer_frame. }
  assert (J4 : J s4) by (eapply J_jrel; eauto).
  destruct (fstat_of s4 f); cbn [fst snd]; (split; [|split]); auto.
  - eapply J_jrel. apply set_pc_jr. eapply J_jrel. apply upd_task_jr. exact J4.
  - eapply rs_trans. exact R4. eapply rs_trans. apply upd_task_rs. unfold set_pc. destruct (get_task _ _); split; reflexivity.
Qed.

Section AttemptX.
  Variable again : st -> nat -> nat -> st * list action.
  Variable k : nat.
  Variable fuel : nat.
  Hypothesis again_X : forall s d, J s -> mu s < fuel -> X (again s k d).

  Lemma sr_exception_X s d e : J s -> mu s <= fuel -> X (sr_exception again s k d e).
  Proof.
    intros HJ Hm. unfold sr_exception. cbv zeta.
    assert (Hb : forall close : bool,
      X (if Nat.ltb (s_retry s) (s_retries s)
         then again (if close then close_transport (release_if_locked (s <| s_retry := S (s_retry s) |>))
                     else release_if_locked (s <| s_retry := S (s_retry s) |>)) k (S d)
         else let '(s1, f) := max_retries s in sr_unwind s1 k d (RFut f))).
    { intros close. destruct (Nat.ltb_spec (s_retry s) (s_retries s)) as [Hlt|Hge].
      - set (s1 := s <| s_retry := S (s_retry s) |>).
        assert (J1 : J s1) by (eapply J_jrel; [|exact HJ]; jr_same).
        assert (M1 : mu s1 < fuel) by (unfold mu in *; cbn; lia).
        set (s2 := if close then close_transport (release_if_locked s1) else release_if_locked s1).
        assert (F2 : jrel s1 s2 /\ rs s1 s2).
        { unfold s2. destruct close; split. eapply jrel_trans. apply release_if_locked_jr. apply close_transport_jr.
          eapply rs_trans. apply release_if_locked_rs. apply close_transport_rs. apply release_if_locked_jr. apply release_if_locked_rs. }
        destruct F2 as [F2 R2]. apply again_X. eapply J_jrel; eauto. rewrite (mu_rs _ _ R2). exact M1.
      - pose proof (max_retries_jr s) as Rm. destruct (max_retries s) as [s1 f]. cbn [fst] in Rm.
        apply sr_unwind_X. eapply J_jrel; eauto. }
    destruct e, (s_kind s); try (apply sr_unwind_X; auto);
      first [ exact (Hb (negb (s_ka s))) | exact (Hb true) | exact (Hb false) ].
  Qed.

  Lemma sr_after_send_X s d t : J s -> mu s <= fuel -> X (sr_after_send again (do_send s k d t) k d).
  Proof.
    intros HJ Hm. destruct (do_send_X s k d t HJ) as (J1 & N1 & R1).
    destruct (do_send s k d t) as [[s1 acts] res]. cbn [fst snd] in *. unfold sr_after_send.
    destruct res as [[f|e]|].
    - destruct (sr_unwind_X s1 k d (RFut f) J1) as [HJ' HN']. destruct (sr_unwind s1 k d (RFut f)). split; auto. apply noexc_app; auto.
    - assert (M1 : mu s1 <= fuel) by (rewrite (mu_rs _ _ R1); exact Hm).
      destruct (sr_exception_X s1 d e J1 M1) as [HJ' HN']. destruct (sr_exception again s1 k d e). split; auto. apply noexc_app; auto.
    - split; auto.
  Qed.

  Lemma sr_locked_X s d : J s -> mu s <= fuel -> X (sr_locked again s k d).
  Proof.
    intros HJ Hm. unfold sr_locked. cbv zeta.
    set (s1 := match s_kind s with TCP => _ | UDP => s end).
    assert (F1 : jrel s s1 /\ rs s s1) by (unfold s1; destruct (s_kind s); split; try apply jrel_refl; try apply rs_refl; [apply upd_task_jr | apply upd_task_rs]).
    destruct F1 as [F1 R1]. pose proof (J_jrel _ _ F1 HJ) as J1. assert (M1 : mu s1 <= fuel) by (rewrite (mu_rs _ _ R1); exact Hm).
    destruct (match s_transport s1 with Some t => _ | None => None end) as [t|].
    - apply sr_after_send_X. eapply J_jrel. apply upd_task_jr. exact J1. rewrite (mu_rs _ _ (upd_task_rs s1 k _)). exact M1.
    - assert (Hwait : forall s2 p, jrel s1 s2 -> J (set_pc s2 k p)).
      { intros s2 p F2. eapply J_jrel. apply set_pc_jr. eapply J_jrel; eauto. }
      destruct (s_conns s1) as [|c tl].
      + split; cbn [fst snd]. 2: apply noexc_one; discriminate. apply Hwait.
        eapply jrel_trans. 2: apply upd_task_jr.
        eapply jrel_trans. 2: apply push_jr; auto. eapply jrel_trans. 2: apply push_jr; auto. eapply jrel_trans. 2: apply push_jr; auto. jr_same.
      + set (sc := s1 <| s_conns := tl |>). assert (Fc : jrel s1 sc) by jr_same. assert (Rc : rs s1 sc) by (split; reflexivity).
        destruct c.
        * split; cbn [fst snd]. 2: apply noexc_one; discriminate. apply Hwait.
          eapply jrel_trans. 2: apply upd_task_jr.
          eapply jrel_trans. 2: apply push_jr; auto. eapply jrel_trans. 2: apply push_jr; auto. eapply jrel_trans. 2: apply push_jr; auto.
          eapply jrel_trans. exact Fc. jr_same.
        * apply sr_exception_X. eapply J_jrel. apply upd_task_jr. eapply J_jrel; eauto.
          rewrite (mu_rs _ _ (upd_task_rs sc k _)), (mu_rs _ _ Rc). exact M1.
        * destruct (s_kind sc).
          -- apply sr_exception_X. eapply J_jrel; eauto. rewrite (mu_rs _ _ Rc). exact M1.
          -- split; cbn [fst snd]. 2: apply noexc_nil. apply Hwait. eapply jrel_trans. exact Fc. apply upd_task_jr.
  Qed.

  Lemma sr_attempt_body_X s d : J s -> mu s <= fuel -> X (sr_attempt_body again s k d).
  Proof.
    intros HJ Hm. unfold sr_attempt_body. cbv zeta.
    set (s1 := ensure_lock s). pose proof (J_jrel _ _ (ensure_lock_jr s) HJ) as J1.
    assert (M1 : mu s1 <= fuel) by (unfold s1; rewrite (mu_rs _ _ (ensure_lock_rs s)); exact Hm).
    destruct (_ && _).
    - apply sr_locked_X. eapply J_jrel. 2: exact J1. jr_same. exact M1.
    - split; cbn [fst snd]. 2: apply noexc_nil.
      eapply J_jrel. apply set_pc_jr. eapply J_jrel. apply upd_task_jr. eapply J_jrel. 2: exact J1. jr_same.
  Qed.
End AttemptX.

(* the recursion never runs out of fuel: each recursive call increments _retry, and only while _retry < retries *)
Lemma sr_attempt_X fuel k : forall s d, J s -> mu s < fuel -> X (sr_attempt fuel s k d).
Proof.
  induction fuel as [|fuel IH]; intros s d HJ Hm; cbn [sr_attempt]. lia.
  apply sr_attempt_body_X with (fuel := fuel); auto. lia.
Qed.

Lemma mu_fuel s : mu s < fuel_of s.
Proof. unfold mu, fuel_of. lia. Qed.

Lemma task_step_X s k : J s -> X (task_step s k).
Proof.
  intros HJ. unfold task_step. destruct (get_task k (s_tasks s)) as [tk|]. 2: { split; auto. apply noexc_nil. }
  assert (HA : forall s1, s_retries s1 = s_retries s -> forall s2 d, J s2 -> mu s2 < fuel_of s1 -> X (sr_attempt (fuel_of s1) s2 k d)).
  { intros s1 _ s2 d. apply sr_attempt_X. }
  assert (Hclose : forall s0 (a : action), a <> ALoopExc -> jrel s s0 -> X (set_pc (lock_release (close_transport s0)) k PcDone, [a])).
  { intros s0 a Ha R. split; cbn [fst snd]. 2: apply noexc_one; auto.
    eapply J_jrel. apply set_pc_jr. eapply J_jrel. apply lock_release_jr. eapply J_jrel. apply close_transport_jr. eapply J_jrel; eauto. }
  assert (Hm : forall s1, rs s s1 -> mu s1 <= fuel_of s1).
  { intros s1 _. pose proof (mu_fuel s1). lia. }
  destruct (t_pc tk).
  - (* PcStart *) apply sr_attempt_X; auto. pose proof (mu_fuel s). lia.
  - (* PcLockWait *) destruct (negb (woken s w)). { split; auto. apply noexc_nil. }
    set (s1 := s <| s_waiters := _ |> <| s_lock := true |> <| s_owner := Some k |>).
    apply sr_locked_X with (fuel := fuel_of s1). intros; apply sr_attempt_X; auto.
    eapply J_jrel. 2: exact HJ. jr_same. apply Hm. split; reflexivity.
  - (* PcConnWait *) destruct (t_cancelled tk).
    + set (s0 := upd_task s k _).
      apply sr_exception_X with (fuel := fuel_of s0). intros; apply sr_attempt_X; auto.
      eapply J_jrel. apply tr_close_jr. eapply J_jrel. apply upd_task_jr. exact HJ.
      rewrite (mu_rs _ _ (rs_frame _ _ (tr_close_frame s0 t))). pose proof (mu_fuel s0). lia.
    + destruct (has_waiter k t (s_ready s)). { split; auto. apply noexc_nil. }
      set (s0 := upd_task s k _). set (s1 := s0 <| s_transport := Some t |>).
      apply sr_after_send_X with (fuel := fuel_of s1). intros; apply sr_attempt_X; auto.
      assert (J0 : J s0) by (eapply J_jrel; [apply upd_task_jr | exact HJ]).
      eapply J_jrel. 2: exact J0. jr_same. pose proof (mu_fuel s1). lia.
  - (* PcConnHang *) set (s0 := upd_task s k _).
    apply sr_exception_X with (fuel := fuel_of s0). intros; apply sr_attempt_X; auto. eapply J_jrel. apply upd_task_jr. exact HJ.
    pose proof (mu_fuel s0). lia.
  - (* PcAwait *) destruct (fstat_of s f).
    + split; auto. apply noexc_nil.
    + apply sr_unwind_X; auto.
    + apply sr_exception_X with (fuel := fuel_of s); [intros; apply sr_attempt_X; auto | exact HJ | pose proof (mu_fuel s); lia].
    + apply sr_exception_X with (fuel := fuel_of s); [intros; apply sr_attempt_X; auto | exact HJ | pose proof (mu_fuel s); lia].
  - (* PcCloseLockWait *) destruct (negb (woken s w)). { split; auto. apply noexc_nil. }
    cbv zeta. apply Hclose. discriminate. jr_same.
  - (* PcCloseStart *) destruct (s_kind s).
    + split; cbn [fst snd]. 2: apply noexc_one; discriminate. eapply J_jrel. apply set_pc_jr. eapply J_jrel. apply close_transport_jr. exact HJ.
    + set (s1 := ensure_lock s). pose proof (ensure_lock_jr s) as R1. destruct (_ && _).
      * apply Hclose. discriminate. eapply jrel_trans. exact R1. jr_same.
      * split; cbn [fst snd]. 2: apply noexc_nil. eapply J_jrel. apply set_pc_jr. eapply J_jrel. 2: { eapply J_jrel. exact R1. exact HJ. } jr_same.
  - (* PcCloseOnlyWait *) destruct (negb (woken s w)). { split; auto. apply noexc_nil. }
    apply Hclose. discriminate. jr_same.
  - split; auto. apply noexc_nil.
Qed.

(* ---------------------------------------------------------------- all callbacks, all events *)
Lemma J_cmd_of_ready s c tl : J s -> s_ready s = c :: tl -> needs_cmd c = true -> s_cmd s = true.
Proof.
  intros HJ Hr Hn. destruct (s_cmd s) eqn:E; auto. rewrite (j_ready _ HJ E c) in Hn. discriminate. rewrite Hr. left. reflexivity.
Qed.

Lemma run_cb_X s c : J s -> (needs_cmd c = true -> s_cmd s = true) -> X (run_cb s c).
Proof.
  intros HJ Hc. destruct c; cbn [run_cb].
  - apply task_step_X; auto.
  - apply X_of with (s := s); auto. 2: apply noexc_nil. destruct (tstate_of s t); cbn; destruct (s_kind s); jr_same.
  - split; auto. apply noexc_nil.
  - destruct (get_task k (s_tasks s)) as [tk|]. 2: { split; auto. apply noexc_nil. }
    destruct (t_pc tk); try (split; [exact HJ | apply noexc_nil]).
    destruct (_ || _). split; auto. apply noexc_nil. apply X_of with (s := s); auto. apply push_jr; auto. apply noexc_nil.
  - destruct (tstate_of s t); try (split; [exact HJ | apply noexc_nil]). destruct i.
    + destruct (received_X s id len v HJ (Hc eq_refl)) as [R N]. split; auto. eapply J_jrel; eauto.
    + apply X_of with (s := s); auto. 2: apply noexc_nil. cbn [fst]. eapply jrel_trans. apply close_transport_jr. apply tr_close_jr.
  - destruct (timeout_mechanism_X s HJ (Hc eq_refl)) as [R N]. split; auto. eapply J_jrel; eauto.
  - destruct (mem_nat h (s_handles s)) eqn:Eh. 2: { split; auto. apply noexc_nil. }
    assert (Hcmd : s_cmd s = true). { apply (j_handles _ HJ). destruct (s_handles s); [discriminate|discriminate]. }
    set (s1 := s <| s_handles := _ |>).
    assert (R1 : jrel s s1). { constructor; cbn; intros; auto; try tauto. }
    destruct (timeout_mechanism_X s1 (J_jrel _ _ R1 HJ) (jr_cmd _ _ R1 Hcmd)) as [R N]. split; auto.
    eapply J_jrel. exact R. eapply J_jrel; eauto.
  - destruct (tstate_of s t); try (split; [exact HJ | apply noexc_nil]).
    apply X_of with (s := s); auto. 2: apply noexc_one; discriminate. cbn [fst]. eapply jrel_trans. 2: apply close_transport_jr. jr_same.
  - destruct (tstate_of s t); try (split; [exact HJ | apply noexc_nil]).
    destruct (error_received_X s HJ (Hc eq_refl)) as [R N]. split; auto. eapply J_jrel; eauto.
  - apply X_of with (s := s); auto. apply tr_close_jr. apply noexc_nil.
  - destruct (get_task k (s_tasks s)) as [tk|]. 2: { split; auto. apply noexc_nil. }
    destruct (t_wf tk). 2: { split; auto. apply noexc_nil. }
    destruct (t_pc tk); try (split; [exact HJ | apply noexc_nil]);
      (cbv zeta; apply X_of with (s := s); auto; [|apply noexc_nil]; cbn [fst]; destruct (has_task k (s_ready s));
       [apply upd_task_jr | eapply jrel_trans; [apply upd_task_jr | apply push_jr; auto]]).
Qed.

Lemma step_X s e r : J s -> step s e = Some r -> X r.
Proof.
  intros HJ. destruct e; cbn [step]; intros H;
    repeat match type of H with
    | context [match ?x with _ => _ end] => destruct x eqn:?; try discriminate
    end; try (injection H as <-).
  - (* EvPop *) set (s1 := s <| s_ready := l |>).
    assert (R : jrel s s1). { apply jrel_ready; auto. intros x Hx. left. rewrite Heql. right. exact Hx. }
    apply run_cb_X. eapply J_jrel; eauto. intros Hn. exact (J_cmd_of_ready s c l HJ Heql Hn).
  - (* EvIO *) apply X_of with (s := s); auto. 2: apply noexc_nil. apply push_jr. destruct i; auto. right.
    apply (j_sent _ HJ). cbn in Heqb. rewrite orb_false_r in Heqb. destruct (s_sent s); [discriminate|discriminate].
  - apply X_of with (s := s); auto. apply push_jr; auto. apply noexc_nil.
  - apply X_of with (s := s); auto. apply push_jr; auto. apply noexc_nil.
  - (* EvErr *) apply X_of with (s := s); auto. 2: apply noexc_nil. apply push_jr. right.
    apply (j_sent _ HJ). destruct (s_sent s); [discriminate|discriminate].
  - apply X_of with (s := s); auto. apply push_jr; auto. apply noexc_nil.
  - (* EvCall *) apply X_of with (s := s); auto. 2: apply noexc_nil. eapply jrel_trans. 2: apply push_jr; auto. jr_same.
  - apply X_of with (s := s); auto. 2: apply noexc_nil. eapply jrel_trans. 2: apply push_jr; auto. jr_same.
  - apply X_of with (s := s); auto. jr_same. apply noexc_nil.
  - apply X_of with (s := s); auto. jr_same. apply noexc_nil.
  - (* EvNewLoop *) split; cbn [fst snd]. 2: apply noexc_nil.
    destruct HJ as [j1 j2 j3 j4]. constructor; cbn; auto; try congruence. intros _ c [].
Qed.

Lemma init_J kd ka r : J (init kd ka r).
Proof. constructor; cbn; auto; try discriminate; try congruence. intros _ c []. Qed.

Lemma run_X es : forall s s' acts, J s -> run s es = Some (s', acts) -> J s' /\ noexc acts.
Proof.
  induction es as [|e es IH]; intros s s' acts HJ H; cbn [run] in H.
  - injection H as <- <-. split; auto. apply noexc_nil.
  - destruct (step s e) as [[s1 a1]|] eqn:Es; try discriminate.
    destruct (run s1 es) as [[s2 a2]|] eqn:Er; try discriminate. injection H as <- <-.
    destruct (step_X _ _ _ HJ Es) as [J1 N1]. destruct (IH _ _ _ J1 Er) as [J2 N2]. split; auto. apply noexc_app; auto.
Qed.

(* no run of the protocol model -- whatever the callers, the I/O, timer, OS-error, close() and new-loop events and the fault
   oracle -- leaves an exception in an event-loop callback (and the retry recursion never runs out of fuel) *)
Theorem no_exception_in_loop_callbacks es kd ka r s acts : run (init kd ka r) es = Some (s, acts) -> ~ In ALoopExc acts.
Proof. intros H. exact (proj2 (run_X es _ _ _ (init_J kd ka r) H)). Qed.

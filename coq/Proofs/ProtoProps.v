(* Theorems about Model/Proto.v used by Props/C04..C10 (and C01_delivery): whole-run invariants obtained from
   ProtoEvolves.run_good, and one-step characterisations of the handlers. *)
From Coq Require Import List Bool Arith Lia.
From RecordUpdate Require Import RecordSet.
From GW Require Import Proto ProtoEvolves.
Import ListNotations RecordSetNotations.

(* ---------------------------------------------------------------- whole runs *)
Theorem retry_bounded es k ka r s acts :
  run (init k ka r) es = Some (s, acts) -> s_retry s <= s_retries s /\ s_retries s = r /\ s_kind s = k.
Proof.
  intros H. destruct (run_good _ _ _ _ H) as [He _].
  split. apply (ev_retry _ _ He). cbn. lia. split. rewrite (ev_retries _ _ He). reflexivity. rewrite (ev_kind _ _ He). reflexivity.
Qed.

(* futures complete at most once, in every run *)
Theorem future_completes_once es s s' acts f :
  run s es = Some (s', acts) -> f < length (s_futs s) -> fstat_of s f <> FPending -> fstat_of s' f = fstat_of s f.
Proof. exact (done_stable es s s' acts f). Qed.

(* ---------------------------------------------------------------- retry budget (C04 / C05) *)
(* when the budget is used up, a further timeout / connection loss ends the request with MaxRetries: no new attempt *)
Lemma budget_exhausted again s k d : s_retries s <= s_retry s ->
  sr_exception again s k d XCancelled = (let '(s1, f) := max_retries s in sr_unwind s1 k d (RFut f)).
Proof.
  intros H. unfold sr_exception. replace (s_retry s <? s_retries s) with false by (symmetry; apply Nat.ltb_ge; lia).
  destruct (s_kind s); reflexivity.
Qed.

(* a retry consumes exactly one unit of the budget and starts exactly one new attempt *)
Lemma retry_consumes_one again s k d : s_retry s < s_retries s -> s_kind s = UDP ->
  sr_exception again s k d XCancelled =
  again (let s1 := release_if_locked (s <| s_retry := S (s_retry s) |>) in if negb (s_ka s) then close_transport s1 else s1) k (S d).
Proof.
  intros H Hk. unfold sr_exception. rewrite Hk. replace (s_retry s <? s_retries s) with true by (symmetry; apply Nat.ltb_lt; lia).
  reflexivity.
Qed.

Definition keeps_retry (s s' : st) : Prop := s_retry s' = s_retry s.

Lemma same4_keeps s s' : same4 s s' -> keeps_retry s s'.
Proof. intros (_ & _ & _ & _ & H). exact H. Qed.

Lemma complete_keeps s f v : keeps_retry s (complete s f v).
Proof. unfold complete, keeps_retry. cbv zeta. destruct (awaiting _ _); reflexivity. Qed.

Lemma close_transport_keeps s : keeps_retry s (close_transport s).
Proof.
  unfold close_transport, keeps_retry. cbv zeta.
  set (s1 := match s_transport s with Some t => _ | None => s end).
  assert (H1 : s_retry s1 = s_retry s).
  { unfold s1. destruct (s_transport s); auto. cbn. apply same4_keeps, tr_close_same. }
  destruct (s_fut s1); auto. destruct (pending s1 n); auto. rewrite complete_keeps. exact H1.
Qed.

Lemma ensure_lock_keeps s : keeps_retry s (ensure_lock s).
Proof. unfold ensure_lock, keeps_retry. destruct (_ && _); auto. rewrite close_transport_keeps. reflexivity. Qed.

(* every request leaves the retry counter at 0, whatever its outcome (the budget is per request) *)
Lemma exec_finish_resets s k r : s_retry (fst (exec_finish s k r)) = 0.
Proof.
  unfold exec_finish. cbv zeta. set (s0 := s <| s_retry := 0 |>).
  assert (H0 : s_retry s0 = 0) by reflexivity.
  destruct (s_ka s0); cbn [fst].
  - rewrite (same4_keeps _ _ (set_pc_same _ _ _)). exact H0.
  - destruct (s_kind s0); cbn [fst].
    + rewrite (same4_keeps _ _ (set_pc_same _ _ _)), close_transport_keeps. exact H0.
    + pose proof (ensure_lock_keeps s0) as H1. unfold keeps_retry in H1.
      destruct (_ && _); cbn [fst]; rewrite (same4_keeps _ _ (set_pc_same _ _ _)).
      * rewrite (same4_keeps _ _ (lock_release_same _)), close_transport_keeps. cbn. congruence.
      * cbn. congruence.
Qed.

(* ---------------------------------------------------------------- delivered outcomes (C08 / C09) *)
Lemma exec_finish_acts s k r : forall a, In a (snd (exec_finish s k r)) -> a = ADone k (outcome_of s r).
Proof.
  unfold exec_finish. cbv zeta. intros a.
  destruct (s_ka _); cbn [snd]. intros [<-|[]]; reflexivity.
  destruct (s_kind _); cbn [snd]. intros [<-|[]]; reflexivity.
  destruct (_ && _); cbn [snd]. intros [<-|[]]; reflexivity. intros [].
Qed.

Lemma classify_no_other e x : classify e <> OOther x.
Proof. destruct e; discriminate. Qed.

(* an exception stored in a future surfaces as the corresponding library exception, never as something else *)
Lemma outcome_of_raise s e : outcome_of s (RRaise e) = classify e.
Proof. reflexivity. Qed.

(* a Modbus exception answer: the pending request fails at once, with that reason, and nothing is transmitted *)
Lemma sr_finally_fstat n s f : fstat_of s f <> FPending -> f < length (s_futs s) -> fstat_of (sr_finally n s) f = fstat_of s f.
Proof. intros H1 H2. apply (ev_done _ _ (sr_finally_evolves n s)); auto. Qed.

Lemma reject_step s id len c f :
  s_cmd s = true -> s_fut s = Some f -> pending s f = true ->
  fstat_of (fst (received s id len (VRejected c))) f = FExc (XRejected c) /\ snd (received s id len (VRejected c)) = [].
Proof.
  intros Hc Hf Hp. unfold received. rewrite Hc. cbn [negb].
  set (s0 := match s_kind s with UDP => _ | TCP => _ end).
  assert (H0 : s_futs s0 = s_futs s /\ s_fut s0 = s_fut s /\ s_tasks s0 = s_tasks s).
  { unfold s0, cancel_timer. destruct (s_kind s), (s_timer s); repeat split. }
  destruct H0 as (Hfu & Hfu2 & Htk).
  set (x := match s_partial s0 with Some _ => _ | None => _ end).
  assert (Hx : s_futs (snd x) = s_futs s0 /\ s_fut (snd x) = s_fut s0 /\ s_tasks (snd x) = s_tasks s0).
  { unfold x. destruct (s_partial s0) as [[[p plen] miss]|]. destruct (_ && _); repeat split. repeat split. }
  destruct x as [[data dlen] s1]. cbn [snd] in Hx. destruct Hx as (H1 & H2 & H3).
  assert (Hp1 : pending s1 f = true) by (unfold pending, fstat_of in *; rewrite H1, Hfu; exact Hp).
  rewrite H2, Hfu2, Hf, Hp1. split; [|reflexivity]. cbn [fst].
  assert (Hlt : f < length (s_futs s1)).
  { unfold pending in Hp1. destruct (fstat_of s1 f) eqn:E; try discriminate. eapply fstat_pending_lt; eauto. }
  assert (Hc1 : fstat_of (complete s1 f (FExc (XRejected c))) f = FExc (XRejected c)).
  { unfold complete. cbv zeta. destruct (awaiting _ _); unfold fstat_of; cbn; apply nth_set_nth_eq; auto. }
  assert (Hl2 : f < length (s_futs (complete s1 f (FExc (XRejected c))))).
  { unfold complete. cbv zeta. destruct (awaiting _ _); cbn; rewrite set_nth_length; auto. }
  destruct (s_kind (complete s1 f (FExc (XRejected c)))); auto.
  rewrite (ev_done _ _ (close_transport_evolves _)); auto. congruence.
Qed.

(* ... and when the caller's task runs next it completes with RequestRejectedException(reason) and transmits nothing *)
Lemma reject_resume s k tk f c :
  get_task k (s_tasks s) = Some tk -> t_pc tk = PcAwait f -> fstat_of s f = FExc (XRejected c) ->
  forall a, In a (snd (task_step s k)) -> a = ADone k (ORejected c).
Proof.
  intros Hk Hpc Hf a. unfold task_step. rewrite Hk, Hpc, Hf.
  unfold sr_exception. cbn match. destruct (s_kind s); unfold sr_unwind; intros Hin;
    apply exec_finish_acts in Hin; rewrite Hin; reflexivity.
Qed.

Lemma same4_accepted_complete s f v : s_accepted (complete s f v) = s_accepted s.
Proof. unfold complete. cbv zeta. destruct (awaiting _ _); reflexivity. Qed.

Lemma acc_close s : s_accepted (close_transport s) = s_accepted s.
Proof.
  unfold close_transport. cbv zeta.
  set (s1 := match s_transport s with Some t => _ | None => s end).
  assert (H1 : s_accepted s1 = s_accepted s).
  { unfold s1. destruct (s_transport s); auto. cbn. destruct (tr_close_same s n) as (_ & H & _). exact H. }
  destruct (s_fut s1); auto. destruct (pending s1 n); auto. rewrite same4_accepted_complete. exact H1.
Qed.

Lemma acc_timeout s : s_accepted (fst (timeout_mechanism s)) = s_accepted s.
Proof.
  unfold timeout_mechanism. destruct (s_kind s), (s_fut s) as [f|]; cbn [fst]; auto.
  - destruct (pending s f); cbn [fst]; auto. rewrite same4_accepted_complete. reflexivity.
  - destruct (pending s f); cbn [fst]; auto. rewrite acc_close. reflexivity.
Qed.

(* ---------------------------------------------------------------- fragments (C07) *)
Lemma partial_step s id len e :
  s_cmd s = true -> s_partial s = None ->
  let r := received s id len (VPartial e) in
  s_partial (fst r) = Some ([id], len, e - len) /\ snd r = [] /\ s_futs (fst r) = s_futs s /\ (exists h, s_timer (fst r) = Some h /\ In h (s_handles (fst r))).
Proof.
  intros Hc Hp. unfold received. rewrite Hc. cbn [negb].
  set (s0 := match s_kind s with UDP => _ | TCP => _ end).
  assert (H0 : s_partial s0 = None /\ s_futs s0 = s_futs s).
  { unfold s0, cancel_timer. destruct (s_kind s), (s_timer s); auto. }
  destruct H0 as (H0 & H0'). rewrite H0. cbn. repeat split; auto.
  exists (s_nexth s0). split; auto. apply in_or_app. right. left. reflexivity.
Qed.

Lemma reassembly_step s id len p plen f :
  s_cmd s = true -> s_partial s = Some (p, plen, len) -> plen <> 0 -> s_fut s = Some f -> pending s f = true ->
  let r := received s id len VAccept in
  fstat_of (fst r) f = FResult (p ++ [id]) /\ s_partial (fst r) = None /\ snd r = [].
Proof.
  intros Hc Hp Hpl Hf Hpe. unfold received. rewrite Hc. cbn [negb].
  set (s0 := match s_kind s with UDP => _ | TCP => _ end).
  assert (H0 : s_partial s0 = s_partial s /\ s_futs s0 = s_futs s /\ s_fut s0 = s_fut s).
  { unfold s0, cancel_timer. destruct (s_kind s), (s_timer s); auto. }
  destruct H0 as (H0 & H1 & H2). rewrite H0, Hp, Nat.eqb_refl.
  replace (plen =? 0) with false by (symmetry; apply Nat.eqb_neq; auto). cbn [negb andb].
  cbn. rewrite H2, Hf.
  assert (Hp1 : pending (s0 <| s_partial := None |> <| s_accepted := (p ++ [id]) :: s_accepted s0 |>) f = true).
  { unfold pending, fstat_of in *. cbn. rewrite H1. exact Hpe. }
  rewrite Hp1. cbn [fst snd]. repeat split.
  - assert (Hlt : f < length (s_futs s0)).
    { rewrite H1. unfold pending in Hpe. destruct (fstat_of s f) eqn:E; try discriminate. eapply fstat_pending_lt; eauto. }
    unfold complete. cbv zeta. destruct (awaiting _ _); unfold fstat_of; cbn; apply nth_set_nth_eq; auto.
  - unfold complete. cbv zeta. destruct (awaiting _ _); reflexivity.
Qed.

(* a fragment whose announced remainder has another length is never concatenated *)
Lemma no_concat_on_length_mismatch s id len p plen miss v :
  s_cmd s = true -> s_partial s = Some (p, plen, miss) -> miss <> len ->
  forall t, In t (s_accepted (fst (received s id len v))) -> In t (s_accepted s) \/ t = [id].
Proof.
  intros Hc Hp Hm t. unfold received. rewrite Hc. cbn [negb].
  set (s0 := match s_kind s with UDP => _ | TCP => _ end).
  assert (H0 : s_partial s0 = s_partial s /\ s_accepted s0 = s_accepted s).
  { unfold s0, cancel_timer. destruct (s_kind s), (s_timer s); auto. }
  destruct H0 as (H0 & H1). rewrite H0, Hp.
  replace (miss =? len) with false by (symmetry; apply Nat.eqb_neq; auto). cbn [andb].
  destruct v as [| |e|c].
  - cbn. destruct (s_fut s0) as [f|]; [destruct (pending _ f)|]; cbn.
    + rewrite (same4_accepted_complete _ _ _). cbn. rewrite H1. intros [<-|H]; auto.
    + rewrite H1. intros [<-|H]; auto.
    + rewrite H1. intros [<-|H]; auto.
  - destruct (s_kind s0); cbn.
    + rewrite H1; auto.
    + destruct (s_fut s0) as [f|]; [destruct (pending s0 f)|]; cbn; rewrite ?acc_close, ?same4_accepted_complete, ?H1; auto.
  - cbn. rewrite H1; auto.
  - set (s2 := match s_fut s0 with Some f => _ | None => s0 end).
    assert (H2 : s_accepted s2 = s_accepted s0).
    { unfold s2. destruct (s_fut s0) as [f|]; auto. destruct (pending s0 f); auto. apply same4_accepted_complete. }
    cbn [fst]. destruct (s_kind s2); rewrite ?acc_close, H2, H1; auto.
Qed.

(* ---------------------------------------------------------------- transports (C10) and fragments cleared on send (C07) *)
Lemma close_transport_none s : s_transport (close_transport s) = None.
Proof.
  unfold close_transport. cbv zeta.
  set (s1 := match s_transport s with Some t => _ | None => s end).
  assert (H1 : s_transport s1 = None).
  { unfold s1. destruct (s_transport s) eqn:E; auto. }
  destruct (s_fut s1); auto. destruct (pending s1 n); auto.
  unfold complete. cbv zeta. destruct (awaiting _ _); cbn; exact H1.
Qed.

(* keep-alive off, UDP: when a request is reported to its caller the object references no transport *)
Lemma exec_finish_closes_udp s k r : s_ka s = false -> s_kind s = UDP ->
  s_transport (fst (exec_finish s k r)) = None.
Proof.
  intros Hka Hk. unfold exec_finish. cbv zeta. cbn [s_ka s_kind]. change (s_ka (s <| s_retry := 0 |>)) with (s_ka s).
  change (s_kind (s <| s_retry := 0 |>)) with (s_kind s). rewrite Hka, Hk. cbn [fst].
  unfold set_pc. destruct (get_task _ _); cbn; apply close_transport_none.
Qed.

(* every transmission starts with an empty fragment buffer: a fragment left over from an earlier transmission
   can never be combined with data received for this one *)
Lemma send_clears_fragment s k d t : s_partial (fst (fst (do_send s k d t))) = None.
Proof.
  unfold do_send. cbv zeta.
  set (s2 := _ <| s_nsend := _ |>).
  assert (H2 : s_partial s2 = None) by reflexivity.
  assert (Hc : forall x, s_partial (close_transport x) = s_partial x).
  { intros x. unfold close_transport. cbv zeta.
    set (x1 := match s_transport x with Some t0 => _ | None => x end).
    assert (Hx : s_partial x1 = s_partial x).
    { unfold x1. destruct (s_transport x); auto. cbn. unfold tr_close. destruct (tstate_of x n); reflexivity. }
    destruct (s_fut x1); auto. destruct (pending x1 n); auto. unfold complete. cbv zeta. destruct (awaiting _ _); cbn; exact Hx. }
  assert (He : forall x, s_partial (fst (error_received x)) = s_partial x).
  { intros x. unfold error_received. destruct (s_fut x); cbn [fst]; rewrite ?Hc; auto.
    destruct (pending x n); auto. unfold complete. cbv zeta. destruct (awaiting _ _); reflexivity. }
  set (y := match s_sends s2 with b :: tl => (b, s2 <| s_sends := tl |>) | [] => (true, s2) end).
  assert (Hy : s_partial (snd y) = None) by (unfold y; destruct (s_sends s2); exact H2).
  destruct y as [ok sy]. cbn [snd] in Hy.
  set (z := if ok then _ else _).
  assert (Hz : s_partial (fst z) = None).
  { unfold z. destruct ok; auto. destruct (s_kind sy).
    - specialize (He sy). destruct (error_received sy). cbn [fst] in *. congruence.
    - cbn [fst]. unfold tr_close. destruct (tstate_of sy t); exact Hy. }
  destruct z as [s3 acts]. cbn [fst] in Hz.
  assert (H4 : s_partial (arm_timer (cancel_timer s3)) = None).
  { unfold arm_timer, cancel_timer. destruct (s_timer s3); exact Hz. }
  destruct (fstat_of _ _); cbn [fst]; auto.
  unfold set_pc, upd_task. repeat (destruct (get_task _ _); cbn); exact H4.
Qed.

(* ---------------------------------------------------------------- the lock (C06) *)
(* lock.release() wakes at most the first waiter and never hands the lock to two tasks *)
Lemma lock_release_unlocks s : s_lock (lock_release s) = false /\ s_owner (lock_release s) = None.
Proof.
  unfold lock_release. cbv zeta. destruct (s_waiters _) as [|[w [|]] tl]; cbn; auto.
  match goal with |- context [match ?x with Some _ => _ | None => _ end] => destruct x end; cbn; auto.
Qed.

(* lock.acquire() takes the fast path only when the lock is free and nobody is queued (CPython 3.12): a retrying task
   therefore queues behind a waiter that was already woken *)
Lemma acquire_fast_path_only_when_free again s k d w tl :
  s_haslock s = true -> s_lockloop s = s_loop s -> s_waiters s = w :: tl ->
  exists s', sr_attempt_body again s k d = (s', []) /\
             (forall tk, get_task k (s_tasks s) = Some tk -> exists tk', get_task k (s_tasks s') = Some tk' /\ t_pc tk' = PcLockWait (s_nextw s)).
Proof.
  intros Hl Hlp Hw. unfold sr_attempt_body, ensure_lock. rewrite Hl, Hlp, Nat.eqb_refl. cbn [andb]. rewrite Hw.
  rewrite andb_false_r. eexists. split. reflexivity.
  intros tk Hk. unfold set_pc, upd_task. cbn. rewrite Hk. cbn.
  assert (Hg : forall l k t, get_task k (put_task k t l) = Some t).
  { induction l as [|[k' t'] l IH]; intros k0 t0; cbn. rewrite Nat.eqb_refl. reflexivity.
    destruct (Nat.eqb_spec k0 k'); cbn. rewrite Nat.eqb_refl. reflexivity.
    rewrite (proj2 (Nat.eqb_neq k0 k')) by auto. apply IH. }
  rewrite Hg. cbn. rewrite Hg. eexists. split. reflexivity. reflexivity.
Qed.

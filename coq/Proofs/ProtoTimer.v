(* C04, "a request never hangs": whenever a future is pending (a caller is waiting for an answer that has not arrived), a timeout is armed
   -- the protocol object's timer handle is live, or the deferred call of _timeout_mechanism is queued.  Invariant of Model/Proto.v over
   ALL runs.  With the environment assumption that an armed timer eventually fires, no request waits forever for an answer.
   Built on the lock invariant (ProtoMutex.v) and "the pending future is the response_future" (ProtoAnswer.v). *)
From Coq Require Import List Bool Arith Lia.
From RecordUpdate Require Import RecordSet.
From GW Require Import Proto ProtoEvolves ProtoProps ProtoBound ProtoMutex ProtoAnswer.
Import ListNotations RecordSetNotations.

Definition armed (s : st) : Prop := (exists h, s_timer s = Some h /\ In h (s_handles s)) \/ In CbSoon (s_ready s).

Definition A (s : st) : Prop := nopend s \/ armed s.

(* helpers that do not touch the timer: the handle stays live, queued callbacks stay queued *)
Record tsame (s s' : st) : Prop := mkTs {
  ts_timer : s_timer s' = s_timer s;
  ts_handles : s_handles s' = s_handles s;
  ts_ready : forall c, In c (s_ready s) -> In c (s_ready s');
}.

Lemma tsame_refl s : tsame s s. Proof. constructor; auto. Qed.
Lemma tsame_trans a b c : tsame a b -> tsame b c -> tsame a c.
Proof. intros [a1 a2 a3] [b1 b2 b3]. constructor; auto; congruence. Qed.

Lemma armed_tsame s s' : tsame s s' -> armed s -> armed s'.
Proof.
  intros [T1 T2 T3] [(h & H1 & H2)|H]. left. exists h. rewrite T1, T2. auto. right. auto.
Qed.

Lemma A_step s s' : fsame s s' -> tsame s s' -> A s -> A s'.
Proof. intros F T [H|H]. left. eapply nopend_fsame; eauto. right. eapply armed_tsame; eauto. Qed.

Ltac ts_same := constructor; cbn; auto.
Ltac ts_push := constructor; cbn; auto; let x := fresh "x" in let Hx := fresh "Hx" in intros x Hx; apply in_or_app; auto.

Lemma push_ts s c : tsame s (push s c). Proof. ts_push. Qed.
Lemma tr_close_ts s t : tsame s (tr_close s t).
Proof. unfold tr_close. destruct (tstate_of s t); try apply tsame_refl; (eapply tsame_trans; [|apply push_ts]; ts_same). Qed.
Lemma complete_ts s f v : tsame s (complete s f v).
Proof. unfold complete. cbv zeta. destruct (awaiting _ _). eapply tsame_trans. 2: apply push_ts. ts_same. ts_same. Qed.
Lemma close_transport_ts s : tsame s (close_transport s).
Proof.
  unfold close_transport. cbv zeta.
  set (s1 := match s_transport s with Some t => _ | None => s end).
  assert (H1 : tsame s s1).
  { unfold s1. destruct (s_transport s) as [t0|]. apply tsame_trans with (b := tr_close s t0). apply tr_close_ts. ts_same. apply tsame_refl. }
  eapply tsame_trans. exact H1.
  destruct (s_fut s1) as [f|]; [|apply tsame_refl]. destruct (pending s1 f); [|apply tsame_refl]. apply complete_ts.
Qed.
Lemma lock_release_ts s : tsame s (lock_release s).
Proof.
  unfold lock_release. cbv zeta. destruct (s_waiters _) as [|[w [|]] tl]; try solve [ts_same].
  match goal with |- context [match ?x with Some _ => _ | None => _ end] => destruct x end. 2: ts_same.
  eapply tsame_trans. 2: apply push_ts. ts_same.
Qed.
Lemma release_if_locked_ts s : tsame s (release_if_locked s).
Proof. unfold release_if_locked. destruct (_ && _). apply lock_release_ts. apply tsame_refl. Qed.
Lemma ensure_lock_ts s : tsame s (ensure_lock s).
Proof. unfold ensure_lock. destruct (_ && _). apply tsame_refl. eapply tsame_trans; [|apply close_transport_ts]. ts_same. Qed.
Lemma upd_task_ts s k f : tsame s (upd_task s k f).
Proof. unfold upd_task. destruct (get_task k (s_tasks s)); [|apply tsame_refl]. ts_same. Qed.
Lemma set_pc_ts s k p : tsame s (set_pc s k p).
Proof. unfold set_pc. destruct (get_task k (s_tasks s)); [|apply tsame_refl]. ts_same. Qed.
Lemma sr_finally_ts n : forall s, tsame s (sr_finally n s).
Proof.
  induction n as [|n IH]; intros s; cbn [sr_finally]. apply tsame_refl.
  cbv zeta. eapply tsame_trans. 2: apply IH. eapply tsame_trans. apply release_if_locked_ts.
  destruct (s_kind _). destruct (s_ka _). apply tsame_refl. apply close_transport_ts. apply tsame_refl.
Qed.
Lemma max_retries_ts s : tsame s (fst (max_retries s)).
Proof. unfold max_retries. cbv zeta. cbn [fst]. eapply tsame_trans. apply close_transport_ts. ts_same. Qed.
Lemma exec_finish_ts s k r : tsame s (fst (exec_finish s k r)).
Proof.
  unfold exec_finish. cbv zeta. set (s1 := s <| s_retry := 0 |>). assert (F1 : tsame s s1) by ts_same.
  destruct (s_ka s1); cbn [fst]. eapply tsame_trans. exact F1. apply set_pc_ts.
  destruct (s_kind s1); cbn [fst]. eapply tsame_trans. exact F1. eapply tsame_trans. apply close_transport_ts. apply set_pc_ts.
  set (s2 := ensure_lock s1). assert (F2 : tsame s s2) by (eapply tsame_trans; [exact F1 | apply ensure_lock_ts]).
  destruct (_ && _); cbn [fst].
  - eapply tsame_trans. exact F2. eapply tsame_trans. 2: apply set_pc_ts.
    eapply tsame_trans. 2: apply lock_release_ts. eapply tsame_trans. 2: apply close_transport_ts. ts_same.
  - eapply tsame_trans. exact F2. eapply tsame_trans. 2: apply set_pc_ts. ts_same.
Qed.
Lemma sr_unwind_ts s k d r : tsame s (fst (sr_unwind s k d r)).
Proof. unfold sr_unwind. eapply tsame_trans. apply sr_finally_ts. apply exec_finish_ts. Qed.

Lemma max_retries_fs_nopend s : A s -> A (fst (max_retries s)).
Proof.
  intros [N|Ar].
  - left. apply (proj1 (max_retries_nopend s N)).
  - right. eapply armed_tsame. apply max_retries_ts. exact Ar.
Qed.

(* after the synchronous part of a transmission the timer is armed *)
Lemma armed_arm s : armed (arm_timer s).
Proof. left. exists (s_nexth s). cbn. split; auto. apply in_or_app. right. left. reflexivity. Qed.

Lemma do_send_A s k d t : A (fst (fst (do_send s k d t))).
Proof.
  unfold do_send. cbv zeta.
  set (f := length (s_futs s)). set (s2 := _ <| s_nsend := _ |>).
  set (y := match s_sends s2 with b :: tl => (b, s2 <| s_sends := tl |>) | [] => (true, s2) end). destruct y as [ok sy].
  set (z := if ok then _ else _). destruct z as [s3 acts].
  set (s4 := arm_timer (cancel_timer s3)).
  assert (H4 : armed s4) by apply armed_arm.
  destruct (fstat_of s4 f); cbn [fst]; right; auto.
  eapply armed_tsame. 2: exact H4. eapply tsame_trans. apply upd_task_ts. apply set_pc_ts.
Qed.

Section AttemptA.
  Variable again : st -> nat -> nat -> st * list action.
  Variable k : nat.
  Hypothesis again_A : forall s d, A s -> A (fst (again s k d)).

  Lemma sr_unwind_A s d r : A s -> A (fst (sr_unwind s k d r)).
  Proof. intros H. eapply A_step. apply sr_unwind_fs. apply sr_unwind_ts. exact H. Qed.

  Lemma sr_exception_A s d e : A s -> A (fst (sr_exception again s k d e)).
  Proof.
    intros HA. unfold sr_exception. cbv zeta.
    assert (Hb : forall close : bool,
      A (fst (if Nat.ltb (s_retry s) (s_retries s)
         then again (if close then close_transport (release_if_locked (s <| s_retry := S (s_retry s) |>))
                     else release_if_locked (s <| s_retry := S (s_retry s) |>)) k (S d)
         else let '(s1, f) := max_retries s in sr_unwind s1 k d (RFut f)))).
    { intros close. destruct (Nat.ltb (s_retry s) (s_retries s)).
      - apply again_A. set (s1 := s <| s_retry := S (s_retry s) |>).
        assert (A1 : A s1) by (eapply A_step; [| |exact HA]; [fs_eq | ts_same]).
        destruct close.
        + eapply A_step. apply close_transport_fs. apply close_transport_ts. eapply A_step. apply release_if_locked_fs. apply release_if_locked_ts. exact A1.
        + eapply A_step. apply release_if_locked_fs. apply release_if_locked_ts. exact A1.
      - pose proof (max_retries_fs_nopend s HA) as Hm. destruct (max_retries s) as [s1 f]. cbn [fst] in Hm. apply sr_unwind_A; auto. }
    destruct e, (s_kind s); try (apply sr_unwind_A; auto);
      first [ exact (Hb (negb (s_ka s))) | exact (Hb true) | exact (Hb false) ].
  Qed.

  Lemma sr_after_send_A s d t : A (fst (sr_after_send again (do_send s k d t) k d)).
  Proof.
    pose proof (do_send_A s k d t) as H. destruct (do_send s k d t) as [[s1 acts] res]. cbn [fst] in H. unfold sr_after_send.
    destruct res as [[f|e]|].
    - pose proof (sr_unwind_A s1 d (RFut f) H) as HQ. destruct (sr_unwind s1 k d (RFut f)). exact HQ.
    - pose proof (sr_exception_A s1 d e H) as HQ. destruct (sr_exception again s1 k d e). exact HQ.
    - exact H.
  Qed.

  Lemma sr_locked_A s d : A s -> A (fst (sr_locked again s k d)).
  Proof.
    intros HA. unfold sr_locked. cbv zeta.
    set (s1 := match s_kind s with TCP => _ | UDP => s end).
    assert (A1 : A s1).
    { unfold s1. destruct (s_kind s); auto. eapply A_step. apply upd_task_fs. apply upd_task_ts. exact HA. }
    destruct (match s_transport s1 with Some t => _ | None => None end) as [t|].
    - apply sr_after_send_A.
    - assert (Hwait : forall s2 p, fsame s1 s2 -> tsame s1 s2 -> A (set_pc s2 k p)).
      { intros s2 p F T. eapply A_step. apply set_pc_fs. apply set_pc_ts. eapply A_step; eauto. }
      destruct (s_conns s1) as [|c tl].
      + cbn [fst]. apply Hwait.
        * eapply fsame_trans. 2: apply upd_task_fs. eapply fsame_trans. 2: apply push_fs. eapply fsame_trans. 2: apply push_fs. eapply fsame_trans. 2: apply push_fs. fs_eq.
        * eapply tsame_trans. 2: apply upd_task_ts. eapply tsame_trans. 2: apply push_ts. eapply tsame_trans. 2: apply push_ts. eapply tsame_trans. 2: apply push_ts. ts_same.
      + set (sc := s1 <| s_conns := tl |>). assert (Fc : fsame s1 sc) by fs_eq. assert (Tc : tsame s1 sc) by ts_same.
        assert (Ac : A sc) by (eapply A_step; eauto).
        destruct c.
        * cbn [fst]. apply Hwait.
          -- eapply fsame_trans. 2: apply upd_task_fs. eapply fsame_trans. 2: apply push_fs. eapply fsame_trans. 2: apply push_fs. eapply fsame_trans. 2: apply push_fs.
             eapply fsame_trans. exact Fc. fs_eq.
          -- eapply tsame_trans. 2: apply upd_task_ts. eapply tsame_trans. 2: apply push_ts. eapply tsame_trans. 2: apply push_ts. eapply tsame_trans. 2: apply push_ts.
             eapply tsame_trans. exact Tc. ts_same.
        * apply sr_exception_A. eapply A_step. apply upd_task_fs. apply upd_task_ts. exact Ac.
        * destruct (s_kind sc). apply sr_exception_A; auto.
          cbn [fst]. apply Hwait. eapply fsame_trans. exact Fc. apply upd_task_fs. eapply tsame_trans. exact Tc. apply upd_task_ts.
  Qed.

  Lemma sr_attempt_body_A s d : A s -> A (fst (sr_attempt_body again s k d)).
  Proof.
    intros HA. unfold sr_attempt_body. cbv zeta.
    set (s1 := ensure_lock s). assert (A1 : A s1) by (eapply A_step; [apply ensure_lock_fs | apply ensure_lock_ts | exact HA]).
    destruct (_ && _).
    - apply sr_locked_A. eapply A_step. 3: exact A1. fs_eq. ts_same.
    - cbn [fst]. eapply A_step. apply set_pc_fs. apply set_pc_ts. eapply A_step. apply upd_task_fs. apply upd_task_ts.
      eapply A_step. 3: exact A1. fs_eq. ts_same.
  Qed.
End AttemptA.

Lemma sr_attempt_A fuel k : forall s d, A s -> A (fst (sr_attempt fuel s k d)).
Proof.
  induction fuel as [|fuel IH]; intros s d HA; cbn [sr_attempt].
  - pose proof (exec_finish_fs s k (RRaise XCancelled)) as F. pose proof (exec_finish_ts s k (RRaise XCancelled)) as T.
    destruct (exec_finish s k (RRaise XCancelled)) as [s' a]. cbn [fst] in *. eapply A_step; eauto.
  - apply sr_attempt_body_A; auto.
Qed.

Lemma task_step_A s k : A s -> A (fst (task_step s k)).
Proof.
  intros HA. unfold task_step. destruct (get_task k (s_tasks s)) as [tk|]; [|exact HA].
  assert (Hclose : forall s0, fsame s s0 -> tsame s s0 -> A (set_pc (lock_release (close_transport s0)) k PcDone)).
  { intros s0 F T. eapply A_step. apply set_pc_fs. apply set_pc_ts. eapply A_step. apply lock_release_fs. apply lock_release_ts.
    eapply A_step. apply close_transport_fs. apply close_transport_ts. eapply A_step; eauto. }
  destruct (t_pc tk).
  - apply sr_attempt_A; auto.
  - destruct (negb (woken s w)); [exact HA|]. apply sr_locked_A. intros; apply sr_attempt_A; auto. eapply A_step. 3: exact HA. fs_eq. ts_same.
  - destruct (t_cancelled tk).
    + apply sr_exception_A. intros; apply sr_attempt_A; auto.
      eapply A_step. apply tr_close_fs. apply tr_close_ts. eapply A_step. apply upd_task_fs. apply upd_task_ts. exact HA.
    + destruct (has_waiter k t (s_ready s)); [exact HA|]. apply sr_after_send_A. intros; apply sr_attempt_A; auto.
  - apply sr_exception_A. intros; apply sr_attempt_A; auto. eapply A_step. apply upd_task_fs. apply upd_task_ts. exact HA.
  - destruct (fstat_of s f).
    + exact HA.
    + apply sr_unwind_A; auto.
    + apply sr_exception_A; auto. intros; apply sr_attempt_A; auto.
    + apply sr_exception_A; auto. intros; apply sr_attempt_A; auto.
  - destruct (negb (woken s w)); [exact HA|]. cbv zeta. cbn [fst]. apply Hclose. fs_eq. ts_same.
  - destruct (s_kind s); cbn [fst].
    + eapply A_step. apply set_pc_fs. apply set_pc_ts. eapply A_step. apply close_transport_fs. apply close_transport_ts. exact HA.
    + set (s1 := ensure_lock s). assert (F1 : fsame s s1) by apply ensure_lock_fs. assert (T1 : tsame s s1) by apply ensure_lock_ts.
      destruct (_ && _); cbn [fst].
      * apply Hclose. eapply fsame_trans. exact F1. fs_eq. eapply tsame_trans. exact T1. ts_same.
      * eapply A_step. apply set_pc_fs. apply set_pc_ts. eapply A_step. 3: { eapply A_step. exact F1. exact T1. exact HA. } fs_eq. ts_same.
  - destruct (negb (woken s w)); [exact HA|]. cbn [fst]. apply Hclose. fs_eq. ts_same.
  - exact HA.
Qed.

(* ---------------------------------------------------------------- the callbacks that touch the timer *)
(* by G the only future that can be pending is the response_future *)
Lemma only_fut_pending s s' : G s -> fsame s s' -> (forall f, s_fut s' = Some f -> pending s' f = false) -> nopend s'.
Proof.
  intros HG F H g. destruct (pending s' g) eqn:E; auto. pose proof (fs_mono _ _ F g E) as E0. destruct (HG g E0) as [U _].
  rewrite <- (fs_fut _ _ F) in U. rewrite (H g U) in E. discriminate.
Qed.

Lemma pending_complete s f v g : v <> FPending -> pending (complete s f v) g = true -> g <> f \/ False.
Proof.
  intros Hv H. destruct (Nat.eq_dec g f) as [->|]; auto. right.
  unfold complete in H. cbv zeta in H.
  assert (Hp : pending (s <| s_futs := set_nth f v (s_futs s) |>) f = true).
  { destruct (awaiting f (s_tasks (s <| s_futs := set_nth f v (s_futs s) |>))); exact H. }
  unfold pending, fstat_of in Hp. cbn in Hp. destruct (Nat.lt_ge_cases f (length (s_futs s))).
  - rewrite nth_set_nth_eq in Hp by auto. destruct v; congruence.
  - rewrite nth_overflow in Hp by (rewrite set_nth_length; lia). discriminate.
Qed.

Lemma complete_resolves s f v : v <> FPending -> pending (complete s f v) f = false.
Proof. intros Hv. destruct (pending (complete s f v) f) eqn:E; auto. destruct (pending_complete s f v f Hv E) as [H|[]]. congruence. Qed.

Lemma received_A s id len v : G s -> s_cmd s = true -> A (fst (received s id len v)).
Proof.
  intros HG Hc. pose proof (received_fs s id len v) as Fall. unfold received in *. rewrite Hc in *. cbn [negb] in *. cbv zeta in *.
  set (s0 := match s_kind s with UDP => _ | TCP => _ end) in *.
  set (y := match s_partial s0 with Some _ => _ | None => _ end) in *.
  destruct y as [[data dlen] s1].
  destruct v.
  - (* accept *)
    set (s2 := s1 <| s_accepted := _ |>) in *.
    destruct (s_fut s2) as [f|] eqn:Ef; cbn [fst] in *.
    + destruct (pending s2 f) eqn:Ep; cbn [fst] in *.
      * left. apply (only_fut_pending s _ HG Fall). intros g Hg. cbn in Hg.
        assert (s_fut (complete s2 f (FResult data)) = Some f).
        { unfold complete. cbv zeta. destruct (awaiting _ _); cbn; exact Ef. }
        assert (g = f) by congruence. subst g.
        change (pending (complete s2 f (FResult data)) f = false). apply complete_resolves. discriminate.
      * left. apply (only_fut_pending s _ HG Fall). intros g Hg. assert (g = f) by congruence. subst. exact Ep.
    + left. apply (only_fut_pending s _ HG Fall). intros g Hg. congruence.
  - (* refused *)
    destruct (s_kind s1); cbn [fst] in *.
    + right. right. cbn. apply in_or_app. right. left. reflexivity.
    + destruct (s_fut s1) as [f|] eqn:Ef; cbn [fst] in *.
      * destruct (pending s1 f) eqn:Ep; cbn [fst] in *.
        -- left. apply (only_fut_pending s _ HG Fall). intros g Hg.
           pose proof (close_transport_fs (complete s1 f (FExc XRejectedEmpty))) as Fc.
           assert (Hf : s_fut (complete s1 f (FExc XRejectedEmpty)) = Some f).
           { unfold complete. cbv zeta. destruct (awaiting _ _); cbn; exact Ef. }
           rewrite (fs_fut _ _ Fc), Hf in Hg. injection Hg as <-.
           destruct (pending (close_transport _) f) eqn:E; auto.
           pose proof (fs_mono _ _ Fc f E) as E1. rewrite complete_resolves in E1. discriminate. discriminate.
        -- left. apply (only_fut_pending s _ HG Fall). intros g Hg. assert (g = f) by congruence. subst. exact Ep.
      * left. apply (only_fut_pending s _ HG Fall). intros g Hg. congruence.
  - (* a fragment: the timer is armed again *)
    cbn [fst]. right. apply armed_arm.
  - (* exception frame *)
    cbn [fst] in *.
    set (s2 := match s_fut s1 with Some f => _ | None => s1 end) in *.
    left. apply (only_fut_pending s _ HG Fall). intros g Hg.
    assert (Hres : forall f, s_fut s2 = Some f -> pending s2 f = false).
    { intros f Hf. unfold s2 in *. destruct (s_fut s1) as [f1|] eqn:Ef1.
      - destruct (pending s1 f1) eqn:Ep.
        + assert (Hf' : s_fut (complete s1 f1 (FExc (XRejected code))) = Some f1).
          { unfold complete. cbv zeta. destruct (awaiting _ _); cbn; exact Ef1. }
          assert (f = f1) by congruence. subst. apply complete_resolves. discriminate.
        + assert (f = f1) by congruence. subst. exact Ep.
      - congruence. }
    destruct (s_kind s2).
    + pose proof (close_transport_fs s2) as Fc. rewrite (fs_fut _ _ Fc) in Hg.
      destruct (pending (close_transport s2) g) eqn:E; auto. pose proof (fs_mono _ _ Fc g E) as E1. rewrite (Hres g Hg) in E1. discriminate.
    + apply Hres. exact Hg.
Qed.

Lemma timeout_mechanism_A s : G s -> A (fst (timeout_mechanism s)).
Proof.
  intros HG. pose proof (timeout_mechanism_fs s) as Fall. left. apply (only_fut_pending s _ HG Fall). intros g Hg.
  unfold timeout_mechanism in *. destruct (s_kind s), (s_fut s) as [f|] eqn:Ef; cbn [fst] in *.
  - destruct (pending s f) eqn:Ep; cbn [fst] in *.
    + assert (Hf : s_fut (complete (s <| s_timer := None |>) f FCancelled) = Some f).
      { unfold complete. cbv zeta. destruct (awaiting _ _); cbn; exact Ef. }
      rewrite Hf in Hg. injection Hg as <-. apply complete_resolves. discriminate.
    + assert (g = f) by congruence. subst. exact Ep.
  - cbn in Hg. congruence.
  - destruct (pending s f) eqn:Ep; cbn [fst] in *.
    + set (s1 := s <| s_timer := None |>) in *.
      assert (E1 : s_fut s1 = Some f) by exact Ef. assert (P1 : pending s1 f = true) by exact Ep.
      unfold close_transport in *. cbv zeta in *.
      set (s2 := match s_transport s1 with Some t => _ | None => s1 end) in *.
      assert (E2 : s_fut s2 = Some f). { unfold s2. destruct (s_transport s1); auto. cbn. unfold tr_close. destruct (tstate_of s1 n); exact E1. }
      assert (P2 : pending s2 f = true). { unfold s2. destruct (s_transport s1); auto. unfold pending, fstat_of. cbn. unfold tr_close. destruct (tstate_of s1 n); exact P1. }
      rewrite E2, P2 in *. assert (Hf : s_fut (complete s2 f FCancelled) = Some f).
      { unfold complete. cbv zeta. destruct (awaiting _ _); cbn; exact E2. }
      rewrite Hf in Hg. injection Hg as <-. apply complete_resolves. discriminate.
    + assert (g = f) by congruence. subst. exact Ep.
  - congruence.
Qed.

(* every callback, every event *)
From GW Require Import ProtoNoExc.

Lemma run_cb_A s c : G s -> (needs_cmd c = true -> s_cmd s = true) -> A s -> A (fst (run_cb s c)).
Proof.
  intros HG Hc HA. destruct c; cbn [run_cb].
  - apply task_step_A; auto.
  - cbn [fst]. eapply A_step. 3: exact HA.
    + destruct (tstate_of s t); cbn; destruct (s_kind s); fs_eq.
    + destruct (tstate_of s t); cbn; destruct (s_kind s); ts_same.
  - exact HA.
  - destruct (get_task k (s_tasks s)) as [tk|]; [|exact HA]. destruct (t_pc tk); try exact HA.
    destruct (_ || _); [exact HA|]. cbn [fst]. eapply A_step. apply push_fs. apply push_ts. exact HA.
  - destruct (tstate_of s t); try exact HA. destruct i.
    + apply received_A; auto.
    + cbn [fst]. eapply A_step. 3: exact HA. eapply fsame_trans. apply close_transport_fs. apply tr_close_fs.
      eapply tsame_trans. apply close_transport_ts. apply tr_close_ts.
  - apply timeout_mechanism_A; auto.
  - destruct (mem_nat h (s_handles s)); [|exact HA].
    apply timeout_mechanism_A. eapply G_fsame. exact HG. fs_eq. auto.
  - destruct (tstate_of s t); try exact HA. cbn [fst].
    eapply A_step. 3: exact HA. eapply fsame_trans. 2: apply close_transport_fs. fs_eq. eapply tsame_trans. 2: apply close_transport_ts. ts_same.
  - destruct (tstate_of s t); try exact HA.
    (* error_received completes the response_future (if pending) *)
    pose proof (error_received_fs s) as Fall. left. apply (only_fut_pending s _ HG Fall). intros g Hg.
    unfold error_received in *. destruct (s_fut s) as [f|] eqn:Ef; cbn [fst] in *; [|congruence].
    destruct (pending s f) eqn:Ep.
    + pose proof (close_transport_fs (complete s f (FExc XOSError))) as Fc.
      assert (Hf : s_fut (complete s f (FExc XOSError)) = Some f). { unfold complete. cbv zeta. destruct (awaiting _ _); cbn; exact Ef. }
      rewrite (fs_fut _ _ Fc), Hf in Hg. injection Hg as <-.
      destruct (pending (close_transport _) f) eqn:E; auto. pose proof (fs_mono _ _ Fc f E) as E1. rewrite complete_resolves in E1; discriminate.
    + pose proof (close_transport_fs s) as Fc. rewrite (fs_fut _ _ Fc), Ef in Hg. injection Hg as <-.
      destruct (pending (close_transport s) f) eqn:E; auto. rewrite (fs_mono _ _ Fc f E) in Ep. discriminate.
  - cbn [fst]. eapply A_step. apply tr_close_fs. apply tr_close_ts. exact HA.
  - destruct (get_task k (s_tasks s)) as [tk|]; [|exact HA]. destruct (t_wf tk); [|exact HA].
    destruct (t_pc tk); try exact HA; cbv zeta; cbn [fst];
      (destruct (has_task k (s_ready s));
       [eapply A_step; [apply upd_task_fs | apply upd_task_ts | exact HA]
       | eapply A_step; [apply push_fs | apply push_ts | eapply A_step; [apply upd_task_fs | apply upd_task_ts | exact HA]]]).
Qed.

Lemma step_A s e r : M None s -> G s -> J s -> A s -> step s e = Some r -> A (fst r).
Proof.
  intros HM HG HJ HA. destruct e; cbn [step]; intros H;
    repeat match type of H with
    | context [match ?x with _ => _ end] => destruct x eqn:?; try discriminate
    end; try (injection H as <-); cbn [fst].
  - (* EvPop *) set (s1 := s <| s_ready := l |>).
    assert (L : lsame None s s1) by (constructor; cbn; auto). assert (F : fsame s s1) by fs_eq.
    assert (G1 : G s1) by (eapply G_ls; eauto).
    assert (Hcmd : needs_cmd c = true -> s_cmd s1 = true) by (intros Hn; exact (J_cmd_of_ready s c l HJ Heql Hn)).
    destruct c; try (apply run_cb_A; auto; destruct HA as [N|[(h0 & H1 & H2)|Hs]];
                     [left; eapply nopend_fsame; eauto | right; left; exists h0; auto
                     | right; right; rewrite Heql in Hs; destruct Hs as [Hs|Hs]; [discriminate | exact Hs]]).
    (* the deferred timeout call itself *)
    cbn [run_cb]. apply timeout_mechanism_A. exact G1.
  - eapply A_step. apply push_fs. apply push_ts. exact HA.
  - eapply A_step. apply push_fs. apply push_ts. exact HA.
  - eapply A_step. apply push_fs. apply push_ts. exact HA.
  - eapply A_step. apply push_fs. apply push_ts. exact HA.
  - eapply A_step. apply push_fs. apply push_ts. exact HA.
  - (* EvCall *) destruct HA as [N|Ar].
    + left. intros f. apply N.
    + right. destruct Ar as [(h0 & H1 & H2)|Hs]. left. exists h0. auto. right. cbn. apply in_or_app. auto.
  - destruct HA as [N|Ar].
    + left. intros f. apply N.
    + right. destruct Ar as [(h0 & H1 & H2)|Hs]. left. exists h0. auto. right. cbn. apply in_or_app. auto.
  - eapply A_step. 3: exact HA. fs_eq. ts_same.
  - eapply A_step. 3: exact HA. fs_eq. ts_same.
  - (* EvNewLoop: every coroutine has finished, so nothing is pending *)
    left. intros f. destruct (pending s f) eqn:E; auto. destruct (HG f E) as [_ (k & Hk)].
    pose proof (quiescent_done _ Heqb) as Hd. unfold pc_of in Hk. destruct (get_task k (s_tasks s)) as [tk|] eqn:Ek; try discriminate.
    cbn in Hk. injection Hk as Hk. rewrite (Hd _ _ Ek) in Hk. discriminate.
Qed.

Lemma init_A kd ka r : A (init kd ka r).
Proof. left. intros f. unfold pending, fstat_of. cbn. destruct f; reflexivity. Qed.

Lemma run_MGJA es : forall s s' acts, M None s -> G s -> J s -> A s -> run s es = Some (s', acts) -> M None s' /\ G s' /\ J s' /\ A s'.
Proof.
  induction es as [|e es IH]; intros s s' acts HM HG HJ HA H; cbn [run] in H.
  - injection H as <- <-. auto.
  - destruct (step s e) as [[s1 a1]|] eqn:Es; try discriminate.
    destruct (run s1 es) as [[s2 a2]|] eqn:Er; try discriminate. injection H as <- <-.
    eapply IH. 5: exact Er.
    + exact (proj1 (step_SQ _ _ _ HM Es)).
    + exact (step_G _ _ _ HM HG Es).
    + exact (proj1 (step_X _ _ _ HJ Es)).
    + exact (step_A _ _ _ HM HG HJ HA Es).
Qed.

(* whenever a caller awaits an answer that has not arrived, a timeout is armed: the live timer handle of the protocol object, or the
   queued call of _timeout_mechanism *)
Theorem waiting_caller_has_a_timeout_armed es kd ka r s acts : run (init kd ka r) es = Some (s, acts) ->
  forall k f, pc_of s k = Some (PcAwait f) -> pending s f = true ->
  (exists h, s_timer s = Some h /\ In h (s_handles s)) \/ In CbSoon (s_ready s).
Proof.
  intros H k f _ Hp. destruct (run_MGJA es _ _ _ (init_M kd ka r) (init_G kd ka r) (init_J kd ka r) (init_A kd ka r) H) as (_ & _ & _ & [N|Ar]).
  - rewrite N in Hp. discriminate.
  - exact Ar.
Qed.

(* C10: transports.  Invariant of Model/Proto.v over ALL runs: every open transport is either the one the protocol object
   references or the one being connected by the task that holds the lock; hence at most one transport is open at any time,
   none is leaked, a connection is opened only when nothing is open, and once a request has reported with keep-alive off
   (or close() has returned) nothing is open.  Built on the lock invariant (ProtoMutex.v); the FIFO order of the three
   handles that asyncio schedules for a new transport (connection_made, add_reader, waiter) is part of the invariant. *)
From Coq Require Import List Bool Arith Lia.
From RecordUpdate Require Import RecordSet.
From GW Require Import Proto ProtoEvolves ProtoProps ProtoBound ProtoMutex ProtoAnswer.
Import ListNotations RecordSetNotations.

Definition open (s : st) (t : nat) : bool := match tstate_of s t with TNew | TUp => true | _ => false end.

Lemma open_closing s t : open s t = negb (is_closing s t).
Proof. unfold open, is_closing. destruct (tstate_of s t); reflexivity. Qed.

Lemma open_lt s t : open s t = true -> t < length (s_tr s).
Proof.
  unfold open, tstate_of. intros H. destruct (Nat.lt_ge_cases t (length (s_tr s))); auto.
  rewrite nth_overflow in H by lia. discriminate.
Qed.

(* callbacks that helper functions may schedule: everything but the three handles of a new transport and a fatal transport error *)
Definition plain (c : cb) : bool := match c with CbConnMade _ | CbFatal _ | CbAddReader _ | CbWaiter _ _ => false | _ => true end.

Definition udp_flags (s : st) : Prop :=
  s_kind s = UDP -> forall k tk, get_task k (s_tasks s) = Some tk -> t_cancelled tk = false /\ t_wf tk = false.

Record T (x : option nat) (s : st) : Prop := mkT {
  t_ref : forall t, open s t = true -> s_transport s = Some t \/ exists k, Some k <> x /\ pc_of s k = Some (PcConnWait t);
  t_cw : forall k t, Some k <> x -> pc_of s k = Some (PcConnWait t) ->
         forall t0, s_transport s = Some t0 -> open s t0 = true -> t0 = t;
  t_fresh : forall t, s_transport s = Some t -> t < length (s_tr s);
  t_cwfresh : forall k t, Some k <> x -> pc_of s k = Some (PcConnWait t) -> t < length (s_tr s);
  t_cm : forall pre t post, s_ready s = pre ++ CbConnMade t :: post ->
         t < length (s_tr s) /\ ~ In (CbConnMade t) pre /\ ~ In (CbConnMade t) post /\
         exists k post', post = CbAddReader t :: CbWaiter k t :: post' /\
           (s_kind s = UDP -> tstate_of s t = TNew /\ (Some k <> x -> pc_of s k = Some (PcConnWait t)) /\ s_transport s <> Some t);
  t_fatal : forall t, In (CbFatal t) (s_ready s) -> s_kind s = TCP;
  t_udp : udp_flags s;
}.

(* ---------------------------------------------------------------- helpers: they only close *)
Record tv (x : option nat) (s s' : st) : Prop := mkTv {
  tv_kind : s_kind s' = s_kind s;
  tv_ka : s_ka s' = s_ka s;
  tv_len : length (s_tr s') = length (s_tr s);
  tv_tr : forall t, tstate_of s' t = tstate_of s t \/
                    (open s' t = false /\ (tstate_of s t = TNew -> s_transport s = Some t \/ s_kind s = TCP));
  tv_transport : s_transport s' = s_transport s \/ (s_transport s' = None /\ forall t, s_transport s = Some t -> open s' t = false);
  tv_ready : exists l, s_ready s' = s_ready s ++ l /\ forallb plain l = true;
  tv_pcs : forall k, Some k <> x -> pc_of s' k = pc_of s k;
  tv_has : forall k, pc_of s k <> None -> pc_of s' k <> None;
  tv_udp : udp_flags s -> udp_flags s';
}.

Lemma tv_refl x s : tv x s s.
Proof. constructor; auto. exists []. rewrite app_nil_r. auto. Qed.

Lemma tv_open_mono x s s' t : tv x s s' -> open s' t = true -> open s t = true /\ tstate_of s' t = tstate_of s t.
Proof.
  intros R H. destruct (tv_tr _ _ _ R t) as [E|[E _]]. unfold open in *. rewrite E in H. auto. congruence.
Qed.

Lemma tv_trans x a b c : tv x a b -> tv x b c -> tv x a c.
Proof.
  intros R1 R2. constructor.
  - rewrite (tv_kind _ _ _ R2). apply (tv_kind _ _ _ R1).
  - rewrite (tv_ka _ _ _ R2). apply (tv_ka _ _ _ R1).
  - rewrite (tv_len _ _ _ R2). apply (tv_len _ _ _ R1).
  - intros t. destruct (tv_tr _ _ _ R2 t) as [E2|[O2 C2]]; destruct (tv_tr _ _ _ R1 t) as [E1|[O1 C1]].
    + left. congruence.
    + right. split; auto. unfold open in *. rewrite E2. exact O1.
    + right. split; auto. intros Hn. rewrite <- E1 in Hn. destruct (C2 Hn) as [H|H].
      * left. destruct (tv_transport _ _ _ R1) as [Et|[Et _]]; congruence.
      * right. rewrite <- (tv_kind _ _ _ R1). exact H.
    + right. split; auto.
  - destruct (tv_transport _ _ _ R2) as [E2|[E2 C2]]; destruct (tv_transport _ _ _ R1) as [E1|[E1 C1]].
    + left. congruence.
    + right. split. congruence. intros t Ht. specialize (C1 t Ht).
      destruct (open c t) eqn:Eo; auto. destruct (tv_open_mono _ _ _ _ R2 Eo). congruence.
    + right. split; auto. intros t Ht. apply C2. congruence.
    + right. split; auto. intros t Ht. specialize (C1 t Ht).
      destruct (open c t) eqn:Eo; auto. destruct (tv_open_mono _ _ _ _ R2 Eo). congruence.
  - destruct (tv_ready _ _ _ R1) as (l1 & E1 & P1). destruct (tv_ready _ _ _ R2) as (l2 & E2 & P2).
    exists (l1 ++ l2). split. rewrite E2, E1, app_assoc. reflexivity. rewrite forallb_app, P1, P2. reflexivity.
  - intros k Hk. rewrite (tv_pcs _ _ _ R2), (tv_pcs _ _ _ R1); auto.
  - intros k Hk. apply (tv_has _ _ _ R2), (tv_has _ _ _ R1), Hk.
  - intros H. apply (tv_udp _ _ _ R2), (tv_udp _ _ _ R1), H.
Qed.

Lemma tv_any x s s' : tv None s s' -> tv x s s'.
Proof. intros [a b c d e f g h i]. constructor; auto. intros k _. apply g. discriminate. Qed.

(* a split of [a ++ l] at an element that does not occur in [l] is a split of [a] *)
Lemma split_app_left {A} (a l pre post : list A) (c : A) :
  a ++ l = pre ++ c :: post -> ~ In c l -> exists post0, a = pre ++ c :: post0 /\ post = post0 ++ l.
Proof.
  revert pre. induction a as [|y a IH]; intros pre H Hn.
  - cbn in H. exfalso. apply Hn. rewrite H. apply in_or_app. right. left. reflexivity.
  - destruct pre as [|p pre]; cbn in H.
    + injection H as -> H. exists a. split; auto.
    + injection H as -> H. destruct (IH pre H Hn) as (post0 & E1 & E2). exists post0. split; auto. cbn. congruence.
Qed.

Lemma plain_not_cm l t : forallb plain l = true -> ~ In (CbConnMade t) l.
Proof. intros H Hin. rewrite forallb_forall in H. specialize (H _ Hin). discriminate. Qed.

Lemma plain_not_fatal l t : forallb plain l = true -> ~ In (CbFatal t) l.
Proof. intros H Hin. rewrite forallb_forall in H. specialize (H _ Hin). discriminate. Qed.

Lemma T_tv x s s' : tv x s s' -> T x s -> T x s'.
Proof.
  intros R HT. constructor.
  - intros t Ho. destruct (tv_open_mono _ _ _ _ R Ho) as [Ho0 _].
    destruct (t_ref _ _ HT t Ho0) as [H|(k & Hk & Hp)].
    + left. destruct (tv_transport _ _ _ R) as [E|[_ C]]. congruence. rewrite (C t H) in Ho. discriminate.
    + right. exists k. split; auto. rewrite (tv_pcs _ _ _ R); auto.
  - intros k t Hk Hp t0 Ht0 Ho. rewrite (tv_pcs _ _ _ R) in Hp by auto.
    destruct (tv_open_mono _ _ _ _ R Ho) as [Ho0 _].
    destruct (tv_transport _ _ _ R) as [E|[E _]]; [|congruence]. eapply (t_cw _ _ HT); eauto. congruence.
  - intros t Ht. rewrite (tv_len _ _ _ R). apply (t_fresh _ _ HT).
    destruct (tv_transport _ _ _ R) as [E|[E _]]; congruence.
  - intros k t Hk Hp. rewrite (tv_len _ _ _ R). rewrite (tv_pcs _ _ _ R) in Hp by auto. eapply (t_cwfresh _ _ HT); eauto.
  - intros pre t post Hs. destruct (tv_ready _ _ _ R) as (l & El & Pl). rewrite El in Hs.
    destruct (split_app_left _ _ _ _ _ Hs (plain_not_cm l t Pl)) as (post0 & E1 & E2).
    destruct (t_cm _ _ HT _ _ _ E1) as (A & B & C & k & post' & D & U).
    split. rewrite (tv_len _ _ _ R). exact A. split. exact B. split.
    { rewrite E2. intros Hin. apply in_app_or in Hin. destruct Hin as [Hin|Hin]. auto. eapply plain_not_cm; eauto. }
    exists k, (post' ++ l). split. rewrite E2, D. reflexivity.
    rewrite (tv_kind _ _ _ R). intros Hu. destruct (U Hu) as (U1 & U2 & U3). split; [|split].
    + destruct (tv_tr _ _ _ R t) as [E|[_ Cc]]. congruence. destruct (Cc U1) as [H|H]; congruence.
    + intros Hk. rewrite (tv_pcs _ _ _ R); auto.
    + destruct (tv_transport _ _ _ R) as [E|[E _]]; congruence.
  - intros t Hin. destruct (tv_ready _ _ _ R) as (l & El & Pl). rewrite El in Hin. rewrite (tv_kind _ _ _ R).
    apply in_app_or in Hin. destruct Hin as [Hin|Hin]. eapply (t_fatal _ _ HT); eauto. exfalso. eapply plain_not_fatal; eauto.
  - apply (tv_udp _ _ _ R), (t_udp _ _ HT).
Qed.

(* the same transport table, the same reference; ready only grows by plain callbacks *)
Lemma tv_simple x s s' l : s_kind s' = s_kind s -> s_ka s' = s_ka s -> s_tr s' = s_tr s -> s_transport s' = s_transport s ->
  s_ready s' = s_ready s ++ l -> forallb plain l = true -> s_tasks s' = s_tasks s -> tv x s s'.
Proof.
  intros H1 H2 H3 H4 H5 H6 H7. constructor; auto.
  - rewrite H3. reflexivity.
  - intros t. left. unfold tstate_of. rewrite H3. reflexivity.
  - eauto.
  - intros k _. unfold pc_of. rewrite H7. reflexivity.
  - intros k. unfold pc_of. rewrite H7. auto.
  - unfold udp_flags. rewrite H1, H7. auto.
Qed.

Ltac tv_same := eapply tv_simple with (l := []); cbn; rewrite ?app_nil_r; auto.

Lemma push_tv x s c : plain c = true -> tv x s (push s c).
Proof. intros H. eapply tv_simple with (l := [c]); cbn; auto. rewrite H. reflexivity. Qed.

Lemma cancel_timer_tv x s : tv x s (cancel_timer s). Proof. unfold cancel_timer. destruct (s_timer s); tv_same. Qed.
Lemma arm_timer_tv x s : tv x s (arm_timer s). Proof. tv_same. Qed.

Lemma nth_set_nth_cases {A} n m (v d : A) l : nth m (set_nth n v l) d = nth m l d \/ (n = m /\ m < length l /\ nth m (set_nth n v l) d = v).
Proof.
  destruct (Nat.eq_dec n m) as [->|Hn]. 2: left; apply nth_set_nth_neq; auto.
  destruct (Nat.lt_ge_cases m (length l)). right. split; auto. split; auto. apply nth_set_nth_eq; auto.
  left. rewrite !nth_overflow; auto. rewrite set_nth_length. lia.
Qed.

(* transport.close() on a transport that may be closed here: the referenced one, any transport of a TCP object, an established one *)
Lemma tr_close_tv x s t : (tstate_of s t = TNew -> s_transport s = Some t \/ s_kind s = TCP) -> tv x s (tr_close s t).
Proof.
  intros Hc. unfold tr_close. destruct (tstate_of s t) eqn:E; try apply tv_refl.
  - (* TNew *) constructor; cbn; auto.
    + apply set_nth_length.
    + intros t'. unfold tstate_of, open. cbn. destruct (nth_set_nth_cases t t' TClosing TGone (s_tr s)) as [H|(-> & _ & H)]. auto.
      right. unfold tstate_of. cbn. rewrite H. split; auto.
    + exists [CbConnLost t]. split; auto.
  - (* TUp *) constructor; cbn; auto.
    + apply set_nth_length.
    + intros t'. unfold tstate_of, open. cbn. destruct (nth_set_nth_cases t t' TClosing TGone (s_tr s)) as [H|(-> & _ & H)]. auto.
      right. unfold tstate_of. cbn. rewrite H. split; auto. unfold tstate_of in E. rewrite E. discriminate.
    + exists [CbConnLost t]. split; auto.
Qed.

Lemma complete_tv x s f v : tv x s (complete s f v).
Proof.
  unfold complete. cbv zeta. destruct (awaiting _ _). 2: tv_same.
  eapply tv_trans with (b := s <| s_futs := set_nth f v (s_futs s) |>). tv_same. apply push_tv. reflexivity.
Qed.

Lemma tr_close_open s t : open (tr_close s t) t = false.
Proof.
  unfold tr_close. destruct (tstate_of s t) eqn:E; unfold open; rewrite ?E; auto; unfold tstate_of in *; cbn;
    (destruct (Nat.lt_ge_cases t (length (s_tr s))); [rewrite nth_set_nth_eq by auto; reflexivity | rewrite nth_overflow in E by lia; discriminate]).
Qed.

Lemma close_transport_tv x s : tv x s (close_transport s).
Proof.
  unfold close_transport. cbv zeta.
  set (s1 := match s_transport s with Some t => _ | None => s end).
  assert (H1 : tv x s s1).
  { unfold s1. destruct (s_transport s) as [t|] eqn:Et; [|apply tv_refl].
    pose proof (tr_close_tv x s t (fun _ => or_introl Et)) as R.
    constructor; cbn; try apply R.
    - right. split; auto. intros t' Ht'. rewrite Et in Ht'. injection Ht' as <-. change (open (tr_close s t) t = false). apply tr_close_open. }
  eapply tv_trans. exact H1.
  destruct (s_fut s1) as [f|]; [|apply tv_refl].
  destruct (pending s1 f); [|apply tv_refl]. apply complete_tv.
Qed.

Lemma close_transport_none s : s_transport (close_transport s) = None.
Proof. apply close_transport_none. Qed.

Lemma error_received_tv x s : tv x s (fst (error_received s)).
Proof.
  unfold error_received. destruct (s_fut s) as [f|]; cbn [fst]; [|apply tv_refl].
  destruct (pending s f).
  - apply tv_trans with (b := complete s f (FExc XOSError)). apply complete_tv. apply close_transport_tv.
  - apply close_transport_tv.
Qed.

Lemma max_retries_tv x s : tv x s (fst (max_retries s)).
Proof. unfold max_retries. cbv zeta. cbn [fst]. eapply tv_trans. apply close_transport_tv. tv_same. Qed.

Lemma lock_release_tv x s : tv x s (lock_release s).
Proof.
  unfold lock_release. cbv zeta. destruct (s_waiters _) as [|[w [|]] tl]; try solve [tv_same].
  match goal with |- context [match ?y with Some _ => _ | None => _ end] => destruct y end. 2: tv_same.
  eapply tv_trans. 2: apply push_tv; reflexivity. tv_same.
Qed.

Lemma release_if_locked_tv x s : tv x s (release_if_locked s).
Proof. unfold release_if_locked. destruct (_ && _). apply lock_release_tv. apply tv_refl. Qed.

Lemma ensure_lock_tv x s : tv x s (ensure_lock s).
Proof. unfold ensure_lock. destruct (_ && _). apply tv_refl. eapply tv_trans; [|apply close_transport_tv]. tv_same. Qed.

Lemma sr_finally_tv x n : forall s, tv x s (sr_finally n s).
Proof.
  induction n as [|n IH]; intros s; cbn [sr_finally]. apply tv_refl.
  cbv zeta. eapply tv_trans. 2: apply IH.
  eapply tv_trans. apply release_if_locked_tv.
  destruct (s_kind _). destruct (s_ka _). apply tv_refl. apply close_transport_tv. apply tv_refl.
Qed.

(* the task table: flags may only be cleared (or set on a TCP object) *)
Lemma upd_task_tv s k f : (forall t, s_kind s = UDP -> t_cancelled t = false /\ t_wf t = false -> t_cancelled (f t) = false /\ t_wf (f t) = false) ->
  tv (Some k) s (upd_task s k f).
Proof.
  intros Hf. unfold upd_task. destruct (get_task k (s_tasks s)) as [tk|] eqn:E; [|apply tv_refl].
  constructor; cbn; auto.
  - exists []. rewrite app_nil_r. auto.
  - intros k' Hn. unfold pc_of. cbn. rewrite get_put_other by congruence. reflexivity.
  - intros k' Hk'. unfold pc_of in *. cbn. destruct (Nat.eq_dec k' k) as [->|Hn].
    + rewrite get_put_same. discriminate.
    + rewrite get_put_other by auto. exact Hk'.
  - intros H Hu k' tk' Hk'. cbn in Hk'. destruct (Nat.eq_dec k' k) as [->|Hn].
    + rewrite get_put_same in Hk'. injection Hk' as <-. apply Hf; auto. eapply H; eauto.
    + rewrite get_put_other in Hk' by auto. eapply H; eauto.
Qed.

Lemma upd_task_tv_all x s k f : (forall t, t_pc (f t) = t_pc t) ->
  (forall t, s_kind s = UDP -> t_cancelled t = false /\ t_wf t = false -> t_cancelled (f t) = false /\ t_wf (f t) = false) ->
  tv x s (upd_task s k f).
Proof.
  intros Hp Hf. pose proof (upd_task_tv s k f Hf) as R. destruct R as [a b c d e g h i j]. constructor; auto.
  intros k' _. apply (ls_pcs _ _ _ (upd_task_ls_all None s k f Hp)). discriminate.
Qed.

Lemma set_pc_tv s k p : tv (Some k) s (set_pc s k p).
Proof.
  unfold set_pc. destruct (get_task k (s_tasks s)) as [tk|] eqn:E; [|apply tv_refl].
  constructor; cbn; auto.
  - exists []. rewrite app_nil_r. auto.
  - intros k' Hn. unfold pc_of. cbn. rewrite get_put_other by congruence. reflexivity.
  - intros k' Hk'. unfold pc_of in *. cbn. destruct (Nat.eq_dec k' k) as [->|Hn].
    + rewrite get_put_same. discriminate.
    + rewrite get_put_other by auto. exact Hk'.
  - intros H Hu k' tk' Hk'. cbn in Hk'. destruct (Nat.eq_dec k' k) as [->|Hn].
    + rewrite get_put_same in Hk'. injection Hk' as <-. cbn. eapply H; eauto.
    + rewrite get_put_other in Hk' by auto. eapply H; eauto.
Qed.

Lemma timeout_mechanism_tv x s : tv x s (fst (timeout_mechanism s)).
Proof.
  unfold timeout_mechanism. destruct (s_kind s), (s_fut s) as [f|]; cbn [fst]; try (destruct (pending s f)); cbn [fst];
    try apply tv_refl; try solve [tv_same].
  - apply tv_trans with (b := s <| s_timer := None |>). tv_same. apply complete_tv.
  - apply tv_trans with (b := s <| s_timer := None |>). tv_same. apply close_transport_tv.
Qed.

Lemma received_tv x s id len v : tv x s (fst (received s id len v)).
Proof.
  unfold received. destruct (negb (s_cmd s)).
  { cbn [fst]. destruct (s_kind s). eapply tv_trans. apply cancel_timer_tv. tv_same. apply cancel_timer_tv. }
  cbv zeta.
  set (s0 := match s_kind s with UDP => _ | TCP => _ end).
  assert (F0 : tv x s s0).
  { unfold s0. destruct (s_kind s). eapply tv_trans. apply cancel_timer_tv. tv_same. apply cancel_timer_tv. }
  set (y := match s_partial s0 with Some _ => _ | None => _ end).
  assert (Fy : tv x s0 (snd y)).
  { unfold y. destruct (s_partial s0) as [[[p plen] miss]|]. destruct (_ && _); cbn [snd]. tv_same. apply tv_refl. apply tv_refl. }
  destruct y as [[data dlen] s1]. cbn [snd] in Fy.
  assert (F1 : tv x s s1) by (eapply tv_trans; eauto).
  destruct v.
  - set (s2 := s1 <| s_accepted := _ |>). assert (F2 : tv x s s2) by (eapply tv_trans; [exact F1 | tv_same]).
    destruct (s_fut s2) as [f|]; cbn [fst]; auto. destruct (pending s2 f); cbn [fst]; auto.
    eapply tv_trans. exact F2. apply tv_trans with (b := complete s2 f (FResult data)). apply complete_tv. tv_same.
  - destruct (s_kind s1); cbn [fst]. eapply tv_trans. exact F1. apply push_tv. reflexivity.
    destruct (s_fut s1) as [f|]; cbn [fst]; auto. destruct (pending s1 f); cbn [fst]; auto.
    eapply tv_trans. exact F1. apply tv_trans with (b := complete s1 f (FExc XRejectedEmpty)). apply complete_tv. apply close_transport_tv.
  - cbn [fst]. eapply tv_trans. exact F1. eapply tv_trans. 2: apply arm_timer_tv. tv_same.
  - cbn [fst]. set (s2 := match s_fut s1 with Some f => _ | None => s1 end).
    assert (F2 : tv x s1 s2).
    { unfold s2. destruct (s_fut s1) as [f|]. destruct (pending s1 f). apply complete_tv. apply tv_refl. apply tv_refl. }
    eapply tv_trans. exact F1. eapply tv_trans. exact F2. destruct (s_kind s2). apply close_transport_tv. apply tv_refl.
Qed.


Ltac flags_tac := let tk0 := fresh "tk0" in let H := fresh "H" in intros tk0 ? H; destruct tk0; cbn in *; tauto.

(* ---------------------------------------------------------------- the coroutine of the running task k *)
Definition noopen (s : st) : Prop := forall t, open s t = false.

(* no connection_made / waiter pair of an attempt of k is queued (UDP) *)
Definition notriple (k : nat) (s : st) : Prop :=
  s_kind s = UDP -> forall pre t post post', s_ready s = pre ++ CbConnMade t :: post -> post <> CbAddReader t :: CbWaiter k t :: post'.

Record TR (k : nat) (s : st) : Prop := mkTR {
  tr_T : T (Some k) s;
  tr_nt : notriple k s;
  tr_has : pc_of s k <> None;
}.

Lemma triple_in_left (post0 l post' : list cb) t k : post0 ++ l = CbAddReader t :: CbWaiter k t :: post' -> forallb plain l = true ->
  exists p', post0 = CbAddReader t :: CbWaiter k t :: p'.
Proof.
  intros E Pl. destruct post0 as [|a [|b p]]; cbn in E.
  - subst l. discriminate.
  - injection E as -> E. subst l. discriminate.
  - injection E as -> -> E. eauto.
Qed.

Lemma notriple_tv k s s' : tv (Some k) s s' -> notriple k s -> notriple k s'.
Proof.
  intros R H Hu pre t post post' Hs E. rewrite (tv_kind _ _ _ R) in Hu.
  destruct (tv_ready _ _ _ R) as (l & El & Pl). rewrite El in Hs.
  destruct (split_app_left _ _ _ _ _ Hs (plain_not_cm l t Pl)) as (post0 & E1 & E2).
  rewrite E2 in E. destruct (triple_in_left _ _ _ _ _ E Pl) as (p' & E0).
  eapply (H Hu); eauto.
Qed.

Lemma TR_tv k s s' : tv (Some k) s s' -> TR k s -> TR k s'.
Proof.
  intros R [A B C]. constructor. eapply T_tv; eauto. eapply notriple_tv; eauto. apply (tv_has _ _ _ R). exact C.
Qed.

Lemma ofree_tv k s s' : tv (Some k) s s' -> ofree k s -> ofree k s'.
Proof. intros R H k' p Hn Hp. rewrite (tv_pcs _ _ _ R) in Hp by congruence. eapply H; eauto. Qed.

Lemma noopen_tv x s s' : tv x s s' -> noopen s -> noopen s'.
Proof. intros R H t. destruct (open s' t) eqn:E; auto. destruct (tv_open_mono _ _ _ _ R E) as [E0 _]. rewrite H in E0. discriminate. Qed.

(* nothing referenced, nobody else connecting: nothing is open *)
Lemma TR_noopen k s : TR k s -> ofree k s -> (forall t, s_transport s = Some t -> open s t = false) -> noopen s.
Proof.
  intros [HT _ _] Hf Hn t. destruct (open s t) eqn:E; auto.
  destruct (t_ref _ _ HT t E) as [H|(k' & Hk' & Hp)]. rewrite (Hn t H) in E. discriminate.
  assert (Hne : k' <> k) by congruence. pose proof (Hf k' _ Hne Hp) as Hc. discriminate.
Qed.

(* leaving the coroutine at a program counter that is not a connect wait *)
Lemma set_pc_T k s p : TR k s -> (forall t, p <> PcConnWait t) -> T None (set_pc s k p).
Proof.
  intros [HT Hnt Hh] Hp. pose proof (set_pc_tv s k p) as R. pose proof (T_tv _ _ _ R HT) as HT'.
  assert (Hpk : pc_of (set_pc s k p) k = Some p).
  { apply pc_of_set_pc_has. exact Hh. }
  constructor.
  - intros t Ho. destruct (t_ref _ _ HT' t Ho) as [H|(k' & Hk' & Hq)]; auto. right. exists k'. split; auto. discriminate.
  - intros k1 t _ Hq. destruct (Nat.eq_dec k1 k) as [->|Hn]. rewrite Hpk in Hq. injection Hq as Hq. exfalso. eapply Hp; eauto.
    apply (t_cw _ _ HT' k1 t); auto. congruence.
  - apply (t_fresh _ _ HT').
  - intros k1 t _ Hq. destruct (Nat.eq_dec k1 k) as [->|Hn]. rewrite Hpk in Hq. injection Hq as Hq. exfalso. eapply Hp; eauto.
    apply (t_cwfresh _ _ HT' k1 t); auto. congruence.
  - intros pre t post Hs. destruct (t_cm _ _ HT' _ _ _ Hs) as (A & B & C & k0 & post' & D & U).
    split; auto. split; auto. split; auto. exists k0, post'. split; auto.
    intros Hu. destruct (U Hu) as (U1 & U2 & U3). split; auto. split; auto. intros _.
    destruct (Nat.eq_dec k0 k) as [->|Hn]. 2: { apply U2. congruence. }
    exfalso. rewrite (tv_kind _ _ _ R) in Hu.
    assert (Hr : s_ready (set_pc s k p) = s_ready s) by (unfold set_pc; destruct (get_task k (s_tasks s)); reflexivity).
    rewrite Hr in Hs. eapply (Hnt Hu); eauto.
  - apply (t_fatal _ _ HT').
  - apply (t_udp _ _ HT').
Qed.

Lemma noopen_set_pc s k p : noopen s -> noopen (set_pc s k p).
Proof. apply noopen_tv with (x := Some k). apply set_pc_tv. Qed.

(* result of a callback that ran (part of) the coroutine of task k *)
Definition closed_report (ka : bool) (a : list action) : Prop :=
  (ka = false /\ exists k o, In (ADone k o) a) \/ exists k, In (ACloseDone k) a.

Definition TQ (ka : bool) (r : st * list action) : Prop :=
  T None (fst r) /\ (closed_report ka (snd r) -> noopen (fst r)).

Lemma TQ_nil ka s : T None s -> TQ ka (s, []).
Proof. intros H. split; auto. intros [[_ (k & o & [])]|(k & [])]. Qed.

Definition quiet (a : list action) : Prop := forall x, In x a -> (forall k o, x <> ADone k o) /\ (forall k, x <> ACloseDone k).

Lemma TQ_quiet ka s a : T None s -> quiet a -> TQ ka (s, a).
Proof.
  intros H Hq. split; auto. intros [[_ (k & o & Hin)]|(k & Hin)]; exfalso; destruct (Hq _ Hin) as [H1 H2]; [eapply H1 | eapply H2]; eauto.
Qed.

Lemma TQ_app ka s acts a : quiet acts -> TQ ka (s, a) -> TQ ka (s, acts ++ a).
Proof.
  intros Hq [HT Hc]. split; auto. cbn [fst snd] in *. intros [[Hk (k & o & Hin)]|(k & Hin)]; apply Hc; apply in_app_or in Hin; destruct Hin as [Hin|Hin].
  - exfalso. destruct (Hq _ Hin) as [H1 _]. eapply H1; eauto.
  - left. eauto.
  - exfalso. destruct (Hq _ Hin) as [_ H2]. eapply H2; eauto.
  - right. eauto.
Qed.

Lemma close_done_T k s : TR k s -> ofree k s -> T None (set_pc (lock_release (close_transport s)) k PcDone) /\ noopen (set_pc (lock_release (close_transport s)) k PcDone).
Proof.
  intros HR Hf.
  assert (R : tv (Some k) s (lock_release (close_transport s))) by (eapply tv_trans; [apply close_transport_tv | apply lock_release_tv]).
  pose proof (TR_tv _ _ _ R HR) as HR1. pose proof (ofree_tv _ _ _ R Hf) as Hf1.
  split. apply set_pc_T; auto. discriminate.
  apply noopen_set_pc. apply (TR_noopen k); auto. intros t Ht. exfalso.
  destruct (tv_transport _ _ _ (lock_release_tv (Some k) (close_transport s))) as [E|[E _]]; rewrite E in Ht; try discriminate.
  rewrite close_transport_none in Ht. discriminate.
Qed.

Lemma exec_finish_TQ k s r : TR k s -> ofree k s -> TQ (s_ka s) (exec_finish s k r).
Proof.
  intros HR Hf. unfold exec_finish. cbv zeta.
  set (s1 := s <| s_retry := 0 |>).
  assert (R1 : tv (Some k) s s1) by tv_same.
  pose proof (TR_tv _ _ _ R1 HR) as HR1. pose proof (ofree_tv _ _ _ R1 Hf) as Hf1.
  change (s_ka s) with (s_ka s1).
  destruct (s_ka s1) eqn:Eka.
  { split; cbn [fst snd]. apply set_pc_T; auto. discriminate.
    intros [[H _]|(k0 & [H|[]])]; discriminate. }
  destruct (s_kind s1).
  { assert (R2 : tv (Some k) s1 (close_transport s1)) by apply close_transport_tv.
    split; cbn [fst snd]. apply set_pc_T. eapply TR_tv; eauto. discriminate.
    intros _. apply noopen_set_pc. apply (TR_noopen k). eapply TR_tv; eauto. eapply ofree_tv; eauto.
    intros t Ht. rewrite close_transport_none in Ht. discriminate. }
  set (s2 := ensure_lock s1).
  assert (R2 : tv (Some k) s1 s2) by apply ensure_lock_tv.
  pose proof (TR_tv _ _ _ R2 HR1) as HR2. pose proof (ofree_tv _ _ _ R2 Hf1) as Hf2.
  destruct (_ && _); cbn [fst snd].
  - set (s3 := s2 <| s_lock := true |> <| s_owner := Some k |>).
    assert (R3 : tv (Some k) s2 s3) by tv_same.
    destruct (close_done_T k s3 (TR_tv _ _ _ R3 HR2) (ofree_tv _ _ _ R3 Hf2)) as [A B]. split; auto.
  - apply TQ_nil. apply set_pc_T. 2: discriminate. eapply TR_tv. 2: exact HR2. tv_same.
Qed.

Lemma sr_unwind_TQ k s d r : TR k s -> ofree k s -> TQ (s_ka s) (sr_unwind s k d r).
Proof.
  intros HR Hf. unfold sr_unwind. pose proof (sr_finally_tv (Some k) (S d) s) as R.
  rewrite <- (tv_ka _ _ _ R). apply exec_finish_TQ. eapply TR_tv; eauto. eapply ofree_tv; eauto.
Qed.

Lemma quiet_one a : (forall k o, a <> ADone k o) -> (forall k, a <> ACloseDone k) -> quiet [a].
Proof. intros H1 H2 x [<-|[]]. split; auto. Qed.

Lemma quiet_nil : quiet [].
Proof. intros x []. Qed.

Lemma error_received_quiet s : quiet (snd (error_received s)).
Proof. unfold error_received. destruct (s_fut s); cbn [snd]. apply quiet_nil. apply quiet_one; discriminate. Qed.

Lemma do_send_T s k d t : TR k s ->
  quiet (snd (fst (do_send s k d t))) /\ s_ka (fst (fst (do_send s k d t))) = s_ka s /\
  match snd (do_send s k d t) with
  | None => T None (fst (fst (do_send s k d t)))
  | Some _ => TR k (fst (fst (do_send s k d t))) /\ tv (Some k) s (fst (fst (do_send s k d t)))
  end.
Proof.
  intros HR. unfold do_send. cbv zeta.
  set (f := length (s_futs s)).
  set (s2 := _ <| s_nsend := _ |>).
  assert (R2 : tv (Some k) s s2) by tv_same.
  set (y := match s_sends s2 with b :: tl => (b, s2 <| s_sends := tl |>) | [] => (true, s2) end).
  assert (Fy : tv (Some k) s2 (snd y)) by (unfold y; destruct (s_sends s2); [apply tv_refl | tv_same]).
  destruct y as [ok sy]. cbn [snd] in Fy.
  assert (Ry : tv (Some k) s sy) by (eapply tv_trans; eauto).
  set (z := if ok then _ else _).
  assert (Fz : tv (Some k) sy (fst z) /\ quiet (snd z)).
  { unfold z. destruct ok. split. apply tv_refl. apply quiet_one; discriminate. destruct (s_kind sy) eqn:Ek.
    - pose proof (error_received_tv (Some k) sy) as He. pose proof (error_received_quiet sy) as Hq.
      destruct (error_received sy) as [se ae]. cbn [fst snd] in *. split; auto.
      intros x [<-|Hx]. split; discriminate. auto.
    - cbn [fst snd]. split. apply tr_close_tv. auto. apply quiet_one; discriminate. }
  destruct z as [s3 acts]. cbn [fst snd] in Fz. destruct Fz as [Fz Qz].
  set (s4 := arm_timer (cancel_timer s3)).
  assert (F4 : tv (Some k) s s4).
  { eapply tv_trans. exact Ry. eapply tv_trans. exact Fz. eapply tv_trans. apply cancel_timer_tv. apply arm_timer_tv. }
  pose proof (TR_tv _ _ _ F4 HR) as HR4.
  assert (Hsusp : forall s6, s6 = set_pc (upd_task s4 k (fun tk => tk <| t_depth := d |>)) k (PcAwait f) -> s_ka s6 = s_ka s /\ T None s6).
  { intros s6 ->. set (s5 := upd_task s4 k _).
    assert (R5 : tv (Some k) s4 s5) by (apply upd_task_tv; flags_tac).
    split. rewrite (tv_ka _ _ _ (set_pc_tv s5 k (PcAwait f))), (tv_ka _ _ _ R5), (tv_ka _ _ _ F4). reflexivity.
    apply set_pc_T. eapply TR_tv; eauto. discriminate. }
  destruct (fstat_of s4 f); cbn [fst snd]; (split; [exact Qz|]).
  - destruct (Hsusp _ eq_refl). split; auto.
  - split. apply (tv_ka _ _ _ F4). split; auto.
  - split. apply (tv_ka _ _ _ F4). split; auto.
  - split. apply (tv_ka _ _ _ F4). split; auto.
Qed.

(* ---------------------------------------------------------------- opening a connection *)
Lemma split_app_cases {A} (a l pre post : list A) (c : A) :
  a ++ l = pre ++ c :: post ->
  (exists post0, a = pre ++ c :: post0 /\ post = post0 ++ l) \/ (exists pre0, pre = a ++ pre0 /\ l = pre0 ++ c :: post).
Proof.
  revert pre. induction a as [|y a IH]; intros pre H.
  - right. exists pre. auto.
  - destruct pre as [|p pre]; cbn in H.
    + injection H as -> H. left. exists a. split; auto.
    + injection H as -> H. destruct (IH pre H) as [(post0 & E1 & E2)|(pre0 & E1 & E2)].
      * left. exists post0. split; auto. cbn. congruence.
      * right. exists pre0. split; auto. cbn. congruence.
Qed.

Lemma set_pc_same_fields s k p : s_tr (set_pc s k p) = s_tr s /\ s_transport (set_pc s k p) = s_transport s /\
  s_ready (set_pc s k p) = s_ready s /\ s_kind (set_pc s k p) = s_kind s.
Proof. unfold set_pc. destruct (get_task k (s_tasks s)); auto. Qed.

Lemma upd_task_same_fields s k f : s_tr (upd_task s k f) = s_tr s /\ s_transport (upd_task s k f) = s_transport s /\
  s_ready (upd_task s k f) = s_ready s /\ s_kind (upd_task s k f) = s_kind s.
Proof. unfold upd_task. destruct (get_task k (s_tasks s)); auto. Qed.

Lemma cm_in_ready_lt x s t : T x s -> In (CbConnMade t) (s_ready s) -> t < length (s_tr s).
Proof. intros HT Hin. apply in_split in Hin. destruct Hin as (pre & post & E). apply (t_cm _ _ HT _ _ _ E). Qed.

Lemma connect_T k s d : TR k s -> ofree k s -> (forall t0, s_transport s = Some t0 -> open s t0 = false) ->
  T None (set_pc (upd_task (push (push (push (s <| s_tr := s_tr s ++ [TNew] |>) (CbConnMade (length (s_tr s)))) (CbAddReader (length (s_tr s))))
                                 (CbWaiter k (length (s_tr s)))) k (fun tk => tk <| t_depth := d |>)) k (PcConnWait (length (s_tr s)))).
Proof.
  intros HR Hf Hcl. pose proof (TR_noopen k s HR Hf Hcl) as Hno. destruct HR as [HT Hnt Hh].
  set (t := length (s_tr s)).
  set (s2 := push (push (push (s <| s_tr := s_tr s ++ [TNew] |>) (CbConnMade t)) (CbAddReader t)) (CbWaiter k t)).
  set (s3 := upd_task s2 k (fun tk => tk <| t_depth := d |>)).
  set (sf := set_pc s3 k (PcConnWait t)).
  destruct (set_pc_same_fields s3 k (PcConnWait t)) as (F1 & F2 & F3 & F4).
  destruct (upd_task_same_fields s2 k (fun tk => tk <| t_depth := d |>)) as (G1 & G2 & G3 & G4).
  assert (Etr : s_tr sf = s_tr s ++ [TNew]) by (unfold sf; rewrite F1; unfold s3; rewrite G1; reflexivity).
  assert (Etp : s_transport sf = s_transport s) by (unfold sf; rewrite F2; unfold s3; rewrite G2; reflexivity).
  assert (Erd : s_ready sf = s_ready s ++ [CbConnMade t; CbAddReader t; CbWaiter k t]).
  { unfold sf. rewrite F3. unfold s3. rewrite G3. unfold s2, push. cbn. rewrite <- !app_assoc. reflexivity. }
  assert (Ekd : s_kind sf = s_kind s) by (unfold sf; rewrite F4; unfold s3; rewrite G4; reflexivity).
  assert (Hts : forall t', tstate_of sf t' = if Nat.ltb t' t then tstate_of s t' else if Nat.eqb t' t then TNew else TGone).
  { intros t'. unfold tstate_of. rewrite Etr. destruct (Nat.ltb_spec t' t). apply app_nth1; auto.
    destruct (Nat.eqb_spec t' t) as [->|Hn]. unfold t. rewrite app_nth2, Nat.sub_diag by lia. reflexivity.
    apply nth_overflow. rewrite app_length. cbn. fold t. lia. }
  assert (Hopen : forall t', open sf t' = true -> t' = t).
  { intros t' Ho. unfold open in Ho. rewrite Hts in Ho. destruct (Nat.ltb_spec t' t).
    - pose proof (Hno t') as Hn. unfold open in Hn. rewrite Hn in Ho. discriminate.
    - destruct (Nat.eqb_spec t' t); auto. discriminate. }
  assert (R3 : tv (Some k) s2 sf).
  { apply tv_trans with (b := s3). apply upd_task_tv; flags_tac. apply set_pc_tv. }
  assert (Hpcs : forall k', k' <> k -> pc_of sf k' = pc_of s k').
  { intros k' Hn. rewrite (tv_pcs _ _ _ R3) by congruence. reflexivity. }
  assert (Hpk : pc_of sf k = Some (PcConnWait t)).
  { unfold sf. apply pc_of_set_pc_has. apply (tv_has _ _ _ (upd_task_tv s2 k (fun tk => tk <| t_depth := d |>) ltac:(flags_tac))). exact Hh. }
  assert (Hnocw : forall k' t', k' <> k -> pc_of s k' <> Some (PcConnWait t')).
  { intros k' t' Hn Hp. pose proof (Hf k' _ Hn Hp). discriminate. }
  constructor.
  - intros t' Ho. rewrite (Hopen t' Ho). right. exists k. split. discriminate. exact Hpk.
  - intros k1 t1 _ Hp t0 Ht0 Ho. destruct (Nat.eq_dec k1 k) as [->|Hn].
    + rewrite Hpk in Hp. injection Hp as <-. apply Hopen. exact Ho.
    + rewrite Hpcs in Hp by auto. exfalso. eapply Hnocw; eauto.
  - intros t0 Ht0. rewrite Etr, app_length. rewrite Etp in Ht0. pose proof (t_fresh _ _ HT t0 Ht0). lia.
  - intros k1 t1 _ Hp. rewrite Etr, app_length. cbn. destruct (Nat.eq_dec k1 k) as [->|Hn].
    + rewrite Hpk in Hp. injection Hp as <-. unfold t. lia.
    + rewrite Hpcs in Hp by auto. exfalso. eapply Hnocw; eauto.
  - intros pre t' post Hs. rewrite Erd in Hs. destruct (split_app_cases _ _ _ _ _ Hs) as [(post0 & E1 & E2)|(pre0 & E1 & E2)].
    + (* an older transport's connection_made *)
      destruct (t_cm _ _ HT _ _ _ E1) as (A & B & C & k0 & post' & D & U).
      assert (Hlt : t' <> t) by (unfold t; lia).
      split. rewrite Etr, app_length. lia. split. exact B. split.
      { rewrite E2. intros Hin. apply in_app_or in Hin. destruct Hin as [Hin|[Hin|[Hin|[Hin|[]]]]]; auto; try discriminate. congruence. }
      exists k0, (post' ++ [CbConnMade t; CbAddReader t; CbWaiter k t]). split. rewrite E2, D. reflexivity.
      rewrite Ekd. intros Hu. destruct (U Hu) as (U1 & U2 & U3).
      assert (Hk0 : k0 <> k). { intros ->. eapply (Hnt Hu); eauto. }
      split; [|split].
      * rewrite Hts. destruct (Nat.ltb_spec t' t). exact U1. unfold t in *. lia.
      * intros _. rewrite Hpcs by auto. apply U2. congruence.
      * rewrite Etp. exact U3.
    + (* the new one *)
      destruct pre0 as [|c0 pre0]; cbn in E2.
      2: { exfalso. injection E2 as _ E2. destruct pre0 as [|c1 pre0]; cbn in E2. discriminate.
           injection E2 as _ E2. destruct pre0 as [|c2 pre0]; cbn in E2. discriminate. injection E2 as _ E2. destruct pre0; discriminate. }
      injection E2 as Et' Epost. subst t' post. rewrite app_nil_r in E1. subst pre.
      split. rewrite Etr, app_length. cbn. fold t. lia. split.
      { intros Hin. pose proof (cm_in_ready_lt _ _ _ HT Hin). unfold t in *. lia. }
      split. { intros [H|[H|[]]]; discriminate. }
      exists k, []. split; auto. intros Hu. split; [|split].
      * rewrite Hts, Nat.ltb_irrefl, Nat.eqb_refl. reflexivity.
      * intros _. exact Hpk.
      * rewrite Etp. intros H. pose proof (t_fresh _ _ HT _ H). unfold t in *. lia.
  - intros t' Hin. rewrite Ekd. rewrite Erd in Hin. apply in_app_or in Hin. destruct Hin as [Hin|[Hin|[Hin|[Hin|[]]]]]; try discriminate.
    eapply (t_fatal _ _ HT); eauto.
  - apply (tv_udp _ _ _ R3). unfold udp_flags. cbn. apply (t_udp _ _ HT).
Qed.

Section AttemptT.
  Variable again : st -> nat -> nat -> st * list action.
  Variable k : nat.
  Variable ka : bool.
  Hypothesis again_TQ : forall s d, TR k s -> ofree k s -> s_ka s = ka -> TQ ka (again s k d).

  Lemma sr_exception_TQ s d e : TR k s -> ofree k s -> s_ka s = ka -> TQ ka (sr_exception again s k d e).
  Proof.
    intros HR Hf Hka. unfold sr_exception. cbv zeta.
    assert (Hb : forall close : bool,
      TQ ka (if Nat.ltb (s_retry s) (s_retries s)
         then again (if close then close_transport (release_if_locked (s <| s_retry := S (s_retry s) |>))
                     else release_if_locked (s <| s_retry := S (s_retry s) |>)) k (S d)
         else let '(s1, f) := max_retries s in sr_unwind s1 k d (RFut f))).
    { intros close. destruct (Nat.ltb (s_retry s) (s_retries s)).
      - set (s1 := s <| s_retry := S (s_retry s) |>).
        set (s2 := if close then close_transport (release_if_locked s1) else release_if_locked s1).
        assert (R2 : tv (Some k) s s2).
        { apply tv_trans with (b := s1). tv_same. unfold s2. destruct close. eapply tv_trans. apply release_if_locked_tv. apply close_transport_tv.
          apply release_if_locked_tv. }
        apply again_TQ. eapply TR_tv; eauto. eapply ofree_tv; eauto. rewrite (tv_ka _ _ _ R2). exact Hka.
      - pose proof (max_retries_tv (Some k) s) as Rm. destruct (max_retries s) as [s1 f]. cbn [fst] in Rm.
        rewrite <- Hka, <- (tv_ka _ _ _ Rm). apply sr_unwind_TQ. eapply TR_tv; eauto. eapply ofree_tv; eauto. }
    assert (Hu : forall r, TQ ka (sr_unwind s k d r)) by (intros r; rewrite <- Hka; apply sr_unwind_TQ; auto).
    destruct e, (s_kind s); try apply Hu;
      first [ exact (Hb (negb (s_ka s))) | exact (Hb true) | exact (Hb false) ].
  Qed.

  Lemma sr_after_send_TQ s d t : TR k s -> ofree k s -> s_ka s = ka -> TQ ka (sr_after_send again (do_send s k d t) k d).
  Proof.
    intros HR Hf Hka. destruct (do_send_T s k d t HR) as (Hq & Hk1 & H).
    destruct (do_send s k d t) as [[s1 acts] res]. cbn [fst snd] in *. unfold sr_after_send.
    destruct res as [[f|e]|].
    - destruct H as [HR1 R1]. pose proof (sr_unwind_TQ k s1 d (RFut f) HR1 (ofree_tv _ _ _ R1 Hf)) as HQ. rewrite Hk1, Hka in HQ.
      destruct (sr_unwind s1 k d (RFut f)). apply TQ_app; auto.
    - destruct H as [HR1 R1]. pose proof (sr_exception_TQ s1 d e HR1 (ofree_tv _ _ _ R1 Hf) (eq_trans Hk1 Hka)) as HQ.
      destruct (sr_exception again s1 k d e). apply TQ_app; auto.
    - apply TQ_quiet; auto.
  Qed.

  Lemma sr_locked_TQ s d : TR k s -> ofree k s -> s_ka s = ka -> TQ ka (sr_locked again s k d).
  Proof.
    intros HR Hf Hka. unfold sr_locked. cbv zeta.
    set (s1 := match s_kind s with TCP => _ | UDP => s end).
    assert (R1 : tv (Some k) s s1).
    { unfold s1. destruct (s_kind s) eqn:Ek. apply tv_refl. apply upd_task_tv. intros tk Hu. congruence. }
    pose proof (TR_tv _ _ _ R1 HR) as HR1. pose proof (ofree_tv _ _ _ R1 Hf) as Hf1.
    assert (Hk1 : s_ka s1 = ka) by (rewrite (tv_ka _ _ _ R1); exact Hka).
    destruct (match s_transport s1 with Some t => _ | None => None end) as [t|] eqn:Etr.
    - set (s2 := upd_task s1 k _).
      assert (R2 : tv (Some k) s1 s2) by (apply upd_task_tv; flags_tac).
      apply sr_after_send_TQ. eapply TR_tv; eauto. eapply ofree_tv; eauto. rewrite (tv_ka _ _ _ R2). exact Hk1.
    - assert (Hcl : forall t0, s_transport s1 = Some t0 -> open s1 t0 = false).
      { intros t0 Ht0. rewrite Ht0 in Etr. rewrite open_closing. destruct (is_closing s1 t0); [reflexivity|discriminate]. }
      destruct (s_conns s1) as [|c tl].
      + apply TQ_quiet. 2: apply quiet_one; discriminate. apply (connect_T k s1 d HR1 Hf1 Hcl).
      + set (sc := s1 <| s_conns := tl |>). assert (Rc : tv (Some k) s1 sc) by tv_same.
        pose proof (TR_tv _ _ _ Rc HR1) as HRc. pose proof (ofree_tv _ _ _ Rc Hf1) as Hfc.
        assert (Hkc : s_ka sc = ka) by exact Hk1.
        destruct c.
        * apply TQ_quiet. 2: apply quiet_one; discriminate. apply (connect_T k sc d HRc Hfc). exact Hcl.
        * set (s3 := upd_task sc k _).
          assert (R3 : tv (Some k) sc s3) by (apply upd_task_tv; flags_tac).
          apply sr_exception_TQ. eapply TR_tv; eauto. eapply ofree_tv; eauto. rewrite (tv_ka _ _ _ R3). exact Hkc.
        * destruct (s_kind sc).
          -- apply sr_exception_TQ; auto.
          -- apply TQ_nil. apply set_pc_T. 2: discriminate. eapply TR_tv. 2: exact HRc. apply upd_task_tv. flags_tac.
  Qed.

  Lemma sr_attempt_body_TQ s d : TR k s -> ofree k s -> s_ka s = ka -> TQ ka (sr_attempt_body again s k d).
  Proof.
    intros HR Hf Hka. unfold sr_attempt_body. cbv zeta.
    set (s1 := ensure_lock s). assert (R1 : tv (Some k) s s1) by apply ensure_lock_tv.
    pose proof (TR_tv _ _ _ R1 HR) as HR1. pose proof (ofree_tv _ _ _ R1 Hf) as Hf1.
    destruct (_ && _).
    - set (s2 := s1 <| s_lock := true |> <| s_owner := Some k |>). assert (R2 : tv (Some k) s1 s2) by tv_same.
      apply sr_locked_TQ. eapply TR_tv; eauto. eapply ofree_tv; eauto. rewrite (tv_ka _ _ _ R2), (tv_ka _ _ _ R1). exact Hka.
    - apply TQ_nil. apply set_pc_T. 2: discriminate. eapply TR_tv. 2: exact HR1.
      eapply tv_trans. 2: apply upd_task_tv; flags_tac. tv_same.
  Qed.
End AttemptT.

Lemma sr_attempt_TQ fuel k ka : forall s d, TR k s -> ofree k s -> s_ka s = ka -> TQ ka (sr_attempt fuel s k d).
Proof.
  induction fuel as [|fuel IH]; intros s d HR Hf Hka; cbn [sr_attempt].
  - pose proof (exec_finish_TQ k s (RRaise XCancelled) HR Hf) as HQ. rewrite Hka in HQ. destruct (exec_finish s k (RRaise XCancelled)) as [s' a].
    apply (TQ_app ka s' [ALoopExc] a). apply quiet_one; discriminate. exact HQ.
  - apply sr_attempt_body_TQ; auto.
Qed.

(* the enqueue-only behaviour of a coroutine that finds the lock taken *)
Lemma queue_only_T k s s1 p : TR k s -> tv (Some k) s s1 -> (forall t, p <> PcConnWait t) -> T None (set_pc s1 k p).
Proof. intros HR R Hp. apply set_pc_T; auto. eapply TR_tv; eauto. Qed.

(* ---------------------------------------------------------------- resuming a task *)
Lemma T_weaken k s : T None s -> (forall t, pc_of s k = Some (PcConnWait t) -> open s t = false \/ s_transport s = Some t) -> T (Some k) s.
Proof.
  intros HT Hk. constructor.
  - intros t Ho. destruct (t_ref _ _ HT t Ho) as [H|(k' & _ & Hp)]; auto.
    destruct (Nat.eq_dec k' k) as [->|Hn]. destruct (Hk t Hp) as [H|H]; auto. congruence.
    right. exists k'. split; auto. congruence.
  - intros k1 t Hx. apply (t_cw _ _ HT). discriminate.
  - apply (t_fresh _ _ HT).
  - intros k1 t Hx. apply (t_cwfresh _ _ HT). discriminate.
  - intros pre t post Hs. destruct (t_cm _ _ HT _ _ _ Hs) as (A & B & C & k0 & post' & D & U).
    split; auto. split; auto. split; auto. exists k0, post'. split; auto. intros Hu. destruct (U Hu) as (U1 & U2 & U3).
    split; auto. split; auto. intros _. apply U2. discriminate.
  - apply (t_fatal _ _ HT).
  - apply (t_udp _ _ HT).
Qed.

Lemma has_waiter_in k t l : In (CbWaiter k t) l -> has_waiter k t l = true.
Proof. intros H. unfold has_waiter. apply existsb_exists. exists (CbWaiter k t). split; auto. rewrite !Nat.eqb_refl. reflexivity. Qed.

(* a task that is not in a connect wait, or whose waiter has been completed, has no connection_made / waiter pair queued *)
Lemma notriple_of k s : T None s -> M None s ->
  (forall t, pc_of s k = Some (PcConnWait t) -> has_waiter k t (s_ready s) = false) -> notriple k s.
Proof.
  intros HT HM Hk Hu pre t post post' Hs E. destruct (t_cm _ _ HT _ _ _ Hs) as (_ & _ & _ & k0 & p0 & D & U).
  rewrite E in D. injection D as <- _. destruct (U Hu) as (_ & U2 & _). specialize (U2 ltac:(discriminate)).
  assert (Hin : In (CbWaiter k t) (s_ready s)).
  { rewrite Hs, E. apply in_or_app. right. right. right. left. reflexivity. }
  pose proof (has_waiter_in _ _ _ Hin) as Hw. rewrite (Hk t U2) in Hw. discriminate.
Qed.

Lemma pc_has s k p : pc_of s k = Some p -> pc_of s k <> None.
Proof. congruence. Qed.

Lemma ofree_of_cs s k p : M None s -> pc_of s k = Some p -> cs p = true -> ofree k s.
Proof.
  intros HM Hp Hc k' p' Hn Hp'. destruct (cs p') eqn:E; auto.
  destruct (m_cs _ _ HM k p ltac:(discriminate) Hp Hc) as [_ O1]. destruct (m_cs _ _ HM k' p' ltac:(discriminate) Hp' E) as [_ O2]. congruence.
Qed.

Lemma ofree_of_unlocked s k : M None s -> s_lock s = false -> ofree k s.
Proof.
  intros HM Hl k' p' Hn Hp'. destruct (cs p') eqn:E; auto. destruct (m_cs _ _ HM k' p' ltac:(discriminate) Hp' E) as [L _]. congruence.
Qed.

Lemma ofree_of_invalid s k : M None s -> ~ V s -> ofree k s.
Proof.
  intros HM Hv k' p' Hn Hp'. destruct (cs p') eqn:E; auto. exfalso. apply Hv.
  apply (m_valid _ _ HM k' p' ltac:(discriminate) Hp'). unfold lockpc. rewrite E. reflexivity.
Qed.

(* result of one callback: the invariant, and nothing is open when a request has reported with keep-alive off or close() has returned
   (for the lock-free close() of a UDP object: provided no other caller is connecting or awaiting an answer at that moment) *)
Definition TS (s : st) (r : st * list action) : Prop :=
  T None (fst r) /\
  ((s_ka s = false /\ exists k o, In (ADone k o) (snd r)) -> noopen (fst r)) /\
  (forall k, In (ACloseDone k) (snd r) -> s_kind s = TCP \/ ofree k s -> noopen (fst r)).

Lemma TS_of_TQ s r : TQ (s_ka s) r -> TS s r.
Proof. intros [HT Hc]. split; auto. split. intros H. apply Hc. left. exact H. intros k Hin _. apply Hc. right. eauto. Qed.

Lemma TS_quiet s s' a : T None s' -> quiet a -> TS s (s', a).
Proof. intros HT Hq. apply TS_of_TQ. apply TQ_quiet; auto. Qed.

Lemma task_step_TS s k : M None s -> T None s -> TS s (task_step s k).
Proof.
  intros HM HT. unfold task_step. destruct (get_task k (s_tasks s)) as [tk|] eqn:Hgk. 2: apply TS_quiet; [exact HT | apply quiet_nil].
  assert (Hpc : pc_of s k = Some (t_pc tk)) by (unfold pc_of; rewrite Hgk; reflexivity).
  pose proof (pc_has _ _ _ Hpc) as Hh.
  (* the running task is not in a connect wait: its stale program counter refers to no transport *)
  assert (Hplain : (forall t, t_pc tk <> PcConnWait t) -> TR k s).
  { intros Hn. constructor; auto.
    - apply T_weaken; auto. intros t Hp. rewrite Hpc in Hp. injection Hp as Hp. exfalso. eapply Hn; eauto.
    - apply notriple_of; auto. intros t Hp. rewrite Hpc in Hp. injection Hp as Hp. exfalso. eapply Hn; eauto. }
  assert (Hclose : forall w, (forall t, t_pc tk <> PcConnWait t) -> s_lock s = false ->
     T None (set_pc (lock_release (close_transport (s <| s_waiters := filter (fun p => negb (Nat.eqb (fst p) w)) (s_waiters s) |>
                                                 <| s_lock := true |> <| s_owner := Some k |>))) k PcDone) /\
     noopen (set_pc (lock_release (close_transport (s <| s_waiters := filter (fun p => negb (Nat.eqb (fst p) w)) (s_waiters s) |>
                                                 <| s_lock := true |> <| s_owner := Some k |>))) k PcDone)).
  { intros w Hn Hl. set (s1 := s <| s_waiters := _ |> <| s_lock := true |> <| s_owner := Some k |>).
    assert (R1 : tv (Some k) s s1) by tv_same.
    apply close_done_T. eapply TR_tv; eauto. eapply ofree_tv; eauto. apply ofree_of_unlocked; auto. }
  destruct (t_pc tk) eqn:E.
  - (* PcStart *)
    pose proof (Hplain ltac:(discriminate)) as HR.
    destruct (s_lock s) eqn:El.
    2: { apply TS_of_TQ. apply sr_attempt_TQ; auto. apply ofree_of_unlocked; auto. }
    destruct (V_dec s) as [Hv|Hnv].
    2: { apply TS_of_TQ. apply sr_attempt_TQ; auto. apply ofree_of_invalid; auto.
         intros [v1 v2]. rewrite v1, v2, Nat.eqb_refl in Hnv. discriminate. }
    cbn [sr_attempt]. unfold sr_attempt_body. cbv zeta. rewrite (ensure_lock_V s Hv), El. cbn [negb andb].
    apply TS_quiet. 2: apply quiet_nil. eapply queue_only_T. exact HR. 2: discriminate.
    eapply tv_trans. 2: apply upd_task_tv; flags_tac. tv_same.
  - (* PcLockWait *) destruct (woken s w) eqn:Hwk; cbn [negb]. 2: apply TS_quiet; [exact HT | apply quiet_nil].
    destruct (woken_head _ _ _ (m_wq _ _ HM) Hwk) as (Hl & _).
    pose proof (Hplain ltac:(discriminate)) as HR.
    set (s1 := s <| s_waiters := _ |> <| s_lock := true |> <| s_owner := Some k |>).
    assert (R1 : tv (Some k) s s1) by tv_same.
    apply TS_of_TQ. apply sr_locked_TQ. intros; apply sr_attempt_TQ; auto.
    eapply TR_tv; eauto. eapply ofree_tv; eauto. apply ofree_of_unlocked; auto. reflexivity.
  - (* PcConnWait *)
    pose proof (ofree_of_cs s k _ HM Hpc eq_refl) as Hf.
    destruct (t_cancelled tk) eqn:Ec.
    + (* wait_for timed out (TCP only): the half-made transport is closed *)
      assert (Hk : s_kind s = TCP).
      { destruct (s_kind s) eqn:Ek; auto. destruct (t_udp _ _ HT Ek k tk Hgk) as [H _]. congruence. }
      set (s0 := upd_task s k _).
      assert (R0 : tv None s s0) by (apply upd_task_tv_all; [reflexivity | flags_tac]).
      assert (R1 : tv None s0 (tr_close s0 t)). { apply tr_close_tv. intros _. right. rewrite (tv_kind _ _ _ R0). exact Hk. }
      assert (R01 : tv None s (tr_close s0 t)) by (eapply tv_trans; eauto).
      pose proof (T_tv _ _ _ R01 HT) as HT1.
      assert (Hp1 : pc_of (tr_close s0 t) k = Some (PcConnWait t)) by (rewrite (tv_pcs _ _ _ R01) by discriminate; exact Hpc).
      assert (HR1 : TR k (tr_close s0 t)).
      { constructor.
        - apply T_weaken; auto. intros t' Hp'. rewrite Hp1 in Hp'. injection Hp' as <-. left. apply tr_close_open.
        - intros Hu. rewrite (tv_kind _ _ _ R01) in Hu. congruence.
        - congruence. }
      apply TS_of_TQ. apply sr_exception_TQ. intros; apply sr_attempt_TQ; auto. exact HR1.
      eapply ofree_tv. apply tv_any. exact R01. exact Hf. rewrite (tv_ka _ _ _ R01). reflexivity.
    + destruct (has_waiter k t (s_ready s)) eqn:Ew. apply TS_quiet; [exact HT | apply quiet_nil].
      set (s0 := upd_task s k _). set (s2 := s0 <| s_transport := Some t |>).
      assert (R0 : tv None s s0) by (apply upd_task_tv_all; [reflexivity | flags_tac]).
      pose proof (T_tv _ _ _ R0 HT) as HT0.
      assert (Hp0 : forall k', pc_of s0 k' = pc_of s k') by (intros; apply (tv_pcs _ _ _ R0); discriminate).
      assert (Hrd : s_ready s0 = s_ready s) by (unfold s0, upd_task; destruct (get_task k (s_tasks s)); reflexivity).
      assert (Hmx : forall k0 t0, pc_of s k0 = Some (PcConnWait t0) -> k0 = k /\ t0 = t).
      { intros k0 t0 Hp. destruct (m_cs _ _ HM k0 _ ltac:(discriminate) Hp eq_refl) as [_ O1].
        destruct (m_cs _ _ HM k _ ltac:(discriminate) Hpc eq_refl) as [_ O2]. assert (k0 = k) by congruence. subst k0.
        rewrite Hpc in Hp. injection Hp as ->. auto. }
      assert (HR2 : TR k s2).
      { constructor.
        - constructor.
          + intros t' Ho. change (open s0 t' = true) in Ho. destruct (t_ref _ _ HT0 t' Ho) as [H|(k' & _ & Hp)].
            * left. cbn. f_equal. symmetry. apply (t_cw _ _ HT0 k t ltac:(discriminate)); auto. rewrite Hp0. exact Hpc.
            * rewrite Hp0 in Hp. destruct (Hmx _ _ Hp) as [-> ->]. left. reflexivity.
          + intros k1 t1 Hx Hp. change (pc_of s0 k1 = Some (PcConnWait t1)) in Hp. rewrite Hp0 in Hp. destruct (Hmx _ _ Hp) as [-> _]. congruence.
          + intros t' Ht'. cbn in Ht'. injection Ht' as <-. change (t < length (s_tr s0)).
            apply (t_cwfresh _ _ HT0 k t ltac:(discriminate)). rewrite Hp0. exact Hpc.
          + intros k1 t1 Hx Hp. change (pc_of s0 k1 = Some (PcConnWait t1)) in Hp. rewrite Hp0 in Hp. destruct (Hmx _ _ Hp) as [-> _]. congruence.
          + intros pre t' post Hs. change (s_ready s0 = pre ++ CbConnMade t' :: post) in Hs.
            destruct (t_cm _ _ HT0 _ _ _ Hs) as (A & B & C & k0 & post' & D & U).
            split; auto. split; auto. split; auto. exists k0, post'. split; auto. intros Hu. destruct (U Hu) as (U1 & U2 & U3).
            split; auto. split. intros _. apply U2. discriminate.
            cbn. intros Heq. injection Heq as <-. specialize (U2 ltac:(discriminate)). rewrite Hp0 in U2. destruct (Hmx _ _ U2) as [-> _].
            assert (Hin : In (CbWaiter k t) (s_ready s)).
            { rewrite <- Hrd, Hs, D. apply in_or_app. right. right. right. left. reflexivity. }
            rewrite (has_waiter_in _ _ _ Hin) in Ew. discriminate.
          + apply (t_fatal _ _ HT0).
          + apply (t_udp _ _ HT0).
        - intros Hu pre t' post post' Hs E'. change (s_ready s0 = pre ++ CbConnMade t' :: post) in Hs.
          destruct (t_cm _ _ HT0 _ _ _ Hs) as (_ & _ & _ & k0 & p0 & D & U). rewrite E' in D. injection D as <- _.
          destruct (U Hu) as (_ & U2 & _). specialize (U2 ltac:(discriminate)). rewrite Hp0 in U2. destruct (Hmx _ _ U2) as [_ ->].
          assert (Hin : In (CbWaiter k t) (s_ready s)).
          { rewrite <- Hrd, Hs, E'. apply in_or_app. right. right. right. left. reflexivity. }
          rewrite (has_waiter_in _ _ _ Hin) in Ew. discriminate.
        - change (pc_of s0 k <> None). rewrite Hp0. exact Hh. }
      assert (Hf2 : ofree k s2).
      { intros k' p' Hn Hp'. change (pc_of s0 k' = Some p') in Hp'. rewrite Hp0 in Hp'. eapply Hf; eauto. }
      apply TS_of_TQ. apply sr_after_send_TQ; auto. intros; apply sr_attempt_TQ; auto.
      change (s_ka s0 = s_ka s). apply (tv_ka _ _ _ R0).
  - (* PcConnHang *)
    pose proof (ofree_of_cs s k _ HM Hpc eq_refl) as Hf. pose proof (Hplain ltac:(discriminate)) as HR.
    set (s0 := upd_task s k _).
    assert (R0 : tv (Some k) s s0) by (apply upd_task_tv; flags_tac).
    apply TS_of_TQ. apply sr_exception_TQ. intros; apply sr_attempt_TQ; auto. eapply TR_tv; eauto. eapply ofree_tv; eauto.
    apply (tv_ka _ _ _ R0).
  - (* PcAwait *)
    pose proof (ofree_of_cs s k _ HM Hpc eq_refl) as Hf. pose proof (Hplain ltac:(discriminate)) as HR.
    destruct (fstat_of s f).
    + apply TS_quiet; [exact HT | apply quiet_nil].
    + apply TS_of_TQ. apply sr_unwind_TQ; auto.
    + apply TS_of_TQ. apply sr_exception_TQ; auto. intros; apply sr_attempt_TQ; auto.
    + apply TS_of_TQ. apply sr_exception_TQ; auto. intros; apply sr_attempt_TQ; auto.
  - (* PcCloseLockWait *) destruct (woken s w) eqn:Hwk; cbn [negb]. 2: apply TS_quiet; [exact HT | apply quiet_nil].
    destruct (woken_head _ _ _ (m_wq _ _ HM) Hwk) as (Hl & _). cbv zeta.
    destruct (Hclose w ltac:(discriminate) Hl) as [A B]. split; [exact A|]. split; intros; exact B.
  - (* PcCloseStart *)
    pose proof (Hplain ltac:(discriminate)) as HR.
    destruct (s_kind s) eqn:Ek.
    + (* UDP: close() does not take the lock *)
      assert (R1 : tv (Some k) s (close_transport s)) by apply close_transport_tv.
      split; cbn [fst snd]. apply set_pc_T. eapply TR_tv; eauto. discriminate.
      split. intros [_ (k0 & o & [H|[]])]. discriminate.
      intros k0 [H|[]] [Hc|Hf]. congruence. injection H as <-.
      apply noopen_set_pc. apply (TR_noopen k). eapply TR_tv; eauto. eapply ofree_tv; eauto.
      intros t Ht. rewrite close_transport_none in Ht. discriminate.
    + destruct (s_lock s) eqn:El.
      * destruct (V_dec s) as [Hv|Hnv].
        -- rewrite (ensure_lock_V s Hv), El. cbn [negb andb].
           apply TS_quiet. 2: apply quiet_nil. eapply queue_only_T. exact HR. 2: discriminate. tv_same.
        -- assert (Hf : ofree k s). { apply ofree_of_invalid; auto. intros [v1 v2]. rewrite v1, v2, Nat.eqb_refl in Hnv. discriminate. }
           set (s1 := ensure_lock s). assert (R1 : tv (Some k) s s1) by apply ensure_lock_tv.
           destruct (negb (s_lock s1) && _).
           ++ set (s2 := s1 <| s_lock := true |> <| s_owner := Some k |>). assert (R2 : tv (Some k) s1 s2) by tv_same.
              destruct (close_done_T k s2 (TR_tv _ _ _ R2 (TR_tv _ _ _ R1 HR)) (ofree_tv _ _ _ R2 (ofree_tv _ _ _ R1 Hf))) as [A B].
              split; [exact A|]. split; intros; exact B.
           ++ apply TS_quiet. 2: apply quiet_nil. eapply queue_only_T. exact HR. 2: discriminate. eapply tv_trans. exact R1. tv_same.
      * assert (Hf : ofree k s) by (apply ofree_of_unlocked; auto).
        set (s1 := ensure_lock s). assert (R1 : tv (Some k) s s1) by apply ensure_lock_tv.
        destruct (negb (s_lock s1) && _).
        -- set (s2 := s1 <| s_lock := true |> <| s_owner := Some k |>). assert (R2 : tv (Some k) s1 s2) by tv_same.
           destruct (close_done_T k s2 (TR_tv _ _ _ R2 (TR_tv _ _ _ R1 HR)) (ofree_tv _ _ _ R2 (ofree_tv _ _ _ R1 Hf))) as [A B].
           split; [exact A|]. split; intros; exact B.
        -- apply TS_quiet. 2: apply quiet_nil. eapply queue_only_T. exact HR. 2: discriminate. eapply tv_trans. exact R1. tv_same.
  - (* PcCloseOnlyWait *) destruct (woken s w) eqn:Hwk; cbn [negb]. 2: apply TS_quiet; [exact HT | apply quiet_nil].
    destruct (woken_head _ _ _ (m_wq _ _ HM) Hwk) as (Hl & _).
    destruct (Hclose w ltac:(discriminate) Hl) as [A B]. split; [exact A|]. split; intros; exact B.
  - apply TS_quiet; [exact HT | apply quiet_nil].
Qed.

(* ---------------------------------------------------------------- all callbacks, all events *)
Lemma pop_T x s c tl : T x s -> s_ready s = c :: tl -> T x (s <| s_ready := tl |>).
Proof.
  intros HT Hr. constructor; cbn.
  - apply (t_ref _ _ HT).
  - apply (t_cw _ _ HT).
  - apply (t_fresh _ _ HT).
  - apply (t_cwfresh _ _ HT).
  - intros pre t post Hs. assert (E : s_ready s = (c :: pre) ++ CbConnMade t :: post) by (rewrite Hr, Hs; reflexivity).
    destruct (t_cm _ _ HT _ _ _ E) as (A & B & C & D). split; auto. split; auto. intros Hin. apply B. right. exact Hin.
  - intros t Hin. apply (t_fatal _ _ HT t). rewrite Hr. right. exact Hin.
  - apply (t_udp _ _ HT).
Qed.

(* the same transport view *)
Lemma T_same x s s' : s_kind s' = s_kind s -> s_tr s' = s_tr s -> s_transport s' = s_transport s -> s_ready s' = s_ready s ->
  s_tasks s' = s_tasks s -> T x s -> T x s'.
Proof.
  intros H1 H2 H3 H4 H5 HT.
  assert (Hpc : forall k, pc_of s' k = pc_of s k) by (intros; unfold pc_of; rewrite H5; reflexivity).
  assert (Hts : forall t, tstate_of s' t = tstate_of s t) by (intros; unfold tstate_of; rewrite H2; reflexivity).
  assert (Hop : forall t, open s' t = open s t) by (intros; unfold open; rewrite Hts; reflexivity).
  constructor.
  - intros t Ho. rewrite Hop in Ho. rewrite H3. destruct (t_ref _ _ HT t Ho) as [H|(k & Hk & Hp)]; auto. right. exists k. rewrite Hpc. auto.
  - intros k t Hk Hp t0 Ht0 Ho. rewrite Hpc in Hp. rewrite H3 in Ht0. rewrite Hop in Ho. eapply (t_cw _ _ HT); eauto.
  - intros t Ht. rewrite H2. rewrite H3 in Ht. apply (t_fresh _ _ HT); auto.
  - intros k t Hk Hp. rewrite H2. rewrite Hpc in Hp. eapply (t_cwfresh _ _ HT); eauto.
  - intros pre t post Hs. rewrite H4 in Hs. destruct (t_cm _ _ HT _ _ _ Hs) as (A & B & C & k & post' & D & U).
    rewrite H2. split; auto. split; auto. split; auto. exists k, post'. split; auto. rewrite H1, Hts, H3, Hpc. exact U.
  - intros t Hin. rewrite H4 in Hin. rewrite H1. eapply (t_fatal _ _ HT); eauto.
  - unfold udp_flags. rewrite H1, H5. apply (t_udp _ _ HT).
Qed.

Lemma mutex_connwait s k1 t1 k2 t2 : M None s -> pc_of s k1 = Some (PcConnWait t1) -> pc_of s k2 = Some (PcConnWait t2) -> k1 = k2 /\ t1 = t2.
Proof.
  intros HM H1 H2. destruct (m_cs _ _ HM k1 _ ltac:(discriminate) H1 eq_refl) as [_ O1].
  destruct (m_cs _ _ HM k2 _ ltac:(discriminate) H2 eq_refl) as [_ O2]. assert (k1 = k2) by congruence. subst. split; auto. congruence.
Qed.

Lemma open_set_up s t t' : tstate_of s t = TNew ->
  open (s <| s_tr := set_nth t TUp (s_tr s) |>) t' = open s t' /\
  (t' <> t -> tstate_of (s <| s_tr := set_nth t TUp (s_tr s) |>) t' = tstate_of s t').
Proof.
  intros Hn. unfold open, tstate_of in *. cbn. destruct (nth_set_nth_cases t t' TUp TGone (s_tr s)) as [H|(-> & _ & H)].
  - rewrite H. split; auto.
  - rewrite H, Hn. split; auto. congruence.
Qed.

(* connection_made: the head of the ready queue *)
Lemma connmade_T s t tl : T None s -> M None s -> s_ready s = CbConnMade t :: tl ->
  T None (fst (run_cb (s <| s_ready := tl |>) (CbConnMade t))).
Proof.
  intros HT HM Hr. pose proof (pop_T _ _ _ _ HT Hr) as HT1.
  destruct (t_cm _ _ HT [] t tl Hr) as (A & _ & C & k & post' & D & U).
  set (s1 := s <| s_ready := tl |>) in *. cbn [run_cb fst].
  set (s2 := match tstate_of s1 t with TNew => s1 <| s_tr := set_nth t TUp (s_tr s1) |> | _ => s1 end).
  assert (Hop : forall t', open s2 t' = open s1 t').
  { intros t'. unfold s2. destruct (tstate_of s1 t) eqn:E; auto. apply (open_set_up s1 t t' E). }
  assert (Hts : forall t', t' <> t -> tstate_of s2 t' = tstate_of s1 t').
  { intros t' Hn. unfold s2. destruct (tstate_of s1 t) eqn:E; auto. apply (open_set_up s1 t t' E). exact Hn. }
  assert (Hlen : length (s_tr s2) = length (s_tr s1)).
  { unfold s2. destruct (tstate_of s1 t); auto. cbn. apply set_nth_length. }
  assert (Hf2 : s_kind s2 = s_kind s1 /\ s_transport s2 = s_transport s1 /\ s_ready s2 = s_ready s1 /\ s_tasks s2 = s_tasks s1).
  { unfold s2. destruct (tstate_of s1 t); auto. }
  destruct Hf2 as (K2 & P2 & R2 & T2).
  assert (Hpc : forall k', pc_of s2 k' = pc_of s1 k') by (intros; unfold pc_of; rewrite T2; reflexivity).
  rewrite K2. destruct (s_kind s1) eqn:Ek.
  - (* UDP: self._transport = transport *)
    destruct (U Ek) as (U1 & U2 & U3). specialize (U2 ltac:(discriminate)).
    change (pc_of s1 k = Some (PcConnWait t)) in U2. change (s_transport s1 <> Some t) in U3.
    set (s3 := s2 <| s_transport := Some t |>).
    assert (Hop3 : forall t', open s3 t' = open s1 t') by (intros; rewrite <- Hop; reflexivity).
    assert (Hts3 : forall t', t' <> t -> tstate_of s3 t' = tstate_of s1 t') by (intros; rewrite <- Hts by auto; reflexivity).
    assert (Hpc3 : forall k', pc_of s3 k' = pc_of s1 k') by (intros; rewrite <- Hpc; reflexivity).
    assert (Hlen3 : length (s_tr s3) = length (s_tr s1)) by exact Hlen.
    assert (Htp3 : s_transport s3 = Some t) by reflexivity.
    assert (Hrd3 : s_ready s3 = s_ready s1) by exact R2.
    assert (Hkd3 : s_kind s3 = UDP) by exact K2.
    assert (Htk3 : s_tasks s3 = s_tasks s1) by exact T2.
    clearbody s3.
    constructor.
    + intros t' Ho. rewrite Hop3 in Ho. rewrite Htp3. destruct (t_ref _ _ HT1 t' Ho) as [H|(k' & Hk' & Hp)].
      * left. f_equal. symmetry. apply (t_cw _ _ HT1 k t ltac:(discriminate) U2 t' H Ho).
      * right. exists k'. rewrite Hpc3. auto.
    + intros k1 t1 _ Hp t0 Ht0 Ho. rewrite Htp3 in Ht0. injection Ht0 as <-. rewrite Hpc3 in Hp.
      destruct (mutex_connwait s k1 t1 k t HM Hp U2) as [_ ->]. reflexivity.
    + intros t0 Ht0. rewrite Htp3 in Ht0. injection Ht0 as <-. rewrite Hlen3. exact A.
    + intros k1 t1 _ Hp. rewrite Hlen3. rewrite Hpc3 in Hp. eapply (t_cwfresh _ _ HT1); eauto. discriminate.
    + intros pre t' post Hs. rewrite Hrd3 in Hs. destruct (t_cm _ _ HT1 _ _ _ Hs) as (A' & B' & C' & k0 & p0 & D' & U').
      assert (Hne : t' <> t). { intros ->. apply C. change (s_ready s1) with tl in Hs. rewrite Hs. apply in_or_app. right. left. reflexivity. }
      rewrite Hlen3. split; auto. split; auto. split; auto. exists k0, p0. split; auto. intros _. destruct (U' Ek) as (V1 & V2 & V3).
      split. rewrite Hts3 by auto. exact V1. split. rewrite Hpc3. exact V2. rewrite Htp3. congruence.
    + intros t' Hin. rewrite Hrd3 in Hin. exfalso. pose proof (t_fatal _ _ HT1 t' Hin). congruence.
    + unfold udp_flags. rewrite Htk3. intros _. apply (t_udp _ _ HT1). exact Ek.
  - (* TCP: the transport is established, the protocol object does not reference it yet *)
    constructor.
    + intros t' Ho. rewrite Hop in Ho. rewrite P2. destruct (t_ref _ _ HT1 t' Ho) as [H|(k' & Hk' & Hp)]; auto. right. exists k'. rewrite Hpc. auto.
    + intros k1 t1 Hk1 Hp t0 Ht0 Ho. rewrite Hpc in Hp. rewrite P2 in Ht0. rewrite Hop in Ho. eapply (t_cw _ _ HT1); eauto.
    + intros t0 Ht0. rewrite Hlen. rewrite P2 in Ht0. apply (t_fresh _ _ HT1); auto.
    + intros k1 t1 Hk1 Hp. rewrite Hlen. rewrite Hpc in Hp. eapply (t_cwfresh _ _ HT1); eauto.
    + intros pre t' post Hs. rewrite R2 in Hs. destruct (t_cm _ _ HT1 _ _ _ Hs) as (A' & B' & C' & k0 & p0 & D' & U').
      rewrite Hlen. split; auto. split; auto. split; auto. exists k0, p0. split; auto. rewrite K2. intros Hu. discriminate.
    + intros t' Hin. rewrite R2 in Hin. rewrite K2. reflexivity.
    + unfold udp_flags. rewrite K2. intros Hu. discriminate.
Qed.

Lemma set_gone_tv x s t : tstate_of s t = TClosing -> tv x s (s <| s_tr := set_nth t TGone (s_tr s) |>).
Proof.
  intros E. constructor; cbn; auto.
  - apply set_nth_length.
  - intros t'. unfold tstate_of, open. cbn. destruct (nth_set_nth_cases t t' TGone TGone (s_tr s)) as [H|(-> & _ & H)]. auto.
    right. unfold tstate_of. cbn. rewrite H. split; auto. unfold tstate_of in E. rewrite E. discriminate.
  - exists []. rewrite app_nil_r. auto.
Qed.

Lemma quiet_noreport a : (forall x, In x a -> x = ALoopExc \/ exists t, x = AClose t) -> quiet a.
Proof. intros H x Hin. destruct (H x Hin) as [->|(t & ->)]; split; discriminate. Qed.

Lemma timeout_mechanism_quiet s : quiet (snd (timeout_mechanism s)).
Proof.
  unfold timeout_mechanism. destruct (s_kind s), (s_fut s) as [f|]; try destruct (pending s f); cbn [snd];
    try apply quiet_nil; apply quiet_one; discriminate.
Qed.

Lemma received_quiet s id len v : quiet (snd (received s id len v)).
Proof.
  unfold received. destruct (negb (s_cmd s)). apply quiet_one; discriminate. cbv zeta.
  destruct (match s_partial _ with Some _ => _ | None => _ end) as [[data dlen] s1].
  destruct v.
  - destruct (s_fut _) as [f|]. destruct (pending _ f); apply quiet_nil. apply quiet_one; discriminate.
  - destruct (s_kind s1). apply quiet_nil. destruct (s_fut s1) as [f|]. destruct (pending s1 f); apply quiet_nil. apply quiet_one; discriminate.
  - apply quiet_nil.
  - apply quiet_nil.
Qed.

Lemma TS_tv s s' a : T None s -> tv None s s' -> quiet a -> TS s (s', a).
Proof. intros HT R Hq. apply TS_quiet; auto. eapply T_tv; eauto. Qed.

Lemma run_cb_TS s c : M None s -> T None s -> (forall t, c = CbFatal t -> s_kind s = TCP) -> (forall t, c <> CbConnMade t) -> TS s (run_cb s c).
Proof.
  intros HM HT Hfat Hcm. destruct c; cbn [run_cb].
  - apply task_step_TS; auto.
  - exfalso. eapply Hcm; eauto.
  - apply TS_quiet; auto. apply quiet_nil.
  - destruct (get_task k (s_tasks s)) as [tk|]. 2: { apply TS_quiet; auto. apply quiet_nil. }
    destruct (t_pc tk); try (apply TS_quiet; [exact HT | apply quiet_nil]).
    destruct (_ || _). apply TS_quiet; auto. apply quiet_nil. apply TS_tv; auto. apply push_tv. reflexivity. apply quiet_nil.
  - destruct (tstate_of s t) eqn:Et; try (apply TS_quiet; [exact HT | apply quiet_nil]). destruct i.
    + apply TS_tv; auto. apply received_tv. apply received_quiet.
    + apply TS_tv; auto. 2: apply quiet_nil. cbn [fst]. pose proof (close_transport_tv None s) as R1.
      eapply tv_trans. exact R1. apply tr_close_tv. intros Hn. exfalso.
      destruct (tv_tr _ _ _ R1 t) as [E|[O _]]. congruence. unfold open in O. rewrite Hn in O. discriminate.
  - apply TS_tv; auto. apply timeout_mechanism_tv. apply timeout_mechanism_quiet.
  - destruct (mem_nat h (s_handles s)). 2: { apply TS_quiet; auto. apply quiet_nil. }
    apply TS_tv; auto. 2: apply timeout_mechanism_quiet. eapply tv_trans. 2: apply timeout_mechanism_tv. tv_same.
  - destruct (tstate_of s t) eqn:Et; try (apply TS_quiet; [exact HT | apply quiet_nil]).
    apply TS_tv; auto. 2: apply quiet_one; discriminate. cbn [fst]. eapply tv_trans. apply set_gone_tv. exact Et. apply close_transport_tv.
  - destruct (tstate_of s t); try (apply TS_quiet; [exact HT | apply quiet_nil]).
    apply TS_tv; auto. apply error_received_tv. apply error_received_quiet.
  - apply TS_tv; auto. 2: apply quiet_nil. apply tr_close_tv. intros _. right. eapply Hfat; eauto.
  - destruct (get_task k (s_tasks s)) as [tk|] eqn:Hgk. 2: { apply TS_quiet; auto. apply quiet_nil. }
    destruct (t_wf tk) eqn:Ewf. 2: { apply TS_quiet; auto. apply quiet_nil. }
    assert (Hk : s_kind s = UDP -> False).
    { intros Hu. destruct (t_udp _ _ HT Hu k tk Hgk) as [_ H]. congruence. }
    destruct (t_pc tk); try (apply TS_quiet; [exact HT | apply quiet_nil]);
      (cbv zeta; apply TS_tv; auto; [|apply quiet_nil]; cbn [fst];
       match goal with |- context [upd_task s k ?f] =>
         assert (Ru : tv None s (upd_task s k f)) by (apply upd_task_tv_all; [reflexivity | intros ? Hu; exfalso; auto]) end;
       destruct (has_task k (s_ready s)); [exact Ru | eapply tv_trans; [exact Ru | apply push_tv; reflexivity]]).
Qed.

Lemma push_fatal_T x s t : s_kind s = TCP -> T x s -> T x (push s (CbFatal t)).
Proof.
  intros Hk HT. constructor; cbn.
  - apply (t_ref _ _ HT).
  - apply (t_cw _ _ HT).
  - apply (t_fresh _ _ HT).
  - apply (t_cwfresh _ _ HT).
  - intros pre t' post Hs. assert (Hn : ~ In (CbConnMade t') [CbFatal t]) by (intros [H|[]]; discriminate).
    destruct (split_app_left _ _ _ _ _ Hs Hn) as (post0 & E1 & E2).
    destruct (t_cm _ _ HT _ _ _ E1) as (A & B & C & k & post' & D & U).
    split; auto. split; auto. split. { rewrite E2. intros Hin. apply in_app_or in Hin. destruct Hin; auto. }
    exists k, (post' ++ [CbFatal t]). split. rewrite E2, D. reflexivity. intros Hu. congruence.
  - intros _ _. exact Hk.
  - apply (t_udp _ _ HT).
Qed.

Lemma new_task_T s k p : T None s -> get_task k (s_tasks s) = None -> (forall t, p <> PcConnWait t) ->
  T None (push (s <| s_tasks := s_tasks s ++ [(k, mkTask p 0 false false)] |>) (CbTask k)).
Proof.
  intros HT Hk Hp.
  set (s1 := s <| s_tasks := s_tasks s ++ [(k, mkTask p 0 false false)] |>).
  assert (Hpc : forall k', pc_of s1 k' = if Nat.eqb k' k then Some p else pc_of s k').
  { intros k'. unfold pc_of, s1. cbn. rewrite (get_task_app_new _ _ _ Hk). destruct (Nat.eqb k' k); reflexivity. }
  assert (Hold : forall k' q, pc_of s k' = Some q -> pc_of s1 k' = Some q).
  { intros k' q H. rewrite Hpc. destruct (Nat.eqb_spec k' k) as [->|]; auto. unfold pc_of in H. rewrite Hk in H. discriminate. }
  assert (Hnew : forall k' t, pc_of s1 k' = Some (PcConnWait t) -> pc_of s k' = Some (PcConnWait t)).
  { intros k' t H. rewrite Hpc in H. destruct (Nat.eqb k' k); auto. injection H as H. exfalso. eapply Hp; eauto. }
  assert (HT1 : T None s1).
  { constructor.
    - intros t Ho. destruct (t_ref _ _ HT t Ho) as [H|(k' & Hk' & Hq)]; auto. right. exists k'. split; auto.
    - intros k1 t _ Hq. apply (t_cw _ _ HT k1 t). discriminate. auto.
    - apply (t_fresh _ _ HT).
    - intros k1 t _ Hq. apply (t_cwfresh _ _ HT k1 t). discriminate. auto.
    - intros pre t post Hs. destruct (t_cm _ _ HT _ _ _ Hs) as (A & B & C & k0 & post' & D & U).
      split; auto. split; auto. split; auto. exists k0, post'. split; auto. intros Hu. destruct (U Hu) as (U1 & U2 & U3).
      split; auto.
    - apply (t_fatal _ _ HT).
    - intros Hu k' tk' Hg. unfold s1 in Hg. cbn in Hg. rewrite (get_task_app_new _ _ _ Hk) in Hg. destruct (Nat.eqb k' k).
      injection Hg as <-. auto. eapply (t_udp _ _ HT); eauto. }
  eapply T_tv. 2: exact HT1. apply push_tv. reflexivity.
Qed.

Lemma nth_map_fix {A} (f : A -> A) d l t : f d = d -> nth t (map f l) d = f (nth t l d).
Proof. intros H. revert t. induction l as [|x l IH]; intros [|t]; cbn; auto. Qed.

Lemma ofree_same_pcs k s s' : (forall k', pc_of s' k' = pc_of s k') -> ofree k s -> ofree k s'.
Proof. intros H Hf k' p Hn Hp. rewrite H in Hp. eapply Hf; eauto. Qed.

Lemma step_TS s e r : M None s -> T None s -> step s e = Some r -> TS s r.
Proof.
  intros HM HT. destruct e; cbn [step]; intros H;
    repeat match type of H with
    | context [match ?x with _ => _ end] => destruct x eqn:?; try discriminate
    end; try (injection H as <-).
  - (* EvPop *) set (s1 := s <| s_ready := l |>).
    assert (L : lsame None s s1) by (constructor; cbn; auto).
    assert (Hcm : (exists t, c = CbConnMade t) \/ forall t, c <> CbConnMade t) by (destruct c; eauto; right; discriminate).
    destruct Hcm as [(t0 & ->)|Hcm].
    + apply TS_quiet. 2: apply quiet_nil. apply connmade_T; auto.
    + assert (HS : TS s1 (run_cb s1 c)).
      { apply run_cb_TS; auto. eapply M_lsame; eauto. eapply pop_T; eauto.
        intros t0 ->. apply (t_fatal _ _ HT t0). rewrite Heql. left. reflexivity. }
      destruct HS as (A & B & C). split; [exact A|]. split; [exact B|]. intros k0 Hin Hor. apply (C k0 Hin). exact Hor.
  - apply TS_tv; auto. apply push_tv. reflexivity. apply quiet_nil.
  - apply TS_tv; auto. apply push_tv. reflexivity. apply quiet_nil.
  - apply TS_tv; auto. apply push_tv. reflexivity. apply quiet_nil.
  - apply TS_tv; auto. apply push_tv. reflexivity. apply quiet_nil.
  - apply TS_quiet. 2: apply quiet_nil. apply push_fatal_T; auto.
  - apply TS_quiet. 2: apply quiet_nil.
    eapply T_same. 6: apply (new_task_T s k PcStart HT Heqo); discriminate. all: reflexivity.
  - apply TS_quiet. 2: apply quiet_nil. apply (new_task_T s k PcCloseStart HT Heqo). discriminate.
  - apply TS_quiet. 2: apply quiet_nil. eapply T_same. 6: exact HT. all: reflexivity.
  - apply TS_tv; auto. tv_same. apply quiet_nil.
  - (* EvNewLoop *) apply TS_quiet. 2: apply quiet_nil.
    assert (Hno : forall t, open (s <| s_loop := S (s_loop s) |> <| s_ready := [] |> <| s_handles := [] |>
                <| s_tr := map (fun y => match y with TNew | TUp | TClosing => TOrphan | z => z end) (s_tr s) |>) t = false).
    { intros t. unfold open, tstate_of. cbn. rewrite nth_map_fix by reflexivity. destruct (nth t (s_tr s) TGone); reflexivity. }
    constructor.
    + intros t Ho. rewrite Hno in Ho. discriminate.
    + intros k t _ _ t0 _ Ho. rewrite Hno in Ho. discriminate.
    + intros t Ht. cbn. rewrite map_length. apply (t_fresh _ _ HT). exact Ht.
    + intros k t _ Hp. cbn. rewrite map_length. apply (t_cwfresh _ _ HT k t). discriminate. exact Hp.
    + intros pre t post Hs. cbn in Hs. destruct pre; discriminate.
    + intros t [].
    + apply (t_udp _ _ HT).
Qed.

Lemma init_T kd ka r : T None (init kd ka r).
Proof.
  constructor; cbn.
  - intros t Ho. unfold open, tstate_of in Ho. cbn in Ho. destruct t; discriminate.
  - intros k t _ Hp. discriminate.
  - discriminate.
  - intros k t _ Hp. discriminate.
  - intros pre t post Hs. destruct pre; discriminate.
  - intros t [].
  - intros _ k tk Hg. discriminate.
Qed.

Lemma run_MT es : forall s s' acts, M None s -> T None s -> run s es = Some (s', acts) -> M None s' /\ T None s'.
Proof.
  induction es as [|e es IH]; intros s s' acts HM HT H; cbn [run] in H.
  - injection H as <- <-. auto.
  - destruct (step s e) as [[s1 a1]|] eqn:Es; try discriminate.
    destruct (run s1 es) as [[s2 a2]|] eqn:Er; try discriminate. injection H as <- <-.
    eapply IH. 3: exact Er. exact (proj1 (step_SQ _ _ _ HM Es)). exact (proj1 (step_TS _ _ _ HM HT Es)).
Qed.

(* ---------------------------------------------------------------- the theorems *)
(* every open transport is referenced by the protocol object or is being connected by the task in the critical section *)
Theorem open_transport_is_referenced es kd ka r s acts : run (init kd ka r) es = Some (s, acts) ->
  forall t, open s t = true -> s_transport s = Some t \/ exists k, pc_of s k = Some (PcConnWait t).
Proof.
  intros H t Ho. destruct (run_MT es _ _ _ (init_M kd ka r) (init_T kd ka r) H) as [_ HT].
  destruct (t_ref _ _ HT t Ho) as [E|(k & _ & Hp)]; eauto.
Qed.

(* at most one transport is open, in every state of every run *)
Theorem at_most_one_open_transport es kd ka r s acts : run (init kd ka r) es = Some (s, acts) ->
  forall t1 t2, open s t1 = true -> open s t2 = true -> t1 = t2.
Proof.
  intros H t1 t2 H1 H2. destruct (run_MT es _ _ _ (init_M kd ka r) (init_T kd ka r) H) as [HM HT].
  destruct (t_ref _ _ HT t1 H1) as [E1|(k1 & _ & P1)]; destruct (t_ref _ _ HT t2 H2) as [E2|(k2 & _ & P2)].
  - congruence.
  - apply (t_cw _ _ HT k2 t2 ltac:(discriminate) P2 t1 E1 H1).
  - symmetry. apply (t_cw _ _ HT k1 t1 ltac:(discriminate) P1 t2 E2 H2).
  - apply (mutex_connwait s k1 t1 k2 t2 HM P1 P2).
Qed.

(* with keep-alive off nothing is open once a request has reported *)
Theorem nothing_open_after_request es kd ka r s acts e s' acts' :
  run (init kd ka r) es = Some (s, acts) -> step s e = Some (s', acts') ->
  s_ka s = false -> forall k o, In (ADone k o) acts' -> forall t, open s' t = false.
Proof.
  intros H Hs Hka k o Hin. destruct (run_MT es _ _ _ (init_M kd ka r) (init_T kd ka r) H) as [HM HT].
  destruct (step_TS _ _ _ HM HT Hs) as (_ & B & _). apply B. split; eauto.
Qed.

(* after close() nothing is open (the lock-free close() of a UDP object: when no other caller is connecting or awaiting an answer) *)
Theorem nothing_open_after_close es kd ka r s acts e s' acts' :
  run (init kd ka r) es = Some (s, acts) -> step s e = Some (s', acts') ->
  forall k, In (ACloseDone k) acts' -> s_kind s = TCP \/ (forall k' p, k' <> k -> pc_of s k' = Some p -> cs p = false) ->
  forall t, open s' t = false.
Proof.
  intros H Hs k Hin Hor. destruct (run_MT es _ _ _ (init_M kd ka r) (init_T kd ka r) H) as [HM HT].
  destruct (step_TS _ _ _ HM HT Hs) as (_ & _ & C). exact (C k Hin Hor).
Qed.

(* ---------------------------------------------------------------- non-vacuity *)
Lemma transport_opens_example :
  option_map (fun r => (open (fst r) 0, s_transport (fst r), snd r)) (run (init UDP false 1) ([EvCall 0] ++ repeat EvPop 2)) =
  Some (true, Some 0, [AOpen 0]).
Proof. vm_compute. reflexivity. Qed.

Lemma transport_closed_example :
  option_map (fun r => (open (fst r) 0, open (fst r) 1, s_transport (fst r))) (run (init UDP false 1) two_callers) = Some (false, false, None).
Proof. vm_compute. reflexivity. Qed.

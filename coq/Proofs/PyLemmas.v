(* Generic lemmas about the Python prelude, used by the proofs over generated code. *)
From Coq Require Import ZArith List Bool Lia.
From GW Require Import Prelude.
Import ListNotations.
Open Scope Z_scope.

Lemma is_byte_iff x : is_byte x = true <-> 0 <= x < 256.
Proof. unfold is_byte. lia. Qed.

Lemma py_setitem_ok b i v :
  is_byte v = true -> 0 <= i < blen b -> py_setitem b i v = Ok (set_nth (Z.to_nat i) v b).
Proof.
  intros Hv Hi. unfold py_setitem, norm_idx. rewrite Hv. simpl.
  replace (i <? 0) with false by lia. replace ((0 <=? i) && (i <? blen b)) with true by lia. reflexivity.
Qed.

Lemma py_append_ok b v : is_byte v = true -> py_append b v = Ok (b ++ [v]).
Proof. intros H. unfold py_append. now rewrite H. Qed.

Lemma py_index_ok b i : 0 <= i < blen b -> py_index b i = Ok (nth (Z.to_nat i) b 0).
Proof.
  intros Hi. unfold py_index, norm_idx.
  replace (i <? 0) with false by lia. replace ((0 <=? i) && (i <? blen b)) with true by lia. reflexivity.
Qed.

Lemma py_index_neg b i : - blen b <= i < 0 -> py_index b i = Ok (nth (Z.to_nat (i + blen b)) b 0).
Proof.
  intros Hi. unfold py_index, norm_idx.
  replace (i <? 0) with true by lia.
  replace ((0 <=? i + blen b) && (i + blen b <? blen b)) with true by lia. reflexivity.
Qed.

Lemma blen_app {A} (a b : list A) : blen (a ++ b) = blen a + blen b.
Proof. unfold blen. rewrite app_length. lia. Qed.

Lemma blen_nonneg {A} (a : list A) : 0 <= blen a.
Proof. unfold blen. lia. Qed.

Lemma blen_cons {A} (x : A) l : blen (x :: l) = 1 + blen l.
Proof. unfold blen. simpl length. lia. Qed.

Lemma blen_nil {A} : blen (@nil A) = 0.
Proof. reflexivity. Qed.

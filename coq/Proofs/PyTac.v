(* Small tactic library for proofs over translated code. *)
From Coq Require Import ZArith List Bool Lia.
From GW Require Import Prelude PyLemmas BitLemmas CrcTable.
Import ListNotations.
Open Scope Z_scope.

Ltac norm_nat :=
  repeat match goal with
  | |- context [Z.to_nat ?z] =>
    lazymatch z with Z0 => idtac | Zpos _ => idtac end;
    let n := eval compute in (Z.to_nat z) in change (Z.to_nat z) with n
  end.

Lemma land_255_range x : 0 <= Z.land x 255 < 256.
Proof. rewrite land_255. apply Z.mod_pos_bound. lia. Qed.

Lemma bytesP_cons x l : 0 <= x < 256 -> bytesP l -> bytesP (x :: l).
Proof. intros. constructor; auto. Qed.

Lemma bytesP_app a b : bytesP a -> bytesP b -> bytesP (a ++ b).
Proof. intros. apply Forall_app. split; auto. Qed.

Ltac byte_side := first [ assumption | apply land_255_byte | reflexivity | (apply is_byte_iff; lia) ].
Ltac idx_side := unfold blen; simpl List.length; lia.
Ltac py_set :=
  rewrite py_setitem_ok by (first [byte_side | idx_side]);
  norm_nat; cbn [bind set_nth].
Ltac py_app := rewrite py_append_ok by byte_side; cbn [bind app].
Ltac bytesP_solve :=
  repeat first [ apply bytesP_cons; [first [assumption | apply land_255_range | lia]|]
               | apply Forall_nil | assumption | apply bytesP_app ].

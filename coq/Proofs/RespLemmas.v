(* Lemmas connecting the Python prelude (py_index, py_slice, blen) with the list vocabulary of
   Spec/Responses.v. *)
From Coq Require Import ZArith List Bool Lia String.
From GW Require Import Prelude PyLemmas Crc16 Frames Responses BitLemmas ModbusGen CrcTable.
Import ListNotations.
Open Scope Z_scope.

Lemma blen_llen {A} (l : list A) : blen l = llen l.
Proof. reflexivity. Qed.

Lemma py_index_nthZ b i : 0 <= i < blen b -> py_index b i = Ok (nthZ b i).
Proof. intros H. rewrite py_index_ok by assumption. reflexivity. Qed.

Lemma py_index_fail b i : blen b <= i -> py_index b i = Exc EIndex.
Proof.
  intros H. unfold py_index, norm_idx. pose proof (blen_nonneg b).
  replace (i <? 0) with false by lia. replace ((0 <=? i) && (i <? blen b)) with false by lia. reflexivity.
Qed.

Lemma py_slice_sub (b : list Z) lo hi :
  0 <= lo -> lo <= hi -> hi <= blen b -> py_slice b (Some lo) (Some hi) = sub b lo hi.
Proof.
  intros H1 H2 H3. unfold py_slice, sub, clamp_idx, norm_idx.
  replace (lo <? 0) with false by lia. replace (hi <? 0) with false by lia.
  replace (Z.max 0 (Z.min (blen b) lo)) with lo by lia.
  replace (Z.max 0 (Z.min (blen b) hi)) with hi by lia. reflexivity.
Qed.

Lemma bytesP_firstn n l : bytesP l -> bytesP (firstn n l).
Proof. revert l; induction n; intros l H; simpl. constructor. destruct l. constructor. inversion H; subst. constructor; auto. apply IHn; auto. Qed.

Lemma bytesP_skipn n l : bytesP l -> bytesP (skipn n l).
Proof. revert l; induction n; intros l H; simpl. auto. destruct l. constructor. inversion H; subst. apply IHn; auto. Qed.

Lemma bytesP_sub l a b : bytesP l -> bytesP (sub l a b).
Proof. intros. unfold sub. apply bytesP_firstn, bytesP_skipn; auto. Qed.

Lemma bytesP_py_slice l lo hi : bytesP l -> bytesP (py_slice l lo hi).
Proof. intros. unfold py_slice. apply bytesP_firstn, bytesP_skipn; auto. Qed.

Lemma bytesP_nthZ l i : bytesP l -> 0 <= nthZ l i < 256.
Proof.
  intros H. unfold nthZ. destruct (Nat.lt_ge_cases (Z.to_nat i) (List.length l)) as [Hl|Hl].
  - unfold bytesP in H. rewrite Forall_forall in H. apply H. apply nth_In. exact Hl.
  - rewrite nth_overflow by exact Hl. lia.
Qed.

Lemma checksum_any data : exists c, _modbus_checksum data = Ok c.
Proof.
  unfold _modbus_checksum.
  generalize 65535. induction data as [|x xs IH]; intros c; cbn [py_for bind].
  - eexists; reflexivity.
  - assert (H : 0 <= Z.land (Z.lxor c x) 255 < 256).
    { rewrite land_255. apply Z.mod_pos_bound. lia. }
    rewrite table_index by exact H. cbn [bind].
    destruct (IH (Z.lxor (Z.shiftr c 8) (iter8 (Z.land (Z.lxor c x) 255)))) as (r & Hr).
    destruct (py_for xs _ _) eqn:E; cbn [bind] in *; [eexists; reflexivity | discriminate].
Qed.

(* nth over an explicit prefix *)
Lemma nthZ_app_r (a b : list Z) i : llen a <= i -> nthZ (a ++ b) i = nthZ b (i - llen a).
Proof.
  intros H. unfold nthZ, llen in *. rewrite app_nth2 by lia. f_equal. lia.
Qed.

Lemma nthZ_app_l (a b : list Z) i : 0 <= i < llen a -> nthZ (a ++ b) i = nthZ a i.
Proof. intros H. unfold nthZ, llen in *. rewrite app_nth1 by lia. reflexivity. Qed.

Lemma sub_app_exact (p a b : list Z) : sub (p ++ a ++ b) (llen p) (llen p + llen a) = a.
Proof.
  unfold sub, llen. replace (Z.to_nat (Z.of_nat (List.length p) + Z.of_nat (List.length a) - Z.of_nat (List.length p))) with (List.length a) by lia.
  rewrite Nat2Z.id. rewrite skipn_app, skipn_all, Nat.sub_diag. simpl.
  rewrite firstn_app, firstn_all, Nat.sub_diag. simpl. apply app_nil_r.
Qed.

Lemma llen_app {A} (a b : list A) : llen (a ++ b) = llen a + llen b.
Proof. unfold llen. rewrite app_length. lia. Qed.

Lemma llen_cons {A} (x : A) l : llen (x :: l) = 1 + llen l.
Proof. unfold llen. simpl List.length. lia. Qed.

Lemma llen_nonneg {A} (l : list A) : 0 <= llen l.
Proof. unfold llen. lia. Qed.

Lemma crc_bytes body : bytesP body ->
  0 <= crc16 body mod 256 < 256 /\ 0 <= crc16 body / 256 < 256 /\
  crc16 body mod 256 + 256 * (crc16 body / 256) = crc16 body.
Proof.
  intros H. pose proof (crc16_range body H) as Hc.
  repeat split; try (apply Z.mod_pos_bound; lia); try (apply Z.div_pos; lia); try (apply Z.div_lt_upper_bound; lia).
  pose proof (Z.div_mod (crc16 body) 256 ltac:(lia)). lia.
Qed.

(* two consecutive bytes *)
Lemma sub_two (l : list Z) a : 0 <= a -> a + 2 <= llen l -> sub l a (a + 2) = [nthZ l a; nthZ l (a + 1)].
Proof.
  intros H0 H. unfold sub, nthZ, llen in *. replace (Z.to_nat (a + 2 - a)) with 2%nat by lia.
  replace (Z.to_nat (a + 1)) with (S (Z.to_nat a)) by lia.
  assert (Hn : (Z.to_nat a + 2 <= List.length l)%nat) by lia. clear H H0.
  generalize dependent (Z.to_nat a). intros n. revert l. induction n as [|n IH]; intros l Hn.
  - destruct l as [|x [|y l]]; simpl in *; try lia. reflexivity.
  - destruct l as [|x l]; simpl in *; try lia. apply IH. lia.
Qed.

Lemma be_unsigned_two a b : be_unsigned [a; b] = be16 a b.
Proof. unfold be_unsigned, be16. cbn [fold_left]. lia. Qed.

Lemma be_signed_two a b : 0 <= a < 256 -> 0 <= b < 256 -> be_signed [a; b] = s16 (be16 a b).
Proof.
  intros Ha Hb. unfold be_signed. rewrite be_unsigned_two. unfold s16, be16.
  change (8 * blen [a; b]) with 16. change (2 ^ (16 - 1)) with 32768. change (2 ^ 16) with 65536. reflexivity.
Qed.

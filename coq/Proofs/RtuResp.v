(* Modbus RTU response validator (generated from goodwe/modbus.py): acceptance of conforming frames
   (C02), soundness and totality (C01), partial (C07) and exception answers (C08). *)
From Coq Require Import ZArith List Bool Lia String ZifyBool.
From GW Require Import Prelude PyStr PyLemmas Crc16 Frames Responses BitLemmas ModbusGen CrcTable RespLemmas.
Import ListNotations.
Open Scope Z_scope.

Ltac idx := rewrite py_index_nthZ by (rewrite ?blen_llen, ?llen_app, ?llen_cons in *; cbn [llen List.length] in *; lia); cbn [bind].

(* ------------------------------------------------------------------ shape of conforming frames *)
Lemma rtu_frame_len (body tail : list Z) cl ch : llen ([170; 85] ++ body ++ [cl; ch] ++ tail) = llen body + 4 + llen tail.
Proof. rewrite !llen_app. unfold llen at 1 3. simpl List.length. lia. Qed.

Lemma rtu_frame_crc_at (body tail : list Z) cl ch :
  nthZ ([170; 85] ++ body ++ [cl; ch] ++ tail) (llen body + 2) = cl /\
  nthZ ([170; 85] ++ body ++ [cl; ch] ++ tail) (llen body + 3) = ch.
Proof.
  unfold nthZ, llen. split.
  - replace (Z.to_nat (Z.of_nat (List.length body) + 2)) with (S (S (List.length body))) by lia.
    cbn [app nth]. rewrite app_nth2 by lia. rewrite Nat.sub_diag. reflexivity.
  - replace (Z.to_nat (Z.of_nat (List.length body) + 3)) with (S (S (S (List.length body)))) by lia.
    cbn [app nth]. rewrite app_nth2 by lia. replace (S (List.length body) - List.length body)%nat with 1%nat by lia. reflexivity.
Qed.

Lemma rtu_frame_sub (body tail : list Z) cl ch :
  sub ([170; 85] ++ body ++ [cl; ch] ++ tail) 2 (llen body + 2) = body.
Proof.
  replace 2 with (llen [170; 85]) at 1 by reflexivity.
  replace (llen body + 2) with (llen [170; 85] + llen body) by (change (llen [170; 85]) with 2; lia).
  apply sub_app_exact.
Qed.

(* ------------------------------------------------------------------ C02: read answers *)
Lemma rtu_read_accept addr payload trailing offset count :
  0 <= addr < 256 -> bytesP payload -> llen payload = 2 * count -> 1 <= count <= 125 ->
  validate_modbus_rtu_response (rtu_read_frame addr payload ++ trailing) MODBUS_READ_CMD offset count = Ok true.
Proof.
  intros Ha Hp Hl Hc. unfold rtu_read_frame. cbv zeta.
  set (body := [addr; 3; llen payload] ++ payload).
  assert (Hb : bytesP body).
  { unfold body. apply Forall_app. split; [|exact Hp]. repeat constructor; lia. }
  destruct (crc_bytes body Hb) as (Hlo & Hhi & Hsum).
  set (cl := crc16 body mod 256) in *. set (ch := crc16 body / 256) in *.
  rewrite <- !app_assoc.
  set (f := [170; 85] ++ body ++ [cl; ch] ++ trailing).
  assert (Hlb : llen body = 2 * count + 3).
  { unfold body. rewrite llen_app. unfold llen at 1. simpl List.length. lia. }
  assert (Hlen : blen f = 2 * count + 7 + llen trailing).
  { unfold f. rewrite blen_llen, rtu_frame_len. lia. }
  pose proof (llen_nonneg trailing) as Ht.
  assert (H3 : nthZ f 3 = 3) by reflexivity.
  assert (H4 : nthZ f 4 = 2 * count) by (change (nthZ f 4) with (llen payload); exact Hl).
  destruct (rtu_frame_crc_at body trailing cl ch) as (Hcl & Hch). fold f in Hcl, Hch. rewrite Hlb in Hcl, Hch.
  replace (2 * count + 3 + 2) with (2 * count + 5) in Hcl by lia. replace (2 * count + 3 + 3) with (2 * count + 6) in Hch by lia.
  pose proof (rtu_frame_sub body trailing cl ch) as Hsub. fold f in Hsub. rewrite Hlb in Hsub. replace (2 * count + 3 + 2) with (2 * count + 5) in Hsub by lia.
  unfold validate_modbus_rtu_response, MODBUS_READ_CMD.
  replace (blen f <=? 4) with false by lia.
  rewrite !py_index_nthZ by lia. cbn [bind]. rewrite H3, H4. rewrite Z.eqb_refl.
  replace (2 * count =? count * 2) with true by lia. cbn [negb].
  replace (blen f <? 2 * count + 7) with false by lia.
  rewrite py_slice_sub by lia.
  replace (2 * count + 7 - 2) with (2 * count + 5) by lia.
  rewrite Hsub. rewrite modbus_checksum_spec by exact Hb. cbn [bind].
  rewrite !py_index_nthZ by lia. cbn [bind].
  replace (2 * count + 5 + 1) with (2 * count + 6) by lia. rewrite Hcl, Hch.
  rewrite shiftl_8. replace (crc16 body =? ch * 256 + cl) with true by lia. cbn [negb].
  reflexivity.
Qed.

(* the payload is recovered: trim_response = raw[5:-2] *)
Lemma rtu_read_trim addr payload trailing :
  firstn (List.length payload) (py_slice (rtu_read_frame addr payload ++ trailing) (Some 5) (Some (-2))) = payload /\
  (trailing = [] -> py_slice (rtu_read_frame addr payload ++ trailing) (Some 5) (Some (-2)) = payload).
Proof.
  unfold rtu_read_frame. cbv zeta.
  set (cl := crc16 _ mod 256). set (ch := crc16 _ / 256).
  assert (E : forall t, py_slice (([170; 85] ++ ([addr; 3; llen payload] ++ payload) ++ [cl; ch]) ++ t) (Some 5) (Some (-2)) =
              firstn (List.length payload + List.length t) (payload ++ [cl; ch] ++ t)).
  { intros t. unfold py_slice, clamp_idx, norm_idx.
    set (n := blen _).
    assert (Hn : n = 7 + blen payload + blen t).
    { unfold n. rewrite !blen_app. unfold blen at 1 2 4. simpl List.length. lia. }
    pose proof (blen_nonneg payload). pose proof (blen_nonneg t).
    replace (5 <? 0) with false by lia. replace (-2 <? 0) with true by lia.
    replace (Z.max 0 (Z.min n 5)) with 5 by lia. replace (Z.max 0 (Z.min n (-2 + n))) with (n - 2) by lia.
    change (Z.to_nat 5) with 5%nat. cbn [app skipn].
    rewrite <- !app_assoc. f_equal. unfold blen in Hn. lia. }
  split.
  - rewrite E. rewrite firstn_firstn. rewrite Nat.min_l by lia.
    rewrite firstn_app, firstn_all, Nat.sub_diag. simpl. apply app_nil_r.
  - intros ->. rewrite E. simpl List.length. rewrite Nat.add_0_r.
    rewrite firstn_app, firstn_all, Nat.sub_diag. simpl. apply app_nil_r.
Qed.

(* ------------------------------------------------------------------ C02: write answers *)
Lemma rtu_write_accept addr fn reg v trailing :
  0 <= addr < 256 -> fn = 6 \/ fn = 16 -> 0 <= reg < 65536 -> -32768 <= v < 32768 ->
  validate_modbus_rtu_response (rtu_write_frame addr fn reg v ++ trailing) fn reg v = Ok true.
Proof.
  intros Ha Hf Hr Hv. unfold rtu_write_frame. cbv zeta.
  set (body := [addr; fn; reg / 256; reg mod 256; u16 v / 256; u16 v mod 256]).
  assert (Hu : 0 <= u16 v < 65536) by (unfold u16; apply Z.mod_pos_bound; lia).
  assert (Hb : bytesP body).
  { unfold body. repeat constructor; try lia; try (apply Z.mod_pos_bound; lia);
      try (apply Z.div_pos; lia); try (apply Z.div_lt_upper_bound; lia). }
  destruct (crc_bytes body Hb) as (Hlo & Hhi & Hsum).
  set (cl := crc16 body mod 256) in *. set (ch := crc16 body / 256) in *.
  rewrite <- !app_assoc.
  set (f := [170; 85] ++ body ++ [cl; ch] ++ trailing).
  assert (Hlen : blen f = 10 + llen trailing).
  { unfold f. rewrite blen_llen, rtu_frame_len. unfold body. unfold llen at 1. simpl List.length. lia. }
  pose proof (llen_nonneg trailing) as Ht.
  unfold validate_modbus_rtu_response, MODBUS_READ_CMD, MODBUS_WRITE_CMD, MODBUS_WRITE_MULTI_CMD.
  replace (blen f <=? 4) with false by lia.
  rewrite !py_index_nthZ by lia. cbn [bind].
  change (nthZ f 3) with fn.
  replace (fn =? 3) with false by (destruct Hf; lia).
  replace (Zmember fn [6; 16]) with true by (destruct Hf as [-> | ->]; reflexivity).
  replace (blen f <? 10) with false by lia.
  rewrite !py_slice_sub by lia.
  change 6 with (4 + 2) at 1. rewrite sub_two by (try rewrite <- blen_llen; lia).
  change 8 with (6 + 2) at 1. rewrite sub_two by (try rewrite <- blen_llen; lia).
  change (nthZ f 4) with (reg / 256). change (nthZ f (4 + 1)) with (reg mod 256).
  change (nthZ f 6) with (u16 v / 256). change (nthZ f (6 + 1)) with (u16 v mod 256).
  unfold from_bytes_big. rewrite be_unsigned_two. rewrite be_signed_two
    by (first [apply Z.mod_pos_bound; lia | split; [apply Z.div_pos; lia | apply Z.div_lt_upper_bound; lia]]).
  unfold be16.
  replace (reg / 256 * 256 + reg mod 256) with reg by (pose proof (Z.div_mod reg 256); lia).
  rewrite Z.eqb_refl. cbn [negb].
  replace (u16 v / 256 * 256 + u16 v mod 256) with (u16 v) by (pose proof (Z.div_mod (u16 v) 256); lia).
  replace (s16 (u16 v)) with v.
  2:{ unfold s16, u16. destruct (32768 <=? v mod 65536) eqn:E.
      - assert (v < 0) by (destruct (Z.ltb_spec v 0); [assumption | rewrite Z.mod_small in E by lia; lia]).
        replace v with (v + 1 * 65536 - 65536) at 1 by lia. rewrite <- (Z.mod_small (v + 1 * 65536) 65536) at 1 by lia.
        rewrite Z.mod_add by lia. reflexivity.
      - destruct (Z.ltb_spec v 0).
        + replace (v mod 65536) with (v + 65536) in E. lia. rewrite <- (Z.mod_small (v + 65536) 65536) at 1 by lia.
          replace (v + 65536) with (v + 1 * 65536) by lia. rewrite Z.mod_add by lia. reflexivity.
        + rewrite Z.mod_small by lia. reflexivity. }
  rewrite Z.eqb_refl. cbn [negb].
  change (10 - 2) with 8.
  pose proof (rtu_frame_sub body trailing cl ch) as Hsub. fold f in Hsub. change (llen body + 2) with 8 in Hsub.
  rewrite Hsub. rewrite modbus_checksum_spec by exact Hb. cbn [bind].
  change (nthZ f (8 + 1)) with ch. change (nthZ f 8) with cl.
  rewrite shiftl_8. replace (crc16 body =? ch * 256 + cl) with true by lia. cbn [negb].
  change (nthZ f 3) with fn. rewrite Z.eqb_refl. reflexivity.
Qed.

(* ------------------------------------------------------------------ C01: totality and soundness *)
Definition documented (o : res bool) : Prop :=
  o = Ok true \/ o = Ok false \/ (exists a b, o = Exc (EPartial a b)) \/ (exists m, o = Exc (ERejected m)).

Ltac vstep :=
  match goal with
  | |- context [py_index ?d ?i] => rewrite (py_index_nthZ d i) by lia; cbn [bind]
  | |- context [_modbus_checksum ?x] =>
      rewrite (modbus_checksum_spec x) by (apply bytesP_py_slice; assumption); cbn [bind]
  | |- context [if ?c then _ else _] => let E := fresh "E" in destruct c eqn:E
  end.

Ltac doc_leaf := unfold documented; solve [auto | right; right; left; eauto | right; right; right; eauto].

Lemma rtu_total data cmd offset value : bytesP data ->
  documented (validate_modbus_rtu_response data cmd offset value).
Proof.
  intros Hb. pose proof (bytesP_nthZ data 4 Hb) as H4. pose proof (blen_nonneg data) as Hn.
  unfold validate_modbus_rtu_response, MODBUS_READ_CMD.
  destruct (blen data <=? 4) eqn:E0; [doc_leaf|].
  repeat vstep; try doc_leaf.
Qed.

Lemma rtu_sound_read data offset count : bytesP data -> 1 <= count <= 125 ->
  validate_modbus_rtu_response data MODBUS_READ_CMD offset count = Ok true -> wf_rtu_read count data.
Proof.
  intros Hb Hc. pose proof (bytesP_nthZ data 4 Hb) as H4. pose proof (blen_nonneg data) as Hn.
  unfold validate_modbus_rtu_response, MODBUS_READ_CMD, MODBUS_WRITE_CMD, MODBUS_WRITE_MULTI_CMD, wf_rtu_read.
  destruct (blen data <=? 4) eqn:E0; [discriminate|].
  rewrite (py_index_nthZ data 3) by lia. cbn [bind].
  destruct (nthZ data 3 =? 3) eqn:E3.
  - rewrite !(py_index_nthZ data 4) by lia. cbn [bind].
    destruct (negb (nthZ data 4 =? count * 2)) eqn:E4; [discriminate|].
    destruct (blen data <? nthZ data 4 + 7) eqn:E5; [discriminate|].
    rewrite modbus_checksum_spec by (apply bytesP_py_slice; assumption). cbn [bind].
    rewrite !py_index_nthZ by lia. cbn [bind].
    destruct (negb (crc16 _ =? _)) eqn:E6; [discriminate|]. intros _.
    rewrite py_slice_sub in E6 by lia. rewrite shiftl_8 in E6.
    assert (Hd4 : nthZ data 4 = 2 * count) by lia.
    rewrite Hd4 in *. rewrite <- blen_llen.
    replace (2 * count + 7 - 2) with (2 * count + 5) in E6 by lia.
    replace (2 * count + 5 + 1) with (2 * count + 6) in E6 by lia.
    repeat split; lia.
  - cbn [Zmember existsb]. rewrite ?(py_index_nthZ data 3) by lia. cbn [bind].
    destruct ((nthZ data 3 =? 6) || ((nthZ data 3 =? 16) || false)) eqn:E6.
    + repeat vstep; try discriminate; lia.
    + repeat vstep; try discriminate; lia.
Qed.

Lemma rtu_sound_write data fn reg v : bytesP data -> fn = 6 \/ fn = 16 ->
  validate_modbus_rtu_response data fn reg v = Ok true -> wf_rtu_write fn reg v data.
Proof.
  intros Hb Hf. pose proof (bytesP_nthZ data 4 Hb) as H4. pose proof (blen_nonneg data) as Hn.
  unfold validate_modbus_rtu_response, MODBUS_READ_CMD, MODBUS_WRITE_CMD, MODBUS_WRITE_MULTI_CMD, wf_rtu_write.
  destruct (blen data <=? 4) eqn:E0; [discriminate|].
  rewrite (py_index_nthZ data 3) by lia. cbn [bind].
  destruct (nthZ data 3 =? 3) eqn:E3.
  - repeat vstep; try discriminate; lia.
  - cbn [Zmember existsb]. rewrite ?(py_index_nthZ data 3) by lia. cbn [bind].
    destruct ((nthZ data 3 =? 6) || ((nthZ data 3 =? 16) || false)) eqn:E6.
    + destruct (blen data <? 10) eqn:E10; [discriminate|].
      rewrite !py_slice_sub by lia.
      change 6 with (4 + 2) at 2. rewrite sub_two by (try rewrite <- blen_llen; lia).
      change 8 with (6 + 2) at 1. rewrite sub_two by (try rewrite <- blen_llen; lia).
      unfold from_bytes_big. rewrite be_unsigned_two.
      rewrite be_signed_two by (apply bytesP_nthZ; assumption).
      destruct (negb (be16 _ _ =? reg)) eqn:Er; [discriminate|].
      destruct (negb (s16 _ =? v)) eqn:Ev; [discriminate|].
      rewrite modbus_checksum_spec by (apply bytesP_sub; assumption). cbn [bind].
      rewrite !py_index_nthZ by lia. cbn [bind].
      destruct (negb (crc16 _ =? _)) eqn:Ec; [discriminate|].
      destruct (negb (nthZ data 3 =? fn)) eqn:Efn; [discriminate|]. intros _.
      rewrite shiftl_8 in Ec. change (10 - 2) with 8 in Ec. change (8 + 1) with 9 in Ec.
      change (4 + 1) with 5 in *. change (6 + 1) with 7 in *. rewrite <- blen_llen.
      repeat split; lia.
    + repeat vstep; try discriminate; lia.
Qed.

(* ------------------------------------------------------------------ C07: a proper prefix of a read answer is 'partial' *)
Lemma rtu_partial addr payload offset count n :
  0 <= addr < 256 -> bytesP payload -> llen payload = 2 * count -> 1 <= count <= 125 ->
  5 <= n < 2 * count + 7 ->
  validate_modbus_rtu_response (firstn (Z.to_nat n) (rtu_read_frame addr payload)) MODBUS_READ_CMD offset count
  = Exc (EPartial n (2 * count + 7)).
Proof.
  intros Ha Hp Hl Hc Hn. unfold rtu_read_frame. cbv zeta.
  set (cl := crc16 _ mod 256). set (ch := crc16 _ / 256).
  set (F := [170; 85] ++ ([addr; 3; llen payload] ++ payload) ++ [cl; ch]).
  assert (HF : llen F = 2 * count + 7).
  { unfold F. rewrite !llen_app. change (llen [170; 85]) with 2. change (llen [addr; 3; llen payload]) with 3. change (llen [cl; ch]) with 2. lia. }
  set (f := firstn (Z.to_nat n) F).
  assert (Hlen : blen f = n).
  { unfold f, blen. rewrite firstn_length. unfold llen in HF. lia. }
  assert (Hnth : forall i, 0 <= i < 5 -> nthZ f i = nthZ F i).
  { intros i Hi. unfold f, nthZ. rewrite <- (firstn_skipn (Z.to_nat n) F) at 2.
    rewrite app_nth1. reflexivity. rewrite firstn_length. unfold llen in HF. lia. }
  unfold validate_modbus_rtu_response, MODBUS_READ_CMD.
  replace (blen f <=? 4) with false by lia.
  rewrite !py_index_nthZ by lia. cbn [bind]. rewrite !Hnth by lia.
  change (nthZ F 3) with 3. change (nthZ F 4) with (llen payload). rewrite Hl.
  rewrite Z.eqb_refl. replace (2 * count =? count * 2) with true by lia. cbn [negb].
  replace (blen f <? 2 * count + 7) with true by lia. rewrite Hlen. reflexivity.
Qed.

(* ------------------------------------------------------------------ C08: exception answers *)
Lemma failure_codes_spec code : opt_default (dict_get FAILURE_CODES code) "UNKNOWN"%string = modbus_reason code.
Proof.
  unfold FAILURE_CODES, ILLEGAL_DATA_ADDRESS, modbus_reason. cbn [dict_get opt_default].
  repeat match goal with |- context [?a =? ?b] => destruct (Z.eqb_spec a b); [subst; reflexivity|] end.
  destruct code as [|p|p]; try reflexivity.
  do 4 (destruct p as [p|p|]; try reflexivity; try lia).
Qed.

Lemma rtu_exception addr fn code cmd offset value trailing :
  0 <= addr < 256 -> fn = 3 \/ fn = 6 \/ fn = 16 -> cmd = 3 \/ cmd = 6 \/ cmd = 16 -> 0 <= code < 256 -> trailing = [] ->
  validate_modbus_rtu_response (rtu_exc_frame addr fn code ++ trailing) cmd offset value
  = Exc (ERejected (modbus_reason code)).
Proof.
  intros Ha Hf Hcmd Hc ->. rewrite app_nil_r. unfold rtu_exc_frame. cbv zeta.
  set (body := [addr; fn + 128; code]).
  assert (Hb : bytesP body) by (unfold body; repeat constructor; lia).
  destruct (crc_bytes body Hb) as (Hlo & Hhi & Hsum).
  set (cl := crc16 body mod 256) in *. set (ch := crc16 body / 256) in *.
  set (f := [170; 85] ++ body ++ [cl; ch]).
  assert (Hlen : blen f = 7) by reflexivity.
  unfold validate_modbus_rtu_response, MODBUS_READ_CMD, MODBUS_WRITE_CMD, MODBUS_WRITE_MULTI_CMD.
  replace (blen f <=? 4) with false by lia.
  rewrite !py_index_nthZ by lia. cbn [bind].
  change (nthZ f 3) with (fn + 128). change (nthZ f 4) with code.
  replace (fn + 128 =? 3) with false by lia.
  replace (Zmember (fn + 128) [6; 16]) with false by (cbn [Zmember existsb]; lia).
  rewrite Hlen. change (7 - 2) with 5.
  rewrite py_slice_sub by lia.
  pose proof (rtu_frame_sub body [] cl ch) as Hsub. change (llen body + 2) with 5 in Hsub.
  change ([170; 85] ++ body ++ [cl; ch] ++ []) with f in Hsub. rewrite Hsub.
  rewrite modbus_checksum_spec by exact Hb. cbn [bind].
  rewrite !py_index_nthZ by lia. cbn [bind].
  change (nthZ f (5 + 1)) with ch. change (nthZ f 5) with cl.
  rewrite shiftl_8. replace (crc16 body =? ch * 256 + cl) with true by lia. cbn [negb].
  replace (fn + 128 =? cmd) with false by lia. cbn [negb].
  rewrite failure_codes_spec. reflexivity.
Qed.

(* Schedule.read_value / EcoModeV1.read_value as translated from the current source (Gen/SharedGen.v) against the hand models read_schedule /
   read_eco_v1 of Model/Sensors.v: the run succeeds exactly when the hand model does, the definition's attributes then show the hand model's
   value, and a failing run raises the hand model's exception. *)
From Coq Require Import ZArith List Bool String Lia.
From GW Require Import Prelude PyStr PyFloat Sensors SchedDef SharedGen.
Import ListNotations.
Open Scope Z_scope.

Ltac pos_norm p :=
  replace (p + 1 + 1) with (p + 2) by lia; replace (p + 2 + 1) with (p + 3) by lia; replace (p + 3 + 1) with (p + 4) by lia;
  replace (p + 4 + 1) with (p + 5) by lia; replace (p + 5 + 1) with (p + 6) by lia; replace (p + 6 + 2) with (p + 8) by lia;
  replace (p + 8 + 2) with (p + 10) by lia; replace (p + 4 + 2) with (p + 6) by lia; replace (p + 6 + 1) with (p + 7) by lia.

Ltac step_if :=
  match goal with
  | |- context [if ?c then _ else _] =>
      match c with
      | context [s_at] => let E := fresh "E" in destruct c eqn:E
      | sched_in_range _ _ => let E := fresh "E" in destruct c eqn:E
      end
  end.

Theorem schedule_read_value_refined d data p :
  match run_rv schedule_read_value d data p with
  | (d', Ok _) => read_schedule data p = Ok (VSched (sched_of d'))
  | (_, Exc e) => read_schedule data p = Exc e
  end.
Proof.
  destruct d as [a0 b0 c0 e0 g0 h0 i0 j0 k0 l0 m0 t0]. unfold schedule_read_value, read_schedule.
  cbn [run_rv run_rvstmt set_f eval_cond fz get_f d_start_h d_start_m d_end_h d_end_m d_on_off d_day_bits d_power d_soc d_month_bits d_ty].
  pos_norm p.
  destruct (((s_at data p 1 <? 0) || (s_at data p 1 >? 23)) && negb (s_at data p 1 =? 48) && negb (s_at data p 1 =? -1)); [reflexivity|].
  cbn [run_rv run_rvstmt set_f eval_cond fz get_f d_start_h d_start_m d_end_h d_end_m d_on_off d_day_bits d_power d_soc d_month_bits d_ty]. pos_norm p.
  destruct (((s_at data (p + 1) 1 <? 0) || (s_at data (p + 1) 1 >? 59)) && negb (s_at data (p + 1) 1 =? -1)); [reflexivity|].
  cbn [run_rv run_rvstmt set_f eval_cond fz get_f d_start_h d_start_m d_end_h d_end_m d_on_off d_day_bits d_power d_soc d_month_bits d_ty]. pos_norm p.
  destruct (((s_at data (p + 2) 1 <? 0) || (s_at data (p + 2) 1 >? 23)) && negb (s_at data (p + 2) 1 =? 48) && negb (s_at data (p + 2) 1 =? -1)); [reflexivity|].
  cbn [run_rv run_rvstmt set_f eval_cond fz get_f d_start_h d_start_m d_end_h d_end_m d_on_off d_day_bits d_power d_soc d_month_bits d_ty]. pos_norm p.
  destruct (((s_at data (p + 3) 1 <? 0) || (s_at data (p + 3) 1 >? 59)) && negb (s_at data (p + 3) 1 =? -1)); [reflexivity|].
  cbn [run_rv run_rvstmt set_f eval_cond fz get_f d_start_h d_start_m d_end_h d_end_m d_on_off d_day_bits d_power d_soc d_month_bits d_ty]. pos_norm p.
  destruct (detect_schedule_type (s_at data (p + 4) 1)) as [ty|e]; [|reflexivity].
  cbn [run_rv run_rvstmt set_f set_ty eval_cond fz get_f d_start_h d_start_m d_end_h d_end_m d_on_off d_day_bits d_power d_soc d_month_bits d_ty bind]. pos_norm p.
  destruct (decode_day_of_week (s_at data (p + 5) 1)) as [days|e]; [|reflexivity].
  cbn [run_rv run_rvstmt set_f set_ty set_days eval_cond fz get_f d_start_h d_start_m d_end_h d_end_m d_on_off d_day_bits d_power d_soc d_month_bits d_ty bind]. pos_norm p.
  destruct (sched_in_range ty (s_at data (p + 6) 2)); cbn [negb]; [|reflexivity].
  cbn [run_rv run_rvstmt set_f set_ty set_days eval_cond fz get_f d_start_h d_start_m d_end_h d_end_m d_on_off d_day_bits d_power d_soc d_month_bits d_ty bind]. pos_norm p.
  destruct ((s_at data (p + 8) 2 <? 0) || (s_at data (p + 8) 2 >? 100)); [reflexivity|].
  cbn [run_rv run_rvstmt set_f set_ty set_days eval_cond fz get_f d_start_h d_start_m d_end_h d_end_m d_on_off d_day_bits d_power d_soc d_month_bits d_ty bind]. pos_norm p.
  destruct (decode_months (s_at data (p + 10) 2)) as [months|e]; [|reflexivity].
  reflexivity.
Qed.

Theorem eco_v1_read_value_refined d data p : d_soc d = Some 100 -> d_month_bits d = None -> d_months d = None -> d_ty d = 0 ->
  match run_rv eco_v1_read_value d data p with
  | (d', Ok _) => read_eco_v1 data p = Ok (VSched (sched_of d'))
  | (_, Exc e) => read_eco_v1 data p = Exc e
  end.
Proof.
  destruct d as [a0 b0 c0 e0 g0 h0 i0 j0 k0 l0 m0 t0]. cbn [d_soc d_month_bits d_months d_ty]. intros -> -> -> ->. unfold eco_v1_read_value, read_eco_v1.
  cbn [run_rv run_rvstmt set_f eval_cond fz get_f d_start_h d_start_m d_end_h d_end_m d_on_off d_day_bits d_power d_soc d_month_bits d_ty]. pos_norm p.
  destruct (((s_at data p 1 <? 0) || (s_at data p 1 >? 23)) && negb (s_at data p 1 =? 48)); [reflexivity|].
  cbn [run_rv run_rvstmt set_f eval_cond fz get_f d_start_h d_start_m d_end_h d_end_m d_on_off d_day_bits d_power d_soc d_month_bits d_ty]. pos_norm p.
  destruct ((s_at data (p + 1) 1 <? 0) || (s_at data (p + 1) 1 >? 59)); [reflexivity|].
  cbn [run_rv run_rvstmt set_f eval_cond fz get_f d_start_h d_start_m d_end_h d_end_m d_on_off d_day_bits d_power d_soc d_month_bits d_ty]. pos_norm p.
  destruct (((s_at data (p + 2) 1 <? 0) || (s_at data (p + 2) 1 >? 23)) && negb (s_at data (p + 2) 1 =? 48)); [reflexivity|].
  cbn [run_rv run_rvstmt set_f eval_cond fz get_f d_start_h d_start_m d_end_h d_end_m d_on_off d_day_bits d_power d_soc d_month_bits d_ty]. pos_norm p.
  destruct ((s_at data (p + 3) 1 <? 0) || (s_at data (p + 3) 1 >? 59)); [reflexivity|].
  cbn [run_rv run_rvstmt set_f eval_cond fz get_f d_start_h d_start_m d_end_h d_end_m d_on_off d_day_bits d_power d_soc d_month_bits d_ty]. pos_norm p.
  destruct ((s_at data (p + 4) 2 <? -100) || (s_at data (p + 4) 2 >? 100)); [reflexivity|].
  cbn [run_rv run_rvstmt set_f eval_cond fz get_f d_start_h d_start_m d_end_h d_end_m d_on_off d_day_bits d_power d_soc d_month_bits d_ty]. pos_norm p.
  destruct (negb ((s_at data (p + 6) 1 =? 0) || (s_at data (p + 6) 1 =? -1))); [reflexivity|].
  cbn [run_rv run_rvstmt set_f eval_cond fz get_f d_start_h d_start_m d_end_h d_end_m d_on_off d_day_bits d_power d_soc d_month_bits d_ty bind]. pos_norm p.
  destruct (decode_day_of_week (s_at data (p + 7) 1)) as [days|e]; [|reflexivity].
  reflexivity.
Qed.

(* the schedule type the definition holds after an attempted read: the detected one as soon as the four time fields and the on/off byte
   are acceptable, the previous one otherwise -- also when the read then fails on the power / SoC range *)
Definition sched_type_after_read (bs : list Z) (prev : Z) : Z := d_ty (fst (run_rv schedule_read_value (sdef0 prev None) bs 0)).

Lemma type_after_successful_read bs prev x : read_schedule bs 0 = Ok (VSched x) -> sched_type_after_read bs prev = sc_type x.
Proof.
  intros H. unfold sched_type_after_read. pose proof (schedule_read_value_refined (sdef0 prev None) bs 0) as R.
  destruct (run_rv schedule_read_value (sdef0 prev None) bs 0) as [d' [u|e]]; rewrite H in R; [|discriminate].
  injection R as ->. reflexivity.
Qed.

(* the type never depends on the other attributes the definition had *)
Lemma type_after_read_only_prev d bs : d_ty (fst (run_rv schedule_read_value d bs 0)) = sched_type_after_read bs (d_ty d).
Proof.
  unfold sched_type_after_read. destruct d as [a0 b0 c0 e0 g0 h0 i0 j0 k0 l0 m0 t0]. unfold schedule_read_value, sdef0.
  cbn [run_rv run_rvstmt set_f eval_cond fz get_f d_start_h d_start_m d_end_h d_end_m d_on_off d_day_bits d_power d_soc d_month_bits d_ty].
  repeat first [ reflexivity
               | match goal with |- context [if ?c then _ else _] => destruct c end;
                 cbn [run_rv run_rvstmt set_f set_ty set_days set_months eval_cond fz get_f d_start_h d_start_m d_end_h d_end_m d_on_off d_day_bits d_power d_soc d_month_bits d_ty fst negb]
               | match goal with |- context [match ?c with Ok _ => _ | Exc _ => _ end] => destruct c end;
                 cbn [run_rv run_rvstmt set_f set_ty set_days set_months eval_cond fz get_f d_start_h d_start_m d_end_h d_end_m d_on_off d_day_bits d_power d_soc d_month_bits d_ty fst negb] ].
Qed.

(* Kind-level theorems about Model/Sensors.v: a sensor decodes exactly its own bytes (C12), decoding is total up to
   ValueError (C11), label / bitmap sensors agree with their code sensors (C13). *)
From Coq Require Import ZArith List Bool String Lia PrimFloat.
From GW Require Import Prelude PyStr PyFloat Sensors.
Import ListNotations.
Open Scope Z_scope.

(* ---------------------------------------------------------------- windows *)
Lemma skipn_skipn' {A} (x y : nat) (l : list A) : skipn x (skipn y l) = skipn (x + y) l.
Proof.
  revert l. induction y as [|y IH]; intros l. rewrite Nat.add_0_r. reflexivity.
  destruct l as [|a l]. rewrite !skipn_nil. reflexivity.
  rewrite Nat.add_succ_r. cbn [skipn]. apply IH.
Qed.

Lemma rd_nonneg d p n : 0 <= p -> rd d p n = firstn (Z.to_nat n) (skipn (Z.to_nat p) d).
Proof. intros H. unfold rd. replace (p <? 0) with false by lia. reflexivity. Qed.

Lemma rd_sub d p w i n : 0 <= p -> 0 <= i -> 0 <= n -> i + n <= w -> rd (rd d p w) i n = rd d (p + i) n.
Proof.
  intros Hp Hi Hn Hw. rewrite (rd_nonneg _ i) by lia. rewrite (rd_nonneg d p) by lia. rewrite (rd_nonneg d (p + i)) by lia.
  rewrite skipn_firstn_comm, firstn_firstn, skipn_skipn'.
  replace (Z.to_nat i + Z.to_nat p)%nat with (Z.to_nat (p + i)) by lia.
  f_equal. lia.
Qed.

Lemma rd_sub0 d p w n : 0 <= p -> 0 <= n -> n <= w -> rd (rd d p w) 0 n = rd d p n.
Proof. intros. rewrite rd_sub by lia. f_equal. lia. Qed.

(* kinds that decode from one contiguous window at their own offset *)
Definition raw_kind (k : skind) : bool :=
  match k with KEnumBitmap22 _ _ | KEnumCalculated _ _ | KCalculated _ => false | _ => true end.

Ltac sub_windows Hp :=
  unfold u_at, s_at;
  repeat first [ rewrite rd_sub0 by (cbn; lia)
               | rewrite (rd_sub _ _ _ (0 + 1)) by (cbn; lia)
               | rewrite (rd_sub _ _ _ (0 + 2)) by (cbn; lia)
               | rewrite (rd_sub _ _ _ (0 + 3)) by (cbn; lia)
               | rewrite (rd_sub _ _ _ (0 + 4)) by (cbn; lia)
               | rewrite (rd_sub _ _ _ (0 + 5)) by (cbn; lia)
               | rewrite (rd_sub _ _ _ (0 + 6)) by (cbn; lia)
               | rewrite (rd_sub _ _ _ (0 + 7)) by (cbn; lia)
               | rewrite (rd_sub _ _ _ (0 + 8)) by (cbn; lia)
               | rewrite (rd_sub _ _ _ (0 + 10)) by (cbn; lia) ].

(* the value of a sensor is the decoding of exactly the [width] bytes at its own position -- nothing else of the response *)
Theorem sensor_reads_own_bytes d pos s : raw_kind (s_kind s) = true -> 0 <= pos (s_offset s) ->
  sensor_read d pos s = sensor_read (rd d (pos (s_offset s)) (width (s_kind s))) (fun _ => 0) s.
Proof.
  intros Hr Hp. unfold sensor_read. set (p := pos (s_offset s)) in *.
  destruct (s_kind s); try discriminate; cbn [width]; unfold read_eco_v1, read_schedule;
    sub_windows Hp; rewrite ?Z.add_0_r; reflexivity.
Qed.

Corollary sensor_value_is_local d1 d2 pos s : raw_kind (s_kind s) = true -> 0 <= pos (s_offset s) ->
  rd d1 (pos (s_offset s)) (width (s_kind s)) = rd d2 (pos (s_offset s)) (width (s_kind s)) ->
  sensor_read d1 pos s = sensor_read d2 pos s.
Proof. intros Hr Hp H. rewrite (sensor_reads_own_bytes d1), (sensor_reads_own_bytes d2) by assumption. rewrite H. reflexivity. Qed.

(* the two-word bitmap reads two windows *)
Theorem bitmap22_reads_own_words d1 d2 pos id off sz offL l :
  0 <= pos off -> 0 <= pos offL -> rd d1 (pos off) 2 = rd d2 (pos off) 2 -> rd d1 (pos offL) 2 = rd d2 (pos offL) 2 ->
  sensor_read d1 pos (mkS id off sz (KEnumBitmap22 offL l)) = sensor_read d2 pos (mkS id off sz (KEnumBitmap22 offL l)).
Proof. intros _ _ H1 H2. unfold sensor_read, u_at. cbn [s_kind s_offset]. rewrite H1, H2. reflexivity. Qed.

(* ---------------------------------------------------------------- documented interpretation of 2-byte fields *)
Definition w16 (a b : Z) : Z := a * 256 + b.
Definition s16v (a b : Z) : Z := if 32768 <=? w16 a b then w16 a b - 65536 else w16 a b.

Lemma u_at_two a b : u_at [a; b] 0 2 = w16 a b.
Proof. unfold u_at, rd, be_unsigned, w16. change (Z.to_nat 2) with 2%nat. cbn. lia. Qed.

Lemma s_at_two a b : 0 <= a < 256 -> 0 <= b < 256 -> s_at [a; b] 0 2 = s16v a b.
Proof.
  intros Ha Hb. unfold s_at, rd, be_signed, s16v, w16, be_unsigned. change (Z.to_nat 2) with 2%nat. cbn [Z.ltb Z.compare firstn skipn Z.to_nat fold_left].
  change (8 * blen [a; b]) with 16. change (2 ^ (16 - 1)) with 32768. change (2 ^ 16) with 65536.
  replace ((0 * 256 + a) * 256 + b) with (a * 256 + b) by lia. reflexivity.
Qed.

Definition fdiv (v d : Z) : val := VFloat (PrimFloat.div (float_of_Z v) (float_of_Z d)).

Theorem voltage_current_interpretation id a b k : k = KVoltage \/ k = KCurrent ->
  sensor_read [a; b] (fun _ => 0) (mkS id 0 2 k) = Ok (if w16 a b =? 65535 then VInt 0 else fdiv (w16 a b) 10).
Proof. intros [-> | ->]; unfold sensor_read; cbn [s_kind s_offset]; rewrite u_at_two; reflexivity. Qed.

Theorem frequency_interpretation id a b : 0 <= a < 256 -> 0 <= b < 256 ->
  sensor_read [a; b] (fun _ => 0) (mkS id 0 2 KFrequency) = Ok (fdiv (s16v a b) 100).
Proof. intros. unfold sensor_read. cbn [s_kind s_offset]. rewrite s_at_two by assumption. reflexivity. Qed.

Theorem temperature_interpretation id a b : 0 <= a < 256 -> 0 <= b < 256 ->
  sensor_read [a; b] (fun _ => 0) (mkS id 0 2 KTemp) = Ok (if (s16v a b =? -1) || (s16v a b =? 32767) then VNone else fdiv (s16v a b) 10).
Proof. intros. unfold sensor_read. cbn [s_kind s_offset]. rewrite s_at_two by assumption. reflexivity. Qed.

Theorem energy_interpretation id a b :
  sensor_read [a; b] (fun _ => 0) (mkS id 0 2 KEnergy) = Ok (if w16 a b =? 65535 then VNone else fdiv (w16 a b) 10).
Proof. unfold sensor_read. cbn [s_kind s_offset]. rewrite u_at_two. reflexivity. Qed.

Theorem power_interpretation id a b : 0 <= a < 256 -> 0 <= b < 256 ->
  sensor_read [a; b] (fun _ => 0) (mkS id 0 2 KPower) = Ok (if w16 a b =? 65535 then VNone else VInt (w16 a b)) /\
  sensor_read [a; b] (fun _ => 0) (mkS id 0 2 KPowerS) = Ok (VInt (s16v a b)) /\
  sensor_read [a; b] (fun _ => 0) (mkS id 0 2 KInteger) = Ok (VInt (if w16 a b =? 65535 then 0 else w16 a b)).
Proof.
  intros. unfold sensor_read. cbn [s_kind s_offset]. rewrite u_at_two, s_at_two by assumption. repeat split; reflexivity.
Qed.

(* ---------------------------------------------------------------- totality (C11) *)
Lemma name_walk_total bits : forall names acc, (List.length bits <= List.length names)%nat -> exists s, name_walk bits names acc = Ok s.
Proof.
  induction bits as [|b bits IH]; intros names acc H; cbn [name_walk]. eauto.
  destruct names as [|n names]; [simpl in H; lia|]. simpl in H.
  destruct (String.eqb b "1"); apply IH; lia.
Qed.

Lemma bits_of_length data n : (List.length (bits_of data n) <= n)%nat.
Proof. unfold bits_of. apply firstn_le_length. Qed.

Lemma decode_day_of_week_total data : exists s, decode_day_of_week data = Ok s.
Proof.
  unfold decode_day_of_week. destruct (data =? -1); [eauto|]. destruct (data =? 0); [eauto|].
  apply name_walk_total. apply bits_of_length.
Qed.

Lemma decode_months_total data : exists s, decode_months data = Ok s.
Proof.
  unfold decode_months. destruct (_ || _); [eauto|].
  destruct (name_walk_total (bits_of data (List.length MONTH_NAMES)) MONTH_NAMES "" (bits_of_length _ _)) as (s & ->). eauto.
Qed.

Definition ok_or_value (r : res val) : Prop := (exists v, r = Ok v) \/ r = Exc EValue.

Lemma read_eco_v1_ok d p : ok_or_value (read_eco_v1 d p).
Proof.
  unfold read_eco_v1, ok_or_value. cbv zeta.
  repeat match goal with |- context [if ?c then Exc EValue else _] => destruct c; [right; reflexivity|] end.
  destruct (decode_day_of_week_total (s_at d (p + 7) 1)) as (s & ->). cbn [bind]. left. eauto.
Qed.

Lemma read_schedule_ok d p : ok_or_value (read_schedule d p).
Proof.
  unfold read_schedule, ok_or_value. cbv zeta.
  repeat match goal with |- context [if ?c then Exc EValue else _] => destruct c; [right; reflexivity|] end.
  unfold detect_schedule_type.
  repeat match goal with |- context [if ?c then Ok _ else _] => destruct c end; cbn [bind];
    try (right; reflexivity);
    destruct (decode_day_of_week_total (s_at d (p + 5) 1)) as (s & ->); cbn [bind];
    repeat match goal with |- context [if ?c then Exc EValue else _] => destruct c; [right; reflexivity|] end;
    destruct (decode_months_total (s_at d (p + 10) 2)) as (m & ->); cbn [bind]; left; eauto.
Qed.

(* static typing of the Calculated lambdas: [true] = evaluates to an int, [false] = to an int or a float *)
Fixpoint cty (e : cexpr) : option bool :=
  match e with
  | CInt _ | CRead2S _ | CRead4S _ | CReadByte _ | CGridMode _ => Some true
  | CRead2 _ u0 | CRead4 _ u0 => if u0 then Some true else None
  | CVolt _ | CCurr _ => Some false
  | CAdd a b | CSub a b | CMul a b => match cty a, cty b with Some x, Some y => Some (x && y) | _, _ => None end
  | CMax a b => match cty a, cty b with Some true, Some true => Some true | _, _ => None end
  | CAbs a => cty a
  | CRound a => match cty a with Some true => Some true | _ => None end      (* round() of a float may raise: not covered *)
  | CIfEq a b t e => match cty a, cty b, cty t, cty e with Some _, Some _, Some x, Some y => Some (x && y) | _, _, _, _ => None end
  end.

Definition num_ok (isint : bool) (n : num) : Prop :=
  match n with NInt _ => True | NFloat _ => isint = false | NNone => False end.

Lemma num_bin_ok fz ff x y n1 n2 : num_ok x n1 -> num_ok y n2 -> exists n, num_bin fz ff n1 n2 = Ok n /\ num_ok (x && y) n.
Proof.
  destruct n1, n2; cbn; intros H1 H2; try contradiction; eexists; (split; [reflexivity|]); cbn; auto; subst; cbn; auto.
  rewrite andb_false_r. reflexivity.
Qed.

Lemma num_ok_weaken x y n : num_ok x n -> num_ok (x && y) n /\ num_ok (y && x) n.
Proof. destruct n; cbn; auto. intros ->. rewrite andb_false_r. auto. Qed.

Lemma cty_sound e : forall t, cty e = Some t -> forall d pos, exists n, ceval d pos e = Ok n /\ num_ok t n.
Proof.
  induction e; intros t Ht d pos; cbn [cty] in Ht; cbn [ceval].
  - injection Ht as <-. eexists; split; [reflexivity|exact I].
  - destruct undef0; [|discriminate]. injection Ht as <-. destruct (_ =? _); eexists; split; try reflexivity; exact I.
  - injection Ht as <-. eexists; split; [reflexivity|exact I].
  - destruct undef0; [|discriminate]. injection Ht as <-. destruct (_ =? _); eexists; split; try reflexivity; exact I.
  - injection Ht as <-. eexists; split; [reflexivity|exact I].
  - injection Ht as <-. eexists; split; [reflexivity|exact I].
  - injection Ht as <-. destruct (_ =? _); eexists; split; try reflexivity; cbn; auto.
  - injection Ht as <-. destruct (_ =? _); eexists; split; try reflexivity; cbn; auto.
  - injection Ht as <-. eexists; split; [reflexivity|exact I].
  - destruct (cty e1) as [x|] eqn:E1; [|discriminate]. destruct (cty e2) as [y|] eqn:E2; [|discriminate]. injection Ht as <-.
    destruct (IHe1 _ eq_refl d pos) as (n1 & -> & H1). destruct (IHe2 _ eq_refl d pos) as (n2 & -> & H2). cbn [bind].
    apply num_bin_ok; auto.
  - destruct (cty e1) as [x|] eqn:E1; [|discriminate]. destruct (cty e2) as [y|] eqn:E2; [|discriminate]. injection Ht as <-.
    destruct (IHe1 _ eq_refl d pos) as (n1 & -> & H1). destruct (IHe2 _ eq_refl d pos) as (n2 & -> & H2). cbn [bind].
    apply num_bin_ok; auto.
  - destruct (cty e1) as [x|] eqn:E1; [|discriminate]. destruct (cty e2) as [y|] eqn:E2; [|discriminate]. injection Ht as <-.
    destruct (IHe1 _ eq_refl d pos) as (n1 & -> & H1). destruct (IHe2 _ eq_refl d pos) as (n2 & -> & H2). cbn [bind].
    apply num_bin_ok; auto.
  - destruct (cty e1) as [[|]|] eqn:E1; try discriminate. destruct (cty e2) as [[|]|] eqn:E2; try discriminate. injection Ht as <-.
    destruct (IHe1 _ eq_refl d pos) as (n1 & -> & H1). destruct (IHe2 _ eq_refl d pos) as (n2 & -> & H2). cbn [bind].
    destruct n1, n2; cbn in *; try contradiction; try discriminate. eexists; split; [reflexivity|exact I].
  - destruct (IHe _ Ht d pos) as (n & -> & H). cbn [bind]. destruct n; cbn in *; try contradiction; eexists; (split; [reflexivity|]); cbn; auto.
  - destruct (cty e) as [[|]|] eqn:E1; try discriminate. injection Ht as <-.
    destruct (IHe _ eq_refl d pos) as (n & -> & H). cbn [bind]. destruct n; cbn in *; try contradiction; try discriminate.
    eexists; split; [reflexivity|exact I].
  - destruct (cty e1) as [x1|] eqn:E1; [|discriminate]. destruct (cty e2) as [x2|] eqn:E2; [|discriminate].
    destruct (cty e3) as [x3|] eqn:E3; [|discriminate]. destruct (cty e4) as [x4|] eqn:E4; [|discriminate]. injection Ht as <-.
    destruct (IHe1 _ eq_refl d pos) as (n1 & -> & H1). destruct (IHe2 _ eq_refl d pos) as (n2 & -> & H2). cbn [bind].
    destruct (IHe3 _ eq_refl d pos) as (n3 & E3' & H3). destruct (IHe4 _ eq_refl d pos) as (n4 & E4' & H4).
    destruct (num_ok_weaken x3 x4 n3 H3) as [W3 _]. destruct (num_ok_weaken x4 x3 n4 H4) as [_ W4].
    destruct n1, n2; try (destruct (_ =? _)); eauto.
Qed.

(* kinds whose decoding can only produce a value or ValueError *)
Definition total_kind (k : skind) : bool :=
  match k with
  | KDecimal sc | KFloat sc => negb (sc =? 0)
  | KCalculated g | KEnumCalculated g _ => match cty g with Some _ => true | None => false end
  | _ => true end.

Theorem decoding_is_total d pos s : total_kind (s_kind s) = true -> exists v, map_entry d pos s = Ok v.
Proof.
  intros Ht. unfold map_entry.
  assert (H : ok_or_value (sensor_read d pos s)).
  { unfold sensor_read. destruct (s_kind s) eqn:Ek; cbn [total_kind] in Ht;
      try (left; eexists; reflexivity).
    - destruct (scale =? 0); [discriminate|]. left; eexists; reflexivity.
    - destruct (scale =? 0); [discriminate|]. left; eexists; reflexivity.
    - unfold py_datetime. destruct (_ && _); [left; eexists; reflexivity | right; reflexivity].
    - destruct (cty getter) eqn:E; [|discriminate]. destruct (cty_sound _ _ E d pos) as (n & -> & _). cbn [bind].
      left. destruct n; eexists; reflexivity.
    - destruct (cty getter) eqn:E; [|discriminate]. destruct (cty_sound _ _ E d pos) as (n & -> & _). cbn [bind].
      left. eexists; reflexivity.
    - apply read_eco_v1_ok.
    - apply read_schedule_ok. }
  destruct H as [(v & ->)| ->]; eauto.
Qed.

(* ---------------------------------------------------------------- label sensors agree with their code sensors (C13) *)
Definition code_of (r : res val) : option Z := match r with Ok (VInt z) => Some z | _ => None end.

Theorem label_is_lookup_of_code d pos idl idc off szl szc l :
  sensor_read d pos (mkS idl off szl (KEnum2 l)) = Ok (match code_of (sensor_read d pos (mkS idc off szc KInteger)) with Some z => label_val l z | None => VNone end) /\
  sensor_read d pos (mkS idl off szl (KEnum l)) = Ok (match code_of (sensor_read d pos (mkS idc off szc KByte)) with Some z => label_val l z | None => VNone end) /\
  sensor_read d pos (mkS idl off szl (KEnumH l)) = Ok (match code_of (sensor_read d pos (mkS idc off szc KByteH)) with Some z => label_val l z | None => VNone end) /\
  sensor_read d pos (mkS idl off szl (KEnumL l)) = Ok (match code_of (sensor_read d pos (mkS idc off szc KByteL)) with Some z => label_val l z | None => VNone end).
Proof. unfold sensor_read. cbn. repeat split; reflexivity. Qed.

Theorem calculated_label_is_lookup d pos idl idc g l :
  sensor_read d pos (mkS idl 0 0 (KEnumCalculated g l)) =
  match sensor_read d pos (mkS idc 0 0 (KCalculated g)) with
  | Ok (VInt z) => Ok (label_val l z) | Ok _ => Ok VNone | Exc e => Exc e end.
Proof. unfold sensor_read. cbn [s_kind]. destruct (ceval d pos g) as [[z|f|]|e]; reflexivity. Qed.

(* bitmap labels: exactly the set bits (0..31) of the code word that have a non-empty label, in bit order *)
Definition set_bit_labels (code : Z) (l : list (Z * string)) : list string :=
  flat_map (fun i => if Z.testbit code i then
                       let s := match dict_get_s l i with Some s => s | None => ("err" ++ Z_to_str i)%string end in
                       if String.eqb s "" then [] else [s]
                     else []) (py_range 0 32).

Theorem bitmap4_lists_set_bits d pos id off sz l :
  sensor_read d pos (mkS id off sz (KEnumBitmap4 l)) =
  Ok (VStr (str_join ", " (set_bit_labels (let b := s_at d (pos off) 4 in if b =? -1 then 0 else b) l))).
Proof. reflexivity. Qed.

(* what the two-word bitmap sensors compute on the current code: high << (16 + low)  (Python operator precedence) *)
Theorem bitmap22_partial d pos id off sz offL l :
  sensor_read d pos (mkS id off sz (KEnumBitmap22 offL l)) =
  Ok (VStr (str_join ", " (set_bit_labels
     (Z.shiftl (let h := u_at d (pos off) 2 in if h =? 65535 then 0 else h)
               (16 + (let lo := u_at d (pos offL) 2 in if lo =? 65535 then 0 else lo))) l))).
Proof. reflexivity. Qed.

(* C17 end to end on the register-file model (Model/Settings.v): after write_setting, read_setting returns the written value, exactly one
   write request goes to exactly the setting's own register(s), every other register keeps its word, and the other half of the register of
   a one-byte setting is kept.  Generic register-file lemmas + the codec round trips of CodecProofs.v; lifted over the GENERATED setting tables. *)
From Coq Require Import ZArith List Bool String Lia.
From GW Require Import Prelude PyStr PyFloat Sensors SensorProofs CodecProofs Settings TablesGen SettingsGen.
Import ListNotations.
Open Scope Z_scope.

Lemma be_signed_pair_word a b : 0 <= a < 256 -> 0 <= b < 256 -> be_signed [a; b] mod 65536 = a * 256 + b.
Proof.
  intros Ha Hb. unfold be_signed, be_unsigned. cbn [fold_left]. change (8 * blen [a; b]) with 16. change (2 ^ (16 - 1)) with 32768. change (2 ^ 16) with 65536.
  replace ((0 * 256 + a) * 256 + b) with (a * 256 + b) by lia.
  destruct (32768 <=? a * 256 + b) eqn:E.
  - symmetry. apply Z.mod_unique with (-1); lia.
  - apply Z.mod_small. lia.
Qed.

Lemma word_bytes a b : 0 <= a < 256 -> 0 <= b < 256 -> (a * 256 + b) / 256 = a /\ (a * 256 + b) mod 256 = b.
Proof.
  intros Ha Hb. split.
  - symmetry. apply Z.div_unique with b; lia.
  - symmetry. apply Z.mod_unique with a; lia.
Qed.

(* the generic two-byte case: whatever the encoder produced is what the decoder is given afterwards; nothing else changes *)
Theorem write_then_read_2 sh r s v a b :
  s_size s = 1 \/ s_size s = 2 -> 2 <= ws_single_max sh ->
  encode_value (s_kind s) v (if s_size s =? ws_rmw_size sh then rf_bytes r (s_offset s) 1 else []) = Ok [a; b] ->
  0 <= a < 256 -> 0 <= b < 256 ->
  exists r', write_setting sh r s v = Ok (r', (s_offset s, 1)) /\
             r' (s_offset s) = a * 256 + b /\ (forall x, x <> s_offset s -> r' x = r x) /\
             read_setting r' s = sensor_read [a; b] (fun _ => 0) s.
Proof.
  intros Hsz Hmax Henc Ha Hb. unfold write_setting. rewrite Henc. change (blen [a; b]) with 2. replace (2 <=? ws_single_max sh) with true by lia.
  eexists. split. reflexivity. split; [|split].
  - cbn beta. rewrite Z.eqb_refl. apply be_signed_pair_word; auto.
  - intros x Hx. cbn beta. replace (x =? s_offset s) with false by lia. reflexivity.
  - unfold read_setting, read_count.
    assert (Hc : Z.to_nat ((s_size s + s_size s mod 2) / 2) = 1%nat) by (destruct Hsz as [-> | ->]; reflexivity).
    rewrite Hc. cbn [rf_bytes]. rewrite Z.eqb_refl, be_signed_pair_word by auto. destruct (word_bytes a b Ha Hb) as [-> ->]. reflexivity.
Qed.

(* decoding only looks at the kind (the position is 0 in a single read) *)
Lemma sensor_read_kind d s id sz : sensor_read d (fun _ => 0) s = sensor_read d (fun _ => 0) (mkS id 0 sz (s_kind s)).
Proof. reflexivity. Qed.

Definition shape_ok (sh : ws_shape) : Prop := ws_rmw_size sh = 1 /\ 2 <= ws_single_max sh.

Theorem write_read_integer sh r s v : shape_ok sh -> s_kind s = KInteger -> s_size s = 2 -> 0 <= v < 65535 ->
  exists r', write_setting sh r s (IInt v) = Ok (r', (s_offset s, 1)) /\ read_setting r' s = Ok (VInt v) /\
             (forall x, x <> s_offset s -> r' x = r x).
Proof.
  intros [Hr Hm] Hk Hs Hv. destruct (integer_roundtrip (s_id s) v Hv) as (bs & Henc & Hdec).
  assert (Hb : bs = [v / 256; v mod 256]).
  { unfold encode_value, in_int in Henc. cbn [bind] in Henc. rewrite to_bytes_u16' in Henc by lia. congruence. }
  subst bs. assert (0 <= v / 256 < 256) by (split; [apply Z.div_pos; lia | apply Z.div_lt_upper_bound; lia]).
  pose proof (Z.mod_pos_bound v 256 ltac:(lia)).
  destruct (write_then_read_2 sh r s (IInt v) (v / 256) (v mod 256)) as (r' & W & _ & F & R); auto.
  { rewrite Hs, Hr, Hk. exact Henc. }
  exists r'. split; auto. split; auto. rewrite R, (sensor_read_kind _ s (s_id s) 2), Hk. exact Hdec.
Qed.

Theorem write_read_integer_signed sh r s v : shape_ok sh -> s_kind s = KIntegerS -> s_size s = 2 -> -32768 <= v < 32768 ->
  exists r', write_setting sh r s (IInt v) = Ok (r', (s_offset s, 1)) /\ read_setting r' s = Ok (VInt v) /\
             (forall x, x <> s_offset s -> r' x = r x).
Proof.
  intros [Hr Hm] Hk Hs Hv. destruct (integer_signed_roundtrip (s_id s) v Hv) as (bs & Henc & Hdec).
  assert (Hb : bs = [(v mod 65536) / 256; (v mod 65536) mod 256]).
  { unfold encode_value, in_int in Henc. cbn [bind] in Henc. rewrite to_bytes_s16 in Henc by lia. congruence. }
  subst bs. pose proof (Z.mod_pos_bound v 65536 ltac:(lia)) as Hu.
  assert (0 <= (v mod 65536) / 256 < 256) by (split; [apply Z.div_pos; lia | apply Z.div_lt_upper_bound; lia]).
  pose proof (Z.mod_pos_bound (v mod 65536) 256 ltac:(lia)).
  destruct (write_then_read_2 sh r s (IInt v) ((v mod 65536) / 256) ((v mod 65536) mod 256)) as (r' & W & _ & F & R); auto.
  { rewrite Hs, Hr, Hk. exact Henc. }
  exists r'. split; auto. split; auto. rewrite R, (sensor_read_kind _ s (s_id s) 2), Hk. exact Hdec.
Qed.

(* one-byte settings: the register is read first, the other half is written back unchanged *)
Theorem write_read_byte_high sh r s v : shape_ok sh -> wf_rfile r -> s_kind s = KByteH -> s_size s = 1 -> -128 <= v < 128 ->
  exists r', write_setting sh r s (IInt v) = Ok (r', (s_offset s, 1)) /\ read_setting r' s = Ok (VInt v) /\
             (forall x, x <> s_offset s -> r' x = r x) /\ r' (s_offset s) mod 256 = r (s_offset s) mod 256.
Proof.
  intros [Hr Hm] Hwf Hk Hs Hv. set (w := r (s_offset s)). pose proof (Hwf (s_offset s)) as Hw. fold w in Hw.
  pose proof (Z.mod_pos_bound w 256 ltac:(lia)) as Hlo.
  destruct (byte_high_roundtrip (s_id s) v (w / 256) (w mod 256) Hv Hlo) as (bs & Henc & -> & Hdec).
  pose proof (Z.mod_pos_bound v 256 ltac:(lia)).
  destruct (write_then_read_2 sh r s (IInt v) (v mod 256) (w mod 256)) as (r' & W & O & F & R); auto.
  { rewrite Hs, Hr, Hk. cbn [Z.eqb Pos.eqb rf_bytes]. exact Henc. }
  exists r'. split; auto. split. rewrite R, (sensor_read_kind _ s (s_id s) 1), Hk. exact Hdec.
  split; auto. rewrite O. apply (word_bytes (v mod 256) (w mod 256)); auto.
Qed.

Theorem write_read_byte_low sh r s v : shape_ok sh -> wf_rfile r -> s_kind s = KByteL -> s_size s = 1 -> -128 <= v < 128 ->
  exists r', write_setting sh r s (IInt v) = Ok (r', (s_offset s, 1)) /\ read_setting r' s = Ok (VInt v) /\
             (forall x, x <> s_offset s -> r' x = r x) /\ r' (s_offset s) / 256 = r (s_offset s) / 256.
Proof.
  intros [Hr Hm] Hwf Hk Hs Hv. set (w := r (s_offset s)). pose proof (Hwf (s_offset s)) as Hw. fold w in Hw.
  assert (Hhi : 0 <= w / 256 < 256) by (split; [apply Z.div_pos; lia | apply Z.div_lt_upper_bound; lia]).
  destruct (byte_low_roundtrip (s_id s) v (w / 256) (w mod 256) Hv Hhi) as (bs & Henc & -> & Hdec).
  pose proof (Z.mod_pos_bound v 256 ltac:(lia)).
  destruct (write_then_read_2 sh r s (IInt v) (w / 256) (v mod 256)) as (r' & W & O & F & R); auto.
  { rewrite Hs, Hr, Hk. cbn [Z.eqb Pos.eqb rf_bytes]. exact Henc. }
  exists r'. split; auto. split. rewrite R, (sensor_read_kind _ s (s_id s) 1), Hk. exact Hdec.
  split; auto. rewrite O. apply (word_bytes (w / 256) (v mod 256)); auto.
Qed.

(* decimal settings: every multiple k / scale of the resolution *)
Theorem write_read_decimal sh r s scale k : shape_ok sh -> s_kind s = KDecimal scale -> s_size s = 2 ->
  scale = 10 \/ scale = 100 \/ scale = 1000 -> -32768 <= k < 32768 ->
  exists r' f, write_setting sh r s (IFloat (PrimFloat.div (float_of_Z k) (float_of_Z scale))) = Ok (r', (s_offset s, 1)) /\
             (read_setting r' s = Ok (VFloat f) /\ float_eqb f (PrimFloat.div (float_of_Z k) (float_of_Z scale)) = true \/
              read_setting r' s = Ok (VInt 0) /\ k = 0) /\
             r' (s_offset s) = k mod 65536 /\ (forall x, x <> s_offset s -> r' x = r x).
Proof.
  intros [Hr Hm] Hk Hs Hsc Hkr. pose proof (decimal_roundtrip scale k Hsc Hkr) as Hok. unfold scaled_ok in Hok.
  set (v := PrimFloat.div (float_of_Z k) (float_of_Z scale)) in *.
  destruct (encode_value (KDecimal scale) (IFloat v) []) as [bs|] eqn:Henc; [|discriminate].
  rewrite to_bytes_s16 in Hok by lia.
  destruct (list_eq_dec Z.eq_dec bs [k mod 65536 / 256; (k mod 65536) mod 256]) as [->|]; [|discriminate]. cbn [andb] in Hok.
  pose proof (Z.mod_pos_bound k 65536 ltac:(lia)) as Hu.
  assert (0 <= (k mod 65536) / 256 < 256) by (split; [apply Z.div_pos; lia | apply Z.div_lt_upper_bound; lia]).
  pose proof (Z.mod_pos_bound (k mod 65536) 256 ltac:(lia)).
  destruct (write_then_read_2 sh r s (IFloat v) ((k mod 65536) / 256) ((k mod 65536) mod 256)) as (r' & W & O & F & R); auto.
  { rewrite Hs, Hr, Hk. exact Henc. }
  assert (Hword : r' (s_offset s) = k mod 65536).
  { rewrite O. pose proof (Z.div_mod (k mod 65536) 256 ltac:(lia)). lia. }
  rewrite (sensor_read_kind _ s "" 2), Hk in R.
  destruct (sensor_read _ _ (mkS "" 0 2 (KDecimal scale))) as [[]|] eqn:Hd; try discriminate.
  - destruct z; try discriminate. apply Z.eqb_eq in Hok. exists r', v. split; [exact W|]. split; [right; split; [exact R | exact Hok]|]. split; [exact Hword | exact F].
  - exists r', f. split; [exact W|]. split; [left; split; [exact R | exact Hok]|]. split; [exact Hword | exact F].
Qed.

(* ---------------------------------------------------------------- the generated tables *)
(* every setting of these kinds in the tables of ET and DT has the size its codec theorem assumes, and a supported scale *)
Definition setting_shape_ok (s : sensor) : bool :=
  match s_kind s with
  | KInteger | KIntegerS => s_size s =? 2
  | KByteH | KByteL => s_size s =? 1
  | KDecimal sc => (s_size s =? 2) && ((sc =? 10) || (sc =? 100) || (sc =? 1000))
  | KLong => s_size s =? 4
  | _ => true end.

Definition modbus_settings : list sensor :=
  ET_all_settings ++ ET_settings_arm_fw_19 ++ ET_settings_arm_fw_22 ++ DT_all_settings ++ DT_settings_single_phase ++ DT_settings_three_phase.

Lemma generated_settings_shape : forallb setting_shape_ok modbus_settings = true.
Proof. vm_compute. reflexivity. Qed.

Definition covered (s : sensor) : bool :=
  match s_kind s with KInteger | KIntegerS | KByteH | KByteL | KDecimal _ | KLong => true | _ => false end.

(* how many settings of the generated tables the theorems above cover (the rest -- multi-register groups, timestamps, values scaled by 10 --
   is left to the write/read-back monitor) *)
Definition coverage : nat * nat := (List.length (filter covered modbus_settings), List.length modbus_settings).

(* the shapes emitted from the current source of ET / DT._write_setting satisfy what the theorems assume *)
Lemma generated_shapes_ok : shape_ok et_ws /\ shape_ok dt_ws.
Proof. unfold shape_ok. cbn. lia. Qed.

(* ---------------------------------------------------------------- multi-register writes on the register file *)
Lemma rf_write_bytes_frame : forall bs r a x, x < a -> rf_write_bytes r a bs x = r x.
Proof.
  fix IH 1. intros [|hi [|lo tl]] r a x Hx; cbn [rf_write_bytes]; auto.
  rewrite IH by lia. replace (x =? a) with false by lia. reflexivity.
Qed.

Lemma rf_bytes_write_bytes n : forall bs r a, List.length bs = (2 * n)%nat -> Forall (fun b => 0 <= b < 256) bs ->
  rf_bytes (rf_write_bytes r a bs) a n = bs.
Proof.
  induction n as [|n IH]; intros bs r a Hl Hb.
  - destruct bs; [reflexivity | discriminate].
  - destruct bs as [|hi [|lo tl]]; try (cbn in Hl; lia). cbn [rf_write_bytes rf_bytes].
    inversion Hb as [|? ? Hhi Hb']; subst. inversion Hb' as [|? ? Hlo Hb'']; subst.
    rewrite rf_write_bytes_frame by lia. cbn beta. rewrite Z.eqb_refl. destruct (word_bytes hi lo Hhi Hlo) as [-> ->].
    f_equal. f_equal. apply IH; auto. cbn in Hl. lia.
Qed.

(* ---------------------------------------------------------------- a 4-byte unsigned setting (Long) written and read back *)
Lemma to_bytes_u32 v : 0 <= v < 4294967296 ->
  to_bytes_big v 4 false = Ok [(v / 16777216) mod 256; (v / 65536) mod 256; (v / 256) mod 256; v mod 256].
Proof.
  intros H. unfold to_bytes_big. change (2 ^ (8 * 4)) with 4294967296.
  replace ((0 <=? v) && (v <? 4294967296)) with true by lia.
  change (Z.to_nat 4) with 4%nat. cbn [be_digits].
  change (256 ^ Z.of_nat 3) with 16777216. change (256 ^ Z.of_nat 2) with 65536. change (256 ^ Z.of_nat 1) with 256. change (256 ^ Z.of_nat 0) with 1.
  rewrite Z.div_1_r. reflexivity.
Qed.

Lemma u_at_four a b c d : u_at [a; b; c; d] 0 4 = ((a * 256 + b) * 256 + c) * 256 + d.
Proof. reflexivity. Qed.

Lemma digits32 v : 0 <= v < 4294967296 ->
  ((((v / 16777216) mod 256) * 256 + (v / 65536) mod 256) * 256 + (v / 256) mod 256) * 256 + v mod 256 = v.
Proof.
  intros H.
  pose proof (Z.div_mod v 256 ltac:(lia)) as H0.
  pose proof (Z.div_mod (v / 256) 256 ltac:(lia)) as H1.
  pose proof (Z.div_mod (v / 256 / 256) 256 ltac:(lia)) as H2.
  rewrite !Z.div_div in * by lia. change (256 * 256) with 65536 in *. change (65536 * 256) with 16777216 in *.
  assert (v / 16777216 < 256) by (apply Z.div_lt_upper_bound; lia). assert (0 <= v / 16777216) by (apply Z.div_pos; lia).
  rewrite (Z.mod_small (v / 16777216)) by lia. lia.
Qed.

Definition shape_ok2 (sh : ws_shape) : Prop := ws_rmw_size sh = 1 /\ ws_single_max sh = 2.

Theorem write_read_long sh r s v : shape_ok2 sh -> s_kind s = KLong -> s_size s = 4 -> 0 <= v < 4294967295 ->
  exists r', write_setting sh r s (IInt v) = Ok (r', (s_offset s, 2)) /\ read_setting r' s = Ok (VInt v) /\
             (forall x, x < s_offset s \/ s_offset s + 2 <= x -> r' x = r x).
Proof.
  intros [Hr Hm] Hk Hs Hv. unfold write_setting. rewrite Hs, Hr, Hk. cbn [Z.eqb Pos.eqb encode_value in_int bind].
  rewrite to_bytes_u32 by lia. cbv beta iota.
  set (bs := [(v / 16777216) mod 256; (v / 65536) mod 256; (v / 256) mod 256; v mod 256]).
  change (blen bs) with 4. rewrite Hm. cbn [Z.leb Z.compare Pos.compare Pos.compare_cont]. change (4 / 2) with 2.
  eexists. split; [reflexivity|]. split.
  - unfold read_setting, read_count. rewrite Hs. change (Z.to_nat ((4 + 4 mod 2) / 2)) with 2%nat.
    assert (Hb : Forall (fun b => 0 <= b < 256) bs) by (unfold bs; repeat constructor; apply Z.mod_pos_bound; lia).
    rewrite (rf_bytes_write_bytes 2 bs r (s_offset s) eq_refl Hb).
    unfold sensor_read. rewrite Hk. cbn [s_offset]. unfold bs. rewrite u_at_four, digits32 by lia.
    replace (v =? 4294967295) with false by lia. reflexivity.
  - intros x Hx. unfold bs. cbn [rf_write_bytes].
    destruct (x =? s_offset s + 1) eqn:E1; [lia|]. destruct (x =? s_offset s) eqn:E0; [lia|]. reflexivity.
Qed.

Lemma generated_shapes_ok2 : shape_ok2 et_ws /\ shape_ok2 dt_ws.
Proof. split; split; reflexivity. Qed.

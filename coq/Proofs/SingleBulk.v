(* C16 on the register-file model: the value read_sensor(id) decodes from its own short read request equals the value the bulk read decodes for
   that sensor from the block that contains it -- for every register content -- because both look at the same registers. *)
From Coq Require Import ZArith List Bool String Lia.
From GW Require Import Prelude PyStr PyFloat Sensors SensorProofs Settings TableChecks TablesGen TableProofs.
Import ListNotations.
Open Scope Z_scope.

Lemma rf_bytes_length r : forall n a, List.length (rf_bytes r a n) = (2 * n)%nat.
Proof. induction n as [|n IH]; intros a; cbn [rf_bytes List.length]; [reflexivity|]. rewrite IH. lia. Qed.

Lemma rf_bytes_skip r : forall k n a, (k <= n)%nat -> skipn (2 * k) (rf_bytes r a n) = rf_bytes r (a + Z.of_nat k) (n - k).
Proof.
  induction k as [|k IH]; intros n a H.
  - cbn [skipn Nat.mul]. rewrite Z.add_0_r, Nat.sub_0_r. reflexivity.
  - destruct n as [|n]; [lia|]. replace (2 * S k)%nat with (S (S (2 * k))) by lia. cbn [rf_bytes skipn].
    rewrite IH by lia. replace (a + 1 + Z.of_nat k) with (a + Z.of_nat (S k)) by lia. reflexivity.
Qed.

Lemma rf_bytes_firstn r : forall w n m a, (w <= 2 * n)%nat -> (w <= 2 * m)%nat -> firstn w (rf_bytes r a n) = firstn w (rf_bytes r a m).
Proof.
  induction w as [w H] using (well_founded_induction lt_wf). intros n m a Hn Hm.
  destruct w as [|[|w]]; [reflexivity| |].
  - destruct n as [|n]; [lia|]. destruct m as [|m]; [lia|]. reflexivity.
  - destruct n as [|n]; [lia|]. destruct m as [|m]; [lia|]. cbn [rf_bytes firstn]. f_equal. f_equal. apply H; lia.
Qed.

Lemma rd_rf_window r first count off wd : 0 <= count -> 0 <= wd -> first <= off -> (off - first) * 2 + wd <= 2 * count ->
  forall m, wd <= 2 * Z.of_nat m ->
  rd (rf_bytes r first (Z.to_nat count)) ((off - first) * 2) wd = rd (rf_bytes r off m) 0 wd.
Proof.
  intros Hc Hw Hf Hin m Hm. rewrite !rd_nonneg by lia. change (Z.to_nat 0) with 0%nat. cbn [skipn].
  replace (Z.to_nat ((off - first) * 2)) with (2 * Z.to_nat (off - first))%nat by lia.
  rewrite rf_bytes_skip by lia. replace (first + Z.of_nat (Z.to_nat (off - first))) with off by lia.
  apply rf_bytes_firstn; lia.
Qed.

(* kinds whose read_value is implemented (the single read of the others raises NotImplementedError: known finding) *)
Definition readable_kind (k : skind) : bool :=
  match k with KEnumBitmap22 _ _ | KEnumCalculated _ _ | KCalculated _ | KEnumBitmap4 _ => false | _ => true end.

Lemma readable_raw k : readable_kind k = true -> raw_kind k = true.
Proof. destruct k; cbn; congruence. Qed.

Lemma width_nonneg k : 0 <= width k.
Proof. destruct k; cbn; lia. Qed.

Theorem single_read_equals_bulk_rf r w s : readable_kind (s_kind s) = true -> 0 <= snd w ->
  sensor_in_window w s = true -> single_read_covers s = true ->
  sensor_read (rf_bytes r (fst w) (Z.to_nat (snd w))) (fun off => (off - fst w) * 2) s = read_setting r s.
Proof.
  intros Hk Hc Hw Hs. pose proof (readable_raw _ Hk) as Hr.
  assert (Hreads : sensor_reads s = [(s_offset s, width (s_kind s))]) by (unfold sensor_reads; destruct (s_kind s); try discriminate; reflexivity).
  unfold sensor_in_window in Hw. rewrite Hreads in Hw. cbn [forallb in_window] in Hw. rewrite andb_true_r in Hw.
  apply andb_prop in Hw as [H1 H2]. apply Z.leb_le in H1, H2.
  assert (Hcov : width (s_kind s) <= 2 * read_count s).
  { unfold single_read_covers in Hs. unfold read_count. destruct (s_kind s); try discriminate; apply Z.leb_le; exact Hs. }
  unfold read_setting.
  rewrite (sensor_reads_own_bytes (rf_bytes r (fst w) (Z.to_nat (snd w))) _ s Hr) by (cbn beta; lia).
  rewrite (sensor_reads_own_bytes (rf_bytes r (s_offset s) (Z.to_nat (read_count s))) (fun _ => 0) s Hr) by (cbn beta; lia).
  cbn beta. f_equal. pose proof (width_nonneg (s_kind s)). assert (0 <= read_count s) by lia.
  apply rd_rf_window; lia.
Qed.

(* ---------------------------------------------------------------- over the generated tables *)
(* the read command and the sensor list decoded from its answer, for every block of ET / DT.read_runtime_data (all meter levels) *)
Definition bulk_tables : list ((Z * Z) * list sensor) :=
  [(ET_READ_RUNNING_DATA, ET_all_sensors); (ET_READ_BATTERY_INFO, ET_all_sensors_battery); (ET_READ_BATTERY2_INFO, ET_all_sensors_battery2);
   (ET_READ_METER_DATA_EXTENDED2, ET_all_sensors_meter); (ET_READ_METER_DATA_EXTENDED, ET_meter_below ET_not_extended_meter2_limit);
   (ET_READ_METER_DATA, ET_meter_below ET_not_extended_meter_limit);
   (ET_READ_MPPT_DATA, filter (fun s => negb (id_in mppt_known s)) ET_all_sensors_mppt);
   (DT_READ_RUNNING_DATA, DT_all_sensors); (DT_READ_METER_DATA, DT_all_sensors_meter)].

Definition pair_ok (p : (Z * Z) * list sensor) : bool :=
  (0 <=? snd (fst p)) && forallb (fun s => negb (readable_kind (s_kind s)) || (sensor_in_window (fst p) s && single_read_covers s)) (snd p).

Lemma bulk_tables_ok : forallb pair_ok bulk_tables = true.
Proof. vm_compute. reflexivity. Qed.

(* every sensor of every block, all register contents: the single read of the sensor decodes the value the bulk read reports *)
Theorem generated_single_equals_bulk r w t s : In (w, t) bulk_tables -> In s t -> readable_kind (s_kind s) = true ->
  sensor_read (rf_bytes r (fst w) (Z.to_nat (snd w))) (fun off => (off - fst w) * 2) s = read_setting r s.
Proof.
  intros Hin Hs Hk. pose proof bulk_tables_ok as H. rewrite forallb_forall in H. specialize (H _ Hin).
  unfold pair_ok in H. cbn [fst snd] in H. apply andb_prop in H as [Hc Ht]. rewrite forallb_forall in Ht. specialize (Ht _ Hs).
  rewrite Hk in Ht. cbn [negb orb] in Ht. apply andb_prop in Ht as [Hw Hcov].
  apply single_read_equals_bulk_rf; auto. apply Z.leb_le. exact Hc.
Qed.

(* non-vacuity: how many sensors that covers *)
Lemma bulk_coverage : Nat.leb 300 (List.length (filter (fun s => readable_kind (s_kind s)) (flat_map snd bulk_tables))) = true.
Proof. vm_compute. reflexivity. Qed.

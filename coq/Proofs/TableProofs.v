(* Statements about the GENERATED tables (Gen/TablesGen.v, re-emitted from /repo on every run): finite checks by
   vm_compute lifted over all table entries, and definitional equalities of the derived sensors. *)
From Coq Require Import ZArith List Bool String Lia.
From GW Require Import Prelude PyStr PyFloat Sensors TableChecks TablesGen SensorProofs ETCaps ETCapsProofs.
Import ListNotations.
Open Scope Z_scope.

Definition table_sensors : list sensor := flat_map snd all_tables.

(* ---------------------------------------------------------------- C11 *)
(* sensors whose decoding is NOT covered by the totality theorem: exactly the Calculated sensors that round() a float
   product (round() raises on nan/inf; the product of two bounded readings is finite, which is validated, not proved) *)
Definition not_total_ids : list (string * string) :=
  flat_map (fun t => map (fun s => (fst t, s_id s)) (filter (fun s => negb (total_kind (s_kind s))) (snd t))) all_tables.

Definition expected_not_total : list (string * string) :=
  [("DT_all_sensors", "ppv1"); ("DT_all_sensors", "ppv2"); ("DT_all_sensors", "ppv3"); ("DT_all_sensors", "ppv");
   ("DT_all_sensors", "pgrid1"); ("DT_all_sensors", "pgrid2"); ("DT_all_sensors", "pgrid3");
   ("ES_sensors", "ppv1"); ("ES_sensors", "ppv2"); ("ES_sensors", "ppv"); ("ES_sensors", "pbattery1"); ("ES_sensors", "house_consumption")]%string.

Lemma not_total_list : not_total_ids = expected_not_total.
Proof. vm_compute. reflexivity. Qed.

Theorem table_decoding_total : forall t s, In t all_tables -> In s (snd t) -> ~ In (fst t, s_id s) expected_not_total ->
  forall d pos, exists v, map_entry d pos s = Ok v.
Proof.
  intros t s Ht Hs Hn d pos. apply decoding_is_total.
  destruct (total_kind (s_kind s)) eqn:E; auto. exfalso. apply Hn. rewrite <- not_total_list.
  unfold not_total_ids. apply in_flat_map. exists t. split; auto. apply in_map_iff. exists s. split; auto.
  apply filter_In. split; auto. rewrite E. reflexivity.
Qed.

(* _map_response reports every sensor of the table: the result has one entry per table row, in order (model of the loop) *)
Definition map_response (d : list Z) (pos : posfn) (t : list sensor) : res (list (string * val)) :=
  py_for t (fun s acc => v <- map_entry d pos s ;; Ok (acc ++ [(s_id s, v)])) [].

Lemma map_response_keys_aux d pos t : forall acc,
  (forall s, In s t -> exists v, map_entry d pos s = Ok v) ->
  exists r, py_for t (fun s acc => v <- map_entry d pos s ;; Ok (acc ++ [(s_id s, v)])) acc = Ok r /\ map fst r = map fst acc ++ map s_id t.
Proof.
  induction t as [|s t IH]; intros acc H; cbn [py_for].
  - exists acc. split; auto. rewrite app_nil_r. reflexivity.
  - destruct (H s (or_introl eq_refl)) as (v & ->). cbn [bind].
    destruct (IH (acc ++ [(s_id s, v)]) (fun s' Hs' => H s' (or_intror Hs'))) as (r & -> & Hr).
    exists r. split; auto. rewrite Hr, map_app. cbn. rewrite <- app_assoc. reflexivity.
Qed.

Theorem map_response_reports_every_sensor d pos t :
  (forall s, In s t -> exists v, map_entry d pos s = Ok v) ->
  exists r, map_response d pos t = Ok r /\ map fst r = map s_id t.
Proof. intros H. destruct (map_response_keys_aux d pos t [] H) as (r & Hr & Hk). exists r. split; auto. Qed.

(* ---------------------------------------------------------------- C12 *)
Definition kind_class_ok (s : sensor) : bool :=
  raw_kind (s_kind s) || match s_kind s with KEnumBitmap22 _ _ | KEnumCalculated _ _ | KCalculated _ => true | _ => false end.

(* every table entry decodes from its own window (raw kinds), or is a declared derived / two-word sensor *)
Lemma all_entries_classified : forallb kind_class_ok table_sensors = true.
Proof. vm_compute. reflexivity. Qed.

(* the declared size_ of a raw sensor is the number of bytes its decoder reads, except the low-byte classes (which
   declare 1 and read the second byte of their register) *)
Definition size_matches (s : sensor) : bool :=
  negb (raw_kind (s_kind s)) || (s_size s =? width (s_kind s)) ||
  match s_kind s with KByteL | KEnumL _ => s_size s =? 1 | _ => false end.
Lemma declared_sizes : forallb size_matches table_sensors = true.
Proof. vm_compute. reflexivity. Qed.

(* ---------------------------------------------------------------- C13 *)
Lemma label_sensors_have_their_codes : forallb (fun t => forallb (label_sensor_ok (snd t)) (snd t)) all_tables = true.
Proof. vm_compute. reflexivity. Qed.

Definition off_of (id : string) (t : list sensor) : Z := match find_sensor id t with Some s => s_offset s | None => -1 end.
Definition kind_of (id : string) (t : list sensor) : option skind := option_map s_kind (find_sensor id t).
Definition getter_of (id : string) (t : list sensor) : option cexpr :=
  match find_sensor id t with
  | Some s => match s_kind s with KCalculated g | KEnumCalculated g _ => Some g | _ => None end
  | None => None end.

Section Derived.
  Let eo := fun id => off_of id ET_all_sensors.
  Let dto := fun id => off_of id DT_all_sensors.
  Let eso := fun id => off_of id ES_sensors.
  Definition max0 e := CMax (CInt 0) e.
  Definition vi (v i : Z) := CRound (CMul (CVolt v) (CCurr i)).

  (* ET: ppv = sum of the four PV power registers (negative / undefined counted as 0) *)
  Definition ET_ppv_spec := CAdd (CAdd (CAdd (max0 (CRead4 (eo "ppv1") true)) (max0 (CRead4 (eo "ppv2") true))) (max0 (CRead4 (eo "ppv3") true))) (max0 (CRead4 (eo "ppv4") true)).
  (* house_consumption = ppv1 + ppv2 + ppv3 + ppv4 + pbattery1 - active_power *)
  Definition ET_house_spec := CSub (CAdd (CAdd (CAdd (CAdd (CRead4 (eo "ppv1") true) (CRead4 (eo "ppv2") true)) (CRead4 (eo "ppv3") true)) (CRead4 (eo "ppv4") true))
                                        (CRead4S (eo "pbattery1"))) (CRead2S (eo "active_power")).
  Definition ET_grid_in_out_spec := CGridMode (eo "active_power").

  Lemma ET_derived :
    getter_of "ppv" ET_all_sensors = Some ET_ppv_spec /\ getter_of "house_consumption" ET_all_sensors = Some ET_house_spec /\
    getter_of "grid_in_out" ET_all_sensors = Some ET_grid_in_out_spec /\ getter_of "grid_in_out_label" ET_all_sensors = Some ET_grid_in_out_spec /\
    map (fun id => kind_of id ET_all_sensors) ["ppv1"; "ppv2"; "ppv3"; "ppv4"; "pbattery1"; "active_power"]%string =
    [Some KPower4; Some KPower4; Some KPower4; Some KPower4; Some KPower4S; Some KPowerS].
  Proof. vm_compute. repeat split; reflexivity. Qed.

  (* DT: computed powers = voltage x current rounded; ppv = ppv1 + ppv2 + ppv3 *)
  Definition DT_ppv_spec n := vi (dto ("vpv" ++ n)%string) (dto ("ipv" ++ n)%string).
  Definition DT_pgrid_spec n := vi (dto ("vgrid" ++ n)%string) (dto ("igrid" ++ n)%string).
  Lemma DT_derived :
    map (fun n => getter_of ("ppv" ++ n)%string DT_all_sensors) ["1"; "2"; "3"]%string = map (fun n => Some (DT_ppv_spec n)) ["1"; "2"; "3"]%string /\
    map (fun n => getter_of ("pgrid" ++ n)%string DT_all_sensors) ["1"; "2"; "3"]%string = map (fun n => Some (DT_pgrid_spec n)) ["1"; "2"; "3"]%string /\
    getter_of "ppv" DT_all_sensors = Some (CAdd (CAdd (DT_ppv_spec "1") (DT_ppv_spec "2")) (DT_ppv_spec "3")) /\
    map (fun id => kind_of id DT_all_sensors) ["vpv1"; "ipv1"; "vpv2"; "ipv2"; "vpv3"; "ipv3"; "vgrid1"; "igrid1"; "vgrid2"; "igrid2"; "vgrid3"; "igrid3"]%string =
    [Some KVoltage; Some KCurrent; Some KVoltage; Some KCurrent; Some KVoltage; Some KCurrent; Some KVoltage; Some KCurrent; Some KVoltage; Some KCurrent; Some KVoltage; Some KCurrent].
  Proof. vm_compute. repeat split; reflexivity. Qed.

  (* ES *)
  Definition ES_ppv1 := vi (eso "vpv1") (eso "ipv1").
  Definition ES_ppv2 := vi (eso "vpv2") (eso "ipv2").
  Definition ES_bat_sign := CIfEq (CReadByte (eso "battery_mode")) (CInt 3) (CInt (-1)) (CInt 1).
  Definition ES_grid_sign := CIfEq (CReadByte (eso "grid_in_out")) (CInt 2) (CInt (-1)) (CInt 1).
  Definition ES_pbattery := CMul (CAbs (vi (eso "vbattery1") 18)) ES_bat_sign.
  Definition ES_pgrid := CMul (CAbs (CRead2S 38)) ES_grid_sign.
  Lemma ES_derived :
    getter_of "ppv1" ES_sensors = Some ES_ppv1 /\ getter_of "ppv2" ES_sensors = Some ES_ppv2 /\
    getter_of "ppv" ES_sensors = Some (CAdd ES_ppv1 ES_ppv2) /\
    getter_of "pbattery1" ES_sensors = Some ES_pbattery /\ getter_of "pgrid" ES_sensors = Some ES_pgrid /\
    getter_of "ibattery1" ES_sensors = Some (CMul (CAbs (CCurr 18)) ES_bat_sign) /\
    getter_of "plant_power" ES_sensors = Some (CRound (CAdd (CRead2 (eso "pload") true) (CRead2 (eso "pback_up") true))) /\
    getter_of "house_consumption" ES_sensors = Some (CSub (CAdd (CAdd ES_ppv1 ES_ppv2) ES_pbattery) ES_pgrid) /\
    map (fun id => kind_of id ES_sensors) ["vpv1"; "ipv1"; "vpv2"; "ipv2"; "vbattery1"; "battery_mode"; "grid_in_out"; "pload"; "pback_up"]%string =
    [Some KVoltage; Some KCurrent; Some KVoltage; Some KCurrent; Some KVoltage; Some KByte; Some KByte; Some KPower; Some KPower].
  Proof. vm_compute. repeat split; reflexivity. Qed.
End Derived.

(* the two-word bitmap defect: with high word 0 and low word 1 the code word is 1 (bit 0 set), the sensor reports nothing *)
Lemma bitmap22_refuted :
  exists d, sensor_read d (fun a => (a - 37000) * 2) (mkS "battery_error" 37012 2 (KEnumBitmap22 37006 L_BMS_ALARM_CODES)) = Ok (VStr "") /\
            set_bit_labels (u_at d 24 2 * 65536 + u_at d 12 2) L_BMS_ALARM_CODES <> [].
Proof. exists (repeat 0 12 ++ [0; 1] ++ repeat 0 34). split. vm_compute. reflexivity. vm_compute. discriminate. Qed.

(* ---------------------------------------------------------------- C14 *)
Definition ET_meter_below (lim : Z) : list sensor := filter (fun s => s_offset s <? lim) ET_all_sensors_meter.
Definition mppt_known : list string := ["apparent_power2"; "apparent_power3"]%string.

Lemma windows :
  forallb (sensor_in_window ET_READ_RUNNING_DATA) ET_all_sensors = true /\
  forallb (sensor_in_window ET_READ_BATTERY_INFO) ET_all_sensors_battery = true /\
  forallb (sensor_in_window ET_READ_BATTERY2_INFO) ET_all_sensors_battery2 = true /\
  forallb (sensor_in_window ET_READ_METER_DATA_EXTENDED2) ET_all_sensors_meter = true /\
  forallb (sensor_in_window ET_READ_METER_DATA_EXTENDED) (ET_meter_below ET_not_extended_meter2_limit) = true /\
  forallb (sensor_in_window ET_READ_METER_DATA) (ET_meter_below ET_not_extended_meter_limit) = true /\
  forallb (fun s => sensor_in_window ET_READ_MPPT_DATA s || id_in mppt_known s) ET_all_sensors_mppt = true /\
  forallb (sensor_in_window DT_READ_RUNNING_DATA) DT_all_sensors = true /\
  forallb (sensor_in_window DT_READ_METER_DATA) DT_all_sensors_meter = true.
Proof. vm_compute. repeat split; reflexivity. Qed.

(* capability level (Model/ETCaps.v) -> generated tables: the window that the flags select and the meter sensors kept at the filter level *)
Definition meter_window (c : caps) : Z * Z :=
  if has_ext2 c then ET_READ_METER_DATA_EXTENDED2 else if has_ext c then ET_READ_METER_DATA_EXTENDED else ET_READ_METER_DATA.
Definition meter_list (level : nat) : list sensor :=
  match level with O => ET_all_sensors_meter | S O => ET_meter_below ET_not_extended_meter2_limit | _ => ET_meter_below ET_not_extended_meter_limit end.

Lemma consistent_window_covers_all :
  forallb (fun c => negb (caps_consistent c) || forallb (sensor_in_window (meter_window c)) (meter_list (meter_level c))) all_caps = true.
Proof. vm_compute. reflexivity. Qed.

Lemma consistent_window_covers c : (meter_level c <= 2)%nat -> caps_consistent c = true ->
  forallb (sensor_in_window (meter_window c)) (meter_list (meter_level c)) = true.
Proof.
  intros Hl Hc. pose proof consistent_window_covers_all as K. rewrite forallb_forall in K.
  specialize (K c (all_caps_complete c Hl)). rewrite Hc in K. exact K.
Qed.

(* after ANY history of read_runtime_data calls -- any refused blocks, any lost requests, exception paths included -- the
   meter window requested next covers every meter sensor that will be decoded from it *)
Theorem meter_window_always_covers two big h :
  let c := calls (after_device_info two big) h in
  forallb (sensor_in_window (meter_window c)) (meter_list (meter_level c)) = true.
Proof. destruct (consistent_always two big h) as [Hc Hl]. cbv zeta. apply consistent_window_covers; assumption. Qed.

Lemma mppt_refuted : map (fun id => option_map (sensor_in_window ET_READ_MPPT_DATA) (find_sensor id ET_all_sensors_mppt)) mppt_known = [Some false; Some false].
Proof. vm_compute. reflexivity. Qed.

(* a sensor that lies in the window never reads past a full-length answer: its bytes exist in the block *)
Lemma in_window_bytes_exist first count a n (block : list Z) :
  in_window first count (a, n) = true -> blen block = 2 * count -> 0 <= n ->
  List.length (rd block ((a - first) * 2) n) = Z.to_nat n.
Proof.
  unfold in_window. intros H Hl Hn. apply andb_prop in H. destruct H as [H1 H2].
  apply Z.leb_le in H1, H2. rewrite rd_nonneg by lia. rewrite firstn_length, skipn_length. unfold blen in Hl. lia.
Qed.

(* filters only remove sensors: every variant list (single phase, 2 PV strings) is a sub-list of the full table *)
Lemma filter_keeps_window {A} (p q : A -> bool) l : forallb p l = true -> forallb p (filter q l) = true.
Proof. rewrite !forallb_forall. intros H x Hx. apply filter_In in Hx. apply H. tauto. Qed.

(* ---------------------------------------------------------------- C16 *)
Lemma single_reads_cover :
  forallb single_read_covers (ET_all_sensors ++ ET_all_sensors_battery ++ ET_all_sensors_battery2 ++ ET_all_sensors_meter ++ ET_all_sensors_mppt ++
                              ET_all_settings ++ ET_settings_arm_fw_19 ++ ET_settings_arm_fw_22 ++
                              DT_all_sensors ++ DT_all_sensors_meter ++ DT_all_settings ++ DT_settings_single_phase ++ DT_settings_three_phase) = true.
Proof. vm_compute. reflexivity. Qed.

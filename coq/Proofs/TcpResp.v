(* Modbus/TCP response validator (generated from goodwe/modbus.py): C02 acceptance, C01 totality and
   soundness, C07 partial, C08 exception answers. *)
From Coq Require Import ZArith List Bool Lia String ZifyBool.
From GW Require Import Prelude PyStr PyLemmas Crc16 Frames Responses BitLemmas ModbusGen CrcTable RespLemmas RtuResp.
Import ListNotations.
Open Scope Z_scope.

Ltac tstep :=
  match goal with
  | |- context [py_index ?d ?i] => rewrite (py_index_nthZ d i) by lia; cbn [bind]
  | |- context [if ?c then _ else _] => let E := fresh "E" in destruct c eqn:E
  end.

Lemma tcp_total data cmd offset value : bytesP data ->
  documented (validate_modbus_tcp_response data cmd offset value).
Proof.
  intros Hb. pose proof (bytesP_nthZ data 8 Hb) as H8. pose proof (blen_nonneg data) as Hn.
  unfold validate_modbus_tcp_response, MODBUS_READ_CMD.
  destruct (blen data <=? 8) eqn:E0; [doc_leaf|].
  repeat tstep; try doc_leaf.
Qed.

Lemma tcp_read_accept tx1 tx2 unit_ payload trailing offset count :
  llen payload = 2 * count -> 1 <= count <= 125 ->
  validate_modbus_tcp_response (tcp_read_frame tx1 tx2 unit_ payload ++ trailing) MODBUS_READ_CMD offset count = Ok true.
Proof.
  intros Hl Hc. unfold tcp_read_frame.
  set (f := _ ++ trailing).
  assert (Hlen : blen f = 9 + llen payload + llen trailing).
  { unfold f. rewrite !blen_app. unfold blen, llen. simpl List.length. lia. }
  pose proof (llen_nonneg trailing).
  unfold validate_modbus_tcp_response, MODBUS_READ_CMD.
  replace (blen f <=? 8) with false by lia.
  rewrite !py_index_nthZ by lia. cbn [bind].
  change (nthZ f 7) with 3. change (nthZ f 8) with (llen payload). rewrite Hl.
  rewrite Z.eqb_refl. replace (blen f <? 2 * count + 9) with false by lia.
  replace (2 * count =? count * 2) with true by lia. reflexivity.
Qed.

Lemma tcp_read_trim tx1 tx2 unit_ payload :
  py_slice (tcp_read_frame tx1 tx2 unit_ payload) (Some 9) None = payload.
Proof.
  unfold tcp_read_frame, py_slice, clamp_idx, norm_idx. set (n := blen _).
  assert (Hn : n = 9 + blen payload) by (unfold n; rewrite blen_app; reflexivity).
  pose proof (blen_nonneg payload).
  replace (9 <? 0) with false by lia. replace (Z.max 0 (Z.min n 9)) with 9 by lia.
  change (Z.to_nat 9) with 9%nat. cbn [app skipn]. apply firstn_all2. unfold blen in *. lia.
Qed.

Lemma s16_u16 v : -32768 <= v < 32768 -> s16 (u16 v) = v.
Proof.
  intros Hv. unfold s16, u16.
  assert (H : v mod 65536 = if v <? 0 then v + 65536 else v).
  { destruct (v <? 0) eqn:E. symmetry; apply Z.mod_unique with (-1); lia. apply Z.mod_small; lia. }
  rewrite H. destruct (v <? 0) eqn:E; destruct (32768 <=? _) eqn:E2; lia.
Qed.

Lemma tcp_write_accept tx1 tx2 unit_ fn reg v trailing :
  fn = 6 \/ fn = 16 -> 0 <= reg < 65536 -> -32768 <= v < 32768 ->
  validate_modbus_tcp_response (tcp_write_frame tx1 tx2 unit_ fn reg v ++ trailing) fn reg v = Ok true.
Proof.
  intros Hf Hr Hv. unfold tcp_write_frame.
  assert (Hu : 0 <= u16 v < 65536) by (unfold u16; apply Z.mod_pos_bound; lia).
  set (f := _ ++ trailing).
  assert (Hlen : blen f = 12 + llen trailing) by (unfold f; rewrite blen_app; reflexivity).
  pose proof (llen_nonneg trailing).
  unfold validate_modbus_tcp_response, MODBUS_READ_CMD, MODBUS_WRITE_CMD, MODBUS_WRITE_MULTI_CMD.
  replace (blen f <=? 8) with false by lia.
  rewrite !py_index_nthZ by lia. cbn [bind].
  change (nthZ f 7) with fn.
  replace (fn =? 3) with false by (destruct Hf; lia).
  replace (Zmember fn [6; 16]) with true by (destruct Hf as [-> | ->]; reflexivity).
  replace (blen f <? 12) with false by lia.
  rewrite !py_slice_sub by lia.
  change 10 with (8 + 2) at 1. rewrite sub_two by (try rewrite <- blen_llen; lia).
  change 12 with (10 + 2) at 1. rewrite sub_two by (try rewrite <- blen_llen; lia).
  change (nthZ f 8) with (reg / 256). change (nthZ f (8 + 1)) with (reg mod 256).
  change (nthZ f 10) with (u16 v / 256). change (nthZ f (10 + 1)) with (u16 v mod 256).
  unfold from_bytes_big. rewrite be_unsigned_two. rewrite be_signed_two
    by (first [apply Z.mod_pos_bound; lia | split; [apply Z.div_pos; lia | apply Z.div_lt_upper_bound; lia]]).
  unfold be16.
  replace (reg / 256 * 256 + reg mod 256) with reg by (pose proof (Z.div_mod reg 256); lia).
  rewrite Z.eqb_refl. cbn [negb].
  replace (u16 v / 256 * 256 + u16 v mod 256) with (u16 v) by (pose proof (Z.div_mod (u16 v) 256); lia).
  rewrite s16_u16 by lia. rewrite !Z.eqb_refl. reflexivity.
Qed.

Lemma tcp_sound_read data offset count : bytesP data -> 1 <= count <= 125 ->
  validate_modbus_tcp_response data MODBUS_READ_CMD offset count = Ok true -> wf_tcp_read count data.
Proof.
  intros Hb Hc. pose proof (bytesP_nthZ data 8 Hb) as H8. pose proof (blen_nonneg data) as Hn.
  unfold validate_modbus_tcp_response, MODBUS_READ_CMD, MODBUS_WRITE_CMD, MODBUS_WRITE_MULTI_CMD, wf_tcp_read.
  destruct (blen data <=? 8) eqn:E0; [discriminate|].
  rewrite (py_index_nthZ data 7) by lia. cbn [bind].
  destruct (nthZ data 7 =? 3) eqn:E3.
  - rewrite !(py_index_nthZ data 8) by lia. cbn [bind].
    destruct (blen data <? nthZ data 8 + 9) eqn:E5; [discriminate|].
    destruct (negb (nthZ data 8 =? count * 2)) eqn:E4; [discriminate|]. intros _.
    rewrite <- blen_llen. repeat split; lia.
  - cbn [Zmember existsb].
    destruct ((nthZ data 7 =? 6) || ((nthZ data 7 =? 16) || false)) eqn:E6.
    + repeat tstep; try discriminate; lia.
    + repeat tstep; try discriminate; lia.
Qed.

Lemma tcp_sound_write data fn reg v : bytesP data -> fn = 6 \/ fn = 16 ->
  validate_modbus_tcp_response data fn reg v = Ok true -> wf_tcp_write fn reg v data.
Proof.
  intros Hb Hf. pose proof (bytesP_nthZ data 8 Hb) as H8. pose proof (blen_nonneg data) as Hn.
  unfold validate_modbus_tcp_response, MODBUS_READ_CMD, MODBUS_WRITE_CMD, MODBUS_WRITE_MULTI_CMD, wf_tcp_write.
  destruct (blen data <=? 8) eqn:E0; [discriminate|].
  rewrite (py_index_nthZ data 7) by lia. cbn [bind].
  destruct (nthZ data 7 =? 3) eqn:E3.
  - repeat tstep; try discriminate; lia.
  - cbn [Zmember existsb].
    destruct ((nthZ data 7 =? 6) || ((nthZ data 7 =? 16) || false)) eqn:E6.
    + destruct (blen data <? 12) eqn:E10; [discriminate|].
      rewrite !py_slice_sub by lia.
      change 10 with (8 + 2) at 1. rewrite sub_two by (try rewrite <- blen_llen; lia).
      change 12 with (10 + 2) at 1. rewrite sub_two by (try rewrite <- blen_llen; lia).
      unfold from_bytes_big. rewrite be_unsigned_two.
      rewrite be_signed_two by (apply bytesP_nthZ; assumption).
      destruct (negb (be16 _ _ =? reg)) eqn:Er; [discriminate|].
      destruct (negb (s16 _ =? v)) eqn:Ev; [discriminate|].
      rewrite ?(py_index_nthZ data 8) by lia. cbn [bind].
      destruct (negb (nthZ data 7 =? fn)) eqn:Efn; [discriminate|]. intros _.
      change (8 + 1) with 9 in *. change (10 + 1) with 11 in *. rewrite <- blen_llen.
      repeat split; lia.
    + repeat tstep; try discriminate; lia.
Qed.

Lemma tcp_partial tx1 tx2 unit_ payload offset count n :
  llen payload = 2 * count -> 1 <= count <= 125 -> 9 <= n < 2 * count + 9 ->
  validate_modbus_tcp_response (firstn (Z.to_nat n) (tcp_read_frame tx1 tx2 unit_ payload)) MODBUS_READ_CMD offset count
  = Exc (EPartial n (2 * count + 9)).
Proof.
  intros Hl Hc Hn. unfold tcp_read_frame.
  set (F := _ ++ payload).
  assert (HF : llen F = 2 * count + 9) by (unfold F; rewrite llen_app; change (llen [tx1; tx2; 0; 0; (3 + llen payload) / 256; (3 + llen payload) mod 256; unit_; 3; llen payload]) with 9; lia).
  set (f := firstn (Z.to_nat n) F).
  assert (Hlen : blen f = n) by (unfold f, blen; rewrite firstn_length; unfold llen in HF; lia).
  assert (Hnth : forall i, 0 <= i < 9 -> nthZ f i = nthZ F i).
  { intros i Hi. unfold f, nthZ. rewrite <- (firstn_skipn (Z.to_nat n) F) at 2.
    rewrite app_nth1. reflexivity. rewrite firstn_length. unfold llen in HF. lia. }
  unfold validate_modbus_tcp_response, MODBUS_READ_CMD.
  replace (blen f <=? 8) with false by lia.
  rewrite !py_index_nthZ by lia. cbn [bind]. rewrite !Hnth by lia.
  change (nthZ F 7) with 3. change (nthZ F 8) with (llen payload). rewrite Hl.
  rewrite Z.eqb_refl. replace (blen f <? 2 * count + 9) with true by lia. rewrite Hlen. reflexivity.
Qed.

Lemma tcp_exception tx1 tx2 unit_ fn code cmd offset value :
  fn = 3 \/ fn = 6 \/ fn = 16 -> cmd = 3 \/ cmd = 6 \/ cmd = 16 ->
  validate_modbus_tcp_response (tcp_exc_frame tx1 tx2 unit_ fn code) cmd offset value
  = Exc (ERejected (modbus_reason code)).
Proof.
  intros Hf Hcmd. unfold tcp_exc_frame. set (f := [_; _; _; _; _; _; _; _; _]).
  assert (Hlen : blen f = 9) by reflexivity.
  unfold validate_modbus_tcp_response, MODBUS_READ_CMD, MODBUS_WRITE_CMD, MODBUS_WRITE_MULTI_CMD.
  replace (blen f <=? 8) with false by lia.
  rewrite !py_index_nthZ by lia. cbn [bind].
  change (nthZ f 7) with (fn + 128). change (nthZ f 8) with code.
  replace (fn + 128 =? 3) with false by lia.
  replace (Zmember (fn + 128) [6; 16]) with false by (cbn [Zmember existsb]; lia).
  replace (fn + 128 =? cmd) with false by lia. cbn [negb].
  rewrite failure_codes_spec. reflexivity.
Qed.

(* The two-object model (Model/TwoObj.v) and the single-object mode model of C19 (Model/Modes.v) describe the same set_operation_mode /
   get_operation_mode: on the registers of the calling object, a call in the two-object world does what the C19 model does when its
   "previous schedule type" is the type the shared eco_mode_1 definition holds at that moment.  Hence the C19 round trip holds for an
   object inside every interleaving whose other object does not touch a schedule definition. *)
From Coq Require Import ZArith List Bool String Lia.
From GW Require Import Prelude PyStr PyFloat Sensors SensorProofs CodecProofs Settings TablesGen SettingsGen SettingsProofs SchedDef SharedGen SchedDefRefine
  Modes ModesGen ModesInst ModesProofs TwoObj TwoObjInst TwoObjProofs.
Import ListNotations.
Open Scope Z_scope.

(* ---------------------------------------------------------------- the day / month walks never fail on at most len(names) bits *)
Lemma name_walk_total bits : forall names acc, (List.length bits <= List.length names)%nat -> exists s, name_walk bits names acc = Ok s.
Proof.
  induction bits as [|b tl IH]; intros names acc H; [eexists; reflexivity|].
  destruct names as [|n ntl]; [cbn in H; lia|]. cbn [name_walk]. cbn in H.
  destruct (String.eqb b "1"); apply IH; lia.
Qed.

Lemma bits_of_len data n : (List.length (bits_of data n) <= n)%nat.
Proof. unfold bits_of. apply firstn_le_length. Qed.

Lemma decode_day_total v : exists s, decode_day_of_week v = Ok s.
Proof.
  unfold decode_day_of_week. destruct (v =? -1); [eexists; reflexivity|]. destruct (v =? 0); [eexists; reflexivity|].
  apply name_walk_total. apply bits_of_len.
Qed.

Lemma decode_months_total v : exists s, decode_months v = Ok s.
Proof.
  unfold decode_months. destruct ((v <=? 0) || (v =? 4095)); [eexists; reflexivity|].
  destruct (name_walk_total (bits_of v (List.length MONTH_NAMES)) MONTH_NAMES "" (bits_of_len _ _)) as [s ->]. eexists; reflexivity.
Qed.

Lemma detect_only_value_error v e : detect_schedule_type v = Exc e -> e = EValue.
Proof.
  unfold detect_schedule_type.
  repeat match goal with |- context [if ?c then _ else _] => destruct c; [discriminate|] end. congruence.
Qed.

(* Schedule.read_value raises nothing but ValueError *)
Lemma read_schedule_only_value_error data p e : read_schedule data p = Exc e -> e = EValue.
Proof.
  unfold read_schedule.
  repeat match goal with |- context [if ?c then Exc EValue else _] => destruct c; [congruence|] end.
  destruct (detect_schedule_type (s_at data (p + 4) 1)) as [ty|e'] eqn:Ed; cbn [bind]; [|intros H; injection H as <-; eapply detect_only_value_error; eauto].
  destruct (decode_day_total (s_at data (p + 5) 1)) as [s ->]. cbn [bind].
  repeat match goal with |- context [if ?c then Exc EValue else _] => destruct c; [congruence|] end.
  destruct (decode_months_total (s_at data (p + 10) 2)) as [ms ->]. cbn [bind]. discriminate.
Qed.

Lemma run_rv_only_value_error d data p e : snd (run_rv schedule_read_value d data p) = Exc e -> e = EValue.
Proof.
  pose proof (schedule_read_value_refined d data p) as R. destruct (run_rv schedule_read_value d data p) as [d' [u|e']]; cbn [snd]; [discriminate|].
  intros H. injection H as <-. eapply read_schedule_only_value_error; eauto.
Qed.

(* ---------------------------------------------------------------- the encoded full-time groups are readable (also for power 0) *)
Definition readable (bs : list Z) : bool := match read_schedule bs 0 with Ok (VSched _) => true | _ => false end.

Lemma charge_readable_all : forallb (fun ty => forallb (fun p => forallb (fun soc => readable (sched_encode_charge ty p soc)) (range_up 0 101)) (range_up 0 101)) [0; 6] = true.
Proof. vm_compute. reflexivity. Qed.
Lemma discharge_readable_all : forallb (fun ty => forallb (fun p => readable (sched_encode_discharge ty p)) (range_up 0 101)) [0; 6] = true.
Proof. vm_compute. reflexivity. Qed.

Lemma charge_readable ty p soc : ty = 0 \/ ty = 6 -> 0 <= p <= 100 -> 0 <= soc <= 100 -> readable (sched_encode_charge ty p soc) = true.
Proof.
  intros Ht Hp Hs. pose proof charge_readable_all as H. rewrite forallb_forall in H.
  assert (Hty : In ty [0; 6]) by (destruct Ht as [-> | ->]; cbn; auto).
  specialize (H ty Hty). rewrite forallb_forall in H. specialize (H p (range_up_in 0 101 p ltac:(lia))).
  rewrite forallb_forall in H. apply H. apply range_up_in. lia.
Qed.
Lemma discharge_readable ty p : ty = 0 \/ ty = 6 -> 0 <= p <= 100 -> readable (sched_encode_discharge ty p) = true.
Proof.
  intros Ht Hp. pose proof discharge_readable_all as H. rewrite forallb_forall in H.
  assert (Hty : In ty [0; 6]) by (destruct Ht as [-> | ->]; cbn; auto).
  specialize (H ty Hty). rewrite forallb_forall in H. apply H. apply range_up_in. lia.
Qed.

Lemma readable_run_rv d bs : readable bs = true -> snd (run_rv schedule_read_value d bs 0) = Ok tt.
Proof.
  unfold readable. intros H. pose proof (schedule_read_value_refined d bs 0) as R.
  destruct (run_rv schedule_read_value d bs 0) as [d' [[]|e]]; [reflexivity|]. rewrite R in H. discriminate.
Qed.

(* ---------------------------------------------------------------- plain steps *)
Definition plain_step (st : mstep) : bool :=
  match st with
  | MWrite id _ => match lookup id et_settings with Some s => negb (is_sched s) | None => true end
  | MEcoGroup _ => false
  | _ => true end.

Definition pl745 (a b who : bool) : bool := if who then b else a.

Lemma plain_step_sim a b who prev p soc st r ds : plain_step st = true ->
  forall r' ds' rr t, mode_step (et_tctx a b) who p soc st r ds = (r', ds', rr, t) ->
  ds' = ds /\ run_mstep (ctx (pl745 a b who) prev p soc) st r = match rr with Ok _ => Ok r' | Exc e => Exc e end.
Proof.
  destruct st as [id v|bo| | |ch]; cbn [plain_step]; intros Hp r' ds' rr t; try discriminate.
  - unfold mode_step, write_int, run_mstep. cbn [et_tctx t_settings t_shape ctx c_settings c_shape].
    destruct (lookup id et_settings) as [s|].
    + apply negb_true_iff in Hp. rewrite Hp.
      destruct (write_setting et_ws r s (IInt v)) as [[r1 [a1 n1]]|e]; intros H; injection H as <- <- <- <-; split; reflexivity.
    + intros H; injection H as <- <- <- <-; split; reflexivity.
  - unfold mode_step, run_mstep. cbn [et_tctx t_offline ctx c_offline]. destruct om_offline as [[reg on] off].
    intros H; injection H as <- <- <- <-; split; reflexivity.
  - unfold mode_step, run_mstep. cbn [et_tctx t_clear ctx c_clear]. destruct om_clear as [reg v].
    intros H; injection H as <- <- <- <-; split; reflexivity.
  - unfold mode_step, run_mstep. cbn [ctx c_power c_soc].
    intros H; injection H as <- <- <- <-; split; [reflexivity|].
    destruct ((p <? 0) || (p >? 100) || (soc <? 0) || (soc >? 100)); reflexivity.
Qed.

Lemma plain_steps_sim a b who prev p soc l : forallb plain_step l = true ->
  forall r ds r' ds' rr t, mode_steps (et_tctx a b) who p soc l r ds = (r', ds', rr, t) ->
  ds' = ds /\ run_msteps (ctx (pl745 a b who) prev p soc) l r = match rr with Ok _ => Ok r' | Exc e => Exc e end.
Proof.
  induction l as [|st tl IH]; intros Hp r ds r' ds' rr t.
  - cbn. intros H; injection H as <- <- <- <-; split; reflexivity.
  - cbn [forallb] in Hp. apply andb_prop in Hp as [H1 H2]. cbn [mode_steps run_msteps].
    destruct (mode_step (et_tctx a b) who p soc st r ds) as [[[r1 ds1] rr1] t1] eqn:Es.
    destruct (plain_step_sim a b who prev p soc st r ds H1 _ _ _ _ Es) as [-> Hrun]. rewrite Hrun.
    destruct rr1 as [u|e].
    + destruct (mode_steps (et_tctx a b) who p soc tl r1 ds) as [[[r2 ds2] rr2] t2] eqn:Et.
      intros H; injection H as <- <- <- <-. eapply IH; eauto.
    + intros H; injection H as <- <- <- <-. split; reflexivity.
Qed.

(* ---------------------------------------------------------------- the eco-group step *)
Lemma set_type_eco_ty d is745 : d_ty (SchedDef.set_schedule_type_eco d is745) = set_schedule_type_eco' (d_ty d) is745.
Proof.
  unfold SchedDef.set_schedule_type_eco, set_schedule_type_eco'. destruct ((d_ty d =? 0) || (d_ty d =? 6)); [reflexivity|].
  destruct d; reflexivity.
Qed.

Lemma eco_group_sim a b who p soc ch r ds : 0 <= p <= 100 -> 0 <= soc <= 100 ->
  exists r' ds' t, mode_step (et_tctx a b) who p soc (MEcoGroup ch) r ds = (r', ds', Ok tt, t) /\
                   run_mstep (ctx (pl745 a b who) (d_ty (ds "eco_mode_1"%string)) p soc) (MEcoGroup ch) r = Ok r'.
Proof.
  intros Hp Hs. unfold mode_step, run_mstep. cbn [et_tctx t_settings ctx c_settings]. rewrite lookup_eco.
  unfold read_group. cbn [et_tctx t_rv t_is745 eco_sensor s_id s_offset ctx c_rv c_prev_ty c_is745 c_power c_soc].
  change (if who then b else a) with (pl745 a b who).
  pose proof (type_after_read_only_prev (ds "eco_mode_1"%string) (rf_bytes r 47547 6)) as Hty. unfold sched_type_after_read in Hty.
  destruct (run_rv schedule_read_value (ds "eco_mode_1"%string) (rf_bytes r 47547 6) 0) as [d1 rr1] eqn:Er. cbn [fst] in Hty.
  set (ds1 := upd ds "eco_mode_1" d1).
  assert (Hd1 : ds1 "eco_mode_1"%string = d1) by (unfold ds1, upd; rewrite String.eqb_refl; reflexivity).
  set (cur := d_ty (fst (run_rv schedule_read_value (sdef0 (d_ty (ds "eco_mode_1"%string)) None) (rf_bytes r 47547 6) 0))) in *.
  set (ty := set_schedule_type_eco' cur (pl745 a b who)).
  assert (Hty2 : ty = 0 \/ ty = 6) by apply schedule_type_after_set.
  set (raw := if ch then sched_encode_charge ty p soc else sched_encode_discharge ty p).
  assert (Hraw : readable raw = true) by (unfold raw; destruct ch; [apply charge_readable | apply discharge_readable]; auto).
  assert (Hlen : List.length raw = 12%nat).
  { unfold raw. destruct ch; [apply (proj2 (charge_bytes ty p soc Hty2)) | apply (proj2 (discharge_bytes ty p Hty2))]. }
  assert (Hcont : forall t1, exists r' ds' t,
            (let d2 := SchedDef.set_schedule_type_eco (ds1 "eco_mode_1"%string) (pl745 a b who) in
             let raw0 := if ch then sched_encode_charge (d_ty d2) p soc else sched_encode_discharge (d_ty d2) p in
             let '(r', ds3, wr, t2) := write_group (et_tctx a b) r (upd ds1 "eco_mode_1" d2) eco_sensor raw0 in (r', ds3, wr, t1 ++ t2)) = (r', ds', Ok tt, t) /\
            Ok (rf_write_bytes r 47547 raw) = Ok r').
  { intros t1. cbv zeta. rewrite Hd1, set_type_eco_ty, Hty. fold ty. fold raw.
    unfold write_group. rewrite Hlen. cbn [Nat.eqb negb]. cbn [et_tctx t_rv eco_sensor s_id s_offset].
    pose proof (readable_run_rv (upd ds1 "eco_mode_1" (SchedDef.set_schedule_type_eco d1 (pl745 a b who)) "eco_mode_1"%string) raw Hraw) as Hok.
    destruct (run_rv schedule_read_value (upd ds1 "eco_mode_1" (SchedDef.set_schedule_type_eco d1 (pl745 a b who)) "eco_mode_1"%string) raw 0) as [d3 rr3].
    cbn [snd] in Hok. subst rr3. do 3 eexists. split; reflexivity. }
  destruct rr1 as [u|e].
  - destruct (Hcont [TxRead 47547 6]) as (r' & ds' & t & H1 & H2). exists r', ds', t. split; [exact H1|exact H2].
  - assert (e = EValue) by (apply (run_rv_only_value_error (ds "eco_mode_1"%string) (rf_bytes r 47547 6) 0); rewrite Er; reflexivity). subst e.
    cbn [is_value_error]. destruct (Hcont [TxRead 47547 6]) as (r' & ds' & t & H1 & H2). exists r', ds', t. split; [exact H1|exact H2].
Qed.

(* ---------------------------------------------------------------- set_operation_mode: the two models agree on the caller's registers *)
Lemma plain_lists m : match m with MEcoCharge | MEcoDischarge => True | _ => forallb plain_step (et_set_mode m) = true end.
Proof. destruct m; try exact I; vm_compute; reflexivity. Qed.

Lemma eco_tail_plain : forallb plain_step tail_steps = true.
Proof. vm_compute. reflexivity. Qed.

Theorem set_mode_is_the_c19_model a b who m p soc r ds :
  forall r' ds' rr t, mode_steps (et_tctx a b) who p soc (et_set_mode m) r ds = (r', ds', rr, t) ->
  run_msteps (ctx (pl745 a b who) (d_ty (ds "eco_mode_1"%string)) p soc) (et_set_mode m) r = match rr with Ok _ => Ok r' | Exc e => Exc e end.
Proof.
  intros r' ds' rr t H.
  assert (Hmain : forall ch, mode_steps (et_tctx a b) who p soc (MCheckRange :: MEcoGroup ch :: tail_steps) r ds = (r', ds', rr, t) ->
            run_msteps (ctx (pl745 a b who) (d_ty (ds "eco_mode_1"%string)) p soc) (MCheckRange :: MEcoGroup ch :: tail_steps) r = match rr with Ok _ => Ok r' | Exc e => Exc e end).
  { intros ch. cbn [mode_steps run_msteps]. unfold mode_step at 1. unfold run_mstep at 1. cbn [ctx c_power c_soc].
    destruct ((p <? 0) || (p >? 100) || (soc <? 0) || (soc >? 100)) eqn:Erange.
    - intros H0; injection H0 as <- <- <- <-. reflexivity.
    - assert (Hp : 0 <= p <= 100 /\ 0 <= soc <= 100) by lia. destruct Hp as [Hp Hs].
      destruct (eco_group_sim a b who p soc ch r ds Hp Hs) as (r1 & ds1 & t1 & Hstep & Hrun). rewrite Hstep, Hrun.
      destruct (mode_steps (et_tctx a b) who p soc tail_steps r1 ds1) as [[[r2 ds2] rr2] t2] eqn:Et.
      intros H0; injection H0 as <- <- <- <-.
      exact (proj2 (plain_steps_sim a b who (d_ty (ds "eco_mode_1"%string)) p soc tail_steps eco_tail_plain r1 ds1 _ _ _ _ Et)). }
  pose proof (plain_lists m) as Hpl.
  destruct m; try exact (proj2 (plain_steps_sim a b who _ p soc _ Hpl r ds _ _ _ _ H)).
  - apply (Hmain true). exact H.
  - apply (Hmain false). exact H.
Qed.

(* ---------------------------------------------------------------- get_operation_mode: the two models agree *)
Lemma read_eco_rf (r : rfile) : read_setting r eco_sensor = read_schedule (rf_bytes r 47547 6) 0.
Proof. apply read_eco_of_bytes. reflexivity. Qed.

Theorem get_mode_is_the_c19_model a b who w :
  fst (snd (step (et_tctx a b) w who OGetMode)) =
  match get_operation_mode om_values et_settings (regs w who) with Ok m => OutMode m | Exc e => OutExc e end.
Proof.
  unfold step, get_operation_mode. cbn [et_tctx t_settings t_values]. rewrite lookup_wm, lookup_eco.
  destruct (read_setting (regs w who) wm_sensor) as [[| v | | | |]|e]; try reflexivity.
  destruct (find (fun p => snd p =? v) om_values) as [[[] ?]|]; try reflexivity.
  unfold read_group. cbn [et_tctx t_rv eco_sensor s_id s_offset]. rewrite read_eco_rf.
  pose proof (schedule_read_value_refined (w_defs w "eco_mode_1"%string) (rf_bytes (regs w who) 47547 6) 0) as R.
  destruct (run_rv schedule_read_value (w_defs w "eco_mode_1"%string) (rf_bytes (regs w who) 47547 6) 0) as [d' [u|e]]; rewrite R; reflexivity.
Qed.

(* ---------------------------------------------------------------- C19 inside C20 *)
(* alone, set_operation_mode(m, p, soc) followed by get_operation_mode() on one object returns m: every mode of the C19 theorems, every
   register content, whatever the shared definitions hold *)
Definition roundtrip_mode (m : mode) (p soc : Z) : Prop :=
  match m with MEcoCharge | MEcoDischarge => 1 <= p <= 100 /\ 0 <= soc <= 100 | MEco => False | _ => True end.

Lemma c19_run a b who m p soc r prev : roundtrip_mode m p soc ->
  exists r', run_msteps (ctx (pl745 a b who) prev p soc) (et_set_mode m) r = Ok r' /\ get_operation_mode om_values et_settings r' = Ok (Some m).
Proof.
  intros H. destruct m; cbn [roundtrip_mode] in H; try contradiction.
  all: try (match goal with |- exists r', run_msteps _ (et_set_mode ?m) _ = _ /\ _ =>
              destruct (simple_modes_roundtrip m r (pl745 a b who) prev p soc eq_refl) as (r' & H1 & H2); exists r'; split; assumption end).
  - destruct H as [Hp Hs]. destruct (eco_charge_roundtrip_rf r (pl745 a b who) prev p soc Hp Hs) as (r' & x & H1 & H2 & _). exists r'. split; assumption.
  - destruct H as [Hp Hs]. destruct (eco_discharge_roundtrip_rf r (pl745 a b who) prev p soc Hp Hs) as (r' & x & H1 & H2 & _). exists r'. split; assumption.
Qed.

Theorem set_then_get_alone a b who m p soc w : roundtrip_mode m p soc ->
  map fst (alone (et_tctx a b) w who [(who, OSetMode m p soc); (who, OGetMode)]) = [OutDone; OutMode (Some m)].
Proof.
  intros Hm. unfold alone. cbn [filter fst]. rewrite eqb_reflx. cbn [filter].
  rewrite !run_cons. cbn [run snd fst]. unfold mine. cbn [filter fst]. rewrite eqb_reflx. cbn [map snd fst].
  set (w1 := fst (step (et_tctx a b) w who (OSetMode m p soc))).
  assert (Hset : fst (snd (step (et_tctx a b) w who (OSetMode m p soc))) = OutDone /\
                 get_operation_mode om_values et_settings (regs w1 who) = Ok (Some m)).
  { unfold w1. unfold step. cbn [et_tctx t_steps].
    destruct (mode_steps (et_tctx a b) who p soc (et_set_mode m) (regs w who) (w_defs w)) as [[[r' ds'] rr] t] eqn:Es.
    pose proof (set_mode_is_the_c19_model a b who m p soc (regs w who) (w_defs w) _ _ _ _ Es) as Hsim.
    destruct (c19_run a b who m p soc (regs w who) (d_ty (w_defs w "eco_mode_1"%string)) Hm) as (r'' & Hrun & Hget).
    rewrite Hrun in Hsim. destruct rr as [u|e]; [|discriminate]. injection Hsim as <-.
    cbn [fst snd]. rewrite regs_set_defs, regs_set_regs. split; [reflexivity|exact Hget]. }
  destruct Hset as [H1 H2]. rewrite H1, get_mode_is_the_c19_model, H2. reflexivity.
Qed.

(* ... and therefore inside EVERY interleaving in which the other object does not touch a schedule definition *)
Theorem mode_roundtrip_in_interleavings a b who m p soc l1 l2 l3 w :
  roundtrip_mode m p soc ->
  (forall o, In o (l1 ++ l2 ++ l3) -> fst o = negb who /\ touches (et_tctx a b) (snd o) = false) ->
  map fst (mine who (snd (run (et_tctx a b) w (l1 ++ (who, OSetMode m p soc) :: l2 ++ (who, OGetMode) :: l3)))) = [OutDone; OutMode (Some m)].
Proof.
  intros Hm Hothers.
  set (l := l1 ++ (who, OSetMode m p soc) :: l2 ++ (who, OGetMode) :: l3).
  assert (Hn : neighbour_untouching (et_tctx a b) who l).
  { intros o Hin. unfold l in Hin. rewrite in_app_iff in Hin. cbn [In] in Hin. rewrite in_app_iff in Hin. cbn [In] in Hin.
    assert (Hneq : forall o', (who, o') <> (negb who, o)) by (intros o' E; injection E as E _; destruct who; discriminate).
    destruct Hin as [Hin|[Hin|[Hin|[Hin|Hin]]]]; try (exfalso; eapply Hneq; eassumption);
      apply (Hothers (negb who, o)); rewrite !in_app_iff; auto. }
  rewrite (untouching_neighbour_does_not_interfere _ who l w Hn).
  assert (Hf : filter (fun x => Bool.eqb (fst x) who) l = [(who, OSetMode m p soc); (who, OGetMode)]).
  { assert (Hnil : forall l0, (forall o, In o l0 -> fst o = negb who) -> filter (fun x : bool * op => Bool.eqb (fst x) who) l0 = []).
    { induction l0 as [|x tl IH]; intros H; [reflexivity|]. cbn [filter]. rewrite (H x (or_introl eq_refl)).
      replace (Bool.eqb (negb who) who) with false by (destruct who; reflexivity). apply IH. intros o Ho. apply H. right. exact Ho. }
    unfold l. rewrite filter_app. cbn [filter fst]. rewrite eqb_reflx, filter_app. cbn [filter fst]. rewrite eqb_reflx.
    rewrite !Hnil; [reflexivity| | |]; intros o Ho; apply (Hothers o); rewrite !in_app_iff; auto. }
  pose proof (set_then_get_alone a b who m p soc w Hm) as Halone. unfold alone in *. rewrite Hf.
  assert (Hf2 : filter (fun x : bool * op => Bool.eqb (fst x) who) [(who, OSetMode m p soc); (who, OGetMode)] = [(who, OSetMode m p soc); (who, OGetMode)])
    by (cbn [filter fst]; rewrite !eqb_reflx; reflexivity).
  rewrite Hf2 in Halone. exact Halone.
Qed.

(* ---------------------------------------------------------------- C18 on the model *)
Theorem eco_mode_arguments_rejected a b who (ch : bool) p soc r ds : p < 0 \/ 100 < p \/ soc < 0 \/ 100 < soc ->
  mode_steps (et_tctx a b) who p soc (et_set_mode (if ch then MEcoCharge else MEcoDischarge)) r ds = (r, ds, (Exc EValue : res unit), ([] : list tx)).
Proof.
  intros H. destruct ch; cbn [et_set_mode mode_steps mode_step];
    replace ((p <? 0) || (p >? 100) || (soc <? 0) || (soc >? 100)) with true by lia; reflexivity.
Qed.

Theorem model_reads_transmit_no_write a b w who o : (match o with ORead _ | OGetMode => True | _ => False end) ->
  forallb (fun t => match t with TxRead _ _ => true | TxWrite _ _ => false end) (snd (snd (step (et_tctx a b) w who o))) = true.
Proof.
  destruct o as [id| | | |]; intros H; try contradiction; unfold step.
  - destruct (lookup id (t_settings (et_tctx a b))) as [s|]; [|reflexivity]. destruct (is_sched s); [|reflexivity].
    unfold read_group. destruct (run_rv _ _ _ _) as [d' rr]. reflexivity.
  - destruct (lookup "work_mode" (t_settings (et_tctx a b))) as [wm|]; [|reflexivity]. destruct (lookup "eco_mode_1" (t_settings (et_tctx a b))) as [eco|]; [|reflexivity].
    destruct (read_setting (regs w who) wm) as [[| v | | | |]|]; try reflexivity.
    destruct (find _ (t_values (et_tctx a b))) as [[[] ?]|]; try reflexivity.
    unfold read_group. destruct (run_rv _ _ _ _) as [d' rr]. reflexivity.
Qed.

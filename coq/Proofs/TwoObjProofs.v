(* C20 on the two-object model (Model/TwoObj.v) instantiated with what the translators read from the current source. *)
From Coq Require Import ZArith List Bool String Lia.
From GW Require Import Prelude PyStr PyFloat Sensors SensorProofs Settings TablesGen SettingsGen SettingsProofs SchedDef SharedGen SchedDefRefine
  Modes ModesGen ModesInst ModesProofs TwoObj TwoObjInst.
Import ListNotations.
Open Scope Z_scope.


(* ---------------------------------------------------------------- structure of a step *)
Lemma regs_set_regs w who r : regs (set_regs w who r) who = r.
Proof. destruct who; reflexivity. Qed.
Lemma regs_set_regs_other w who r : regs (set_regs w who r) (negb who) = regs w (negb who).
Proof. destruct who; reflexivity. Qed.
Lemma defs_set_regs w who r : w_defs (set_regs w who r) = w_defs w.
Proof. destruct who; reflexivity. Qed.
Lemma regs_set_defs w who ds : regs (set_defs w ds) who = regs w who.
Proof. destruct who; reflexivity. Qed.
Lemma defs_set_defs w ds : w_defs (set_defs w ds) = ds.
Proof. reflexivity. Qed.

(* a call on one object never changes the registers of the other object's inverter *)
Lemma step_other_regs c w who o : regs (fst (step c w who o)) (negb who) = regs w (negb who).
Proof.
  unfold step. destruct o as [id|id v|id bs|m p soc|].
  - destruct (lookup id (t_settings c)) as [s|]; [|reflexivity]. destruct (is_sched s); [|reflexivity].
    destruct (read_group c (regs w who) (w_defs w) s) as [[ds' rr] t]. cbn [fst]. apply regs_set_defs.
  - destruct (write_int c (regs w who) id v) as [[r' rr] t]. cbn [fst]. apply regs_set_regs_other.
  - destruct (lookup id (t_settings c)) as [s|]; [|reflexivity]. destruct (is_sched s); [|reflexivity].
    destruct (write_group c (regs w who) (w_defs w) s bs) as [[[r' ds'] rr] t]. cbn [fst]. rewrite regs_set_defs. apply regs_set_regs_other.
  - destruct (mode_steps c who p soc (t_steps c m) (regs w who) (w_defs w)) as [[[r' ds'] rr] t]. cbn [fst]. rewrite regs_set_defs. apply regs_set_regs_other.
  - destruct (lookup "work_mode" (t_settings c)) as [wm|]; [|reflexivity]. destruct (lookup "eco_mode_1" (t_settings c)) as [eco|]; [|reflexivity].
    destruct (read_setting (regs w who) wm) as [[| v | | | |]|]; try reflexivity.
    destruct (find _ (t_values c)) as [[[] ?]|]; try reflexivity.
    destruct (read_group c (regs w who) (w_defs w) eco) as [[ds' rr] t]. cbn [fst]. apply regs_set_defs.
Qed.

(* the steps of an operation mode without the eco-group step leave the definitions alone *)
Definition is_eco_group (st : mstep) : bool := match st with MEcoGroup _ => true | _ => false end.

Lemma mode_step_defs c who p soc st r ds : is_eco_group st = false -> snd (fst (fst (mode_step c who p soc st r ds))) = ds.
Proof.
  destruct st; cbn [is_eco_group]; intros H; try discriminate; cbn [mode_step].
  - destruct (write_int c r id v) as [[r' rr] t]. reflexivity.
  - destruct (t_offline c) as [[reg on] off]. reflexivity.
  - destruct (t_clear c) as [reg v]. reflexivity.
  - reflexivity.
Qed.

Lemma mode_steps_defs c who p soc l : forall r ds, existsb is_eco_group l = false -> snd (fst (fst (mode_steps c who p soc l r ds))) = ds.
Proof.
  induction l as [|st tl IH]; intros r ds H; [reflexivity|].
  cbn [existsb] in H. apply orb_false_iff in H as [H1 H2]. cbn [mode_steps].
  pose proof (mode_step_defs c who p soc st r ds H1) as E.
  destruct (mode_step c who p soc st r ds) as [[[r' ds'] rr] t]. cbn [fst snd] in E. subst ds'.
  destruct rr as [u|e]; [|reflexivity].
  pose proof (IH r' ds H2) as E2. destruct (mode_steps c who p soc tl r' ds) as [[[r'' ds''] rr'] t']. exact E2.
Qed.

(* a call that does not touch a schedule definition leaves all of them as they are *)
Lemma step_untouching_defs c w who o : touches c o = false -> w_defs (fst (step c w who o)) = w_defs w.
Proof.
  unfold step, touches. destruct o as [id|id v|id bs|m p soc|]; intros H.
  - destruct (lookup id (t_settings c)) as [s|]; [|reflexivity]. rewrite H. reflexivity.
  - destruct (write_int c (regs w who) id v) as [[r' rr] t]. cbn [fst]. apply defs_set_regs.
  - destruct (lookup id (t_settings c)) as [s|]; [|reflexivity]. rewrite H. reflexivity.
  - pose proof (mode_steps_defs c who p soc (t_steps c m) (regs w who) (w_defs w) H) as E.
    destruct (mode_steps c who p soc (t_steps c m) (regs w who) (w_defs w)) as [[[r' ds'] rr] t]. cbn [fst snd] in *. subst ds'. reflexivity.
  - discriminate.
Qed.

(* what a call returns and transmits, and what it leaves behind, depends only on the registers of its own inverter and on the definitions *)
Definition same_view (who : bool) (w1 w2 : world) : Prop := regs w1 who = regs w2 who /\ w_defs w1 = w_defs w2.

Lemma step_depends c who o w1 w2 : same_view who w1 w2 ->
  snd (step c w1 who o) = snd (step c w2 who o) /\ same_view who (fst (step c w1 who o)) (fst (step c w2 who o)).
Proof.
  intros [Hr Hd]. unfold step. rewrite Hr, Hd. unfold same_view.
  destruct o as [id|id v|id bs|m p soc|].
  - destruct (lookup id (t_settings c)) as [s|]; [|cbn; auto]. destruct (is_sched s); [|cbn; auto].
    destruct (read_group c (regs w2 who) (w_defs w2) s) as [[ds' rr] t]. cbn [fst snd]. rewrite !regs_set_defs, !defs_set_defs. auto.
  - destruct (write_int c (regs w2 who) id v) as [[r' rr] t]. cbn [fst snd]. rewrite !regs_set_regs, !defs_set_regs. auto.
  - destruct (lookup id (t_settings c)) as [s|]; [|cbn; auto]. destruct (is_sched s); [|cbn; auto].
    destruct (write_group c (regs w2 who) (w_defs w2) s bs) as [[[r' ds'] rr] t]. cbn [fst snd]. rewrite !regs_set_defs, !defs_set_defs, !regs_set_regs. auto.
  - destruct (mode_steps c who p soc (t_steps c m) (regs w2 who) (w_defs w2)) as [[[r' ds'] rr] t]. cbn [fst snd].
    rewrite !regs_set_defs, !defs_set_defs, !regs_set_regs. auto.
  - destruct (lookup "work_mode" (t_settings c)) as [wm|]; [|cbn; auto]. destruct (lookup "eco_mode_1" (t_settings c)) as [eco|]; [|cbn; auto].
    destruct (read_setting (regs w2 who) wm) as [[| v | | | |]|]; try (cbn; auto; fail).
    destruct (find _ (t_values c)) as [[[] ?]|]; try (cbn; auto; fail).
    destruct (read_group c (regs w2 who) (w_defs w2) eco) as [[ds' rr] t]. cbn [fst snd]. rewrite !regs_set_defs, !defs_set_defs. auto.
Qed.

(* ---------------------------------------------------------------- non-interference *)
Definition neighbour_untouching (c : tctx) (who : bool) (l : list (bool * op)) : Prop :=
  forall o, In (negb who, o) l -> touches c o = false.

Lemma run_cons c w who o tl : run c w ((who, o) :: tl) = (fst (run c (fst (step c w who o)) tl), (who, snd (step c w who o)) :: snd (run c (fst (step c w who o)) tl)).
Proof. cbn [run]. destruct (step c w who o) as [w' x]. cbn [fst snd]. destruct (run c w' tl) as [w'' xs]. reflexivity. Qed.

Lemma noninterference_gen c who l : forall w1 w2, same_view who w1 w2 -> neighbour_untouching c who l ->
  mine who (snd (run c w1 l)) = mine who (snd (run c w2 (filter (fun x => Bool.eqb (fst x) who) l))).
Proof.
  induction l as [|[x o] tl IH]; intros w1 w2 Hs Hn; [reflexivity|].
  assert (Hn' : neighbour_untouching c who tl) by (intros o' Hin; apply Hn; right; exact Hin).
  rewrite run_cons. cbn [filter fst]. destruct (Bool.eqb x who) eqn:Ex.
  - apply eqb_prop in Ex. subst x. rewrite run_cons. unfold mine. cbn [filter fst snd]. rewrite eqb_reflx. cbn [map snd].
    destruct (step_depends c who o w1 w2 Hs) as [Ho Hs']. rewrite Ho. f_equal. apply (IH _ _ Hs' Hn').
  - assert (x = negb who) by (destruct x, who; cbn in Ex; try discriminate; reflexivity). subst x.
    unfold mine at 1. cbn [filter fst snd]. rewrite Ex. apply IH; [|exact Hn'].
    destruct Hs as [Hr Hd]. split.
    + rewrite <- Hr. pose proof (step_other_regs c w1 (negb who) o) as E. rewrite negb_involutive in E. exact E.
    + rewrite <- Hd. apply step_untouching_defs. apply Hn. left. reflexivity.
Qed.

(* C20, the part that holds: whatever the calls on an object are, it returns the same results and transmits the same requests as when
   its calls run alone, as long as the calls on the OTHER object do not touch a schedule definition -- for every interleaving, every
   register content of both inverters, every state of the definitions *)
Theorem untouching_neighbour_does_not_interfere c who l w : neighbour_untouching c who l ->
  mine who (snd (run c w l)) = alone c w who l.
Proof. intros Hn. unfold alone. apply noninterference_gen; [split; reflexivity | exact Hn]. Qed.

(* both directions at once: interleavings in which nobody touches a schedule definition *)
Corollary schedule_free_interleavings_are_independent c l w : (forall who o, In (who, o) l -> touches c o = false) ->
  mine false (snd (run c w l)) = alone c w false l /\ mine true (snd (run c w l)) = alone c w true l.
Proof. intros H. split; apply untouching_neighbour_does_not_interfere; intros o Hin; eapply H; exact Hin. Qed.

(* ---------------------------------------------------------------- which calls touch a definition, for the generated tables / step lists *)
Lemma touching_settings : map s_id (filter is_sched et_settings) = ["peak_shaving_mode"; "eco_mode_1"; "eco_mode_2"; "eco_mode_3"; "eco_mode_4"]%string.
Proof. vm_compute. reflexivity. Qed.

Lemma touching_modes a b m p soc :
  touches (et_tctx a b) (OSetMode m p soc) = match m with MEcoCharge | MEcoDischarge => true | _ => false end.
Proof. destruct m; reflexivity. Qed.

(* non-vacuity: the neighbour may set the plain operation modes, write and read scalar settings; the object itself may do anything *)
Example untouching_example :
  neighbour_untouching (et_tctx false true) false
    [(false, OSetMode MEcoCharge 50 80); (true, OSetMode MGeneral 0 0); (true, OWrite "work_mode" 2); (false, OGetMode);
     (true, ORead "grid_export_limit"); (false, ORead "eco_mode_1"); (true, OSetMode MEco 0 0); (false, OWriteGroup "eco_mode_2" [0; 0; 23; 59; 255; 127; 255; 206; 0; 80; 0; 0])].
Proof.
  intros o Hin. cbn [negb In] in Hin.
  repeat (destruct Hin as [Hin|Hin]; [try discriminate; injection Hin as <-; vm_compute; reflexivity|]). destruct Hin.
Qed.

(* ---------------------------------------------------------------- the property as stated is false: the two recorded findings as theorems *)
Definition rf_of (l : list (Z * list Z)) : rfile := fold_left (fun r x => rf_write_bytes r (fst x) (snd x)) l (fun _ => 0).
Definition defs0 : defs := fun k => if String.eqb k "peak_shaving_mode" then sdef0 3 None else sdef0 0 None.   (* as left by the constructors *)

(* A: 745 platform, its first eco group is a 745-type charge group; B: 205 platform, its first group is unreadable (hour 64) *)
Definition w_refute : world :=
  mkW (rf_of [(47547, [0; 0; 23; 59; 249; 127; 254; 12; 0; 80; 15; 255])]) (rf_of [(47547, [64; 0; 0; 0; 0; 0; 0; 0; 0; 0; 0; 0])]) defs0.

(* finding "shared-eco-mode-definition": after A merely READ its eco_mode_1, B's set_operation_mode(ECO_CHARGE, 50, 80) transmits other
   registers (745-scaled power -500 and month mask 0x0fff) than when B runs alone (power -50) *)
Theorem requests_differ_refuted :
  let c := et_tctx true false in
  let l := [(false, ORead "eco_mode_1"%string); (true, OSetMode MEcoCharge 50 80)] in
  mine true (snd (run c w_refute l)) <> alone c w_refute true l.
Proof. cbv zeta. intros H. vm_compute in H. discriminate H. Qed.

(* what B transmits in the two runs (first write of the group) *)
Example requests_differ_witness :
  let c := et_tctx true false in
  let l := [(false, ORead "eco_mode_1"%string); (true, OSetMode MEcoCharge 50 80)] in
  (exists o rest, mine true (snd (run c w_refute l)) = [(o, TxRead 47547 6 :: TxWrite 47547 [0; 5947; 63871; 65036; 80; 4095] :: rest)]) /\
  (exists o rest, alone c w_refute true l = [(o, TxRead 47547 6 :: TxWrite 47547 [0; 5947; 65407; 65486; 80; 0] :: rest)]).
Proof. cbv zeta. split; vm_compute; eexists; eexists; reflexivity. Qed.

(* finding "returned-eco-value-changes": the object handed to A's caller shows other content after B read the same setting *)
Definition deref (w : world) (o : out) : option sched := match o with OutRef id _ => Some (sched_of (w_defs w id)) | _ => None end.
Definition shown (o : out) : option sched := match o with OutRef _ x => Some x | _ => None end.

Theorem returned_value_changes_refuted :
  let c := et_tctx true false in
  let w := mkW (w_a w_refute) (rf_of [(47547, [0; 0; 23; 59; 255; 127; 0; 50; 0; 100; 0; 0])]) defs0 in
  let r := run c w [(false, ORead "eco_mode_1"%string); (true, ORead "eco_mode_1"%string)] in
  match snd r with
  | (_, (o, _)) :: _ => shown o <> None /\ deref (fst r) o <> shown o
  | [] => False end.
Proof. cbv zeta. vm_compute. split; intros H; discriminate H. Qed.

(* ... and also after a later read on the SAME object, once its registers changed *)
Theorem returned_value_changes_same_object :
  let c := et_tctx true false in
  let r := run c w_refute [(false, ORead "eco_mode_1"%string); (false, OSetMode MEcoDischarge 30 100); (false, ORead "eco_mode_1"%string)] in
  match snd r with
  | (_, (o, _)) :: _ => shown o <> None /\ deref (fst r) o <> shown o
  | [] => False end.
Proof. cbv zeta. vm_compute. split; intros H; discriminate H. Qed.

(* ---------------------------------------------------------------- what the package shares between objects (generated inventory) *)
Definition is_mut_kind (s : sensor) : bool := match s_kind s with KSchedule _ | KEcoModeV1 => true | _ => false end.
Definition rows_of (fam : string) (tables : list (list sensor)) : list (string * string * Z) :=
  flat_map (fun t => map (fun s => (fam, s_id s, s_offset s)) (filter is_mut_kind t)) tables.

Theorem shared_state_inventory :
  (* no class-level container, no mutable default argument, no memoising decorator anywhere in the package *)
  class_level_containers = [] /\ mutable_defaults = [] /\ caching_decorators = [] /\
  (* the only module-level name re-bound by a function: the Modbus/TCP transaction counter (exempted by the property) *)
  globals_written = ["protocol._modbus_tcp_tx"%string] /\
  (* the only stores to / mutating calls on objects that are neither fresh in the call nor fresh per instance: an inverter's own protocol object *)
  suspicious_mutations = ["Inverter.set_keep_alive: self._protocol.keep_alive = .."%string; "ProtocolCommand.execute: protocol._retry = .."%string] /\
  (* the sensor definition classes that assign their own attributes outside __init__ *)
  (* no object created at class-definition / import time (the ES read commands, the discovery command) is an instance of a class whose methods
     assign its own attributes: per-object state lives in objects created per inverter object *)
  forallb (fun x => negb (existsb (String.eqb (snd x)) stateful_object_classes_closure)) shared_instances = true /\
  self_mutating_definition_classes = ["EcoModeV1"; "EcoModeV2"; "PeakShavingMode"; "Schedule"]%string /\
  (* their instances in the class-level tables are exactly the rows of kind Schedule / EcoModeV1 of the generated tables *)
  mutable_rows =
    rows_of "ET" [ET_all_sensors; ET_all_sensors_battery; ET_all_sensors_battery2; ET_all_sensors_meter; ET_all_sensors_mppt; ET_all_settings; ET_settings_arm_fw_19; ET_settings_arm_fw_22] ++
    rows_of "DT" [DT_all_sensors; DT_all_sensors_meter; DT_all_settings; DT_settings_single_phase; DT_settings_three_phase] ++
    rows_of "ES" [ES_sensors; ES_all_settings; ES_settings_arm_fw_14].
Proof. repeat split; vm_compute; reflexivity. Qed.

(* C01 -- only validated response frames are ever delivered as results.
   Byte level: statements about the response validators TRANSLATED FROM /repo ON THIS RUN
   (Gen/ModbusGen.v, Gen/ProtoGen.v) against the hand-written frame specification Spec/Responses.v.
   Every proof is `exact <lemma>`.  The delivery part (a request only completes with data its
   validator accepted) is C01_delivery at the end, about the protocol model Model/Proto.v. *)
From Coq Require Import ZArith List Bool String.
From RecordUpdate Require Import RecordSet.
From GW Require Import Callbacks CallbackGen CallbackRefine CallbackSend Coroutines CoroutineGen CoroutineRefine Prelude PyStr Crc16 Frames Responses CrcTable ModbusGen ProtoGen RtuResp CmdResp Proto ProtoEvolves.
Import ListNotations RecordSetNotations.
Open Scope Z_scope.

(* a response validator has exactly four outcomes: accept, refuse, 'partial', 'rejected' -- for every
   byte string, every command class and all constructor arguments *)
Theorem C01_total : forall d, bytesP d -> all_validators_documented d.
Proof. exact cmd_total. Qed.

(* Modbus RTU (AA55 envelope): accepted => function code, byte count = 2 x count, length >= announced, CRC-16 correct *)
Theorem C01_rtu_read_sound : forall a off cnt d, bytesP d -> 1 <= cnt <= 125 ->
  ModbusRtuReadCommand_validator a off cnt d = Ok true -> wf_rtu_read cnt d.
Proof. exact cmd_rtu_read_sound. Qed.

(* accepted write answer => echoes function 6, the register and the (signed) value, CRC-16 correct *)
Theorem C01_rtu_write_sound : forall a reg v d, bytesP d ->
  ModbusRtuWriteCommand_validator a reg v d = Ok true -> wf_rtu_write 6 reg v d.
Proof. exact cmd_rtu_write_sound. Qed.

Theorem C01_rtu_write_multi_sound : forall a off values d, bytesP d ->
  ModbusRtuWriteMultiCommand_validator a off values d = Ok true -> wf_rtu_write 16 off (blen values / 2) d.
Proof. exact cmd_rtu_write_multi_sound. Qed.

(* Modbus/TCP (no checksum in the framing): function code, byte count, length; echo of register and value *)
Theorem C01_tcp_read_sound : forall a off cnt d, bytesP d -> 1 <= cnt <= 125 ->
  ModbusTcpReadCommand_validator a off cnt d = Ok true -> wf_tcp_read cnt d.
Proof. exact cmd_tcp_read_sound. Qed.

Theorem C01_tcp_write_sound : forall a reg v d, bytesP d ->
  ModbusTcpWriteCommand_validator a reg v d = Ok true -> wf_tcp_write 6 reg v d.
Proof. exact cmd_tcp_write_sound. Qed.

Theorem C01_tcp_write_multi_sound : forall a off values d, bytesP d ->
  ModbusTcpWriteMultiCommand_validator a off values d = Ok true -> wf_tcp_write 16 off (blen values / 2) d.
Proof. exact cmd_tcp_write_multi_sound. Qed.

(* AA55: exact length byte + 9, response type of the command (019A read, 02B9 write), additive checksum *)
Theorem C01_aa55_read_sound : forall off cnt d, bytesP d ->
  Aa55ReadCommand_validator off cnt d = Ok true -> wf_aa55 410 d.
Proof. exact cmd_aa55_read_sound. Qed.

Theorem C01_aa55_write_sound : forall reg v d, bytesP d ->
  Aa55WriteCommand_validator reg v d = Ok true -> wf_aa55 697 d.
Proof. exact cmd_aa55_write_sound. Qed.

Theorem C01_aa55_write_multi_sound : forall off values d, bytesP d ->
  Aa55WriteMultiCommand_validator off values d = Ok true -> wf_aa55 697 d.
Proof. exact cmd_aa55_write_multi_sound. Qed.

(* the generic AA55 command (device info 0182, runtime 0186, settings 0189, setters 03xx) *)
Theorem C01_aa55_generic_sound : forall payload rt off v rtv d, bytesP d -> rt <> ""%string ->
  int_of_str rt 16 = Ok rtv ->
  Aa55ProtocolCommand_validator payload rt off v d = Ok true -> wf_aa55 rtv d.
Proof. exact cmd_aa55_generic_sound. Qed.

(* the table driven checksum of the library is the Modbus CRC-16 *)
Theorem C01_crc : forall data, bytesP data -> _modbus_checksum data = Ok (crc16 data).
Proof. exact modbus_checksum_spec. Qed.

(* Delivery (protocol model, Model/Proto.v): in every run -- any interleaving of callers, answers, timeouts, connection
   losses, on any number of event loops -- a request completes with data t only if the validator answered 'accept' on
   exactly t (s_accepted collects the data validated with verdict VAccept, after fragment concatenation). *)
Theorem C01_delivery : forall es k ka r s acts, Proto.run (Proto.init k ka r) es = Some (s, acts) ->
  forall c t, In (ADone c (OResp t)) acts -> In t (s_accepted s).
Proof. exact delivery. Qed.

(* The model's steps ARE the current source (translated on this run, fail-closed).  Reception: interpreting the generated programs of
   datagram_received / data_received gives `received` for every state, datagram and validator verdict -- a result is set only on 'accept'. *)
Theorem C01_datagram_received_is_the_model : forall s id len v, s_kind s = UDP -> s_cmd s = true ->
  runm udp_datagram_received s (rx_locals id len v) = received s id len v.
Proof. exact udp_datagram_received_refined. Qed.
Theorem C01_data_received_is_the_model : forall s id len v, s_kind s = TCP -> s_cmd s = true ->
  runm tcp_data_received s (rx_locals id len v) = received s id len v.
Proof. exact tcp_data_received_refined. Qed.

(* Transmission: `self.command` (whose validator judges what is received) is assigned by _send_request together with the response future and the
   reset of the fragment state, in the same synchronous step that puts the request on the wire -- the generated program is the model's do_send *)
Theorem C01_transmission_is_the_model : forall s k d t,
  do_send s k d t =
  let f := List.length (s_futs s) in
  let l := locals0 <| l_transport := t |> <| l_fut := f |> <| l_task := k |> in
  match execb (send_prog (s_kind s)) (s <| s_futs := (s_futs s ++ [FPending])%list |>) l with
  | (s', _, acts, _) =>
      match fstat_of s' f with
      | FPending => (set_pc (upd_task s' k (fun tk => tk <| t_depth := d |>)) k (PcAwait f), acts, None)
      | FExc e => (s', acts, Some (RRaise e))
      | FCancelled => (s', acts, Some (RRaise XCancelled))
      | FResult _ => (s', acts, Some (RFut f))
      end
  end.
Proof. exact do_send_refined. Qed.

(* ... and _send_request is reached only from the coroutine send_request, whose skeleton (tools/co2v.py: the lock is acquired FIRST, then connect,
   create the future, _send_request, await; the except clauses retry through the same path) is the one the model runs *)
Theorem C01_send_request_is_the_model : forall again s k d e,
  sr_exception again s k d e = g_sr_exception again (sr_shape_of (s_kind s)) s k d e.
Proof. exact sr_exception_refined. Qed.

Print Assumptions C01_total.
Print Assumptions C01_delivery.
Print Assumptions C01_rtu_read_sound.
Print Assumptions C01_rtu_write_sound.
Print Assumptions C01_rtu_write_multi_sound.
Print Assumptions C01_tcp_read_sound.
Print Assumptions C01_tcp_write_sound.
Print Assumptions C01_tcp_write_multi_sound.
Print Assumptions C01_aa55_read_sound.
Print Assumptions C01_aa55_write_sound.
Print Assumptions C01_aa55_write_multi_sound.
Print Assumptions C01_aa55_generic_sound.
Print Assumptions C01_crc.
Print Assumptions C01_datagram_received_is_the_model.
Print Assumptions C01_data_received_is_the_model.
Print Assumptions C01_transmission_is_the_model.
Print Assumptions C01_send_request_is_the_model.

(* C02 -- every conforming response frame is accepted, with exactly its payload.
   Statements about the validators and trim_response functions TRANSLATED FROM /repo ON THIS RUN,
   for frames built by the hand-written specification Spec/Responses.v (any payload content, any
   unit address, optional trailing bytes after a Modbus frame).  Every proof is `exact <lemma>`. *)
From Coq Require Import ZArith List Bool String.
From GW Require Import Prelude PyStr Crc16 Frames Responses CrcTable ModbusGen ProtoGen RtuResp TcpResp Aa55Resp CmdResp Proto ProtoAccept.
Import ListNotations.
Open Scope Z_scope.

Theorem C02_rtu_read : forall a addr off cnt payload trailing,
  0 <= addr < 256 -> bytesP payload -> llen payload = 2 * cnt -> 1 <= cnt <= 125 ->
  ModbusRtuReadCommand_validator a off cnt (rtu_read_frame addr payload ++ trailing) = Ok true.
Proof. exact cmd_rtu_read_accept. Qed.

(* response_data() = raw[5:-2]: the payload at its place; exactly the payload when nothing trails *)
Theorem C02_rtu_read_payload : forall (self : pcmd) addr payload trailing,
  firstn (List.length payload) (ModbusRtuProtocolCommand_trim_response self (rtu_read_frame addr payload ++ trailing)) = payload /\
  (trailing = [] -> ModbusRtuProtocolCommand_trim_response self (rtu_read_frame addr payload ++ trailing) = payload).
Proof. exact (fun _ => rtu_read_trim). Qed.

Theorem C02_rtu_write : forall a addr reg v trailing,
  0 <= addr < 256 -> 0 <= reg < 65536 -> -32768 <= v < 32768 ->
  ModbusRtuWriteCommand_validator a reg v (rtu_write_frame addr 6 reg v ++ trailing) = Ok true.
Proof. exact cmd_rtu_write_accept. Qed.

Theorem C02_rtu_write_multi : forall a addr off values trailing,
  0 <= addr < 256 -> 0 <= off < 65536 -> 2 <= blen values <= 246 ->
  ModbusRtuWriteMultiCommand_validator a off values (rtu_write_frame addr 16 off (blen values / 2) ++ trailing) = Ok true.
Proof. exact cmd_rtu_write_multi_accept. Qed.

Theorem C02_tcp_read : forall a tx1 tx2 u off cnt payload trailing,
  llen payload = 2 * cnt -> 1 <= cnt <= 125 ->
  ModbusTcpReadCommand_validator a off cnt (tcp_read_frame tx1 tx2 u payload ++ trailing) = Ok true.
Proof. exact cmd_tcp_read_accept. Qed.

Theorem C02_tcp_read_payload : forall (self : pcmd) tx1 tx2 u payload,
  ModbusTcpProtocolCommand_trim_response self (tcp_read_frame tx1 tx2 u payload) = payload.
Proof. exact (fun _ => tcp_read_trim). Qed.

Theorem C02_tcp_write : forall a tx1 tx2 u reg v trailing,
  0 <= reg < 65536 -> -32768 <= v < 32768 ->
  ModbusTcpWriteCommand_validator a reg v (tcp_write_frame tx1 tx2 u 6 reg v ++ trailing) = Ok true.
Proof. exact cmd_tcp_write_accept. Qed.

Theorem C02_tcp_write_multi : forall a tx1 tx2 u off values trailing,
  0 <= off < 65536 -> 2 <= blen values <= 246 ->
  ModbusTcpWriteMultiCommand_validator a off values (tcp_write_frame tx1 tx2 u 16 off (blen values / 2) ++ trailing) = Ok true.
Proof. exact cmd_tcp_write_multi_accept. Qed.

(* AA55: any payload of 0..255 bytes, whatever its byte sum (checksums >= 0x8000 and sums >= 0x10000 included) *)
Theorem C02_aa55_read : forall off cnt src dst payload, llen payload <= 255 ->
  Aa55ReadCommand_validator off cnt (aa55_frame src dst 1 154 payload) = Ok true.
Proof. exact cmd_aa55_read_accept. Qed.

Theorem C02_aa55_write : forall reg v src dst payload, llen payload <= 255 ->
  Aa55WriteCommand_validator reg v (aa55_frame src dst 2 185 payload) = Ok true.
Proof. exact cmd_aa55_write_accept. Qed.

Theorem C02_aa55_write_multi : forall off vs src dst payload, llen payload <= 255 ->
  Aa55WriteMultiCommand_validator off vs (aa55_frame src dst 2 185 payload) = Ok true.
Proof. exact cmd_aa55_write_multi_accept. Qed.

(* device info / runtime data / settings / setters: response type given as the hex string the caller passes *)
Theorem C02_aa55_generic : forall pl rt off v rtv src dst t1 t2 payload,
  0 <= t1 < 256 -> 0 <= t2 < 256 -> llen payload <= 255 -> rt <> ""%string ->
  int_of_str rt 16 = Ok rtv -> s16 (be16 t1 t2) = rtv ->
  Aa55ProtocolCommand_validator pl rt off v (aa55_frame src dst t1 t2 payload) = Ok true.
Proof. exact cmd_aa55_generic_accept. Qed.

Theorem C02_aa55_payload : forall (self : pcmd) src dst t1 t2 payload,
  Aa55ProtocolCommand_trim_response self (aa55_frame src dst t1 t2 payload) = payload.
Proof. exact (fun _ => aa55_trim). Qed.

(* ... and at the protocol level (Model/Proto.v; `received` is the current source of datagram_received / data_received: C07_*_is_the_model): a frame the
   validator accepts while a request is waiting completes the request's future with exactly that data -- alone, or appended to the stored fragment
   when it is the missing remainder --, disarms the response timer, resets the retry counter and wakes the waiting caller; nothing is raised *)
Theorem C02_accepted_answer_completes_the_request : forall s id len f,
  s_cmd s = true -> s_fut s = Some f -> pending s f = true ->
  let s' := fst (received s id len VAccept) in
  snd (received s id len VAccept) = [] /\
  fstat_of s' f = FResult (delivered s id len) /\
  s_retry s' = 0%nat /\
  (forall h, s_timer s = Some h -> ~ In h (s_handles s')) /\
  (forall k, awaiting f (s_tasks s) = Some k -> In (CbTask k) (s_ready s')).
Proof. exact accepted_answer_completes_the_request. Qed.

Print Assumptions C02_rtu_read.
Print Assumptions C02_rtu_read_payload.
Print Assumptions C02_rtu_write.
Print Assumptions C02_rtu_write_multi.
Print Assumptions C02_tcp_read.
Print Assumptions C02_tcp_read_payload.
Print Assumptions C02_tcp_write.
Print Assumptions C02_tcp_write_multi.
Print Assumptions C02_aa55_read.
Print Assumptions C02_aa55_write.
Print Assumptions C02_aa55_write_multi.
Print Assumptions C02_aa55_generic.
Print Assumptions C02_aa55_payload.
Print Assumptions C02_accepted_answer_completes_the_request.

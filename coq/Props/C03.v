(* C03 -- requests on the wire are canonical, decodable frames carrying the arguments.
   Statements only; every proof is `exact <lemma>`.  Gen.* = translated from /repo on this run. *)
From Coq Require Import ZArith List Bool String.
From GW Require Import Prelude PyStr Crc16 Frames CrcTable ModbusGen ProtoGen C03Proofs C03Aa55 CallGen.
Import ListNotations.
Open Scope Z_scope.

(* Modbus/RTU single-register request (function 3: v = count, function 6: v = value, negative
   values in two's complement): address, function, big-endian register and value, CRC-16 correct. *)
Theorem C03_rtu : forall a fn reg v,
  is_byte a = true -> is_byte fn = true -> 0 <= reg < 65536 -> -32768 <= v < 65536 ->
  exists f, create_modbus_rtu_request a fn reg v = Ok f /\
            parse_rtu_req f = Some {| rq_addr := a; rq_fn := fn; rq_reg := reg; rq_val := u16 v |}.
Proof. exact rtu_request_parses. Qed.

(* Modbus/RTU write-multiple: register count = bytes/2, byte count = len(bytes), payload verbatim *)
Theorem C03_rtu_multi : forall a fn reg values,
  is_byte a = true -> is_byte fn = true -> 0 <= reg < 65536 ->
  bytesP values -> 2 <= blen values <= 246 -> blen values mod 2 = 0 ->
  exists f, create_modbus_rtu_multi_request a fn reg values = Ok f /\
            parse_rtu_multi_req f = Some {| mq_addr := a; mq_fn := fn; mq_reg := reg;
                                            mq_count := blen values / 2; mq_bytecount := blen values;
                                            mq_payload := values |}.
Proof. exact rtu_multi_parses. Qed.

(* The table-driven CRC of the library is the bit-serial Modbus CRC-16 *)
Theorem C03_crc : forall data, bytesP data -> _modbus_checksum data = Ok (crc16 data).
Proof. exact modbus_checksum_spec. Qed.

(* Modbus/TCP frame as transmitted (after request_bytes put the transaction id in): protocol id 0,
   length field = number of bytes that follow, transaction id = next id *)
Theorem C03_tcp : forall a fn reg v tx,
  is_byte a = true -> is_byte fn = true -> 0 <= reg < 65536 -> -32768 <= v < 65536 -> 0 <= tx <= 65534 ->
  exists f0 wire self',
    create_modbus_tcp_request a fn reg v = Ok f0 /\
    ModbusTcpProtocolCommand_request_bytes (mk_pcmd f0 reg v) tx = Ok (wire, self', next_id tx) /\
    c_request self' = wire /\
    parse_mbap wire = Some {| tq_tx := next_id tx; tq_proto := 0; tq_len := 6;
                              tq_body := [a; fn; hi8 reg; lo8 reg; hi8 v; lo8 v] |} /\
    be16 (hi8 reg) (lo8 reg) = reg /\ be16 (hi8 v) (lo8 v) = u16 v.
Proof. exact tcp_wire_parses. Qed.

Theorem C03_tcp_multi : forall a fn reg values,
  is_byte a = true -> is_byte fn = true -> blen values <= 248 ->
  create_modbus_tcp_multi_request a fn reg values =
  Ok ([0; 1; 0; 0; 0; 7 + blen values; a; fn; hi8 reg; lo8 reg; 0; blen values / 2; blen values] ++ values).
Proof. exact tcp_multi_shape. Qed.

(* Transaction ids over an unbounded history of transmissions: always in 1..65534 (two bytes, never
   zero, no OverflowError) and different from the id of the previous transmission. *)
Theorem C03_tx : forall n tx0, 0 <= tx0 <= 65534 ->
  exists l, tx_history n tx0 = Ok l /\ List.length l = n /\
            Forall (fun t => 1 <= t <= 65534) l /\ adjacent_distinct (tx0 :: l).
Proof. exact tx_history_spec. Qed.

(* AA55 requests *)
Theorem C03_aa55_read : forall offset count, 0 <= offset < 65536 -> 0 <= count < 256 ->
  exists f, Aa55ReadCommand_request offset count = Ok f /\
            parse_aa55_req f = Some {| aq_type := 282; aq_payload := [offset / 256; offset mod 256; count] |}.
Proof. exact aa55_read_parses. Qed.

Theorem C03_aa55_write : forall register value, 0 <= register < 65536 -> -32768 <= value < 65536 ->
  exists f, Aa55WriteCommand_request register value = Ok f /\
            parse_aa55_req f = Some {| aq_type := 569;
              aq_payload := [register / 256; register mod 256; 1; u16 value / 256; u16 value mod 256] |}.
Proof. exact aa55_write_parses. Qed.

Theorem C03_aa55_write_multi : forall offset values, 0 <= offset < 65536 -> bytesP values -> blen values = 8 ->
  exists f, Aa55WriteMultiCommand_request offset values = Ok f /\
            parse_aa55_req f = Some {| aq_type := 569;
              aq_payload := [offset / 256; offset mod 256; 8] ++ values |}.
Proof. exact aa55_write_multi_parses. Qed.

(* from the inverter object to the command object: Inverter._read_command / _write_command / _write_multi_command delegate to the protocol
   object's factory, and each factory of the two transport classes is `return <Command>(self._comm_addr, <arguments>)` -- the command of its
   transport and kind, built anew from the object's own communication address on every call (tools/callgraph.py refuses anything else, e.g. a
   cache; this list exists only when that check passed on the current source) *)
Theorem C03_factories_construct_from_the_own_address :
  command_factories =
  [("UdpInverterProtocol", "read_command", "ModbusRtuReadCommand"); ("UdpInverterProtocol", "write_command", "ModbusRtuWriteCommand");
   ("UdpInverterProtocol", "write_multi_command", "ModbusRtuWriteMultiCommand"); ("TcpInverterProtocol", "read_command", "ModbusTcpReadCommand");
   ("TcpInverterProtocol", "write_command", "ModbusTcpWriteCommand"); ("TcpInverterProtocol", "write_multi_command", "ModbusTcpWriteMultiCommand")]%string.
Proof. exact (eq_refl command_factories). Qed.

Print Assumptions C03_rtu.
Print Assumptions C03_rtu_multi.
Print Assumptions C03_crc.
Print Assumptions C03_tcp.
Print Assumptions C03_tcp_multi.
Print Assumptions C03_tx.
Print Assumptions C03_aa55_read.
Print Assumptions C03_aa55_write.
Print Assumptions C03_aa55_write_multi.
Print Assumptions C03_factories_construct_from_the_own_address.

(* C04 -- every request terminates after at most retries+1 transmissions.
   Theorems about the protocol model Model/Proto.v (hand-written, replayed against the real classes callback by
   callback on every run).  Every proof is `exact <lemma>`. *)
From Coq Require Import List Bool Arith.
From RecordUpdate Require Import RecordSet.
From GW Require Import Proto ProtoEvolves ProtoProps ProtoBound Callbacks CallbackGen CallbackRefine CallbackSend Coroutines CoroutineGen CoroutineRefine ProtoMutex ProtoAnswer ProtoTimer ProtoConcBudget.
Import ListNotations RecordSetNotations.

(* in every reachable state the retry counter is within the configured budget (any interleaving, any number of callers) *)
Theorem C04_retry_bounded : forall es k ka r s acts,
  run (init k ka r) es = Some (s, acts) -> s_retry s <= s_retries s /\ s_retries s = r /\ s_kind s = k.
Proof. exact retry_bounded. Qed.

(* budget used up: the next timeout / connection loss ends the request with MaxRetries instead of a new attempt *)
Theorem C04_budget_exhausted : forall again s k d, s_retries s <= s_retry s ->
  sr_exception again s k d XCancelled = (let '(s1, f) := max_retries s in sr_unwind s1 k d (RFut f)).
Proof. exact budget_exhausted. Qed.

(* a retry consumes exactly one unit of the budget *)
Theorem C04_retry_consumes_one : forall again s k d, s_retry s < s_retries s -> s_kind s = UDP ->
  sr_exception again s k d XCancelled =
  again (let s1 := release_if_locked (s <| s_retry := S (s_retry s) |>) in if negb (s_ka s) then close_transport s1 else s1) k (S d).
Proof. exact retry_consumes_one. Qed.

(* THE BOUND: in every run in which callers use the object one after the other, the number of transmissions made for
   the current request never exceeds retries + 1 -- whatever arrives, times out, fails to connect or is lost *)
Theorem C04_bound : forall es k ka r s acts,
  run_seq (init k ka r) es = Some (s, acts) -> s_nsend s <= r + 1.
Proof. exact transmissions_bounded. Qed.

(* the model's timeout handler, retry-exhaustion helper and the synchronous part of a transmission ARE the current source of
   _timeout_mechanism / _max_retries_reached / _send_request (translated by tools/cb2v.py on this run) *)
Theorem C04_udp_timeout_mechanism_is_the_model : forall s l, s_kind s = UDP -> runm udp_timeout_mechanism s l = timeout_mechanism s.
Proof. exact udp_timeout_mechanism_refined. Qed.

Theorem C04_tcp_timeout_mechanism_is_the_model : forall s l, s_kind s = TCP -> runm tcp_timeout_mechanism s l = timeout_mechanism s.
Proof. exact tcp_timeout_mechanism_refined. Qed.

Theorem C04_max_retries_reached_is_the_model : forall s l,
  awaiting (length (s_futs (close_transport s))) (s_tasks (close_transport s)) = None ->
  execb cb_max_retries_reached s l = (fst (max_retries s), l, [], XReturn).
Proof. exact max_retries_refined. Qed.

Theorem C04_send_request_sync_is_the_model : forall s k d t,
  do_send s k d t =
  let f := length (s_futs s) in
  let l := locals0 <| l_transport := t |> <| l_fut := f |> <| l_task := k |> in
  match execb (send_prog (s_kind s)) (s <| s_futs := s_futs s ++ [FPending] |>) l with
  | (s', _, acts, _) =>
      match fstat_of s' f with
      | FPending => (set_pc (upd_task s' k (fun tk => tk <| t_depth := d |>)) k (PcAwait f), acts, None)
      | FExc e => (s', acts, Some (RRaise e))
      | FCancelled => (s', acts, Some (RRaise XCancelled))
      | FResult _ => (s', acts, Some (RFut f))
      end
  end.
Proof. exact do_send_refined. Qed.

(* the except clauses of send_request (which exceptions lead to a retry, which steps precede the recursive call) and the wait_for around
   the TCP connect, as emitted from the current source by tools/co2v.py, determine the model's exception handling *)
Theorem C04_except_clauses_are_the_model : forall again s k d e,
  sr_exception again s k d e = g_sr_exception again (sr_shape_of (s_kind s)) s k d e.
Proof. exact sr_exception_refined. Qed.

Theorem C04_wait_for_is_the_model : forall s, (match s_kind s with TCP => true | UDP => false end) = sh_wait_for (sr_shape_of (s_kind s)).
Proof. exact wait_for_refined. Qed.

(* "a request never hangs": in EVERY state of EVERY run (any callers, any events) a caller that waits for an answer that has not arrived
   has a timeout armed -- the protocol object's timer handle is live, or the deferred call of _timeout_mechanism is queued.  (That an armed
   timer eventually fires is the assumption about the event loop; the firing resolves the future: C04_*_timeout_mechanism_is_the_model.) *)
Theorem C04_waiting_caller_has_a_timeout_armed : forall es kd ka r s acts, run (init kd ka r) es = Some (s, acts) ->
  forall k f, pc_of s k = Some (PcAwait f) -> pending s f = true ->
  (exists h, s_timer s = Some h /\ In h (s_handles s)) \/ In CbSoon (s_ready s).
Proof. exact waiting_caller_has_a_timeout_armed. Qed.

(* OBSERVATION outside the quantifier of this property (C04 and C05 range over one caller at a time; C06 does not speak about the budget):
   the bound above is stated for run_seq because it is FALSE for concurrent callers -- the retry counter belongs to the protocol object, and a
   caller that gives up the lock between two attempts can find it reset by another caller's success.  Witness (retries = 1): task 0 transmits
   three times before MaxRetries.  The real classes behave the same (DESIGN.md section 5, C04). *)
Theorem C04_bound_concurrent_refuted :
  exists es s acts, run (init UDP true 1) es = Some (s, acts) /\ sends_of 0 acts = 3 /\ In (ADone 0 OMaxRetries) acts.
Proof. exact bound_concurrent_refuted. Qed.

Print Assumptions C04_retry_bounded.
Print Assumptions C04_budget_exhausted.
Print Assumptions C04_retry_consumes_one.
Print Assumptions C04_bound.
Print Assumptions C04_udp_timeout_mechanism_is_the_model.
Print Assumptions C04_tcp_timeout_mechanism_is_the_model.
Print Assumptions C04_max_retries_reached_is_the_model.
Print Assumptions C04_send_request_sync_is_the_model.
Print Assumptions C04_except_clauses_are_the_model.
Print Assumptions C04_wait_for_is_the_model.
Print Assumptions C04_waiting_caller_has_a_timeout_armed.
Print Assumptions C04_bound_concurrent_refuted.

(* C04 -- every request terminates after at most retries+1 transmissions.
   Theorems about the protocol model Model/Proto.v (hand-written, replayed against the real classes callback by
   callback on every run).  Every proof is `exact <lemma>`. *)
From Coq Require Import List Bool Arith.
From RecordUpdate Require Import RecordSet.
From GW Require Import Proto ProtoEvolves ProtoProps ProtoBound.
Import ListNotations RecordSetNotations.

(* in every reachable state the retry counter is within the configured budget (any interleaving, any number of callers) *)
Theorem C04_retry_bounded : forall es k ka r s acts,
  run (init k ka r) es = Some (s, acts) -> s_retry s <= s_retries s /\ s_retries s = r /\ s_kind s = k.
Proof. exact retry_bounded. Qed.

(* budget used up: the next timeout / connection loss ends the request with MaxRetries instead of a new attempt *)
Theorem C04_budget_exhausted : forall again s k d, s_retries s <= s_retry s ->
  sr_exception again s k d XCancelled = (let '(s1, f) := max_retries s in sr_unwind s1 k d (RFut f)).
Proof. exact budget_exhausted. Qed.

(* a retry consumes exactly one unit of the budget *)
Theorem C04_retry_consumes_one : forall again s k d, s_retry s < s_retries s -> s_kind s = UDP ->
  sr_exception again s k d XCancelled =
  again (let s1 := release_if_locked (s <| s_retry := S (s_retry s) |>) in if negb (s_ka s) then close_transport s1 else s1) k (S d).
Proof. exact retry_consumes_one. Qed.

(* THE BOUND: in every run in which callers use the object one after the other, the number of transmissions made for
   the current request never exceeds retries + 1 -- whatever arrives, times out, fails to connect or is lost *)
Theorem C04_bound : forall es k ka r s acts,
  run_seq (init k ka r) es = Some (s, acts) -> s_nsend s <= r + 1.
Proof. exact transmissions_bounded. Qed.

Print Assumptions C04_retry_bounded.
Print Assumptions C04_budget_exhausted.
Print Assumptions C04_retry_consumes_one.
Print Assumptions C04_bound.

(* C05 -- retry budget and timeout are per request and exactly as configured.
   (a) FlowGen.v is regenerated from /repo on every run (tools/flow.py follows the constructor chains symbolically):
       every place where connect()/discover()/search_inverters() builds a protocol object stores exactly the caller's
       (timeout, retries) -- search: (1, 0);
   (b) protocol model: every request leaves the retry counter at 0; in sequential runs it is 0 whenever no request is in
       progress, and never exceeds the configured budget. *)
From Coq Require Import ZArith List Bool Arith.
From GW Require Import FlowGen Proto ProtoEvolves ProtoProps ProtoBound Coroutines CoroutineGen CoroutineRefine.
Import ListNotations.

Theorem C05_entry_points_pass_timeout_and_retries :
  Forall (fun f : Z -> Z -> Z * Z => forall t r : Z, f t r = (t, r)) connect_discover_sites.
Proof. exact (ltac:(repeat constructor) : Forall (fun f : Z -> Z -> Z * Z => forall t r : Z, f t r = (t, r)) connect_discover_sites). Qed.

Theorem C05_search_one_transmission_one_second : search_sites = [(1%Z, 0%Z)].
Proof. exact (eq_refl : search_sites = [(1%Z, 0%Z)]). Qed.

(* all 20 construction sites of connect/discover (6 + 1 in connect, 13 in discover) and the one of search_inverters are covered *)
Theorem C05_all_sites : length connect_discover_sites = 20%nat /\ length search_sites = 1%nat.
Proof. exact (conj eq_refl eq_refl : length connect_discover_sites = 20%nat /\ length search_sites = 1%nat). Qed.

Theorem C05_request_leaves_budget_full : forall s k r, s_retry (fst (exec_finish s k r)) = 0%nat.
Proof. exact exec_finish_resets. Qed.

Theorem C05_idle_means_fresh_budget : forall es k ka r s acts,
  run_seq (init k ka r) es = Some (s, acts) ->
  (forall c tk, get_task c (s_tasks s) = Some tk -> req_active (t_pc tk) = false) -> s_retry s = 0%nat.
Proof. exact idle_means_fresh_budget. Qed.

Theorem C05_budget_is_the_configured_one : forall es k ka r s acts,
  run (init k ka r) es = Some (s, acts) -> (s_retry s <= s_retries s)%nat /\ s_retries s = r /\ s_kind s = k.
Proof. exact retry_bounded. Qed.

(* the finally clause of ProtocolCommand.execute (reset of the retry counter, then close unless keep-alive), as emitted from the current
   source by tools/co2v.py, determines how the model ends a request *)
Theorem C05_execute_finally_is_the_model : forall s k r, exec_finish s k r = g_exec_finish execute_shape s k r.
Proof. exact exec_finish_refined. Qed.

Print Assumptions C05_entry_points_pass_timeout_and_retries.
Print Assumptions C05_search_one_transmission_one_second.
Print Assumptions C05_all_sites.
Print Assumptions C05_request_leaves_budget_full.
Print Assumptions C05_idle_means_fresh_budget.
Print Assumptions C05_budget_is_the_configured_one.
Print Assumptions C05_execute_finally_is_the_model.

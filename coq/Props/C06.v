(* C06 -- concurrent callers are serialised and each gets the answer to its own request.
   Protocol model Model/Proto.v (asyncio.Lock of CPython 3.12, the hand-rolled release-before-retry / release-in-finally of
   send_request and the lock taken by TcpInverterProtocol.close() included), validated callback by callback against the
   real classes with 2..4 concurrent callers.  The theorems quantify over ALL runs of the model: any number of callers, any
   interleaving of loop callbacks, I/O, timer, error and new-loop events, any fault oracle. *)
From Coq Require Import List Bool Arith.
From RecordUpdate Require Import RecordSet.
From GW Require Import Proto ProtoEvolves ProtoProps ProtoMutex ProtoAnswer Coroutines CoroutineGen CoroutineRefine.
Import ListNotations RecordSetNotations.

(* at most one caller is between lock.acquire() and the release with an await in between (connecting, or awaiting its answer) *)
Theorem C06_one_request_in_flight : forall es kd ka r s acts, run (init kd ka r) es = Some (s, acts) ->
  forall k k' p p', pc_of s k = Some p -> pc_of s k' = Some p' -> cs p = true -> cs p' = true -> k = k'.
Proof. exact one_request_in_flight. Qed.

(* a request is never put on the wire while another caller's request is connecting or still waiting for its answer *)
Theorem C06_transmit_only_when_nobody_else_waits : forall es kd ka r s acts e s' acts',
  run (init kd ka r) es = Some (s, acts) -> step s e = Some (s', acts') ->
  forall t k f, In (ASend t k f) acts' ->
  forall k' p, k' <> k -> pc_of s k' = Some p -> cs p = false.
Proof. exact transmit_only_when_nobody_else_waits. Qed.

(* whenever a future is pending it is the protocol object's response_future and exactly one caller awaits it: the data
   accepted while a caller waits completes that caller's future and nobody else's *)
Theorem C06_pending_future_is_the_awaited_one : forall es kd ka r s acts, run (init kd ka r) es = Some (s, acts) ->
  forall f, pending s f = true ->
    s_fut s = Some f /\ exists k, pc_of s k = Some (PcAwait f) /\ forall k' f', pc_of s k' = Some (PcAwait f') -> k' = k.
Proof. exact pending_future_is_the_awaited_one. Qed.

Theorem C06_waiting_caller_owns_the_response_future : forall es kd ka r s acts, run (init kd ka r) es = Some (s, acts) ->
  forall k f, pc_of s k = Some (PcAwait f) -> pending s f = true -> s_fut s = Some f.
Proof. exact waiting_caller_owns_the_response_future. Qed.

Theorem C06_release_frees_the_lock : forall s, s_lock (lock_release s) = false /\ s_owner (lock_release s) = None.
Proof. exact lock_release_unlocks. Qed.

Theorem C06_acquire_queues_behind_waiters : forall again s k d w tl,
  s_haslock s = true -> s_lockloop s = s_loop s -> s_waiters s = w :: tl ->
  exists s', sr_attempt_body again s k d = (s', []) /\
             (forall tk, get_task k (s_tasks s) = Some tk -> exists tk', get_task k (s_tasks s') = Some tk' /\ t_pc tk' = PcLockWait (s_nextw s)).
Proof. exact acquire_fast_path_only_when_free. Qed.

Theorem C06_future_completes_once : forall es s s' acts f,
  run s es = Some (s', acts) -> f < length (s_futs s) -> fstat_of s f <> FPending -> fstat_of s' f = fstat_of s f.
Proof. exact future_completes_once. Qed.

Theorem C06_delivered_data_was_accepted : forall es k ka r s acts, run (init k ka r) es = Some (s, acts) ->
  forall c t, In (ADone c (OResp t)) acts -> In t (s_accepted s).
Proof. exact delivery. Qed.

(* non-vacuity: two concurrent callers; the second queues behind the lock while the first awaits its answer, then each gets
   the data accepted during its own wait *)
Theorem C06_two_callers_run :
  option_map snd (run (init UDP false 1) two_callers) =
  Some [AOpen 0; ASend 0 0 0; ADone 0 (OResp [7]); AOpen 1; AClose 0; ASend 1 1 1; ADone 1 (OResp [8]); AClose 1].
Proof. exact two_callers_run. Qed.

Theorem C06_second_caller_queues :
  option_map (fun r => (pc_of (fst r) 0, pc_of (fst r) 1, pending (fst r) 0)) (run (init UDP false 1) ([EvCall 0; EvCall 1] ++ repeat EvPop 6)) =
  Some (Some (PcAwait 0), Some (PcLockWait 0), true).
Proof. exact second_caller_queues. Qed.

(* the lock discipline of the model is the one of the current source (tools/co2v.py): the steps of the finally clause of send_request,
   the release before the recursive retry (C04_except_clauses_are_the_model), and close() of a TCP object under the lock *)
Theorem C06_finally_is_the_model : forall n s, sr_finally n s = g_sr_finally (sr_shape_of (s_kind s)) n s.
Proof. exact sr_finally_refined. Qed.

Theorem C06_retry_releases_the_lock_as_the_source_does : forall again s k d e,
  sr_exception again s k d e = g_sr_exception again (sr_shape_of (s_kind s)) s k d e.
Proof. exact sr_exception_refined. Qed.

Theorem C06_close_takes_the_lock_as_the_source_does : forall s, (match s_kind s with TCP => true | UDP => false end) = cl_lock (cl_shape_of (s_kind s)).
Proof. exact close_lock_refined. Qed.

Print Assumptions C06_one_request_in_flight.
Print Assumptions C06_transmit_only_when_nobody_else_waits.
Print Assumptions C06_pending_future_is_the_awaited_one.
Print Assumptions C06_waiting_caller_owns_the_response_future.
Print Assumptions C06_release_frees_the_lock.
Print Assumptions C06_acquire_queues_behind_waiters.
Print Assumptions C06_future_completes_once.
Print Assumptions C06_delivered_data_was_accepted.
Print Assumptions C06_two_callers_run.
Print Assumptions C06_second_caller_queues.
Print Assumptions C06_finally_is_the_model.
Print Assumptions C06_retry_releases_the_lock_as_the_source_does.
Print Assumptions C06_close_takes_the_lock_as_the_source_does.

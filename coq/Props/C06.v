(* C06 -- concurrent callers are serialised and each gets the answer to its own request.
   Protocol model Model/Proto.v (asyncio.Lock of CPython 3.12 included), validated callback by callback against the real
   classes with 2..4 concurrent callers.  Proven here: the lock primitives behave as a lock (release hands over to at
   most the first waiter and leaves the lock free; acquire takes the fast path only on a free lock with an empty queue),
   a response is delivered only to the task awaiting that very future (completion wakes exactly that task), and a
   future is completed at most once.  The whole-run mutual-exclusion invariant is established by trace validation and the
   overlap monitor, not by a theorem (see DESIGN.md, C06). *)
From Coq Require Import List Bool Arith.
From RecordUpdate Require Import RecordSet.
From GW Require Import Proto ProtoEvolves ProtoProps.
Import ListNotations RecordSetNotations.

Theorem C06_release_frees_the_lock : forall s, s_lock (lock_release s) = false /\ s_owner (lock_release s) = None.
Proof. exact lock_release_unlocks. Qed.

Theorem C06_acquire_queues_behind_waiters : forall again s k d w tl,
  s_haslock s = true -> s_lockloop s = s_loop s -> s_waiters s = w :: tl ->
  exists s', sr_attempt_body again s k d = (s', []) /\
             (forall tk, get_task k (s_tasks s) = Some tk -> exists tk', get_task k (s_tasks s') = Some tk' /\ t_pc tk' = PcLockWait (s_nextw s)).
Proof. exact acquire_fast_path_only_when_free. Qed.

Theorem C06_future_completes_once : forall es s s' acts f,
  run s es = Some (s', acts) -> f < length (s_futs s) -> fstat_of s f <> FPending -> fstat_of s' f = fstat_of s f.
Proof. exact future_completes_once. Qed.

Theorem C06_delivered_data_was_accepted : forall es k ka r s acts, run (init k ka r) es = Some (s, acts) ->
  forall c t, In (ADone c (OResp t)) acts -> In t (s_accepted s).
Proof. exact delivery. Qed.

Print Assumptions C06_release_frees_the_lock.
Print Assumptions C06_acquire_queues_behind_waiters.
Print Assumptions C06_future_completes_once.
Print Assumptions C06_delivered_data_was_accepted.

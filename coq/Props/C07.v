(* C07 -- a response split into two fragments is reassembled exactly.
   Byte level (validators translated from /repo on this run): every proper prefix that contains the header is 'partial'
   with the exact expected length.  Protocol model: a 'partial' verdict stores the fragment and re-arms the timer without
   transmitting; the exact remainder (and only a chunk of exactly the missing length) is appended and, if the validator
   accepts the concatenation, delivered; every transmission starts with an empty fragment buffer. *)
From Coq Require Import ZArith List Bool String Arith.
From GW Require Import Callbacks CallbackGen CallbackRefine Prelude PyStr Crc16 Frames Responses CrcTable ModbusGen ProtoGen RtuResp CmdResp Proto ProtoEvolves ProtoProps.
Import ListNotations.

Theorem C07_rtu_prefix_is_partial : forall a addr off cnt payload n,
  (0 <= addr < 256)%Z -> bytesP payload -> llen payload = (2 * cnt)%Z -> (1 <= cnt <= 125)%Z -> (5 <= n < 2 * cnt + 7)%Z ->
  ModbusRtuReadCommand_validator a off cnt (firstn (Z.to_nat n) (rtu_read_frame addr payload)) = Exc (EPartial n (2 * cnt + 7)).
Proof. exact cmd_rtu_read_partial. Qed.

Theorem C07_tcp_prefix_is_partial : forall a tx1 tx2 u off cnt payload n,
  llen payload = (2 * cnt)%Z -> (1 <= cnt <= 125)%Z -> (9 <= n < 2 * cnt + 9)%Z ->
  ModbusTcpReadCommand_validator a off cnt (firstn (Z.to_nat n) (tcp_read_frame tx1 tx2 u payload)) = Exc (EPartial n (2 * cnt + 9)).
Proof. exact cmd_tcp_read_partial. Qed.

Theorem C07_aa55_prefix_is_partial : forall pl rt off v src dst t1 t2 payload n,
  (llen payload <= 255)%Z -> (9 <= n < llen payload + 9)%Z ->
  Aa55ProtocolCommand_validator pl rt off v (firstn (Z.to_nat n) (aa55_frame src dst t1 t2 payload)) = Exc (EPartial n (llen payload + 9)).
Proof. exact cmd_aa55_partial. Qed.

Theorem C07_fragment_is_stored_no_retransmission : forall s id len e,
  s_cmd s = true -> s_partial s = None ->
  let r := received s id len (VPartial e) in
  s_partial (fst r) = Some ([id], len, (e - len)%nat) /\ snd r = [] /\ s_futs (fst r) = s_futs s /\
  (exists h, s_timer (fst r) = Some h /\ In h (s_handles (fst r))).
Proof. exact partial_step. Qed.

Theorem C07_exact_remainder_is_appended_and_delivered : forall s id len p plen f,
  s_cmd s = true -> s_partial s = Some (p, plen, len) -> plen <> 0%nat -> s_fut s = Some f -> pending s f = true ->
  let r := received s id len VAccept in
  fstat_of (fst r) f = FResult (p ++ [id]) /\ s_partial (fst r) = None /\ snd r = [].
Proof. exact reassembly_step. Qed.

Theorem C07_other_lengths_are_never_appended : forall s id len p plen miss v,
  s_cmd s = true -> s_partial s = Some (p, plen, miss) -> miss <> len ->
  forall t, In t (s_accepted (fst (received s id len v))) -> In t (s_accepted s) \/ t = [id].
Proof. exact no_concat_on_length_mismatch. Qed.

Theorem C07_each_transmission_starts_without_fragment : forall s k d t, s_partial (fst (fst (do_send s k d t))) = None.
Proof. exact send_clears_fragment. Qed.

(* whatever is delivered -- reassembled or not -- was accepted by the validator as a whole (hence checksum-correct on
   the checksummed framings, by C01_*_sound) *)
Theorem C07_reassembled_data_was_validated : forall es k ka r s acts, run (init k ka r) es = Some (s, acts) ->
  forall c t, In (ADone c (OResp t)) acts -> In t (s_accepted s).
Proof. exact delivery. Qed.

(* the model's reception function IS the current source of datagram_received / data_received (translated by tools/cb2v.py on this
   run): interpreting the generated program gives `received` for every state, datagram and validator verdict *)
Theorem C07_datagram_received_is_the_model : forall s id len v, s_kind s = UDP -> s_cmd s = true ->
  runm udp_datagram_received s (rx_locals id len v) = received s id len v.
Proof. exact udp_datagram_received_refined. Qed.

Theorem C07_data_received_is_the_model : forall s id len v, s_kind s = TCP -> s_cmd s = true ->
  runm tcp_data_received s (rx_locals id len v) = received s id len v.
Proof. exact tcp_data_received_refined. Qed.

Print Assumptions C07_rtu_prefix_is_partial.
Print Assumptions C07_tcp_prefix_is_partial.
Print Assumptions C07_aa55_prefix_is_partial.
Print Assumptions C07_fragment_is_stored_no_retransmission.
Print Assumptions C07_exact_remainder_is_appended_and_delivered.
Print Assumptions C07_other_lengths_are_never_appended.
Print Assumptions C07_each_transmission_starts_without_fragment.
Print Assumptions C07_reassembled_data_was_validated.
Print Assumptions C07_datagram_received_is_the_model.
Print Assumptions C07_data_received_is_the_model.

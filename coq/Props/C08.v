(* C08 -- Modbus exception answers surface at once as RequestRejectedException(reason). *)
From Coq Require Import ZArith List Bool String Arith.
From GW Require Import Prelude PyStr Crc16 Frames Responses CrcTable ModbusGen ProtoGen RtuResp TcpResp CmdResp Proto ProtoEvolves ProtoProps.
Import ListNotations.

(* the reason table of the library (translated from goodwe/modbus.py) is the table of the Modbus specification;
   codes without an entry give 'UNKNOWN' *)
Theorem C08_reason_table : forall code, opt_default (dict_get FAILURE_CODES code) "UNKNOWN"%string = modbus_reason code.
Proof. exact failure_codes_spec. Qed.

(* the exact text the inverter classes compare against *)
Theorem C08_illegal_data_address_text : ILLEGAL_DATA_ADDRESS = "ILLEGAL DATA ADDRESS"%string /\ modbus_reason 2 = ILLEGAL_DATA_ADDRESS.
Proof. exact (conj eq_refl eq_refl : ILLEGAL_DATA_ADDRESS = "ILLEGAL DATA ADDRESS"%string /\ modbus_reason 2 = ILLEGAL_DATA_ADDRESS). Qed.

(* every exception frame (function | 0x80, any code 0..255, correct CRC) is 'rejected' with the reason of its code, by
   the validator of every command class *)
Theorem C08_rtu_exception_frames : forall a addr off cnt reg v vs code fn,
  (0 <= addr < 256)%Z -> fn = 3%Z \/ fn = 6%Z \/ fn = 16%Z -> (0 <= code < 256)%Z ->
  rejects (ModbusRtuReadCommand_validator a off cnt (rtu_exc_frame addr fn code)) code /\
  rejects (ModbusRtuWriteCommand_validator a reg v (rtu_exc_frame addr fn code)) code /\
  rejects (ModbusRtuWriteMultiCommand_validator a off vs (rtu_exc_frame addr fn code)) code.
Proof. exact cmd_rtu_exception. Qed.

Theorem C08_tcp_exception_frames : forall a tx1 tx2 u off cnt reg v vs code fn,
  fn = 3%Z \/ fn = 6%Z \/ fn = 16%Z ->
  rejects (ModbusTcpReadCommand_validator a off cnt (tcp_exc_frame tx1 tx2 u fn code)) code /\
  rejects (ModbusTcpWriteCommand_validator a reg v (tcp_exc_frame tx1 tx2 u fn code)) code /\
  rejects (ModbusTcpWriteMultiCommand_validator a off vs (tcp_exc_frame tx1 tx2 u fn code)) code.
Proof. exact cmd_tcp_exception. Qed.

(* protocol model: on a 'rejected' verdict the pending request's future fails in the same callback -- whatever the retry
   counter is -- and nothing is transmitted *)
Theorem C08_rejected_completes_the_request_at_once : forall s id len c f,
  s_cmd s = true -> s_fut s = Some f -> pending s f = true ->
  fstat_of (fst (received s id len (VRejected c))) f = FExc (XRejected c) /\ snd (received s id len (VRejected c)) = [].
Proof. exact reject_step. Qed.

(* ... the failure can not be overwritten later ... *)
Theorem C08_failure_is_final : forall es s s' acts f,
  run s es = Some (s', acts) -> (f < List.length (s_futs s))%nat -> fstat_of s f <> FPending -> fstat_of s' f = fstat_of s f.
Proof. exact future_completes_once. Qed.

(* ... and when the caller's task runs, it reports RequestRejectedException(reason) and transmits nothing *)
Theorem C08_caller_gets_rejected_without_retransmission : forall s k tk f c,
  get_task k (s_tasks s) = Some tk -> t_pc tk = PcAwait f -> fstat_of s f = FExc (XRejected c) ->
  forall a, In a (snd (task_step s k)) -> a = ADone k (ORejected c).
Proof. exact reject_resume. Qed.

Print Assumptions C08_reason_table.
Print Assumptions C08_illegal_data_address_text.
Print Assumptions C08_rtu_exception_frames.
Print Assumptions C08_tcp_exception_frames.
Print Assumptions C08_rejected_completes_the_request_at_once.
Print Assumptions C08_failure_is_final.
Print Assumptions C08_caller_gets_rejected_without_retransmission.

(* C09 -- failures surface only as InverterError, with a correct consecutive-failure count. *)
From Coq Require Import List Bool Arith.
From GW Require Import Proto ProtoEvolves ProtoProps FailCount FailCountProofs.
Import ListNotations.

(* the count carried by the RequestFailedException of a failing request = failed requests since the last successful one
   (this one included), for every history of outcomes, of any length; rejections neither count nor reset *)
Theorem C09_reported_count : forall h, last (count_run 0 (h ++ [RFail])) None = Some (S (fails_since_success h)).
Proof. exact reported_count. Qed.

Theorem C09_first_failure_after_success_reports_one : forall h, last (count_run 0 (h ++ [RSucc; RFail])) None = Some 1.
Proof. exact first_failure_reports_one. Qed.

(* every exception that can be stored in a future or raised inside send_request is mapped by execute() to an outcome of
   the library's own family (response / rejected / failed / max-retries), never to anything else *)
Theorem C09_exceptions_are_mapped : forall e x, classify e <> OOther x.
Proof. exact classify_no_other. Qed.

Theorem C09_reported_outcome_is_the_mapped_one : forall s k r a, In a (snd (exec_finish s k r)) -> a = ADone k (outcome_of s r).
Proof. exact exec_finish_acts. Qed.

Print Assumptions C09_reported_count.
Print Assumptions C09_first_failure_after_success_reports_one.
Print Assumptions C09_exceptions_are_mapped.
Print Assumptions C09_reported_outcome_is_the_mapped_one.

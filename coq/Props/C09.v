(* C09 -- failures surface only as InverterError, with a correct consecutive-failure count. *)
From Coq Require Import List Bool Arith.
From GW Require Import Proto ProtoEvolves ProtoProps ProtoNoExc FailCount FailCountProofs Callbacks CallbackGen CallbackRefine Coroutines CoroutineGen CoroutineRefine InvProg InverterGen InvProgInst InvProgRefine.
Import ListNotations.

(* the count carried by the RequestFailedException of a failing request = failed requests since the last successful one
   (this one included), for every history of outcomes, of any length; rejections neither count nor reset *)
Theorem C09_reported_count : forall h, last (count_run 0 (h ++ [RFail])) None = Some (S (fails_since_success h)).
Proof. exact reported_count. Qed.

Theorem C09_first_failure_after_success_reports_one : forall h, last (count_run 0 (h ++ [RSucc; RFail])) None = Some 1.
Proof. exact first_failure_reports_one. Qed.

(* every exception that can be stored in a future or raised inside send_request is mapped by execute() to an outcome of
   the library's own family (response / rejected / failed / max-retries), never to anything else *)
Theorem C09_exceptions_are_mapped : forall e x, classify e <> OOther x.
Proof. exact classify_no_other. Qed.

Theorem C09_reported_outcome_is_the_mapped_one : forall s k r a, In a (snd (exec_finish s k r)) -> a = ADone k (outcome_of s r).
Proof. exact exec_finish_acts. Qed.

(* no run of the protocol model -- any callers, any I/O, timer, OS-error, close() and new-loop events, any fault oracle -- leaves an
   exception in an event-loop callback: the callbacks that dereference the current command / response_future are only scheduled
   after the first transmission created them, and the retry recursion never runs out of fuel *)
Theorem C09_no_exception_in_loop_callbacks : forall es kd ka r s acts, run (init kd ka r) es = Some (s, acts) -> ~ In ALoopExc acts.
Proof. exact no_exception_in_loop_callbacks. Qed.

(* non-vacuity: ALoopExc is what the model emits for such an exception (an error callback on a protocol object that never sent) *)
Theorem C09_loop_exception_is_expressible : snd (error_received (init UDP false 1)) = [ALoopExc].
Proof. exact (eq_refl : snd (error_received (init UDP false 1)) = [ALoopExc]). Qed.

(* the model's error_received IS the current source of error_received of both protocol classes (translated on this run) *)
Theorem C09_udp_error_received_is_the_model : forall s l, l_arg l = XOSError -> runm udp_error_received s l = error_received s.
Proof. exact udp_error_received_refined. Qed.

Theorem C09_tcp_error_received_is_the_model : forall s l, l_arg l = XOSError -> runm tcp_error_received s l = error_received s.
Proof. exact tcp_error_received_refined. Qed.

(* the exceptions execute() converts into RequestFailedException are exactly those its except clause names in the current source *)
Theorem C09_execute_catches_is_the_model : forall e, (match classify e with OFailed => true | _ => false end) = existsb (isinstance e) (ex_caught execute_shape).
Proof. exact execute_catches_refined. Qed.

(* Inverter._read_from_socket as translated from the current source (tools/rf2v.py: its try body, its except clauses in order, the class
   hierarchy of exceptions.py) IS the counter model: on every history of what execute() did -- a response, MaxRetriesException or
   RequestFailedException (which = true / false), RequestRejectedException -- the counts carried by the raised RequestFailedExceptions are
   those of count_run, from any starting value *)
Theorem C09_read_from_socket_is_the_model : forall h c, run_calls c h = count_run c (map fst h).
Proof. exact read_from_socket_history. Qed.

(* a failing request raises RequestFailedException carrying the incremented counter *)
Theorem C09_read_from_socket_failure : forall c e, as_exec RFail e ->
  step c (Some e) = (fst (count_step c RFail), RRaiseFailed (S c)) /\ snd (count_step c RFail) = Some (S c).
Proof. exact read_from_socket_failure. Qed.

(* every other exception passes through unchanged and leaves the counter alone; inside the family it stays inside the family *)
Theorem C09_read_from_socket_other : forall c e, e <> IMaxRetries -> e <> IRequestFailed -> step c (Some e) = (c, RPropagate e).
Proof. exact read_from_socket_other. Qed.

Theorem C09_read_from_socket_stays_in_family : forall c e, e <> IOther ->
  match snd (step c (Some e)) with RReturn => False | RRaiseFailed _ => True | RPropagate e' => e' = e /\ e' <> IOther end.
Proof. exact read_from_socket_stays_in_family. Qed.

Print Assumptions C09_read_from_socket_is_the_model.
Print Assumptions C09_read_from_socket_failure.
Print Assumptions C09_read_from_socket_other.
Print Assumptions C09_read_from_socket_stays_in_family.
Print Assumptions C09_reported_count.
Print Assumptions C09_first_failure_after_success_reports_one.
Print Assumptions C09_exceptions_are_mapped.
Print Assumptions C09_reported_outcome_is_the_mapped_one.
Print Assumptions C09_no_exception_in_loop_callbacks.
Print Assumptions C09_loop_exception_is_expressible.
Print Assumptions C09_udp_error_received_is_the_model.
Print Assumptions C09_tcp_error_received_is_the_model.
Print Assumptions C09_execute_catches_is_the_model.

(* C10 -- at most one transport is open per inverter and none is leaked.
   Protocol model Model/Proto.v, validated callback by callback against the real classes (close() calls, dropped connections and
   successive event loops included).  The theorems quantify over ALL runs of the model: any callers, any interleaving of loop
   callbacks, I/O, timer, OS-error, close() and new-loop events, any fault oracle. *)
From Coq Require Import List Bool Arith.
From RecordUpdate Require Import RecordSet.
From GW Require Import Proto ProtoEvolves ProtoProps ProtoMutex ProtoAnswer ProtoTransport Callbacks CallbackGen CallbackRefine Coroutines CoroutineGen CoroutineRefine FlowGen FlowFacts.
Import ListNotations RecordSetNotations.

(* never more than one open socket / connection (open = created and not yet closing) *)
Theorem C10_at_most_one_open_transport : forall es kd ka r s acts, run (init kd ka r) es = Some (s, acts) ->
  forall t1 t2, open s t1 = true -> open s t2 = true -> t1 = t2.
Proof. exact at_most_one_open_transport. Qed.

(* none is leaked: an open transport is the one the protocol object references, or the one being connected by the caller that holds the lock *)
Theorem C10_open_transport_is_referenced : forall es kd ka r s acts, run (init kd ka r) es = Some (s, acts) ->
  forall t, open s t = true -> s_transport s = Some t \/ exists k, pc_of s k = Some (PcConnWait t).
Proof. exact open_transport_is_referenced. Qed.

(* keep-alive off: when a request reports to its caller (successfully or not) nothing is open *)
Theorem C10_nothing_open_after_request : forall es kd ka r s acts e s' acts',
  run (init kd ka r) es = Some (s, acts) -> step s e = Some (s', acts') ->
  s_ka s = false -> forall k o, In (ADone k o) acts' -> forall t, open s' t = false.
Proof. exact nothing_open_after_request. Qed.

(* after close() nothing is open (TcpInverterProtocol.close() takes the lock; the lock-free close() of a UDP object: provided no
   other caller is connecting or awaiting an answer at that moment) *)
Theorem C10_nothing_open_after_close : forall es kd ka r s acts e s' acts',
  run (init kd ka r) es = Some (s, acts) -> step s e = Some (s', acts') ->
  forall k, In (ACloseDone k) acts' -> s_kind s = TCP \/ (forall k' p, k' <> k -> pc_of s k' = Some p -> cs p = false) ->
  forall t, open s' t = false.
Proof. exact nothing_open_after_close. Qed.

(* _close_transport always forgets the transport (and schedules its connection_lost exactly once: tr_close is idempotent) *)
Theorem C10_close_transport_forgets : forall s, s_transport (close_transport s) = None.
Proof. exact close_transport_none. Qed.

(* keep-alive off (UDP): when execute() reports to its caller, the object references no transport *)
Theorem C10_nothing_referenced_after_request : forall s k r, s_ka s = false -> s_kind s = UDP ->
  s_transport (fst (exec_finish s k r)) = None.
Proof. exact exec_finish_closes_udp. Qed.

(* non-vacuity: a run in which a transport is open, and the end of a two-caller run where everything is closed *)
Theorem C10_transport_opens :
  option_map (fun r => (open (fst r) 0, s_transport (fst r), snd r)) (run (init UDP false 1) ([EvCall 0] ++ repeat EvPop 2)) =
  Some (true, Some 0, [AOpen 0]).
Proof. exact transport_opens_example. Qed.

Theorem C10_everything_closed_at_the_end :
  option_map (fun r => (open (fst r) 0, open (fst r) 1, s_transport (fst r))) (run (init UDP false 1) two_callers) = Some (false, false, None).
Proof. exact transport_closed_example. Qed.

(* the model's _close_transport and its connection callbacks ARE the current source (translated by tools/cb2v.py on this run) *)
Theorem C10_close_transport_is_the_model : forall s l, execb cb_close_transport s l = (close_transport s, l, [], XNormal).
Proof. exact close_transport_refined. Qed.

Theorem C10_connection_made_is_the_model : forall s t l, l_transport l = t ->
  run_cb s (CbConnMade t) =
  runm (conn_made_prog (s_kind s)) (match tstate_of s t with TNew => s <| s_tr := set_nth t TUp (s_tr s) |> | _ => s end) l.
Proof. exact connection_made_refined. Qed.

Theorem C10_connection_lost_is_the_model : forall s t l, tstate_of s t = TClosing ->
  run_cb s (CbConnLost t) = (fst (runm (conn_lost_prog (s_kind s)) (s <| s_tr := set_nth t TGone (s_tr s) |>) l), [AClose t]) /\
  snd (runm (conn_lost_prog (s_kind s)) (s <| s_tr := set_nth t TGone (s_tr s) |>) l) = [].
Proof. exact connection_lost_refined. Qed.

Theorem C10_eof_received_is_the_model : forall s t l, tstate_of s t = TUp ->
  run_cb s (CbRead t IoEof) = (tr_close (fst (runm tcp_eof_received s l)) t, []) /\ snd (runm tcp_eof_received s l) = [].
Proof. exact eof_received_refined. Qed.

(* _ensure_lock and close() of the current source (tools/co2v.py) *)
Theorem C10_ensure_lock_is_the_model : forall s,
  ensure_lock s = if s_haslock s && Nat.eqb (s_lockloop s) (s_loop s) then s else run_steps ensure_lock_steps s.
Proof. exact ensure_lock_refined. Qed.

Theorem C10_tcp_close_is_the_model : forall s, s_lock s = true -> s_haslock s = true ->
  lock_release (close_transport s) = run_steps (cl_finally tcp_close) (run_steps (cl_body tcp_close) s).
Proof. exact tcp_close_refined. Qed.

(* the user's keep-alive choice is not overridden behind their back: in the whole package the attribute `keep_alive` (of any object) is assigned by
   InverterProtocol.__init__ (the default) and by Inverter.set_keep_alive only -- no inverter family switches it on or off around its own requests
   (list GENERATED by tools/flow.py; user_keep_alive_sites = ["Inverter.set_keep_alive: self._protocol.keep_alive"; "InverterProtocol.__init__: self.keep_alive"],
   Proofs/FlowFacts.v) *)
Theorem C10_keep_alive_is_set_by_the_user_only : keep_alive_assignments = user_keep_alive_sites.
Proof. exact keep_alive_sites_ok. Qed.

Print Assumptions C10_at_most_one_open_transport.
Print Assumptions C10_open_transport_is_referenced.
Print Assumptions C10_nothing_open_after_request.
Print Assumptions C10_nothing_open_after_close.
Print Assumptions C10_close_transport_forgets.
Print Assumptions C10_nothing_referenced_after_request.
Print Assumptions C10_transport_opens.
Print Assumptions C10_everything_closed_at_the_end.
Print Assumptions C10_close_transport_is_the_model.
Print Assumptions C10_connection_made_is_the_model.
Print Assumptions C10_connection_lost_is_the_model.
Print Assumptions C10_eof_received_is_the_model.
Print Assumptions C10_ensure_lock_is_the_model.
Print Assumptions C10_tcp_close_is_the_model.
Print Assumptions C10_keep_alive_is_set_by_the_user_only.

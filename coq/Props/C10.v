(* C10 -- at most one transport is open per inverter and none is leaked (protocol model; one-step facts: the whole-run
   statements are established by trace validation + the open-transport monitor, see DESIGN.md C10). *)
From Coq Require Import List Bool Arith.
From GW Require Import Proto ProtoEvolves ProtoProps.
Import ListNotations.

(* _close_transport always forgets the transport (and schedules its connection_lost exactly once: tr_close is idempotent) *)
Theorem C10_close_transport_forgets : forall s, s_transport (close_transport s) = None.
Proof. exact close_transport_none. Qed.

(* keep-alive off (UDP): when execute() reports to its caller, the object references no transport *)
Theorem C10_nothing_referenced_after_request : forall s k r, s_ka s = false -> s_kind s = UDP ->
  s_transport (fst (exec_finish s k r)) = None.
Proof. exact exec_finish_closes_udp. Qed.

Print Assumptions C10_close_transport_forgets.
Print Assumptions C10_nothing_referenced_after_request.

(* C11 -- decoding is total: every sensor is reported, undecodable values become None.
   Model/Sensors.v (hand model of sensor.py, compared with the real classes on every run: all 65536 contents of 2-byte
   fields, every field of the schedule groups, boundary/random blocks for every table) + the tables GENERATED from /repo. *)
From Coq Require Import ZArith List Bool String.
From GW Require Import Prelude PyStr PyFloat Sensors TableChecks TablesGen SensorProofs TableProofs FailCount InvProg InverterGen InvProgInst InvProgRefine.
Import ListNotations.
Open Scope Z_scope.

(* for every sensor kind whose decoder has no round() of a float: any response data of ANY length (also shorter than the
   window), any address mapping: the table entry is a value or None -- never IndexError / OverflowError / ... *)
Theorem C11_decoding_total : forall d pos s, total_kind (s_kind s) = true -> exists v, map_entry d pos s = Ok v.
Proof. exact decoding_is_total. Qed.

(* ... which covers every entry of every generated table of ET, DT and ES (sensors and settings) except the listed
   Calculated sensors that round a voltage x current product *)
Theorem C11_tables_total : forall t s, In t all_tables -> In s (snd t) -> ~ In (fst t, s_id s) expected_not_total ->
  forall d pos, exists v, map_entry d pos s = Ok v.
Proof. exact table_decoding_total. Qed.

Theorem C11_exceptions_are_exactly : not_total_ids = expected_not_total.
Proof. exact not_total_list. Qed.

(* no sensor prevents the others: the result of _map_response has one entry per table row *)
Theorem C11_every_sensor_reported : forall d pos t, (forall s, In s t -> exists v, map_entry d pos s = Ok v) ->
  exists r, map_response d pos t = Ok r /\ map fst r = map s_id t.
Proof. exact map_response_reports_every_sensor. Qed.

(* the bit walks of the schedule decoders never run out of names (IndexError) *)
Theorem C11_day_of_week_total : forall data, exists s, decode_day_of_week data = Ok s.
Proof. exact decode_day_of_week_total. Qed.
Theorem C11_months_total : forall data, exists s, decode_months data = Ok s.
Proof. exact decode_months_total. Qed.

(* the entry stored by Inverter._map_response with the except clause read from the current source (tools/rf2v.py: loop over the sensors,
   `result[id] = sensor.read(response)`, `except <classes>: result[id] = None`) is the model's map_entry: ValueError becomes None, every other
   exception propagates *)
Theorem C11_map_response_is_the_model : forall data pos s, map_entry_gen data pos s = map_entry data pos s.
Proof. exact map_response_refined. Qed.

Print Assumptions C11_decoding_total.
Print Assumptions C11_tables_total.
Print Assumptions C11_exceptions_are_exactly.
Print Assumptions C11_every_sensor_reported.
Print Assumptions C11_day_of_week_total.
Print Assumptions C11_months_total.
Print Assumptions C11_map_response_is_the_model.

(* C12 -- each sensor value is the documented reading of exactly its own registers. *)
From Coq Require Import ZArith List Bool String.
From GW Require Import Prelude PyStr PyFloat Sensors TableChecks TablesGen SensorProofs TableProofs ProtoGen.
Import ListNotations.
Open Scope Z_scope.

(* the value of a sensor is the decoding of exactly the `width` bytes at its own position: nothing else of the response
   can influence it, and it changes with those bytes as the decoder of its class says *)
Theorem C12_value_from_own_bytes : forall d pos s, raw_kind (s_kind s) = true -> 0 <= pos (s_offset s) ->
  sensor_read d pos s = sensor_read (rd d (pos (s_offset s)) (width (s_kind s))) (fun _ => 0) s.
Proof. exact sensor_reads_own_bytes. Qed.

Theorem C12_other_registers_do_not_matter : forall d1 d2 pos s, raw_kind (s_kind s) = true -> 0 <= pos (s_offset s) ->
  rd d1 (pos (s_offset s)) (width (s_kind s)) = rd d2 (pos (s_offset s)) (width (s_kind s)) ->
  sensor_read d1 pos s = sensor_read d2 pos s.
Proof. exact sensor_value_is_local. Qed.

Theorem C12_two_word_bitmaps_read_their_two_words : forall d1 d2 pos id off sz offL l,
  0 <= pos off -> 0 <= pos offL -> rd d1 (pos off) 2 = rd d2 (pos off) 2 -> rd d1 (pos offL) 2 = rd d2 (pos offL) 2 ->
  sensor_read d1 pos (mkS id off sz (KEnumBitmap22 offL l)) = sensor_read d2 pos (mkS id off sz (KEnumBitmap22 offL l)).
Proof. exact bitmap22_reads_own_words. Qed.

(* every entry of every generated table is of one of these classes, with a declared size equal to what it reads *)
Theorem C12_all_table_entries_classified : forallb kind_class_ok table_sensors = true.
Proof. exact all_entries_classified. Qed.
Theorem C12_declared_sizes : forallb size_matches table_sensors = true.
Proof. exact declared_sizes. Qed.

(* address -> byte position (translated from protocol.py on this run): (address - first address) * 2 for Modbus blocks,
   the plain offset for AA55 blocks *)
Theorem C12_modbus_position : forall (self : pcmd) a,
  ModbusRtuProtocolCommand_get_offset self a = (a - c_first_address self) * 2 /\
  ModbusTcpProtocolCommand_get_offset self a = (a - c_first_address self) * 2 /\
  ProtocolCommand_get_offset self a = a.
Proof. exact (fun self a => conj eq_refl (conj eq_refl eq_refl)). Qed.

(* documented interpretation of the 2-byte classes: big endian, unsigned / signed, scale, sentinels *)
Theorem C12_voltage_current : forall id a b k, k = KVoltage \/ k = KCurrent ->
  sensor_read [a; b] (fun _ => 0) (mkS id 0 2 k) = Ok (if w16 a b =? 65535 then VInt 0 else fdiv (w16 a b) 10).
Proof. exact voltage_current_interpretation. Qed.
Theorem C12_frequency : forall id a b, 0 <= a < 256 -> 0 <= b < 256 ->
  sensor_read [a; b] (fun _ => 0) (mkS id 0 2 KFrequency) = Ok (fdiv (s16v a b) 100).
Proof. exact frequency_interpretation. Qed.
Theorem C12_temperature : forall id a b, 0 <= a < 256 -> 0 <= b < 256 ->
  sensor_read [a; b] (fun _ => 0) (mkS id 0 2 KTemp) = Ok (if (s16v a b =? -1) || (s16v a b =? 32767) then VNone else fdiv (s16v a b) 10).
Proof. exact temperature_interpretation. Qed.
Theorem C12_energy : forall id a b,
  sensor_read [a; b] (fun _ => 0) (mkS id 0 2 KEnergy) = Ok (if w16 a b =? 65535 then VNone else fdiv (w16 a b) 10).
Proof. exact energy_interpretation. Qed.
Theorem C12_power_integer : forall id a b, 0 <= a < 256 -> 0 <= b < 256 ->
  sensor_read [a; b] (fun _ => 0) (mkS id 0 2 KPower) = Ok (if w16 a b =? 65535 then VNone else VInt (w16 a b)) /\
  sensor_read [a; b] (fun _ => 0) (mkS id 0 2 KPowerS) = Ok (VInt (s16v a b)) /\
  sensor_read [a; b] (fun _ => 0) (mkS id 0 2 KInteger) = Ok (VInt (if w16 a b =? 65535 then 0 else w16 a b)).
Proof. exact power_interpretation. Qed.

Print Assumptions C12_value_from_own_bytes.
Print Assumptions C12_other_registers_do_not_matter.
Print Assumptions C12_two_word_bitmaps_read_their_two_words.
Print Assumptions C12_all_table_entries_classified.
Print Assumptions C12_declared_sizes.
Print Assumptions C12_modbus_position.
Print Assumptions C12_voltage_current.
Print Assumptions C12_frequency.
Print Assumptions C12_temperature.
Print Assumptions C12_energy.
Print Assumptions C12_power_integer.

(* C13 -- derived and label sensors always agree with the raw sensors of the same read. *)
From Coq Require Import ZArith List Bool String.
From GW Require Import Prelude PyStr PyFloat Sensors TableChecks TablesGen SensorProofs TableProofs.
Import ListNotations.
Open Scope Z_scope.

(* '<x>_label' = table lookup of the code '<x>' decoded from the same registers of the same response *)
Theorem C13_label_is_lookup_of_code : forall d pos idl idc off szl szc l,
  sensor_read d pos (mkS idl off szl (KEnum2 l)) = Ok (match code_of (sensor_read d pos (mkS idc off szc KInteger)) with Some z => label_val l z | None => VNone end) /\
  sensor_read d pos (mkS idl off szl (KEnum l)) = Ok (match code_of (sensor_read d pos (mkS idc off szc KByte)) with Some z => label_val l z | None => VNone end) /\
  sensor_read d pos (mkS idl off szl (KEnumH l)) = Ok (match code_of (sensor_read d pos (mkS idc off szc KByteH)) with Some z => label_val l z | None => VNone end) /\
  sensor_read d pos (mkS idl off szl (KEnumL l)) = Ok (match code_of (sensor_read d pos (mkS idc off szc KByteL)) with Some z => label_val l z | None => VNone end).
Proof. exact label_is_lookup_of_code. Qed.

Theorem C13_calculated_label_is_lookup : forall d pos idl idc g l,
  sensor_read d pos (mkS idl 0 0 (KEnumCalculated g l)) =
  match sensor_read d pos (mkS idc 0 0 (KCalculated g)) with
  | Ok (VInt z) => Ok (label_val l z) | Ok _ => Ok VNone | Exc e => Exc e end.
Proof. exact calculated_label_is_lookup. Qed.

(* in every generated table each label / bitmap sensor has its code sensor(s) at the same registers (same getter) *)
Theorem C13_label_sensors_have_their_codes : forallb (fun t => forallb (label_sensor_ok (snd t)) (snd t)) all_tables = true.
Proof. exact label_sensors_have_their_codes. Qed.

(* 4-byte bitmaps: exactly the set bits 0..31 with a non-empty label, in bit order *)
Theorem C13_bitmap4_lists_set_bits : forall d pos id off sz l,
  sensor_read d pos (mkS id off sz (KEnumBitmap4 l)) =
  Ok (VStr (str_join ", " (set_bit_labels (let b := s_at d (pos off) 4 in if b =? -1 then 0 else b) l))).
Proof. exact bitmap4_lists_set_bits. Qed.

(* 2+2-byte bitmaps -- KNOWN FINDING: the code computes high << (16 + low); what it provably does: *)
Theorem C13_bitmap22_partial : forall d pos id off sz offL l,
  sensor_read d pos (mkS id off sz (KEnumBitmap22 offL l)) =
  Ok (VStr (str_join ", " (set_bit_labels
     (Z.shiftl (let h := u_at d (pos off) 2 in if h =? 65535 then 0 else h)
               (16 + (let lo := u_at d (pos offL) 2 in if lo =? 65535 then 0 else lo))) l))).
Proof. exact bitmap22_partial. Qed.
(* ... and a witness that this is not high x 65536 + low *)
Theorem C13_bitmap22_refuted :
  exists d, sensor_read d (fun a => (a - 37000) * 2) (mkS "battery_error" 37012 2 (KEnumBitmap22 37006 L_BMS_ALARM_CODES)) = Ok (VStr "") /\
            set_bit_labels (u_at d 24 2 * 65536 + u_at d 12 2) L_BMS_ALARM_CODES <> [].
Proof. exact bitmap22_refuted. Qed.

(* derived values = their definition over the registers of the raw sensors of the same table (getters regenerated from
   the lambdas of et.py / dt.py / es.py; the offsets on the right-hand sides are looked up in the raw sensors' rows) *)
Theorem C13_ET_derived :
  getter_of "ppv" ET_all_sensors = Some ET_ppv_spec /\ getter_of "house_consumption" ET_all_sensors = Some ET_house_spec /\
  getter_of "grid_in_out" ET_all_sensors = Some ET_grid_in_out_spec /\ getter_of "grid_in_out_label" ET_all_sensors = Some ET_grid_in_out_spec /\
  map (fun id => kind_of id ET_all_sensors) ["ppv1"; "ppv2"; "ppv3"; "ppv4"; "pbattery1"; "active_power"]%string =
  [Some KPower4; Some KPower4; Some KPower4; Some KPower4; Some KPower4S; Some KPowerS].
Proof. exact ET_derived. Qed.

Theorem C13_DT_derived :
  map (fun n => getter_of ("ppv" ++ n)%string DT_all_sensors) ["1"; "2"; "3"]%string = map (fun n => Some (DT_ppv_spec n)) ["1"; "2"; "3"]%string /\
  map (fun n => getter_of ("pgrid" ++ n)%string DT_all_sensors) ["1"; "2"; "3"]%string = map (fun n => Some (DT_pgrid_spec n)) ["1"; "2"; "3"]%string /\
  getter_of "ppv" DT_all_sensors = Some (CAdd (CAdd (DT_ppv_spec "1") (DT_ppv_spec "2")) (DT_ppv_spec "3")) /\
  map (fun id => kind_of id DT_all_sensors) ["vpv1"; "ipv1"; "vpv2"; "ipv2"; "vpv3"; "ipv3"; "vgrid1"; "igrid1"; "vgrid2"; "igrid2"; "vgrid3"; "igrid3"]%string =
  [Some KVoltage; Some KCurrent; Some KVoltage; Some KCurrent; Some KVoltage; Some KCurrent; Some KVoltage; Some KCurrent; Some KVoltage; Some KCurrent; Some KVoltage; Some KCurrent].
Proof. exact DT_derived. Qed.

Theorem C13_ES_derived :
  getter_of "ppv1" ES_sensors = Some ES_ppv1 /\ getter_of "ppv2" ES_sensors = Some ES_ppv2 /\
  getter_of "ppv" ES_sensors = Some (CAdd ES_ppv1 ES_ppv2) /\
  getter_of "pbattery1" ES_sensors = Some ES_pbattery /\ getter_of "pgrid" ES_sensors = Some ES_pgrid /\
  getter_of "ibattery1" ES_sensors = Some (CMul (CAbs (CCurr 18)) ES_bat_sign) /\
  getter_of "plant_power" ES_sensors = Some (CRound (CAdd (CRead2 (off_of "pload" ES_sensors) true) (CRead2 (off_of "pback_up" ES_sensors) true))) /\
  getter_of "house_consumption" ES_sensors = Some (CSub (CAdd (CAdd ES_ppv1 ES_ppv2) ES_pbattery) ES_pgrid) /\
  map (fun id => kind_of id ES_sensors) ["vpv1"; "ipv1"; "vpv2"; "ipv2"; "vbattery1"; "battery_mode"; "grid_in_out"; "pload"; "pback_up"]%string =
  [Some KVoltage; Some KCurrent; Some KVoltage; Some KCurrent; Some KVoltage; Some KByte; Some KByte; Some KPower; Some KPower].
Proof. exact ES_derived. Qed.

Print Assumptions C13_label_is_lookup_of_code.
Print Assumptions C13_calculated_label_is_lookup.
Print Assumptions C13_label_sensors_have_their_codes.
Print Assumptions C13_bitmap4_lists_set_bits.
Print Assumptions C13_bitmap22_partial.
Print Assumptions C13_bitmap22_refuted.
Print Assumptions C13_ET_derived.
Print Assumptions C13_DT_derived.
Print Assumptions C13_ES_derived.

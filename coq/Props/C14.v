(* C14 -- sensors are decoded only from registers that were actually fetched.
   Tables, read commands and the two meter filter limits are GENERATED from /repo on every run. *)
From Coq Require Import ZArith List Bool String.
From GW Require Import Prelude PyStr PyFloat Sensors TableChecks TablesGen SensorProofs ETCaps ETCapsProofs TableProofs ETProg ETGen ETRefine DTProg DTGen DTRefine.
Import ListNotations.
Open Scope Z_scope.

(* every register read by every sensor (also the Calculated ones and both words of the two-word bitmaps) lies inside the
   window of the command that fetches its table: ET running / battery / battery 2 / meter (extended-2, extended, basic
   with the corresponding filter) / MPPT, DT running / meter.  KNOWN FINDING: apparent_power2, apparent_power3 (MPPT). *)
Theorem C14_windows_partial :
  forallb (sensor_in_window ET_READ_RUNNING_DATA) ET_all_sensors = true /\
  forallb (sensor_in_window ET_READ_BATTERY_INFO) ET_all_sensors_battery = true /\
  forallb (sensor_in_window ET_READ_BATTERY2_INFO) ET_all_sensors_battery2 = true /\
  forallb (sensor_in_window ET_READ_METER_DATA_EXTENDED2) ET_all_sensors_meter = true /\
  forallb (sensor_in_window ET_READ_METER_DATA_EXTENDED) (ET_meter_below ET_not_extended_meter2_limit) = true /\
  forallb (sensor_in_window ET_READ_METER_DATA) (ET_meter_below ET_not_extended_meter_limit) = true /\
  forallb (fun s => sensor_in_window ET_READ_MPPT_DATA s || id_in mppt_known s) ET_all_sensors_mppt = true /\
  forallb (sensor_in_window DT_READ_RUNNING_DATA) DT_all_sensors = true /\
  forallb (sensor_in_window DT_READ_METER_DATA) DT_all_sensors_meter = true.
Proof. exact windows. Qed.

(* the finding itself: both sensors reach beyond the 61 registers fetched from 35301 *)
Theorem C14_mppt_refuted :
  map (fun id => option_map (sensor_in_window ET_READ_MPPT_DATA) (find_sensor id ET_all_sensors_mppt)) mppt_known = [Some false; Some false].
Proof. exact mppt_refuted. Qed.

(* model variants (single phase, 2 PV strings) only remove sensors from these lists *)
Theorem C14_variants_are_sublists : forall (p q : sensor -> bool) l, forallb p l = true -> forallb p (filter q l) = true.
Proof. exact (@filter_keeps_window sensor). Qed.

(* inside the window = the bytes exist in a full-length answer: the decoder gets all `n` bytes it asks for *)
Theorem C14_no_short_read : forall first count a n (block : list Z),
  in_window first count (a, n) = true -> blen block = 2 * count -> 0 <= n ->
  List.length (rd block ((a - first) * 2) n) = Z.to_nat n.
Proof. exact in_window_bytes_exist. Qed.

(* the pairing of window and sensor list in EVERY reachable capability state of ET (capability model Model/ETCaps.v, compared
   with the real class on every run): after any history of read_runtime_data calls -- any refused optional blocks, any request
   lost at any point, exception paths included -- the meter window requested next covers every meter sensor decoded from it *)
Theorem C14_meter_window_always_covers : forall two big h,
  let c := calls (after_device_info two big) h in
  forallb (sensor_in_window (meter_window c)) (meter_list (meter_level c)) = true.
Proof. exact meter_window_always_covers. Qed.

(* the capability model used above IS the current source of ET.read_runtime_data (tools/et2v.py, complete enumeration inside Coq) *)
Theorem C14_read_runtime_data_is_the_model : forall c e lose, (meter_level c <= 2)%nat ->
  run_rrd e lose et_read_runtime_data c = read_runtime_data c e lose.
Proof. exact read_runtime_data_refined. Qed.

(* DT: a sensor list is decoded only from the answer to its own read request, transmitted and answered in the same call (model of
   Model/DTProg.v, proved equal to the translated source in C15_dt_read_runtime_data_is_the_model) *)
Theorem C14_dt_decodes_fetched_blocks : forall o_running o_meter hm,
  match dt_read_runtime_data o_running o_meter hm with
  | (_, reads, DReturned (Some d)) => (dd_running d = true -> In false reads /\ o_running = None) /\ (dd_meter d = true -> In true reads /\ o_meter = None)
  | _ => True end.
Proof. exact dt_decodes_fetched_blocks. Qed.

Print Assumptions C14_windows_partial.
Print Assumptions C14_mppt_refuted.
Print Assumptions C14_variants_are_sublists.
Print Assumptions C14_no_short_read.
Print Assumptions C14_meter_window_always_covers.
Print Assumptions C14_read_runtime_data_is_the_model.
Print Assumptions C14_dt_decodes_fetched_blocks.

(* C15 -- read_runtime_data() keys equal sensors() for every model and capability set (ET capability model
   Model/ETCaps.v, compared with the real class on every run; finite spaces enumerated completely by vm_compute). *)
From Coq Require Import ZArith List Bool Arith String.
From GW Require Import Prelude PyStr PyFloat Sensors ETCaps ETCapsProofs ETProg ETGen ETRefine DTProg DTGen DTRefine InvProg InverterGen InvProgInst InvProgRefine MapKeys.
Import ListNotations.
Close Scope Z_scope.

(* from EVERY capability set (reachable or not) and for EVERY set of refused blocks / battery presence: whenever the call
   returns (whichever request of an earlier or of this call may have been lost: [lose]), the sensor groups of its result are exactly those sensors() lists right after the call *)
Theorem C15_keys_equal_sensors : forall c e lose reqs keys c', meter_level c <= 2 ->
  read_runtime_data c e lose = (reqs, Some keys, c') -> same_groups keys (sensors_groups c') = true.
Proof. exact keys_equal_sensors. Qed.

(* with a fixed refusal set the first or the second call succeeds *)
Theorem C15_succeeds_by_second_call : forall c e1 e2, meter_level c <= 2 -> same_refusals e1 e2 = true -> second_call_ok c e1 e2 = true.
Proof. exact succeeds_by_second_call. Qed.

Theorem C15_filter_level_invariant : forall c e lose, meter_level c <= 2 ->
  let '(_, _, c') := read_runtime_data c e lose in meter_level c <= meter_level c' /\ meter_level c' <= 2.
Proof. exact level_monotone. Qed.

(* the capability model IS the current source: ET.read_runtime_data and ET.sensors() translated by tools/et2v.py on this run (statement
   language Model/ETProg.v) and proved equal to the model by complete enumeration inside Coq *)
Theorem C15_read_runtime_data_is_the_model : forall c e lose, meter_level c <= 2 ->
  run_rrd e lose et_read_runtime_data c = read_runtime_data c e lose.
Proof. exact read_runtime_data_refined. Qed.

Theorem C15_sensors_is_the_model : forall c, run_sensors et_sensors_always et_sensors_guarded c = sensors_groups c.
Proof. exact sensors_refined. Qed.

(* DT: read_runtime_data as translated from the current source (tools/dt2v.py) IS the capability model of Model/DTProg.v, for every
   capability and every outcome of the two read requests *)
Theorem C15_dt_read_runtime_data_is_the_model : forall o_running o_meter hm,
  run_dt o_running o_meter dt_read_runtime_data_prog hm = dt_read_runtime_data o_running o_meter hm.
Proof. exact dt_read_runtime_data_refined. Qed.

(* a DT call that returns has the keys of exactly the lists sensors() reports afterwards; a call that raises leaves the capability alone *)
Theorem C15_dt_keys_equal_sensors : forall o_running o_meter hm,
  match dt_read_runtime_data o_running o_meter hm with
  | (hm', _, DReturned d) => d = Some (dt_sensors hm')
  | (hm', _, DRaised _) => hm' = hm
  | (_, _, DGoOn) => False end.
Proof. exact dt_keys_equal_sensors. Qed.

Theorem C15_dt_meter_stays_off : forall o_running o_meter,
  fst (fst (dt_read_runtime_data o_running o_meter false)) = false /\ ~ In true (snd (fst (dt_read_runtime_data o_running o_meter false))).
Proof. exact dt_meter_stays_off. Qed.

(* the step from a sensor list to the keys of the dictionary: Inverter._map_response, loop and except clause as generated from the current source,
   returns one entry per sensor it was given, in order, WHATEVER the register contents (a date that cannot be decoded becomes None under its id) *)
Theorem C15_map_response_keys_are_the_sensor_ids : forall d pos t r, map_response_gen d pos t = Ok r -> map fst r = map s_id t.
Proof. exact map_response_gen_keys. Qed.
Theorem C15_undecodable_value_keeps_its_key : forall d pos s, sensor_read d pos s = Exc EValue -> map_entry_gen d pos s = Ok VNone.
Proof. exact map_entry_gen_value_error. Qed.

Print Assumptions C15_keys_equal_sensors.
Print Assumptions C15_succeeds_by_second_call.
Print Assumptions C15_filter_level_invariant.
Print Assumptions C15_read_runtime_data_is_the_model.
Print Assumptions C15_sensors_is_the_model.
Print Assumptions C15_dt_read_runtime_data_is_the_model.
Print Assumptions C15_dt_keys_equal_sensors.
Print Assumptions C15_dt_meter_stays_off.
Print Assumptions C15_map_response_keys_are_the_sensor_ids.
Print Assumptions C15_undecodable_value_keeps_its_key.

(* C16 -- reading a single sensor gives the same value as the bulk read. *)
From Coq Require Import ZArith List Bool String.
From GW Require Import Prelude PyStr PyFloat Sensors TableChecks TablesGen SensorProofs TableProofs.
Import ListNotations.
Open Scope Z_scope.

(* the single read requests (size_ + size_ % 2) / 2 registers: enough for what the decoder of the class reads -- for every
   sensor and setting of the generated ET / DT tables (the computed classes have no registers: see the known finding) *)
Theorem C16_single_read_fetches_enough :
  forallb single_read_covers (ET_all_sensors ++ ET_all_sensors_battery ++ ET_all_sensors_battery2 ++ ET_all_sensors_meter ++ ET_all_sensors_mppt ++
                              ET_all_settings ++ ET_settings_arm_fw_19 ++ ET_settings_arm_fw_22 ++
                              DT_all_sensors ++ DT_all_sensors_meter ++ DT_all_settings ++ DT_settings_single_phase ++ DT_settings_three_phase) = true.
Proof. exact single_reads_cover. Qed.

(* same registers => same value: the bulk block and the single-sensor answer are two responses that agree on the sensor's
   own bytes (C12), whatever their start addresses *)
Theorem C16_single_equals_bulk : forall bulk single pos_bulk pos_single s, raw_kind (s_kind s) = true ->
  0 <= pos_bulk (s_offset s) -> 0 <= pos_single (s_offset s) ->
  rd bulk (pos_bulk (s_offset s)) (width (s_kind s)) = rd single (pos_single (s_offset s)) (width (s_kind s)) ->
  sensor_read bulk pos_bulk s = sensor_read single pos_single s.
Proof.
  exact (fun bulk single pb ps s Hr H1 H2 H =>
           eq_trans (sensor_reads_own_bytes bulk pb s Hr H1)
                    (eq_trans (f_equal (fun w => sensor_read w (fun _ => 0) s) H) (eq_sym (sensor_reads_own_bytes single ps s Hr H2)))).
Qed.

Print Assumptions C16_single_read_fetches_enough.
Print Assumptions C16_single_equals_bulk.

(* C16 -- reading a single sensor gives the same value as the bulk read. *)
From Coq Require Import ZArith List Bool String.
From GW Require Import Prelude PyStr PyFloat Sensors TableChecks TablesGen SensorProofs TableProofs Settings SingleBulk.
Import ListNotations.
Open Scope Z_scope.

(* the single read requests (size_ + size_ % 2) / 2 registers: enough for what the decoder of the class reads -- for every
   sensor and setting of the generated ET / DT tables (the computed classes have no registers: see the known finding) *)
Theorem C16_single_read_fetches_enough :
  forallb single_read_covers (ET_all_sensors ++ ET_all_sensors_battery ++ ET_all_sensors_battery2 ++ ET_all_sensors_meter ++ ET_all_sensors_mppt ++
                              ET_all_settings ++ ET_settings_arm_fw_19 ++ ET_settings_arm_fw_22 ++
                              DT_all_sensors ++ DT_all_sensors_meter ++ DT_all_settings ++ DT_settings_single_phase ++ DT_settings_three_phase) = true.
Proof. exact single_reads_cover. Qed.

(* same registers => same value: the bulk block and the single-sensor answer are two responses that agree on the sensor's
   own bytes (C12), whatever their start addresses *)
Theorem C16_single_equals_bulk : forall bulk single pos_bulk pos_single s, raw_kind (s_kind s) = true ->
  0 <= pos_bulk (s_offset s) -> 0 <= pos_single (s_offset s) ->
  rd bulk (pos_bulk (s_offset s)) (width (s_kind s)) = rd single (pos_single (s_offset s)) (width (s_kind s)) ->
  sensor_read bulk pos_bulk s = sensor_read single pos_single s.
Proof.
  exact (fun bulk single pb ps s Hr H1 H2 H =>
           eq_trans (sensor_reads_own_bytes bulk pb s Hr H1)
                    (eq_trans (f_equal (fun w => sensor_read w (fun _ => 0) s) H) (eq_sym (sensor_reads_own_bytes single ps s Hr H2)))).
Qed.

(* end to end on the register-file model: for EVERY register content, every block of ET / DT.read_runtime_data (read command and sensor list
   GENERATED from the source, all meter levels) and every sensor of the block whose read_value is implemented, the single read of the sensor
   -- (size + size % 2) / 2 registers from its own offset, decoded from position 0 -- gives the value the bulk read decodes for it from the
   block at position (offset - first) * 2 *)
Theorem C16_generated_single_equals_bulk : forall r w t s, In (w, t) bulk_tables -> In s t -> readable_kind (s_kind s) = true ->
  sensor_read (rf_bytes r (fst w) (Z.to_nat (snd w))) (fun off => (off - fst w) * 2) s = read_setting r s.
Proof. exact generated_single_equals_bulk. Qed.

(* non-vacuity: at least 300 (block, sensor) pairs are covered *)
Theorem C16_coverage : Nat.leb 300 (List.length (filter (fun s => readable_kind (s_kind s)) (flat_map snd bulk_tables))) = true.
Proof. exact bulk_coverage. Qed.

Print Assumptions C16_single_read_fetches_enough.
Print Assumptions C16_single_equals_bulk.
Print Assumptions C16_generated_single_equals_bulk.
Print Assumptions C16_coverage.

(* C17 -- a written setting reads back as written and touches only its own registers (codec level; the write path --
   one write, addressed to the setting's registers, other registers untouched -- is checked on the real classes against
   the simulated inverter). *)
From Coq Require Import ZArith List Bool String.
From GW Require Import Prelude PyStr PyFloat Sensors SensorProofs CodecProofs.
Import ListNotations.
Open Scope Z_scope.

Theorem C17_integer : forall id v, 0 <= v < 65535 ->
  exists b, encode_value KInteger (IInt v) [] = Ok b /\ sensor_read b (fun _ => 0) (mkS id 0 2 KInteger) = Ok (VInt v).
Proof. exact integer_roundtrip. Qed.

Theorem C17_integer_signed : forall id v, -32768 <= v < 32768 ->
  exists b, encode_value KIntegerS (IInt v) [] = Ok b /\ sensor_read b (fun _ => 0) (mkS id 0 2 KIntegerS) = Ok (VInt v).
Proof. exact integer_signed_roundtrip. Qed.

(* one-byte settings: read-modify-write of the 16-bit register keeps the other half *)
Theorem C17_byte_high : forall id v hi lo, -128 <= v < 128 -> 0 <= lo < 256 ->
  exists b, encode_value KByteH (IInt v) [hi; lo] = Ok b /\ b = [v mod 256; lo] /\ sensor_read b (fun _ => 0) (mkS id 0 1 KByteH) = Ok (VInt v).
Proof. exact byte_high_roundtrip. Qed.
Theorem C17_byte_low : forall id v hi lo, -128 <= v < 128 -> 0 <= hi < 256 ->
  exists b, encode_value KByteL (IInt v) [hi; lo] = Ok b /\ b = [hi; v mod 256] /\ sensor_read b (fun _ => 0) (mkS id 0 1 KByteL) = Ok (VInt v).
Proof. exact byte_low_roundtrip. Qed.

(* decimal settings (power_factor, charge_v, ...): EVERY multiple k/scale of the resolution, negative ones included, is
   written as exactly k and read back as k/scale (binary64 arithmetic of CPython, evaluated exhaustively) *)
Theorem C17_decimal : forall scale k, scale = 10 \/ scale = 100 \/ scale = 1000 -> -32768 <= k < 32768 ->
  scaled_ok (KDecimal scale) scale true k = true.
Proof. exact decimal_roundtrip. Qed.

Print Assumptions C17_integer.
Print Assumptions C17_integer_signed.
Print Assumptions C17_byte_high.
Print Assumptions C17_byte_low.
Print Assumptions C17_decimal.

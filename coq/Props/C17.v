(* C17 -- a written setting reads back as written and touches only its own registers (codec level; the write path --
   one write, addressed to the setting's registers, other registers untouched -- is checked on the real classes against
   the simulated inverter). *)
From Coq Require Import ZArith List Bool String.
From GW Require Import Prelude PyStr PyFloat Sensors SensorProofs CodecProofs Settings TablesGen SettingsGen SettingsProofs.
Import ListNotations.
Open Scope Z_scope.

Theorem C17_integer : forall id v, 0 <= v < 65535 ->
  exists b, encode_value KInteger (IInt v) [] = Ok b /\ sensor_read b (fun _ => 0) (mkS id 0 2 KInteger) = Ok (VInt v).
Proof. exact integer_roundtrip. Qed.

Theorem C17_integer_signed : forall id v, -32768 <= v < 32768 ->
  exists b, encode_value KIntegerS (IInt v) [] = Ok b /\ sensor_read b (fun _ => 0) (mkS id 0 2 KIntegerS) = Ok (VInt v).
Proof. exact integer_signed_roundtrip. Qed.

(* one-byte settings: read-modify-write of the 16-bit register keeps the other half *)
Theorem C17_byte_high : forall id v hi lo, -128 <= v < 128 -> 0 <= lo < 256 ->
  exists b, encode_value KByteH (IInt v) [hi; lo] = Ok b /\ b = [v mod 256; lo] /\ sensor_read b (fun _ => 0) (mkS id 0 1 KByteH) = Ok (VInt v).
Proof. exact byte_high_roundtrip. Qed.
Theorem C17_byte_low : forall id v hi lo, -128 <= v < 128 -> 0 <= hi < 256 ->
  exists b, encode_value KByteL (IInt v) [hi; lo] = Ok b /\ b = [hi; v mod 256] /\ sensor_read b (fun _ => 0) (mkS id 0 1 KByteL) = Ok (VInt v).
Proof. exact byte_low_roundtrip. Qed.

(* decimal settings (power_factor, charge_v, ...): EVERY multiple k/scale of the resolution, negative ones included, is
   written as exactly k and read back as k/scale (binary64 arithmetic of CPython, evaluated exhaustively) *)
Theorem C17_decimal : forall scale k, scale = 10 \/ scale = 100 \/ scale = 1000 -> -32768 <= k < 32768 ->
  scaled_ok (KDecimal scale) scale true k = true.
Proof. exact decimal_roundtrip. Qed.

(* ---- end to end on the register-file model of the inverter (Model/Settings.v; shapes of _write_setting / _read_sensor emitted from the
   current source by tools/ws2v.py): one write request to exactly the setting's register, the value reads back, every other register keeps
   its word, and the other half of the register of a one-byte setting is kept *)
Theorem C17_write_read_integer : forall sh r s v, shape_ok sh -> s_kind s = KInteger -> s_size s = 2 -> 0 <= v < 65535 ->
  exists r', write_setting sh r s (IInt v) = Ok (r', (s_offset s, 1)) /\ read_setting r' s = Ok (VInt v) /\ (forall x, x <> s_offset s -> r' x = r x).
Proof. exact write_read_integer. Qed.

Theorem C17_write_read_integer_signed : forall sh r s v, shape_ok sh -> s_kind s = KIntegerS -> s_size s = 2 -> -32768 <= v < 32768 ->
  exists r', write_setting sh r s (IInt v) = Ok (r', (s_offset s, 1)) /\ read_setting r' s = Ok (VInt v) /\ (forall x, x <> s_offset s -> r' x = r x).
Proof. exact write_read_integer_signed. Qed.

Theorem C17_write_read_byte_high : forall sh r s v, shape_ok sh -> wf_rfile r -> s_kind s = KByteH -> s_size s = 1 -> -128 <= v < 128 ->
  exists r', write_setting sh r s (IInt v) = Ok (r', (s_offset s, 1)) /\ read_setting r' s = Ok (VInt v) /\
             (forall x, x <> s_offset s -> r' x = r x) /\ r' (s_offset s) mod 256 = r (s_offset s) mod 256.
Proof. exact write_read_byte_high. Qed.

Theorem C17_write_read_byte_low : forall sh r s v, shape_ok sh -> wf_rfile r -> s_kind s = KByteL -> s_size s = 1 -> -128 <= v < 128 ->
  exists r', write_setting sh r s (IInt v) = Ok (r', (s_offset s, 1)) /\ read_setting r' s = Ok (VInt v) /\
             (forall x, x <> s_offset s -> r' x = r x) /\ r' (s_offset s) / 256 = r (s_offset s) / 256.
Proof. exact write_read_byte_low. Qed.

Theorem C17_write_read_decimal : forall sh r s scale k, shape_ok sh -> s_kind s = KDecimal scale -> s_size s = 2 ->
  scale = 10 \/ scale = 100 \/ scale = 1000 -> -32768 <= k < 32768 ->
  exists r' f, write_setting sh r s (IFloat (PrimFloat.div (float_of_Z k) (float_of_Z scale))) = Ok (r', (s_offset s, 1)) /\
             (read_setting r' s = Ok (VFloat f) /\ float_eqb f (PrimFloat.div (float_of_Z k) (float_of_Z scale)) = true \/
              read_setting r' s = Ok (VInt 0) /\ k = 0) /\
             r' (s_offset s) = k mod 65536 /\ (forall x, x <> s_offset s -> r' x = r x).
Proof. exact write_read_decimal. Qed.

(* a 4-byte unsigned (Long) setting: one multi-register write of two registers to its own offset, the value is read back, every register outside
   the two is unchanged *)
Theorem C17_write_read_long : forall sh r s v, shape_ok2 sh -> s_kind s = KLong -> s_size s = 4 -> 0 <= v < 4294967295 ->
  exists r', write_setting sh r s (IInt v) = Ok (r', (s_offset s, 2)) /\ read_setting r' s = Ok (VInt v) /\
             (forall x, x < s_offset s \/ s_offset s + 2 <= x -> r' x = r x).
Proof. exact write_read_long. Qed.

Theorem C17_generated_shapes_ok2 : shape_ok2 et_ws /\ shape_ok2 dt_ws.
Proof. exact generated_shapes_ok2. Qed.

(* the premises are met by the current source: shapes of ET / DT._write_setting, and sizes / scales of every such setting in the generated tables *)
Theorem C17_generated_shapes_ok : shape_ok et_ws /\ shape_ok dt_ws.
Proof. exact generated_shapes_ok. Qed.

Theorem C17_generated_settings_fit : forallb setting_shape_ok modbus_settings = true.
Proof. exact generated_settings_shape. Qed.

Print Assumptions C17_integer.
Print Assumptions C17_integer_signed.
Print Assumptions C17_byte_high.
Print Assumptions C17_byte_low.
Print Assumptions C17_decimal.
Print Assumptions C17_write_read_integer.
Print Assumptions C17_write_read_integer_signed.
Print Assumptions C17_write_read_byte_high.
Print Assumptions C17_write_read_byte_low.
Print Assumptions C17_write_read_decimal.
Print Assumptions C17_generated_shapes_ok.
Print Assumptions C17_generated_settings_fit.
Print Assumptions C17_write_read_long.
Print Assumptions C17_generated_shapes_ok2.

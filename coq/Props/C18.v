(* C18 -- reading never writes (static part: call graph GENERATED from /repo on every run; the dynamic part -- requests
   actually transmitted, invalid setter arguments -- is checked on the real classes against the simulated inverter). *)
From Coq Require Import List String Bool.
From GW Require Import CallGen CallProofs.
Import ListNotations.

Theorem C18_monitoring_api_constructs_reads_only : api_read_only ET_graph = true /\ api_read_only DT_graph = true /\ api_read_only ES_graph = true.
Proof. exact monitoring_api_constructs_reads_only. Qed.

Theorem C18_entry_points_read_only :
  forallb (fun m => existsb (String.eqb m) ["read_device_info"; "read_runtime_data"; "execute"]%string) (fst entry_connect ++ fst entry_discover) = true /\
  only_reads (snd entry_connect ++ snd entry_discover) = true.
Proof. exact entry_points_read_only. Qed.

Theorem C18_setters_do_reach_writes :
  existsb (fun k => match k with CkWrite => true | _ => false end) (kinds_reached ET_graph "write_setting") = true /\
  existsb (fun k => match k with CkWrite => true | _ => false end) (kinds_reached ES_graph "set_operation_mode") = true /\
  existsb (fun k => match k with CkWrite => true | _ => false end) (kinds_reached DT_graph "set_grid_export_limit") = true.
Proof. exact setters_reach_writes. Qed.

Print Assumptions C18_monitoring_api_constructs_reads_only.
Print Assumptions C18_entry_points_read_only.
Print Assumptions C18_setters_do_reach_writes.

(* C18 -- reading never writes (static part: call graph GENERATED from /repo on every run; the dynamic part -- requests
   actually transmitted, invalid setter arguments -- is checked on the real classes against the simulated inverter). *)
From Coq Require Import ZArith List String Bool.
From GW Require Import Prelude Sensors Settings SettingsGen SchedDef Modes ModesGen ModesInst ModesProofs GuardedProofs TwoObj TwoObjInst TwoObjProofs TwoObjModes CallGen CallProofs.
Import ListNotations.

Theorem C18_monitoring_api_constructs_reads_only : api_read_only ET_graph = true /\ api_read_only DT_graph = true /\ api_read_only ES_graph = true.
Proof. exact monitoring_api_constructs_reads_only. Qed.

Theorem C18_entry_points_read_only :
  forallb (fun m => existsb (String.eqb m) ["read_device_info"; "read_runtime_data"; "execute"]%string) (fst entry_connect ++ fst entry_discover) = true /\
  only_reads (snd entry_connect ++ snd entry_discover) = true.
Proof. exact entry_points_read_only. Qed.

Theorem C18_setters_do_reach_writes :
  existsb (fun k => match k with CkWrite => true | _ => false end) (kinds_reached ET_graph "write_setting") = true /\
  existsb (fun k => match k with CkWrite => true | _ => false end) (kinds_reached ES_graph "set_operation_mode") = true /\
  existsb (fun k => match k with CkWrite => true | _ => false end) (kinds_reached DT_graph "set_grid_export_limit") = true.
Proof. exact setters_reach_writes. Qed.

(* setters called with out-of-range arguments transmit nothing and change nothing (guards GENERATED from the current source):
   negative export limit (ET, DT), depth of discharge outside 0..100 (ET), eco-mode power or SoC outside 0..100 *)
Theorem C18_et_export_limit_rejects : forall r x, (x < 0)%Z -> run_gsetter et_settings et_ws (the et_export_limit) x r = Ok (r, []).
Proof. exact et_export_limit_rejects. Qed.

Theorem C18_dt_export_limit_rejects : forall tp r x, (x < 0)%Z -> run_gsetter (dt_settings tp) dt_ws (the dt_export_limit) x r = Ok (r, []).
Proof. exact dt_export_limit_rejects. Qed.

Theorem C18_et_dod_rejects : forall r x, (x < 0 \/ 100 < x)%Z -> run_gsetter et_settings et_ws (the et_dod) x r = Ok (r, []).
Proof. exact et_dod_rejects. Qed.

Theorem C18_eco_mode_arguments_rejected : forall a b who (ch : bool) p soc r ds, (p < 0 \/ 100 < p \/ soc < 0 \/ 100 < soc)%Z ->
  mode_steps (et_tctx a b) who p soc (et_set_mode (if ch then MEcoCharge else MEcoDischarge)) r ds = (r, ds, (Exc EValue : res unit), ([] : list tx)).
Proof. exact eco_mode_arguments_rejected. Qed.

(* the getters of the two-object model transmit reads only *)
Theorem C18_model_reads_transmit_no_write : forall a b w who o, (match o with ORead _ | OGetMode => True | _ => False end) ->
  forallb (fun t => match t with TxRead _ _ => true | TxWrite _ _ => false end) (snd (snd (step (et_tctx a b) w who o))) = true.
Proof. exact model_reads_transmit_no_write. Qed.

Print Assumptions C18_monitoring_api_constructs_reads_only.
Print Assumptions C18_entry_points_read_only.
Print Assumptions C18_setters_do_reach_writes.
Print Assumptions C18_et_export_limit_rejects.
Print Assumptions C18_dt_export_limit_rejects.
Print Assumptions C18_et_dod_rejects.
Print Assumptions C18_eco_mode_arguments_rejected.
Print Assumptions C18_model_reads_transmit_no_write.

(* C19 -- operation mode, export limit and DoD setters round-trip with their getters (encoder level: the full-time
   eco-mode groups; the setter / getter sequences are checked on the real classes against the simulated inverter). *)
From Coq Require Import ZArith List Bool String.
From GW Require Import Prelude PyStr PyFloat Sensors SensorProofs CodecProofs.
Import ListNotations.
Open Scope Z_scope.

(* for every power 1..100 %, every SoC 0..100 % and both eco-mode schedule types (plain and 745-platform scaling): the
   group written for ECO_CHARGE decodes to power -p, SoC soc, the same type, and is recognised as the full-time charge group *)
Theorem C19_charge_group : forall ty p soc, ty = 0 \/ ty = 6 -> 1 <= p <= 100 -> 0 <= soc <= 100 -> charge_ok ty p soc = true.
Proof. exact eco_charge_roundtrip. Qed.

Theorem C19_discharge_group : forall ty p, ty = 0 \/ ty = 6 -> 1 <= p <= 100 -> discharge_ok ty p = true.
Proof. exact eco_discharge_roundtrip. Qed.

(* 8-byte groups (eco-mode v1) *)
Theorem C19_v1_groups : forall p, 1 <= p <= 100 -> v1_ok p = true.
Proof. exact eco_v1_roundtrip. Qed.

(* whatever schedule type was detected in the group before, the setter selects an eco-mode type before encoding *)
Theorem C19_schedule_type_selected : forall cur is745, set_schedule_type_eco cur is745 = 0 \/ set_schedule_type_eco cur is745 = 6.
Proof. exact schedule_type_after_set. Qed.

Print Assumptions C19_charge_group.
Print Assumptions C19_discharge_group.
Print Assumptions C19_v1_groups.
Print Assumptions C19_schedule_type_selected.

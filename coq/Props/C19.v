(* C19 -- operation mode, export limit and DoD setters round-trip with their getters (encoder level: the full-time
   eco-mode groups; the setter / getter sequences are checked on the real classes against the simulated inverter). *)
From Coq Require Import ZArith List Bool String.
From GW Require Import Prelude PyStr PyFloat Sensors SensorProofs CodecProofs Settings TablesGen SettingsGen SettingsProofs Modes ModesGen ModesInst ModesProofs GuardedProofs ESModes ESModesProofs.
Import ListNotations.
Open Scope Z_scope.

(* for every power 1..100 %, every SoC 0..100 % and both eco-mode schedule types (plain and 745-platform scaling): the
   group written for ECO_CHARGE decodes to power -p, SoC soc, the same type, and is recognised as the full-time charge group *)
Theorem C19_charge_group : forall ty p soc, ty = 0 \/ ty = 6 -> 1 <= p <= 100 -> 0 <= soc <= 100 -> charge_ok ty p soc = true.
Proof. exact eco_charge_roundtrip. Qed.

Theorem C19_discharge_group : forall ty p, ty = 0 \/ ty = 6 -> 1 <= p <= 100 -> discharge_ok ty p = true.
Proof. exact eco_discharge_roundtrip. Qed.

(* 8-byte groups (eco-mode v1) *)
Theorem C19_v1_groups : forall p, 1 <= p <= 100 -> v1_ok p = true.
Proof. exact eco_v1_roundtrip. Qed.

(* whatever schedule type was detected in the group before, the setter selects an eco-mode type before encoding *)
Theorem C19_schedule_type_selected : forall cur is745, set_schedule_type_eco cur is745 = 0 \/ set_schedule_type_eco cur is745 = 6.
Proof. exact schedule_type_after_set. Qed.

(* ---- end to end on the register-file model (Model/Modes.v over Model/Settings.v).  The step list of every mode, the registers of
   _set_offline / _clear_battery_mode_param and the values of OperationMode are GENERATED from the current source (tools/om2v.py); the
   settings are the generated tables of an ET with eco-mode v2.  For EVERY prior content of the registers: *)
Theorem C19_simple_modes_roundtrip : forall m r is745 prev p soc, simple m = true ->
  exists r', run_msteps (ctx is745 prev p soc) (et_set_mode m) r = Ok r' /\ get_operation_mode om_values et_settings r' = Ok (Some m).
Proof. exact simple_modes_roundtrip. Qed.

Theorem C19_eco_charge_roundtrip : forall r is745 prev p soc, 1 <= p <= 100 -> 0 <= soc <= 100 ->
  exists r' x, run_msteps (ctx is745 prev p soc) (et_set_mode MEcoCharge) r = Ok r' /\
               get_operation_mode om_values et_settings r' = Ok (Some MEcoCharge) /\
               read_setting r' eco_sensor = Ok (VSched x) /\ sched_decode_power (sc_type x) (sc_power x) = - p /\ sc_soc x = soc.
Proof. exact eco_charge_roundtrip_rf. Qed.

Theorem C19_eco_discharge_roundtrip : forall r is745 prev p soc, 1 <= p <= 100 -> 0 <= soc <= 100 ->
  exists r' x, run_msteps (ctx is745 prev p soc) (et_set_mode MEcoDischarge) r = Ok r' /\
               get_operation_mode om_values et_settings r' = Ok (Some MEcoDischarge) /\
               read_setting r' eco_sensor = Ok (VSched x) /\ sched_decode_power (sc_type x) (sc_power x) = p /\ sc_soc x = 100.
Proof. exact eco_discharge_roundtrip_rf. Qed.

(* ECO: the answer is decided by the first eco-mode group that was in the registers before (the steps do not touch it): ECO unless that
   group is a full-time charge / discharge group -- KNOWN FINDING, shown on the model by C19_eco_refuted *)
Theorem C19_eco_partial : forall r is745 prev p soc,
  exists r', run_msteps (ctx is745 prev p soc) (et_set_mode MEco) r = Ok r' /\ get_operation_mode om_values et_settings r' = eco_classify r.
Proof. exact eco_mode_roundtrip_partial. Qed.

Theorem C19_eco_refuted :
  match run_msteps (ctx false 0 100 100) (et_set_mode MEco) r_full_time_charge with
  | Ok r' => get_operation_mode om_values et_settings r'
  | Exc e => Exc e end = Ok (Some MEcoCharge).
Proof. exact eco_refuted. Qed.

(* set_grid_export_limit / get_grid_export_limit and set_ongrid_battery_dod / get_ongrid_battery_dod (guards, setting ids and the `100 - x`
   complement GENERATED from ET / DT by tools/om2v.py) on the register-file model: an accepted argument is read back by the getter, with
   exactly one write request, and no register outside the setting changes *)
Theorem C19_et_export_limit_roundtrip : forall r x, 0 <= x < 65535 ->
  et_export_limit <> None /\
  exists r' w, run_gsetter et_settings et_ws (the et_export_limit) x r = Ok (r', [w]) /\ run_ggetter et_settings (the et_export_limit) r' = Ok (Some x) /\
               (forall a, a <> fst w -> r' a = r a).
Proof. exact et_export_limit_roundtrip. Qed.

Theorem C19_et_dod_roundtrip : forall r x, 0 <= x <= 100 ->
  et_dod <> None /\
  exists r' w, run_gsetter et_settings et_ws (the et_dod) x r = Ok (r', [w]) /\ run_ggetter et_settings (the et_dod) r' = Ok (Some x) /\
               (forall a, a <> fst w -> r' a = r a).
Proof. exact et_dod_roundtrip. Qed.

Theorem C19_dt_export_limit_roundtrip_three_phase : forall r x, 0 <= x < 65535 ->
  dt_export_limit <> None /\
  exists r' w, run_gsetter (dt_settings true) dt_ws (the dt_export_limit) x r = Ok (r', [w]) /\ run_ggetter (dt_settings true) (the dt_export_limit) r' = Ok (Some x) /\
               (forall a, a <> fst w -> r' a = r a).
Proof. exact dt_export_limit_roundtrip_three_phase. Qed.

Theorem C19_dt_export_limit_roundtrip_single_phase : forall r x, 0 <= x < 4294967295 ->
  exists r' w, run_gsetter (dt_settings false) dt_ws (the dt_export_limit) x r = Ok (r', [w]) /\ run_ggetter (dt_settings false) (the dt_export_limit) r' = Ok (Some x) /\
               (forall a, a < fst w \/ fst w + snd w <= a -> r' a = r a).
Proof. exact dt_export_limit_roundtrip_single_phase. Qed.

(* ES family: the dispatcher ES.set_operation_mode as generated from the current source (no condition but the requested mode).  Every mode it
   handles is refused outright or ends by commanding the work mode get_operation_mode maps back to the request (ECO for the emulated modes);
   the emulated modes write eco-mode group 1 exactly once (charge / discharge as requested) and switch groups 2..4 off.  PARTIAL for ES: what the
   mode helpers send before their last statement is not modelled (mode monitor over the real class). *)
Theorem C19_es_modes_end_in_the_requested_work_mode_partial : forall m p, es_set_mode m = Some p ->
  p = [EsUnsupported] \/ es_final es_helper_final p = Some (es_expected m).
Proof. exact es_modes_end_in_the_requested_work_mode. Qed.
Theorem C19_es_emulated_modes_write_group_one_once : forall (charge : bool) p,
  es_set_mode (if charge then MEcoCharge else MEcoDischarge) = Some p ->
  hd_error p = Some EsCheckRange /\ eco_groups p = [charge] /\
  (forall id v, In (EsWrite id v) p -> v = 0 /\ In id ["eco_mode_2_switch"; "eco_mode_3_switch"; "eco_mode_4_switch"]%string) /\
  (forall id, In id ["eco_mode_2_switch"; "eco_mode_3_switch"; "eco_mode_4_switch"]%string -> In (EsWrite id 0) p).
Proof. exact es_emulated_modes_write_group_one_once. Qed.

Print Assumptions C19_charge_group.
Print Assumptions C19_discharge_group.
Print Assumptions C19_v1_groups.
Print Assumptions C19_schedule_type_selected.
Print Assumptions C19_simple_modes_roundtrip.
Print Assumptions C19_eco_charge_roundtrip.
Print Assumptions C19_eco_discharge_roundtrip.
Print Assumptions C19_eco_partial.
Print Assumptions C19_eco_refuted.
Print Assumptions C19_et_export_limit_roundtrip.
Print Assumptions C19_et_dod_roundtrip.
Print Assumptions C19_dt_export_limit_roundtrip_three_phase.
Print Assumptions C19_dt_export_limit_roundtrip_single_phase.
Print Assumptions C19_es_modes_end_in_the_requested_work_mode_partial.
Print Assumptions C19_es_emulated_modes_write_group_one_once.

(* C20 -- inverter objects are independent; returned values do not change afterwards.
   KNOWN FINDING (reproduced on every run by the two-object scenarios): the eco-mode / schedule sensor definitions are
   class-level objects mutated by read_value and shared by all inverter objects.  What the model provides: decoding is a
   function of the response bytes only (no hidden state), which is what the implementation would satisfy if the decoded
   group were a fresh value; every other interference between two objects is searched for by the interleaving scenarios. *)
From Coq Require Import ZArith List Bool String.
From GW Require Import Prelude PyStr PyFloat Sensors SensorProofs ProtoGen.
Import ListNotations.
Open Scope Z_scope.

(* the decoded value of ANY sensor is a function of the response bytes and the sensor's static definition *)
Theorem C20_decoding_has_no_hidden_state : forall d pos s1 s2, s1 = s2 -> sensor_read d pos s1 = sensor_read d pos s2.
Proof. exact (fun d pos s1 s2 H => f_equal (sensor_read d pos) H). Qed.

Print Assumptions C20_decoding_has_no_hidden_state.

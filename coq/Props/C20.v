(* C20 -- inverter objects are independent; returned values do not change afterwards.
   The property is FALSE for the code as it is (two known findings); here it is decided on a model of two ET objects in one process
   (Model/TwoObj.v) whose only shared component is the set of Schedule definition objects -- an inventory re-established from the
   source on every run (tools/sv2v.py, C20_shared_state_inventory) -- and whose programs are generated from the source:
   the part of the property that holds is proved for every interleaving, the part that fails is proved to fail, with the witnesses
   of the known findings. *)
From Coq Require Import ZArith List Bool String.
From GW Require Import Prelude PyStr PyFloat Sensors SensorProofs Settings TablesGen SettingsGen SchedDef SharedGen SchedDefRefine
  Modes ModesGen ModesInst ModesProofs TwoObj TwoObjInst TwoObjProofs TwoObjModes ProtoGen.
Import ListNotations.
Open Scope Z_scope.

(* whatever an object's own calls are, it returns the same results and transmits the same register requests as when its calls run
   alone, provided the calls on the other object do not touch a schedule definition (read / write an eco-mode or peak-shaving group,
   set ECO_CHARGE / ECO_DISCHARGE, get_operation_mode): for every interleaving, all register contents, any state of the definitions *)
Theorem C20_untouching_neighbour_does_not_interfere : forall c who l w, neighbour_untouching c who l ->
  mine who (snd (run c w l)) = alone c w who l.
Proof. exact untouching_neighbour_does_not_interfere. Qed.

Theorem C20_schedule_free_interleavings_are_independent : forall c l w, (forall who o, In (who, o) l -> touches c o = false) ->
  mine false (snd (run c w l)) = alone c w false l /\ mine true (snd (run c w l)) = alone c w true l.
Proof. exact schedule_free_interleavings_are_independent. Qed.

(* which calls that is, for the generated tables and step lists *)
Theorem C20_touching_settings : map s_id (filter is_sched et_settings) = ["peak_shaving_mode"; "eco_mode_1"; "eco_mode_2"; "eco_mode_3"; "eco_mode_4"]%string.
Proof. exact touching_settings. Qed.

Theorem C20_touching_modes : forall a b m p soc,
  touches (et_tctx a b) (OSetMode m p soc) = match m with MEcoCharge | MEcoDischarge => true | _ => false end.
Proof. exact touching_modes. Qed.

(* non-vacuity of the hypothesis *)
Theorem C20_untouching_example :
  neighbour_untouching (et_tctx false true) false
    [(false, OSetMode MEcoCharge 50 80); (true, OSetMode MGeneral 0 0); (true, OWrite "work_mode" 2); (false, OGetMode);
     (true, ORead "grid_export_limit"); (false, ORead "eco_mode_1"); (true, OSetMode MEco 0 0); (false, OWriteGroup "eco_mode_2" [0; 0; 23; 59; 255; 127; 255; 206; 0; 80; 0; 0])].
Proof. exact untouching_example. Qed.

(* KNOWN FINDING shared-eco-mode-definition, as a theorem: A (745 platform) reads its eco_mode_1, then B (platform 205, unreadable
   first group) sets ECO_CHARGE(50, 80): B transmits other register values than when it runs alone *)
Theorem C20_requests_differ_refuted :
  let c := et_tctx true false in
  let l := [(false, ORead "eco_mode_1"%string); (true, OSetMode MEcoCharge 50 80)] in
  mine true (snd (run c w_refute l)) <> alone c w_refute true l.
Proof. exact requests_differ_refuted. Qed.

Theorem C20_requests_differ_witness :
  let c := et_tctx true false in
  let l := [(false, ORead "eco_mode_1"%string); (true, OSetMode MEcoCharge 50 80)] in
  (exists o rest, mine true (snd (run c w_refute l)) = [(o, TxRead 47547 6 :: TxWrite 47547 [0; 5947; 63871; 65036; 80; 4095] :: rest)]) /\
  (exists o rest, alone c w_refute true l = [(o, TxRead 47547 6 :: TxWrite 47547 [0; 5947; 65407; 65486; 80; 0] :: rest)]).
Proof. exact requests_differ_witness. Qed.

(* KNOWN FINDING returned-eco-value-changes, as a theorem: the object handed to the caller shows other content after a later read of the
   same setting on the other object -- or on the same object *)
Theorem C20_returned_value_changes_refuted :
  let c := et_tctx true false in
  let w := mkW (w_a w_refute) (rf_of [(47547, [0; 0; 23; 59; 255; 127; 0; 50; 0; 100; 0; 0])]) defs0 in
  let r := run c w [(false, ORead "eco_mode_1"%string); (true, ORead "eco_mode_1"%string)] in
  match snd r with
  | (_, (o, _)) :: _ => shown o <> None /\ deref (fst r) o <> shown o
  | [] => False end.
Proof. exact returned_value_changes_refuted. Qed.

Theorem C20_returned_value_changes_same_object :
  let c := et_tctx true false in
  let r := run c w_refute [(false, ORead "eco_mode_1"%string); (false, OSetMode MEcoDischarge 30 100); (false, ORead "eco_mode_1"%string)] in
  match snd r with
  | (_, (o, _)) :: _ => shown o <> None /\ deref (fst r) o <> shown o
  | [] => False end.
Proof. exact returned_value_changes_same_object. Qed.

(* what objects of one process share, read from the current source: no class-level container, no mutable default, no memoisation; one
   global counter (the Modbus/TCP transaction id); per-object protocol state; four self-mutating sensor definition classes, whose instances
   in the class-level tables are exactly the Schedule / EcoModeV1 rows *)
Theorem C20_shared_state_inventory :
  class_level_containers = [] /\ mutable_defaults = [] /\ caching_decorators = [] /\
  globals_written = ["protocol._modbus_tcp_tx"%string] /\
  suspicious_mutations = ["Inverter.set_keep_alive: self._protocol.keep_alive = .."%string; "ProtocolCommand.execute: protocol._retry = .."%string] /\
  (* no object created at class-definition / import time (the ES read commands, the discovery command) is an instance of a class whose methods
     assign its own attributes: per-object state lives in objects created per inverter object *)
  forallb (fun x => negb (existsb (String.eqb (snd x)) stateful_object_classes_closure)) shared_instances = true /\
  self_mutating_definition_classes = ["EcoModeV1"; "EcoModeV2"; "PeakShavingMode"; "Schedule"]%string /\
  mutable_rows =
    rows_of "ET" [ET_all_sensors; ET_all_sensors_battery; ET_all_sensors_battery2; ET_all_sensors_meter; ET_all_sensors_mppt; ET_all_settings; ET_settings_arm_fw_19; ET_settings_arm_fw_22] ++
    rows_of "DT" [DT_all_sensors; DT_all_sensors_meter; DT_all_settings; DT_settings_single_phase; DT_settings_three_phase] ++
    rows_of "ES" [ES_sensors; ES_all_settings; ES_settings_arm_fw_14].
Proof. exact shared_state_inventory. Qed.

(* the self-mutating read_value of the two definition classes, as translated from the current source, computes the value of the sensor model
   (and a read that fails half-way leaves the attributes assigned so far: that is what run_rv returns as first component) *)
Theorem C20_schedule_read_value_is_the_model : forall d data p,
  match run_rv schedule_read_value d data p with
  | (d', Ok _) => read_schedule data p = Ok (VSched (sched_of d'))
  | (_, Exc e) => read_schedule data p = Exc e
  end.
Proof. exact schedule_read_value_refined. Qed.

Theorem C20_eco_v1_read_value_is_the_model : forall d data p, d_soc d = Some 100 -> d_month_bits d = None -> d_months d = None -> d_ty d = 0 ->
  match run_rv eco_v1_read_value d data p with
  | (d', Ok _) => read_eco_v1 data p = Ok (VSched (sched_of d'))
  | (_, Exc e) => read_eco_v1 data p = Exc e
  end.
Proof. exact eco_v1_read_value_refined. Qed.

(* every other decoded value is an immutable function of the response bytes and the sensor's static definition *)
Theorem C20_decoding_has_no_hidden_state : forall d pos s1 s2, s1 = s2 -> sensor_read d pos s1 = sensor_read d pos s2.
Proof. exact (fun d pos s1 s2 H => f_equal (sensor_read d pos) H). Qed.

(* the two-object model and the single-object model of C19 agree: on the caller's registers, set_operation_mode in the two-object world does
   what the C19 model does when its "previous schedule type" is the type the shared eco_mode_1 definition holds at that moment *)
Theorem C20_set_mode_is_the_c19_model : forall a b who m p soc r ds r' ds' rr t,
  mode_steps (et_tctx a b) who p soc (et_set_mode m) r ds = (r', ds', rr, t) ->
  run_msteps (ctx (pl745 a b who) (d_ty (ds "eco_mode_1"%string)) p soc) (et_set_mode m) r = match rr with Ok _ => Ok r' | Exc e => Exc e end.
Proof. exact set_mode_is_the_c19_model. Qed.

Theorem C20_get_mode_is_the_c19_model : forall a b who w,
  fst (snd (step (et_tctx a b) w who OGetMode)) =
  match get_operation_mode om_values et_settings (regs w who) with Ok m => OutMode m | Exc e => OutExc e end.
Proof. exact get_mode_is_the_c19_model. Qed.

(* hence the C19 round trip holds for an object inside EVERY interleaving in which the other object does not touch a schedule definition *)
Theorem C20_mode_roundtrip_in_interleavings : forall a b who m p soc l1 l2 l3 w,
  roundtrip_mode m p soc ->
  (forall o, In o (l1 ++ l2 ++ l3) -> fst o = negb who /\ touches (et_tctx a b) (snd o) = false) ->
  map fst (mine who (snd (run (et_tctx a b) w (l1 ++ (who, OSetMode m p soc) :: l2 ++ (who, OGetMode) :: l3)))) = [OutDone; OutMode (Some m)].
Proof. exact mode_roundtrip_in_interleavings. Qed.

Print Assumptions C20_untouching_neighbour_does_not_interfere.
Print Assumptions C20_schedule_free_interleavings_are_independent.
Print Assumptions C20_touching_settings.
Print Assumptions C20_touching_modes.
Print Assumptions C20_untouching_example.
Print Assumptions C20_requests_differ_refuted.
Print Assumptions C20_requests_differ_witness.
Print Assumptions C20_returned_value_changes_refuted.
Print Assumptions C20_returned_value_changes_same_object.
Print Assumptions C20_shared_state_inventory.
Print Assumptions C20_schedule_read_value_is_the_model.
Print Assumptions C20_eco_v1_read_value_is_the_model.
Print Assumptions C20_decoding_has_no_hidden_state.
Print Assumptions C20_set_mode_is_the_c19_model.
Print Assumptions C20_get_mode_is_the_c19_model.
Print Assumptions C20_mode_roundtrip_in_interleavings.

(* Canonical encodings of results, used only by the correspondence / translator-validation cases
   that the harness generates (coq/Cases/*.v).  Not used by any theorem. *)
From Coq Require Import ZArith List Bool String Ascii.
From GW Require Import Prelude PyStr.
Import ListNotations.
Open Scope Z_scope.

Definition enc_str (s : string) : list Z := map (fun c => Z.of_nat (nat_of_ascii c)) (str_to_list s).

Definition enc_exn (e : exn) : list Z :=
  match e with
  | EPartial a b => [1; a; b]
  | ERejected m => 2 :: enc_str m
  | EIndex => [3] | EValue => [4] | EOverflow => [5] | EKey => [6] | EZeroDiv => [7]
  | EType => [8] | ENotImpl => [9] | EAttr => [10]
  end.

Definition enc_res {A} (enc : A -> list Z) (r : res A) : list Z :=
  match r with Ok a => 0 :: enc a | Exc e => 1 :: enc_exn e end.

Definition enc_Z (z : Z) : list Z := [z].
Definition enc_bool (b : bool) : list Z := [if b then 1 else 0].
Definition enc_bytes (b : list Z) : list Z := b.
Definition enc_unit (u : unit) : list Z := [].
Definition enc_opt {A} (enc : A -> list Z) (o : option A) : list Z :=
  match o with Some a => 1 :: enc a | None => [0] end.
Definition enc_pair {A B} (ea : A -> list Z) (eb : B -> list Z) (p : A * B) : list Z :=
  let '(a, b) := p in (blen (ea a)) :: ea a ++ eb b.

Fixpoint list_eqb (a b : list Z) : bool :=
  match a, b with
  | [], [] => true
  | x :: a', y :: b' => (x =? y) && list_eqb a' b'
  | _, _ => false
  end.

Fixpoint mismatches_from (i : nat) (cases : list (list Z * list Z)) : list nat :=
  match cases with
  | [] => []
  | (got, want) :: tl => if list_eqb got want then mismatches_from (S i) tl else i :: mismatches_from (S i) tl
  end.
Definition mismatches (cases : list (list Z * list Z)) : list nat := mismatches_from O cases.

(* first mismatch with the model's actual value, for diagnostics *)
Fixpoint first_mismatch (i : nat) (cases : list (list Z * list Z)) : option (nat * list Z) :=
  match cases with
  | [] => None
  | (got, want) :: tl => if list_eqb got want then first_mismatch (S i) tl else Some (i, got)
  end.

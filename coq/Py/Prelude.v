(* Meaning given to the Python primitives used by the translated code (trusted, validated
   against CPython on every run by harness/corr_pure.py).  Stdlib only. *)
From Coq Require Import ZArith List Bool String Ascii Lia.
Import ListNotations.
Open Scope Z_scope.

(* ---------- exceptions and the error monad ---------- *)
Inductive exn : Type :=
| EPartial (len exp : Z)          (* PartialResponseException(length, expected) *)
| ERejected (msg : string)        (* RequestRejectedException(message) *)
| EIndex | EValue | EOverflow | EKey | EZeroDiv | EType | ENotImpl | EAttr.

Inductive res (A : Type) : Type := Ok (a : A) | Exc (e : exn).
Arguments Ok {A} a.
Arguments Exc {A} e.

Definition bind {A B} (m : res A) (f : A -> res B) : res B :=
  match m with Ok a => f a | Exc e => Exc e end.

Notation "x <- m ;; k" := (bind m (fun x => k))
  (at level 61, m at next level, right associativity).
Notation "' p <- m ;; k" := (bind m (fun p => k))
  (at level 61, p pattern, m at next level, right associativity).

Definition is_ok {A} (r : res A) : bool := match r with Ok _ => true | Exc _ => false end.

(* try: m except ValueError: h *)
Definition catch_value {A} (m : res A) (h : res A) : res A :=
  match m with Exc EValue => h | _ => m end.

(* monadic for-loop: stops at the first exception *)
Fixpoint py_for {A S} (l : list A) (body : A -> S -> res S) (s : S) : res S :=
  match l with
  | [] => Ok s
  | x :: tl => match body x s with Ok s' => py_for tl body s' | Exc e => Exc e end
  end.

(* range(a, b) / range(a, b, step) for literal bounds *)
Fixpoint range_up (a : Z) (n : nat) : list Z :=
  match n with O => [] | S n' => a :: range_up (a + 1) n' end.
Definition py_range (a b : Z) : list Z := range_up a (Z.to_nat (b - a)).
Fixpoint range_down (a : Z) (n : nat) : list Z :=
  match n with O => [] | S n' => a :: range_down (a - 1) n' end.
(* range(a, b, -1) *)
Definition py_range_down (a b : Z) : list Z := range_down a (Z.to_nat (a - b)).

(* ---------- sequences (bytes, bytearray, list, tuple) ---------- *)
Definition bytes := list Z.
Definition blen {A} (b : list A) : Z := Z.of_nat (List.length b).
Definition is_byte (x : Z) : bool := (0 <=? x) && (x <? 256).

Definition norm_idx (n i : Z) : Z := if i <? 0 then i + n else i.

Definition py_index (b : list Z) (i : Z) : res Z :=
  let j := norm_idx (blen b) i in
  if (0 <=? j) && (j <? blen b) then Ok (nth (Z.to_nat j) b 0) else Exc EIndex.

Definition py_index_g {A} (d : A) (b : list A) (i : Z) : res A :=
  let j := norm_idx (blen b) i in
  if (0 <=? j) && (j <? blen b) then Ok (nth (Z.to_nat j) b d) else Exc EIndex.

Definition clamp_idx (n i : Z) : Z := Z.max 0 (Z.min n (norm_idx n i)).

Definition py_slice {A} (b : list A) (lo hi : option Z) : list A :=
  let n := blen b in
  let l := match lo with None => 0 | Some i => clamp_idx n i end in
  let h := match hi with None => n | Some i => clamp_idx n i end in
  firstn (Z.to_nat (h - l)) (skipn (Z.to_nat l) b).

Definition bytearray (n : Z) : list Z := repeat 0 (Z.to_nat n).

Fixpoint set_nth {A} (n : nat) (v : A) (l : list A) : list A :=
  match l, n with
  | [], _ => []
  | _ :: tl, O => v :: tl
  | x :: tl, S n' => x :: set_nth n' v tl
  end.

(* bytearray item assignment: CPython checks the value first, then the index *)
Definition py_setitem (b : list Z) (i v : Z) : res (list Z) :=
  if negb (is_byte v) then Exc EValue else
  let j := norm_idx (blen b) i in
  if (0 <=? j) && (j <? blen b) then Ok (set_nth (Z.to_nat j) v b) else Exc EIndex.

Definition py_append (b : list Z) (v : Z) : res (list Z) :=
  if is_byte v then Ok (b ++ [v]) else Exc EValue.

(* bytes([a, b, ...]) *)
Definition py_bytes_of_list (l : list Z) : res (list Z) :=
  if forallb is_byte l then Ok l else Exc EValue.

(* list.pop(0) *)
Definition py_pop0 {A} (l : list A) : res (A * list A) :=
  match l with [] => Exc EIndex | x :: tl => Ok (x, tl) end.

(* ---------- int <-> bytes ---------- *)
Definition be_unsigned (b : list Z) : Z := fold_left (fun acc x => acc * 256 + x) b 0.
Definition be_signed (b : list Z) : Z :=
  match b with
  | [] => 0
  | _ => let u := be_unsigned b in
         let bits := 8 * blen b in
         if 2 ^ (bits - 1) <=? u then u - 2 ^ bits else u
  end.
Definition from_bytes_big (b : list Z) (signed : bool) : Z :=
  if signed then be_signed b else be_unsigned b.

Fixpoint be_digits (v : Z) (len : nat) : list Z :=
  match len with
  | O => []
  | S n => ((v / 256 ^ Z.of_nat n) mod 256) :: be_digits v n
  end.

Definition to_bytes_big (v len : Z) (signed : bool) : res (list Z) :=
  let bits := 8 * len in
  if signed then
    if (- 2 ^ (bits - 1) <=? v) && (v <? 2 ^ (bits - 1))
    then Ok (be_digits (v mod 2 ^ bits) (Z.to_nat len)) else Exc EOverflow
  else
    if (0 <=? v) && (v <? 2 ^ bits)
    then Ok (be_digits v (Z.to_nat len)) else Exc EOverflow.

(* ---------- integer operators ---------- *)
Definition py_floordiv (a b : Z) : res Z := if b =? 0 then Exc EZeroDiv else Ok (a / b).
Definition py_mod (a b : Z) : res Z := if b =? 0 then Exc EZeroDiv else Ok (a mod b).

(* ---------- dict literals as association lists ---------- *)
Fixpoint dict_get {V} (d : list (Z * V)) (k : Z) : option V :=
  match d with
  | [] => None
  | (k', v) :: tl => if k =? k' then Some v else dict_get tl k
  end.
Definition dict_get_d {V} (d : list (Z * V)) (k : Z) (dflt : V) : V :=
  match dict_get d k with Some v => v | None => dflt end.

Definition opt_default {A} (o : option A) (d : A) : A := match o with Some a => a | None => d end.

Definition Zmember (x : Z) (l : list Z) : bool := existsb (Z.eqb x) l.

(* ---------- protocol command objects (fields read by translated methods) ---------- *)
Record pcmd : Type := mk_pcmd { c_request : list Z; c_first_address : Z; c_value : Z }.
Definition set_c_request (c : pcmd) (r : list Z) : pcmd := mk_pcmd r (c_first_address c) (c_value c).

(* CPython float behaviour used by goodwe/sensor.py, on Coq's primitive binary64 floats (evaluated natively and
   bit-exactly by vm_compute): float(int), / * , round(x) -> int, int(x), round(x, 3), struct.unpack('>f').
   Trusted as the meaning of these Python primitives; validated against CPython on every run (sensor correspondence).
   Only PrimFloat / SpecFloat / FloatOps are imported (definitions, no axioms). *)
From Coq Require Import ZArith List Bool Uint63 PrimFloat SpecFloat FloatOps.
Import ListNotations.
Open Scope Z_scope.

Definition fprec := 53.
Definition femax := 1024.

(* float(int): correctly rounded (round half to even), any magnitude *)
Definition float_of_Z (z : Z) : float := SF2Prim (binary_normalize fprec femax z 0 false).

(* m * 2^e, correctly rounded *)
Definition float_of_scaled (m e : Z) : float := SF2Prim (binary_normalize fprec femax m e false).

Inductive fclass := FNan | FInf (neg : bool) | FFin (neg : bool) (m : Z) (e : Z).   (* |x| = m * 2^e, m >= 0 *)
Definition classify_float (f : float) : fclass :=
  match Prim2SF f with
  | S754_nan => FNan
  | S754_infinity s => FInf s
  | S754_zero s => FFin s 0 0
  | S754_finite s m e => FFin s (Zpos m) e
  end.

(* round half to even of m * 2^e (m >= 0) *)
Definition round_half_even_scaled (m e : Z) : Z :=
  if 0 <=? e then m * 2 ^ e
  else let d := 2 ^ (- e) in
       let q := m / d in let r := m mod d in
       if 2 * r <? d then q else if d <? 2 * r then q + 1 else if Z.even q then q else q + 1.

(* round(x) with one argument: an int; OverflowError / ValueError for inf / nan *)
Definition py_round (f : float) : option Z :=
  match classify_float f with
  | FFin s m e => let a := round_half_even_scaled m e in Some (if s then - a else a)
  | _ => None end.

(* int(x): truncation towards zero *)
Definition py_int (f : float) : option Z :=
  match classify_float f with
  | FFin s m e => let a := if 0 <=? e then m * 2 ^ e else m / 2 ^ (- e) in Some (if s then - a else a)
  | _ => None end.

(* n / d (n >= 0, d > 0) correctly rounded to binary64: long division to > 64 significant bits + sticky bit *)
Definition div_correctly_rounded (neg : bool) (n d : Z) : float :=
  if n =? 0 then (if neg then neg_zero else zero) else
  let k := 80 + Z.log2 d in
  let q := (n * 2 ^ k) / d in let r := (n * 2 ^ k) mod d in
  let m := 2 * q + (if r =? 0 then 0 else 1) in
  float_of_scaled (if neg then - m else m) (- k - 1).

(* round(x, 3): the decimal rounding (half to even on the exact binary value) converted back correctly rounded *)
Definition py_round3 (f : float) : float :=
  match classify_float f with
  | FFin s m e =>
      (* x * 1000 = m * 1000 * 2^e *)
      let y := round_half_even_scaled (m * 1000) e in
      div_correctly_rounded s y 1000
  | _ => f end.

(* struct.unpack('>f', 4 bytes)[0] *)
Definition unpack_f32 (b : list Z) : float :=
  match b with
  | [b0; b1; b2; b3] =>
      let w := ((b0 * 256 + b1) * 256 + b2) * 256 + b3 in
      let s := 2 ^ 31 <=? w in
      let ex := (w / 2 ^ 23) mod 256 in
      let fr := w mod 2 ^ 23 in
      if ex =? 255 then (if fr =? 0 then (if s then neg_infinity else infinity) else nan)
      else if ex =? 0 then (if fr =? 0 then (if s then neg_zero else zero) else float_of_scaled (if s then - fr else fr) (- 149))
      else float_of_scaled (if s then - (fr + 2 ^ 23) else fr + 2 ^ 23) (ex - 150)
  | _ => zero end.

(* canonical encoding for the correspondence cases: the exact value as a reduced fraction n / 2^k *)
Fixpoint reduce_pow2 (fuel : nat) (m e : Z) : Z * Z :=
  match fuel with
  | O => (m, e)
  | S n => if Z.even m && negb (m =? 0) then reduce_pow2 n (m / 2) (e + 1) else (m, e)
  end.
Definition enc_float (f : float) : list Z :=
  match classify_float f with
  | FNan => [2]
  | FInf s => [1; if s then 1 else 0]
  | FFin s m e => if m =? 0 then [0; if s then 1 else 0] else
                  let '(m', e') := reduce_pow2 1100 m e in [3; if s then 1 else 0; m'; e']
  end.

(* Python str / hex formatting primitives used by the translated code. *)
From Coq Require Import ZArith List Bool String Ascii Lia.
From GW Require Import Prelude.
Import ListNotations.
Open Scope Z_scope.

Definition slen (s : string) : Z := Z.of_nat (String.length s).

Fixpoint str_to_list (s : string) : list ascii :=
  match s with EmptyString => [] | String c tl => c :: str_to_list tl end.
Fixpoint str_of_list (l : list ascii) : string :=
  match l with [] => EmptyString | c :: tl => String c (str_of_list tl) end.

Definition str_slice (s : string) (lo hi : option Z) : string :=
  str_of_list (py_slice (str_to_list s) lo hi).
Definition str_rev (s : string) : string := str_of_list (rev (str_to_list s)).
(* iteration over the characters of a string yields 1-character strings *)
Definition str_chars (s : string) : list string :=
  map (fun c => String c EmptyString) (str_to_list s).

Fixpoint str_prefix (p s : string) : bool :=
  match p, s with
  | EmptyString, _ => true
  | String a p', String b s' => if Ascii.eqb a b then str_prefix p' s' else false
  | _, _ => false
  end.
Definition startswith (s p : string) : bool := str_prefix p s.
Definition endswith (s p : string) : bool := str_prefix (str_rev p) (str_rev s).
(* needle in hay *)
Fixpoint str_in (needle hay : string) : bool :=
  if str_prefix needle hay then true else
  match hay with EmptyString => false | String _ tl => str_in needle tl end.

Definition str_index (s : string) (i : Z) : res string :=
  let n := slen s in
  let j := norm_idx n i in
  if (0 <=? j) && (j <? n)
  then Ok (match String.get (Z.to_nat j) s with Some c => String c EmptyString | None => EmptyString end)
  else Exc EIndex.

Fixpoint str_join (sep : string) (l : list string) : string :=
  match l with
  | [] => EmptyString
  | [x] => x
  | x :: tl => (x ++ sep ++ str_join sep tl)%string
  end.

(* ---------- digits ---------- *)
Definition digit_char (d : Z) : ascii :=
  if d <? 10 then ascii_of_nat (Z.to_nat (48 + d)) else ascii_of_nat (Z.to_nat (87 + d)).

(* digits of a non-negative number, most significant first, with fuel *)
Fixpoint digits_fuel (fuel : nat) (base v : Z) (acc : list ascii) : list ascii :=
  match fuel with
  | O => acc
  | S f => let acc' := digit_char (v mod base) :: acc in
           if v / base =? 0 then acc' else digits_fuel f base (v / base) acc'
  end.
Definition digits_of (base v : Z) : string :=
  str_of_list (digits_fuel (S (Z.to_nat (Z.log2 v))) base v []).

Definition Z_to_str (v : Z) : string :=
  if v <? 0 then String "-" (digits_of 10 (- v)) else digits_of 10 v.

Fixpoint pad_zeros (n : nat) (s : string) : string :=
  match n with O => s | S n' => String "0" (pad_zeros n' s) end.

(* format(v, "0Wx"): sign, then zero padding up to total width W *)
Definition fmt_x (width : Z) (v : Z) : string :=
  if v <? 0 then
    let d := digits_of 16 (- v) in
    String "-" (pad_zeros (Z.to_nat (width - 1 - slen d)) d)
  else
    let d := digits_of 16 v in
    pad_zeros (Z.to_nat (width - slen d)) d.

(* bin(v) *)
Definition py_bin (v : Z) : string :=
  if v <? 0 then ("-0b" ++ digits_of 2 (- v))%string else ("0b" ++ digits_of 2 v)%string.

Definition hex_of_bytes (b : list Z) : string :=
  fold_right (fun x acc => (fmt_x 2 x ++ acc)%string) EmptyString b.

(* ---------- parsing ---------- *)
Definition digit_val (c : ascii) : option Z :=
  let n := Z.of_nat (nat_of_ascii c) in
  if (48 <=? n) && (n <=? 57) then Some (n - 48)
  else if (97 <=? n) && (n <=? 122) then Some (n - 87)
  else if (65 <=? n) && (n <=? 90) then Some (n - 55)
  else None.

Definition is_space (c : ascii) : bool :=
  let n := nat_of_ascii c in
  (Nat.eqb n 32) || ((Nat.leb 9 n) && (Nat.leb n 13)).

Definition hex_val (c : ascii) : option Z :=
  match digit_val c with Some d => if d <? 16 then Some d else None | None => None end.

(* bytes.fromhex: ASCII whitespace is skipped between byte pairs only *)
Fixpoint fromhex_l (l : list ascii) : res (list Z) :=
  match l with
  | [] => Ok []
  | c :: tl =>
    if is_space c then fromhex_l tl else
    match hex_val c, tl with
    | Some h, c2 :: tl2 =>
      match hex_val c2 with
      | Some lo => match fromhex_l tl2 with Ok r => Ok ((h * 16 + lo) :: r) | Exc e => Exc e end
      | None => Exc EValue
      end
    | _, _ => Exc EValue
    end
  end.
Definition fromhex (s : string) : res (list Z) := fromhex_l (str_to_list s).

Fixpoint strip_left (l : list ascii) : list ascii :=
  match l with c :: tl => if is_space c then strip_left tl else l | [] => [] end.
Definition strip_l (l : list ascii) : list ascii := rev (strip_left (rev (strip_left l))).

Fixpoint parse_digits (base : Z) (l : list ascii) (acc : Z) : option Z :=
  match l with
  | [] => Some acc
  | c :: tl => match digit_val c with
               | Some d => if d <? base then parse_digits base tl (acc * base + d) else None
               | None => None
               end
  end.

(* int(s, base) for the plain forms used by the library: optional surrounding whitespace,
   optional sign, at least one digit, no prefix, no underscores (anything else: ValueError) *)
Definition int_of_str (s : string) (base : Z) : res Z :=
  let l := strip_l (str_to_list s) in
  let '(neg, l') := match l with
                    | "-"%char :: tl => (true, tl)
                    | "+"%char :: tl => (false, tl)
                    | _ => (false, l) end in
  match l' with
  | [] => Exc EValue
  | _ => match parse_digits base l' 0 with
         | Some v => Ok (if neg then - v else v)
         | None => Exc EValue
         end
  end.

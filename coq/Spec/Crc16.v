(* Independent specification of the Modbus CRC-16 (reflected polynomial 0xA001, initial value
   0xFFFF), bit-serial, with no table. *)
From Coq Require Import ZArith List.
Import ListNotations.
Open Scope Z_scope.

Definition bitstep (x : Z) : Z :=
  if Z.odd x then Z.lxor (Z.shiftr x 1) 40961 else Z.shiftr x 1.

Definition iter8 (x : Z) : Z :=
  bitstep (bitstep (bitstep (bitstep (bitstep (bitstep (bitstep (bitstep x))))))).

Definition crc16_step (crc byte : Z) : Z := iter8 (Z.lxor crc byte).

Definition crc16 (data : list Z) : Z := fold_left crc16_step data 65535.

(* Independent, hand-written description of the three wire formats: request decoders (C03) and
   response well-formedness predicates (C01, C02).  Nothing here refers to generated code. *)
From Coq Require Import ZArith List Bool String.
From GW Require Import Crc16.
Import ListNotations.
Open Scope Z_scope.

Definition be16 (hi lo : Z) : Z := hi * 256 + lo.
Definition sum_bytes (l : list Z) : Z := fold_right Z.add 0 l.
Definition llen {A} (l : list A) : Z := Z.of_nat (List.length l).

(* two's complement image of a signed 16-bit value *)
Definition u16 (v : Z) : Z := v mod 65536.
Definition s16 (u : Z) : Z := if 32768 <=? u then u - 65536 else u.

(* ---------- requests ---------- *)
Record rtu_req := { rq_addr : Z; rq_fn : Z; rq_reg : Z; rq_val : Z }.

(* Modbus RTU single request: addr fn reg_hi reg_lo val_hi val_lo crc_lo crc_hi *)
Definition parse_rtu_req (f : list Z) : option rtu_req :=
  match f with
  | [a; fn; rh; rl; vh; vl; cl; ch] =>
    if crc16 [a; fn; rh; rl; vh; vl] =? cl + 256 * ch
    then Some {| rq_addr := a; rq_fn := fn; rq_reg := be16 rh rl; rq_val := be16 vh vl |}
    else None
  | _ => None
  end.

Record multi_req := { mq_addr : Z; mq_fn : Z; mq_reg : Z; mq_count : Z; mq_bytecount : Z; mq_payload : list Z }.

(* Modbus RTU write-multiple: addr fn reg(2) count(2) bytecount payload crc_lo crc_hi *)
Definition parse_rtu_multi_req (f : list Z) : option multi_req :=
  match f with
  | a :: fn :: rh :: rl :: nh :: nl :: bc :: rest =>
    let n := List.length rest in
    if Nat.ltb n 2 then None else
    let payload := firstn (n - 2) rest in
    match skipn (n - 2) rest with
    | [cl; ch] =>
      if crc16 (a :: fn :: rh :: rl :: nh :: nl :: bc :: payload) =? cl + 256 * ch
      then Some {| mq_addr := a; mq_fn := fn; mq_reg := be16 rh rl; mq_count := be16 nh nl;
                   mq_bytecount := bc; mq_payload := payload |}
      else None
    | _ => None
    end
  | _ => None
  end.

Record tcp_req := { tq_tx : Z; tq_proto : Z; tq_len : Z; tq_body : list Z }.

(* MBAP header: transaction id(2) protocol id(2) length(2), then length bytes *)
Definition parse_mbap (f : list Z) : option tcp_req :=
  match f with
  | t1 :: t2 :: p1 :: p2 :: l1 :: l2 :: body =>
    if be16 l1 l2 =? llen body
    then Some {| tq_tx := be16 t1 t2; tq_proto := be16 p1 p2; tq_len := be16 l1 l2; tq_body := body |}
    else None
  | _ => None
  end.

(* AA55 request: AA 55 C0 7F type(2) len payload(len) checksum(2, big endian, plain sum) *)
Record aa55_req := { aq_type : Z; aq_payload : list Z }.
Definition parse_aa55_req (f : list Z) : option aa55_req :=
  match f with
  | 170 :: 85 :: 192 :: 127 :: t1 :: t2 :: ln :: rest =>
    let n := List.length rest in
    if Nat.ltb n 2 then None else
    let payload := firstn (n - 2) rest in
    match skipn (n - 2) rest with
    | [ch; cl] =>
      if (ln =? llen payload) &&
         ((170 + 85 + 192 + 127 + t1 + t2 + ln + sum_bytes payload) mod 65536 =? be16 ch cl)
      then Some {| aq_type := be16 t1 t2; aq_payload := payload |}
      else None
    | _ => None
    end
  | _ => None
  end.

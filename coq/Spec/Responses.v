(* Independent, hand-written description of well-formed RESPONSE frames of the three framings
   (C01, C02, C07, C08).  Nothing here refers to generated code or to the Python prelude. *)
From Coq Require Import ZArith List Bool String.
From GW Require Import Crc16 Frames.
Import ListNotations.
Open Scope Z_scope.

Definition nthZ (l : list Z) (i : Z) : Z := nth (Z.to_nat i) l 0.
(* bytes a .. b-1 of l *)
Definition sub (l : list Z) (a b : Z) : list Z := firstn (Z.to_nat (b - a)) (skipn (Z.to_nat a) l).
Definition lastn (n : nat) (l : list Z) : list Z := skipn (List.length l - n) l.

(* ---------- Modbus RTU inside the AA55 envelope:  AA 55 addr fn ... crc_lo crc_hi ---------- *)
(* read answer: fn = 3, byte count = 2 * count, at least as long as announced, CRC over addr..payload *)
Definition wf_rtu_read (count : Z) (d : list Z) : Prop :=
  nthZ d 3 = 3 /\ nthZ d 4 = 2 * count /\ llen d >= 2 * count + 7 /\
  crc16 (sub d 2 (2 * count + 5)) = nthZ d (2 * count + 5) + 256 * nthZ d (2 * count + 6).

(* write / write-multiple answer: echoes function, register and value (value: signed 16 bit; for
   write-multiple the echoed word is the register count) *)
Definition wf_rtu_write (fn reg v : Z) (d : list Z) : Prop :=
  nthZ d 3 = fn /\ llen d >= 10 /\ be16 (nthZ d 4) (nthZ d 5) = reg /\
  s16 (be16 (nthZ d 6) (nthZ d 7)) = v /\
  crc16 (sub d 2 8) = nthZ d 8 + 256 * nthZ d 9.

Definition rtu_read_frame (addr : Z) (payload : list Z) : list Z :=
  let body := [addr; 3; llen payload] ++ payload in
  [170; 85] ++ body ++ [crc16 body mod 256; crc16 body / 256].

Definition rtu_write_frame (addr fn reg v : Z) : list Z :=
  let body := [addr; fn; reg / 256; reg mod 256; u16 v / 256; u16 v mod 256] in
  [170; 85] ++ body ++ [crc16 body mod 256; crc16 body / 256].

(* Modbus exception answer: function code with the high bit set, exception code, CRC *)
Definition rtu_exc_frame (addr fn code : Z) : list Z :=
  let body := [addr; fn + 128; code] in
  [170; 85] ++ body ++ [crc16 body mod 256; crc16 body / 256].

(* ---------- Modbus/TCP:  tx(2) proto(2) len(2) unit fn ... ---------- *)
Definition wf_tcp_read (count : Z) (d : list Z) : Prop :=
  nthZ d 7 = 3 /\ nthZ d 8 = 2 * count /\ llen d >= 2 * count + 9.

Definition wf_tcp_write (fn reg v : Z) (d : list Z) : Prop :=
  nthZ d 7 = fn /\ llen d >= 12 /\ be16 (nthZ d 8) (nthZ d 9) = reg /\
  s16 (be16 (nthZ d 10) (nthZ d 11)) = v.

Definition tcp_read_frame (tx1 tx2 unit_ : Z) (payload : list Z) : list Z :=
  [tx1; tx2; 0; 0; (3 + llen payload) / 256; (3 + llen payload) mod 256; unit_; 3; llen payload] ++ payload.

Definition tcp_write_frame (tx1 tx2 unit_ fn reg v : Z) : list Z :=
  [tx1; tx2; 0; 0; 0; 6; unit_; fn; reg / 256; reg mod 256; u16 v / 256; u16 v mod 256].

Definition tcp_exc_frame (tx1 tx2 unit_ fn code : Z) : list Z :=
  [tx1; tx2; 0; 0; 0; 3; unit_; fn + 128; code].

(* ---------- AA55:  AA 55 src dst type(2) len payload(len) checksum(2, big endian, plain sum) ---------- *)
Definition wf_aa55 (rtype : Z) (d : list Z) : Prop :=
  llen d = nthZ d 6 + 9 /\ s16 (be16 (nthZ d 4) (nthZ d 5)) = rtype /\
  sum_bytes (firstn (List.length d - 2) d) mod 65536 =
  be16 (nthZ d (llen d - 2)) (nthZ d (llen d - 1)).

Definition aa55_frame (src dst t1 t2 : Z) (payload : list Z) : list Z :=
  let body := [170; 85; src; dst; t1; t2; llen payload] ++ payload in
  body ++ [(sum_bytes body mod 65536) / 256; (sum_bytes body mod 65536) mod 256].

(* ---------- Modbus exception codes (Modbus application protocol specification, section 7) ---------- *)
Definition modbus_reason (code : Z) : string :=
  match code with
  | 1 => "ILLEGAL FUNCTION"
  | 2 => "ILLEGAL DATA ADDRESS"
  | 3 => "ILLEGAL DATA VALUE"
  | 4 => "SLAVE DEVICE FAILURE"
  | 5 => "ACKNOWLEDGE"
  | 6 => "SLAVE DEVICE BUSY"
  | 7 => "NEGATIVE ACKNOWLEDGEMENT"
  | 8 => "MEMORY PARITY ERROR"
  | 10 => "GATEWAY PATH UNAVAILABLE"
  | 11 => "GATEWAY TARGET DEVICE FAILED TO RESPOND"
  | _ => "UNKNOWN"
  end%string.

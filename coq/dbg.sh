#!/bin/sh
# usage: dbg.sh File.v LINE [TAILLINES] -- shows the goal before LINE
f=$1; n=$2; t=${3:-40}
head -n $((n-1)) "$f" > /tmp/dbg_$$.v
echo "Show." >> /tmp/dbg_$$.v
timeout 300 coqtop -Q Py GW -Q Gen GW -Q Spec GW -Q Model GW -Q Proofs GW -Q Props GW -w none < /tmp/dbg_$$.v 2>&1 | tail -n $t
rm -f /tmp/dbg_$$.v

#!/bin/sh
# (re)creates _CoqProject (file list) and the Makefile
cd "$(dirname "$0")"
{
cat <<EOT
-Q Py GW
-Q Gen GW
-Q Spec GW
-Q Model GW
-Q Proofs GW
-Q Props GW
-arg -w -arg -notation-overridden,-deprecated-hint-without-locality,-deprecated-instance-without-locality,-ambiguous-paths
EOT
ls Py/*.v Gen/*.v Spec/*.v Model/*.v Proofs/*.v Props/*.v 2>/dev/null
} > _CoqProject.new
if ! cmp -s _CoqProject.new _CoqProject; then mv _CoqProject.new _CoqProject; coq_makefile -f _CoqProject -o Makefile >/dev/null; else rm _CoqProject.new; [ -f Makefile ] || coq_makefile -f _CoqProject -o Makefile >/dev/null; fi

"""Evaluating model terms inside Coq (vm_compute) for correspondence / translator validation."""
from __future__ import annotations
import os, re, subprocess, hashlib, shutil, concurrent.futures as cf

ROOT = os.path.dirname(os.path.dirname(os.path.abspath(__file__)))
COQ = os.path.join(ROOT, 'coq')
CASES = os.path.join(COQ, 'Cases')
QFLAGS = ['-Q', 'Py', 'GW', '-Q', 'Gen', 'GW', '-Q', 'Spec', 'GW', '-Q', 'Model', 'GW', '-Q', 'Proofs', 'GW',
          '-Q', 'Props', 'GW', '-w', '-notation-overridden,-deprecated-hint-without-locality,-ambiguous-paths']


def zl(b) -> str:
    """Coq list Z literal of a bytes / list of ints"""
    return '[' + ';'.join(str(x) if x >= 0 else f'({x})' for x in b) + ']'


def zs(n: int) -> str:
    return str(n) if n >= 0 else f'({n})'


def cstr(s: str) -> str:
    return '"' + s.replace('"', '""') + '"%string'


def enc_exc(ex) -> list:
    """Python exception -> the encoding of Py/CaseLib.enc_exn"""
    n = type(ex).__name__
    if n == 'PartialResponseException': return [1, ex.length, ex.expected]
    if n == 'RequestRejectedException': return [2] + list(ex.message.encode('latin-1', 'replace'))
    if n == 'IndexError': return [3]
    if isinstance(ex, OverflowError): return [5]
    if n == 'KeyError': return [6]
    if n == 'ZeroDivisionError': return [7]
    if n == 'TypeError': return [8]
    if n == 'NotImplementedError': return [9]
    if n == 'AttributeError': return [10]
    if isinstance(ex, ValueError): return [4]
    return [99, *n.encode()]


def enc_call(fn, enc_ok):
    """run fn(); encode as enc_res"""
    try:
        v = fn()
    except Exception as ex:      # noqa
        return [1] + enc_exc(ex)
    return [0] + enc_ok(v)


def _run_one(path):
    try:
        p = subprocess.run(['coqc'] + QFLAGS + [path], cwd=COQ, capture_output=True, text=True, timeout=900)
    except subprocess.TimeoutExpired:
        return path, 124, 'timeout'
    return path, p.returncode, p.stdout + p.stderr


def eval_cases(tag: str, imports: str, cases: list, shard: int = 400, jobs: int = 14, prelude: str = ''):
    """cases: list of (coq_term_of_type_listZ, expected_list_of_int).  Returns (mismatch_indices, error_text)."""
    os.makedirs(CASES, exist_ok=True)
    for f in os.listdir(CASES):
        if f.startswith(f'cases_{tag}_'):
            os.remove(os.path.join(CASES, f))
    files = []
    for k in range(0, len(cases), shard):
        chunk = cases[k:k + shard]
        path = os.path.join(CASES, f'cases_{tag}_{k // shard}.v')
        with open(path, 'w') as f:
            f.write('From Coq Require Import ZArith List Bool String.\n')
            f.write(f'From GW Require Import Prelude PyStr CaseLib {imports}.\nImport ListNotations.\nOpen Scope Z_scope.\n')
            f.write(prelude + '\n')
            f.write('Definition cases : list (list Z * list Z) := [\n')
            f.write(';\n'.join(f'({t}, {zl(e)})' for t, e in chunk))
            f.write('\n].\nEval vm_compute in (mismatches cases).\n')
        files.append((k, path))
    bad, errs = [], []
    with cf.ThreadPoolExecutor(max_workers=jobs) as ex:
        for (k, path), (_, rc, out) in zip(files, ex.map(_run_one, [p for _, p in files])):
            if rc != 0:
                errs.append(f'{os.path.basename(path)}: rc={rc}\n{out[-2000:]}')
                continue
            m = re.search(r'=\s*\[(.*?)\]\s*:\s*list nat', out.replace('\n', ' '), re.S)
            if not m:
                errs.append(f'{os.path.basename(path)}: unparsable output {out[-500:]}')
                continue
            body = m.group(1).strip()
            if body:
                bad += [k + int(x.replace('%nat', '').strip()) for x in body.split(';') if x.strip()]
    for _, path in files:
        base = path[:-2]
        for ext in ('.vo', '.vok', '.vos', '.glob'):
            try: os.remove(base + ext)
            except OSError: pass
        d, b = os.path.split(base)
        try: os.remove(os.path.join(d, '.' + b + '.aux'))
        except OSError: pass
    return sorted(bad), '\n'.join(errs)


def eval_terms(tag: str, imports: str, terms: list, prelude: str = ''):
    """evaluate terms of type list Z; returns list of list[int] (or None, error)"""
    os.makedirs(CASES, exist_ok=True)
    path = os.path.join(CASES, f'eval_{tag}.v')
    with open(path, 'w') as f:
        f.write('From Coq Require Import ZArith List Bool String.\n')
        f.write(f'From GW Require Import Prelude PyStr CaseLib {imports}.\nImport ListNotations.\nOpen Scope Z_scope.\n')
        f.write(prelude + '\n')
        for t in terms:
            f.write(f'Eval vm_compute in ({t}).\n')
    _, rc, out = _run_one(path)
    for ext in ('.vo', '.vok', '.vos', '.glob'):
        try: os.remove(path[:-2] + ext)
        except OSError: pass
    if rc != 0: return None, out[-3000:]
    res = []
    for m in re.finditer(r'=\s*\[(.*?)\]\s*:\s*list Z', out.replace('\n', ' '), re.S):
        body = m.group(1).strip()
        res.append([int(x.strip().strip('()')) for x in body.split(';') if x.strip()] if body else [])
    return res, ''

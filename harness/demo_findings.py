#!/venv/bin/python
"""Stand-alone demonstrations of the defects found on the pinned tree (one function each).
Usage: PYTHONPATH=<tree> /venv/bin/python demo_findings.py [name ...]   -> prints PASS/FAIL per demo.
They were run before and after each `fix:` commit (see known_findings.json)."""
import asyncio, sys, os, socket, selectors
sys.path.insert(0, os.environ.get('GOODWE_REPO', '/repo'))
import goodwe
from goodwe import protocol as P, sensor as S
from goodwe.exceptions import *


def aa55_frame(rtype: str, payload: bytes, unit=b'\x7f\xc0') -> bytes:
    body = b'\xaa\x55' + unit + bytes.fromhex(rtype) + bytes([len(payload)]) + payload
    return body + (sum(body) & 0xffff).to_bytes(2, 'big')


def c02_aa55_big_checksum():
    cmd = P.Aa55ProtocolCommand("010600", "0186")
    bad = [n for n in (100, 130, 200, 255) if cmd.validator(aa55_frame("0186", b'\xff' * n)) is not True]
    return not bad, f"refused conforming frames with {bad} x 0xFF payload bytes"


def c03_aa55_negative_write():
    try:
        c = P.Aa55WriteCommand(0x701, -1)
        return c.request[10:12] == b'\xff\xff', c.request.hex()
    except ValueError as ex:
        return False, f"ValueError: {ex}"


def c11_day_of_week():
    bad = []
    for v in range(-128, 128):
        try: S.decode_day_of_week(v)
        except IndexError: bad.append(v)
    badm = []
    for v in range(-32768, 32768):
        try: S.decode_months(v)
        except IndexError: badm.append(v)
    return not bad and not badm, f"IndexError for {len(bad)} day bytes, {len(badm)} month words"


def c16_size():
    bad = [c.__name__ for c in (S.Apparent4, S.Reactive4) if c("x", 0, "x", None).size_ != 4]
    return not bad, f"size_ != 4 for {bad}"


def c17_decimal():
    d = S.Decimal("x", 0, 100, "x")
    bad = []
    for k in range(-32768, 32768):
        enc = d.encode_value(k / 100)
        if int.from_bytes(enc, 'big', signed=True) != k: bad.append(k)
    return not bad, f"{len(bad)} of 65536 values k/100 encode to another k, e.g. {bad[:3]}"


def main():
    names = sys.argv[1:] or [n for n, f in globals().items() if callable(f) and n[:1] == 'c' and n[1:3].isdigit()]
    ok = True
    for n in names:
        good, msg = globals()[n]()
        print(("PASS " if good else "FAIL ") + n + ("" if good else ": " + msg))
        ok &= good
    sys.exit(0 if ok else 1)


if __name__ == '__main__':
    main()

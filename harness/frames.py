"""Independent Python description of the three wire formats (twin of coq/Spec/Frames.v): bit-serial
CRC, request decoders and response builders.  Nothing here imports goodwe."""
from __future__ import annotations


def crc16(data: bytes) -> int:
    crc = 0xFFFF
    for ch in data:
        crc ^= ch
        for _ in range(8):
            crc = (crc >> 1) ^ 0xA001 if crc & 1 else crc >> 1
    return crc


def s16(u: int) -> int:
    return u - 65536 if u >= 32768 else u


# ------------------------------------------------------------------ request decoders
def parse_rtu_req(f: bytes):
    """-> dict(kind='rtu', addr, fn, reg, val | count+payload) or None"""
    if len(f) == 8 and f[1] in (3, 6):
        if crc16(f[:6]) != f[6] + 256 * f[7]: return None
        return dict(kind='rtu', addr=f[0], fn=f[1], reg=f[2] * 256 + f[3], val=f[4] * 256 + f[5])
    if len(f) >= 11 and f[1] == 0x10:
        if crc16(f[:-2]) != f[-2] + 256 * f[-1]: return None
        payload = f[7:-2]
        if f[6] != len(payload): return None
        return dict(kind='rtu', addr=f[0], fn=f[1], reg=f[2] * 256 + f[3], count=f[4] * 256 + f[5],
                    bytecount=f[6], payload=bytes(payload))
    return None


def parse_tcp_req(f: bytes):
    if len(f) < 12: return None
    tx, proto, ln = f[0] * 256 + f[1], f[2] * 256 + f[3], f[4] * 256 + f[5]
    body = f[6:]
    if proto != 0 or ln != len(body): return None
    if body[1] in (3, 6) and len(body) == 6:
        return dict(kind='tcp', tx=tx, addr=body[0], fn=body[1], reg=body[2] * 256 + body[3], val=body[4] * 256 + body[5])
    if body[1] == 0x10 and len(body) >= 9:
        payload = body[7:]
        if body[6] != len(payload): return None
        return dict(kind='tcp', tx=tx, addr=body[0], fn=body[1], reg=body[2] * 256 + body[3],
                    count=body[4] * 256 + body[5], bytecount=body[6], payload=bytes(payload))
    return None


def parse_aa55_req(f: bytes):
    if len(f) < 9 or f[:4] != b'\xaa\x55\xc0\x7f': return None
    payload = f[7:-2]
    if f[6] != len(payload): return None
    if sum(f[:-2]) & 0xFFFF != f[-2] * 256 + f[-1]: return None
    return dict(kind='aa55', type=f[4] * 256 + f[5], payload=bytes(payload))


def parse_req(f: bytes):
    return parse_aa55_req(f) or parse_rtu_req(f) or parse_tcp_req(f)


# ------------------------------------------------------------------ response builders
def rtu_read_resp(addr: int, payload: bytes, fn=3) -> bytes:
    body = bytes([addr, fn, len(payload)]) + payload
    c = crc16(body)
    return b'\xaa\x55' + body + bytes([c & 0xFF, c >> 8])


def rtu_write_resp(addr: int, fn: int, reg: int, val: int) -> bytes:
    body = bytes([addr, fn, reg >> 8, reg & 0xFF, (val >> 8) & 0xFF, val & 0xFF])
    c = crc16(body)
    return b'\xaa\x55' + body + bytes([c & 0xFF, c >> 8])


def rtu_exc_resp(addr: int, fn: int, code: int) -> bytes:
    body = bytes([addr, fn | 0x80, code])
    c = crc16(body)
    return b'\xaa\x55' + body + bytes([c & 0xFF, c >> 8])


def tcp_read_resp(tx: int, addr: int, payload: bytes, fn=3) -> bytes:
    body = bytes([addr, fn, len(payload)]) + payload
    return bytes([tx >> 8, tx & 0xFF, 0, 0, len(body) >> 8, len(body) & 0xFF]) + body


def tcp_write_resp(tx: int, addr: int, fn: int, reg: int, val: int) -> bytes:
    body = bytes([addr, fn, reg >> 8, reg & 0xFF, (val >> 8) & 0xFF, val & 0xFF])
    return bytes([tx >> 8, tx & 0xFF, 0, 0, 0, len(body)]) + body


def tcp_exc_resp(tx: int, addr: int, fn: int, code: int) -> bytes:
    body = bytes([addr, fn | 0x80, code])
    return bytes([tx >> 8, tx & 0xFF, 0, 0, 0, len(body)]) + body


def aa55_resp(rtype: int, payload: bytes) -> bytes:
    body = b'\xaa\x55\x7f\xc0' + bytes([rtype >> 8, rtype & 0xFF, len(payload)]) + payload
    return body + (sum(body) & 0xFFFF).to_bytes(2, 'big')


AA55_RESP_TYPE = {0x0102: 0x0182, 0x0106: 0x0186, 0x0109: 0x0189, 0x011A: 0x019A, 0x0239: 0x02B9}


def tag_payload(reg: int, count: int) -> bytes:
    """deterministic register contents: register r holds the word (r * 7 + 1) & 0xFFFF"""
    out = bytearray()
    for r in range(reg, reg + count):
        w = (r * 7 + 1) & 0xFFFF
        out += bytes([w >> 8, w & 0xFF])
    return bytes(out)


def valid_response(req: dict, payload_fn=tag_payload) -> bytes:
    k = req['kind']
    if k == 'aa55':
        t = req['type']
        if t == 0x011A:
            reg = req['payload'][0] * 256 + req['payload'][1]
            return aa55_resp(0x019A, payload_fn(reg, req['payload'][2]))
        if t == 0x0239:
            return aa55_resp(0x02B9, b'\x06')
        return aa55_resp(AA55_RESP_TYPE.get(t, t | 0x80), payload_fn(0, 40))
    if req['fn'] == 3:
        p = payload_fn(req['reg'], req['val'])
        return rtu_read_resp(req['addr'], p) if k == 'rtu' else tcp_read_resp(req['tx'], req['addr'], p)
    val = req['val'] if req['fn'] == 6 else req['count']
    if k == 'rtu': return rtu_write_resp(req['addr'], req['fn'], req['reg'], val)
    return tcp_write_resp(req['tx'], req['addr'], req['fn'], req['reg'], val)


def exception_response(req: dict, code: int) -> bytes:
    if req['kind'] == 'rtu': return rtu_exc_resp(req['addr'], req['fn'], code)
    if req['kind'] == 'tcp': return tcp_exc_resp(req['tx'], req['addr'], req['fn'], code)
    raise ValueError("AA55 has no exception frames")


def header_len(kind: str) -> int:
    return 5 if kind == 'rtu' else 9


# ------------------------------------------------------------------ response well-formedness (twin of coq/Spec/Responses.v)
def wf_response(spec: dict, d: bytes) -> bool:
    """spec: dict(kind='rtu'|'tcp'|'aa55', op='read'|'write'|'multi'|'aa55', count/reg/val/rtype)"""
    k, op = spec['kind'], spec['op']
    if k == 'rtu':
        if op == 'read':
            n = 2 * spec['count']
            return len(d) >= n + 7 and d[3] == 3 and d[4] == n and crc16(d[2:n + 5]) == d[n + 5] + 256 * d[n + 6]
        fn = 6 if op == 'write' else 16
        return len(d) >= 10 and d[3] == fn and d[4] * 256 + d[5] == spec['reg'] and s16(d[6] * 256 + d[7]) == spec['val'] \
            and crc16(d[2:8]) == d[8] + 256 * d[9]
    if k == 'tcp':
        if op == 'read':
            n = 2 * spec['count']
            return len(d) >= n + 9 and d[7] == 3 and d[8] == n
        fn = 6 if op == 'write' else 16
        return len(d) >= 12 and d[7] == fn and d[8] * 256 + d[9] == spec['reg'] and s16(d[10] * 256 + d[11]) == spec['val']
    if k == 'aa55':
        return len(d) >= 9 and len(d) == d[6] + 9 and s16(d[4] * 256 + d[5]) == spec['rtype'] \
            and sum(d[:-2]) & 0xFFFF == d[-2] * 256 + d[-1]
    raise ValueError(spec)


def apply_mbap(frame: bytes, delta: int) -> bytes:
    """the known firmware quirk: a Modbus/TCP answer whose MBAP length field (bytes 4-5) is off by `delta` (the library ignores that field)"""
    if not delta or len(frame) < 6: return frame
    n = (frame[4] * 256 + frame[5] + delta) & 0xFFFF
    return frame[:4] + bytes([n >> 8, n & 255]) + frame[6:]

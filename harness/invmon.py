"""Inverter-level scenarios against the simulated inverter (harness/siminv.py): monitors of C14 (run time), C15, C16, C17,
C18, C19 and C20 on the REAL ET / DT / ES classes."""
from __future__ import annotations
import asyncio, itertools, math
from . import siminv as SI, frames as F

BLOCKS = {   # optional register blocks an ET may refuse
    'battery': (37000, 37023), 'battery2': (39000, 39021), 'meter_ext2': (36058, 36124), 'meter_ext': (36045, 36057),
    'mppt': (35301, 35361), 'eco_v2': (47547, 47552), 'peak_shaving': (47589, 47594),
}
ET_SERIALS = {'205 three-phase': '9010KETU123W0001', '205 single-phase': '95000EHU123W0001', '745 HV': '9015KETT123W0001',
              '745 LV single-phase': '96000ESN123W0001', '753 4-MPPT single-phase': '96000HSB123W0001', '2-battery 3-MPPT': '925KET123W0001',
              'no tag': '9XXXXXXX123W0001'}
DT_SERIALS = {'three-phase': '9010KDTU123W0001', 'single-phase 3-MPPT': '95000MSU123W0001', 'single-phase': '93000DSN123W0001',
              'three-phase 3-mppt': '9010KPSC123W0001'}
ES_SERIALS = {'ESU': '95048ESU123W0001', 'EMU': '95048EMU123W0001', 'BPS': '95000BPS123W0001'}


def run(coro):
    if SI.E2E['on']: return SI.run_e2e(coro)
    return asyncio.run(coro)


def same(a, b):
    if isinstance(a, float) and isinstance(b, float) and a != a and b != b: return True
    return type(a) == type(b) and a == b or (a == b and not isinstance(a, bool))


def make_et(goodwe, serial, rated, refuse=(), battery_mode=2, seed=0, arm_fw=19, port=8899, comm_addr=0):
    sim = SI.Sim(seed=seed, refuse=[BLOCKS[b] for b in refuse])
    SI.et_identity(sim, serial=serial, rated=rated, arm_fw=arm_fw)
    sim.set(35184, battery_mode)
    if SI.E2E['on']:
        inv = goodwe.ET(SI.e2e_host(sim), port, comm_addr); inv._sim = sim
        return inv, sim
    inv = SI.attach(goodwe.ET('192.0.2.1', port, comm_addr), sim)
    return inv, sim


def make_dt(goodwe, serial, refuse_meter=False, seed=0, port=8899, comm_addr=0):
    sim = SI.Sim(seed=seed, refuse=[(30195, 30209)] if refuse_meter else [])
    SI.dt_identity(sim, serial=serial)
    if SI.E2E['on']:
        inv = goodwe.DT(SI.e2e_host(sim), port, comm_addr); inv._sim = sim
        return inv, sim
    inv = SI.attach(goodwe.DT('192.0.2.1', port, comm_addr), sim)
    return inv, sim


def make_es(goodwe, serial, firmware='2314E', seed=0):
    sim = SI.Sim(seed=seed)
    SI.es_identity(sim, serial=serial, firmware=firmware)
    rng = sim.rng
    sim.runtime[:] = bytes(rng.randrange(256) for _ in range(len(sim.runtime)))
    sim.settings[:] = bytes(rng.randrange(2) for _ in range(len(sim.settings)))
    if SI.E2E['on']:
        inv = goodwe.ES(SI.e2e_host(sim), 8899); inv._sim = sim
        return inv, sim
    inv = SI.attach(goodwe.ES('192.0.2.1', 8899), sim)
    return inv, sim


# ------------------------------------------------------------------------------------------------ short reads (C14)
class ShortReads:
    """records decodes that read past the end of the response (ProtocolResponse.read returns fewer bytes than requested)"""
    def __init__(self, goodwe):
        import goodwe.protocol as PR, goodwe.inverter as INV
        self.PR, self.INV = PR, INV
        self.events = []
        self.cur = [None]
        self.orig_read = PR.ProtocolResponse.read
        self.orig_map = INV.Inverter.__dict__['_map_response']
        sr = self

        def read(resp, size):
            b = sr.orig_read(resp, size)
            if len(b) < size and sr.cur[0] is not None:
                sr.events.append((sr.cur[0], resp.command.first_address if resp.command is not None and hasattr(resp.command, 'first_address') else None,
                                  getattr(resp.command, 'value', None)))
            return b

        class Tracked:
            """the sensor object handed to the REAL Inverter._map_response: everything is the sensor's own, read() also notes which sensor is decoding"""
            def __init__(self, sensor): self.__dict__['_s'] = sensor

            def __getattr__(self, name): return getattr(self.__dict__['_s'], name)

            def read(self, data):
                sr.cur[0] = self.__dict__['_s'].id_
                try:
                    return self.__dict__['_s'].read(data)
                finally:
                    sr.cur[0] = None

        def map_response(response, sensors):
            # the implementation's own mapping helper (looked up now, so a changed one is the one that runs)
            return INV.Inverter._map_response(response, tuple(Tracked(x) for x in sensors))
        PR.ProtocolResponse.read = read
        self.map_response = map_response

    def restore(self):
        self.PR.ProtocolResponse.read = self.orig_read


# the inverter clock (yy mm dd hh mi ss) as served on one call: decodable, or one of the contents a Timestamp sensor cannot decode (clock not yet
# synchronised: all zero; month 13; day 32; hour 24; 0xFF bytes)
BAD_CLOCKS = (bytes(6), bytes([24, 13, 1, 0, 0, 0]), bytes([24, 2, 32, 0, 0, 0]), bytes([24, 2, 28, 24, 0, 0]), b'\xff' * 6, bytes([24, 0, 10, 1, 1, 1]))
GOOD_CLOCK = bytes([24, 2, 28, 12, 30, 15])


def clock_for(rng, call):
    """the clock contents for call number `call` of a history: about half of the histories see an undecodable clock on one or more calls"""
    return rng.choice(BAD_CLOCKS) if rng.random() < 0.35 else GOOD_CLOCK


def et_configs(rng, deep):
    serials = list(ET_SERIALS.items())
    powers = [5000, 10000, 15000, 25000, 29900]
    names = list(BLOCKS)
    subsets = [tuple(n for i, n in enumerate(names) if m >> i & 1) for m in range(1 << len(names))]
    out = []
    if deep:
        for (tag, serial), rated, sub in itertools.product(serials, powers, subsets):
            for bm in (0, 2): out.append((tag, serial, rated, sub, bm))
    else:
        for sub in subsets:                       # every refusal subset at least once
            tag, serial = serials[rng.randrange(len(serials))]
            out.append((tag, serial, rng.choice(powers), sub, rng.choice([0, 2])))
        for (tag, serial), rated in itertools.product(serials, powers):      # every model x power
            out.append((tag, serial, rated, rng.choice(subsets), rng.choice([0, 2, 2])))
    return out


def check_keys(inv, data):
    ids = {s.id_ for s in inv.sensors()}
    keys = set(data)
    return keys == ids, sorted(ids - keys), sorted(keys - ids)


def mon_runtime(st, ctx, goodwe, want=('C15', 'C14')):
    """C15: keys == sensors() ids, success no later than the second call; C14: no decode reads past the fetched window.
    Twice: with the simulator behind _read_from_socket, and (a quarter of the configurations) END TO END through the real Udp / TcpInverterProtocol
    on the virtual-time loop, refused blocks answered with Modbus exception frames"""
    _mon_runtime(st, ctx, goodwe, want, False)
    with SI.e2e():
        _mon_runtime(st, ctx, goodwe, want, True)


def _mon_runtime(st, ctx, goodwe, want, e2e):
    KNOWN = {'apparent_power2', 'apparent_power3'}
    tagx = ' [end to end]' if e2e else ''
    # every configuration twice for C15: sensors() asked only after each poll / also before the first poll and between the polls (an application
    # that creates its entities from sensors() right after read_device_info())
    ecfgs = et_configs(ctx.rng, ctx.deep)
    if e2e: ecfgs = ecfgs[:: (4 if not ctx.deep else 16)]
    for (tag, serial, rated, sub, bm), listed in [(c, l) for c in ecfgs for l in ((False, True) if 'C15' in want and not e2e else (False,))]:
        inv, sim = make_et(goodwe, serial, rated, sub, bm, seed=ctx.rng.randrange(1 << 30), port=(502 if e2e and ctx.rng.random() < 0.4 else 8899))
        sr = ShortReads(goodwe)
        inv._map_response = sr.map_response
        cfg = dict(family='ET', model=tag, serial=serial, rated_power=rated, refused=list(sub), battery_mode=bm, sensors_listed_before_each_poll=listed, end_to_end=e2e, port=inv._protocol._port if hasattr(inv._protocol, '_port') else None)
        try:
            run(inv.read_device_info())
            outcomes = []; clocks = []; cfg['clock_registers_per_call'] = clocks
            for call in range(3):
                if call == 2 and bm == 0: sim.set(35184, 3)        # the battery appears between the calls
                clk = clock_for(ctx.rng, call); sim.set_bytes(35100, clk); clocks.append(clk.hex())
                if listed: inv.sensors()
                try:
                    data = run(inv.read_runtime_data())
                    ok, missing, extra = check_keys(inv, data)
                    outcomes.append('ok')
                    if not ok and 'C15' in want:
                        st.violation('keys-differ', f'ET {tag}{tagx} rated {rated} refusing {list(sub)} battery_mode {bm}: call {call + 1}: in sensors() but not in the result: '
                                                    f'{missing[:6]}; in the result but not in sensors(): {extra[:6]}', dict(config=cfg, call=call + 1))
                except Exception as ex:     # noqa
                    outcomes.append(type(ex).__name__)
            if 'C15' in want and 'ok' not in outcomes[:2]:
                st.violation('no-success-by-second-call', f'ET {tag}{tagx} rated {rated} refusing {list(sub)}: outcomes of three calls {outcomes}', dict(config=cfg, outcomes=outcomes))
            if 'C15' in want and outcomes[0] == 'ok' and outcomes[1:] != ['ok', 'ok'] or (outcomes[1] == 'ok' and outcomes[2] != 'ok'):
                if 'C15' in want: st.violation('fails-after-success', f'ET {tag} rated {rated} refusing {list(sub)}: outcomes {outcomes}', dict(config=cfg, outcomes=outcomes))
            if 'C14' in want:
                for sid, first, count in sr.events:
                    key = 'mppt-window' if sid in KNOWN and first == 35301 else 'short-read'
                    st.violation(key, f'ET {tag} rated {rated} refusing {list(sub)}: sensor {sid} decoded past the end of the answer to READ {count} registers from {first}',
                                 dict(config=cfg, sensor=sid, first=first, count=count))
            st.case(('ET', serial, rated, sub, bm, listed, e2e), sample=dict(config=cfg, outcomes=outcomes) if len(st.samples) < 3 else None)
        finally:
            sr.restore()
    # a request lost in the middle of a call (the call fails with RequestFailedException, which the property allows); the calls
    # after it must again return exactly the listed sensors, decoded from inside the fetched windows
    lossy = [c for c in et_configs(ctx.rng, False) if {'meter_ext2', 'meter_ext', 'battery', 'mppt'} & set(c[3])]
    if e2e: lossy = []          # end to end a lost request is retransmitted by the protocol: covered by the protocol properties
    for tag, serial, rated, sub, bm in lossy[:: (4 if not ctx.deep else 1)]:
        for k in range(1, 7):
            inv, sim = make_et(goodwe, serial, rated, sub, bm, seed=ctx.rng.randrange(1 << 30))
            sr = ShortReads(goodwe); inv._map_response = sr.map_response
            cfg = dict(family='ET', model=tag, serial=serial, rated_power=rated, refused=list(sub), battery_mode=bm, lost_request_of_first_call=k)
            try:
                run(inv.read_device_info())
                sim.lose = {len(sim.log) + k}
                outcomes = []
                for call in range(4):
                    try:
                        data = run(inv.read_runtime_data()); outcomes.append('ok')
                        ok, missing, extra = check_keys(inv, data)
                        if not ok and 'C15' in want:
                            st.violation('keys-differ', f'ET {tag} rated {rated} refusing {list(sub)}, request {k} of the first call lost: call {call + 1}: in sensors() but not in '
                                                        f'the result {missing[:6]}; in the result but not in sensors() {extra[:6]}', dict(config=cfg, call=call + 1))
                    except Exception as ex:     # noqa
                        outcomes.append(type(ex).__name__)
                    sim.lose = set()
                if 'C15' in want and 'ok' not in outcomes[1:3]:
                    st.violation('no-success-by-second-call', f'ET {tag} rated {rated} refusing {list(sub)}, request {k} of the first call lost: outcomes {outcomes}', dict(config=cfg, outcomes=outcomes))
                if 'C14' in want:
                    for sid, first, count in sr.events:
                        key = 'mppt-window' if sid in KNOWN and first == 35301 else 'short-read'
                        st.violation(key, f'ET {tag} rated {rated} refusing {list(sub)}, request {k} of the first call lost: sensor {sid} decoded past the end of the answer to READ '
                                          f'{count} registers from {first}', dict(config=cfg, sensor=sid, first=first, count=count))
                st.case(('ET-loss', serial, rated, sub, bm, k))
            finally:
                sr.restore()
    for tag, serial in DT_SERIALS.items():
        for refuse in (False, True):
            inv, sim = make_dt(goodwe, serial, refuse, seed=ctx.rng.randrange(1 << 30))
            sr = ShortReads(goodwe); inv._map_response = sr.map_response
            cfg = dict(family='DT', model=tag, serial=serial, meter_refused=refuse)
            try:
                run(inv.read_device_info())
                outcomes = []
                clocks = []; cfg['clock_registers_per_call'] = clocks
                for call in range(3):
                    clk = clock_for(ctx.rng, call); sim.set_bytes(30100, clk); clocks.append(clk.hex())
                    inv.sensors()
                    try:
                        data = run(inv.read_runtime_data())
                        ok, missing, extra = check_keys(inv, data)
                        outcomes.append('ok')
                        if not ok and 'C15' in want:
                            st.violation('keys-differ', f'DT {tag} meter refused={refuse}: call {call + 1}: missing {missing[:6]} extra {extra[:6]}', dict(config=cfg, call=call + 1))
                    except Exception as ex:     # noqa
                        outcomes.append(type(ex).__name__)
                if 'C15' in want and 'ok' not in outcomes[:2]:
                    st.violation('no-success-by-second-call', f'DT {tag}: outcomes {outcomes}', dict(config=cfg, outcomes=outcomes))
                if 'C14' in want:
                    for sid, first, count in sr.events:
                        st.violation('short-read', f'DT {tag}: sensor {sid} decoded past the end of the answer to READ {count} registers from {first}',
                                     dict(config=cfg, sensor=sid, first=first, count=count))
                st.case(('DT', serial, refuse, e2e))
            finally:
                sr.restore()
    if 'C15' in want:
        for tag, serial in ES_SERIALS.items():
            inv, sim = make_es(goodwe, serial, seed=ctx.rng.randrange(1 << 30))
            run(inv.read_device_info())
            for call in range(2):
                data = run(inv.read_runtime_data())
                ok, missing, extra = check_keys(inv, data)
                if not ok: st.violation('keys-differ', f'ES {tag}: missing {missing[:6]} extra {extra[:6]}', dict(config=dict(family='ES', serial=serial)))
            st.case(('ES', serial, e2e))


# ------------------------------------------------------------------------------------------------ C16
COMPUTED = ('Calculated', 'EnumCalculated', 'EnumBitmap4', 'EnumBitmap22')


def mon_single(st, ctx, goodwe):
    """read_sensor(id) == read_runtime_data()[id] for every listed id; also after the capability set changed"""
    cfgs = [(t, s, r, sub, bm) for (t, s, r, sub, bm) in et_configs(ctx.rng, False)][:: (6 if not ctx.deep else 1)]
    for tag, serial, rated, sub, bm in cfgs:
        for fill in (None, 0xFFFF, 0x7FFF, 0):
            inv, sim = make_et(goodwe, serial, rated, sub, bm, seed=ctx.rng.randrange(1 << 30))
            sim.fill = fill
            SI.et_identity(sim, serial=serial, rated=rated); sim.set(35184, bm)
            cfg = dict(family='ET', model=tag, serial=serial, rated_power=rated, refused=list(sub), battery_mode=bm, fill=fill)
            run(inv.read_device_info())
            try: data = run(inv.read_runtime_data())
            except Exception: data = run(inv.read_runtime_data())
            _compare_single(st, inv, data, cfg)
            if fill is not None: break
    # optional blocks refused by an inverter that has a battery / a second battery / MPPT trackers: after the poll, every id still listed is readable singly
    for tag, serial, rated, sub in (('205 three-phase', ET_SERIALS['205 three-phase'], 10000, ('battery',)), ('745 HV', ET_SERIALS['745 HV'], 15000, ('battery', 'mppt')),
                                    ('2-battery 3-MPPT', ET_SERIALS['2-battery 3-MPPT'], 25000, ('battery2',)), ('745 HV', ET_SERIALS['745 HV'], 20000, ('mppt', 'meter_ext2'))):
        inv, sim = make_et(goodwe, serial, rated, sub, 2, seed=ctx.rng.randrange(1 << 30))
        cfg = dict(family='ET', model=tag, serial=serial, rated_power=rated, refused=list(sub), battery_mode=2, history='two polls, then read_sensor of every listed id')
        run(inv.read_device_info())
        for _ in range(2):
            try: data = run(inv.read_runtime_data())
            except Exception: data = {}      # noqa
        _compare_single(st, inv, data, cfg)
    # capability changes between the calls: battery disappears, a single read, battery comes back
    for tag, serial in list(ET_SERIALS.items())[:3]:
        inv, sim = make_et(goodwe, serial, 10000, (), 0, seed=ctx.rng.randrange(1 << 30))
        cfg = dict(family='ET', model=tag, serial=serial, history='battery_mode 0 -> read_sensor -> battery_mode 2 -> bulk -> read_sensor')
        run(inv.read_device_info()); run(inv.read_runtime_data())
        try: run(inv.read_sensor('vpv1'))
        except Exception: pass
        sim.set(35184, 2)
        data = run(inv.read_runtime_data())
        _compare_single(st, inv, data, cfg, only_prefix='battery')
    for tag, serial in DT_SERIALS.items():
        inv, sim = make_dt(goodwe, serial, False, seed=ctx.rng.randrange(1 << 30))
        cfg = dict(family='DT', model=tag, serial=serial)
        run(inv.read_device_info()); data = run(inv.read_runtime_data())
        _compare_single(st, inv, data, cfg)
    # the SETTINGS api used before the single reads: ids that name both a sensor and a setting (ET: work_mode, battery_modules, ...), every setting
    # read once, the getters that read settings -- none of it may change what read_sensor(id) fetches
    variants = [('ET', lambda: make_et(goodwe, ET_SERIALS['205 three-phase'], 10000, (), 2, seed=ctx.rng.randrange(1 << 30), arm_fw=22)),
                ('ET 745', lambda: make_et(goodwe, ET_SERIALS['745 HV'], 15000, ('meter_ext2',), 2, seed=ctx.rng.randrange(1 << 30), arm_fw=22)),
                ('DT', lambda: make_dt(goodwe, DT_SERIALS['three-phase'], False, seed=ctx.rng.randrange(1 << 30)))]
    for fam, mk in variants:
        for order in ('settings-first', 'sensors-first'):
            inv, sim = mk()
            run(inv.read_device_info())
            shared = sorted({x.id_ for x in inv.sensors()} & {x.id_ for x in inv.settings()})
            cfg = dict(family=fam, history=f'{order}: read_setting of the ids that are also sensors {shared}, every getter, then read_sensor of every id')
            if order == 'sensors-first':
                try: data = run(inv.read_runtime_data())
                except Exception: data = run(inv.read_runtime_data())    # noqa
                for i in shared:
                    try: run(inv.read_sensor(i))
                    except Exception: pass     # noqa
            for i in shared + [x.id_ for x in inv.settings()][:: (1 if ctx.deep else 5)]:
                try: run(inv.read_setting(i))
                except Exception: pass         # noqa
            for g in ('get_operation_mode', 'get_grid_export_limit', 'get_ongrid_battery_dod'):
                try: run(getattr(inv, g)())
                except Exception: pass         # noqa
            try: data = run(inv.read_runtime_data())
            except Exception: data = run(inv.read_runtime_data())        # noqa
            _compare_single(st, inv, data, cfg)


def _compare_single(st, inv, data, cfg, only_prefix=None):
    for s in inv.sensors():
        if only_prefix and not s.id_.startswith(only_prefix): continue
        bulk = data.get(s.id_)
        st.case((cfg.get('serial'), s.id_, repr(bulk)), sample=dict(config=cfg, sensor=s.id_, bulk=repr(bulk)) if len(st.samples) < 3 else None)
        try:
            single = run(inv.read_sensor(s.id_))
        except NotImplementedError:
            key = 'computed-sensor-not-readable' if type(s).__name__ in COMPUTED else 'not-implemented'
            st.violation(key, f'read_sensor({s.id_!r}) raises NotImplementedError although sensors() lists it ({type(s).__name__})', dict(config=cfg, sensor=s.id_))
            continue
        except ValueError as ex:
            if bulk is not None:
                st.violation('single-read-fails', f'read_sensor({s.id_!r}) raises ValueError({ex}) but the bulk read reports {bulk!r}', dict(config=cfg, sensor=s.id_))
            elif s.id_ not in data and 'nknown' in str(ex):
                # listed by sensors(), not reported by the bulk read (so not "reported as None"), and the single read calls it an unknown sensor
                st.violation('listed-sensor-unknown', f'read_sensor({s.id_!r}) raises ValueError({ex}) for an id that sensors() lists (the bulk read does not report it at all)',
                             dict(config=cfg, sensor=s.id_))
            continue
        except Exception as ex:     # noqa
            st.violation('single-read-fails', f'read_sensor({s.id_!r}) raises {type(ex).__name__}: {ex}', dict(config=cfg, sensor=s.id_))
            continue
        if s.id_ in ('apparent_power2', 'apparent_power3'): continue     # C14 known finding: the bulk value itself is decoded from missing bytes
        if hasattr(bulk, 'start_h'): continue                                # shared mutable object (C20)
        if not same(bulk, single):
            st.violation('single-differs', f'read_sensor({s.id_!r}) = {single!r} but read_runtime_data()[{s.id_!r}] = {bulk!r} on unchanged registers', dict(config=cfg, sensor=s.id_))


# ------------------------------------------------------------------------------------------------ C17
def setting_values(s, rng, deep, search=False):
    """values written to a setting; deep: the thorough tier (exhaustive for Decimal); search: the search after a broken proof in a quick run (medium)"""
    c = type(s).__name__
    if c == 'Integer': return [0, 1, 100, 255, 256, 32767, 32768, 65534] + [rng.randrange(65535) for _ in range(4 if not deep else 40)]
    if c == 'IntegerS': return [-32768, -1, 0, 1, 32767] + [rng.randrange(-32768, 32768) for _ in range(4)]
    if c == 'Long': return [0, 1, 65535, 65536, 2 ** 31, 2 ** 32 - 2] + [rng.randrange(2 ** 32 - 1) for _ in range(4)]
    if c in ('ByteH', 'ByteL'): return list(range(-128, 128)) if deep else [-128, -2, -1, 0, 1, 85, 127] + [rng.randrange(-128, 128) for _ in range(4)]
    if c in ('Voltage', 'Current'): return [k / 10 for k in ([0, 1, 57, 1234, 5000, 65534] + [rng.randrange(65535) for _ in range(6 if not deep else 200)])]
    if c == 'CurrentS': return [k / 10 for k in [-32768, -57, -1, 0, 1, 57, 32767]]
    if c == 'Decimal':
        ks = list(range(-32768, 32768, (1 if not search else 41) if deep else 257)) + [57, 29, -29, 56, 58, 100, -100]
        return [k / s.scale for k in ks]
    return []


BOUNDARY_WORDS = (0x0000, 0xffff, 0x00ff, 0xff00, 0x7f80, 0x8000)


def mon_write(st, ctx, goodwe):
    import datetime
    fams = []
    inv, sim = make_et(goodwe, ET_SERIALS['205 three-phase'], 10000, (), 2, seed=ctx.rng.randrange(1 << 30)); run(inv.read_device_info()); fams.append(('ET', inv, sim))
    inv, sim = make_et(goodwe, ET_SERIALS['745 HV'], 15000, ('eco_v2', 'peak_shaving'), 2, seed=ctx.rng.randrange(1 << 30), port=502); run(inv.read_device_info()); fams.append(('ET-v1-tcp', inv, sim))
    inv, sim = make_dt(goodwe, DT_SERIALS['three-phase'], seed=ctx.rng.randrange(1 << 30)); run(inv.read_device_info()); fams.append(('DT', inv, sim))
    inv, sim = make_dt(goodwe, DT_SERIALS['single-phase'], seed=ctx.rng.randrange(1 << 30)); run(inv.read_device_info()); fams.append(('DT-1ph', inv, sim))
    for fam, inv, sim in fams:
        for s in inv.settings():
            vals = setting_values(s, ctx.rng, ctx.deep, getattr(ctx, 'search', False))
            c = type(s).__name__
            if c == 'Timestamp': vals = [datetime.datetime(2024, 2, 29, 23, 59, 58), datetime.datetime(2000, 1, 1, 0, 0, 0), datetime.datetime(2099, 12, 31, 12, 0, 1)]
            if c in ('EcoModeV1',): vals = [bytes.fromhex('0000173b0014ff7f'), bytes.fromhex('0630171effe2ff55'), bytes.fromhex('3000300000640000')]
            if c in ('EcoModeV2', 'Schedule', 'PeakShavingMode'):
                vals = [bytes.fromhex('0000173bff7fffec00500000'), bytes.fromhex('0630171e001500140064003f'), bytes.fromhex('0000173bfc7f00c8003c0000')]
            for v in vals:
                _write_case(st, fam, inv, sim, s, v)
            # one-byte settings are merged into the register they share: boundary contents of that register before the write
            if c in ('ByteH', 'ByteL'):
                for prior in BOUNDARY_WORDS:
                    for v in (vals[:2] if not ctx.deep else vals[:6]):
                        sim.set(s.offset, prior)
                        _write_case(st, f'{fam} register {prior:#06x} before the write', inv, sim, s, v)
        _write_sequences(st, ctx, fam, inv, sim)
    # ES: register-addressed eco-mode groups and switches (AA55 for v1, Modbus for v2)
    for serial, firmware in (('95048ESU123W0001', '2314E'), ('95048ESU123W0001', '1005A')):
        inv, sim = make_es(goodwe, serial, firmware, seed=ctx.rng.randrange(1 << 30)); run(inv.read_device_info())
        for s in inv.settings():
            c = type(s).__name__
            if c == 'EcoModeV1': vals = [bytes.fromhex('0000173b0014ff7f'), bytes.fromhex('0630171effe2ff55')]
            elif c in ('EcoModeV2',): vals = [bytes.fromhex('0000173bff7fffec00500000'), bytes.fromhex('0630171e001500140064003f')]
            elif c == 'ByteH' and 'eco_mode' in s.id_: vals = list(range(-128, 128)) if ctx.deep else [-128, -1, 0, 1, 127, ctx.rng.randrange(-128, 128)]
            else: continue
            for v in vals:
                _write_case(st, f'ES fw {firmware}', inv, sim, s, v)
            if c == 'ByteH':
                for prior in BOUNDARY_WORDS:
                    for v in vals[:2]:
                        sim.set(s.offset, prior)
                        _write_case(st, f'ES fw {firmware} register {prior:#06x} before the write', inv, sim, s, v)
        _write_sequences(st, ctx, f'ES fw {firmware}', inv, sim)


def _write_sequences(st, ctx, fam, inv, sim):
    """histories: writes of settings that share registers (a one-byte switch inside a multi-register group, two halves of one
    register), interleaved; every write is judged by _write_case against the simulator's state right before it"""
    settings = list(inv.settings())
    def regs(x): return range(x.offset, x.offset + max(1, (x.size_ + 1) // 2))
    groups = {'EcoModeV1': [bytes.fromhex('0000173b0014ff7f'), bytes.fromhex('0630171effe2ff1f'), bytes.fromhex('0100020000640055')],
              'EcoModeV2': [bytes.fromhex('0000173bff7fffec00500000'), bytes.fromhex('0630171eff1f00140064003f'), bytes.fromhex('01000200ff55000a00320001')]}
    pairs = []
    for b in settings:
        if type(b).__name__ not in ('ByteH', 'ByteL'): continue
        for g in settings:
            if g is b or type(g).__name__ not in groups: continue
            if b.offset in regs(g): pairs.append((b, g))
        for b2 in settings:
            if b2 is not b and type(b2).__name__ in ('ByteH', 'ByteL') and b2.offset == b.offset and type(b2) is not type(b): pairs.append((b, b2))
    for b, g in pairs[:: (1 if ctx.deep else 2)]:
        gv = groups.get(type(g).__name__, [1, -2, 85])
        bv = [-1, 0, 1, 85, -128]
        seqs = [[(b, bv[0]), (g, gv[0]), (b, bv[1])], [(b, bv[2]), (g, gv[1]), (b, bv[3]), (g, gv[2]), (b, bv[4])], [(g, gv[1]), (b, bv[0]), (g, gv[0]), (b, bv[1])]]
        for seq in seqs:
            for x, v in seq:
                _write_case(st, fam + ' history ' + '>'.join(y.id_ for y, _ in seq), inv, sim, x, v)


def _write_case(st, fam, inv, sim, s, v):
    cfg = dict(family=fam, setting=s.id_, value=v.hex() if isinstance(v, bytes) else repr(v))
    before = dict(sim.regs); n0 = len(sim.log)
    snapshot = {a: sim.word(a) for a in range(s.offset - 4, s.offset + 12)}
    st.case((fam, s.id_, repr(v)), sample=cfg if len(st.samples) < 3 else None)
    try:
        run(inv.write_setting(s.id_, v))
    except Exception as ex:     # noqa
        st.count('write-refused:' + type(ex).__name__)
        return
    new = sim.log[n0:]
    writes = [e for e in new if e in sim.writes()]
    nregs = max(1, (s.size_ + 1) // 2)
    if len(writes) != 1:
        st.violation('write-count', f'{fam}: write_setting({s.id_!r}, {cfg["value"]}) transmitted {len(writes)} write requests', dict(config=cfg)); return
    w = writes[0]
    if w.get('kind') == 'aa55':
        reg = w['payload'][0] * 256 + w['payload'][1]
        cnt = 1 if w['payload'][2] == 1 else len(w['payload'][3:]) // 2
    else:
        reg, cnt = w['reg'], (1 if w['fn'] == 6 else w['count'])
    if reg != s.offset or cnt != nregs:
        st.violation('write-address', f'{fam}: write_setting({s.id_!r}) wrote {cnt} register(s) at {reg}, the setting occupies {nregs} at {s.offset}', dict(config=cfg))
    for a, old in snapshot.items():
        if not (s.offset <= a < s.offset + nregs) and sim.word(a) != old:
            st.violation('other-register-changed', f'{fam}: write_setting({s.id_!r}) changed register {a} from {old:#06x} to {sim.word(a):#06x}', dict(config=cfg))
    if type(s).__name__ in ('ByteH', 'ByteL'):
        old = snapshot[s.offset]; now = sim.word(s.offset)
        keep = (old & 0xFF) == (now & 0xFF) if type(s).__name__ == 'ByteH' else (old >> 8) == (now >> 8)
        if not keep:
            st.violation('other-half-changed', f'{fam}: write_setting({s.id_!r}, {v}) changed the other half of register {s.offset}: {old:#06x} -> {now:#06x}', dict(config=cfg))
    try:
        back = run(inv.read_setting(s.id_))
    except Exception as ex:     # noqa
        st.violation('read-back-fails', f'{fam}: read_setting({s.id_!r}) after writing {cfg["value"]} raises {type(ex).__name__}: {ex}', dict(config=cfg)); return
    if isinstance(v, bytes):
        raw = sim.get_bytes(s.offset, nregs)
        if raw != v: st.violation('read-back-differs', f'{fam}: {s.id_} holds {raw.hex()} after writing {v.hex()}', dict(config=cfg))
    elif not (back == v or (isinstance(v, float) and isinstance(back, (int, float)) and abs(back - v) < 1e-9)):
        st.violation('read-back-differs', f'{fam}: read_setting({s.id_!r}) = {back!r} after write_setting({v!r})', dict(config=cfg))


# ------------------------------------------------------------------------------------------------ C18
def mon_readonly(st, ctx, goodwe):
    OM = goodwe.OperationMode
    makers = []
    for tag, serial in ET_SERIALS.items():
        sub = tuple(b for b in BLOCKS if ctx.rng.random() < 0.3)
        args = (serial, ctx.rng.choice([5000, 15000, 29900]), sub, ctx.rng.choice([0, 2]))
        makers.append(('ET ' + tag, lambda a=args: make_et(goodwe, *a, seed=ctx.rng.randrange(1 << 30))))
    for tag, serial in DT_SERIALS.items():
        args = (serial, ctx.rng.random() < 0.5)
        makers.append(('DT ' + tag, lambda a=args: make_dt(goodwe, *a, seed=ctx.rng.randrange(1 << 30))))
    for tag, serial in ES_SERIALS.items():
        args = (serial, ctx.rng.choice(['2314E', '1005A', '0707A']))
        makers.append(('ES ' + tag, lambda a=args: make_es(goodwe, *a, seed=ctx.rng.randrange(1 << 30))))
    objs = []
    for name, mk in makers:
        objs.append((name, ) + mk())                       # a session that starts with monitoring calls
        inv2, sim2 = mk(); run(inv2.read_device_info())
        objs.append((name + ' (writes first)', inv2, sim2))    # a session that starts with legitimate writes
    for name, inv, sim in objs:
        writes_first = name.endswith('(writes first)')
        calls = [('read_device_info', ()), ('read_runtime_data', ()), ('read_runtime_data', ()), ('read_settings_data', ()), ('get_grid_export_limit', ()),
                 ('get_operation_mode', ()), ('get_operation_modes', (True,)), ('get_ongrid_battery_dod', ()), ('read_runtime_data', ())]
        calls += [('read_sensor', (s.id_,)) for s in list(inv.sensors())[:: (9 if not ctx.deep else 1)]]
        if writes_first: calls = []
        for meth, args in calls:
            n0 = len(sim.log)
            try: run(getattr(inv, meth)(*args))
            except Exception: pass
            if meth == 'read_device_info':
                calls_settings = [('read_setting', (s.id_,)) for s in list(inv.settings())[:: (7 if not ctx.deep else 1)]]
                for m2, a2 in calls_settings:
                    try: run(getattr(inv, m2)(*a2))
                    except Exception: pass
            wr = [e for e in sim.log[n0:] if e in sim.writes()]
            st.case((name, meth, args))
            if wr:
                st.violation('read-api-writes', f'{name}: {meth}{args} transmitted a write request: {wr[0]["raw"].hex()}', dict(object=name, call=meth, args=list(args), request=wr[0]['raw'].hex()))
        # legitimate writes followed by monitoring calls on the same registers (a cache keyed by the arguments only, a remembered
        # "last command", ... would replay the write): every call guarded on its own
        def attempt(meth, *args):
            try: run(getattr(inv, meth)(*args)); return True
            except Exception: return False      # noqa
        wrote = []
        for sid, v in [('grid_export_limit', 1), ('backup_supply', 1), ('work_mode', 1), ('grid_export', 1), ('battery_discharge_depth', 1), ('shadow_scan', 1),
                       ('grid_export_limit', 2), ('eco_mode_2_switch', 1), ('dod', 1)]:
            if attempt('write_setting', sid, v): wrote.append(sid)
        attempt('set_ongrid_battery_dod', 99); attempt('set_grid_export_limit', 1); attempt('set_operation_mode', OM.GENERAL)
        n1 = len(sim.log)
        after = [('get_grid_export_limit', ()), ('get_ongrid_battery_dod', ()), ('get_operation_mode', ()), ('read_runtime_data', ()), ('read_settings_data', ())]
        after += [('read_setting', (sid,)) for sid in wrote]
        for meth, args in after:
            n2 = len(sim.log)
            attempt(meth, *args)
            st.case((name, 'after-write', meth, args))
            wr = [e for e in sim.log[n2:] if e in sim.writes()]
            if wr: st.violation('read-api-writes', f'{name}: {meth}{args} after legitimate writes ({wrote}) transmitted a write request: {wr[0]["raw"].hex()}',
                                dict(object=name, call=meth, args=list(args), after_writes=wrote, request=wr[0]['raw'].hex()))
        # invalid setter arguments: nothing at all is transmitted
        bad = [('set_grid_export_limit', (-1,)), ('set_grid_export_limit', (-32768,)), ('set_ongrid_battery_dod', (-1,)), ('set_ongrid_battery_dod', (101,)),
               ('set_ongrid_battery_dod', (1000,)), ('write_setting', ('no_such_setting', 1))]
        for p in (-300, -100, -1, 101, 300, 65536):
            bad += [('set_operation_mode', (OM.ECO_CHARGE, p, 50)), ('set_operation_mode', (OM.ECO_DISCHARGE, p, 50))]
        for soc in (-1, 101, 255): bad += [('set_operation_mode', (OM.ECO_CHARGE, 50, soc))]
        for meth, args in bad:
            n0 = len(sim.log)
            raised = None
            try: run(getattr(inv, meth)(*args))
            except Exception as ex: raised = ex      # noqa
            st.case((name, meth, args))
            sent = sim.log[n0:]
            if name.startswith('DT') and meth in ('set_operation_mode', 'set_ongrid_battery_dod'): 
                if any(e in sim.writes() for e in sent): st.violation('invalid-argument-written', f'{name}: {meth}{args} transmitted a write', dict(object=name, call=meth, args=[repr(a) for a in args]))
                continue
            if any(e in sim.writes() for e in sent):
                st.violation('invalid-argument-written', f'{name}: {meth}{tuple(repr(a) for a in args)} transmitted {sent[-1]["raw"].hex()}', dict(object=name, call=meth, args=[repr(a) for a in args]))
            if meth in ('set_operation_mode', 'write_setting') and not isinstance(raised, ValueError):
                st.violation('no-valueerror', f'{name}: {meth}{tuple(repr(a) for a in args)} did not raise ValueError (raised {raised!r})', dict(object=name, call=meth, args=[repr(a) for a in args]))
        # a setting id that became unknown BY HISTORY: the inverter refused its register on a read (ILLEGAL DATA ADDRESS), so it is no longer listed by
        # settings(); writing it afterwards must raise ValueError and transmit nothing, like any other unknown id
        if not name.startswith('ES'):
            cand = [x for x in inv.settings() if type(x).__name__ in ('Integer', 'IntegerS', 'Decimal', 'ByteH', 'ByteL')]
            for x in ([cand[0], cand[len(cand) // 2], cand[-1]] if len(cand) >= 3 else cand):
                nreg = max(1, (x.size_ + 1) // 2)
                sim.refuse.append((x.offset, x.offset + nreg - 1))
                try: run(inv.read_setting(x.id_))
                except Exception: pass         # noqa
                sim.refuse.pop()
                if x.id_ in {y.id_ for y in inv.settings()}: continue        # still a known setting: nothing to check
                n0 = len(sim.log); raised = None
                try: run(inv.write_setting(x.id_, 1))
                except Exception as ex: raised = ex      # noqa
                st.case((name, 'write-after-rejected-read', x.id_))
                sent = [e for e in sim.log[n0:] if e in sim.writes()]
                if sent:
                    st.violation('invalid-argument-written', f'{name}: write_setting({x.id_!r}, 1) after read_setting({x.id_!r}) was refused (the id is no longer listed by settings()) '
                                                             f'transmitted {sent[-1]["raw"].hex()}', dict(object=name, call='write_setting', args=[x.id_, 1], history='read refused with ILLEGAL DATA ADDRESS'))
                if not isinstance(raised, ValueError):
                    st.violation('no-valueerror', f'{name}: write_setting({x.id_!r}, 1) of an id no longer listed by settings() did not raise ValueError (raised {raised!r})',
                                 dict(object=name, call='write_setting', args=[x.id_, 1], history='read refused with ILLEGAL DATA ADDRESS'))


def _readonly_connect_failures(st, ctx, goodwe):
    """end-to-end only: Modbus/TCP objects, a legitimate write, then every monitoring call with its FIRST connection attempt refused (the protocol retries and
    connects): whatever is transmitted for the monitoring call is a read"""
    for fam, mk in (('ET tcp', lambda: make_et(goodwe, ET_SERIALS['205 three-phase'], 10000, (), 2, seed=ctx.rng.randrange(1 << 30), arm_fw=22, port=502)),
                    ('DT tcp', lambda: make_dt(goodwe, DT_SERIALS['three-phase'], seed=ctx.rng.randrange(1 << 30), port=502))):
        for ka in (False, True):
            inv, sim = mk()
            if ka: inv.set_keep_alive(True)
            run(inv.read_device_info())
            for outcomes in (['refused'], ['unreach'], ['refused', 'refused']):
                try: run(inv.write_setting('grid_export_limit', 100 + len(outcomes)))
                except Exception: pass      # noqa
                calls = [('get_grid_export_limit', ()), ('read_runtime_data', ()), ('read_setting', ('grid_export_limit',))] + ([('get_operation_mode', ()), ('read_settings_data', ())] if fam.startswith('ET') else [])
                for meth, args in calls:
                    if ka:
                        try: run(inv._protocol.close())          # so that the next call has to connect
                        except Exception: pass      # noqa
                    SI.E2E['connect_script'] = list(outcomes)
                    n0 = len(sim.log)
                    try: run(getattr(inv, meth)(*args))
                    except Exception: pass          # noqa
                    st.case((fam, ka, tuple(outcomes), meth))
                    wr = [e for e in sim.log[n0:] if e in sim.writes()]
                    if wr:
                        st.violation('read-api-writes', f'{fam} keep-alive {ka}: {meth}{args} after a legitimate write, first connection attempt(s) {outcomes}, transmitted a WRITE request: '
                                                        f'{wr[0]["raw"].hex()}', dict(object=fam, keep_alive=ka, call=meth, args=list(args), connect_outcomes=outcomes, request=wr[0]['raw'].hex()))
                    # the write for the next round is a legitimate one again
                    try: run(inv.write_setting('grid_export_limit', 200))
                    except Exception: pass          # noqa


# ------------------------------------------------------------------------------------------------ C19
ECO_PRIORS = {   # prior contents of the eco_mode_1 registers (12 bytes v2 / 8 bytes v1)
    'empty-off': '300030000000006400640000', 'eco-charge': '0000173bff7fffce00500000', 'eco-discharge': '0000173bff7f003200640000',
    'eco745-charge': '0000173bf97ffe0c00500fff', 'not-set': '30003000550000640064ffff'.ljust(24, '0')[:24], 'peak-shaving': '0000173bfc7f00c8003c0000',
    'dry-contact': '01000200fe7f000000640000', 'zeros': '000000000000000000000000',
    'night-charge': '1600061eff1fffe200640000',
}


def mon_modes(st, ctx, goodwe):
    OM = goodwe.OperationMode
    variants = [('205 v2', ET_SERIALS['205 three-phase'], ()), ('205 v1', ET_SERIALS['205 three-phase'], ('eco_v2', 'peak_shaving')),
                ('745 v2', ET_SERIALS['745 HV'], ()), ('745 no-peak', ET_SERIALS['745 LV single-phase'], ('peak_shaving',))]
    priors = list(ECO_PRIORS.items()) if ctx.deep else list(ECO_PRIORS.items())[:: 1]
    for vname, serial, refuse in variants:
        for pname, prior in priors:
            powers = [1, 50, 100] + ([ctx.rng.randrange(1, 101)] if not ctx.deep else list(range(1, 101, 7)))
            socs = [0, 80, 100] if not ctx.deep else list(range(0, 101, 10))
            inv, sim = make_et(goodwe, serial, 10000, refuse, 2, seed=ctx.rng.randrange(1 << 30))
            run(inv.read_device_info())
            modes = run(inv.get_operation_modes(True))
            for m in modes:
                for p in (powers if m in (OM.ECO_CHARGE, OM.ECO_DISCHARGE) else [50]):
                    for soc in (socs if m == OM.ECO_CHARGE else [100]):
                        v2 = 'eco_v2' not in refuse
                        base = 47547 if v2 else 47515
                        raw = bytes.fromhex(prior)
                        if not v2:
                            if pname not in ('empty-off', 'eco-charge', 'eco-discharge', 'zeros', 'night-charge'): continue
                            raw = raw[:4] + raw[6:8] + bytes([raw[4], raw[5]])       # v1 layout: power before on/off + days
                        sim.set_bytes(base, raw[: 12 if v2 else 8])
                        sim.set(47000, ctx.rng.choice([0, 1, 2, 3, 4]))
                        cfg = dict(family='ET', variant=vname, prior_group_1=pname, mode=m.name, power=p, soc=soc)
                        st.case((vname, pname, m.name, p, soc), sample=cfg if len(st.samples) < 3 else None)
                        _mode_case(st, inv, sim, OM, m, p, soc, cfg, v2, base)
            for x in [0, 1, 100, 5000, 10000, 65534] + [ctx.rng.randrange(65535) for _ in range(3)]:
                run(inv.set_grid_export_limit(x)); got = run(inv.get_grid_export_limit())
                st.case((vname, 'limit', x))
                if got != x: st.violation('export-limit', f'ET {vname}: set_grid_export_limit({x}) then get_grid_export_limit() = {got}', dict(family='ET', variant=vname, value=x))
            for d in (range(0, 101) if ctx.deep else [0, 1, 10, 50, 89, 99, 100]):
                run(inv.set_ongrid_battery_dod(d)); got = run(inv.get_ongrid_battery_dod())
                st.case((vname, 'dod', d))
                if got != d: st.violation('dod', f'ET {vname}: set_ongrid_battery_dod({d}) then get = {got}', dict(family='ET', variant=vname, value=d))
            # the setters round-trip whatever happened before: the same value set again after the register was changed through
            # another path (write_setting of the same register, another client writing the inverter directly)
            for x, y in [(3000, 4000), (0, 1), (65534, 0)] + [(ctx.rng.randrange(65535), ctx.rng.randrange(65535)) for _ in range(2)]:
                for via in ('write_setting', 'other-client', 'getter-then-other-client'):
                    try:
                        run(inv.set_grid_export_limit(x))
                        if via == 'write_setting': run(inv.write_setting('grid_export_limit', y))
                        elif via == 'other-client': sim.set(47510, y)
                        else: run(inv.get_grid_export_limit()); sim.set(47510, y)
                        run(inv.set_grid_export_limit(x)); got = run(inv.get_grid_export_limit())
                    except Exception as ex:     # noqa
                        st.violation('export-limit', f'ET {vname}: set/get export limit raised {type(ex).__name__}: {ex}', dict(family='ET', variant=vname, value=x)); continue
                    st.case((vname, 'limit-history', x, y, via))
                    if got != x:
                        st.violation('export-limit', f'ET {vname}: set_grid_export_limit({x}); register changed to {y} via {via}; set_grid_export_limit({x}) again; '
                                                     f'get_grid_export_limit() = {got}', dict(family='ET', variant=vname, value=x, other=y, via=via))
            for d, e in [(10, 50), (0, 100), (99, 1)]:
                for via in ('write_setting', 'other-client'):
                    try:
                        run(inv.set_ongrid_battery_dod(d))
                        if via == 'write_setting': run(inv.write_setting('battery_discharge_depth', 100 - e))
                        else: sim.set(inv._settings['battery_discharge_depth'].offset, 100 - e)
                        run(inv.set_ongrid_battery_dod(d)); got = run(inv.get_ongrid_battery_dod())
                    except Exception as ex:     # noqa
                        st.violation('dod', f'ET {vname}: set/get DoD raised {type(ex).__name__}: {ex}', dict(family='ET', variant=vname, value=d)); continue
                    st.case((vname, 'dod-history', d, e, via))
                    if got != d:
                        st.violation('dod', f'ET {vname}: set_ongrid_battery_dod({d}); changed to {e} via {via}; set_ongrid_battery_dod({d}) again; get = {got}',
                                     dict(family='ET', variant=vname, value=d, other=e, via=via))
            # the mode setters after the mode registers were changed through write_setting
            for m1, m2 in [(OM.GENERAL, OM.BACKUP), (OM.ECO_CHARGE, OM.GENERAL), (OM.OFF_GRID, OM.ECO_DISCHARGE)]:
                if m1 not in modes or m2 not in modes: continue
                try:
                    run(inv.set_operation_mode(m1, 40, 90)); run(inv.set_operation_mode(m2, 40, 90)); run(inv.set_operation_mode(m1, 40, 90))
                    got = run(inv.get_operation_mode())
                except Exception as ex:     # noqa
                    st.count('set-refused:' + type(ex).__name__); continue
                st.case((vname, 'mode-history', m1.name, m2.name))
                if got != m1:
                    st.violation('mode', f'ET {vname}: set {m1.name}, {m2.name}, {m1.name}: get_operation_mode() = {getattr(got, "name", got)}',
                                 dict(family='ET', variant=vname, modes=[m1.name, m2.name, m1.name]))
    # one WRITE of the setter refused by the inverter with a Modbus exception other than ILLEGAL DATA ADDRESS (slave busy, illegal value, device failure):
    # a setter that nevertheless returns normally has claimed success, so the getter must report what was set
    for vname, serial, refuse in variants[:3]:
        for code in (6, 3, 4, 1):
            for k in (1, 2, 3):
                inv, sim = make_et(goodwe, serial, 10000, refuse, 2, seed=ctx.rng.randrange(1 << 30))
                run(inv.read_device_info())
                v2 = 'eco_v2' not in refuse
                base = 47547 if v2 else 47515
                for m in run(inv.get_operation_modes(True)):
                    if k > 1 and m not in (OM.ECO_CHARGE, OM.ECO_DISCHARGE, OM.OFF_GRID, OM.GENERAL): continue
                    raw = bytes.fromhex(ECO_PRIORS['empty-off'])
                    if not v2: raw = raw[:4] + raw[6:8] + bytes([raw[4], raw[5]])
                    sim.set_bytes(base, raw[: 12 if v2 else 8])
                    sim.set(47000, (int(m) + 1) % 3 if int(m) < 6 else 0)       # a different mode before
                    for a in (47549, 47555, 47561, 47567, 47518, 47522, 47526, 47530): sim.set(a, 0xff7f)
                    sim.reject_write = dict(n=k, code=code)
                    cfg = dict(family='ET', variant=vname, mode=m.name, power=40, soc=80, refused_write=k, exception_code=code)
                    st.case(('ET', vname, 'refused-write', m.name, k, code))
                    _mode_case(st, inv, sim, OM, m, 40, 80, cfg, v2, base)
                    sim.reject_write = None
                if k == 1:
                    for setter, getter, old, new, key in (('set_grid_export_limit', 'get_grid_export_limit', 5000, 4000, 'export-limit'), ('set_ongrid_battery_dod', 'get_ongrid_battery_dod', 20, 50, 'dod')):
                        try: run(getattr(inv, setter)(old))
                        except Exception: continue      # noqa
                        sim.reject_write = dict(n=1, code=code)
                        st.case(('ET', vname, 'refused-write', setter, code))
                        try: run(getattr(inv, setter)(new))
                        except Exception as ex:     # noqa
                            st.count('set-refused:' + type(ex).__name__); sim.reject_write = None; continue
                        sim.reject_write = None
                        got = run(getattr(inv, getter)())
                        if got != new:
                            st.violation(key, f'ET {vname}: {setter}({new}) returned normally although the inverter refused the write with exception code {code}; {getter}() = {got}',
                                         dict(family='ET', variant=vname, value=new, exception_code=code))
    # ES
    # firmware string = DSP1 (2 digits) DSP2 (2 digits) ARM (one base-36 digit): ARM versions 14, 10, 11, 10 and the old ones 6, 3, 7, 0
    for serial, fw in (('95048ESU123W0001', '2314E'), ('95048ESU123W0001', '1005A'), ('95048EMU123W0001', '1107B'), ('95000BPS123W0001', '0606A'),
                       ('95048ESU123W0001', '12126'), ('95048ESU123W0001', '12123'), ('95048EMU123W0001', '12127'), ('95000BPS123W0001', '12120')):
        inv, sim = make_es(goodwe, serial, fw, seed=ctx.rng.randrange(1 << 30)); run(inv.read_device_info())
        v2 = inv._supports_eco_mode_v2()
        base = 47547 if v2 else 0x701
        for pname, prior in ECO_PRIORS.items():
            if not v2 and pname not in ('empty-off', 'eco-charge', 'eco-discharge', 'zeros', 'night-charge'): continue
            for m in run(inv.get_operation_modes(True)):
                for p in ([50] if m not in (OM.ECO_CHARGE, OM.ECO_DISCHARGE) else [1, 37, 100]):
                    raw = bytes.fromhex(prior)
                    if not v2: raw = raw[:4] + raw[6:8] + bytes([raw[4], raw[5]])       # v1 layout: power before on/off + days
                    sim.set_bytes(base, raw[: 12 if v2 else 8])
                    cfg = dict(family='ES', firmware=fw, prior_group_1=pname, mode=m.name, power=p)
                    st.case(('ES', fw, pname, m.name, p))
                    _mode_case(st, inv, sim, OM, m, p, 100, cfg, v2, base, es=True)
        for x in [0, 1, 5000, 10000, 65535 - 1]:
            run(inv.set_grid_export_limit(x)); got = run(inv.get_grid_export_limit())
            if got != x: st.violation('export-limit', f'ES fw {fw}: set_grid_export_limit({x}) then get = {got}', dict(family='ES', firmware=fw, value=x))
        for d in [0, 1, 50, 89, 100]:
            run(inv.set_ongrid_battery_dod(d)); got = run(inv.get_ongrid_battery_dod())
            if got != d: st.violation('dod', f'ES fw {fw}: set_ongrid_battery_dod({d}) then get = {got}', dict(family='ES', firmware=fw, value=d))


def _mode_case(st, inv, sim, OM, m, p, soc, cfg, v2, base, es=False):
    prior = sim.get_bytes(base, 6 if v2 else 4)
    try:
        run(inv.set_operation_mode(m, p, soc))
    except Exception as ex:     # noqa
        st.count('set-refused:' + type(ex).__name__); return
    try:
        got = run(inv.get_operation_mode())
    except Exception as ex:     # noqa
        st.violation('mode-get-fails', f'{cfg}: get_operation_mode() raises {type(ex).__name__}: {ex}', dict(config=cfg)); return
    if got != m:
        key = 'mode'
        if m == OM.ECO and got in (OM.ECO_CHARGE, OM.ECO_DISCHARGE): key = 'eco-with-full-time-group'
        st.violation(key, f'{cfg}: set_operation_mode({m.name}) then get_operation_mode() = {getattr(got, "name", got)}', dict(config=cfg))
        return
    if m in (OM.ECO_CHARGE, OM.ECO_DISCHARGE):
        eco = run(inv.read_setting('eco_mode_1'))
        want_p = -p if m == OM.ECO_CHARGE else p
        ok = eco.get_power() == want_p and (eco.soc == (soc if (m == OM.ECO_CHARGE and v2) else 100))
        if not ok:
            st.violation('eco-group', f'{cfg}: first eco-mode group decodes to power {eco.get_power()} SoC {eco.soc} (registers {sim.get_bytes(base, 6 if v2 else 4).hex()})', dict(config=cfg))
        for n in (2, 3, 4):
            sw = run(inv.read_setting(f'eco_mode_{n}_switch'))
            if sw != 0: st.violation('eco-group', f'{cfg}: group {n} is not switched off (switch {sw})', dict(config=cfg))


# ------------------------------------------------------------------------------------------------ C20
def _ops_menu():
    return [('read_runtime_data', ()), ('read_setting', ('eco_mode_1',)), ('read_setting', ('work_mode',)), ('read_setting', ('grid_export_limit',)),
            ('write_setting', ('grid_export_limit', 1234)), ('set_operation_mode', ('@ECO_CHARGE', 50, 80)), ('set_operation_mode', ('@ECO_DISCHARGE', 30, 100)),
            ('set_operation_mode', ('@GENERAL', 100, 100)), ('get_operation_mode', ()), ('read_settings_data', ()), ('read_setting', ('eco_mode_2',)),
            ('write_setting', ('eco_mode_2_switch', 0)), ('read_sensor', ('vpv1',))]


def _mk_pair(goodwe, kinds, seeds):
    objs = []
    for (fam, serial, refuse, prior), seed in zip(kinds, seeds):
        if fam == 'ET':
            inv, sim = make_et(goodwe, serial, prior.get('rated', 10000), refuse, 2, seed=seed, port=prior.get('port', 8899), comm_addr=prior.get('comm_addr', 0))
            if 'g1' in prior: sim.set_bytes(47547, bytes.fromhex(prior['g1'])); sim.set_bytes(47515, bytes.fromhex(prior['g1'])[:8])
        elif fam == 'DT': inv, sim = make_dt(goodwe, serial, prior.get('refuse_meter', False), seed=seed, comm_addr=prior.get('comm_addr', 0))
        else: inv, sim = make_es(goodwe, serial, prior.get('fw', '2314E'), seed=seed)
        run(inv.read_device_info())
        objs.append((inv, sim))
    return objs


def _transcript(sim):
    out = []
    for e in sim.log:
        raw = e['raw']
        out.append((raw[2:] if e.get('kind') == 'tcp' else raw).hex())
    return out


def _show(v):
    try: return str(v) if hasattr(v, 'start_h') else repr(v)
    except Exception as ex: return f'<{type(ex).__name__}>'    # noqa


def _do(inv, op, goodwe):
    meth, args = op
    args = tuple(getattr(goodwe.OperationMode, a[1:]) if isinstance(a, str) and a.startswith('@') else a for a in args)
    try: return ('ok', run(getattr(inv, meth)(*args)))
    except Exception as ex: return ('exc', type(ex).__name__)      # noqa


def _own_group_unreadable(inv, sim):
    """the known finding's precondition: the object's own eco_mode_1 registers do not decode (the read in set_operation_mode raises
    ValueError before it can refresh the schedule type of the shared definition)"""
    import copy
    s = inv._settings.get('eco_mode_1')
    if s is None or not hasattr(s, 'schedule_type'): return False
    try:
        import goodwe.protocol as PR
        c = copy.deepcopy(s)
        c.read_value(PR.ProtocolResponse(sim.get_bytes(s.offset, (s.size_ + 1) // 2), None))
        return False
    except ValueError:
        return True
    except Exception:      # noqa
        return False


def _run_ops(inv, sim, ops, goodwe):
    out = []
    for o in ops:
        n0 = len(sim.log)
        r = _do(inv, o, goodwe)
        out.append((_show(r[1]), _transcript(sim)[n0:]))
    return out


def mon_indep(st, ctx, goodwe_unused):
    kinds_pool = [
        ('ET', ET_SERIALS['745 HV'], (), dict(g1='0000173bf97ffe0c00500fff')), ('ET', ET_SERIALS['205 three-phase'], (), dict(g1='400000000000000000000000')),
        ('ET', ET_SERIALS['205 three-phase'], (), dict(g1='0000173bff7fffce00500000')), ('ET', ET_SERIALS['205 three-phase'], ('eco_v2', 'peak_shaving'), dict(g1='0000173bffce ff7f'.replace(' ', '') + '00000000')),
        ('ET', ET_SERIALS['205 three-phase'], (), dict(g1='0000173bff7fffce00500000', port=502)),
        ('DT', DT_SERIALS['three-phase'], (), {}), ('ES', ES_SERIALS['ESU'], (), dict(fw='2314E')), ('ES', ES_SERIALS['ESU'], (), dict(fw='1005A')),
        ('ET', ET_SERIALS['205 three-phase'], (), dict(g1='0000173bff7fffce00500000', comm_addr=0x25)), ('DT', DT_SERIALS['three-phase'], (), dict(comm_addr=0xf7)),
        ('ET', ET_SERIALS['745 HV'], (), dict(g1='0000173bf97ffe0c00500fff', port=502, comm_addr=0x11)),
        # models that have the optional blocks (MPPT, second battery, extended meter): one inverter serves them, another one refuses some of them
        ('ET', ET_SERIALS['745 HV'], (), dict(g1='0000173bf97ffe0c00500fff', rated=20000)), ('ET', ET_SERIALS['745 HV'], ('mppt',), dict(g1='0000173bf97ffe0c00500fff', rated=15000)),
        ('ET', ET_SERIALS['2-battery 3-MPPT'], (), dict(g1='0000173bff7fffce00500000', rated=25000)), ('ET', ET_SERIALS['2-battery 3-MPPT'], ('battery2', 'mppt'), dict(g1='0000173bff7fffce00500000', rated=25000)),
        ('ET', ET_SERIALS['745 HV'], ('battery', 'meter_ext2'), dict(g1='0000173bf97ffe0c00500fff', rated=15000)), ('DT', DT_SERIALS['three-phase'], (), dict(refuse_meter=True)),
    ]
    n = 40 if not ctx.deep else 400
    menu = _ops_menu()
    P = kinds_pool
    fixed = [  # (A, B, ops of A, ops of B, order): the recorded witnesses of the known finding, then sequences chosen to cross the shared state
        (P[0], P[1], [menu[1]], [menu[5]], [0, 1]),
        (P[0], P[2], [menu[1], menu[3]], [menu[1]], [0, 1, 0]),
        (P[2], P[4], [menu[0], menu[3], menu[4]], [menu[0], menu[4], menu[3]], [0, 1, 0, 1, 0, 1]),
        (P[5], P[2], [menu[0], menu[12]], [menu[0], menu[4]], [1, 0, 1, 0]),
        # a 745-platform object reads / sets its eco group, then an object of the other platform with a READABLE group sets a mode
        (P[0], P[2], [menu[1]], [menu[5]], [0, 1]), (P[0], P[2], [menu[1]], [menu[6]], [0, 1]), (P[0], P[2], [menu[5]], [menu[6]], [0, 1]),
        (P[2], P[0], [menu[1]], [menu[5]], [0, 1]), (P[0], P[2], [menu[8]], [menu[5], menu[1]], [0, 1, 1]), (P[10], P[4], [menu[1]], [menu[5]], [0, 1]),
        # same register ranges, different communication addresses / transports
        (P[2], P[8], [menu[0], menu[3]], [menu[0], menu[3], menu[12]], [0, 1, 0, 1, 1]), (P[8], P[2], [menu[12], menu[3]], [menu[12], menu[3], menu[0]], [0, 1, 0, 1, 1]),
        (P[5], P[9], [menu[0], menu[12]], [menu[0], menu[12]], [0, 1, 0, 1]), (P[2], P[9], [menu[12]], [menu[12]], [0, 1]), (P[4], P[10], [menu[0], menu[3]], [menu[0], menu[3]], [0, 1, 0, 1]),
        # an inverter that refuses optional blocks polls first, then one of the same class that serves them (and the other way round)
        (P[12], P[11], [menu[0], menu[0]], [menu[0], menu[0]], [0, 1, 0, 1]), (P[14], P[13], [menu[0], menu[0]], [menu[0], menu[0]], [0, 1, 0, 1]), (P[15], P[11], [menu[0], menu[0]], [menu[0], menu[0]], [0, 1, 0, 1]),
        (P[11], P[12], [menu[0], menu[0]], [menu[0], menu[0]], [0, 1, 0, 1]), (P[16], P[5], [menu[0], menu[0]], [menu[0], menu[0]], [0, 1, 0, 1]),
    ]
    for trial in range(n + len(fixed)):
        seeds = [ctx.rng.randrange(1 << 30), ctx.rng.randrange(1 << 30)]
        if trial < len(fixed):
            ka, kb, oa, ob, order = fixed[trial]
        else:
            ka, kb = ctx.rng.choice(kinds_pool), ctx.rng.choice(kinds_pool)
            def ops_for(kind):
                ok = [o for o in menu if not (kind[0] == 'DT' and ('eco' in str(o) or 'operation_mode' in o[0] or o[1][:1] == ('work_mode',)))]
                return [ctx.rng.choice(ok) for _ in range(ctx.rng.randrange(2, 6))]
            oa, ob = ops_for(ka), ops_for(kb)
            order = [0] * len(oa) + [1] * len(ob); ctx.rng.shuffle(order)
        # alone
        solo = []
        for which, (kind, ops, seed) in enumerate(((ka, oa, seeds[0]), (kb, ob, seeds[1]))):
            goodwe = SI.reload_goodwe()
            (inv, sim), = _mk_pair(goodwe, [kind], [seed])
            solo.append(_run_ops(inv, sim, ops, goodwe))
        # interleaved
        goodwe = SI.reload_goodwe()
        (ia, sa), (ib, sb) = _mk_pair(goodwe, [ka, kb], seeds)
        inter = [[], []]; held = []
        idx = [0, 0]
        unreadable = [False, False]
        for w in order:
            o = (oa, ob)[w][idx[w]]; idx[w] += 1
            inv, sim = ((ia, sa), (ib, sb))[w]
            unreadable_now = _own_group_unreadable(inv, sim)
            n0 = len(sim.log)
            r = _do(inv, o, goodwe)
            inter[w].append((_show(r[1]), _transcript(sim)[n0:], unreadable_now)); held.append((w, o, r[1], _show(r[1])))
        cfg = dict(A=dict(family=ka[0], serial=ka[1], refused=list(ka[2]), prior=ka[3]), B=dict(family=kb[0], serial=kb[1], refused=list(kb[2]), prior=kb[3]),
                   ops_A=[(m, [repr(a) for a in args]) for m, args in oa], ops_B=[(m, [repr(a) for a in args]) for m, args in ob], order=order, seeds=seeds)
        st.case(repr(cfg), sample=cfg if len(st.samples) < 2 else None)
        for w, name, ops in ((0, 'A', oa), (1, 'B', ob)):
            for i, (o, (res_i, tr_i, unread), (res_s, tr_s)) in enumerate(zip(ops, inter[w], solo[w])):
                if tr_i == tr_s and res_i == res_s: continue
                # the recorded finding: an emulated eco mode is set on an object that cannot read its own first group
                known = o[0] == 'set_operation_mode' and str(o[1][0]) in ('@ECO_CHARGE', '@ECO_DISCHARGE') and unread
                if tr_i != tr_s:
                    j = next((j for j, (x, y) in enumerate(zip(tr_i, tr_s)) if x != y), min(len(tr_i), len(tr_s)))
                    st.violation('shared-eco-mode-definition' if known else 'requests-differ',
                                 f'object {name}, call {i + 1} {o[0]}{tuple(str(a) for a in o[1])}: transmits {tr_i[j] if j < len(tr_i) else None} interleaved but '
                                 f'{tr_s[j] if j < len(tr_s) else None} alone', dict(config=cfg, object=name, call=i))
                else:
                    st.violation('shared-eco-mode-definition' if known else 'results-differ',
                                 f'object {name}, call {i + 1} {o[0]}{tuple(str(a) for a in o[1])}: result {res_i} interleaved but {res_s} alone', dict(config=cfg, object=name, call=i))
                break
        for w, o, val, shown in held:
            if _show(val) != shown:
                st.violation('returned-eco-value-changes' if hasattr(val, 'start_h') else 'returned-value-changes',
                             f'the value returned by {o[0]}{tuple(repr(a) for a in o[1])} on object {"AB"[w]} printed as {shown} when returned and prints as {_show(val)} later', dict(config=cfg))

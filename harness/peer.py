"""Scripted peers for the virtual-time loop.  A Script is shared by all endpoints of one run (with
keep-alive off every transmission uses a fresh socket): transmission i is answered according to
letter i of the fault script; when the script is exhausted the default letter applies."""
from __future__ import annotations
import errno, random
from . import frames as F

# the fault alphabet of C04 (one letter per transmission) plus composite letters
LETTERS = {
    'D': 'drop',
    'N': 'answer now',
    'L': 'answer late but in time (timeout/2)',
    'A': 'answer after the timeout (1.5 x timeout)',
    'G': 'garbage datagram (frame-sized)',
    'S': 'short garbage (3 bytes)',
    'B': 'valid frame with corrupted checksum / length byte',
    'X': 'Modbus exception frame, code 2',
    'F': 'two fragments (split after the header, second timeout/4 later)',
    'H': 'lone fragment (first part only)',
    'U': 'duplicate: the valid answer twice',
    'C': 'peer closes (TCP: EOF; UDP: ICMP port unreachable -> ECONNREFUSED on the socket)',
    'E': 'send error: the peer end is already closed when the transmission is made',
    'g': 'garbage immediately followed by the valid answer',
    'd': 'two garbage datagrams back to back',
    'R': 'OS error reported by the transport (EHOSTUNREACH through error_received / connection_lost)',
    'r': 'the same OS error, reported timeout/2 after the transmission',
}


class Script:
    def __init__(self, letters: str, default='D', timeout=1.0, payload_fn=F.tag_payload, exc_code=2):
        self.letters = letters
        self.default = default
        self.i = 0
        self.timeout = timeout
        self.payload_fn = payload_fn
        self.exc_code = exc_code
        self.log = []           # (vtime_ms, raw request bytes, parsed request or None, letter)
        self.sent = []          # (vtime_ms, bytes) of everything the peer sent

    def peek(self):
        return self.letters[self.i] if self.i < len(self.letters) else self.default

    # letters may be a list mixing one-character strings and dicts:
    #   dict(frag=k, delay=seconds, second='exact'|'plus'|'minus'|'corrupt'|'foreign'|'none')   two fragments split at byte k
    #   dict(late=x)   the whole answer after x * timeout (x < 1: in time)
    #   dict(exc=code)                                                                    Modbus exception frame with that code

    def next(self):
        l = self.peek()
        self.i += 1
        return l


class Peer:
    def __init__(self, loop, sock, kind, remote, script: Script):
        self.loop, self.sock, self.kind, self.remote, self.script = loop, sock, kind, remote, script
        self.transport = None
        self.closed = False
        self.rbuf = b''
        if script.peek() == 'E':
            self._close()

    # -- plumbing
    def shutdown(self):
        self._close()

    def _close(self):
        if not self.closed:
            self.closed = True
            try:
                if self.sock.fileno() >= 0: self.loop.remove_reader(self.sock)
            except Exception: pass
            try: self.sock.close()
            except Exception: pass

    def _send(self, data: bytes):
        if self.closed: return
        try:
            self.sock.send(data)
            self.script.sent.append((round(self.loop.time() * 1000), data))
        except OSError:
            pass

    def _later(self, delay, data):
        self.loop.call_later(delay, self._send, data)

    def on_readable(self):
        if self.closed: return
        try:
            data = self.sock.recv(65536)
        except (BlockingIOError, InterruptedError):
            return
        except OSError:
            self._close(); return
        if not data:
            self._close(); return
        if self.kind == 'tcp':
            # one request per segment in every scenario used here
            self.handle(data)
        else:
            self.handle(data)

    # -- behaviour
    def handle(self, raw: bytes):
        s = self.script
        req = F.parse_req(raw)
        letter = s.next()
        s.log.append((round(self.loop.time() * 1000), raw, req, letter))
        T = s.timeout
        if req is None or letter == 'D':
            pass
        elif isinstance(letter, dict):
            ok = F.valid_response(req, s.payload_fn)
            if 'exc' in letter:
                self._send(F.exception_response(req, letter['exc']) if req['kind'] != 'aa55' else ok)
            elif 'other' in letter:
                # a well-formed answer to ANOTHER request (the given fields replace this request's), `delay` x timeout after the transmission:
                # e.g. what the device would answer to the request of a second caller that is still waiting for its turn
                other = dict(req); other.update(letter['other'])
                if req['kind'] == 'tcp': other['tx'] = (req['tx'] + letter.get('tx_delta', 0)) & 0xFFFF
                self._later(letter.get('delay', 0.3) * T, F.valid_response(other, s.payload_fn))
            elif 'late' in letter:
                self._later(letter['late'] * T, ok)          # the whole answer, late but before this transmission's timeout (late < 1)
            else:
                if req['kind'] == 'tcp' and letter.get('mbap'): ok = F.apply_mbap(ok, letter['mbap'])
                k = max(1, min(letter['frag'], len(ok) - 1))
                first, rest = ok[:k], ok[k:]
                kind2 = letter.get('second', 'exact')
                if kind2 == 'plus': rest = rest + b'\x00'
                elif kind2 == 'minus': rest = rest[:-1]
                elif kind2 == 'corrupt': rest = bytes([rest[0] ^ 0x10]) + rest[1:]
                elif kind2 == 'foreign':
                    other = dict(req); other['reg'] = (req.get('reg', 0) + 1) & 0xFFFF
                    if req['kind'] == 'aa55': other = req
                    alt = F.valid_response(other, lambda r, c: bytes((x + 1) & 255 for x in s.payload_fn(r, c)))
                    rest = alt[k:]
                d1 = letter.get('first', 0)          # the first piece itself arrives `first` seconds after the transmission
                if d1 <= 0: self._send(first)
                else: self._later(d1, first)
                if kind2 != 'none':
                    d = letter.get('delay', T / 4)
                    if d <= 0 and d1 <= 0: self._send(rest)
                    else: self._later(d1 + max(d, 0), rest)
        else:
            ok = F.valid_response(req, s.payload_fn)
            rnd = random.Random(len(s.log) * 7919 + len(raw))
            garbage = bytes(rnd.randrange(256) for _ in range(len(ok)))
            if garbage[:2] == ok[:2]: garbage = b'\x00' + garbage[1:]
            if letter == 'N': self._send(ok)
            elif letter == 'L': self._later(T / 2, ok)
            elif letter == 'A': self._later(T * 1.5, ok)
            elif letter == 'G': self._send(garbage)
            elif letter == 'S': self._send(b'\x01\x02\x03')
            elif letter == 'B':
                bad = bytearray(ok)
                if req['kind'] == 'tcp': bad[8] ^= 0x02        # no checksum on Modbus/TCP: corrupt the byte count
                else: bad[-1] ^= 0x55
                self._send(bytes(bad))
            elif letter == 'X':
                if req['kind'] == 'aa55': self._send(garbage)
                else: self._send(F.exception_response(req, s.exc_code))
            elif letter == 'F':
                k = F.header_len(req['kind']) + 1
                k = min(k, len(ok) - 1)
                self._send(ok[:k]); self._later(T / 4, ok[k:])
            elif letter == 'H':
                k = min(F.header_len(req['kind']) + 1, len(ok) - 1)
                self._send(ok[:k])
            elif letter == 'U':
                self._send(ok); self._later(T / 8, ok)
            elif letter == 'k':
                # a well-formed answer to ANOTHER request (one register more, the previous transaction id) immediately followed by the answer to
                # this one, in ONE segment / datagram: e.g. a late answer to an earlier, timed-out request coalesced with the current one
                other = dict(req)
                if req['kind'] != 'aa55' and req.get('fn') == 3: other['val'] = min(125, req['val'] + 1)
                if req['kind'] == 'tcp': other['tx'] = (req['tx'] - 1) & 0xFFFF or 0xFFFE
                self._send(F.valid_response(other, s.payload_fn) + ok)
            elif letter == 'g':
                self._send(garbage); self._send(ok)
            elif letter == 'd':
                self._send(garbage); self._send(garbage[::-1])
            elif letter == 'C':
                if self.kind == 'tcp': self._close()
                else: self.inject_error(errno.ECONNREFUSED)
            elif letter == 'R':
                self.inject_error(errno.EHOSTUNREACH)
            elif letter == 'r':
                self.loop.call_later(T / 2, self.inject_error, errno.EHOSTUNREACH)
            elif letter == 'E':
                pass    # the peer end was closed before the transmission; nothing arrives here
            else:
                raise ValueError(f"unknown letter {letter}")
        if s.peek() == 'E':
            self._close()

    def inject_error(self, code):
        """report an OS error the way the selector transport would (a Unix socketpair cannot produce
        ICMP errors): UDP -> protocol.error_received(exc); TCP -> transport._fatal_error -> connection_lost(exc)"""
        tr = self.transport
        if tr is None or tr._protocol is None or tr._closing or tr._sock is None: return     # the OS reports nothing on a closed socket
        exc = OSError(code, errno.errorcode.get(code, str(code)))
        if code == errno.ECONNREFUSED: exc = ConnectionRefusedError(code, 'Connection refused')
        tracer = getattr(self.loop, 'tracer', None)
        if self.kind == 'udp':
            if tracer is not None and tr._sock is not None and not tr._closing: tracer.external(('err', tracer.tid_of(tr)))
            self.loop.call_soon(self._do_error_received, tr, exc)
        else:
            if tracer is not None and tr._sock is not None and not tr._closing: tracer.external(('fatal', tracer.tid_of(tr)))
            self.loop.call_soon(tr._force_close, exc)

    @staticmethod
    def _do_error_received(tr, exc):
        if tr._protocol is not None and not tr._conn_lost:
            tr._protocol.error_received(exc)


def factory(script: Script):
    def make(loop, sock, kind, remote):
        return Peer(loop, sock, kind, remote, script)
    return make

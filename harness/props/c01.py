"""C01 -- only validated response frames are ever delivered as results (byte level + delivery)."""
from __future__ import annotations
from ..runner import Stage
from .. import proto_common as PCM
from .. import frames as F, coqrun as C, respcases as R


def _pick(ctx):
    def pick(cmd):
        fr = R.valid_frame(cmd)
        return [('valid', fr)] + R.mutations(fr, ctx.rng, ctx.deep)
    return pick


def stage_translation(ctx):
    return R.translation_stage(ctx, 'c01', _pick(ctx), Stage)


def stage_monitor(ctx):
    """accept => well-formed (independent Python spec); only documented outcomes"""
    st = Stage('accept-implies-wellformed')
    from goodwe.exceptions import PartialResponseException, RequestRejectedException
    for cmd in R.commands(ctx.rng, ctx.deep):
        frames = []
        for pl in ([None] if cmd.spec['op'] != 'read' and cmd.spec['kind'] != 'aa55' else [None] + R.payload_variants(
                ctx.rng, 2 * cmd.spec.get('count', 10), ctx.deep)[:3]):
            fr = R.valid_frame(cmd, pl)
            frames += [('valid', fr)] + R.mutations(fr, ctx.rng, ctx.deep)
        if cmd.spec['kind'] == 'aa55':
            for pl in R.AA55_BOUNDARY_PAYLOADS:
                fr = R.valid_frame(cmd, pl)
                frames.append(('valid-boundary', fr))
                if fr:
                    bad = bytearray(fr); bad[-1] ^= 0x01; frames.append(('boundary-bad-checksum', bytes(bad)))
                    if len(fr) > 9:
                        flip = bytearray(fr); flip[8] ^= 0x40; frames.append(('boundary-payload-flip', bytes(flip)))
        # answers to OTHER commands (foreign function / register / count)
        for other in R.commands(ctx.rng, False)[:40:3]:
            if other.spec['kind'] == cmd.spec['kind']:
                frames.append(('foreign:' + other.label(), R.valid_frame(other)))
        for t, data in frames:
            st.case((cmd.label(), data), sample=dict(command=cmd.label(), frame=data.hex(), kind=t))
            try:
                r = cmd.obj.validator(data)
            except (PartialResponseException, RequestRejectedException):
                st.count('partial/rejected'); continue
            except Exception as ex:
                st.violation('undocumented-outcome', f'{cmd.label()} validator raised {type(ex).__name__}: {ex} on {data.hex()} ({t})',
                             dict(command=cmd.cls, args=[a if not isinstance(a, bytes) else a.hex() for a in cmd.args], frame=data.hex()))
                continue
            if r is True:
                st.count('accepted')
                if not F.wf_response(cmd.spec, data):
                    st.violation('accepted-malformed', f'{cmd.label()} accepted {data.hex()} ({t}) which is not a well-formed answer to it',
                                 dict(command=cmd.cls, args=[a if not isinstance(a, bytes) else a.hex() for a in cmd.args], frame=data.hex()))
            elif r is False:
                st.count('refused')
            else:
                st.violation('undocumented-outcome', f'{cmd.label()} validator returned {r!r} on {data.hex()}',
                             dict(command=cmd.cls, frame=data.hex()))
    return st


SPEC = dict(
    level='proof',
    manifest=dict(
        text='Coq theorems over the response validators translated from /repo on this run: for every byte string and every '
             'command class, acceptance implies the frame is a well-formed answer to that command (function code, 2 x count '
             'payload bytes, length, echo of register/value, CRC-16 / additive checksum against an independent bit-serial '
             'CRC specification), and the validator has only its four documented outcomes.  The delivery step (set_result '
             'only under an accepting validator) is a theorem about the hand-written protocol model (C01_delivery), tied to the code '
             'by the callback / coroutine translations (cb2v, co2v: reception, the synchronous transmission step that assigns '
             'self.command, and the skeleton of send_request -- lock first -- are proved to be the model\'s: C01_*_is_the_model) and '
             'by trace validation of the real classes under a virtual-time event loop, two callers at once included.',
        note='Trusted: Coq kernel + vm_compute; py2v translator and coq/Py prelude (validated on every run against CPython '
             'on valid frames, every truncation, bit flips, insert/delete, garbage); Spec/Responses.v + Spec/Crc16.v as the '
             'meaning of "well-formed"; Model/Proto.v (hand model, trace-validated) for the delivery step. Header bytes AA55, '
             'unit address and MBAP fields are not checked by the code and not demanded by the property.',
        technique='Coq proof over regenerated model (py2v) + translator validation + accept=>wf monitor + protocol trace validation',
        design_ref='DESIGN.md section 5 (C01)'),
    stages=[stage_translation, stage_monitor, PCM.stage_for('C01')],
    theorems=['C01_total', 'C01_rtu_read_sound', 'C01_rtu_write_sound', 'C01_rtu_write_multi_sound', 'C01_tcp_read_sound',
              'C01_tcp_write_sound', 'C01_tcp_write_multi_sound', 'C01_aa55_read_sound', 'C01_aa55_write_sound',
              'C01_aa55_write_multi_sound', 'C01_aa55_generic_sound', 'C01_crc', 'C01_delivery', 'C01_datagram_received_is_the_model',
              'C01_data_received_is_the_model', 'C01_transmission_is_the_model', 'C01_send_request_is_the_model'],
    rule='commands: every command class x boundary + seeded (address, register, count/value); frames per command: valid answer, '
         'truncations, single-bit flips, byte insert/delete, random garbage of many lengths, trailing bytes, answers to other '
         'commands; a case is distinct by (command, frame bytes)',
    trusted_base=['Spec/Responses.v + Spec/Crc16.v (hand-written response well-formedness, bit-serial CRC)',
                  'tools/cb2v.py + tools/co2v.py and the meaning of their statement languages (Model/Callbacks.v, Model/Coroutines.v)'],
    assumptions=['counts 1..125, 16-bit registers, signed 16-bit values, byte strings (every element 0..255)'],
)

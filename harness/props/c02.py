"""C02 -- every conforming response frame is accepted, with exactly its payload."""
from __future__ import annotations
from ..runner import Stage
from .. import frames as F, coqrun as C, respcases as R, proto_common as PCM


def _frames(ctx, cmd):
    """conforming frames for cmd: payload variety x unit addresses x trailing bytes (Modbus)"""
    s = cmd.spec
    out = []
    if s['kind'] == 'aa55':
        lens = [0, 1, 2, 40, 86, 100, 129, 130, 200, 254, 255] if not ctx.deep else list(range(0, 256, 3)) + [254, 255]
        for n in lens:
            for pl in R.payload_variants(ctx.rng, n, ctx.deep)[:(2 if not ctx.deep else 6)] + [b'\xff' * n]:
                out.append((f'aa55 len {n}', R.valid_frame(cmd, pl), pl))
        return out
    if s['op'] == 'read':
        for pl in R.payload_variants(ctx.rng, 2 * s['count'], ctx.deep):
            for a in (s['addr'], 0, 255):
                fr = R.valid_frame(cmd, pl, addr=a)
                out.append(('read', fr, pl))
                if s['kind'] == 'rtu':
                    out.append(('read+trailing', fr + bytes([ctx.rng.randrange(256) for _ in range(ctx.rng.randrange(1, 5))]), pl))
        return out
    for a in (s['addr'], 0, 255, ctx.rng.randrange(256)):
        fr = R.valid_frame(cmd, addr=a)
        out.append(('write', fr, None))
        out.append(('write+trailing', fr + bytes([ctx.rng.randrange(256), ctx.rng.randrange(256)]), None))
    return out


def stage_translation(ctx):
    return R.translation_stage(ctx, 'c02', lambda cmd: [(t, fr) for t, fr, _ in _frames(ctx, cmd)][:(12 if not ctx.deep else 60)], Stage)


def stage_monitor(ctx):
    st = Stage('wellformed-implies-accept')
    P, M = R.load()
    for cmd in R.commands(ctx.rng, ctx.deep):
        for t, fr, pl in _frames(ctx, cmd):
            st.case((cmd.label(), fr), sample=dict(command=cmd.label(), frame=fr.hex()[:120], kind=t))
            assert F.wf_response(cmd.spec, fr), (cmd.label(), fr.hex())
            try:
                r = cmd.obj.validator(fr)
            except Exception as ex:
                r = f'{type(ex).__name__}: {ex}'
            if r is not True:
                st.violation('conforming-refused', f'{cmd.label()} does not accept the conforming frame {fr.hex()[:160]} ({t}): {r}',
                             dict(command=cmd.cls, args=[a if not isinstance(a, bytes) else a.hex() for a in cmd.args], frame=fr.hex(), outcome=repr(r)))
                continue
            if pl is not None:
                data = P.ProtocolResponse(fr, cmd.obj).response_data()
                ok = data[:len(pl)] == pl and (data == pl or 'trailing' in t)
                if not ok:
                    st.violation('payload-lost', f'{cmd.label()}: response_data() of {fr.hex()[:160]} is {data.hex()[:160]}, payload was {pl.hex()[:160]}',
                                 dict(command=cmd.cls, frame=fr.hex(), response_data=data.hex(), payload=pl.hex()))
    return st


SPEC = dict(
    level='proof',
    manifest=dict(
        text='Coq theorems over the validators and trim_response functions translated from /repo on this run: for every '
             'command class, every payload content and length (2 x count bytes, count 1..125; AA55 0..255 bytes), every unit '
             'address and any trailing bytes after a Modbus frame, the frame built by the independent specification is accepted '
             'and response_data() returns the payload.  No sampling in the theorems; payload contents are universally quantified.',
        note='Trusted: Coq kernel + vm_compute; py2v translator and coq/Py prelude (validated on every run); Spec/Responses.v '
             'as the meaning of "conforming". With trailing bytes after an RTU frame response_data() = payload + CRC + trailing '
             '(the payload stays at its position; stated in C02_rtu_read_payload).',
        technique='Coq proof over regenerated model (py2v) + translator validation + wf=>accept monitor',
        design_ref='DESIGN.md section 5 (C02)'),
    stages=[stage_translation, stage_monitor, PCM.stage_for('C02')],
    theorems=['C02_accepted_answer_completes_the_request', 'C02_rtu_read', 'C02_rtu_read_payload', 'C02_rtu_write', 'C02_rtu_write_multi', 'C02_tcp_read', 'C02_tcp_read_payload',
              'C02_tcp_write', 'C02_tcp_write_multi', 'C02_aa55_read', 'C02_aa55_write', 'C02_aa55_write_multi', 'C02_aa55_generic',
              'C02_aa55_payload'],
    rule='conforming frames per command: payloads all-00 / all-FF / ramp / 7FFF / random x unit addresses x trailing bytes; AA55 '
         'payload lengths 0..255 (quick: 11 lengths) incl. sums >= 0x8000 and >= 0x10000; distinct by (command, frame)',
    trusted_base=['Spec/Responses.v + Spec/Crc16.v', 'end-to-end ("the request succeeds with exactly that payload"): Model/Proto.v trace validation + prompt-answer monitor on the real protocol classes'],
    assumptions=['counts 1..125, 16-bit registers, signed 16-bit values'],
)

"""C03 -- requests on the wire are canonical, decodable frames carrying the arguments."""
from __future__ import annotations
import importlib
from ..runner import Stage
from .. import frames as F, coqrun as C, proto_common as PCM


def _cmds():
    import goodwe.protocol as P, goodwe.modbus as M
    importlib.reload(M); importlib.reload(P)
    return P, M


def arg_grid(rng, deep):
    addrs = [0, 1, 0x7f, 0xf7, 255] + [rng.randrange(256) for _ in range(3 if not deep else 12)]
    regs = [0, 1, 255, 256, 0x7fff, 0x8000, 0xb9ad, 65535] + [rng.randrange(65536) for _ in range(6 if not deep else 40)]
    vals = [-32768, -32767, -257, -256, -255, -2, -1, 0, 1, 125, 255, 256, 32767] + \
           [rng.randrange(-32768, 32768) for _ in range(6 if not deep else 40)]
    return addrs, regs, vals


def payloads(rng, deep):
    out = [bytes([0, 1]), bytes(range(8)), b'\xff' * 8, b'\x00' * 12, bytes(range(246)), b'\xff' * 246]
    for _ in range(6 if not deep else 60):
        n = 2 * rng.randrange(1, 124)
        out.append(bytes(rng.randrange(256) for _ in range(n)))
    return out


def stage_monitor(ctx):
    """independent decoder (harness/frames.py) applied to the bytes the real command classes put on the wire"""
    st = Stage('wire-monitor')
    P, M = _cmds()
    addrs, regs, vals = arg_grid(ctx.rng, ctx.deep)

    def bad(key, what, **rep):
        st.violation(key, what, dict(rep))

    for a in addrs:
        for r in regs:
            for v in vals:
                # --- RTU read (count = |v| clipped to 1..125) and write
                cnt = min(max(abs(v), 1), 125)
                for cls, fn, val in ((P.ModbusRtuReadCommand, 3, cnt), (P.ModbusRtuWriteCommand, 6, v)):
                    try:
                        req = cls(a, r, val).request_bytes()
                    except Exception as ex:
                        bad('rtu-build', f'{cls.__name__}({a},{r},{val}) raised {type(ex).__name__}: {ex}', cls=cls.__name__, args=[a, r, val]); continue
                    d = F.parse_rtu_req(req)
                    st.case((cls.__name__, a, r, val), sample=dict(cmd=cls.__name__, args=[a, r, val], wire=req.hex()))
                    if not d or (d['addr'], d['fn'], d['reg'], d['val']) != (a, fn, r, val & 0xFFFF):
                        bad('rtu-frame', f'{cls.__name__}({a},{r},{val}) sends {req.hex()} which decodes to {d}', cls=cls.__name__, args=[a, r, val], wire=req.hex())
                for cls, fn, val in ((P.ModbusTcpReadCommand, 3, cnt), (P.ModbusTcpWriteCommand, 6, v)):
                    try:
                        req = cls(a, r, val).request_bytes()
                    except Exception as ex:
                        bad('tcp-build', f'{cls.__name__}({a},{r},{val}) raised {type(ex).__name__}: {ex}', cls=cls.__name__, args=[a, r, val]); continue
                    d = F.parse_tcp_req(req)
                    st.case((cls.__name__, a, r, val))
                    if not d or (d['addr'], d['fn'], d['reg'], d['val']) != (a, fn, r, val & 0xFFFF) or d['tx'] == 0:
                        bad('tcp-frame', f'{cls.__name__}({a},{r},{val}) sends {req.hex()} which decodes to {d}', cls=cls.__name__, args=[a, r, val], wire=req.hex())
    # --- multi register writes
    for a in addrs[:4]:
        for r in regs[:6]:
            for pl in payloads(ctx.rng, ctx.deep):
                for cls, parse in ((P.ModbusRtuWriteMultiCommand, F.parse_rtu_req), (P.ModbusTcpWriteMultiCommand, F.parse_tcp_req)):
                    try:
                        req = cls(a, r, pl).request_bytes()
                    except Exception as ex:
                        bad('multi-build', f'{cls.__name__}({a},{r},<{len(pl)} bytes>) raised {type(ex).__name__}: {ex}', cls=cls.__name__, args=[a, r, pl.hex()]); continue
                    d = parse(req)
                    st.case((cls.__name__, a, r, pl))
                    if not d or d.get('payload') != pl or d['count'] != len(pl) // 2 or d['bytecount'] != len(pl) \
                            or (d['addr'], d['fn'], d['reg']) != (a, 16, r):
                        bad('multi-frame', f'{cls.__name__}({a},{r},<{len(pl)} bytes>) sends {req.hex()} -> {d}', cls=cls.__name__, args=[a, r, pl.hex()], wire=req.hex())
    # --- AA55
    for r in regs:
        for cnt in (1, 2, 4, 6, 16, 125, 255):
            req = None
            try: req = P.Aa55ReadCommand(r, cnt).request_bytes()
            except Exception as ex: bad('aa55-build', f'Aa55ReadCommand({r},{cnt}) raised {type(ex).__name__}: {ex}', args=[r, cnt])
            if req is not None:
                d = F.parse_aa55_req(req)
                st.case(('aa55r', r, cnt))
                if not d or d['type'] != 0x011A or d['payload'] != bytes([3, r >> 8, r & 255, cnt])[1:] and d['payload'] != bytes([r >> 8, r & 255, cnt]):
                    bad('aa55-frame', f'Aa55ReadCommand({r},{cnt}) sends {req.hex()} -> {d}', args=[r, cnt], wire=req.hex())
        for v in vals:
            req = None
            try: req = P.Aa55WriteCommand(r, v).request_bytes()
            except Exception as ex: bad('aa55-build', f'Aa55WriteCommand({r},{v}) raised {type(ex).__name__}: {ex}', args=[r, v])
            if req is not None:
                d = F.parse_aa55_req(req)
                st.case(('aa55w', r, v), sample=dict(cmd='Aa55WriteCommand', args=[r, v], wire=req.hex()))
                want = bytes([r >> 8, r & 255, 1, (v >> 8) & 255, v & 255])
                if not d or d['type'] != 0x0239 or d['payload'] != want:
                    bad('aa55-frame', f'Aa55WriteCommand({r},{v}) sends {req.hex()} -> {d}', args=[r, v], wire=req.hex())
        for pl in (bytes(range(8)), b'\xff' * 8, bytes(ctx.rng.randrange(256) for _ in range(8))):
            req = None
            try: req = P.Aa55WriteMultiCommand(r, pl).request_bytes()
            except Exception as ex: bad('aa55-build', f'Aa55WriteMultiCommand({r},{pl.hex()}) raised {type(ex).__name__}: {ex}', args=[r, pl.hex()])
            if req is not None:
                d = F.parse_aa55_req(req)
                st.case(('aa55m', r, pl))
                if not d or d['type'] != 0x0239 or d['payload'] != bytes([r >> 8, r & 255, 8]) + pl:
                    bad('aa55-frame', f'Aa55WriteMultiCommand({r},{pl.hex()}) sends {req.hex()} -> {d}', args=[r, pl.hex()], wire=req.hex())
    # --- through the factories of several protocol / inverter objects with DIFFERENT communication addresses in one process, the same registers
    #     requested in interleaved order: every frame carries the address of the object that built it
    import goodwe
    importlib.reload(importlib.import_module('goodwe.inverter')); importlib.reload(importlib.import_module('goodwe.et')); importlib.reload(importlib.import_module('goodwe.dt'))
    import goodwe.et as ETM, goodwe.dt as DTM
    for klass, parse, port in ((P.UdpInverterProtocol, F.parse_rtu_req, 8899), (P.TcpInverterProtocol, F.parse_tcp_req, 502)):
        cas = [0xf7, 0x7f, 0x11, 1] + [ctx.rng.randrange(1, 248) for _ in range(2 if not ctx.deep else 10)]
        protos = [(ca, klass('192.0.2.1', port, ca, 1, 0)) for ca in cas]
        for round_ in range(2):
            for r, cnt in ((35100, 125), (47000, 1), (45127, 1), (ctx.rng.randrange(65536), ctx.rng.randrange(1, 126))):
                for ca, pr in (protos if round_ == 0 else protos[::-1]):
                    for what, cmd, want in (('read_command', pr.read_command(r, cnt), (3, r, cnt)), ('write_command', pr.write_command(r, cnt), (6, r, cnt)),
                                            ('write_multi_command', pr.write_multi_command(r, bytes([0, 1, 2, 3])), (16, r, 2))):
                        d = parse(cmd.request_bytes())
                        st.case((klass.__name__, what, ca, r, cnt, round_))
                        got = d and (d['addr'], d['fn'], d['reg'], d['val'] if d['fn'] != 16 else d['count'])
                        if got != (ca,) + want:
                            bad('factory-frame', f'{klass.__name__}(comm_addr={ca}).{what}({r}, ..) after the same call on other objects sends {cmd.request_bytes().hex()} '
                                                 f'which decodes to {d}', cls=klass.__name__, factory=what, comm_addr=ca, args=[r, cnt], wire=cmd.request_bytes().hex())
    for fam, mod, port in (('ET', ETM.ET, 8899), ('ET', ETM.ET, 502), ('DT', DTM.DT, 8899), ('DT', DTM.DT, 502)):
        parse = F.parse_rtu_req if port == 8899 else F.parse_tcp_req
        invs = [(ca, mod('192.0.2.1', port, ca)) for ca in (0xf7, 0x11, 0x7f, 0x25)]
        for ca, inv in invs + invs[::-1]:
            cmds = [(n, getattr(inv, n)) for n in sorted(vars(inv)) if n.startswith('_READ_')] + [('_read_command(45127,1)', inv._read_command(45127, 1))]
            for n, cmd in cmds:
                d = parse(cmd.request_bytes())
                st.case((fam, port, ca, n))
                if not d or d['addr'] != ca or d['fn'] != 3:
                    bad('factory-frame', f'{fam}(port={port}, comm_addr={ca}).{n} sends {cmd.request_bytes().hex()} which decodes to {d}', family=fam, port=port, comm_addr=ca,
                        command=n, wire=cmd.request_bytes().hex())
    # --- transaction ids over the wrap
    for start in (0, 1, 65530, 65533, 65534):
        P._modbus_tcp_tx = start
        cmd = P.ModbusTcpReadCommand(0xf7, 35100, 2)
        prev = start
        n = 12 if not ctx.deep else 70000
        for i in range(n):
            try:
                req = cmd.request_bytes()
            except Exception as ex:
                bad('tx-overflow', f'transmission {i + 1} after counter {start}: {type(ex).__name__}: {ex}', start=start, index=i + 1); break
            tx = req[0] * 256 + req[1]
            st.case(('tx', start, i), nontrivial=i < 12)
            d = F.parse_tcp_req(req)
            if tx == 0 or tx == prev or not d or d['tx'] != tx:
                bad('tx-id', f'transmission {i + 1} after counter {start}: transaction id {tx} (previous {prev}), frame {req.hex()}', start=start, index=i + 1, wire=req.hex()); break
            prev = tx
    P._modbus_tcp_tx = 0
    return st


def stage_translation(ctx):
    """translator validation: generated builders vs. the Python originals on the same arguments"""
    st = Stage('translator-validation')
    P, M = _cmds()
    addrs, regs, vals = arg_grid(ctx.rng, ctx.deep)
    cases, descr = [], []

    def add(term, fn, enc, d):
        cases.append((term, C.enc_call(fn, enc))); descr.append(d); st.case(d)
    eb = lambda b: list(b)
    wild = [-1, 256, 300, 70000, -70000]     # arguments outside the documented domain (error paths)
    for a in addrs + wild[:3]:
        for r in regs[:8] + wild:
            for v in vals[:9] + wild:
                add(f'enc_res enc_bytes (create_modbus_rtu_request {C.zs(a)} 3 {C.zs(r)} {C.zs(v)})',
                    lambda a=a, r=r, v=v: M.create_modbus_rtu_request(a, 3, r, v), eb, ('rtu', a, r, v))
                add(f'enc_res enc_bytes (create_modbus_tcp_request {C.zs(a)} 6 {C.zs(r)} {C.zs(v)})',
                    lambda a=a, r=r, v=v: M.create_modbus_tcp_request(a, 6, r, v), eb, ('tcp', a, r, v))
    for a in addrs[:3]:
        for r in regs[:3]:
            for pl in payloads(ctx.rng, ctx.deep)[:8] + [b'', b'\x01', bytes(300)]:
                add(f'enc_res enc_bytes (create_modbus_rtu_multi_request {a} 16 {r} {C.zl(pl)})',
                    lambda a=a, r=r, pl=pl: M.create_modbus_rtu_multi_request(a, 16, r, pl), eb, ('rtum', a, r, pl))
                add(f'enc_res enc_bytes (create_modbus_tcp_multi_request {a} 16 {r} {C.zl(pl)})',
                    lambda a=a, r=r, pl=pl: M.create_modbus_tcp_multi_request(a, 16, r, pl), eb, ('tcpm', a, r, pl))
    for r in regs[:10] + wild:
        for v in vals + wild:
            add(f'enc_res enc_bytes (Aa55WriteCommand_request {C.zs(r)} {C.zs(v)})',
                lambda r=r, v=v: P.Aa55WriteCommand(r, v).request, eb, ('aa55w', r, v))
        for cnt in (0, 1, 16, 255, 256, -1):
            add(f'enc_res enc_bytes (Aa55ReadCommand_request {C.zs(r)} {C.zs(cnt)})',
                lambda r=r, cnt=cnt: P.Aa55ReadCommand(r, cnt).request, eb, ('aa55r', r, cnt))
        for pl in (bytes(range(8)), b'\xff' * 8, b'', bytes(range(12))):
            add(f'enc_res enc_bytes (Aa55WriteMultiCommand_request {C.zs(r)} {C.zl(pl)})',
                lambda r=r, pl=pl: P.Aa55WriteMultiCommand(r, pl).request, eb, ('aa55m', r, pl))
    for payload, rt in (("010200", "0182"), ("010600", "0186"), ("010900", "0189"), ("033502ffff", "03b5"), ("0g", "0182"), ("012", "01")):
        add(f'enc_res enc_bytes (Aa55ProtocolCommand_request {C.cstr(payload)} {C.cstr(rt)} 0 0)',
            lambda payload=payload, rt=rt: P.Aa55ProtocolCommand(payload, rt).request, eb, ('aa55p', payload))
    for tx in (0, 1, 2, 255, 256, 65533, 65534, 65535, 70000, -5):
        def nxt(tx=tx):
            P._modbus_tcp_tx = tx
            b = P._next_tx()
            return list(b) + [P._modbus_tcp_tx]
        add(f'enc_res (fun p => fst p ++ [snd p]) (_next_tx {C.zs(tx)})', nxt, lambda x: x, ('tx', tx))
    P._modbus_tcp_tx = 0
    for data in ([], [0], list(range(256)), [255] * 40) + tuple([ctx.rng.randrange(256) for _ in range(ctx.rng.randrange(1, 300))] for _ in range(20)):
        add(f'enc_res enc_Z (_modbus_checksum {C.zl(data)})', lambda data=data: M._modbus_checksum(bytes(data)), lambda z: [z], ('crc', tuple(data)))
    st.samples.append(dict(term=cases[0][0], expected=cases[0][1]))
    badidx, err = C.eval_cases('c03', 'ModbusGen ProtoGen', cases)
    if err:
        st.violation('translation-eval', f'model evaluation failed: {err[:400]}', dict(error=err), no_input=True)
    for i in badidx[:10]:
        st.violation('translation-mismatch', f'generated model and Python disagree on {descr[i]}',
                     dict(term=cases[i][0], python=cases[i][1]), no_input=True)
    st.stats['programs'] = 9
    return st


SPEC = dict(
    level='proof',
    manifest=dict(
        text='Nine Coq theorems, universally quantified over addresses, registers, values, payloads and unbounded transmission '
             'histories, state that the request builders TRANSLATED FROM /repo ON THIS RUN produce frames that an independent '
             'decoder (Spec/Frames.v, bit-serial CRC) parses back to exactly the arguments; the translator is validated against '
             'CPython on the same run and a Python monitor decodes what the real command classes put on the wire (it is also '
             'the counter-example search when a proof breaks).',
        note='Trusted: Coq kernel + vm_compute; py2v translator and the Python-primitive prelude coq/Py (validated, not proved); '
             'Spec/Frames.v as the meaning of "well-formed". Domain: byte addresses/function codes, 16-bit registers, values '
             '-32768..65535, even payloads 2..246 bytes (8 for AA55). No axioms (Print Assumptions: closed).',
        technique='Coq proof over regenerated model (py2v) + translator validation + wire monitor',
        design_ref='DESIGN.md section 5 (C03)'),
    stages=[stage_translation, stage_monitor, PCM.stage_for('C03')],
    theorems=['C03_rtu', 'C03_rtu_multi', 'C03_crc', 'C03_tcp', 'C03_tcp_multi', 'C03_tx', 'C03_aa55_read',
              'C03_aa55_write', 'C03_aa55_write_multi', 'C03_factories_construct_from_the_own_address'],
    rule='translator validation: generated builders vs Python on boundary + seeded arguments incl. out-of-domain ones '
         '(distinct argument tuples); wire monitor: every command class x (address, register, value) grid, payload sizes, '
         'transaction-id histories across the 0xFFFF wrap, decoded by the independent decoder harness/frames.py',
    trusted_base=['Spec/Frames.v + Spec/Crc16.v (hand-written request decoders, bit-serial CRC)'],
    assumptions=['registers 0..65535, values -32768..65535, comm address and function code are bytes (the documented domain); '
                 'outside it the builders truncate silently, which the property does not cover'],
)

"""C04 -- every request terminates after at most retries+1 transmissions."""
from .protoprop import spec

SPEC = spec(
    'C04',
    ['C04_bound_concurrent_refuted', 'C04_waiting_caller_has_a_timeout_armed', 'C04_except_clauses_are_the_model', 'C04_wait_for_is_the_model',
     'C04_udp_timeout_mechanism_is_the_model', 'C04_tcp_timeout_mechanism_is_the_model', 'C04_max_retries_reached_is_the_model', 'C04_send_request_sync_is_the_model',
     'C04_retry_bounded', 'C04_budget_exhausted', 'C04_retry_consumes_one', 'C04_bound'],
    text='Refinement theorems re-proved on every run: the model functions used below ARE the current source of the corresponding synchronous methods of protocol.py (translated by tools/cb2v.py into the statement language of Model/Callbacks.v, fail-closed): _timeout_mechanism, _max_retries_reached, _send_request. '
         'Coq theorem C04_bound: in every run of the protocol model in which callers use the object one after the other -- any '
         'sequence of arrivals, verdicts, timeouts, connection losses, connect outcomes, send errors, event-loop changes, of any '
         'length -- the number of transmissions of the current request never exceeds retries+1 (invariant proved by induction '
         'over the run, through the retry recursion of send_request).  The model is replayed callback by callback against the '
         'real classes on every check (fault scripts exhaustive to depth 2 (quick) / 3 (thorough) + random deeper ones, UDP/TCP, '
         'keep-alive on/off, connect outcomes), and monitors check on the same runs: no hang, <= retries+1 transmissions, '
         'documented outcome, completion within one timeout of the last event, exact silent-inverter schedule.',
    note='Proof about a hand-written model validated against the code by trace validation (no mismatch tolerated). Liveness '
         '(no hang) and the timing clauses are established by the monitors on the enumerated/random scripts under a virtual '
         'clock, not by a theorem; the bound is stated for sequential callers (with concurrent callers the shared _retry field '
         'makes the budget per object).',
    technique='Coq invariant proof on a hand model + callback-level trace validation against the real classes + monitors',
    design='DESIGN.md section 5 (C04)',
    rule='fault scripts over the 17-letter alphabet: all of depth 1..2 (quick) / 1..3 (thorough), silent inverter for every '
         'configuration, all TCP connect-outcome tuples, seeded random scripts of depth 3..8; distinct by scenario',
)

"""C05 -- retry budget and timeout are per request and exactly as configured."""
from __future__ import annotations
import asyncio, importlib
from ..runner import Stage
from .. import vloop as V, peer as PEER
from .protoprop import spec


def _entry(ctx, name, kw, kind='udp'):
    """run one public entry point against a silent inverter under the virtual loop; -> (transmissions [(ms, bytes)], end ms, exception)"""
    import goodwe
    for m in ('goodwe.exceptions', 'goodwe.modbus', 'goodwe.protocol', 'goodwe.inverter', 'goodwe.sensor', 'goodwe.et', 'goodwe.es', 'goodwe.dt', 'goodwe'):
        importlib.reload(importlib.import_module(m))
    script = PEER.Script('', default='D', timeout=kw.get('timeout', 1))
    loop = V.VLoop()
    loop.peer_factory = PEER.factory(script)

    async def main(lp):
        try:
            await getattr(goodwe, name)(**kw)
            return None
        except BaseException as ex:      # noqa
            return ex
    lp, out = V.run(main, loop)
    end = round(lp._vtime * 1000)
    res = out[1] if out[0] == 'ok' else RuntimeError(f'{out[0]}: {out[1]}')
    return [(t, raw) for t, raw, _, _ in script.log], end, res


def stage_entry_points(ctx):
    """connect/discover/search_inverters apply the (timeout, retries) they were given to every probe they send"""
    st = Stage('entry-points')
    grid = [(1, 0), (1, 3), (2, 1), (3, 2)] + ([(ctx.rng.randrange(1, 6), ctx.rng.randrange(0, 5)) for _ in range(2 if not ctx.deep else 12)])
    cases = []
    for (T, R) in grid:
        for fam in ('ET', 'ES', 'DT'):
            for port in (8899, 502):
                cases.append(('connect', dict(host='192.0.2.9', port=port, family=fam, timeout=T, retries=R)))
        cases.append(('connect', dict(host='192.0.2.9', port=8899, timeout=T, retries=R)))
        cases.append(('discover', dict(host='192.0.2.9', port=8899, timeout=T, retries=R)))
        cases.append(('discover', dict(host='192.0.2.9', port=502, timeout=T, retries=R)))
    cases.append(('search_inverters', {}))
    for name, kw in cases:
        try:
            log, end, out = _entry(ctx, name, kw)
        except Exception as ex:
            st.violation('harness-crash', f'{name}({kw}) crashed the harness: {type(ex).__name__}: {ex}', dict(call=name, kwargs=kw), no_input=True)
            continue
        T, R = (kw.get('timeout', 1), kw.get('retries', 3)) if name != 'search_inverters' else (1, 0)
        st.case((name, tuple(sorted(kw.items()))), sample=dict(call=name, kwargs=kw, transmissions=[(t, raw.hex()) for t, raw in log][:8]))
        # group consecutive identical requests (modulo the Modbus/TCP transaction id) = one request of the library
        groups = []
        for t, raw in log:
            key = raw[2:] if kw.get('port') == 502 else raw
            if groups and groups[-1][0] == key: groups[-1][1].append(t)
            else: groups.append((key, [t]))
        for key, ts in groups:
            ok = len(ts) == R + 1 and all(b - a == T * 1000 for a, b in zip(ts, ts[1:]))
            if not ok:
                st.violation('entry-point-budget', f'{name}({kw}): request {key.hex()} transmitted at {ts} ms; expected {R + 1} transmission(s) {T * 1000} ms apart',
                             dict(call=name, kwargs=kw, request=key.hex(), times=ts))
                break
        if not groups:
            st.violation('entry-point-budget', f'{name}({kw}) transmitted nothing', dict(call=name, kwargs=kw))
        if out is not None and type(out).__name__ not in ('InverterError', 'RequestFailedException', 'MaxRetriesException'):
            st.violation('entry-point-exception', f'{name}({kw}) raised {type(out).__name__}: {out}', dict(call=name, kwargs=kw))
    return st


def stage_entry_budget_e2e(ctx):
    """connect(family, timeout, retries) end to end (real protocol classes, virtual-time loop, simulated inverter): a register block the inverter
    never answers during read_device_info() must be transmitted exactly retries + 1 times -- the probes of optional features included"""
    st = Stage('entry-point-budget-end-to-end')
    from .. import siminv as SI, invmon as IM
    targets = {'ET': [(47547, 47552, 'eco-mode v2 probe'), (47589, 47594, 'peak-shaving probe')],
               'DT': [(30063, 30082, 'meter version info')], 'ES': []}
    grid = [(1, 0), (1, 2), (2, 3)] if not ctx.deep else [(t, r) for t in (1, 2, 5) for r in (0, 1, 2, 3, 4)]
    for fam, tg in targets.items():
        for port in ((8899, 502) if fam != 'ES' else (8899,)):
            for timeout, retries in grid:
                for lo, hi, what in tg:
                    goodwe = SI.reload_goodwe()
                    with SI.e2e():
                        sim = SI.Sim(seed=ctx.rng.randrange(1 << 30))
                        if fam == 'ET': SI.et_identity(sim, serial=IM.ET_SERIALS['205 three-phase'], rated=10000, arm_fw=22)
                        else: SI.dt_identity(sim, serial=IM.DT_SERIALS['three-phase'])
                        sim.silent = [(lo, hi)]
                        host = SI.e2e_host(sim)
                        cfg = dict(entry_point='connect', family=fam, port=port, timeout=timeout, retries=retries, silent=what)
                        st.case((fam, port, timeout, retries, what), sample=cfg if len(st.samples) < 3 else None)
                        try:
                            SI.run_e2e(goodwe.connect(host, port, fam, 0, timeout, retries))
                        except Exception as ex:      # noqa: the property is about the budget, whatever connect() makes of the failure
                            st.count('connect-raises:' + type(ex).__name__)
                        lost = [e for e in sim.log if e.get('lost') and e.get('reg') is not None and lo <= e['reg'] <= hi]
                        if lost and len(lost) != retries + 1:
                            st.violation('entry-point-budget', f'connect(family={fam!r}, port={port}, timeout={timeout}, retries={retries}): the {what} (registers {lo}..) stayed '
                                                               f'unanswered and was transmitted {len(lost)} time(s), expected retries + 1 = {retries + 1}', dict(config=cfg, transmissions=len(lost)))
                        if not lost: st.count('probe-not-sent')
    # the same endpoint (host, port, comm_addr) connected to twice in one process, with different budgets: the first connect() is served completely,
    # the second finds one block unanswered -- it must be transmitted the SECOND call's retries + 1 times
    pairs = [((1, 0), (1, 3)), ((2, 3), (1, 1)), ((1, 2), (1, 0))] if not ctx.deep else [(a, b) for a in grid for b in grid if a != b][::3]
    for fam, tg in targets.items():
        for port in ((8899, 502) if fam != 'ES' else (8899,)):
            for (t1, r1), (t2, r2) in pairs:
                for lo, hi, what in tg[:1]:
                    goodwe = SI.reload_goodwe()
                    with SI.e2e():
                        sim = SI.Sim(seed=ctx.rng.randrange(1 << 30))
                        if fam == 'ET': SI.et_identity(sim, serial=IM.ET_SERIALS['205 three-phase'], rated=10000, arm_fw=22)
                        else: SI.dt_identity(sim, serial=IM.DT_SERIALS['three-phase'])
                        host = SI.e2e_host(sim)
                        cfg = dict(entry_point='connect twice to the same endpoint', family=fam, port=port, first=dict(timeout=t1, retries=r1),
                                   second=dict(timeout=t2, retries=r2), silent_during_second=what)
                        st.case((fam, port, t1, r1, t2, r2, what, 'twice'), sample=cfg if len(st.samples) < 4 else None)
                        try:
                            SI.run_e2e(goodwe.connect(host, port, fam, 0, t1, r1))
                        except Exception as ex:      # noqa
                            st.count('first-connect-raises:' + type(ex).__name__)
                        n0 = len(sim.log)
                        sim.silent = [(lo, hi)]
                        try:
                            SI.run_e2e(goodwe.connect(host, port, fam, 0, t2, r2))
                        except Exception as ex:      # noqa
                            st.count('connect-raises:' + type(ex).__name__)
                        lost = [e for e in sim.log[n0:] if e.get('lost') and e.get('reg') is not None and lo <= e['reg'] <= hi]
                        if lost and len(lost) != r2 + 1:
                            st.violation('entry-point-budget', f'connect(family={fam!r}, port={port}, timeout={t1}, retries={r1}) and then, same host/port/comm_addr, '
                                                               f'connect(..., timeout={t2}, retries={r2}): during the second call the {what} (registers {lo}..) stayed unanswered '
                                                               f'and was transmitted {len(lost)} time(s), expected retries + 1 = {r2 + 1}', dict(config=cfg, transmissions=len(lost)))
                        if not lost: st.count('probe-not-sent')
    return st


SPEC = spec(
    'C05',
    ['C05_budget_is_assigned_by_the_constructor_only', 'C05_execute_finally_is_the_model',
     'C05_entry_points_pass_timeout_and_retries', 'C05_search_one_transmission_one_second', 'C05_all_sites', 'C05_request_leaves_budget_full',
     'C05_idle_means_fresh_budget', 'C05_budget_is_the_configured_one'],
    text='(a) tools/flow.py follows, on every run, the constructor chains connect/discover/search_inverters -> ET/ES/DT.__init__ -> '
         'Inverter.__init__ -> _create_protocol -> Udp/TcpInverterProtocol.__init__ -> InverterProtocol.__init__ symbolically and '
         'emits, per construction site, what is stored in the protocol object as functions of the entry point\'s own '
         '(timeout, retries); Coq proves all 20 sites store exactly (timeout, retries) for ALL values, search (1, 0).  '
         '(b) Protocol model: every request leaves _retry at 0 (any outcome); in sequential runs _retry = 0 whenever no request is '
         'in progress (invariant over all runs); never above the configured budget.  Monitors: the entry points against a silent '
         'inverter on a (timeout, retries) grid; a silent request after every history of outcomes (success, exhausted, rejected, '
         'transport error, success after k retries, new event loop) gets exactly retries+1 transmissions spaced one timeout.',
    note='Trusted: tools/flow.py (fail-closed symbolic follower: re-bound parameters, computed arguments, *args abort the '
         'generation) in addition to the protocol model and its trace validation.',
    technique='Coq proof over regenerated flow model (flow.py) + Coq invariant on hand model + trace validation + monitors',
    design='DESIGN.md section 5 (C05)',
    rule='histories: every single outcome and seeded pairs (thorough: all pairs) of 12 outcome kinds before a silent request x '
         'UDP/TCP x keep-alive x retries; entry points x (timeout, retries) grid x families x ports',
    extra_stages=[stage_entry_points, stage_entry_budget_e2e],
    extra_tb=['tools/flow.py (symbolic follower of the constructor chains, regenerates coq/Gen/FlowGen.v on every run)'],
)

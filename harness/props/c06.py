"""C06 -- concurrent callers are serialised and each gets the answer to its own request."""
from .protoprop import spec

SPEC = spec(
    'C06',
    ['C06_release_frees_the_lock', 'C06_acquire_queues_behind_waiters', 'C06_future_completes_once', 'C06_delivered_data_was_accepted'],
    text='The protocol model contains asyncio.Lock of CPython 3.12 (waiter queue, woken-but-not-yet-running waiter) and any number '
         'of caller tasks; it is replayed callback by callback against the real classes with 2..4 concurrent callers under '
         'loss/delay/fragmentation on UDP and TCP, and monitors check on the same runs that no transmission is made while another '
         "caller's transmission is still waiting for its answer and that every caller receives the registers it asked for. "
         'Coq theorems: lock primitives (release frees the lock and wakes at most the first waiter; acquire queues behind existing '
         'waiters), futures complete at most once, delivered data was accepted by the validator.  The whole-run mutual-exclusion '
         'invariant is NOT proved as a theorem.',
    note='Partial: the mutual-exclusion / own-answer statements over whole runs rest on trace validation of the model plus the '
         'overlap and own-answer monitors over enumerated and random interleavings, not on a theorem.',
    technique='trace-validated Coq model + one-step Coq lemmas + interleaving enumeration with monitors',
    design='DESIGN.md section 5 (C06)',
    level='model_checking',
    rule='2..4 callers with start offsets from a grid x per-transmission faults {drop, prompt, delayed, two fragments} (all triples '
         'for a fixed 3-caller pattern + seeded random), UDP/TCP, keep-alive on/off',
)

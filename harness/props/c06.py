"""C06 -- concurrent callers are serialised and each gets the answer to its own request."""
from .protoprop import spec

SPEC = spec(
    'C06',
    ['C06_finally_is_the_model', 'C06_retry_releases_the_lock_as_the_source_does', 'C06_close_takes_the_lock_as_the_source_does',
     'C06_one_request_in_flight', 'C06_transmit_only_when_nobody_else_waits', 'C06_pending_future_is_the_awaited_one',
     'C06_waiting_caller_owns_the_response_future',
     'C06_release_frees_the_lock', 'C06_acquire_queues_behind_waiters', 'C06_future_completes_once', 'C06_delivered_data_was_accepted',
     'C06_two_callers_run', 'C06_second_caller_queues'],
    text='Coq theorems over ALL runs of the protocol model (any number of caller tasks, any interleaving of loop callbacks, I/O, '
         'timers, OS errors, close() calls, loop changes, any fault oracle): (1) lock invariant of asyncio.Lock + the hand-rolled '
         'release-before-retry / release-in-finally of send_request + the lock in TcpInverterProtocol.close(): at most one caller is '
         'connecting or awaiting an answer; (2) a request is transmitted (ASend) only while no other caller is connecting or '
         'awaiting its answer; (3) whenever a future is pending it is the protocol object\'s response_future and exactly one '
         'caller awaits it, so data accepted while a caller waits completes that caller\'s future and nobody else\'s; plus lock '
         'primitives, futures complete once, delivered data was accepted; non-vacuity runs with two callers.  The model is replayed '
         'callback by callback against the real classes with 2..4 concurrent callers under loss/delay/fragmentation on UDP and TCP, '
         'and monitors check on the same runs that no transmission overlaps a waiting one and that every caller receives the registers it asked for.',
    note='The theorems are about the hand-written model Model/Proto.v; its tie to goodwe/protocol.py + CPython asyncio is trace '
         'validation (every loop callback of every scenario replayed with a white-box projection), not a proof.  Timing premises of '
         'the property (answers arrive before the timeout, at most once) are scenario constraints of the monitors, not modelled in Coq.',
    technique='Coq invariant proofs (Proofs/ProtoMutex.v, ProtoAnswer.v) over a trace-validated model + interleaving enumeration with monitors',
    design='DESIGN.md section 5 (C06)',
    level='proof',
    rule='2..4 callers with start offsets from a grid x per-transmission faults {drop, prompt, delayed, two fragments} (all triples '
         'for a fixed 3-caller pattern + seeded random), UDP/TCP, keep-alive on/off',
)
